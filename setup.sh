#!/bin/sh
# Build everything from files on disk (offline): translator, generated files, all Coq files, harness.
set -e
cd "$(dirname "$0")"
export GOFLAGS=-mod=mod GOPROXY=off GOSUMDB=off GOTOOLCHAIN=local
mkdir -p bin evidence replays coq/Gen
(cd go/xlate && go build -o ../../bin/xlate .)
./bin/xlate /repo coq/Gen || true
(cd coq && coq_makefile -f _CoqProject -o Makefile >/dev/null && timeout 7000 make -j16)
cp /repo/go.sum go/harness/go.sum
(cd go/harness && go build -tags verif -o ../../bin/harness .)
echo setup done
