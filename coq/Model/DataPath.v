(* L6: the measurement data path end to end.  The emulator side: MarshalMessage (identifier from the configuration,
   then the measurement's MarshalMTData2Packet: Model.Codec.encode) and the MTData2 message around it; the client
   side: Receive, ScanMeasurementData (packet walk, dispatch on the data type, decode at the packet's precision).
   Executable definitions only. *)
From Coq Require Import ZArith NArith List Bool String.
Require Import Base.Bytes Model.Frame Model.Packet Model.Config Model.Codec Model.Client Model.Emulator Model.Link
  Spec.ClientSpec Spec.LayoutKinds Gen.Funcs Gen.Layouts.
Import ListNotations.
Open Scope Z_scope.

(* emulator.MarshalMessage(measurement of Go type ty with field values vs, data type dt) *)
Definition marshal_message (e : emu) (ty : string) (dt : Z) (vs : list Z) : option bytes :=
  match marshal_id e dt with
  | Some wire => encode ty wire vs
  | None => None
  end.

Definition data_frame (pkt : bytes) : bytes := new_message 54%N pkt.

(* the client: the frame's payload, its packets, for each the Go type its data type dispatches to and the decoded
   fields at the packet's precision (None: the scan step does not report the packet) *)
Definition packet_value (p : bytes) : option (string * list Z) :=
  match dispatch p, pkt_wire p, pkt_data p with
  | Some (_, ty), Some w, Some d =>
      match decode ty (Z.land (Z.of_N w) 3) d with Some vs => Some (ty, vs) | None => None end
  | _, _, _ => None
  end.

Definition client_values (f : bytes) : list (option (string * list Z)) :=
  match msg_data f with
  | Some payload => map packet_value (packets_of payload)
  | None => []
  end.

(* the value "at the configured precision": what the layout's encoding retains *)
Definition at_precision (ty : string) (prec : Z) (vs : list Z) : option (list Z) :=
  match dec_layout_of ty prec with
  | Some l => decode_fields l (encode_fields l vs)
  | None => None
  end.
