(* L1: timestamp records <-> instants.  Mirrors UTCTime.Time, UTCTime.UnmarshalTime and GNSSPVTData.Time
   over the model of Go's time package in Lib/Civil.v.  An instant is (seconds since 0001-01-01T00:00:00Z,
   nanoseconds in [0, 1e9)); the zone of a time.Time does not change its instant and Time.UTC() discards it. *)
From Coq Require Import ZArith List Bool.
Require Import Lib.Civil.
Open Scope Z_scope.

Definition billion : Z := 1000000000.

(* time.Date(year, month, day, hour, min, sec, nsec, UTC), with Go's normalisation of out-of-range fields *)
Definition go_date (y mo d h mi s ns : Z) : Z * Z :=
  let m' := mo - 1 in
  let y2 := y + m' / 12 in
  let m2 := m' mod 12 + 1 in
  let s2 := s + ns / billion in
  (((dby y2 + dbm (is_leap y2) m2 + (d - 1)) * 86400 + h * 3600 + mi * 60 + s2), ns mod billion).

(* a record: (ns, year, month, day, hour, minute, second) *)
Definition utc_record := (Z * Z * Z * Z * Z * Z * Z)%type.

Definition utc_to_instant (r : utc_record) : Z * Z :=
  let '(ns, y, mo, d, h, mi, s) := r in go_date y mo d h mi s ns.

(* UnmarshalTime: t := ts.UTC(); the calendar fields of t, truncated to the record's field widths *)
Definition instant_to_utc (t : Z * Z) : utc_record :=
  let '(T, ns) := t in
  let '(y, mo, d) := civil_from_days (T / 86400) in
  let sod := T mod 86400 in
  (ns mod 2 ^ 32, y mod 2 ^ 16, mo mod 2 ^ 8, d mod 2 ^ 8, (sod / 3600) mod 2 ^ 8, ((sod mod 3600) / 60) mod 2 ^ 8, (sod mod 60) mod 2 ^ 8).

(* GNSSPVTData.Time(): the same, with the signed nanosecond offset *)
Definition gnss_to_instant (y mo d h mi s nano : Z) : Z * Z := go_date y mo d h mi s nano.

Definition unix_offset : Z := 62135596800.   (* seconds from 0001-01-01 to 1970-01-01 *)
