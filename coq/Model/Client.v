(* L4: the client state machine.  Mirrors client.go: Receive, ScanMeasurementData, the accessors and the
   eleven commands (send + receiveUntil), over the scanner model and a scripted port.
   Executable definitions only.  The dispatch table and the size function are the GENERATED ones. *)
From Coq Require Import String.
Require Import Base.Bytes Model.Frame Model.Packet Model.Split Lib.Bufio Spec.LayoutKinds Gen.Funcs Gen.Layouts.
Open Scope N_scope.

(* ---- identifiers and the generated tables ---- *)
Definition pkt_dtype (p : bytes) : Z :=                     (* packet.Identifier().DataType *)
  let '(t, _, _) := f_DataIdentifier_SetUint16 0 0 0 (Z.of_N (be16 (nthb p 0) (nthb p 1))) in t.

Fixpoint lookup_z {A} (k : Z) (l : list (Z * A)) : option A :=
  match l with
  | [] => None
  | (k', v) :: t => if Z.eqb k k' then Some v else lookup_z k t
  end.

(* Client.MeasurementData(): the slot (field name, Go type) the packet's data type dispatches to *)
Definition dispatch (p : bytes) : option (string * string) := lookup_z (pkt_dtype p) dispatch_table.

(* the decoders (binary.Read into a fixed-size value) accept exactly when the data is long enough: the size
   is that of the GENERATED decoder layout of the Go type the packet dispatches to, at the packet's precision *)
Definition min_data_size (p : bytes) : option Z :=
  let '(t, c, pr) := f_DataIdentifier_SetUint16 0 0 0 (Z.of_N (be16 (nthb p 0) (nthb p 1))) in
  match dispatch p with
  | Some (_, ty) => option_map layout_size (dec_layout_of ty pr)
  | None => None
  end.
Definition decodable (p : bytes) : bool :=
  match min_data_size p with Some n => (Z.to_nat n <=? length p - 3)%nat | None => false end.

(* ---- state ---- *)
Record client := {
  csc : scanner; crd : reader;                (* bufio.Scanner and the port's read side *)
  cmsg : option bytes;                        (* c.message *)
  cpay : option bytes;                        (* c.mtData2 *)
  cpkt : option bytes;                        (* c.mtData2Packet *)
  cnext : nat;                                (* c.nextPacketIndex *)
  cslots : list (string * bytes);             (* slot -> packet last decoded into it *)
  cwritten : list bytes;                      (* everything written to the port, in order *)
  cwplan : list bool                          (* outcome of the next writes: true = succeeds (default) *)
}.

Definition new_client (r : reader) (wplan : list bool) : client :=
  {| csc := init_scanner; crd := r; cmsg := None; cpay := None; cpkt := None; cnext := 0;
     cslots := []; cwritten := []; cwplan := wplan |}.

Inductive recv_res := ROk | RRejected | RTerminal (t : terminal) | RPanic.

Definition scan_fuel (c : client) : nat := (2 * length (rest (crd c)) + length (sched (crd c)) + 5)%nat.

(* Client.Receive *)
Definition receive (c : client) : recv_res * client :=
  let clr s r m pay := {| csc := s; crd := r; cmsg := m; cpay := pay; cpkt := None; cnext := 0;
                          cslots := cslots c; cwritten := cwritten c; cwplan := cwplan c |} in
  match scan (scan_fuel c) (csc c) (crd c) with
  | SFuel => (RPanic, clr (csc c) (crd c) None None)
  | SR false s' r' => (RTerminal (sc_err s'), clr s' r' None None)
  | SR true s' r' =>
    match tok s' with
    | None => (RPanic, clr s' r' None None)
    | Some t =>
      match validate t with
      | VOk => let pay := match identifier t with
                          | Some i => if i =? mid_mtdata2 then msg_data t else None
                          | None => None end in
               (ROk, clr s' r' (Some t) pay)
      | VErr _ => (RRejected, clr s' r' (Some t) None)
      | VOOB => (RPanic, clr s' r' (Some t) None)
      end
    end
  end.

Fixpoint set_slot (l : list (string * bytes)) (k : string) (v : bytes) : list (string * bytes) :=
  match l with
  | [] => [(k, v)]
  | (k', v') :: t => if String.eqb k k' then (k, v) :: t else (k', v') :: set_slot t k v
  end.

(* Client.ScanMeasurementData *)
Definition scan_md (c : client) : outcome bool * client :=
  match cmsg c with
  | None => (Panic, c)                                   (* nil message: index out of range in Identifier() *)
  | Some m =>
    match identifier m with
    | None => (Panic, c)
    | Some i =>
      if negb (i =? mid_mtdata2) then (Ok false, c) else
      match packet_at (match cpay c with Some d => d | None => [] end) (cnext c) with
      | Ok p =>
        let upd sl := {| csc := csc c; crd := crd c; cmsg := cmsg c; cpay := cpay c; cpkt := Some p;
                         cnext := (cnext c + length p)%nat; cslots := sl; cwritten := cwritten c; cwplan := cwplan c |} in
        match dispatch p with
        | None => (Ok false, upd (cslots c))
        | Some (slot, _) => if decodable p then (Ok true, upd (set_slot (cslots c) slot p))
                            else (Ok false, upd (cslots c))
        end
      | Err _ => (Ok false, c)
      | _ => (Panic, c)
      end
    end
  end.

(* accessors *)
Definition raw_message (c : client) : option bytes := tok (csc c).          (* c.sc.Bytes() *)
Definition message_identifier (c : client) : outcome N :=
  match cmsg c with Some m => of_opt (identifier m) | None => Panic end.
Definition raw_packet (c : client) : option bytes := cpkt c.
Definition data_type (c : client) : outcome Z :=
  match cpkt c with Some p => if (2 <=? length p)%nat then Ok (pkt_dtype p) else Panic | None => Panic end.
Definition measurement_slot (c : client) : outcome (option string) :=
  match cpkt c with
  | Some p => if (2 <=? length p)%nat then Ok (option_map fst (dispatch p)) else Panic
  | None => Panic
  end.
Definition getter (c : client) (slot : string) : option bytes :=
  (fix go (l : list (string * bytes)) := match l with
     | [] => None | (k, v) :: t => if String.eqb k slot then Some v else go t end) (cslots c).

(* ---- commands: send, then receiveUntil ---- *)
Inductive cmd_res := CmdOk | CmdWriteErr | CmdRecvErr (r : recv_res).

Definition send (c : client) (m : bytes) : bool * client :=
  match cwplan c with
  | false :: pl => (false, {| csc := csc c; crd := crd c; cmsg := cmsg c; cpay := cpay c; cpkt := cpkt c; cnext := cnext c;
                              cslots := cslots c; cwritten := cwritten c; cwplan := pl |})
  | _ => (true, {| csc := csc c; crd := crd c; cmsg := cmsg c; cpay := cpay c; cpkt := cpkt c; cnext := cnext c;
                   cslots := cslots c; cwritten := cwritten c ++ [m]; cwplan := tl (cwplan c) |})
  end.

Fixpoint receive_until (fuel : nat) (c : client) (until : byte) : cmd_res * client :=
  match fuel with
  | O => (CmdRecvErr RPanic, c)
  | S f =>
    match receive c with
    | (ROk, c') =>
        match message_identifier c' with
        | Ok i => if i =? until then (CmdOk, c') else receive_until f c' until
        | _ => (CmdRecvErr RPanic, c')
        end
    | (r, c') => (CmdRecvErr r, c')
    end
  end.

Definition until_fuel (c : client) : nat := (length (pend (csc c)) + length (rest (crd c)) + 2)%nat.

(* one command: request identifier, request payload, awaited identifier (the table is Gen.Commands) *)
Definition command (c : client) (req : byte) (payload : bytes) (ack : byte) : cmd_res * client :=
  match send c (new_message req payload) with
  | (false, c') => (CmdWriteErr, c')
  | (true, c') => receive_until (until_fuel c') c' ack
  end.
