(* L3: the bufio.SplitFunc ScanMessages (scanmessages.go), and the reference segmentation of a
   complete stream in one unbounded buffer.  Executable definitions only. *)
Require Import Base.Bytes Model.Frame.
Open Scope N_scope.

(* index of first FA FF pair *)
Fixpoint find_hdr (d : list byte) : option nat :=
  match d with
  | [] => None
  | a :: t =>
    match t with
    | b :: _ => if (a =? FA) && (b =? FF) then Some O
                else option_map S (find_hdr t)
    | [] => None
    end
  end.


(* total length claimed by a header-complete message m (starting at FA FF), or None if
   the length field is not yet available *)
Definition claimed_len (m : list byte) : option nat :=
  if (length m <? 4)%nat then None
  else let l := nthb m 3 in
       if l =? 255 then
         if (length m <? 6)%nat then None
         else Some (6 + N.to_nat (nthb m 4 * 256 + nthb m 5) + 1)%nat
       else Some (4 + N.to_nat l + 1)%nat.

Definition last_is_FA (d : list byte) : bool :=
  match rev d with x :: _ => x =? FA | [] => false end.

(* ScanMessages: (advance, token) ; never errors *)
Definition scan_messages (d : list byte) (atEOF : bool) : nat * option (list byte) :=
  match d with
  | [] => (O, None)   (* Go: only reachable with atEOF; with !atEOF Go would panic, bufio never does that *)
  | _ =>
    match find_hdr d with
    | None => if last_is_FA d then (length d - 1, None)%nat else (length d, None)
    | Some i =>
      let m := skipn i d in
      match claimed_len m with
      | None => (i, None)
      | Some L => if (length m <? L)%nat then (i, None)
                  else ((i + L)%nat, Some (firstn L m))
      end
    end
  end.

(* reference segmentation of a complete stream: what one unbounded buffer at EOF gives *)
Fixpoint segments (fuel : nat) (s : list byte) : list (list byte) :=
  match fuel with
  | O => []
  | S f =>
    match scan_messages s true with
    | (a, Some t) => t :: segments f (skipn a s)
    | (_, None) => []
    end
  end.
Definition segs (s : list byte) := segments (S (length s)) s.

