(* L2: MTData2 payloads and packets.  Mirrors mtdata2.go (PacketAt, NewMTData2Package, accessors). *)
Require Import Base.Bytes.
Open Scope N_scope.

Definition insufficient : N := 1.   (* error kind: "insufficient data" *)

(* MTData2.PacketAt(i), i >= 0 *)
Definition packet_at (m : bytes) (i : nat) : outcome bytes :=
  if (length m <? i + 3)%nat then Err insufficient else
  match get m (i + 2) with
  | None => OOB
  | Some l =>
      if (length m <? i + 3 + N.to_nat l)%nat then Err insufficient
      else Ok (sub m i (3 + N.to_nat l))
  end.

(* NewMTData2Package(length, id): wire = id.Uint16() *)
Definition new_packet (len : N) (wire : N) : bytes :=
  [(wire / 256) mod 256; wire mod 256; len] ++ repeat 0 (N.to_nat len).

(* packet accessors (index the header unconditionally, as the Go code does) *)
Definition pkt_wire (p : bytes) : option N :=
  match get p 0, get p 1 with Some h, Some l => Some (be16 h l) | _, _ => None end.
Definition pkt_data (p : bytes) : option bytes :=
  if (3 <=? length p)%nat then Some (skipn 3 p) else None.

(* the walk performed by repeated PacketAt / by Client.ScanMeasurementData: packets and final offset *)
Fixpoint walk (fuel : nat) (m : bytes) (i : nat) : list bytes * nat :=
  match fuel with
  | O => ([], i)
  | S f =>
    match packet_at m i with
    | Ok p => let '(ps, j) := walk f m (i + length p) in (p :: ps, j)
    | _ => ([], i)
    end
  end.
