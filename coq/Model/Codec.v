(* L1: measurement data codecs.  Mirrors fixedpoint.go and the field-wise behaviour of measurementdata.go:
   decoders are binary.Read (big endian, field after field) into the value whose layout is GENERATED (Gen.Layouts),
   followed by the per-precision conversion to float64; encoders write the same fields at the same offsets.
   IEEE-754 operations are Flocq's (BinarySingleNaN): exactly the operations the Go code performs
   (float64(intN), / 2^k, * 2^k, uintN(f) on amd64, float64(float32), float32(float64)).
   Values cross the Go/Coq boundary as bit patterns; NaNs are canonicalised.  Executable definitions only. *)
From Coq Require Import ZArith List String.
From Flocq Require Import Core BinarySingleNaN.
From Flocq Require Binary Bits.
Require Import Base.Bytes Spec.LayoutKinds Gen.Layouts.
Require Export Base.GoFloat.
Import ListNotations.
Open Scope Z_scope.

(* ---- fixed point ---- *)
Definition sint (w : Z) (u : Z) : Z := if u <? 2 ^ (w - 1) then u else u - 2 ^ w.

(* FP1220.Float64: float64(int32(be32)) / 2^20 *)
Definition fp1220_float64 (b : bytes) : f64 :=
  BinarySingleNaN.Bdiv mode_NE (f64_of_Z (sint 32 (Z.of_N (be (firstn 4 b))))) factor1220.
(* FP1632.Float64: bytes [b3 b2 b1 b0 b5 b4] -> int64 with sign extension from bit 47, / 2^32 *)
Definition fp1632_int (b : bytes) : Z :=
  sint 48 (Z.of_N (be (firstn 2 (skipn 4 b)) * 2 ^ 32 + be (firstn 4 b))%N).
Definition fp1632_float64 (b : bytes) : f64 :=
  BinarySingleNaN.Bdiv mode_NE (f64_of_Z (fp1632_int b)) factor1632.

Definition zbe (n : nat) (v : Z) : bytes := to_be n (Z.to_N (v mod 2 ^ (8 * Z.of_nat n))).

(* FromFloat64 *)
Definition fp1220_from (x : f64) : bytes := zbe 4 (to_uint 32 (BinarySingleNaN.Bmult mode_NE x factor1220)).
Definition fp1632_from (x : f64) : bytes :=
  let d := zbe 8 (to_uint 64 (BinarySingleNaN.Bmult mode_NE x factor1632)) in
  firstn 4 (skipn 4 d) ++ firstn 2 (skipn 2 d).

(* ---- one field ---- *)
(* decoded values are integers: the number itself for integer kinds, the float64 bit pattern for real kinds *)
Definition decode_field (k : fkind) (b : bytes) : Z :=
  match k with
  | KU8 | KU16 | KU32 | KU64 => Z.of_N (be b)
  | KI8 => sint 8 (Z.of_N (be b)) | KI16 => sint 16 (Z.of_N (be b))
  | KI32 => sint 32 (Z.of_N (be b)) | KI64 => sint 64 (Z.of_N (be b))
  | KF64 => Z.of_N (be b)                                           (* binary.Read: the bits as they are *)
  | KF32 => bits_of_f64 (widen (f32_of_bits (Z.of_N (be b))))
  | KFP1220 => bits_of_f64 (fp1220_float64 b)
  | KFP1632 => bits_of_f64 (fp1632_float64 b)
  end.

Definition encode_field (k : fkind) (v : Z) : bytes :=
  match k with
  | KU8 | KI8 => zbe 1 v | KU16 | KI16 => zbe 2 v | KU32 | KI32 => zbe 4 v | KU64 | KI64 => zbe 8 v
  | KF64 => zbe 8 v                                                  (* math.Float64bits *)
  | KF32 => zbe 4 (bits_of_f32 (narrow (f64_of_bits v)))            (* math.Float32bits(float32(x)) *)
  | KFP1220 => fp1220_from (f64_of_bits v)
  | KFP1632 => fp1632_from (f64_of_bits v)
  end.

(* ---- a whole value ---- *)
Fixpoint decode_fields (l : list (string * fkind)) (d : bytes) : option (list Z) :=
  match l with
  | [] => Some []
  | (_, k) :: t =>
      let n := Z.to_nat (ksize k) in
      if (length d <? n)%nat then None else
      match decode_fields t (skipn n d) with
      | Some vs => Some (decode_field k (firstn n d) :: vs)
      | None => None
      end
  end.

Fixpoint encode_fields (l : list (string * fkind)) (vs : list Z) : bytes :=
  match l, vs with
  | (_, k) :: t, v :: vs' => encode_field k v ++ encode_fields t vs'
  | _, _ => []
  end.

(* UnmarshalMTData2Packet of the Go type [ty] on a packet: binary.Read needs the whole value, extra data is ignored *)
Definition decode (ty : string) (prec : Z) (data : bytes) : option (list Z) :=
  match dec_layout_of ty prec with
  | Some l => if (length data <? Z.to_nat (layout_size l))%nat then None else decode_fields l data
  | None => None
  end.

(* MarshalMTData2Packet(id): header (identifier, size) then the fields *)
Definition encode (ty : string) (wire : Z) (vs : list Z) : option bytes :=
  let prec := Z.land wire 3 in
  match dec_layout_of ty prec, enc_size_of ty prec with
  | Some l, Some sz => Some (zbe 2 wire ++ zbe 1 sz ++ encode_fields l vs)
  | _, _ => None
  end.
