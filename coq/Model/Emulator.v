(* L5: the emulator as a state machine over events.  Mirrors xsensemulator/emulator.go: the receive loop's handling
   of one incoming frame, SetSendMode, SetOutputConguration, Transmit, MarshalMessage, LastMessageIdentifier. *)
From Coq Require Import ZArith List Bool.
Require Import Base.Bytes Model.Frame Model.Config Gen.Funcs.
Import ListNotations.
Open Scope Z_scope.

Definition mid_goto_config : Z := 0x30.
Definition mid_set_outconf : Z := 0xC0.
Definition mid_goto_meas : Z := 0x10.
Definition mid_meas : Z := 0x36.

Record emu := {
  emode : Z;                 (* lastMessageIdentifier *)
  econf : list setting;      (* outputConf *)
  ealive : bool;             (* the receive loop has not returned *)
  eport : list bytes         (* everything written to the port, in order *)
}.
Definition emu_init : emu := {| emode := 0; econf := []; ealive := true; eport := [] |}.

Inductive eevent :=
| ERecv (frame : bytes)              (* the receive loop's scanner delivers this token *)
| ESendMode | ESetConf (cfg : list setting)
| ETransmit (m : bytes)
| EMarshal (dtype : Z)
| ELastId.

(* what the caller / the port sees *)
Inductive eobs :=
| OWrote (frames : list bytes)       (* frames written to the port by this step (receive loop) *)
| OTx (res : Z) (frames : list bytes)   (* Transmit: 0 written, 1 not in measurement mode, 2 validation failure *)
| OMar (wire : option Z)             (* MarshalMessage: the identifier it encodes with, or not in configuration *)
| OId (z : Z) | ONone.

Definition measuring (s : emu) : bool := emode s =? mid_meas.

Definition with_mode (s : emu) (m : Z) (ack : bytes) : emu :=
  {| emode := m; econf := econf s; ealive := ealive s; eport := eport s ++ [ack] |}.

Definition estep (s : emu) (e : eevent) : eobs * emu :=
  match e with
  | ERecv f =>
      if negb (ealive s) then (OWrote [], s) else
      match validate f with
      | VOk =>
          match identifier f, msg_data f with
          | Some i, Some d =>
              let i := Z.of_N i in
              if i =? mid_goto_config then
                let a := new_message 49%N [] in (OWrote [a], with_mode s mid_goto_config a)
              else if i =? mid_set_outconf then
                let a := new_message 193%N [] in
                (OWrote [a], {| emode := mid_set_outconf; econf := outconf_unmarshal (econf s) d; ealive := true; eport := eport s ++ [a] |})
              else if i =? mid_goto_meas then
                let a := new_message 54%N [] in (OWrote [a], with_mode s mid_meas a)
              else (OWrote [], s)
          | _, _ => (OWrote [], s)
          end
      | _ => (OWrote [], {| emode := emode s; econf := econf s; ealive := false; eport := eport s |})
      end
  | ESendMode => (ONone, {| emode := mid_meas; econf := econf s; ealive := ealive s; eport := eport s |})
  | ESetConf cfg => (ONone, {| emode := emode s; econf := cfg; ealive := ealive s; eport := eport s |})
  | ETransmit m =>
      if negb (measuring s) then (OTx 1 [], s) else
      match validate m with
      | VOk => (OTx 0 [m], {| emode := emode s; econf := econf s; ealive := ealive s; eport := eport s ++ [m] |})
      | _ => (OTx 2 [], s)
      end
  | EMarshal dt =>
      (OMar (fold_left (fun acc (st : setting) => let '(t, c, p, _) := st in
                                                   if t =? dt then Some (f_DataIdentifier_Uint16 t c p) else acc) (econf s) None), s)
  | ELastId => (OId (emode s), s)
  end.

Fixpoint erun (s : emu) (es : list eevent) : list eobs * emu :=
  match es with
  | [] => ([], s)
  | e :: t => let '(o, s') := estep s e in let '(os, s'') := erun s' t in (o :: os, s'')
  end.

(* does the event change the mode, and to what: Some true = measuring *)
Definition mode_effect (s : emu) (e : eevent) : option bool :=
  match e with
  | ERecv f =>
      if negb (ealive s) then None else
      match validate f with
      | VOk => match identifier f with
               | Some i => let i := Z.of_N i in
                           if i =? mid_goto_config then Some false else if i =? mid_set_outconf then Some false
                           else if i =? mid_goto_meas then Some true else None
               | None => None end
      | _ => None
      end
  | ESendMode => Some true
  | _ => None
  end.
