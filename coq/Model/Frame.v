(* L2: frames.  Mirrors message.go (Validate, NewMessage, accessors, IsError, ErrorCode, String's
   branch structure).  Executable definitions only. *)
Require Import Base.Bytes.
Open Scope N_scope.

Definition FA : byte := 250.
Definition FF : byte := 255.
Definition min_ext : N := 255.
Definition max_ext : N := 2048.
Definition mid_error : byte := 66.   (* MessageIdentifierError = 0x42 *)
Definition mid_mtdata2 : byte := 54. (* MessageIdentifierMTData2 = 0x36 *)

(* Message.Checksum: sum of all bytes after the preamble, modulo 256 *)
Definition checksum (m : bytes) : N := sumb (tl m).

Inductive verr := VTooFew | VPreamble | VBusId | VTooFewExt | VExtLen | VSize | VChecksum.
Inductive vres := VOk | VErr (e : verr) | VOOB.

Definition idx (m : bytes) (i : nat) (k : byte -> vres) : vres :=
  match get m i with Some b => k b | None => VOOB end.

(* Message.Validate, statement by statement; every index goes through [get] *)
Definition validate (m : bytes) : vres :=
  if (length m <? 5)%nat then VErr VTooFew else
  idx m 0 (fun b0 => if negb (b0 =? FA) then VErr VPreamble else
  idx m 1 (fun b1 => if negb (b1 =? FF) then VErr VBusId else
  idx m 3 (fun l =>
    if l =? FF then
      if (length m <? 7)%nat then VErr VTooFewExt else
      idx m 4 (fun h => idx m 5 (fun lo =>
        let L := be16 h lo in
        if (L <? min_ext) || (max_ext <? L) then VErr VExtLen else
        if negb (length m =? 6 + N.to_nat L + 1)%nat then VErr VSize else
        if negb (checksum m =? 0) then VErr VChecksum else VOk))
    else
      if negb (length m =? 4 + N.to_nat l + 1)%nat then VErr VSize else
      if negb (checksum m =? 0) then VErr VChecksum else VOk))).

Definition accepted (m : bytes) : bool := match validate m with VOk => true | _ => false end.

(* accessors: each mirrors the Go method; None = index/slice bound outside the frame *)
Definition identifier (m : bytes) : option byte := get m 2.
Definition is_extended (m : bytes) : option bool := option_map (fun l => l =? FF) (get m 3).
Definition msg_length (m : bytes) : option N :=
  match is_extended m with
  | None => None
  | Some true => match get m 4, get m 5 with Some h, Some l => Some (be16 h l) | _, _ => None end
  | Some false => get m 3
  end.
Definition msg_data (m : bytes) : option bytes :=
  match is_extended m, msg_length m with
  | Some e, Some L =>
      let st := if e then 6%nat else 4%nat in
      if (st + N.to_nat L <=? length m)%nat then Some (sub m st (N.to_nat L)) else None
  | _, _ => None
  end.
Definition is_error (m : bytes) : option bool :=
  match identifier m, is_extended m, msg_length m with
  | Some i, Some e, Some L => Some ((i =? mid_error) && negb e && (L =? 1))
  | _, _, _ => None
  end.
Definition error_code (m : bytes) : option byte :=
  match is_error m with
  | None => None
  | Some false => Some 0
  | Some true => get m 4
  end.

(* Message.String(): which accessors it evaluates; result = the rendering's ingredients *)
Inductive rendering := RInvalid (raw : bytes) | RError (mid code : byte) | RData (mid : byte) (data : bytes).
Definition render (m : bytes) : option rendering :=
  match validate m with
  | VOOB => None
  | VErr _ => Some (RInvalid m)
  | VOk =>
    match is_error m with
    | None => None
    | Some true => match identifier m, error_code m with Some i, Some c => Some (RError i c) | _, _ => None end
    | Some false => match identifier m, msg_data m with Some i, Some d => Some (RData i d) | _, _ => None end
    end
  end.

(* NewMessage (payload shorter than 65536) *)
Definition new_message (mid : byte) (p : bytes) : bytes :=
  let n := N.of_nat (length p) in
  let hdr := if min_ext <=? n then [FA; FF; mid; FF; (n / 256) mod 256; n mod 256]
             else [FA; FF; mid; n] in
  let body := hdr ++ p in
  body ++ [(256 - sumb (tl body)) mod 256].
