(* L1: text forms of CAN data identifiers.  String() is the GENERATED table (Gen.Tables.can_id_strings) plus the
   stringer's default branch; UnmarshalText is the generated candidate list searched in order. *)
From Coq Require Import ZArith List String Ascii.
Require Import Gen.Tables.
Import ListNotations.
Open Scope Z_scope.

Fixpoint lookup_zs (k : Z) (l : list (Z * string)) : option string :=
  match l with [] => None | (k', v) :: t => if k =? k' then Some v else lookup_zs k t end.

(* decimal rendering (strconv.FormatInt base 10) of a value 0..255 *)
Definition digit (d : Z) : string := String (ascii_of_N (Z.to_N (48 + d))) EmptyString.
Definition dec (v : Z) : string :=
  if v <? 10 then digit v
  else if v <? 100 then digit (v / 10) ++ digit (v mod 10)
  else digit (v / 100) ++ digit ((v / 10) mod 10) ++ digit (v mod 10).

Definition can_id_name (v : Z) : string :=
  match lookup_zs v can_id_strings with
  | Some s => s
  | None => can_id_default_prefix ++ dec v ++ ")"
  end.

Definition can_id_unmarshal (text : string) : option Z :=
  find (fun d => String.eqb (can_id_name d) text) can_id_known.

Definition named_ids : list Z := map fst can_id_constants.

Fixpoint lookup_zz (k : Z) (l : list (Z * Z)) : option Z :=
  match l with [] => None | (k', v) :: t => if k =? k' then Some v else lookup_zz k t end.
