(* L6: a client driving the emulator over a lossless duplex link, under every schedule.
   Two FIFO channels of frames; the client issues configuration commands one after another (write the request, then
   read until the awaited identifier - client.go: send / receiveUntil, identifiers from the GENERATED command table);
   the emulator's receive loop handles one request at a time (Model.Emulator.estep, i.e. emulator.go: Receive) in two
   separately scheduled steps, "update the state" and "write the acknowledge", in the order the source has them
   (Gen.EmuSkeleton / Spec.Order check that order on every run).  After the last command the environment may call
   Transmit with arbitrary messages and the client reads frames.  A schedule is a list of choices; a choice that
   is not enabled yields None.  The channels carry frames: that a lossless byte stream of well-formed frames is
   delivered frame by frame under every fragmentation is C01's theorem.  Executable definitions only. *)
From Coq Require Import ZArith NArith List Bool String.
Require Import Base.Bytes Model.Frame Model.Config Model.Emulator Gen.Commands.
Import ListNotations.
Open Scope Z_scope.

Inductive lcmd := LGoConfig | LSetConf (cfg : list setting) | LGoMeas.

Definition cmd_name (c : lcmd) : string :=
  match c with LGoConfig => "GoToConfig" | LSetConf _ => "SetOutputConfiguration" | LGoMeas => "GoToMeasurement" end.

Definition find_cmd (name : string) : option (Z * Z) :=
  (fix go (l : list (string * (Z * (string * (Z * string))))) :=
     match l with
     | [] => None
     | (k, (req, (_, (ack, _)))) :: t => if String.eqb k name then Some (req, ack) else go t
     end) command_table.

Definition cmd_req (c : lcmd) : Z := match find_cmd (cmd_name c) with Some (r, _) => r | None => 0 end.
Definition cmd_ack (c : lcmd) : Z := match find_cmd (cmd_name c) with Some (_, a) => a | None => 0 end.
Definition cmd_payload (c : lcmd) : bytes := match c with LSetConf cfg => outconf_marshal cfg | _ => [] end.
Definition cmd_frame (c : lcmd) : bytes := new_message (Z.to_N (cmd_req c)) (cmd_payload c).

Record link := {
  ltodo : list lcmd;          (* commands the client still has to issue *)
  lwait : option lcmd;        (* request written, acknowledge awaited *)
  ldone : list lcmd;          (* commands that have returned successfully, oldest first *)
  lc2e : list bytes;          (* in flight, client to emulator *)
  le2c : list bytes;          (* in flight, emulator to client *)
  lemu : emu;
  lpend : list bytes;         (* what the receive loop has still to write for the request it has just handled *)
  lrecv : list bytes;         (* frames the client's Receive returned after the last command, in order *)
  ltx : list bytes;           (* frames Transmit wrote, in order *)
  lfail : bool                (* a client call returned an error *)
}.

Definition link_init (cmds : list lcmd) : link :=
  {| ltodo := cmds; lwait := None; ldone := []; lc2e := []; le2c := []; lemu := emu_init; lpend := [];
     lrecv := []; ltx := []; lfail := false |}.

Inductive choice := ChClient | ChEmuRecv | ChEmuAck | ChTx (m : bytes).

Definition data_phase (s : link) : bool :=
  match ltodo s, lwait s with [], None => negb (lfail s) | _, _ => false end.

Definition frames_of (o : eobs) : list bytes :=
  match o with OWrote fs => fs | OTx _ fs => fs | _ => [] end.

Definition lstep (s : link) (ch : choice) : option link :=
  match ch with
  | ChClient =>
      if lfail s then None else
      match lwait s with
      | None =>
          match ltodo s with
          | c :: t =>           (* send *)
              Some {| ltodo := t; lwait := Some c; ldone := ldone s; lc2e := lc2e s ++ [cmd_frame c]; le2c := le2c s;
                      lemu := lemu s; lpend := lpend s; lrecv := lrecv s; ltx := ltx s; lfail := false |}
          | [] =>               (* Receive in the data phase *)
              match le2c s with
              | f :: r =>
                  match validate f with
                  | VOk => Some {| ltodo := []; lwait := None; ldone := ldone s; lc2e := lc2e s; le2c := r; lemu := lemu s;
                                   lpend := lpend s; lrecv := lrecv s ++ [f]; ltx := ltx s; lfail := false |}
                  | _ => Some {| ltodo := []; lwait := None; ldone := ldone s; lc2e := lc2e s; le2c := r; lemu := lemu s;
                                 lpend := lpend s; lrecv := lrecv s; ltx := ltx s; lfail := true |}
                  end
              | [] => None
              end
          end
      | Some c =>               (* one iteration of receiveUntil *)
          match le2c s with
          | f :: r =>
              match validate f, identifier f with
              | VOk, Some i =>
                  if Z.of_N i =? cmd_ack c then
                    Some {| ltodo := ltodo s; lwait := None; ldone := ldone s ++ [c]; lc2e := lc2e s; le2c := r;
                            lemu := lemu s; lpend := lpend s; lrecv := lrecv s; ltx := ltx s; lfail := false |}
                  else
                    Some {| ltodo := ltodo s; lwait := Some c; ldone := ldone s; lc2e := lc2e s; le2c := r;
                            lemu := lemu s; lpend := lpend s; lrecv := lrecv s; ltx := ltx s; lfail := false |}
              | _, _ =>
                  Some {| ltodo := ltodo s; lwait := Some c; ldone := ldone s; lc2e := lc2e s; le2c := r;
                          lemu := lemu s; lpend := lpend s; lrecv := lrecv s; ltx := ltx s; lfail := true |}
              end
          | [] => None
          end
      end
  | ChEmuRecv =>
      match lpend s, lc2e s with
      | [], f :: r =>
          let '(o, e') := estep (lemu s) (ERecv f) in
          Some {| ltodo := ltodo s; lwait := lwait s; ldone := ldone s; lc2e := r; le2c := le2c s;
                  lemu := e'; lpend := frames_of o; lrecv := lrecv s; ltx := ltx s; lfail := lfail s |}
      | _, _ => None
      end
  | ChEmuAck =>
      match lpend s with
      | a :: p => Some {| ltodo := ltodo s; lwait := lwait s; ldone := ldone s; lc2e := lc2e s; le2c := le2c s ++ [a];
                          lemu := lemu s; lpend := p; lrecv := lrecv s; ltx := ltx s; lfail := lfail s |}
      | [] => None
      end
  | ChTx m =>
      if data_phase s then
        let '(o, e') := estep (lemu s) (ETransmit m) in
        Some {| ltodo := ltodo s; lwait := lwait s; ldone := ldone s; lc2e := lc2e s; le2c := le2c s ++ frames_of o;
                lemu := e'; lpend := lpend s; lrecv := lrecv s; ltx := ltx s ++ frames_of o; lfail := lfail s |}
      else None
  end.

(* a schedule: the choices in order; None when one of them was not enabled *)
Fixpoint lrun (s : link) (sch : list choice) : option link :=
  match sch with
  | [] => Some s
  | ch :: t => match lstep s ch with Some s' => lrun s' t | None => None end
  end.

(* what the emulator is expected to reflect after a list of acknowledged commands *)
Definition mode_after (done : list lcmd) : Z :=
  match rev done with
  | [] => 0
  | LGoConfig :: _ => mid_goto_config
  | LSetConf _ :: _ => mid_set_outconf
  | LGoMeas :: _ => mid_meas
  end.
Fixpoint conf_after (acc : list setting) (done : list lcmd) : list setting :=
  match done with
  | [] => acc
  | LSetConf cfg :: t => conf_after cfg t
  | _ :: t => conf_after acc t
  end.

(* the canonical schedule of one command, and of a command sequence *)
Definition sched_cmd : list choice := [ChClient; ChEmuRecv; ChEmuAck; ChClient].
Fixpoint sched_cmds (n : nat) : list choice := match n with O => [] | S k => sched_cmd ++ sched_cmds k end.

(* MarshalMessage's identifier choice (emulator.go: the last setting with the data type wins) *)
Definition marshal_id (e : emu) (dt : Z) : option Z :=
  match fst (estep e (EMarshal dt)) with OMar w => w | _ => None end.
