(* L1: configuration codecs and query-result decoders.  Mirrors outputconfiguration.go, canconfig.go,
   canoutputconfiguration.go, informationmessages.go.  Executable definitions only.
   The identifier conversion is the GENERATED SetUint16/Uint16. *)
Require Import Base.Bytes Gen.Funcs.
Open Scope N_scope.

(* ---------- OutputConfiguration ---------- *)
(* a setting: (data type, coordinate system, precision, output frequency) *)
Definition setting := (Z * Z * Z * Z)%type.
Definition zero_setting : setting := (0, 0, 0, 0)%Z.

(* the destination slice: the contents of its backing array up to its capacity (length = capacity) *)
Definition dest := list setting.

(* complete 4-byte groups of a payload *)
Fixpoint groups4 (d : bytes) : list (N * N) :=
  match d with
  | a :: b :: c :: e :: t => (be16 a b, be16 c e) :: groups4 t
  | _ => []
  end.

(* o[i].DataIdentifier.SetUint16(w); o[i].OutputFrequency = f  -- applied to the old element *)
Definition overwrite (old : setting) (g : N * N) : setting :=
  let '(ot, oc, op, _) := old in
  let '(t, c, p) := f_DataIdentifier_SetUint16 ot oc op (Z.of_N (fst g)) in
  (t, c, p, Z.of_N (snd g)).

Fixpoint overwrite_all (base : list setting) (gs : list (N * N)) : list setting :=
  match base, gs with
  | o :: base', g :: gs' => overwrite o g :: overwrite_all base' gs'
  | _, _ => []
  end.

(* OutputConfiguration.Unmarshal into a destination with the given backing contents *)
Definition outconf_unmarshal (dst : dest) (payload : bytes) : list setting :=
  let gs := groups4 payload in
  let count := length gs in
  let base := if (count <=? length dst)%nat then firstn count dst
              else dst ++ repeat zero_setting (count - length dst) in
  overwrite_all base gs.

Definition outconf_marshal (cfg : list setting) : bytes :=
  flat_map (fun s : setting =>
              let '(t, c, p, f) := s in
              let w := Z.to_N (f_DataIdentifier_Uint16 t c p) in
              to_be 2 w ++ to_be 2 (Z.to_N f)) cfg.

(* ---------- CANConfig ---------- *)
(* (enable, baud-rate code as the int8 value) *)
Definition can_marshal (enable : bool) (baud : Z) : bytes :=
  [0; 0; if enable then 1 else 0; N.land (Z.to_N (baud mod 256)) 127].

Definition can_unmarshal (d : bytes) : outcome (bool * Z) :=
  if (length d <=? 3)%nat then Err 1 else
  match get d 2, get d 3 with
  | Some e, Some b => Ok (N.land e 1 =? 1, Z.of_N (N.land b 127))
  | _, _ => OOB
  end.

(* ---------- CANOutputConfiguration ---------- *)
(* a setting: (CAN data identifier (uint8), 29-bit flag, ID mask (uint32), output frequency (uint16)) *)
Definition can_setting := (N * bool * N * N)%type.

Definition canout_marshal_one (s : can_setting) : bytes :=
  let '(id, flag, _, freq) := s in
  let m := to_be 4 id in          (* DefaultIDMask() = uint32(CANDataIdentifier) *)
  let f := to_be 2 freq in
  [N.land id 127; if flag then 1 else 0;
   N.land (nthb m 0) 31; nthb m 1; nthb m 2; nthb m 3;
   N.land (nthb f 0) 7; nthb f 1].
Definition canout_marshal (cfg : list can_setting) : bytes := flat_map canout_marshal_one cfg.

Fixpoint canout_unmarshal (d : bytes) : list can_setting :=
  match d with
  | b0 :: b1 :: b2 :: b3 :: b4 :: b5 :: b6 :: b7 :: t =>
      (N.land b0 127, negb (N.land b1 1 =? 0), be32 (N.land b2 31) b3 b4 b5, be16 (N.land b6 7) b7)
      :: canout_unmarshal t
  | _ => []
  end.

(* ---------- query results ---------- *)
Definition deviceid_unmarshal (d : bytes) : outcome N :=
  match d with
  | [a; b; c; e] => Ok (be32 a b c e)
  | [_; _; _; _; a; b; c; e] => Ok (be32 a b c e)
  | _ => Err 1
  end.

Definition hwversion_unmarshal (d : bytes) : outcome (N * N) :=
  match d with [a; b] => Ok (a, b) | _ => Err 1 end.

(* strings.TrimSpace on ASCII text: drop \t \n \v \f \r and space from both ends *)
Definition is_space (b : byte) : bool := ((9 <=? b) && (b <=? 13)) || (b =? 32).
Fixpoint drop_space (d : bytes) : bytes :=
  match d with b :: t => if is_space b then drop_space t else d | [] => [] end.
Definition productcode_unmarshal (d : bytes) : bytes := rev (drop_space (rev (drop_space d))).
