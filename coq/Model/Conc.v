(* L5: lock discipline (sync.Mutex and sync.RWMutex).  Statements over Lock / Unlock / RLock / RUnlock / Read loc / Write loc / Local with sequence, choice, loops,
   return and (inlined) calls; paths; the static check (abstract interpretation of the "lock held" flag).
   The emulator's methods are rendered in this language by the translator (Gen/EmuSkeleton.v).  Definitions only. *)
From Coq Require Import List Bool.
Import ListNotations.

Inductive loc := Mode | Conf.
(* APort: a write to the emulator's port.  ARLock / ARUnlock: the read side of a sync.RWMutex *)
Inductive action := ALock | AUnlock | ARLock | ARUnlock | ARd (x : loc) | AWr (x : loc) | ALocal | APort.

(* what a thread holds: nothing, the read lock, the write lock *)
Inductive hmode := HN | HR | HW.
Definition hm_eqb (a b : hmode) : bool :=
  match a, b with HN, HN | HR, HR | HW, HW => true | _, _ => false end.

(* every read inside a (read or write) critical section, every write inside a write critical section, lock balanced *)
Fixpoint ok (h : hmode) (l : list action) : bool :=
  match l with
  | [] => true
  | ALock :: l' => match h with HN => ok HW l' | _ => false end
  | AUnlock :: l' => match h with HW => ok HN l' | _ => false end
  | ARLock :: l' => match h with HN => ok HR l' | _ => false end
  | ARUnlock :: l' => match h with HR => ok HN l' | _ => false end
  | ARd _ :: l' => match h with HN => false | _ => ok h l' end
  | AWr _ :: l' => match h with HW => ok h l' | _ => false end
  | ALocal :: l' | APort :: l' => ok h l'
  end.

Fixpoint final (h : hmode) (l : list action) : hmode :=
  match l with
  | [] => h
  | ALock :: l' => final HW l'
  | AUnlock :: l' | ARUnlock :: l' => final HN l'
  | ARLock :: l' => final HR l'
  | _ :: l' => final h l'
  end.

Inductive stmt := Skip | Act (a : action) | Ret | Seq (a b : stmt) | Choice (a b : stmt) | Loop (a : stmt) | Call (s : stmt).

(* finite paths: the actions performed and whether the path ended in a return (which cuts what follows) *)
Inductive path : stmt -> list action -> bool -> Prop :=
| p_skip : path Skip [] false
| p_act a : path (Act a) [a] false
| p_ret : path Ret [] true
| p_seq_ret a b la : path a la true -> path (Seq a b) la true
| p_seq a b la lb r : path a la false -> path b lb r -> path (Seq a b) (la ++ lb) r
| p_left a b l r : path a l r -> path (Choice a b) l r
| p_right a b l r : path b l r -> path (Choice a b) l r
| p_loop0 a : path (Loop a) [] false
| p_loopS a l1 l2 r : path a l1 false -> path (Loop a) l2 r -> path (Loop a) (l1 ++ l2) r
| p_loop_ret a l1 : path a l1 true -> path (Loop a) l1 true
| p_call s l r : path s l r -> path (Call s) l false.

(* abstract interpretation: None = discipline violated on some path; Some None = every path returns;
   Some (Some h') = paths that fall through do so holding h'.  A return requires nothing to be held. *)
Definition act_check (a : action) (h : hmode) : option hmode :=
  match a, h with
  | ALock, HN => Some HW
  | AUnlock, HW => Some HN
  | ARLock, HN => Some HR
  | ARUnlock, HR => Some HN
  | ARd _, HR | ARd _, HW => Some h
  | AWr _, HW => Some h
  | ALocal, _ | APort, _ => Some h
  | _, _ => None
  end.

Fixpoint check (s : stmt) (h : hmode) : option (option hmode) :=
  match s with
  | Skip => Some (Some h)
  | Act a => option_map Some (act_check a h)
  | Ret => match h with HN => Some None | _ => None end
  | Seq a b => match check a h with
               | None => None
               | Some None => Some None
               | Some (Some h1) => check b h1
               end
  | Choice a b => match check a h, check b h with
                  | Some None, r | r, Some None => r
                  | Some (Some h1), Some (Some h2) => if hm_eqb h1 h2 then Some (Some h1) else None
                  | _, _ => None
                  end
  | Loop a => match check a h with
              | None => None
              | Some None => Some (Some h)
              | Some (Some h1) => if hm_eqb h1 h then Some (Some h) else None
              end
  | Call s => match check s h with
              | None => None
              | Some None => Some (Some HN)
              | Some (Some h1) => match h1 with HN => Some (Some HN) | _ => None end
              end
  end.

Definition disciplined (s : stmt) : bool :=
  match check s HN with Some None | Some (Some HN) => true | _ => false end.

(* interleaving semantics: any number of threads; the write lock excludes everybody, read locks exclude the writer *)
Record thread := { todo : list action; held : hmode }.
Record gstate := { threads : nat -> thread; holder : option nat }.

Definition upd (f : nat -> thread) (i : nat) (x : thread) : nat -> thread :=
  fun j => if Nat.eqb j i then x else f j.

Definition is_lock_op (a : action) : bool :=
  match a with ALock | AUnlock | ARLock | ARUnlock => true | _ => false end.

Inductive step : gstate -> gstate -> Prop :=
| s_lock i l st : todo (threads st i) = ALock :: l -> holder st = None -> (forall j, held (threads st j) <> HR) ->
    step st {| threads := upd (threads st) i {| todo := l; held := HW |}; holder := Some i |}
| s_unlock i l st : todo (threads st i) = AUnlock :: l ->
    step st {| threads := upd (threads st) i {| todo := l; held := HN |}; holder := None |}
| s_rlock i l st : todo (threads st i) = ARLock :: l -> holder st = None ->
    step st {| threads := upd (threads st) i {| todo := l; held := HR |}; holder := None |}
| s_runlock i l st : todo (threads st i) = ARUnlock :: l ->
    step st {| threads := upd (threads st) i {| todo := l; held := HN |}; holder := holder st |}
| s_other i a l st : todo (threads st i) = a :: l -> is_lock_op a = false ->
    step st {| threads := upd (threads st) i {| todo := l; held := held (threads st i) |}; holder := holder st |}.

Inductive reachable (s0 : gstate) : gstate -> Prop :=
| r_refl : reachable s0 s0
| r_step s s' : reachable s0 s -> step s s' -> reachable s0 s'.

Definition access (a : action) : option (loc * bool) :=
  match a with ARd x => Some (x, false) | AWr x => Some (x, true) | _ => None end.

(* two different threads are both about to access the same location, at least one writing *)
Definition race (st : gstate) : Prop :=
  exists i j a b la lb x wa wb, i <> j /\
    todo (threads st i) = a :: la /\ todo (threads st j) = b :: lb /\
    access a = Some (x, wa) /\ access b = Some (x, wb) /\ (wa || wb = true).

(* a thread is inside a write critical section while another is inside any critical section *)
Definition overlap (st : gstate) : Prop :=
  exists i j, i <> j /\ held (threads st i) = HW /\ held (threads st j) <> HN.

Definition initial (code : nat -> list action) : gstate :=
  {| threads := fun i => {| todo := code i; held := HN |}; holder := None |}.
