(* L5: lock discipline.  Statements over Lock / Unlock / Read loc / Write loc / Local with sequence, choice, loops,
   return and (inlined) calls; paths; the static check (abstract interpretation of the "lock held" flag).
   The emulator's methods are rendered in this language by the translator (Gen/EmuSkeleton.v).  Definitions only. *)
From Coq Require Import List Bool.
Import ListNotations.

Inductive loc := Mode | Conf.
Inductive action := ALock | AUnlock | ARd (x : loc) | AWr (x : loc) | ALocal | APort.   (* APort: a write to the emulator's port *)

(* every access inside a critical section, lock balanced *)
Fixpoint ok (h : bool) (l : list action) : bool :=
  match l with
  | [] => true
  | ALock :: l' => if h then false else ok true l'
  | AUnlock :: l' => if h then ok false l' else false
  | ARd _ :: l' | AWr _ :: l' => h && ok h l'
  | ALocal :: l' | APort :: l' => ok h l'
  end.

Fixpoint final (h : bool) (l : list action) : bool :=
  match l with
  | [] => h
  | ALock :: l' => final true l'
  | AUnlock :: l' => final false l'
  | _ :: l' => final h l'
  end.

Inductive stmt := Skip | Act (a : action) | Ret | Seq (a b : stmt) | Choice (a b : stmt) | Loop (a : stmt) | Call (s : stmt).

(* finite paths: the actions performed and whether the path ended in a return (which cuts what follows) *)
Inductive path : stmt -> list action -> bool -> Prop :=
| p_skip : path Skip [] false
| p_act a : path (Act a) [a] false
| p_ret : path Ret [] true
| p_seq_ret a b la : path a la true -> path (Seq a b) la true
| p_seq a b la lb r : path a la false -> path b lb r -> path (Seq a b) (la ++ lb) r
| p_left a b l r : path a l r -> path (Choice a b) l r
| p_right a b l r : path b l r -> path (Choice a b) l r
| p_loop0 a : path (Loop a) [] false
| p_loopS a l1 l2 r : path a l1 false -> path (Loop a) l2 r -> path (Loop a) (l1 ++ l2) r
| p_loop_ret a l1 : path a l1 true -> path (Loop a) l1 true
| p_call s l r : path s l r -> path (Call s) l false.

(* abstract interpretation: None = discipline violated on some path; Some None = every path returns;
   Some (Some h') = paths that fall through do so with held = h'.  A return requires the lock not to be held. *)
Fixpoint check (s : stmt) (h : bool) : option (option bool) :=
  match s with
  | Skip => Some (Some h)
  | Act ALock => if h then None else Some (Some true)
  | Act AUnlock => if h then Some (Some false) else None
  | Act (ARd _) | Act (AWr _) => if h then Some (Some h) else None
  | Act ALocal | Act APort => Some (Some h)
  | Ret => if h then None else Some None
  | Seq a b => match check a h with
               | None => None
               | Some None => Some None
               | Some (Some h1) => check b h1
               end
  | Choice a b => match check a h, check b h with
                  | Some None, r | r, Some None => r
                  | Some (Some h1), Some (Some h2) => if Bool.eqb h1 h2 then Some (Some h1) else None
                  | _, _ => None
                  end
  | Loop a => match check a h with
              | None => None
              | Some None => Some (Some h)
              | Some (Some h1) => if Bool.eqb h1 h then Some (Some h) else None
              end
  | Call s => match check s h with
              | None => None
              | Some None => Some (Some false)
              | Some (Some h1) => if h1 then None else Some (Some false)
              end
  end.

Definition disciplined (s : stmt) : bool :=
  match check s false with Some None | Some (Some false) => true | _ => false end.

(* interleaving semantics: any number of threads *)
Record thread := { todo : list action; held : bool }.
Record gstate := { threads : nat -> thread; holder : option nat }.

Definition upd (f : nat -> thread) (i : nat) (x : thread) : nat -> thread :=
  fun j => if Nat.eqb j i then x else f j.

Inductive step : gstate -> gstate -> Prop :=
| s_lock i l st : todo (threads st i) = ALock :: l -> holder st = None ->
    step st {| threads := upd (threads st) i {| todo := l; held := true |}; holder := Some i |}
| s_unlock i l st : todo (threads st i) = AUnlock :: l ->
    step st {| threads := upd (threads st) i {| todo := l; held := false |}; holder := None |}
| s_other i a l st : todo (threads st i) = a :: l -> a <> ALock -> a <> AUnlock ->
    step st {| threads := upd (threads st) i {| todo := l; held := held (threads st i) |}; holder := holder st |}.

Inductive reachable (s0 : gstate) : gstate -> Prop :=
| r_refl : reachable s0 s0
| r_step s s' : reachable s0 s -> step s s' -> reachable s0 s'.

Definition access (a : action) : option (loc * bool) :=
  match a with ARd x => Some (x, false) | AWr x => Some (x, true) | _ => None end.

(* two different threads are both about to access the same location, at least one writing *)
Definition race (st : gstate) : Prop :=
  exists i j a b la lb x wa wb, i <> j /\
    todo (threads st i) = a :: la /\ todo (threads st j) = b :: lb /\
    access a = Some (x, wa) /\ access b = Some (x, wb) /\ (wa || wb = true).

(* two different threads are both inside a critical section *)
Definition overlap (st : gstate) : Prop := exists i j, i <> j /\ held (threads st i) = true /\ held (threads st j) = true.

Definition initial (code : nat -> list action) : gstate :=
  {| threads := fun i => {| todo := code i; held := false |}; holder := None |}.
