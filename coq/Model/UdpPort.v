(* The serial port over UDP (xsensemulator/udpserialport.go) that an emulator and a client use as their transport, and the
   pair of sockets it runs on.  Definitions only (executable).

   A port is (timeout, connection, destination).  Read and Write are the connection's ReadFromUDP / WriteToUDP on the
   caller's slice as it is - one write is one datagram, one read takes one datagram - preceded, when a timeout was
   configured, by a fresh deadline for THAT direction; without a configured timeout no deadline is ever set, so the port
   never fails because time passed.  The connection's operations are parameters of the port functions.

   The network is the loop-back pair the emulator and the client run on: what one side writes is queued for the other side
   in order and whole (no loss, no reordering, no truncation below the reader's buffer): that is the assumption on the
   operating system, listed in the trusted base; the correspondence check observes it on real sockets. *)
From Coq Require Import ZArith NArith List Bool.
Require Import Base.Bytes.
Import ListNotations.
Open Scope Z_scope.

Definition udp_write (timeout : Z) (set_wdl : option Z) (conn_write : bytes -> Z * option Z) (p : bytes) : Z * option Z :=
  if timeout =? 0 then conn_write p
  else match set_wdl with Some e => (0, Some e) | None => conn_write p end.

Definition udp_read (timeout : Z) (set_rdl : option Z) (conn_read : bytes -> Z * Z * option Z) (p : bytes) : Z * option Z :=
  if timeout =? 0 then (let '(n, _, e) := conn_read p in (n, e))
  else match set_rdl with Some e => (0, Some e) | None => let '(n, _, e) := conn_read p in (n, e) end.

Definition udp_close (conn_close : option Z) : option Z := conn_close.

Definition udp_default_timeout : Z := 0.
Definition udp_with_timeout (t old : Z) : Z := t.
(* the options after a list of WithTimeout options was applied to the default ones *)
Definition udp_options (ts : list Z) : Z := fold_left (fun o t => udp_with_timeout t o) ts udp_default_timeout.

(* NewUDPSerialPort: listens on the origin, sends to the destination, keeps the options; any failure is returned *)
Definition udp_new {S} (resolve : S -> Z * option Z) (listen : Z -> Z * option Z) (opts : Z) (origin destination : S)
  : option (Z * Z * Z) * option Z :=
  match resolve origin with
  | (_, Some e) => (None, Some e)
  | (a, None) =>
    match resolve destination with
    | (_, Some e) => (None, Some e)
    | (d, None) =>
      match listen a with
      | (_, Some e) => (None, Some e)
      | (c, None) => (Some (opts, c, d), None)
      end
    end
  end.

(* ---- two ports facing each other on the loop-back network ---- *)
(* the datagrams in flight towards side false / side true, oldest first; which sides are closed *)
Record unet := { to0 : list bytes; to1 : list bytes; closed0 : bool; closed1 : bool }.
Definition unet0 : unet := {| to0 := []; to1 := []; closed0 := false; closed1 := false |}.
Definition uclosed (n : unet) (side : bool) := if side then closed1 n else closed0 n.
Definition uqueue (n : unet) (side : bool) := if side then to1 n else to0 n.
Definition uset_queue (n : unet) (side : bool) (q : list bytes) : unet :=
  if side then {| to0 := to0 n; to1 := q; closed0 := closed0 n; closed1 := closed1 n |}
  else {| to0 := q; to1 := to1 n; closed0 := closed0 n; closed1 := closed1 n |}.

(* error classes: 1 = the socket is closed, 2 = deadline exceeded (nothing arrived within the configured timeout) *)
Inductive uop :=
| UWrite (side : bool) (p : bytes)
| URead (side : bool) (buflen : nat)
| USleep                                  (* time passes: no effect on what is delivered *)
| UClose (side : bool).
Inductive uout :=
| UWrote (n : Z) (err : option Z)
| UGot (d : bytes) (err : option Z)
| UNone.

(* the socket operations handed to the port functions *)
Definition sock_write (n : unet) (side : bool) (p : bytes) : Z * option Z :=
  if uclosed n side then (0, Some 1) else (Z.of_nat (length p), None).
Definition sock_read (n : unet) (side : bool) (buflen : nat) (p : bytes) : Z * Z * option Z :=
  if uclosed n side then (0, 0, Some 1)
  else match uqueue n side with
       | d :: _ => (Z.of_nat (Nat.min buflen (length d)), 0, None)
       | [] => (0, 0, Some 2)
       end.

(* timeouts of the two ports *)
Definition ustep (t0 t1 : Z) (n : unet) (o : uop) : unet * uout :=
  match o with
  | UWrite side p =>
    let t := if side then t1 else t0 in
    let r := udp_write t None (sock_write n side) p in
    (match snd r with
     | None => uset_queue n (negb side) (uqueue n (negb side) ++ [p])
     | Some _ => n
     end, UWrote (fst r) (snd r))
  | URead side buflen =>
    let t := if side then t1 else t0 in
    let r := udp_read t None (sock_read n side buflen) [] in
    (match snd r, uqueue n side with
     | None, d :: q => (uset_queue n side q, UGot (firstn buflen d) None)
     | None, [] => (n, UGot [] None)
     | Some e, _ => (n, UGot [] (Some e))
     end)
  | USleep => (n, UNone)
  | UClose side =>
    (if side then {| to0 := to0 n; to1 := to1 n; closed0 := closed0 n; closed1 := true |}
     else {| to0 := to0 n; to1 := to1 n; closed0 := true; closed1 := closed1 n |}, UNone)
  end.

Fixpoint urun (t0 t1 : Z) (n : unet) (ops : list uop) : list uout :=
  match ops with
  | [] => []
  | o :: r => let '(n', out) := ustep t0 t1 n o in out :: urun t0 t1 n' r
  end.
