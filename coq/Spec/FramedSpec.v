(* streams made of frames separated by noise (C01, first clause) *)
Require Import Base.Bytes.

(* n0 ++ f1 ++ n1 ++ ... ++ fk ++ nk ; [ns] has one more element than [fs] (missing noise = empty) *)
Fixpoint interleave (ns fs : list bytes) : bytes :=
  match ns, fs with
  | n :: ns', f :: fs' => n ++ f ++ interleave ns' fs'
  | n :: _, [] => n
  | [], f :: fs' => f ++ interleave [] fs'
  | [], [] => []
  end.
