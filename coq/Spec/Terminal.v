(* how the reference segmentation's end and the port's terminal error combine into what the scanner reports *)
Require Import Base.Bytes Lib.Bufio Spec.StreamSpec.

Definition tterm (z : term) (fin : terminal) : terminal := match z with STooLong => TTooLong | SEnd => fin end.
