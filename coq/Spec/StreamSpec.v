(* Reference segmentation with the scanner's 64 KiB token limit: what the stream scanner must deliver
   for a stream, independently of how the stream is cut into reads. *)
Require Import Base.Bytes Model.Frame Model.Split.
Open Scope nat_scope.

Definition maxtok : nat := N.to_nat 65536.

Inductive term := SEnd | STooLong.

Fixpoint segT_fuel (fuel : nat) (s : list byte) : list (list byte) * term :=
  match fuel with
  | O => ([], SEnd)
  | S f =>
    match scan_messages s true with
    | (a, Some t) => if maxtok <? length t then ([], STooLong)
                     else let '(ts, e) := segT_fuel f (skipn a s) in (t :: ts, e)
    | (a, None) => ([], if maxtok <=? length (skipn a s) then STooLong else SEnd)
    end
  end.
Definition segT (s : list byte) := segT_fuel (S (length s)) s.

