(* field kinds of the MTData2 wire layouts *)
From Coq Require Import ZArith List String.
Import ListNotations.
Open Scope Z_scope.

Inductive fkind := KU8 | KU16 | KU32 | KU64 | KI8 | KI16 | KI32 | KI64 | KF32 | KF64 | KFP1220 | KFP1632.

Definition ksize (k : fkind) : Z :=
  match k with
  | KU8 | KI8 => 1 | KU16 | KI16 => 2 | KU32 | KI32 | KF32 | KFP1220 => 4 | KFP1632 => 6 | KU64 | KI64 | KF64 => 8
  end.

Definition layout_size (l : list (string * fkind)) : Z := fold_right (fun f a => ksize (snd f) + a) 0 l.

Definition fkind_eqb (a b : fkind) : bool :=
  match a, b with
  | KU8, KU8 | KU16, KU16 | KU32, KU32 | KU64, KU64 | KI8, KI8 | KI16, KI16 | KI32, KI32 | KI64, KI64
  | KF32, KF32 | KF64, KF64 | KFP1220, KFP1220 | KFP1632, KFP1632 => true
  | _, _ => false
  end.
