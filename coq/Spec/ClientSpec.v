(* The abstract client: what a user of the client may rely on, stated over the reference segmentation of the
   incoming stream (Spec.StreamSpec.segT), the reference frame predicate (Spec.FrameSpec) and the reference
   packet walk.  No scanner, no buffer, no read schedule. *)
From Coq Require Import String.
Require Import Base.Bytes Model.Packet Model.Split Lib.Bufio Spec.FrameSpec Spec.StreamSpec Spec.Terminal Gen.Funcs Model.Client.
Open Scope N_scope.

Record sclient := {
  ssegs : list bytes;          (* tokens not yet delivered *)
  sterm : terminal;            (* what follows them *)
  scur : option bytes;         (* current token (delivered by the last receive) *)
  scurok : bool;               (* it was accepted *)
  spkts : list bytes;          (* packets of the current measurement payload not yet scanned *)
  scurpkt : option bytes;      (* packet reported by the last scan step that reached one *)
  swritten : list bytes;
  swplan : list bool
}.


Definition snew (stream : bytes) (fin : terminal) (wplan : list bool) : sclient :=
  let '(ts, z) := segT stream in
  {| ssegs := ts; sterm := tterm z fin; scur := None; scurok := false; spkts := []; scurpkt := None;
     swritten := []; swplan := wplan |}.

Definition packets_of (payload : bytes) : list bytes := fst (walk (S (length payload)) payload 0).

Definition sreceive (c : sclient) : recv_res * sclient :=
  match ssegs c with
  | [] => (RTerminal (sterm c),
           {| ssegs := []; sterm := sterm c; scur := None; scurok := false; spkts := []; scurpkt := None;
              swritten := swritten c; swplan := swplan c |})
  | t :: rest =>
      let ok := wf_frameb t in
      (if ok then ROk else RRejected,
       {| ssegs := rest; sterm := sterm c; scur := Some t; scurok := ok;
          spkts := if ok && (nthb t 2 =? 54) then packets_of (payload_of t) else [];
          scurpkt := None; swritten := swritten c; swplan := swplan c |})
  end.

(* one scan step: reports the next packet when there is one and its type is supported and its data complete *)
Definition sscan (c : sclient) : bool * sclient :=
  match spkts c with
  | [] => (false, c)
  | p :: ps =>
      (match dispatch p with Some _ => decodable p | None => false end,
       {| ssegs := ssegs c; sterm := sterm c; scur := scur c; scurok := scurok c; spkts := ps; scurpkt := Some p;
          swritten := swritten c; swplan := swplan c |})
  end.

Fixpoint sreceive_until (fuel : nat) (c : sclient) (until : byte) : cmd_res * sclient :=
  match fuel with
  | O => (CmdRecvErr RPanic, c)
  | S f =>
    match sreceive c with
    | (ROk, c') => match scur c' with
                   | Some t => if nthb t 2 =? until then (CmdOk, c') else sreceive_until f c' until
                   | None => (CmdRecvErr RPanic, c')
                   end
    | (r, c') => (CmdRecvErr r, c')
    end
  end.

Definition scommand (c : sclient) (frame : bytes) (ack : byte) : cmd_res * sclient :=
  match swplan c with
  | false :: pl => (CmdWriteErr, {| ssegs := ssegs c; sterm := sterm c; scur := scur c; scurok := scurok c; spkts := spkts c;
                                    scurpkt := scurpkt c; swritten := swritten c; swplan := pl |})
  | _ => sreceive_until (S (length (ssegs c)))
           {| ssegs := ssegs c; sterm := sterm c; scur := scur c; scurok := scurok c; spkts := spkts c;
              scurpkt := scurpkt c; swritten := swritten c ++ [frame]; swplan := tl (swplan c) |} ack
  end.
