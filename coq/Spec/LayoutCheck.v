(* Definitions of the layout checks (no proofs; the evaluators depend on this file).
   Tie T: what the translator extracted from measurementdata.go against the protocol's layout table.
   - every supported data type dispatches to a Go type whose decoder layout has the spec's field widths, at every precision
   - the encoders of the fixed-layout types store exactly the decoder's fields at the decoder's offsets
   - the encoder's declared size is the layout's size *)
From Coq Require Import ZArith List String Bool.
Require Import Base.GoInt Spec.LayoutKinds Spec.LayoutSpec Gen.Funcs Gen.Layouts.
Import ListNotations.
Open Scope Z_scope.

Fixpoint lookup_dispatch (dt : Z) (l : list (Z * (string * string))) : option (string * string) :=
  match l with [] => None | (k, v) :: t => if dt =? k then Some v else lookup_dispatch dt t end.

Definition zlist_eqb (a b : list Z) : bool :=
  (fix eq (p q : list Z) := match p, q with [] , [] => true | x :: p', y :: q' => (x =? y) && eq p' q' | _, _ => false end) a b.

(* 1. decoder layouts = spec widths, for every spec entry and every precision *)
Definition dec_matches_spec : bool :=
  forallb (fun e : Z * shape =>
    let '(dt, sh) := e in
    match lookup_dispatch dt dispatch_table with
    | None => false
    | Some (_, ty) =>
        forallb (fun p => match dec_layout_of ty p with
                          | Some l => zlist_eqb (map (fun f => ksize (snd f)) l) (spec_widths sh p)
                          | None => false end) [0; 1; 2; 3]
    end) spec_layouts
  && forallb (fun d : Z * (string * string) => match lookup_shape (fst d) spec_layouts with Some _ => true | None => false end) dispatch_table
  && (List.length dispatch_table =? List.length spec_layouts)%nat.



(* 1b. every data type has a destination of its own in the client: no two entries of the dispatch table name the same
   field, so decoding a packet of one type never overwrites the value decoded for another *)
Fixpoint slot_in (n : string) (l : list string) : bool :=
  match l with [] => false | x :: t => String.eqb n x || slot_in n t end.
Fixpoint no_dup_slots (l : list string) : bool :=
  match l with [] => true | x :: t => negb (slot_in x t) && no_dup_slots t end.
Definition slots_distinct : bool := no_dup_slots (map (fun d : Z * (string * string) => fst (snd d)) dispatch_table).

(* 2. encoder stores of the fixed-layout types coincide with the decoder layout: same field at the same
   offset with the same width, in order, covering the data exactly *)
Fixpoint stores_match (off : Z) (stores : list (Z * fkind * string)) (l : list (string * fkind)) : bool :=
  match stores, l with
  | [], [] => true
  | (o, k, n) :: st, (n', k') :: l' => (o =? off) && (ksize k =? ksize k') && String.eqb n n' && stores_match (off + ksize k') st l'
  | _, _ => false
  end.

Definition sort_stores (s : list (Z * fkind * string)) : list (Z * fkind * string) :=
  (fix ins_all (l acc : list (Z * fkind * string)) :=
     match l with
     | [] => acc
     | x :: t => ins_all t ((fix ins (y : Z * fkind * string) (a : list (Z * fkind * string)) :=
                               match a with
                               | [] => [y]
                               | z :: a' => if fst (fst y) <=? fst (fst z) then y :: z :: a' else z :: ins y a'
                               end) x acc)
     end) s [].

Definition enc_matches_dec : bool :=
  forallb (fun ty => match enc_stores_of ty, dec_layout_of ty 0, enc_size_of ty 0 with
                     | Some st, Some l, Some sz => stores_match 0 (sort_stores st) l && (layout_size l =? sz)
                     | None, Some l, Some sz =>     (* precision-switched families: hand model + correspondence *)
                         forallb (fun p => match dec_layout_of ty p, enc_size_of ty p with
                                           | Some lp, Some sp => layout_size lp =? sp | _, _ => false end) [0; 1; 2; 3]
                     | _, _, _ => false end) measurement_types.


