(* Protocol tables transcribed from the Xsens MT Low-Level Communication Protocol documentation.
   They are the reference the generated tables are compared with (Tie/*.v) and the oracle of C08/C20. *)
From Coq Require Import ZArith List String.
Import ListNotations.
Open Scope Z_scope.

(* command: (request message identifier, identifier awaited) ; an acknowledge is request + 1, except that
   go-to-measurement is answered by the first measurement message (MTData2 = 0x36) *)
Definition spec_commands : list (string * (Z * Z)) := [
  ("GetCANConfiguration"%string, (0xE6, 0xE7));
  ("GetCANOutputConfiguration"%string, (0xE8, 0xE9));
  ("GetDeviceID"%string, (0x00, 0x01));
  ("GetHWVersion"%string, (0x1E, 0x1F));
  ("GetOutputConfiguration"%string, (0xC0, 0xC1));
  ("GetProductCode"%string, (0x1C, 0x1D));
  ("GoToConfig"%string, (0x30, 0x31));
  ("GoToMeasurement"%string, (0x10, 0x36));
  ("SetCANConfiguration"%string, (0xE6, 0xE7));
  ("SetCANOutputConfiguration"%string, (0xE8, 0xE9));
  ("SetOutputConfiguration"%string, (0xC0, 0xC1))
].

(* CAN baud rates (bit/s) and their codes *)
Definition spec_baud : list (Z * Z) := [
  (1000000, 0x0C); (800000, 0x0B); (500000, 0x0A); (250000, 0x00); (125000, 0x01); (100000, 0x02);
  (83300, 0x03); (62500, 0x04); (50000, 0x05); (33300, 0x06); (20000, 0x07); (10000, 0x08); (5000, 0x09)
].
