(* The reference notion of a well-formed frame, written independently of Model.Frame.validate. *)
Require Import Base.Bytes.
Open Scope N_scope.

(* sum of every byte after the preamble *)
Definition sum_after_preamble (m : bytes) : N := fold_right N.add 0 (tl m).

Definition wf_frame (m : bytes) : Prop :=
  (5 <= length m)%nat /\ nthb m 0 = 250 /\ nthb m 1 = 255 /\
  (nthb m 3 <> 255 -> length m = (5 + N.to_nat (nthb m 3))%nat) /\
  (nthb m 3 = 255 -> (7 <= length m)%nat /\
      255 <= be16 (nthb m 4) (nthb m 5) <= 2048 /\
      length m = (7 + N.to_nat (be16 (nthb m 4) (nthb m 5)))%nat) /\
  sum_after_preamble m mod 256 = 0.

(* decision procedure used as the oracle in the correspondence check *)
Definition wf_frameb (m : bytes) : bool :=
  (5 <=? length m)%nat && (nthb m 0 =? 250) && (nthb m 1 =? 255) &&
  (if nthb m 3 =? 255 then
     (7 <=? length m)%nat && (255 <=? be16 (nthb m 4) (nthb m 5)) && (be16 (nthb m 4) (nthb m 5) <=? 2048) &&
     (length m =? 7 + N.to_nat (be16 (nthb m 4) (nthb m 5)))%nat
   else (length m =? 5 + N.to_nat (nthb m 3))%nat) &&
  (sum_after_preamble m mod 256 =? 0).

(* payload of a well-formed frame *)
Definition payload_of (m : bytes) : bytes :=
  if nthb m 3 =? 255 then sub m 6 (length m - 7) else sub m 4 (length m - 5).
