(* C11: reference masks and decision helpers (definitions only; the evaluator depends on this file,
   never on the proofs). *)
From Coq Require Import ZArith List Bool.
Import ListNotations.
Open Scope Z_scope.

Definition mask_type : Z := 0xf8f0.
Definition mask_coord : Z := 0x000c.
Definition mask_prec : Z := 0x0003.
Definition mask_all : Z := 0xf8ff.

Definition trip_eqb (a b : Z * Z * Z) : bool :=
  let '(a1, a2, a3) := a in let '(b1, b2, b3) := b in (a1 =? b1) && (a2 =? b2) && (a3 =? b3).

(* In-range: the component only has bits of its own mask. *)
Definition in_range (t c p : Z) : bool :=
  (Z.land t mask_type =? t) && (Z.land c mask_coord =? c) && (Z.land p mask_prec =? p).
