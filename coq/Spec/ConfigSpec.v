(* Reference (specification-level) definitions for the configuration codecs: what each wire group means. *)
Require Import Base.Bytes Spec.IdSpec Model.Config.
Open Scope N_scope.

(* reference decoding of one 4-byte group *)
Definition decode_group (g : N * N) : setting :=
  (Z.land (Z.of_N (fst g)) mask_type, Z.land (Z.of_N (fst g)) mask_coord, Z.land (Z.of_N (fst g)) mask_prec,
   Z.of_N (snd g)).

Definition setting_ok (s : setting) : Prop :=
  let '(t, c, p, f) := s in in_range t c p = true /\ (0 <= f < 65536)%Z.

(* encode-after-decode reproduces the payload with only the identifiers' reserved bits cleared
   (and the trailing partial group dropped) *)
Definition clear_reserved (g : N * N) : bytes := to_be 2 (N.land (fst g) 63743) ++ to_be 2 (snd g).   (* 0xf8ff *)

Definition can_setting_ok (s : can_setting) : Prop :=
  let '(id, flag, mask, freq) := s in id < 128 /\ freq < 2048 /\ mask = id.

Fixpoint groups8 (d : bytes) : list bytes :=
  match d with
  | b0 :: b1 :: b2 :: b3 :: b4 :: b5 :: b6 :: b7 :: t => [b0; b1; b2; b3; b4; b5; b6; b7] :: groups8 t
  | _ => []
  end.

(* reserved bits cleared, the ID mask replaced by the data identifier *)
Definition can_normalize (g : bytes) : bytes :=
  [N.land (nthb g 0) 127; N.land (nthb g 1) 1; 0; 0; 0; N.land (nthb g 0) 127; N.land (nthb g 6) 7; nthb g 7].

