(* Per iteration of the receive loop: no write to the shared state after a write to the port
   (the state change is visible before the acknowledge is).  Executable check over the generated skeleton. *)
From Coq Require Import List Bool.
Require Import Model.Conc.
Import ListNotations.

(* p = a port write has already happened on this path *)
Fixpoint no_wr_after (p : bool) (l : list action) : bool :=
  match l with
  | [] => true
  | AWr _ :: t => negb p && no_wr_after p t
  | APort :: t => no_wr_after true t
  | _ :: t => no_wr_after p t
  end.

Definition is_port (a : action) : bool := match a with APort => true | _ => false end.
Definition flag (p : bool) (l : list action) : bool := p || existsb is_port l.

(* None: a state write may follow a port write.  Some q: q over-approximates "a port write has happened" when the
   statement falls through.  Returns are treated as falling through (conservative). *)
Fixpoint order_check (s : stmt) (p : bool) : option bool :=
  match s with
  | Skip | Ret => Some p
  | Act (AWr _) => if p then None else Some p
  | Act APort => Some true
  | Act _ => Some p
  | Seq a b => match order_check a p with Some p1 => order_check b p1 | None => None end
  | Choice a b => match order_check a p, order_check b p with Some x, Some y => Some (x || y) | _, _ => None end
  | Loop a => match order_check a p with
              | None => None
              | Some p1 => if p1 then (match order_check a true with Some _ => Some true | None => None end) else Some p
              end
  | Call s => order_check s p
  end.

(* the receive loop: a loop whose body passes the check from "nothing written yet" *)
Definition receive_order_ok (s : stmt) : bool :=
  match s with Loop body => match order_check body false with Some _ => true | None => false end | _ => false end.
