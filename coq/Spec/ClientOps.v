(* Operations on a client and what they return, for the model client (Model.Client) and for the abstract
   client (Spec.ClientSpec).  Executable definitions only. *)
From Coq Require Import ZArith NArith List Bool String.
Require Import Base.Bytes Model.Frame Model.Packet Model.Split Lib.Bufio Spec.FrameSpec Spec.StreamSpec Spec.Terminal
  Spec.ProtocolTables Gen.Funcs Gen.Commands Model.Client Spec.ClientSpec.
Import ListNotations.
Open Scope N_scope.

Inductive op :=
| OReceive | OScan | ORawMsg | OMsgId | ODataType | ORawPkt | OMeas
| OCmd (name : string) (payload : list N).

Inductive obs :=
| BRecvOk | BRecvRej (cause : bool) | BRecvTerm (t : terminal) | BPanic
| BBool (b : bool) | BBytes (b : option (list N)) | BNum (z : Z)
| BSlot (name : option string) (fresh : bool)
| BCmd (res : obs) (written : list (list N)) (reads : N).   (* res: BBool true = ok, BBool false = write error, BRecv* = receive failure *)

Definition recv_obs (r : recv_res) : obs :=
  match r with ROk => BRecvOk | RRejected => BRecvRej true | RTerminal t => BRecvTerm t | RPanic => BPanic end.

Definition norm_slot (s : string) : string :=
  if String.eqb s "accelerationHR" || String.eqb s "rateOfTurnHR" then "unexported-VectorXYZ" else s.

Definition lookup_cmd (name : string) : option (Z * (string * (Z * string))) :=
  (fix go (l : list (string * (Z * (string * (Z * string))))) :=
     match l with [] => None | (k, v) :: t => if String.eqb k name then Some v else go t end) command_table.
Definition lookup_spec_cmd (name : string) : option (Z * Z) :=
  (fix go (l : list (string * (Z * Z))) :=
     match l with [] => None | (k, v) :: t => if String.eqb k name then Some v else go t end) spec_commands.

(* ---- the model client ---- *)
Definition m_step (c : client) (o : op) : obs * client :=
  match o with
  | OReceive => let '(r, c') := receive c in (recv_obs r, c')
  | OScan => let '(r, c') := scan_md c in (match r with Ok b => BBool b | _ => BPanic end, c')
  | ORawMsg => (BBytes (raw_message c), c)
  | OMsgId => (match message_identifier c with Ok i => BNum (Z.of_N i) | _ => BPanic end, c)
  | ODataType => (match data_type c with Ok t => BNum t | _ => BPanic end, c)
  | ORawPkt => (BBytes (raw_packet c), c)
  | OMeas => (match measurement_slot c with Ok s => BSlot (option_map norm_slot s) true | _ => BPanic end, c)
  | OCmd name payload =>
      match lookup_cmd name with
      | None => (BPanic, c)
      | Some (req, (_, (ack, _))) =>
          let n0 := length (cwritten c) in
          let '(r, c') := command c (Z.to_N req) payload (Z.to_N ack) in
          (BCmd (match r with CmdOk => BBool true | CmdWriteErr => BBool false | CmdRecvErr e => recv_obs e end)
                (skipn n0 (cwritten c')) 0, c')
      end
  end.

Fixpoint m_run (c : client) (ops : list op) : list obs :=
  match ops with [] => [] | o :: t => let '(b, c') := m_step c o in b :: m_run c' t end.

(* ---- the abstract client (oracle) ---- *)
Definition s_step (c : sclient) (o : op) : option obs * sclient :=   (* None = the spec does not constrain this observation *)
  match o with
  | OReceive => let '(r, c') := sreceive c in (Some (recv_obs r), c')
  | OScan => match scur c with
             | None => (None, c)      (* protocol violation: scan without a delivered frame *)
             | Some _ => let '(b, c') := sscan c in (Some (BBool b), c')
             end
  | ORawMsg => (Some (BBytes (scur c)), c)
  | OMsgId => (match scur c with Some t => Some (BNum (Z.of_N (nthb t 2))) | None => None end, c)
  | ODataType => (match scurpkt c with Some p => Some (BNum (pkt_dtype p)) | None => None end, c)
  | ORawPkt => (match scurpkt c with Some p => Some (BBytes (Some p)) | None => None end, c)
  | OMeas => (match scurpkt c with
              | Some p => Some (BSlot (option_map (fun x => norm_slot (fst x)) (dispatch p))
                                      (* the value is required to be the fresh decoding when the step reported the packet *)
                                      true)
              | None => None end, c)
  | OCmd name payload =>
      match lookup_spec_cmd name with
      | None => (None, c)
      | Some (req, ack) =>
          let n0 := length (swritten c) in
          let '(r, c') := scommand c (new_message (Z.to_N req) payload) (Z.to_N ack) in
          (Some (BCmd (match r with CmdOk => BBool true | CmdWriteErr => BBool false | CmdRecvErr e => recv_obs e end)
                      (skipn n0 (swritten c')) 0), c')
      end
  end.


Fixpoint s_run (sc : sclient) (ops : list op) : list (option obs) :=
  match ops with [] => [] | o :: t => let '(w, sc') := s_step sc o in w :: s_run sc' t end.
