(* MTData2 data layouts, transcribed from the Xsens MT Low-Level Communication Protocol documentation
   (section MTData2): for each data type the sequence of field widths in bytes; "reals" have the width of the
   identifier's precision (Float32 4, Fp12.20 4, Fp16.32 6, Float64 8).  This table is the oracle of C04/C12. *)
From Coq Require Import ZArith List String.
Import ListNotations.
Open Scope Z_scope.

Inductive shape := Reals (n : nat) | Fixed (widths : list Z).

Definition spec_layouts : list (Z * shape) := [
  (0x0810, Reals 1);                                   (* Temperature *)
  (0x1010, Fixed [4; 2; 1; 1; 1; 1; 1; 1]);            (* UtcTime: ns, year, month, day, hour, minute, second, flags *)
  (0x1020, Fixed [2]);                                 (* PacketCounter *)
  (0x1060, Fixed [4]);                                 (* SampleTimeFine *)
  (0x1070, Fixed [4]);                                 (* SampleTimeCoarse *)
  (0x2010, Reals 4);                                   (* Quaternion *)
  (0x2020, Reals 9);                                   (* RotationMatrix *)
  (0x2030, Reals 3);                                   (* EulerAngles *)
  (0x3010, Fixed [4]);                                 (* BaroPressure *)
  (0x4010, Reals 3); (0x4020, Reals 3); (0x4030, Reals 3); (0x4040, Reals 3);   (* DeltaV, Acceleration, FreeAcceleration, AccelerationHR *)
  (0x5020, Reals 1); (0x5030, Reals 3); (0x5040, Reals 2);                       (* AltitudeEllipsoid, PositionEcef, LatLon *)
  (0x7010, Fixed [4; 2; 1; 1; 1; 1; 1; 1; 4; 4; 1; 1; 1; 1; 4; 4; 4; 4; 4; 4; 4; 4; 4; 4; 4; 4; 4; 4; 2; 2; 2; 2; 2; 2; 2]);  (* GnssPvtData, 94 bytes *)
  (0x7020, Fixed [4; 1; 1; 1; 1]);                     (* GnssSatInfo header: itow, numSvs, 3 reserved; satellites follow *)
  (0x8020, Reals 3); (0x8030, Reals 4); (0x8040, Reals 3);                       (* RateOfTurn, DeltaQ, RateOfTurnHR *)
  (0xc020, Reals 3);                                   (* MagneticField *)
  (0xd010, Reals 3);                                   (* VelocityXYZ *)
  (0xe010, Fixed [1]);                                 (* StatusByte *)
  (0xe020, Fixed [4])                                  (* StatusWord *)
].

Definition real_width (p : Z) : Z := if p =? 0 then 4 else if p =? 1 then 4 else if p =? 2 then 6 else if p =? 3 then 8 else 0.

Definition spec_widths (sh : shape) (p : Z) : list Z :=
  match sh with Reals n => repeat (real_width p) n | Fixed ws => ws end.

Definition spec_size (sh : shape) (p : Z) : Z := fold_right Z.add 0 (spec_widths sh p).

Fixpoint lookup_shape (dt : Z) (l : list (Z * shape)) : option shape :=
  match l with [] => None | (k, v) :: t => if dt =? k then Some v else lookup_shape dt t end.
