(* Correspondence evaluator for C16: a real client driving a real emulator over an in-memory duplex link, under
   whatever schedule the Go runtime produced, against the Link model run under its canonical schedule (the theorems
   say the observations at return points do not depend on the schedule) and against the property's oracle. *)
From Coq Require Import ZArith NArith List Bool String.
Require Import Base.Bytes Model.Frame Model.Config Model.Codec Model.Emulator Model.Link Model.DataPath
  Gen.Funcs Run.EvalBase Run.EvalConfig.
Import ListNotations.
Open Scope Z_scope.

(* commands: (0, []) go to config, (1, cfg) set output configuration, (2, []) go to measurement *)
Definition dec_cmd (c : Z * list setting) : lcmd :=
  let '(k, cfg) := c in if k =? 0 then LGoConfig else if k =? 1 then LSetConf cfg else LGoMeas.

(* after each command: (returned without error, LastMessageIdentifier, MarshalMessage identifier per probed type or -1) *)
Definition cobs := (bool * Z * list Z)%type.
(* a transmission attempt: (Go type, data type, field values, outcome: 0 written, 1 not in measurement mode, 3 refused: not in configuration) *)
Definition txatt := (string * Z * list Z * Z)%type.
(* what the client then received: (Go type, field values) per frame; ("!", []) = error / nothing reported *)
Definition rxval := (string * list Z)%type.

Definition case_link := (list (Z * list setting) * list Z * list cobs * list txatt * list rxval)%type.

Definition zl_eqb (a b : list Z) : bool := list_eqb Z.eqb a b.
Definition cobs_eqb (a b : cobs) : bool :=
  let '(o1, m1, i1) := a in let '(o2, m2, i2) := b in Bool.eqb o1 o2 && (m1 =? m2) && zl_eqb i1 i2.
Definition rx_eqb (a b : rxval) : bool := String.eqb (fst a) (fst b) && zl_eqb (snd a) (snd b).

Definition ids_of (e : emu) (probes : list Z) : list Z :=
  map (fun dt => match marshal_id e dt with Some w => w | None => -1 end) probes.

(* the model under the canonical schedule: observations after each command *)
Fixpoint model_cmds (s : link) (n : nat) (probes : list Z) : list cobs * option link :=
  match n with
  | O => ([], Some s)
  | S k =>
      match lrun s sched_cmd with
      | Some s1 => let '(os, r) := model_cmds s1 k probes in
                   ((negb (lfail s1), emode (lemu s1), ids_of (lemu s1) probes) :: os, r)
      | None => ([], None)
      end
  end.

(* the property's oracle for the same observations, straight from the command list *)
Definition last_id (conf : list setting) (dt : Z) : Z :=
  fold_left (fun acc (st : setting) => let '(t, c, p, _) := st in if t =? dt then f_DataIdentifier_Uint16 t c p else acc) conf (-1).
Fixpoint oracle_cmds (done : list lcmd) (rest : list lcmd) (probes : list Z) : list cobs :=
  match rest with
  | [] => []
  | c :: t => let d := done ++ [c] in
              (true, mode_after d, map (last_id (conf_after [] d)) probes) :: oracle_cmds d t probes
  end.

(* data phase *)
Fixpoint model_tx (s : link) (txs : list txatt) : list Z * option link :=
  match txs with
  | [] => ([], Some s)
  | (ty, dt, vs, _) :: t =>
      match marshal_message (lemu s) ty dt vs with
      | None => let '(rs, r) := model_tx s t in (3 :: rs, r)
      | Some pkt =>
          match lstep s (ChTx (data_frame pkt)) with
          | Some s1 => let res := if (length (ltx s1) =? length (ltx s))%nat then 1 else 0 in
                       let '(rs, r) := model_tx s1 t in (res :: rs, r)
          | None => ([], None)
          end
      end
  end.

Fixpoint model_rx (s : link) (n : nat) : option link :=
  match n with O => Some s | S k => match lstep s ChClient with Some s1 => model_rx s1 k | None => None end end.

Definition rx_of_frame (f : bytes) : rxval :=
  match client_values f with
  | [Some (ty, vs)] => (ty, vs)
  | _ => ("!"%string, [])
  end.

(* oracle for the data phase: written iff measuring and configured; each written value arrives, in order, as the
   value at the configured precision *)
Fixpoint oracle_data (meas : bool) (conf : list setting) (txs : list txatt) : list Z * list rxval :=
  match txs with
  | [] => ([], [])
  | (ty, dt, vs, _) :: t =>
      let '(rs, vals) := oracle_data meas conf t in
      let w := last_id conf dt in
      if w =? -1 then (3 :: rs, vals)
      else if negb meas then (1 :: rs, vals)
      else (0 :: rs, (ty, match at_precision ty (Z.land w 3) vs with Some q => q | None => [] end) :: vals)
  end.

Definition chk_link (c : case_link) : Z :=
  let '(cmds0, probes, obs, txs, rxs) := c in
  let cmds := map dec_cmd cmds0 in
  let '(mobs, ms) := model_cmds (link_init cmds) (length cmds) probes in
  let oobs := oracle_cmds [] cmds probes in
  let got_tx := map (fun t : txatt => snd t) txs in
  let '(otx, orx) := oracle_data (mode_after cmds =? mid_meas) (conf_after [] cmds) txs in
  let '(mtx, mrx) :=
    match ms with
    | Some s =>
        match model_tx s txs with
        | (rs, Some s1) =>
            match model_rx s1 (length (le2c s1)) with
            | Some s2 => (rs, if lfail s2 then [("!"%string, [])] else map rx_of_frame (lrecv s2))
            | None => (rs, [("?"%string, [])])
            end
        | (rs, None) => (rs, [("?"%string, [])])
        end
    | None => ([], [("?"%string, [])])
    end in
  let corr := list_eqb cobs_eqb mobs obs && zl_eqb mtx got_tx && list_eqb rx_eqb mrx rxs in
  let oracle := list_eqb cobs_eqb oobs obs && zl_eqb otx got_tx && list_eqb rx_eqb orx rxs in
  code corr oracle.

Definition sig_link (c : case_link) : Z :=
  let '(cmds0, probes, obs, txs, rxs) := c in
  1 + Z.of_nat (Nat.min 15 (length cmds0)) + 16 * Z.of_nat (Nat.min 7 (length rxs)).
