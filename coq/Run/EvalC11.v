From Coq Require Import ZArith List Bool.
Require Import Base.GoInt Gen.Funcs Spec.IdSpec Run.EvalBase.
Import ListNotations.
Open Scope Z_scope.

Definition case_id16 := (Z * (Z * Z * Z) * Z * (Z * Z * Z) * list Z)%type.

Definition chk_id16 (c : case_id16) : Z :=
  let '(v, obs, back, pobs, hdr) := c in
  let m := f_DataIdentifier_SetUint16 65535 255 255 v in
  let '(t, cs, p) := obs in
  let mback := f_DataIdentifier_Uint16 t cs p in
  let corr := trip_eqb m obs && (mback =? back) && trip_eqb pobs (f_DataIdentifier_SetUint16 0 0 0 mback)
              && (match hdr with [h; l] => (h * 256 + l =? mback) | _ => false end) in
  let spec := (Z.land v 0xf8f0, Z.land v 0x000c, Z.land v 0x0003) in
  let oracle := trip_eqb obs spec && (back =? Z.land v 0xf8ff) && trip_eqb pobs spec
                && (match hdr with [h; l] => (h * 256 + l =? Z.land v 0xf8ff) | _ => false end) in
  code corr oracle.

(* non-trivial: some reserved bit set, or more than one field non-zero *)
Definition sig_id16 (c : case_id16) : Z :=
  let '(v, _, _, _, _) := c in
  (if Z.land v 0x0700 =? 0 then 0 else 1) + (if Z.land v 0xf8f0 =? 0 then 0 else 2) +
  (if Z.land v 0xc =? 0 then 0 else 4) + (if Z.land v 3 =? 0 then 0 else 8).
