(* Correspondence evaluator for C19. *)
From Coq Require Import ZArith NArith List Bool.
Require Import Base.GoInt Lib.Civil Model.TimeConv Gen.Funcs Run.EvalBase.
Import ListNotations.
Open Scope Z_scope.

Definition rec_eqb (a b : utc_record) : bool :=
  let '(a1, a2, a3, a4, a5, a6, a7) := a in let '(b1, b2, b3, b4, b5, b6, b7) := b in
  (a1 =? b1) && (a2 =? b2) && (a3 =? b3) && (a4 =? b4) && (a5 =? b5) && (a6 =? b6) && (a7 =? b7).
Definition inst_eqb (a b : Z * Z) : bool := (fst a =? fst b) && (snd a =? snd b).

(* instant (unix seconds, ns, zone offset in seconds) -> record by UnmarshalTime -> instant by Time() *)
Definition case_t2r := (Z * Z * Z * utc_record * (Z * Z))%type.
Definition chk_t2r (c : case_t2r) : Z :=
  let '(unix, ns, zone, r, back) := c in
  let t := (unix + unix_offset, ns) in
  let mr := instant_to_utc t in
  let mback := let '(s, n) := utc_to_instant r in (s - unix_offset, n) in
  code (rec_eqb mr r && inst_eqb mback back) (inst_eqb back (unix, ns)).
Definition sig_t2r (c : case_t2r) : Z :=
  let '(unix, ns, zone, r, back) := c in (if zone =? 0 then 0 else 1) + (if ns =? 0 then 0 else 2) + (if unix mod 86400 =? 0 then 4 else 0).

(* record -> instant by Time() -> record by UnmarshalTime *)
Definition case_r2t := (utc_record * (Z * Z) * utc_record)%type.
Definition validb (r : utc_record) : bool :=
  let '(ns, y, mo, d, h, mi, s) := r in
  (1 <=? y) && (y <=? 9999) && (1 <=? mo) && (mo <=? 12) && (1 <=? d) && (d <=? dim (is_leap y) mo) &&
  (0 <=? h) && (h <? 24) && (0 <=? mi) && (mi <? 60) && (0 <=? s) && (s <? 60) && (0 <=? ns) && (ns <? billion).
Definition chk_r2t (c : case_r2t) : Z :=
  let '(r, t, back) := c in
  let mt := let '(s, n) := utc_to_instant r in (s - unix_offset, n) in
  let mback := instant_to_utc (fst t + unix_offset, snd t) in
  let '(ns, y, mo, d, h, mi, s) := r in
  code (inst_eqb mt t && rec_eqb mback back)
       (negb (validb r) || (rec_eqb back r &&
          inst_eqb t (days_from_civil y mo d * 86400 + h * 3600 + mi * 60 + s - unix_offset, ns))).
Definition sig_r2t (c : case_r2t) : Z := let '(r, t, back) := c in if validb r then 1 else 2.

(* GNSS record fields + nano -> instant *)
Definition case_gnss := (Z * Z * Z * Z * Z * Z * Z * (Z * Z))%type.
Definition chk_gnss (c : case_gnss) : Z :=
  let '(y, mo, d, h, mi, s, nano, t) := c in
  let mt := let '(sec, n) := gnss_to_instant y mo d h mi s nano in (sec - unix_offset, n) in
  let base := days_from_civil y mo d * 86400 + h * 3600 + mi * 60 + s - unix_offset in
  code (inst_eqb mt t)
       (negb (validb (0, y, mo, d, h, mi, s) && (- billion <? nano) && (nano <? billion)) ||
        inst_eqb t (base + (if nano <? 0 then -1 else 0), if nano <? 0 then nano + billion else nano)).
Definition sig_gnss (c : case_gnss) : Z := let '(y, mo, d, h, mi, s, nano, t) := c in if nano <? 0 then 1 else if nano =? 0 then 2 else 3.

(* validity byte -> three flags *)
Definition case_valid := (Z * bool * bool * bool)%type.
Definition chk_valid (c : case_valid) : Z :=
  let '(u, a, b, d) := c in
  code (Bool.eqb (f_UTCValidity_IsDateValid u) a && Bool.eqb (f_UTCValidity_IsTimeOfDayValid u) b &&
        Bool.eqb (f_UTCValidity_IsTimeOfDayFullyResolved u) d)
       (Bool.eqb a (Z.testbit u 0) && Bool.eqb b (Z.testbit u 1) && Bool.eqb d (Z.testbit u 2)).
Definition sig_valid (c : case_valid) : Z := let '(u, a, b, d) := c in Z.land u 7.
