(* Correspondence evaluator for C12: for every wire identifier, what the library does against the generated tables. *)
From Coq Require Import ZArith NArith List Bool String.
Require Import Base.GoInt Spec.LayoutKinds Spec.LayoutSpec Gen.Funcs Gen.Layouts Spec.LayoutCheck Run.EvalBase.
Import ListNotations.
Open Scope Z_scope.

(* (wire id, DataSize, encoder data length (-1: no encoder reachable), decoder accepts DataSize bytes,
    decoder accepts DataSize-1 bytes, client scan decodes a DataSize-byte packet, client dispatches the type) *)
Definition case_size := (Z * Z * Z * bool * bool * bool * bool)%type.

Definition chk_size (c : case_size) : Z :=
  let '(v, ds, enc, acc, acc1, scan, disp) := c in
  let '(t, cs, p) := f_DataIdentifier_SetUint16 0 0 0 v in
  let mds := f_DataIdentifier_DataSize t cs p in
  let md := lookup_dispatch t dispatch_table in
  let menc := match md with Some (_, ty) => match enc_size_of ty p with Some e => e | None => -1 end | None => -1 end in
  let mdec := match md with Some (_, ty) => option_map layout_size (dec_layout_of ty p) | None => None end in
  let macc (n : Z) := match mdec with Some d => (d <=? n) && (0 <=? n) | None => false end in
  let corr := (mds =? ds) && (menc =? enc) && Bool.eqb (macc ds) acc && Bool.eqb (macc (ds - 1)) acc1 &&
              Bool.eqb (match md with Some _ => macc ds | None => false end) scan &&
              Bool.eqb (match md with Some _ => true | None => false end) disp in
  (* the property: size = encoder = decoder minimum for supported types; non-zero size <-> the client decodes *)
  let oracle := if disp then (ds =? enc) && acc && negb acc1 && scan && negb (ds =? 0)
                else (ds =? 0) && negb scan in
  code corr oracle.

Definition sig_size (c : case_size) : Z :=
  let '(v, ds, enc, acc, acc1, scan, disp) := c in
  (if disp then 1 + Z.land v 3 + (if Z.land v 0x0700 =? 0 then 0 else 4) else 0).
