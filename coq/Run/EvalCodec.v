(* Correspondence evaluators for the measurement codecs (C04, C05). *)
From Coq Require Import ZArith NArith List Bool String.
From Flocq Require Import Core BinarySingleNaN.
Require Import Base.Bytes Spec.LayoutKinds Spec.LayoutSpec Spec.LayoutCheck Gen.Funcs Gen.Layouts Model.Codec Run.EvalBase Run.EvalConfig.
Import ListNotations.
Open Scope Z_scope.

Definition zlist_eqb' (a b : list Z) : bool := list_eqb Z.eqb a b.

(* (Go type, wire identifier, data bytes, decoded value or error, re-encoded packet, destination unchanged on error) *)
Definition case_codec := (string * Z * list N * ores (list Z) * ores (list N) * bool)%type.

Definition nan32_field (p : Z) (data : list N) (n : nat) : bool :=      (* a NaN pattern among the float32 fields *)
  (p =? 0) && existsb (fun i => let w := Z.of_N (be (firstn 4 (skipn (4 * i) data))) in
                                 (Z.land w 0x7f800000 =? 0x7f800000) && negb (Z.land w 0x7fffff =? 0)) (seq 0 n).

Definition chk_codec (c : case_codec) : Z :=
  let '(ty, wire, data, dec, reenc, unchanged) := c in
  let p := Z.land wire 3 in
  let mdec := match decode ty p data with Some v => ROk v | None => RErr end in
  let mre := match mdec with
             | ROk v => match encode ty (Z.land wire 0xf8ff) v with Some b => ROk b | None => RPan end
             | _ => RErr end in
  let nan32 := match lookup_shape (Z.land wire 0xf8f0) spec_layouts with
               | Some (Reals n) => nan32_field p data n | _ => false end in
  let corr := nan32 || (ores_eqb zlist_eqb' mdec dec && ores_eqb bytes_eqb mre reenc) in
  (* the property, from the protocol table: size, header, and encode-after-decode = identity on the data *)
  let dt := Z.land wire 0xf8f0 in
  let oracle :=
    match lookup_shape dt spec_layouts with
    | None => true
    | Some sh =>
        let sz := spec_size sh p in
        if (Z.of_nat (length data) <? sz) then
          match dec, reenc with RErr, RErr => unchanged | _, _ => false end
        else
          match dec, reenc with
          | ROk v, ROk b =>
              (length v =? length (spec_widths sh p))%nat &&
              (nan32_field p data (length (spec_widths sh p)) || ores_eqb zlist_eqb' mdec dec) &&
              (nan32_field p data (length (spec_widths sh p)) && match sh with Reals _ => true | _ => false end
               || bytes_eqb b (zbe 2 (Z.land wire 0xf8ff) ++ zbe 1 sz ++ firstn (Z.to_nat sz) data))
          | _, _ => false
          end
    end in
  code corr oracle.
Definition sig_codec (c : case_codec) : Z :=
  let '(ty, wire, data, dec, reenc, unchanged) := c in
  1 + Z.land wire 3 + 4 * Z.of_nat (String.length ty mod 13) + (match dec with ROk _ => 0 | _ => 64 end).

(* encoding an arbitrary value: (Go type, wire identifier, value, packet) *)
Definition case_enc := (string * Z * list Z * ores (list N))%type.
Definition sig_enc (c : case_enc) : Z := let '(ty, wire, vs, r) := c in 1 + Z.land wire 3.

(* C05: FP1220 / FP1632 directly.  (width 4|6, pattern bytes, Float64 bits, FromFloat64(Float64()) bytes) *)
Definition case_fp := (Z * list N * Z * list N)%type.
Definition chk_fp (c : case_fp) : Z :=
  let '(w, b, fbits, back) := c in
  let x := if w =? 4 then fp1220_float64 b else fp1632_float64 b in
  let mb := if w =? 4 then fp1220_from x else fp1632_from x in
  let corr := (bits_of_f64 x =? fbits) && bytes_eqb mb back in
  (* oracle: the value is exactly int / 2^k: checked by re-deriving the integer from the float64 bits, and the
     pattern round-trips *)
  let i := if w =? 4 then sint 32 (Z.of_N (be b)) else fp1632_int b in
  let k := if w =? 4 then 20 else 32 in
  let exact := bits_of_f64 (BinarySingleNaN.binary_normalize 53 1024 P53 P1024 mode_NE i (- k) false) =? fbits in
  code corr (exact && bytes_eqb back b).
Definition sig_fp (c : case_fp) : Z :=
  let '(w, b, fbits, back) := c in w + (if Z.of_N (nthb b (if w =? 4 then 0 else 4)) <? 128 then 0 else 16).

(* (width, float64 bits, FromFloat64 bytes, Float64 of those bytes) *)
Definition case_fpenc := (Z * Z * list N * Z)%type.
(* exact comparison of finite doubles as dyadic rationals m * 2^e *)
Definition dyadic (x : f64) : option (Z * Z) :=
  match x with
  | B754_zero _ => Some (0, 0)
  | B754_finite s m e _ => Some (cond_Zopp s (Zpos m), e)
  | _ => None
  end.
Definition dy_scale (a : Z * Z) (emin : Z) : Z := fst a * 2 ^ (snd a - emin).
(* |a - b| < 2^k *)
Definition dy_close (a b : Z * Z) (k : Z) : bool :=
  let emin := Z.min (Z.min (snd a) (snd b)) k in
  Z.abs (dy_scale a emin - dy_scale b emin) <? 2 ^ (k - emin).
(* lo <= a < hi for integers lo hi *)
Definition dy_in (a : Z * Z) (lo hi : Z) : bool :=
  let emin := Z.min (snd a) 0 in
  (lo * 2 ^ (- emin) <=? dy_scale a emin) && (dy_scale a emin <? hi * 2 ^ (- emin)).

(* the property for the fixed-point precisions of real-valued outputs: every in-range component, encoded, decodes (by
   the reference reading of the field: two's-complement integer / 2^k, fraction word first for 16.32) to a value
   less than one unit of resolution away *)
Definition enc_fixed_ok (wire : Z) (vs : list Z) (b : list N) : bool :=
  let p := Z.land wire 3 in
  match lookup_shape (Z.land wire 0xf8f0) spec_layouts with
  | Some (Reals n) =>
      if (p =? 1) || (p =? 2) then
        let w := if p =? 1 then 4%nat else 6%nat in
        let k := if p =? 1 then 20 else 32 in
        let lim := if p =? 1 then 2048 else 32768 in
        let data := skipn 3 b in
        (length vs =? n)%nat && (length data =? w * n)%nat &&
        forallb (fun i =>
          let f := firstn w (skipn (w * i) data) in
          let int := if p =? 1 then sint 32 (Z.of_N (be f)) else fp1632_int f in
          match dyadic (f64_of_bits (nth i vs 0)) with
          | Some a => if dy_in a (- lim) lim then dy_close a (int, - k) (- k) else true
          | None => true
          end) (seq 0 n)
      else true
  | _ => true
  end.
Definition chk_enc (c : case_enc) : Z :=
  let '(ty, wire, vs, r) := c in
  let m := match encode ty wire vs with Some b => ROk b | None => RPan end in
  code (ores_eqb bytes_eqb m r) (match r with ROk b => enc_fixed_ok wire vs b | _ => true end).

Definition chk_fpenc (c : case_fpenc) : Z :=
  let '(w, fbits, b, back) := c in
  let x := f64_of_bits fbits in
  let mb := if w =? 4 then fp1220_from x else fp1632_from x in
  let mback := bits_of_f64 (if w =? 4 then fp1220_float64 mb else fp1632_float64 mb) in
  let corr := bytes_eqb mb b && (mback =? back) in
  (* the property: an in-range float encoded and decoded again moves by less than one unit of resolution,
     and the decoded value is exactly the pattern's integer / 2^k *)
  let k := if w =? 4 then 20 else 32 in
  let lim := if w =? 4 then 2048 else 32768 in
  let i := if w =? 4 then sint 32 (Z.of_N (be b)) else fp1632_int b in
  let exact := bits_of_f64 (BinarySingleNaN.binary_normalize 53 1024 P53 P1024 mode_NE i (- k) false) =? back in
  let oracle :=
    match dyadic x, dyadic (f64_of_bits back) with
    | Some a, Some r => if dy_in a (- lim) lim then dy_close a r (- k) && exact else true
    | _, _ => true
    end in
  code corr oracle.
Definition sig_fpenc (c : case_fpenc) : Z := let '(w, fbits, b, back) := c in w + (if fbits <? 2 ^ 63 then 0 else 16).
