(* Correspondence evaluator for the client layer (C02 client clause, C03, C08, C09, C10, C14). *)
From Coq Require Import ZArith NArith List Bool String.
Require Import Base.Bytes Model.Frame Model.Packet Model.Split Lib.Bufio Spec.FrameSpec Spec.StreamSpec Spec.Terminal
  Spec.ProtocolTables Gen.Funcs Gen.Commands Model.Client Spec.ClientSpec Spec.ClientOps Run.EvalBase Run.EvalStream.
Import ListNotations.
Open Scope N_scope.

Fixpoint obs_eqb (a b : obs) : bool :=
  match a, b with
  | BRecvOk, BRecvOk => true
  | BRecvRej x, BRecvRej y => Bool.eqb x y
  | BRecvTerm x, BRecvTerm y => term_eqb x y
  | BPanic, BPanic => true
  | BBool x, BBool y => Bool.eqb x y
  | BBytes x, BBytes y => opt_eqb bytes_eqb x y
  | BNum x, BNum y => Z.eqb x y
  | BSlot n f, BSlot n' f' => opt_eqb String.eqb n n' && Bool.eqb f f'
  | BCmd r w k, BCmd r' w' k' => obs_eqb r r' && list_eqb bytes_eqb w w'    (* the read count is oracle-only *)
  | _, _ => false
  end.

(* the oracle compares what the implementation did with the abstract client; a slot whose value is not the
   fresh decoding is only an error when the last scan step reported the packet (decoder accepted it) *)
Definition oracle_ok (want : option obs) (got : obs) (last_scan_true : bool) : bool :=
  match want with
  | None => true
  | Some (BSlot n _) => match got with BSlot n' f => opt_eqb String.eqb n n' && (f || negb last_scan_true) | _ => false end
  | Some (BCmd r w _) => match got with
                         | BCmd r' w' k => obs_eqb r r' && list_eqb bytes_eqb w w' &&
                                           (match r with BBool false => k =? 0 | _ => true end)
                         | _ => false end
  | Some w => obs_eqb w got
  end.

Fixpoint s_check (c : sclient) (ops : list op) (got : list obs) (last : bool) : bool :=
  match ops, got with
  | [], [] => true
  | o :: t, g :: gt =>
      let '(w, c') := s_step c o in
      oracle_ok w g last &&
      s_check c' t gt (match o, g with OScan, BBool b => b | OScan, _ => false | OReceive, _ => false | OCmd _ _, _ => false | _, _ => last end)
  | _, _ => false
  end.

(* (stream, schedule, terminal error, error-with-data, write plan, operations, observations) *)
Definition case_client := (list N * list N * terminal * bool * list bool * list op * list obs)%type.

Definition m_slot_fix (o : obs) (g : obs) : obs :=      (* the model does not compute values: copy the freshness flag *)
  match o, g with BSlot n _, BSlot _ f => BSlot n f | _, _ => o end.

Definition chk_client (c : case_client) : Z :=
  let '(stream, sch, fin, ewd, wplan, ops, got) := c in
  let sch' := map N.to_nat sch in
  let mo := m_run (new_client (mk stream sch' fin ewd) wplan) ops in
  let corr := list_eqb obs_eqb (map (fun p => m_slot_fix (fst p) (snd p)) (combine mo got)) got && (length mo =? length got)%nat in
  let applicable := sched_okb sch' && (negb ewd || match snd (segT stream) with SEnd => true | STooLong => false end) in
  let oracle := if applicable then s_check (snew stream fin wplan) ops got false else true in
  code corr oracle.

Definition sig_client (c : case_client) : Z :=
  let '(stream, sch, fin, ewd, wplan, ops, got) := c in
  Z.of_nat (Nat.min 7 (length (filter (fun g => match g with BBool true => true | _ => false end) got)))
  + 8 * Z.of_nat (Nat.min 3 (length (filter (fun g => match g with BRecvRej _ => true | _ => false end) got)))
  + 32 * Z.of_nat (Nat.min 3 (length (filter (fun g => match g with BCmd _ _ _ => true | _ => false end) got)))
  + (if ewd then 128 else 0) + (match fin with TEnd => 0 | _ => 256 end).

(* C10: the strict reading - the terminal error is the port's error, whatever the stream.  It is refuted on
   streams whose reference segmentation ends in TooLong (finding K1): there the checker returns code 3 when the
   implementation still behaves as the model predicts (so the finding is the listed one), otherwise 1. *)
Definition chk_client10 (c : case_client) : Z :=
  let '(stream, sch, fin, ewd, wplan, ops, got) := c in
  match snd (segT stream) with
  | SEnd => chk_client c
  | STooLong =>
      let sch' := map N.to_nat sch in
      let mo := m_run (new_client (mk stream sch' fin ewd) wplan) ops in
      if list_eqb obs_eqb mo got then 3%Z else 1%Z
  end.
