(* Correspondence evaluator for the client layer (C02 client clause, C03, C08, C09, C10, C14). *)
From Coq Require Import ZArith NArith List Bool String.
Require Import Base.Bytes Model.Frame Model.Packet Model.Split Lib.Bufio Spec.FrameSpec Spec.StreamSpec
  Spec.ProtocolTables Gen.Funcs Gen.Commands Model.Client Spec.ClientSpec Run.EvalBase Run.EvalStream.
Import ListNotations.
Open Scope N_scope.

Inductive op :=
| OReceive | OScan | ORawMsg | OMsgId | ODataType | ORawPkt | OMeas
| OCmd (name : string) (payload : list N).

Inductive obs :=
| BRecvOk | BRecvRej (cause : bool) | BRecvTerm (t : terminal) | BPanic
| BBool (b : bool) | BBytes (b : option (list N)) | BNum (z : Z)
| BSlot (name : option string) (fresh : bool)
| BCmd (res : obs) (written : list (list N)) (reads : N).   (* res: BBool true = ok, BBool false = write error, BRecv* = receive failure *)

Fixpoint obs_eqb (a b : obs) : bool :=
  match a, b with
  | BRecvOk, BRecvOk => true
  | BRecvRej x, BRecvRej y => Bool.eqb x y
  | BRecvTerm x, BRecvTerm y => term_eqb x y
  | BPanic, BPanic => true
  | BBool x, BBool y => Bool.eqb x y
  | BBytes x, BBytes y => opt_eqb bytes_eqb x y
  | BNum x, BNum y => Z.eqb x y
  | BSlot n f, BSlot n' f' => opt_eqb String.eqb n n' && Bool.eqb f f'
  | BCmd r w k, BCmd r' w' k' => obs_eqb r r' && list_eqb bytes_eqb w w'    (* the read count is oracle-only *)
  | _, _ => false
  end.

Definition recv_obs (r : recv_res) : obs :=
  match r with ROk => BRecvOk | RRejected => BRecvRej true | RTerminal t => BRecvTerm t | RPanic => BPanic end.

Definition norm_slot (s : string) : string :=
  if String.eqb s "accelerationHR" || String.eqb s "rateOfTurnHR" then "unexported-VectorXYZ" else s.

Definition lookup_cmd (name : string) : option (Z * (string * (Z * string))) :=
  (fix go (l : list (string * (Z * (string * (Z * string))))) :=
     match l with [] => None | (k, v) :: t => if String.eqb k name then Some v else go t end) command_table.
Definition lookup_spec_cmd (name : string) : option (Z * Z) :=
  (fix go (l : list (string * (Z * Z))) :=
     match l with [] => None | (k, v) :: t => if String.eqb k name then Some v else go t end) spec_commands.

(* ---- the model client ---- *)
Definition m_step (c : client) (o : op) : obs * client :=
  match o with
  | OReceive => let '(r, c') := receive c in (recv_obs r, c')
  | OScan => let '(r, c') := scan_md c in (match r with Ok b => BBool b | _ => BPanic end, c')
  | ORawMsg => (BBytes (raw_message c), c)
  | OMsgId => (match message_identifier c with Ok i => BNum (Z.of_N i) | _ => BPanic end, c)
  | ODataType => (match data_type c with Ok t => BNum t | _ => BPanic end, c)
  | ORawPkt => (BBytes (raw_packet c), c)
  | OMeas => (match measurement_slot c with Ok s => BSlot (option_map norm_slot s) true | _ => BPanic end, c)
  | OCmd name payload =>
      match lookup_cmd name with
      | None => (BPanic, c)
      | Some (req, (_, (ack, _))) =>
          let n0 := length (cwritten c) in
          let '(r, c') := command c (Z.to_N req) payload (Z.to_N ack) in
          (BCmd (match r with CmdOk => BBool true | CmdWriteErr => BBool false | CmdRecvErr e => recv_obs e end)
                (skipn n0 (cwritten c')) 0, c')
      end
  end.

Fixpoint m_run (c : client) (ops : list op) : list obs :=
  match ops with [] => [] | o :: t => let '(b, c') := m_step c o in b :: m_run c' t end.

(* ---- the abstract client (oracle) ---- *)
Definition s_step (c : sclient) (o : op) : option obs * sclient :=   (* None = the spec does not constrain this observation *)
  match o with
  | OReceive => let '(r, c') := sreceive c in (Some (recv_obs r), c')
  | OScan => match scur c with
             | None => (None, c)      (* protocol violation: scan without a delivered frame *)
             | Some _ => let '(b, c') := sscan c in (Some (BBool b), c')
             end
  | ORawMsg => (Some (BBytes (scur c)), c)
  | OMsgId => (match scur c with Some t => Some (BNum (Z.of_N (nthb t 2))) | None => None end, c)
  | ODataType => (match scurpkt c with Some p => Some (BNum (pkt_dtype p)) | None => None end, c)
  | ORawPkt => (match scurpkt c with Some p => Some (BBytes (Some p)) | None => None end, c)
  | OMeas => (match scurpkt c with
              | Some p => Some (BSlot (option_map (fun x => norm_slot (fst x)) (dispatch p))
                                      (* the value is required to be the fresh decoding when the step reported the packet *)
                                      true)
              | None => None end, c)
  | OCmd name payload =>
      match lookup_spec_cmd name with
      | None => (None, c)
      | Some (req, ack) =>
          let n0 := length (swritten c) in
          let '(r, c') := scommand c (new_message (Z.to_N req) payload) (Z.to_N ack) in
          (Some (BCmd (match r with CmdOk => BBool true | CmdWriteErr => BBool false | CmdRecvErr e => recv_obs e end)
                      (skipn n0 (swritten c')) 0), c')
      end
  end.

(* the oracle compares what the implementation did with the abstract client; a slot whose value is not the
   fresh decoding is only an error when the last scan step reported the packet (decoder accepted it) *)
Definition oracle_ok (want : option obs) (got : obs) (last_scan_true : bool) : bool :=
  match want with
  | None => true
  | Some (BSlot n _) => match got with BSlot n' f => opt_eqb String.eqb n n' && (f || negb last_scan_true) | _ => false end
  | Some (BCmd r w _) => match got with
                         | BCmd r' w' k => obs_eqb r r' && list_eqb bytes_eqb w w' &&
                                           (match r with BBool false => k =? 0 | _ => true end)
                         | _ => false end
  | Some w => obs_eqb w got
  end.

Fixpoint s_check (c : sclient) (ops : list op) (got : list obs) (last : bool) : bool :=
  match ops, got with
  | [], [] => true
  | o :: t, g :: gt =>
      let '(w, c') := s_step c o in
      oracle_ok w g last &&
      s_check c' t gt (match o, g with OScan, BBool b => b | OScan, _ => false | OReceive, _ => false | OCmd _ _, _ => false | _, _ => last end)
  | _, _ => false
  end.

(* (stream, schedule, terminal error, error-with-data, write plan, operations, observations) *)
Definition case_client := (list N * list N * terminal * bool * list bool * list op * list obs)%type.

Definition m_slot_fix (o : obs) (g : obs) : obs :=      (* the model does not compute values: copy the freshness flag *)
  match o, g with BSlot n _, BSlot _ f => BSlot n f | _, _ => o end.

Definition chk_client (c : case_client) : Z :=
  let '(stream, sch, fin, ewd, wplan, ops, got) := c in
  let sch' := map N.to_nat sch in
  let mo := m_run (new_client (mk stream sch' fin ewd) wplan) ops in
  let corr := list_eqb obs_eqb (map (fun p => m_slot_fix (fst p) (snd p)) (combine mo got)) got && (length mo =? length got)%nat in
  let applicable := sched_okb sch' && (negb ewd || match snd (segT stream) with SEnd => true | STooLong => false end) in
  let oracle := if applicable then s_check (snew stream fin wplan) ops got false else true in
  code corr oracle.

Definition sig_client (c : case_client) : Z :=
  let '(stream, sch, fin, ewd, wplan, ops, got) := c in
  Z.of_nat (Nat.min 7 (length (filter (fun g => match g with BBool true => true | _ => false end) got)))
  + 8 * Z.of_nat (Nat.min 3 (length (filter (fun g => match g with BRecvRej _ => true | _ => false end) got)))
  + 32 * Z.of_nat (Nat.min 3 (length (filter (fun g => match g with BCmd _ _ _ => true | _ => false end) got)))
  + (if ewd then 128 else 0) + (match fin with TEnd => 0 | _ => 256 end).
