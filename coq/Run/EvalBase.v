(* Shared by the correspondence evaluators: result codes and reporting.
   code 0 = model and implementation agree and the property oracle accepts the implementation's observable
   code 1 = they disagree, but the oracle still accepts what the implementation did (correspondence broken)
   code 2 = the oracle rejects what the implementation did (a failing input) *)
From Coq Require Import ZArith List Bool.
Import ListNotations.
Open Scope Z_scope.

Definition code (corr oracle : bool) : Z := if oracle then (if corr then 0 else 1) else 2.

Fixpoint report_from {A} (chk : A -> Z) (l : list A) (i : Z) : list (Z * Z) :=
  match l with
  | [] => []
  | c :: t => let r := chk c in
              if r =? 0 then report_from chk t (i + 1) else (i, r) :: report_from chk t (i + 1)
  end.
Definition report {A} (chk : A -> Z) (l : list A) : list (Z * Z) := report_from chk l 0.

(* observables shared by several evaluators *)
Inductive obytes := OB (b : list N) | OE | OP.   (* bytes returned / error returned / panic *)
Definition obytes_eqb (a b : obytes) : bool :=
  match a, b with
  | OB x, OB y => (fix eq (p q : list N) := match p, q with
                                             | [], [] => true
                                             | u :: p', v :: q' => N.eqb u v && eq p' q'
                                             | _, _ => false end) x y
  | OE, OE => true
  | OP, OP => true
  | _, _ => false
  end.
