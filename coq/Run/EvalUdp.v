(* Correspondence evaluator for the serial port over UDP (kind udp): real loop-back sockets against Model/UdpPort.v. *)
From Coq Require Import ZArith NArith List Bool.
Require Import Base.Bytes Model.UdpPort Run.EvalBase.
Import ListNotations.
Open Scope N_scope.

(* (op, side, slice written, read buffer size, count returned, error class, bytes read);
   op 0 = Write, 1 = Read, 2 = time passes, 3 = Close; error class 0 = none, 1 = closed, 2 = deadline exceeded, 3 = other,
   4 = the call did not return *)
Definition obs_uop := (N * N * list N * N * N * N * list N)%type.
Definition case_udp := (N * N * list obs_uop)%type.

Definition uside (s : N) : bool := negb (s =? 0).
Definition op_of (o : obs_uop) : uop :=
  let '(op, side, p, bl, n, e, d) := o in
  if op =? 0 then UWrite (uside side) p else if op =? 1 then URead (uside side) (N.to_nat bl)
  else if op =? 2 then USleep else UClose (uside side).
Definition uerr (e : N) : option Z := if e =? 0 then None else Some (Z.of_N e).
Definition out_of (o : obs_uop) : uout :=
  let '(op, side, p, bl, n, e, d) := o in
  if op =? 0 then UWrote (Z.of_N n) (uerr e) else if op =? 1 then UGot d (uerr e) else UNone.
Definition uout_eqb (a b : uout) : bool :=
  match a, b with
  | UWrote n e, UWrote n' e' => (n =? n')%Z && opt_eqb Z.eqb e e'
  | UGot d e, UGot d' e' => bytes_eqb d d' && opt_eqb Z.eqb e e'
  | UNone, UNone => true
  | _, _ => false
  end.

(* the oracle, written without the port functions: two first-in first-out lines; an open port accepts every slice whole
   and hands out the oldest datagram (cut to the reader's buffer); only a closed port or an empty line with a deadline
   yields an error *)
Fixpoint fifo_ok (obs : list obs_uop) (q0 q1 : list (list N)) (c0 c1 : bool) : bool :=
  match obs with
  | [] => true
  | (op, side, p, bl, n, e, d) :: r =>
    let s := uside side in
    let closed := if s then c1 else c0 in
    if op =? 0 then
      if closed then negb (e =? 0) && fifo_ok r q0 q1 c0 c1
      else (e =? 0) && (n =? N.of_nat (length p)) &&
           (if s then fifo_ok r (q0 ++ [p]) q1 c0 c1 else fifo_ok r q0 (q1 ++ [p]) c0 c1)
    else if op =? 1 then
      if closed then negb (e =? 0) && fifo_ok r q0 q1 c0 c1
      else match (if s then q1 else q0) with
           | x :: q' => (e =? 0) && bytes_eqb d (firstn (N.to_nat bl) x) &&
                        (if s then fifo_ok r q0 q' c0 c1 else fifo_ok r q' q1 c0 c1)
           | [] => (e =? 2) && fifo_ok r q0 q1 c0 c1
           end
    else if op =? 2 then fifo_ok r q0 q1 c0 c1
    else if s then fifo_ok r q0 q1 c0 true else fifo_ok r q0 q1 true c1
  end.

Definition chk_udp (c : case_udp) : Z :=
  let '(t0, t1, obs) := c in
  let corr := list_eqb uout_eqb (urun (Z.of_N t0) (Z.of_N t1) unet0 (map op_of obs)) (map out_of obs) in
  code corr (fifo_ok obs [] [] false false).

(* distribution: the largest slice written (by framing class), whether a port has a timeout, whether a port is closed *)
Definition sig_udp (c : case_udp) : Z :=
  let '(t0, t1, obs) := c in
  let mx := fold_left (fun m o => let '(op, _, p, _, _, _, _) := o in N.max m (N.of_nat (length p))) obs 0 in
  let a : Z := if mx <? 260 then 0%Z else if mx <? 1473 then 1%Z else if mx <? 2055 then 2%Z else 3%Z in
  let b : Z := if (t0 =? 0) && (t1 =? 0) then 0%Z else 10%Z in
  let d : Z := if existsb (fun o : obs_uop => let '(op, _, _, _, _, _, _) := o in op =? 3) obs then 20%Z else 0%Z in
  (a + b + d)%Z.
