(* Correspondence evaluators for the configuration codecs and query decoders (C13, C14, C15). *)
From Coq Require Import ZArith NArith List Bool String.
Require Import Base.Bytes Gen.Funcs Spec.IdSpec Model.Config Spec.ConfigSpec Run.EvalBase.
Import ListNotations.
Open Scope N_scope.

Definition setting_eqb (a b : setting) : bool :=
  let '(a1, a2, a3, a4) := a in let '(b1, b2, b3, b4) := b in
  (a1 =? b1)%Z && (a2 =? b2)%Z && (a3 =? b3)%Z && (a4 =? b4)%Z.
Definition cset_eqb (a b : can_setting) : bool :=
  let '(a1, a2, a3, a4) := a in let '(b1, b2, b3, b4) := b in
  (a1 =? b1) && Bool.eqb a2 b2 && (a3 =? b3) && (a4 =? b4).

Inductive ores (A : Type) := ROk (a : A) | RErr | RPan.
Arguments ROk {A} a. Arguments RErr {A}. Arguments RPan {A}.
Definition ores_eqb {A} (eqb : A -> A -> bool) (a b : ores A) : bool :=
  match a, b with ROk x, ROk y => eqb x y | RErr, RErr => true | RPan, RPan => true | _, _ => false end.

(* OutputConfiguration.Unmarshal: (destination backing contents, payload, result) *)
Definition case_ocunm := (list setting * list N * ores (list setting))%type.
Definition chk_ocunm (c : case_ocunm) : Z :=
  let '(dst, payload, r) := c in
  code (ores_eqb (list_eqb setting_eqb) (ROk (outconf_unmarshal dst payload)) r)
       (ores_eqb (list_eqb setting_eqb) (ROk (map decode_group (groups4 payload))) r).
Definition sig_ocunm (c : case_ocunm) : Z :=
  let '(dst, payload, r) := c in
  let n := length (groups4 payload) in
  (if (n =? 0)%nat then 0 else if (n <=? length dst)%nat then (if (n =? length dst)%nat then 1 else 2) else (if (length dst =? 0)%nat then 3 else 4))
  + (if (length payload mod 4 =? 0)%nat then 0 else 8).

(* Marshal: (configuration, bytes) *)
Definition case_ocmar := (list setting * ores (list N))%type.
Definition chk_ocmar (c : case_ocmar) : Z :=
  let '(cfg, r) := c in
  code (ores_eqb bytes_eqb (ROk (outconf_marshal cfg)) r)
       (match r with
        | ROk b => (length b =? 4 * length cfg)%nat &&
                   (negb (forallb (fun s : setting => let '(t, c, p, f) := s in in_range t c p && (0 <=? f)%Z && (f <? 65536)%Z) cfg)
                    || list_eqb setting_eqb (map decode_group (groups4 b)) cfg)
        | _ => false end).
Definition sig_ocmar (c : case_ocmar) : Z := let '(cfg, r) := c in Z.of_nat (Nat.min 5 (length cfg)).

(* CANConfig *)
Definition case_canmar := (bool * Z * ores (list N))%type.
Definition chk_canmar (c : case_canmar) : Z :=
  let '(e, b, r) := c in
  code (ores_eqb bytes_eqb (ROk (can_marshal e b)) r)
       (match r with ROk [b0; b1; b2; b3] => (b0 =? 0) && (b1 =? 0) && (b2 =? (if e then 1 else 0)) && (b3 <? 128) &&
                                            (negb ((0 <=? b)%Z && (b <? 128)%Z) || (Z.of_N b3 =? b)%Z)
                   | _ => false end).
Definition sig_canmar (c : case_canmar) : Z := let '(e, b, r) := c in (if e then 1 else 0) + (if (b =? 0)%Z then 0 else 2).

Definition case_canunm := (list N * N * ores (bool * Z))%type.
Definition pair_eqb (a b : bool * Z) := Bool.eqb (fst a) (fst b) && (snd a =? snd b)%Z.
Definition chk_canunm (c : case_canunm) : Z :=
  let '(d, cap, r) := c in
  let m := match can_unmarshal d with Ok x => ROk x | Err _ => RErr | _ => RPan end in
  code (ores_eqb pair_eqb m r)
       (ores_eqb pair_eqb (if (length d <? 4)%nat then RErr
                           else ROk (N.odd (nthb d 2), Z.of_N (nthb d 3 mod 128))) r).
Definition sig_canunm (c : case_canunm) : Z := let '(d, cap, r) := c in Z.of_nat (Nat.min 5 (length d)).

(* CANOutputConfiguration *)
Definition case_comar := (list can_setting * ores (list N))%type.
Definition chk_comar (c : case_comar) : Z :=
  let '(cfg, r) := c in
  code (ores_eqb bytes_eqb (ROk (canout_marshal cfg)) r)
       (match r with
        | ROk b => (length b =? 8 * length cfg)%nat &&
                   forallb (fun g => (nthb g 0 <? 128) && (nthb g 1 <=? 1) && (nthb g 2 <? 32) && (nthb g 6 <? 8)) (groups8 b) &&
                   list_eqb cset_eqb (canout_unmarshal b)
                     (map (fun s : can_setting => let '(id, fl, m, fr) := s in (id mod 128, fl, id mod 256, fr mod 2048)) cfg)
        | _ => false end).
Definition sig_comar (c : case_comar) : Z := let '(cfg, r) := c in Z.of_nat (Nat.min 5 (length cfg)).

(* (prior destination contents, bytes, extra capacity, result) *)
Definition case_counm := (list can_setting * list N * N * ores (list can_setting))%type.
Definition chk_counm (c : case_counm) : Z :=
  let '(dst, d, cap, r) := c in
  code (ores_eqb (list_eqb cset_eqb) (ROk (canout_unmarshal d)) r)
       (ores_eqb (list_eqb cset_eqb)
          (ROk (map (fun g => (nthb g 0 mod 128, N.odd (nthb g 1),
                               be32 (nthb g 2 mod 32) (nthb g 3) (nthb g 4) (nthb g 5), be16 (nthb g 6 mod 8) (nthb g 7))) (groups8 d))) r).
Definition sig_counm (c : case_counm) : Z :=
  let '(dst, d, cap, r) := c in Z.of_nat (Nat.min 4 (length (groups8 d))) + (if (length d mod 8 =? 0)%nat then 0 else 8)
  + (if (length dst =? 0)%nat then 0 else 16).

(* query commands through the client: (command name, acknowledge payload, result rendered as numbers) *)
Definition case_query := (string * list N * ores (list Z))%type.
Definition flat_set (l : list setting) : list Z := flat_map (fun s : setting => let '(t, c, p, f) := s in [t; c; p; f]) l.
Definition flat_cset (l : list can_setting) : list Z :=
  flat_map (fun s : can_setting => let '(i, fl, m, fr) := s in [Z.of_N i; if fl then 1%Z else 0%Z; Z.of_N m; Z.of_N fr]) l.
Definition zl (b : list N) : list Z := map Z.of_N b.
Definition m_query (name : string) (p : list N) : ores (list Z) :=
  if String.eqb name "GetDeviceID" then match deviceid_unmarshal p with Ok n => ROk [Z.of_N n] | Err _ => RErr | _ => RPan end
  else if String.eqb name "GetHWVersion" then match hwversion_unmarshal p with Ok (a, b) => ROk [Z.of_N a; Z.of_N b] | Err _ => RErr | _ => RPan end
  else if String.eqb name "GetProductCode" then ROk (zl (productcode_unmarshal p))
  else if String.eqb name "GetOutputConfiguration" then ROk (flat_set (outconf_unmarshal [] p))
  else if String.eqb name "GetCANOutputConfiguration" then ROk (flat_cset (canout_unmarshal p))
  else if String.eqb name "GetCANConfiguration" then
    match can_unmarshal p with Ok (e, b) => ROk [if e then 1%Z else 0%Z; b] | Err _ => RErr | _ => RPan end
  else RPan.
(* the reference decoding, from the property's text *)
Definition o_query (name : string) (p : list N) : ores (list Z) :=
  let n := length p in
  if String.eqb name "GetDeviceID" then
    if (n =? 4)%nat then ROk [Z.of_N (be (firstn 4 p))] else if (n =? 8)%nat then ROk [Z.of_N (be (skipn 4 p))] else RErr
  else if String.eqb name "GetHWVersion" then if (n =? 2)%nat then ROk (zl p) else RErr
  else if String.eqb name "GetProductCode" then ROk (zl (productcode_unmarshal p))
  else if String.eqb name "GetOutputConfiguration" then ROk (flat_set (map decode_group (groups4 p)))
  else if String.eqb name "GetCANOutputConfiguration" then
    ROk (flat_cset (map (fun g => (nthb g 0 mod 128, N.odd (nthb g 1),
                               be32 (nthb g 2 mod 32) (nthb g 3) (nthb g 4) (nthb g 5), be16 (nthb g 6 mod 8) (nthb g 7))) (groups8 p)))
  else if String.eqb name "GetCANConfiguration" then
    if (n <? 4)%nat then RErr else ROk [if N.odd (nthb p 2) then 1%Z else 0%Z; Z.of_N (nthb p 3 mod 128)]
  else RPan.
Definition chk_query (c : case_query) : Z :=
  let '(name, p, r) := c in
  code (ores_eqb (list_eqb Z.eqb) (m_query name p) r) (ores_eqb (list_eqb Z.eqb) (o_query name p) r).
Definition sig_query (c : case_query) : Z :=
  let '(name, p, r) := c in Z.of_nat (Nat.min 9 (length p)) + 16 * Z.of_nat (String.length name mod 7).
