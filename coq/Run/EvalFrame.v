(* Correspondence evaluators for the frame/packet layer (C02, C06, C07). Depends on models and specs only. *)
From Coq Require Import ZArith NArith List Bool.
Require Import Base.Bytes Model.Frame Model.Packet Model.Split Spec.FrameSpec Spec.StreamSpec Run.EvalBase.
Import ListNotations.
Open Scope N_scope.

(* ---------- C02: Validate / String / accessors ---------- *)
Inductive acc_obs := ANone | APanic | AVals (mid len : N) (ext : bool) (data : list N) (iserr : bool) (ecode : N).
(* verdict: 0 accept, 1 reject, 2 panic;  render: 0 invalid, 1 error, 2 data, 3 panic, 4 other text *)
Definition case_validate := (list N * N * N * N * acc_obs)%type.

Definition m_verdict (m : bytes) : N := match validate m with VOk => 0 | VErr _ => 1 | VOOB => 2 end.
Definition m_render (m : bytes) : N :=
  match render m with Some (RInvalid _) => 0 | Some (RError _ _) => 1 | Some (RData _ _) => 2 | None => 3 end.
Definition m_acc (m : bytes) : acc_obs :=
  match validate m with
  | VOk => match identifier m, msg_length m, is_extended m, msg_data m, is_error m, error_code m with
           | Some i, Some l, Some e, Some d, Some ie, Some c => AVals i l e d ie c
           | _, _, _, _, _, _ => APanic
           end
  | _ => ANone
  end.
Definition acc_eqb (a b : acc_obs) : bool :=
  match a, b with
  | ANone, ANone => true
  | APanic, APanic => true
  | AVals i l e d ie c, AVals i' l' e' d' ie' c' =>
      (i =? i') && (l =? l') && Bool.eqb e e' && bytes_eqb d d' && Bool.eqb ie ie' && (c =? c')
  | _, _ => false
  end.
(* the property's oracle, from Spec.FrameSpec only *)
Definition o_acc (m : bytes) : acc_obs :=
  if wf_frameb m then
    let p := payload_of m in
    let ie := (nthb m 2 =? 66) && (length p =? 1)%nat in
    AVals (nthb m 2) (N.of_nat (length p)) (nthb m 3 =? 255) p ie (if ie then nthb p 0 else 0)
  else ANone.

Definition chk_validate (c : case_validate) : Z :=
  let '(m, cap, v, r, a) := c in
  let corr := (m_verdict m =? v) && (m_render m =? r) && acc_eqb (m_acc m) a in
  let oracle := (v =? (if wf_frameb m then 0 else 1)) && negb (r =? 3) && negb (r =? 4) &&
                (r =? (if wf_frameb m then (if (nthb m 2 =? 66) && (length (payload_of m) =? 1)%nat then 1 else 2) else 0)) &&
                acc_eqb (o_acc m) a in
  code corr oracle.
Definition sig_validate (c : case_validate) : Z :=
  let '(m, cap, v, r, a) := c in
  match validate m with
  | VOk => if nthb m 3 =? 255 then 9 else 8
  | VErr VTooFew => if (length m =? 0)%nat then 0 else 1
  | VErr VPreamble => 2 | VErr VBusId => 3 | VErr VTooFewExt => 4 | VErr VExtLen => 5 | VErr VSize => 6 | VErr VChecksum => 7
  | VOOB => 10
  end.

(* single-byte corruption of an accepted frame: (frame, position, delta, verdict of the corrupted frame) *)
Definition case_corrupt := (list N * N * N * N)%type.
Definition chk_corrupt (c : case_corrupt) : Z :=
  let '(f, i, d, v) := c in
  let f' := upd f (N.to_nat i) ((nthb f (N.to_nat i) + d) mod 256) in
  let corr := m_verdict f' =? v in
  let oracle := negb (wf_frameb f) || (v =? 1) in
  code corr oracle.
Definition sig_corrupt (c : case_corrupt) : Z :=
  let '(f, i, d, v) := c in
  if negb (wf_frameb f) then 0 else
  if i =? 0 then 1 else if i =? 1 then 2 else if i =? 2 then 3 else if i =? 3 then 4
  else if (N.to_nat i =? length f - 1)%nat then 5 else if (nthb f 3 =? 255) && (i <? 6) then 6 else 7.

(* ---------- C06: NewMessage ---------- *)
(* (mid, payload, frame produced, validate verdict, tokens the stream scanner delivered, accessors read back) *)
Definition case_newmsg := (N * list N * obytes * N * list (list N) * acc_obs)%type.
Definition chk_newmsg (c : case_newmsg) : Z :=
  let '(mid, p, fr, v, toks, a) := c in
  let m := new_message mid p in
  let corr := obytes_eqb fr (OB m) && (m_verdict m =? v) && list_eqb bytes_eqb toks (fst (segT m)) && acc_eqb (m_acc m) a in
  let oracle :=
    match fr with
    | OB f => wf_frameb f && (v =? 0) && list_eqb bytes_eqb toks [f] &&
              acc_eqb a (let ie := (mid =? 66) && (length p =? 1)%nat in
                         AVals mid (N.of_nat (length p)) (255 <=? N.of_nat (length p)) p ie (if ie then nthb p 0 else 0)) &&
              (checksum f =? 0) &&
              (N.of_nat (length f) =? (if 255 <=? N.of_nat (length p) then 7 else 5) + N.of_nat (length p))
    | _ => false
    end in
  code corr oracle.
Definition sig_newmsg (c : case_newmsg) : Z :=
  let '(mid, p, fr, v, toks, a) := c in
  let n := N.of_nat (length p) in
  (if n =? 0 then 0 else if n <? 254 then 1 else if n =? 254 then 2 else if n =? 255 then 3 else if n =? 256 then 4
   else if n <? 2048 then 5 else 6) + (if mid =? 66 then 10 else 0)
  + (if existsb (N.eqb 250) p then 20 else 0).

(* ---------- C07: PacketAt / walk / NewMTData2Package ---------- *)
Definition case_pktat := (list N * N * N * obytes)%type.   (* payload, extra capacity, offset, result *)
Definition m_pktat (m : bytes) (i : nat) : obytes :=
  match packet_at m i with Ok p => OB p | Err _ => OE | _ => OP end.
Definition o_pktat (m : bytes) (i : nat) : obytes :=
  if (i + 3 <=? length m)%nat && (i + 3 + N.to_nat (nthb m (i + 2)) <=? length m)%nat
  then OB (sub m i (3 + N.to_nat (nthb m (i + 2)))) else OE.
Definition chk_pktat (c : case_pktat) : Z :=
  let '(m, cap, i, r) := c in
  code (obytes_eqb (m_pktat m (N.to_nat i)) r) (obytes_eqb (o_pktat m (N.to_nat i)) r).
Definition sig_pktat (c : case_pktat) : Z :=
  let '(m, cap, i, r) := c in
  let i := N.to_nat i in
  if (length m <? i + 3)%nat then (if (length m =? i)%nat then 0 else 1)
  else if (length m <? i + 3 + N.to_nat (nthb m (i + 2)))%nat then 2
  else if nthb m (i + 2) =? 0 then 3 else if (length m =? i + 3 + N.to_nat (nthb m (i + 2)))%nat then 4 else 5.

(* walk: (packets concatenated by the harness, packets recovered by repeated PacketAt, final offset) *)
Definition case_walk := (list (list N) * list (list N) * N)%type.
Definition chk_walk (c : case_walk) : Z :=
  let '(ps, got, fin) := c in
  let m := concat ps in
  let '(mps, mfin) := walk (S (length m)) m 0 in
  code (list_eqb bytes_eqb mps got && (N.of_nat mfin =? fin))
       (list_eqb bytes_eqb ps got && (N.of_nat (length m) =? fin)).
Definition sig_walk (c : case_walk) : Z :=
  let '(ps, got, fin) := c in Z.of_nat (Nat.min (length ps) 9).

(* constructor: (declared length, wire identifier, packet produced) *)
Definition case_newpkt := (N * N * obytes)%type.
Definition chk_newpkt (c : case_newpkt) : Z :=
  let '(len, wire, r) := c in
  code (obytes_eqb (OB (new_packet len wire)) r)
       (match r with
        | OB p => (length p =? 3 + N.to_nat len)%nat && (nthb p 2 =? len) && (be16 (nthb p 0) (nthb p 1) =? wire)
                  && forallb (N.eqb 0) (skipn 3 p)
        | _ => false end).
Definition sig_newpkt (c : case_newpkt) : Z :=
  let '(len, wire, r) := c in if len =? 0 then 0 else if len <? 253 then 1 else 2.
