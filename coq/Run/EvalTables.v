(* Correspondence evaluator for C20. *)
From Coq Require Import ZArith NArith List Bool String.
Require Import Base.GoInt Gen.Funcs Gen.Tables Model.Tables Spec.ProtocolTables Run.EvalBase.
Import ListNotations.
Open Scope Z_scope.

(* (value, String(), UnmarshalText(String()) result or -1) *)
Definition case_canid := (Z * string * Z)%type.
Definition named_spec (v : Z) : bool := existsb (Z.eqb v) (map fst can_id_constants).
Definition chk_canid (c : case_canid) : Z :=
  let '(v, s, back) := c in
  let corr := String.eqb (can_id_name v) s && (match can_id_unmarshal s with Some w => w | None => -1 end =? back) in
  let oracle := if named_spec v then (back =? v) && String.eqb s (match lookup_zs v can_id_constants with Some n => n | None => "" end)
                else back =? -1 in
  code corr oracle.
Definition sig_canid (c : case_canid) : Z := let '(v, s, back) := c in if back =? -1 then 0 else 1.

(* (text, UnmarshalText result or -1) *)
Definition case_cantext := (string * Z)%type.
Definition chk_cantext (c : case_cantext) : Z :=
  let '(t, r) := c in
  let m := match can_id_unmarshal t with Some w => w | None => -1 end in
  let oracle := match find (fun e : Z * string => String.eqb (snd e) t) can_id_constants with
                | Some e => r =? fst e | None => r =? -1 end in
  code (m =? r) oracle.
Definition sig_cantext (c : case_cantext) : Z := let '(t, r) := c in if r =? -1 then Z.of_nat (String.length t mod 5) else 7.

(* (rate, ID) *)
Definition case_baud := (Z * Z)%type.
Definition chk_baud (c : case_baud) : Z :=
  let '(r, id) := c in
  code (f_CANBaudRate_ID r =? id) ((match lookup_zz r spec_baud with Some v => v | None => -1 end) =? id).
Definition sig_baud (c : case_baud) : Z := let '(r, id) := c in if id =? -1 then 0 else 1 + id.

(* (identifier, Ack, IsAck) *)
Definition case_ack := (Z * Z * bool)%type.
Definition chk_ack (c : case_ack) : Z :=
  let '(m, a, ia) := c in
  code ((f_MessageIdentifier_Ack m =? a) && Bool.eqb (f_MessageIdentifier_IsAck m) ia)
       (((255 <=? m) || (a =? m + 1)) && Bool.eqb ia (Z.odd m)).
Definition sig_ack (c : case_ack) : Z := let '(m, a, ia) := c in if ia then 1 else 2.
