(* Correspondence / oracle for the dynamic part of C17: configurations observed by concurrent encodes. *)
From Coq Require Import ZArith List Bool String.
Require Import Model.Conc Gen.Broken Gen.EmuSkeleton Run.EvalBase.
Import ListNotations.
Open Scope Z_scope.

(* (wire identifier returned by a concurrent MarshalMessage, or -1 for "not in configuration"; identifiers allowed:
   those of the configurations installed whole) *)
Definition case_mix := (Z * list Z)%type.
Definition chk_mix (c : case_mix) : Z :=
  let '(got, allowed) := c in code true (existsb (Z.eqb got) allowed).
Definition sig_mix (c : case_mix) : Z := let '(got, allowed) := c in 1 + got mod 7.

(* the skeleton itself as a case: (method name, disciplined according to the harness-independent check) *)
Definition case_skel := (string * bool)%type.
Definition chk_skel (c : case_skel) : Z :=
  let '(name, expect) := c in
  match find (fun m => String.eqb (fst m) name) emu_methods with
  | Some m =>
      (* an unrecognised construct (the skeleton is then a stub) breaks the tie, it is not a failing input *)
      match translation_broken with
      | [] => code true (Bool.eqb (disciplined (snd m)) expect)
      | _ => 1
      end
  | None => 1
  end.
Definition sig_skel (c : case_skel) : Z := 1.
