(* Correspondence evaluators for the emulator (C16, C18). *)
From Coq Require Import ZArith NArith List Bool String.
Require Import Base.Bytes Model.Frame Model.Config Model.Emulator Spec.FrameSpec Spec.IdSpec Gen.Funcs Run.EvalBase Run.EvalConfig.
Import ListNotations.
Open Scope Z_scope.

Definition obs_e_eqb (a b : eobs) : bool :=
  match a, b with
  | OWrote x, OWrote y => list_eqb bytes_eqb x y
  | OTx r x, OTx r' y => (r =? r') && list_eqb bytes_eqb x y
  | OMar x, OMar y => opt_eqb Z.eqb x y
  | OId x, OId y => x =? y
  | ONone, ONone => true
  | _, _ => false
  end.

(* a history of events on one emulator and what was observed *)
Definition case_emu := (list eevent * list eobs)%type.

(* the property's oracle, independent of the step function: mode from the last mode-affecting event, frames by wf_frameb *)
Fixpoint oracle_run (es : list eevent) (got : list eobs) (meas alive : bool) : bool :=
  match es, got with
  | [], [] => true
  | e :: t, g :: gt =>
      match e with
      | ERecv f =>
          if alive then
            if wf_frameb f then
              let i := Z.of_N (nthb f 2) in
              let meas' := if (i =? 0x30) || (i =? 0xC0) then false else if i =? 0x10 then true else meas in
              (match g with OWrote ws => forallb wf_frameb ws | _ => false end) && oracle_run t gt meas' true
            else (match g with OWrote [] => true | _ => false end) && oracle_run t gt meas false
          else (match g with OWrote [] => true | _ => false end) && oracle_run t gt meas false
      | ESendMode => oracle_run t gt true alive
      | ETransmit m =>
          (match g with
           | OTx r ws => if meas then (if wf_frameb m then (r =? 0) && list_eqb bytes_eqb ws [m] else (r =? 2) && list_eqb bytes_eqb ws [])
                         else (r =? 1) && list_eqb bytes_eqb ws []
           | _ => false end) && oracle_run t gt meas alive
      | ELastId => (match g with OId z => Bool.eqb (z =? 0x36) meas | _ => false end) && oracle_run t gt meas alive
      | _ => oracle_run t gt meas alive
      end
  | _, _ => false
  end.

Definition chk_emu (c : case_emu) : Z :=
  let '(es, got) := c in
  let m := fst (erun emu_init es) in
  code (list_eqb obs_e_eqb m got) (oracle_run es got false true).
Definition sig_emu (c : case_emu) : Z :=
  let '(es, got) := c in
  Z.of_nat (length (filter (fun g => match g with OTx 0 _ => true | _ => false end) got)) +
  8 * Z.of_nat (length (filter (fun g => match g with OTx 2 _ => true | _ => false end) got)) +
  64 * Z.of_nat (Nat.min 7 (length es)).
