(* Correspondence evaluators for the splitter and the stream scanner (C01, C10 scanner level). *)
From Coq Require Import ZArith NArith List Bool.
Require Import Base.Bytes Model.Frame Model.Split Lib.Bufio Spec.FrameSpec Spec.StreamSpec Spec.Terminal Run.EvalBase.
Import ListNotations.
Open Scope N_scope.

Definition term_eqb (a b : terminal) : bool :=
  match a, b with
  | TEnd, TEnd => true | TTooLong, TTooLong => true | TNoProgress, TNoProgress => true
  | TPort x, TPort y => x =? y | _, _ => false
  end.

(* direct calls of ScanMessages: (data, atEOF, advance, token) *)
Definition case_split := (list N * bool * N * option (list N))%type.
Definition chk_split (c : case_split) : Z :=
  let '(d, eof, adv, tk) := c in
  let '(a, t) := scan_messages d eof in
  code ((N.of_nat a =? adv) && opt_eqb bytes_eqb t tk) true.
Definition sig_split (c : case_split) : Z :=
  let '(d, eof, adv, tk) := c in
  match find_hdr d with
  | None => if last_is_FA d then 1 else (match d with [] => 0 | _ => 2 end)
  | Some i => match claimed_len (skipn i d) with
              | None => if (length (skipn i d) <? 4)%nat then 3 else 4
              | Some L => if (length (skipn i d) <? L)%nat then 5
                          else (if nthb (skipn i d) 3 =? 255 then 7 else 6) + (if (i =? 0)%nat then 0 else 10)
              end
  end.

(* the scanner over a chunking reader: (stream, schedule, final error, error-with-data, tokens, terminal, reads made) *)
Definition case_scan := (list N * list N * terminal * bool * list (list N) * terminal)%type.
Definition sched_okb (l : list nat) : bool :=
  (fix go (l : list nat) (run : nat) : bool :=
     match l with
     | [] => true
     | O :: t => if (100 <=? run)%nat then false else go t (S run)
     | _ :: t => go t O
     end) l O.
Definition chk_scan (c : case_scan) : Z :=
  let '(stream, sch, fin, ewd, toks, tm) := c in
  let sch' := map N.to_nat sch in
  let r := run (2 * length stream + length sch' + 3) init_scanner (mk stream sch' fin ewd) [] in
  let corr := match r with Some (mt, mtm) => list_eqb bytes_eqb mt toks && term_eqb mtm tm | None => false end in
  let '(st, sz) := segT stream in
  let oracle :=
    if sched_okb sch' then
      list_eqb bytes_eqb st toks &&
      (term_eqb tm (tterm sz fin) || (ewd && match sz with STooLong => term_eqb tm fin | SEnd => false end))
    else true in
  code corr oracle.
Definition sig_scan (c : case_scan) : Z :=
  let '(stream, sch, fin, ewd, toks, tm) := c in
  Z.of_nat (Nat.min (length toks) 3) + (if existsb (N.eqb 0) sch then 4 else 0) + (if ewd then 8 else 0)
  + (match tm with TEnd => 0 | TTooLong => 16 | TNoProgress => 32 | TPort _ => 48 end)
  + (if (length sch =? 0)%nat then 0 else 64).
