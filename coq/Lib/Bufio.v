(* Model of bufio.Scanner.Scan (Go 1.23.5, bufio/scan.go) over a chunking reader.  Library model:
   validated by the correspondence check against the real bufio on every run, not verified. *)
Require Import Base.Bytes Model.Frame Model.Split.
Open Scope nat_scope.

Inductive terminal := TEnd | TTooLong | TNoProgress | TPort (k : N).

Record reader := { rest : list byte; sched : list nat; final : terminal; err_with_data : bool }.

Definition read (r : reader) (room : nat) : list byte * option terminal * reader :=
  match sched r with
  | O :: sch' =>        (* an empty read (0, nil): possible at any time, also after the last byte *)
      ([], None, {| rest := rest r; sched := sch'; final := final r; err_with_data := err_with_data r |})
  | _ =>
    match rest r with
    | [] => ([], Some (final r), r)
    | _ =>
      let k := match sched r with [] => room | k :: _ => k end in
      let n := Nat.min k (Nat.min room (length (rest r))) in
      let r' := {| rest := skipn n (rest r); sched := tl (sched r); final := final r; err_with_data := err_with_data r |} in
      let e := if err_with_data r && (length (rest r) <=? n) then Some (final r) else None in
      (firstn n (rest r), e, r')
    end
  end.

Definition max_token : N := 65536.
Definition start_buf : N := 4096.

Record scanner := { buflen : N; start : N; pend : list byte; serr : option terminal; tok : option (list byte) }.
Definition sc_end (s : scanner) : N := (start s + N.of_nat (length (pend s)))%N.
Definition init_scanner := {| buflen := 0; start := 0; pend := []; serr := None; tok := None |}.

Definition set_err (old : option terminal) (e : terminal) : option terminal :=
  match old with None => Some e | Some TEnd => Some e | Some o => Some o end.

Definition with_pend (s : scanner) (p : list byte) := {| buflen := buflen s; start := start s; pend := p; serr := serr s; tok := tok s |}.
Definition with_err (s : scanner) (e : terminal) := {| buflen := buflen s; start := start s; pend := pend s; serr := set_err (serr s) e; tok := tok s |}.

Fixpoint read_loop (n : nat) (s : scanner) (r : reader) : scanner * reader :=
  let room := N.to_nat (buflen s - sc_end s)%N in
  let '(bs, e, r') := read r room in
  let s1 := with_pend s (pend s ++ bs) in
  match e with
  | Some err => (with_err s1 err, r')
  | None =>
    match bs with
    | _ :: _ => (s1, r')
    | [] => match n with
            | O => (with_err s1 TNoProgress, r')
            | S n' => read_loop n' s1 r'
            end
    end
  end.

Definition has_err (s : scanner) : bool := match serr s with Some _ => true | None => false end.

(* phase 1: try to cut a token *)
Definition phase1 (s : scanner) : scanner * bool :=
  if negb (match pend s with [] => true | _ => false end) || has_err s then
    let '(adv, t) := scan_messages (pend s) (has_err s) in
    ({| buflen := buflen s; start := (start s + N.of_nat adv)%N; pend := skipn adv (pend s); serr := serr s; tok := t |},
     match t with Some _ => true | None => false end)
  else (s, false).

Definition shift (s : scanner) : scanner :=
  if (0 <? start s)%N && ((sc_end s =? buflen s)%N || (buflen s / 2 <? start s)%N)
  then {| buflen := buflen s; start := 0; pend := pend s; serr := serr s; tok := tok s |} else s.

(* grow; None = ErrTooLong *)
Definition grow (s : scanner) : option scanner :=
  if (sc_end s =? buflen s)%N then
    if (max_token <=? buflen s)%N then None
    else Some {| buflen := if (buflen s =? 0)%N then start_buf else N.min (2 * buflen s) max_token;
                 start := 0; pend := pend s; serr := serr s; tok := tok s |}
  else Some s.

Inductive scan_res := SR (ok : bool) (s : scanner) (r : reader) | SFuel.

Fixpoint scan (fuel : nat) (s : scanner) (r : reader) : scan_res :=
  match fuel with
  | O => SFuel
  | S f =>
    let '(s1, got) := phase1 s in
    if got then SR true s1 r else
    if has_err s then SR false {| buflen := buflen s1; start := 0; pend := []; serr := serr s1; tok := tok s1 |} r else
    let s2 := shift s1 in
    match grow s2 with
    | None => SR false (with_err s2 TTooLong) r
    | Some s3 => let '(s4, r') := read_loop 100 s3 r in scan f s4 r'
    end
  end.

Definition sc_err (s : scanner) : terminal := match serr s with Some e => e | None => TEnd end.

Fixpoint run (fuel : nat) (s : scanner) (r : reader) (acc : list (list byte)) : option (list (list byte) * terminal) :=
  match fuel with
  | O => None
  | S f => match scan fuel s r with
           | SFuel => None
           | SR true s' r' => run f s' r' (match tok s' with Some t => t :: acc | None => acc end)
           | SR false s' _ => Some (rev acc, sc_err s')
           end
  end.

Definition mk (s : list byte) (sch : list nat) (fin : terminal) (ewd : bool) :=
  {| rest := s; sched := sch; final := fin; err_with_data := ewd |}.

