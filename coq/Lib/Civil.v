(* Proleptic Gregorian calendar arithmetic: the model of Go's time.Date / Time.Date() / Time.Clock() in UTC.
   Days are counted from 0001-01-01 (day 0).  Executable definitions only. *)
From Coq Require Import ZArith List Bool.
Import ListNotations.
Open Scope Z_scope.

Definition is_leap (y : Z) : bool := (y mod 4 =? 0) && (negb (y mod 100 =? 0) || (y mod 400 =? 0)).
(* days before January 1st of year y *)
Definition dby (y : Z) : Z := 365 * (y - 1) + (y - 1) / 4 - (y - 1) / 100 + (y - 1) / 400.
(* days before the first of month m (1..12) in a non-leap year *)
Definition cum (m : Z) : Z := nth (Z.to_nat (m - 1)) [0; 31; 59; 90; 120; 151; 181; 212; 243; 273; 304; 334] 0.
Definition dbm (leap : bool) (m : Z) : Z := cum m + (if leap && (3 <=? m) then 1 else 0).
Definition dim (leap : bool) (m : Z) : Z :=
  if m =? 2 then (if leap then 29 else 28) else if (m =? 4) || (m =? 6) || (m =? 9) || (m =? 11) then 30 else 31.

Definition days_from_civil (y m d : Z) : Z := dby y + dbm (is_leap y) m + (d - 1).

Definition year_of (z : Z) : Z :=
  let y0 := z * 400 / 146097 + 1 in
  if dby y0 >? z then y0 - 1 else if dby (y0 + 1) <=? z then y0 + 1 else y0.

(* month and day of month from the day of the year (0-based) *)
Definition md_of (leap : bool) (doy : Z) : Z * Z :=
  (fix go (ms : list Z) :=
     match ms with
     | [] => (12, doy - dbm leap 12 + 1)
     | m :: t => if doy <? dbm leap (m + 1) then (m, doy - dbm leap m + 1) else go t
     end) [1; 2; 3; 4; 5; 6; 7; 8; 9; 10; 11].

Definition civil_from_days (z : Z) : Z * Z * Z :=
  let y := year_of z in
  let '(m, d) := md_of (is_leap y) (z - dby y) in (y, m, d).
