(* Tie T: the layout checks of Spec/LayoutCheck.v hold for the tables regenerated from the current source. *)
From Coq Require Import ZArith List String Bool.
Require Import Base.GoInt Spec.LayoutKinds Spec.LayoutSpec Gen.Funcs Gen.Layouts Spec.LayoutCheck.
Open Scope Z_scope.

Lemma dec_matches_spec_ok : dec_matches_spec = true.
Proof. vm_compute. reflexivity. Qed.

Lemma enc_matches_dec_ok : enc_matches_dec = true.
Proof. vm_compute. reflexivity. Qed.

Lemma slots_distinct_ok : slots_distinct = true.
Proof. vm_compute. reflexivity. Qed.
