(* Tie T for the emulator: every method of xsensemulator.Emulator as REGENERATED statement by statement from
   emulator.go (Gen/EmuFns.v) against the hand-written event-level model (Model/Emulator.v) the theorems of C16 and C18
   are stated over.  The bufio.Scanner step is the model's; what is tied here is everything the emulator does with a
   token: the validation, the dispatch on the identifier, which field is written before which acknowledge is sent, the
   in-place decoding of a new configuration, and the errors that end the loop. *)
From Coq Require Import ZArith NArith List Bool Lia.
Require Import Base.Bytes Base.Tactics Base.GoInt Base.GoBytes Base.GoConf Gen.Funcs Gen.Bytes Gen.ConfFns Gen.EmuFns
  Model.Frame Model.Config Model.Emulator Spec.FrameSpec Proofs.FrameProofs Proofs.FixedProofs Proofs.ConfigProofs Tie.BytesAgree Tie.ClientAgree Tie.ConfAgree.
Import ListNotations.
Open Scope Z_scope.

(* the model state a generated state stands for *)
Definition absE (st : gemu) (alive : bool) : emu :=
  let '(o, m, p) := st in
  {| emode := m; econf := firstn (Z.to_nat (snd o)) (fst o); ealive := alive; eport := p |}.
Definition conf_ok (st : gemu) : Prop := let '(o, _, _) := st in 0 <= snd o <= Z.of_nat (length (fst o)).

Lemma data_bound t : wf_bytes t -> validate t = VOk -> forall L, msg_length t = Some L -> (L <= 65529)%N.
Proof.
  intros Hw Ev L HL. destruct (accessors_in_bounds t Ev) as (_ & _ & Hlen & _).
  apply validate_iff_wf in Ev. rewrite Hlen in HL. injection HL as <-. unfold decl_len.
  destruct Ev as (_ & _ & _ & Hstd & Hext & _).
  destruct (N.eqb_spec (nthb t 3) 255) as [E|E].
  - destruct (Hext E) as (_ & Hr & _). lia.
  - pose proof (nthb_byte t 3 Hw). lia.
Qed.

(* ---- one iteration of the receive loop on a token the scanner delivered ---- *)
Theorem emu_receive_step_agrees st f : wf_bytes f -> conf_ok st ->
  exists r, g_Emulator_Receive_step false true f None None st = Val r /\
    match r with
    | inl st' => estep (absE st true) (ERecv f) = (OWrote (skipn (length (snd st)) (snd st')), absE st' true) /\ conf_ok st'
    | inr (e, st') => e <> None /\ estep (absE st true) (ERecv f) = (OWrote [], absE st' false) /\ st' = st
    end.
Proof.
  intros Hw Hc. destruct st as [[[bk n] md] port]. unfold conf_ok in Hc. cbn [fst snd] in Hc.
  unfold g_Emulator_Receive_step, absE. cbv zeta. cbn [negb estep ealive fst snd].
  destruct (validate f) as [|e|] eqn:Ev.
  - rewrite (validate_ok f Ev). cbn [rbind].
    destruct (accessors_in_bounds f Ev) as (Hid & _ & _ & Hdata & _).
    rewrite (identifier_agrees f Hw), Hid, Hdata. cbn [rbind].
    unfold mid_goto_config, mid_set_outconf, mid_goto_meas, mid_meas.
    (* the dispatch, whatever the order of the cases in the source *)
    destruct (Z.eqb_spec (Z.of_N (nthb f 2)) 48) as [E1|E1]; destruct (Z.eqb_spec (Z.of_N (nthb f 2)) 192) as [E2|E2];
      destruct (Z.eqb_spec (Z.of_N (nthb f 2)) 16) as [E3|E3]; try lia.
    { rewrite (new_message_agrees 49 []) by lia. change (Z.to_N 49) with 49%N. cbn [rbind g_port_write emode econf ealive eport].
      eexists. split; [reflexivity|]. cbn [fst snd]. split; [|exact Hc].
      unfold with_mode. cbn [emode econf ealive eport]. rewrite skipn_app, skipn_all, Nat.sub_diag. reflexivity. }
    { rewrite (data_agrees f Hw (data_bound f Hw Ev)), Hdata. cbn [rbind].
      assert (Hwd : wf_bytes (sub f (hdr_len f) (N.to_nat (decl_len f)))).
      { unfold sub. apply XS.Proofs.FixedProofs.firstn_wf, XS.Proofs.FixedProofs.skipn_wf. exact Hw. }
      destruct (unmarshal_conf_agrees_full bk n _ Hwd Hc) as (o' & HU & HF & HO).
      rewrite HU. cbn [rbind].
      rewrite (new_message_agrees 193 []) by lia. change (Z.to_N 193) with 193%N. cbn [rbind g_port_write emode econf ealive eport].
      eexists. split; [reflexivity|]. cbn [fst snd]. split.
      - rewrite skipn_app, skipn_all, Nat.sub_diag. cbn [skipn app]. rewrite HF.
        rewrite (unmarshal_independent bk (firstn (Z.to_nat n) bk) _ Hwd). reflexivity.
      - exact HO. }
    { rewrite (new_message_agrees 54 []) by lia. change (Z.to_N 54) with 54%N. cbn [rbind g_port_write emode econf ealive eport].
      eexists. split; [reflexivity|]. cbn [fst snd]. split; [|exact Hc].
      unfold with_mode. cbn [emode econf ealive eport]. rewrite skipn_app, skipn_all, Nat.sub_diag. reflexivity. }
    eexists. split; [reflexivity|]. cbn [fst snd]. split; [|exact Hc]. rewrite skipn_all. reflexivity.
  - destruct (validate_err f e Ev) as (k & Hk & Hpos). rewrite Hk. cbn [rbind].
    eexists. split; [reflexivity|]. cbn [emode econf ealive eport]. repeat split. discriminate.
  - contradiction (validate_never_oob f Ev).
Qed.

(* the loop ends without touching the state when the context is cancelled (checked first) or the scanner stops: the
   scanner's error if it has one, otherwise end of input *)
Theorem emu_receive_step_stops st f sc e pw :
  g_Emulator_Receive_step true sc f e pw st = Val (inr (Some (-2), st)) /\
  g_Emulator_Receive_step false false f e pw st = Val (inr (match e with Some c => Some c | None => Some (-1) end, st)).
Proof. destruct st as [[o md] port]. unfold g_Emulator_Receive_step. cbn [negb]. destruct e; split; reflexivity. Qed.

(* a failing port write ends the loop with the write's error; nothing joins the port's output (the state change that
   precedes the write - C16's order theorem - has happened) *)
(* the mode register a command leaves behind *)
Definition mode_after (i : Z) : Z := if i =? 16 then 54 else i.

Theorem emu_receive_step_write_fails st f c : wf_bytes f -> conf_ok st -> validate f = VOk ->
  In (Z.of_N (nthb f 2)) [48; 192; 16] ->
  exists st', g_Emulator_Receive_step false true f None (Some c) st = Val (inr (Some c, st')) /\ snd st' = snd st /\
              snd (fst st') = mode_after (Z.of_N (nthb f 2)).
Proof.
  intros Hw Hc Ev Hid. destruct st as [[[bk n] md] port]. unfold conf_ok in Hc. cbn [fst snd] in Hc.
  unfold g_Emulator_Receive_step. cbv zeta. cbn [negb].
  rewrite (validate_ok f Ev). cbn [rbind].
  destruct (accessors_in_bounds f Ev) as (Hi & _ & _ & Hdata & _).
  rewrite (identifier_agrees f Hw), Hi. cbn [rbind].
  destruct (Z.eqb_spec (Z.of_N (nthb f 2)) 48) as [E1|E1]; destruct (Z.eqb_spec (Z.of_N (nthb f 2)) 192) as [E2|E2];
    destruct (Z.eqb_spec (Z.of_N (nthb f 2)) 16) as [E3|E3]; try lia.
  { rewrite (new_message_agrees 49 []) by lia. cbn [rbind g_port_write]. eexists. split; [reflexivity|]. split; [reflexivity|].
    cbn [fst snd]. rewrite E1. reflexivity. }
  { rewrite (data_agrees f Hw (data_bound f Hw Ev)), Hdata. cbn [rbind].
    assert (Hwd : wf_bytes (sub f (hdr_len f) (N.to_nat (decl_len f)))).
    { unfold sub. apply XS.Proofs.FixedProofs.firstn_wf, XS.Proofs.FixedProofs.skipn_wf. exact Hw. }
    destruct (unmarshal_conf_agrees_full bk n _ Hwd Hc) as (o' & HU & _). rewrite HU. cbn [rbind].
    rewrite (new_message_agrees 193 []) by lia. cbn [rbind g_port_write]. eexists. split; [reflexivity|]. split; [reflexivity|].
    cbn [fst snd]. rewrite E2. reflexivity. }
  { rewrite (new_message_agrees 54 []) by lia. cbn [rbind g_port_write]. eexists. split; [reflexivity|]. split; [reflexivity|].
    cbn [fst snd]. rewrite E3. reflexivity. }
  cbn [In] in Hid. lia.
Qed.

(* ---- Transmit ---- *)
Definition tx_code (e : option Z) : Z := match e with None => 0 | Some z => if z =? -10 then 1 else 2 end.
Theorem emu_transmit_agrees st a m : wf_bytes m ->
  exists e st', g_Emulator_Transmit None m st = Val (e, st') /\
    estep (absE st a) (ETransmit m) = (OTx (tx_code e) (skipn (length (snd st)) (snd st')), absE st' a).
Proof.
  intros Hw. destruct st as [[o md] port]. unfold g_Emulator_Transmit, absE. cbv zeta. cbn [estep fst snd].
  unfold measuring, mid_meas. cbn [emode].
  destruct (Z.eqb_spec md 54) as [E|E]; cbn [negb].
  - destruct (validate m) as [|e|] eqn:Ev.
    + rewrite (validate_ok m Ev). cbn [rbind g_port_write]. do 2 eexists. split; [reflexivity|].
      cbn [tx_code fst snd emode econf ealive eport]. rewrite skipn_app, skipn_all, Nat.sub_diag. reflexivity.
    + destruct (validate_err m e Ev) as (k & Hk & Hpos). rewrite Hk. cbn [rbind]. do 2 eexists. split; [reflexivity|].
      cbn [tx_code fst snd]. destruct (Z.eqb_spec k (-10)); [lia|]. rewrite skipn_all. reflexivity.
    + contradiction (validate_never_oob m Ev).
  - do 2 eexists. split; [reflexivity|]. cbn [tx_code fst snd]. rewrite skipn_all. reflexivity.
Qed.
(* a failing write: Transmit reports the write's error and the frame does not join the output *)
Theorem emu_transmit_write_fails o port m c : validate m = VOk ->
  g_Emulator_Transmit (Some c) m (o, 54, port) = Val (Some c, (o, 54, port)).
Proof.
  intros Ev. unfold g_Emulator_Transmit. cbv zeta. cbn [Z.eqb Pos.eqb negb].
  rewrite (validate_ok m Ev). cbn [rbind g_port_write]. reflexivity.
Qed.

(* ---- SetSendMode, SetOutputConguration, LastMessageIdentifier ---- *)
Theorem emu_set_send_mode_agrees st a :
  exists st', g_Emulator_SetSendMode st = Val st' /\ estep (absE st a) ESendMode = (ONone, absE st' a).
Proof. destruct st as [[o md] port]. eexists. split; reflexivity. Qed.

Theorem emu_set_conf_agrees st a cfg :
  exists st', g_Emulator_SetOutputConguration cfg st = Val st' /\
    estep (absE st a) (ESetConf (firstn (Z.to_nat (snd cfg)) (fst cfg))) = (ONone, absE st' a).
Proof. destruct st as [[o md] port]. eexists. split; reflexivity. Qed.

Theorem emu_last_id_agrees st a :
  exists z, g_Emulator_LastMessageIdentifier st = Val (z, st) /\ estep (absE st a) ELastId = (OId z, absE st a).
Proof. destruct st as [[o md] port]. eexists. split; reflexivity. Qed.

(* ---- MarshalMessage: the identifier of the LAST setting of the requested type, or "not in configuration" ---- *)
Definition last_match (dt : Z) (cfg : list setting) : option (Z * Z * Z) :=
  fold_left (fun acc (s : setting) => let '(t, c, p, _) := s in if t =? dt then Some (t, c, p) else acc) cfg None.
Definition mm_state (acc : option (Z * Z * Z)) : (Z * Z * Z) * bool :=
  match acc with None => ((0, 0, 0), false) | Some id => (id, true) end.

Definition mm_body (o : list setting * Z) (dt : Z) (v__ : Z) (t1 : (Z * Z * Z) * bool) : R ((Z * Z * Z) * bool) :=
  let '(v_id, v_isSet) := t1 in
  do v_d <- g_oget o v__;
  (if (negb ((let '(dt_, _, _, _) := v_d in dt_) =? dt)) then Val (v_id, v_isSet)
   else (let v_isSet := true in (let v_id := (let '(dt_, cs_, pr_, _) := v_d in (dt_, cs_, pr_)) in Val (v_id, v_isSet)))).

Lemma mm_loop bk n dt : (n <= length bk)%nat ->
  forall m k, (k + m = n)%nat ->
  g_for_n m (Z.of_nat k) (mm_state (last_match dt (firstn k bk))) (mm_body (bk, Z.of_nat n) dt) =
  Val (mm_state (last_match dt (firstn n bk))).
Proof.
  intros Hn. induction m as [|m IH]; intros k Hk.
  - cbn [g_for_n]. replace k with n by lia. reflexivity.
  - cbn [g_for_n]. unfold mm_body at 1.
    destruct (mm_state (last_match dt (firstn k bk))) as [vid vset] eqn:Es.
    unfold g_oget, g_olen, snd, fst.
    destruct (Z.ltb_spec (Z.of_nat k) 0); [lia|]. destruct (Z.leb_spec (Z.of_nat n) (Z.of_nat k)); [lia|]. cbn [orb rbind].
    rewrite Nat2Z.id. change gzero with zero_setting.
    assert (Hf : last_match dt (firstn (S k) bk) =
                 (let '(t, c, p, _) := nth k bk zero_setting in if t =? dt then Some (t, c, p) else last_match dt (firstn k bk))).
    { assert (Hlt : (k < @length setting bk)%nat) by (unfold setting in *; lia).
      rewrite (firstn_snoc bk k zero_setting Hlt). unfold last_match. rewrite fold_left_app. cbn [fold_left]. reflexivity. }
    replace (Z.of_nat k + 1) with (Z.of_nat (S k)) by lia.
    rewrite <- (IH (S k)) by lia. f_equal. rewrite Hf.
    unfold setting in *. destruct (nth k bk zero_setting) as [[[t c] p] f].
    destruct (Z.eqb_spec t dt) as [E|E]; cbn [negb].
    + reflexivity.
    + rewrite Es. reflexivity.
Qed.

Definition marshal_result (md : Z * Z * Z -> bytes * option Z) (acc : option (Z * Z * Z)) : bytes * option Z :=
  match acc with
  | None => ([], Some (-11))
  | Some id => let '(b, e) := md id in match e with Some _ => ([], e) | None => (b, None) end
  end.

Theorem emu_marshal_agrees md dt st a : conf_ok st ->
  g_Emulator_MarshalMessage md dt st = Val (marshal_result md (last_match dt (econf (absE st a))), st) /\
  estep (absE st a) (EMarshal dt) =
    (OMar (option_map (fun id => let '(t, c, p) := id in f_DataIdentifier_Uint16 t c p) (last_match dt (econf (absE st a)))), absE st a).
Proof.
  intros Hc. destruct st as [[[bk n] md0] port]. unfold conf_ok in Hc. cbn [fst snd] in Hc.
  unfold absE. cbn [econf fst snd]. split.
  - unfold g_Emulator_MarshalMessage. cbv zeta. unfold g_for, g_olen, snd. rewrite Z.sub_0_r.
    assert (Hle : (Z.to_nat n <= @length setting bk)%nat) by (unfold setting in *; lia).
    pose proof (mm_loop bk (Z.to_nat n) dt Hle (Z.to_nat n) 0%nat ltac:(lia)) as L.
    rewrite Z2Nat.id in L by lia. cbn [firstn last_match fold_left mm_state Z.of_nat] in L.
    unfold mm_body in L. unfold setting in *. rewrite L. cbn [rbind].
    destruct (last_match dt (firstn (Z.to_nat n) bk)) as [id|]; cbn [mm_state marshal_result negb].
    + destruct (md id) as [b [e|]]; reflexivity.
    + reflexivity.
  - cbn [estep econf]. f_equal. f_equal. unfold last_match.
    set (cfg := firstn (Z.to_nat n) bk). clearbody cfg.
    assert (G : forall acc,
      fold_left (fun (acc : option Z) (st : setting) => let '(t, c, p, _) := st in if t =? dt then Some (f_DataIdentifier_Uint16 t c p) else acc) cfg
                (option_map (fun id : Z * Z * Z => let '(t, c, p) := id in f_DataIdentifier_Uint16 t c p) acc) =
      option_map (fun id : Z * Z * Z => let '(t, c, p) := id in f_DataIdentifier_Uint16 t c p)
        (fold_left (fun acc (s : setting) => let '(t, c, p, _) := s in if t =? dt then Some (t, c, p) else acc) cfg acc)).
    { induction cfg as [|[[[t c] p] f] cfg IH]; intros acc; [reflexivity|]. cbn [fold_left].
      destruct (Z.eqb_spec t dt); [exact (IH (Some (t, c, p)))|exact (IH acc)]. }
    exact (G None).
Qed.
