(* Tie T for the byte-level core: the functions REGENERATED from message.go, mtdata2.go and scanmessages.go on every
   run (Gen/Bytes.v, statement by statement) agree with the hand-written models the theorems of C01, C02, C06, C07
   are stated over - for every byte string, not for the sampled ones.  A change of the Go source that alters the
   behaviour of one of these functions breaks the corresponding lemma here. *)
From Coq Require Import ZArith NArith List Bool Lia.
Require Import Base.Bytes Base.Tactics Base.GoInt Base.GoBytes Gen.Bytes Model.Frame Model.Packet Model.Split
  Proofs.FrameProofs Proofs.SplitProofs.
Import ListNotations.
Open Scope Z_scope.

(* ---- the fragment's primitives against the models' ---- *)
Lemma g_index_nthb m i : (i < length m)%nat -> g_index m (Z.of_nat i) = Val (Z.of_N (nthb m i)).
Proof.
  intros H. unfold g_index, g_len, nthb. destruct (Z.ltb_spec (Z.of_nat i) 0); [lia|].
  destruct (Z.leb_spec (Z.of_nat (length m)) (Z.of_nat i)); [lia|]. cbn [orb]. rewrite Nat2Z.id. reflexivity.
Qed.

Lemma g_index_oob m i : (length m <= i)%nat -> g_index m (Z.of_nat i) = Pan.
Proof.
  intros H. unfold g_index, g_len. destruct (Z.leb_spec (Z.of_nat (length m)) (Z.of_nat i)); [|lia].
  rewrite orb_true_r. reflexivity.
Qed.

Lemma g_slice_sub m lo hi : (lo <= hi)%nat -> (hi <= length m)%nat ->
  g_slice m (Z.of_nat lo) (Z.of_nat hi) = Val (sub m lo (hi - lo)).
Proof.
  intros H1 H2. unfold g_slice, g_len, sub.
  destruct (Z.ltb_spec (Z.of_nat lo) 0); [lia|]. destruct (Z.ltb_spec (Z.of_nat hi) (Z.of_nat lo)); [lia|].
  destruct (Z.ltb_spec (Z.of_nat (length m)) (Z.of_nat hi)); [lia|]. cbn [orb].
  rewrite Nat2Z.id. replace (Z.to_nat (Z.of_nat hi - Z.of_nat lo)) with (hi - lo)%nat by lia. reflexivity.
Qed.

Lemma g_slice_oob m lo hi : (length m < hi)%nat -> g_slice m (Z.of_nat lo) (Z.of_nat hi) = Pan.
Proof.
  intros H. unfold g_slice, g_len. destruct (Z.ltb_spec (Z.of_nat (length m)) (Z.of_nat hi)); [|lia].
  rewrite orb_true_r. reflexivity.
Qed.

Lemma g_index_z m z : 0 <= z < Z.of_nat (length m) -> g_index m z = Val (Z.of_N (nthb m (Z.to_nat z))).
Proof. intros H. rewrite <- (Z2Nat.id z) at 1 by lia. apply g_index_nthb. lia. Qed.

Lemma g_slice_z m lo hi : 0 <= lo <= hi -> hi <= Z.of_nat (length m) ->
  g_slice m lo hi = Val (sub m (Z.to_nat lo) (Z.to_nat hi - Z.to_nat lo)).
Proof.
  intros H1 H2. rewrite <- (Z2Nat.id lo) at 1 by lia. rewrite <- (Z2Nat.id hi) at 1 by lia. apply g_slice_sub; lia.
Qed.

Lemma sub_two m i : (i + 2 <= length m)%nat -> sub m i 2 = [nthb m i; nthb m (i + 1)].
Proof.
  revert i; induction m as [|a m IH]; intros i H; [cbn in H; lia|].
  destruct i as [|i].
  - destruct m as [|b m]; [cbn in H; lia|]. reflexivity.
  - cbn [length] in H. unfold sub. cbn [skipn]. fold (sub m i 2). rewrite IH by lia. reflexivity.
Qed.

(* ---- accessors ---- *)
Lemma preamble_agrees m : (1 <= length m)%nat -> g_Message_Preamble m = Val (Z.of_N (nthb m 0)).
Proof. intros H. unfold g_Message_Preamble. rewrite (g_index_z m 0) by lia. reflexivity. Qed.
Lemma busid_agrees m : (2 <= length m)%nat -> g_Message_BusIdentifier m = Val (Z.of_N (nthb m 1)).
Proof. intros H. unfold g_Message_BusIdentifier. rewrite (g_index_z m 1) by lia. reflexivity. Qed.
Lemma is_extended_agrees m : (4 <= length m)%nat -> g_Message_IsExtended m = Val (nthb m 3 =? FF)%N.
Proof.
  intros H. unfold g_Message_IsExtended. rewrite (g_index_z m 3) by lia. change (Z.to_nat 3) with 3%nat. cbn [rbind]. f_equal.
  unfold FF. destruct (N.eqb_spec (nthb m 3) 255); destruct (Z.eqb_spec (Z.of_N (nthb m 3)) 255); try reflexivity; lia.
Qed.
Lemma ext_length_agrees m : (6 <= length m)%nat -> nthb m 3 = FF ->
  g_Message_Length m = Val (Z.of_N (be16 (nthb m 4) (nthb m 5))).
Proof.
  intros H E. unfold g_Message_Length. rewrite is_extended_agrees by lia. rewrite E, N.eqb_refl. cbn [rbind].
  rewrite (g_slice_z m 4 6) by lia. change (Z.to_nat 6 - Z.to_nat 4)%nat with 2%nat. change (Z.to_nat 4) with 4%nat.
  cbn [rbind]. rewrite sub_two by lia. reflexivity.
Qed.

(* Message.Checksum: the counting loop is the modular sum of the bytes after the preamble *)
Lemma checksum_loop m : forall k acc, (k <= length m)%nat ->
  g_for_n (length m - k) (Z.of_nat k) (Z.of_N acc)
    (fun v_i t2 => let v_checkSum := t2 in do v_checkSum <- (do t1 <- g_index m v_i; Val (wrap_u 8 (v_checkSum + t1))); Val v_checkSum)
  = Val (Z.of_N (fold_left (fun a b => ((a + b) mod 256)%N) (skipn k m) acc)).
Proof.
  intros k. remember (length m - k)%nat as n eqn:En. revert k En.
  induction n as [|n IH]; intros k En acc Hk.
  - cbn [g_for_n]. rewrite skipn_all2 by lia. reflexivity.
  - cbn [g_for_n]. rewrite (g_index_nthb m k) by lia. cbn [rbind].
    assert (Hs : skipn k m = nthb m k :: skipn (S k) m).
    { clear - En. assert (Hk : (k < length m)%nat) by lia. clear En. revert k Hk.
      induction m as [|a m IHm]; intros k Hk; [cbn in Hk; lia|]. destruct k; [reflexivity|].
      cbn [skipn nthb nth]. apply IHm. cbn in Hk. lia. }
    rewrite Hs. cbn [fold_left].
    replace (Z.of_nat k + 1) with (Z.of_nat (S k)) by lia.
    replace (wrap_u 8 (Z.of_N acc + Z.of_N (nthb m k))) with (Z.of_N ((acc + nthb m k) mod 256)%N).
    + apply IH; lia.
    + unfold wrap_u. change (2 ^ 8) with 256. rewrite N2Z.inj_mod, N2Z.inj_add. reflexivity.
Qed.

Lemma checksum_agrees m : g_Message_Checksum m = Val (Z.of_N (checksum m)).
Proof.
  unfold g_Message_Checksum, g_for, g_len, checksum, sumb. cbv zeta.
  destruct m as [|a m]; [reflexivity|].
  replace (Z.to_nat (Z.of_nat (length (a :: m)) - 1)) with (length (a :: m) - 1)%nat by (cbn [length]; lia).
  pose proof (checksum_loop (a :: m) 1 0%N ltac:(cbn [length]; lia)) as H. cbn [Z.of_N Z.of_nat Pos.of_succ_nat] in H.
  change (Z.of_nat 1) with 1 in H. rewrite H. reflexivity.
Qed.

(* ---- Message.Validate ---- *)
Definition g_verdict (r : R (option Z)) : Z := match r with Val None => 0 | Val (Some _) => 1 | Pan => 2 end.
Definition h_verdict (v : vres) : Z := match v with VOk => 0 | VErr _ => 1 | VOOB => 2 end.

Ltac beq := repeat match goal with
  | |- context [(?a =? ?b)%N] => destruct (N.eqb_spec a b)
  | |- context [(?a =? ?b)%Z] => destruct (Z.eqb_spec a b)
  | |- context [(?a <? ?b)%N] => destruct (N.ltb_spec a b)
  | |- context [(?a <? ?b)%Z] => destruct (Z.ltb_spec a b)
  | |- context [(?a =? ?b)%nat] => destruct (Nat.eqb_spec a b)
  | |- context [(?a <? ?b)%nat] => destruct (Nat.ltb_spec a b)
  end; cbn [negb orb andb rbind g_verdict h_verdict]; try reflexivity; try lia.

Theorem validate_agrees m : g_verdict (g_Message_Validate m) = h_verdict (validate m).
Proof.
  destruct (Nat.ltb_spec (length m) 5) as [H5|H5].
  - unfold g_Message_Validate, validate, g_len. destruct (Z.ltb_spec (Z.of_nat (length m)) 5); [|lia].
    destruct (Nat.ltb_spec (length m) 5); [reflexivity|lia].
  - rewrite (validate_unfold m H5). unfold g_Message_Validate, g_len.
    destruct (Z.ltb_spec (Z.of_nat (length m)) 5); [lia|].
    rewrite preamble_agrees, busid_agrees, is_extended_agrees, checksum_agrees by lia.
    rewrite (g_index_z m 3) by lia. change (Z.to_nat 3) with 3%nat. cbn [rbind]. unfold FA, FF, min_ext, max_ext.
    destruct (N.eqb_spec (nthb m 0) 250) as [E0|E0]; destruct (Z.eqb_spec (Z.of_N (nthb m 0)) 250); try lia; cbn [negb rbind g_verdict h_verdict]; [|reflexivity].
    destruct (N.eqb_spec (nthb m 1) 255) as [E1|E1]; destruct (Z.eqb_spec (Z.of_N (nthb m 1)) 255); try lia; cbn [negb rbind g_verdict h_verdict]; [|reflexivity].
    destruct (N.eqb_spec (nthb m 3) 255) as [E3|E3].
    + destruct (Z.ltb_spec (Z.of_nat (length m)) 7); destruct (Nat.ltb_spec (length m) 7); try lia; [reflexivity|].
      rewrite ext_length_agrees by (try lia; exact E3). cbn [rbind]. cbv zeta.
      set (L := be16 (nthb m 4) (nthb m 5)). beq.
    + beq.
Qed.

(* ---- MTData2.PacketAt ---- *)
Definition g_packet (r : R (bytes * option Z)) : outcome bytes :=
  match r with Val (p, None) => Ok p | Val (_, Some _) => Err insufficient | Pan => OOB end.

Theorem packet_at_agrees m i : g_packet (g_MTData2_PacketAt m (Z.of_nat i)) = packet_at m i.
Proof.
  unfold g_MTData2_PacketAt, packet_at, g_len.
  destruct (Nat.ltb_spec (length m) (i + 3)); destruct (Z.ltb_spec (Z.of_nat (length m)) (Z.of_nat i + 2 + 1)); try lia; [reflexivity|].
  replace (Z.of_nat i + 2) with (Z.of_nat (i + 2)) by lia. rewrite (g_index_nthb m (i + 2)) by lia. cbn [rbind].
  rewrite (get_nthb m (i + 2)) by lia.
  destruct (Nat.ltb_spec (length m) (i + 3 + N.to_nat (nthb m (i + 2))));
    destruct (Z.ltb_spec (Z.of_nat (length m)) (Z.of_nat (i + 2) + 1 + Z.of_N (nthb m (i + 2)))); try lia; [reflexivity|].
  replace (Z.of_nat (i + 2) + 1 + Z.of_N (nthb m (i + 2))) with (Z.of_nat (i + 3 + N.to_nat (nthb m (i + 2)))) by lia.
  rewrite g_slice_sub by lia. cbn [rbind g_packet]. f_equal. f_equal. lia.
Qed.

(* ---- ScanMessages ---- *)
Lemma bytes_index_agrees d : forall i,
  g_bytes_index_from d [g_byte 250; g_byte 255] i = match find_hdr d with Some k => i + Z.of_nat k | None => -1 end.
Proof.
  change (g_byte 250) with 250%N. change (g_byte 255) with 255%N.
  induction d as [|a t IH]; intros i; [reflexivity|].
  cbn [g_bytes_index_from prefix_eqb find_hdr].
  destruct t as [|b t'].
  - cbn [prefix_eqb]. rewrite andb_false_r. cbn [g_bytes_index_from prefix_eqb]. reflexivity.
  - cbn [prefix_eqb]. rewrite andb_true_r. unfold FA, FF.
    rewrite (N.eqb_sym 250 a), (N.eqb_sym 255 b).
    destruct ((a =? 250)%N && (b =? 255)%N); [lia|].
    rewrite IH. destruct (find_hdr (b :: t')) as [k|]; cbn [option_map]; lia.
Qed.

Lemma rev_head d : d <> [] -> exists t, rev d = nthb d (length d - 1) :: t.
Proof.
  intros H. destruct (exists_last H) as (l & x & ->). exists (rev l).
  rewrite rev_app_distr. cbn [rev app]. f_equal. unfold nthb. rewrite app_length. cbn [length].
  rewrite app_nth2 by lia. replace (length l + 1 - 1 - length l)%nat with 0%nat by lia. reflexivity.
Qed.

Definition g_scan (r : R (Z * bytes * option Z)) : option (nat * option bytes) :=
  match r with
  | Val (adv, tok, None) => Some (Z.to_nat adv, match tok with [] => None | _ => Some tok end)
  | _ => None
  end.

Lemma firstn_nonempty (m : bytes) L : (0 < L)%nat -> (L <= length m)%nat ->
  match firstn L m with [] => None | _ => Some (firstn L m) end = Some (firstn L m).
Proof. intros H1 H2. destruct m; [cbn in H2; lia|]. destruct L; [lia|]. reflexivity. Qed.

Theorem scan_agrees d eof : d <> [] \/ eof = true -> g_scan (g_ScanMessages d eof) = Some (scan_messages d eof).
Proof.
  intros Hne. unfold g_ScanMessages, scan_messages, g_len.
  destruct d as [|x d'] eqn:Ed.
  - destruct Hne as [C| ->]; [contradiction C; reflexivity|]. reflexivity.
  - rewrite <- Ed in *. assert (Hlen : (0 < length d)%nat) by (rewrite Ed; cbn; lia).
    assert (Hz : (Z.of_nat (length d) =? 0) = false) by (apply Z.eqb_neq; lia).
    rewrite Hz. rewrite ?andb_false_l, ?andb_false_r.
    cbv zeta. unfold g_bytes_index. rewrite bytes_index_agrees.
    destruct (find_hdr d) as [i|] eqn:Eh.
    + pose proof (Proofs.SplitProofs.find_hdr_bound d i Eh) as Hb.
      destruct (Z.eqb_spec (0 + Z.of_nat i) (-1)); [lia|].
      rewrite Z.add_0_l. rewrite (g_slice_sub d i (length d)) by lia. cbn [rbind].
      unfold sub. rewrite firstn_all2 by (rewrite skipn_length; lia).
      set (m := skipn i d). assert (Hm : length m = (length d - i)%nat) by (unfold m; apply skipn_length).
      unfold claimed_len, g_len.
      destruct (Nat.ltb_spec (length m) 4); destruct (Z.ltb_spec (Z.of_nat (length m)) 4); try lia;
        [cbn [g_scan]; rewrite Nat2Z.id; reflexivity|].
      rewrite (g_index_z m 3) by lia. change (Z.to_nat 3) with 3%nat. cbn [rbind].
      destruct (N.eqb_spec (nthb m 3) 255); destruct (Z.eqb_spec (Z.of_N (nthb m 3)) 255); try lia.
      * destruct (Nat.ltb_spec (length m) 6); destruct (Z.ltb_spec (Z.of_nat (length m)) 6); try lia;
          [cbn [g_scan]; rewrite Nat2Z.id; reflexivity|].
        rewrite (g_slice_z m 4 6) by lia. change (Z.to_nat 6 - Z.to_nat 4)%nat with 2%nat. change (Z.to_nat 4) with 4%nat.
        cbn [rbind]. rewrite sub_two by lia. change (4 + 1)%nat with 5%nat. cbn [g_be16 rbind]. unfold be16.
        set (L := (6 + N.to_nat (nthb m 4 * 256 + nthb m 5) + 1)%nat).
        replace (6 + Z.of_N (nthb m 4 * 256 + nthb m 5) + 1) with (Z.of_nat L) by (unfold L; lia).
        destruct (Nat.ltb_spec (length m) L); destruct (Z.ltb_spec (Z.of_nat (length m)) (Z.of_nat L)); try lia;
          [cbn [g_scan]; rewrite Nat2Z.id; reflexivity|].
        change 0 with (Z.of_nat 0) at 1. rewrite (g_slice_sub m 0 L) by lia. cbn [rbind g_scan]. unfold sub. cbn [skipn]. rewrite Nat.sub_0_r.
        rewrite firstn_nonempty by (unfold L; lia). f_equal. f_equal. lia.
      * set (L := (4 + N.to_nat (nthb m 3) + 1)%nat).
        replace (4 + Z.of_N (nthb m 3) + 1) with (Z.of_nat L) by (unfold L; lia).
        destruct (Nat.ltb_spec (length m) L); destruct (Z.ltb_spec (Z.of_nat (length m)) (Z.of_nat L)); try lia;
          [cbn [g_scan]; rewrite Nat2Z.id; reflexivity|].
        change 0 with (Z.of_nat 0) at 1. rewrite (g_slice_sub m 0 L) by lia. cbn [rbind g_scan]. unfold sub. cbn [skipn]. rewrite Nat.sub_0_r.
        rewrite firstn_nonempty by (unfold L; lia). f_equal. f_equal. lia.
    + destruct (Z.eqb_spec (-1) (-1)); [|lia].
      rewrite (g_index_z d (Z.of_nat (length d) - 1)) by lia. cbn [rbind].
      replace (Z.to_nat (Z.of_nat (length d) - 1)) with (length d - 1)%nat by lia.
      unfold last_is_FA. destruct (rev_head d ltac:(rewrite Ed; discriminate)) as [t Hr]. rewrite Hr. unfold FA.
      destruct (N.eqb_spec (nthb d (length d - 1)) 250); destruct (Z.eqb_spec (Z.of_N (nthb d (length d - 1))) 250); try lia;
        cbn [g_scan]; f_equal; f_equal; lia.
Qed.

(* ---- the remaining accessors (on byte strings, i.e. every element below 256) ---- *)
Lemma nthb_byte m i : wf_bytes m -> (nthb m i < 256)%N.
Proof.
  intros H. unfold nthb. destruct (Nat.ltb_spec i (length m)) as [Hi|Hi].
  - unfold wf_bytes in H. rewrite Forall_forall in H. apply H. apply nth_In. exact Hi.
  - rewrite nth_overflow by lia. lia.
Qed.

Theorem identifier_agrees m : wf_bytes m ->
  g_Message_Identifier m = match identifier m with Some b => Val (Z.of_N b) | None => Pan end.
Proof.
  intros Hw. unfold g_Message_Identifier, identifier. destruct (Nat.ltb_spec 2 (length m)) as [H|H].
  - rewrite (g_index_z m 2) by lia. change (Z.to_nat 2) with 2%nat. rewrite get_nthb by lia. cbn [rbind].
    f_equal. unfold wrap_u. change (2 ^ 8) with 256. pose proof (nthb_byte m 2 Hw). lia.
  - change 2 with (Z.of_nat 2). rewrite g_index_oob by lia. rewrite get_none by lia. reflexivity.
Qed.

Theorem is_extended_total m :
  g_Message_IsExtended m = match is_extended m with Some b => Val b | None => Pan end.
Proof.
  unfold is_extended. destruct (Nat.ltb_spec 3 (length m)) as [H|H].
  - rewrite is_extended_agrees by lia. rewrite get_nthb by lia. reflexivity.
  - unfold g_Message_IsExtended. change 3 with (Z.of_nat 3). rewrite g_index_oob by lia. rewrite get_none by lia. reflexivity.
Qed.

Theorem length_agrees m : wf_bytes m ->
  g_Message_Length m = match msg_length m with Some L => Val (Z.of_N L) | None => Pan end.
Proof.
  intros Hw. unfold g_Message_Length, msg_length. rewrite is_extended_total.
  destruct (is_extended m) as [[|]|] eqn:E; cbn [rbind]; [| |reflexivity].
  - destruct (Nat.ltb_spec (length m) 6) as [H|H].
    + change 4 with (Z.of_nat 4). change 6 with (Z.of_nat 6). rewrite g_slice_oob by lia. cbn [rbind].
      destruct (get m 4) eqn:G4; [|reflexivity]. rewrite get_none by lia. reflexivity.
    + rewrite (g_slice_z m 4 6) by lia. change (Z.to_nat 6 - Z.to_nat 4)%nat with 2%nat. change (Z.to_nat 4) with 4%nat.
      cbn [rbind]. rewrite sub_two by lia. rewrite !get_nthb by lia. reflexivity.
  - unfold is_extended in E. destruct (get m 3) as [l|] eqn:G; [|discriminate].
    assert (Hl : (3 < length m)%nat).
    { destruct (Nat.ltb_spec 3 (length m)); [assumption|]. rewrite get_none in G by lia. discriminate. }
    rewrite (g_index_z m 3) by lia. change (Z.to_nat 3) with 3%nat. cbn [rbind]. rewrite get_nthb in G by lia.
    injection G as <-. f_equal. unfold wrap_u. change (2 ^ 16) with 65536. pose proof (nthb_byte m 3 Hw). lia.
Qed.

(* Message.Data: the end of the payload is computed in uint16, so an extended length above 65529 wraps (the Go
   code then panics or slices the wrong range); the hand model is the Go behaviour below that bound - which
   every validated frame is far below (extended lengths up to 2048) *)
Theorem data_agrees m : wf_bytes m ->
  (forall L, msg_length m = Some L -> (L <= 65529)%N) ->
  g_Message_Data m = match msg_data m with Some d => Val d | None => Pan end.
Proof.
  intros Hw Hb. unfold g_Message_Data, msg_data. rewrite is_extended_total.
  destruct (is_extended m) as [e|] eqn:E; cbn [rbind]; [|reflexivity].
  rewrite length_agrees by exact Hw. destruct (msg_length m) as [L|] eqn:EL; [|destruct e; reflexivity].
  specialize (Hb L eq_refl). cbn [rbind].
  destruct e.
  - unfold wrap_u. change (2 ^ 16) with 65536. rewrite Z.mod_small by lia.
    destruct (Nat.leb_spec (6 + N.to_nat L) (length m)) as [H|H].
    + rewrite (g_slice_z m 6 (6 + Z.of_N L)) by lia. cbn [rbind]. f_equal. f_equal. lia.
    + replace (6 + Z.of_N L) with (Z.of_nat (6 + N.to_nat L)) by lia. change 6 with (Z.of_nat 6) at 1.
      rewrite g_slice_oob by lia. reflexivity.
  - unfold wrap_u. change (2 ^ 16) with 65536. rewrite Z.mod_small by lia.
    destruct (Nat.leb_spec (4 + N.to_nat L) (length m)) as [H|H].
    + rewrite (g_slice_z m 4 (4 + Z.of_N L)) by lia. cbn [rbind]. f_equal. f_equal. lia.
    + replace (4 + Z.of_N L) with (Z.of_nat (4 + N.to_nat L)) by lia. change 4 with (Z.of_nat 4) at 1.
      rewrite g_slice_oob by lia. reflexivity.
Qed.

(* ---- NewMessage ---- *)
Lemma g_set_nat s i v : (i < length s)%nat -> g_set s (Z.of_nat i) v = Val (upd s i (g_byte v)).
Proof.
  intros H. unfold g_set, g_len. destruct (Z.ltb_spec (Z.of_nat i) 0); [lia|].
  destruct (Z.leb_spec (Z.of_nat (length s)) (Z.of_nat i)); [lia|]. cbn [orb]. rewrite Nat2Z.id. reflexivity.
Qed.

Lemma upd_app_r {A} (l1 l2 : list A) i x : upd (l1 ++ l2) (length l1 + i) x = l1 ++ upd l2 i x.
Proof. induction l1 as [|a l1 IH]; [reflexivity|]. cbn [length app upd Nat.add]. rewrite IH. reflexivity. Qed.

Lemma set_last l c : g_set (l ++ [0%N]) (g_len (l ++ [0%N]) - 1) c = Val (l ++ [g_byte c]).
Proof.
  unfold g_len. rewrite app_length. cbn [length].
  replace (Z.of_nat (length l + 1) - 1) with (Z.of_nat (length l)) by lia.
  rewrite g_set_nat by (rewrite app_length; cbn [length]; lia).
  rewrite <- (Nat.add_0_r (length l)) at 1. rewrite upd_app_r. reflexivity.
Qed.

Lemma copy_body hdr p : g_copy (hdr ++ repeat 0%N (length p) ++ [0%N]) (Z.of_nat (length hdr)) p = Val (hdr ++ p ++ [0%N]).
Proof.
  unfold g_copy, g_len. rewrite !app_length, repeat_length. cbn [length].
  destruct (Z.ltb_spec (Z.of_nat (length hdr)) 0); [lia|].
  destruct (Z.ltb_spec (Z.of_nat (length hdr + (length p + 1))) (Z.of_nat (length hdr))); [lia|]. cbn [orb].
  rewrite Nat2Z.id. replace (length hdr + (length p + 1) - length hdr)%nat with (length p + 1)%nat by lia.
  rewrite Nat.min_l by lia. rewrite firstn_all. rewrite firstn_app, firstn_all, Nat.sub_diag. cbn [firstn]. rewrite app_nil_r.
  rewrite skipn_app, skipn_all2 by lia. replace (length hdr + length p - length hdr)%nat with (length p) by lia.
  rewrite skipn_app, skipn_all2 by (rewrite repeat_length; lia). rewrite repeat_length, Nat.sub_diag. reflexivity.
Qed.

Lemma sumb_snoc0 l : sumb (l ++ [0%N]) = sumb l.
Proof.
  unfold sumb. rewrite fold_left_app. cbn [fold_left]. rewrite N.add_0_r.
  assert (H : forall l acc, (acc < 256)%N -> (fold_left (fun a b => ((a + b) mod 256)%N) l acc < 256)%N).
  { clear. induction l as [|x l IH]; intros acc Ha; [exact Ha|]. cbn [fold_left]. apply IH. apply N.mod_lt. discriminate. }
  apply N.mod_small. apply H. lia.
Qed.

Lemma sumb_lt l : (sumb l < 256)%N.
Proof.
  unfold sumb. assert (H : forall l acc, (acc < 256)%N -> (fold_left (fun a b => ((a + b) mod 256)%N) l acc < 256)%N).
  { clear. induction l as [|x l IH]; intros acc Ha; [exact Ha|]. cbn [fold_left]. apply IH. apply N.mod_lt. discriminate. }
  apply H. lia.
Qed.

Lemma checksum_byte cs : (cs < 256)%N ->
  g_byte (wrap_u 8 (Z.land 255 (wrap_u 8 (- Z.of_N cs)))) = ((256 - cs) mod 256)%N.
Proof.
  intros H. unfold g_byte, wrap_u. change (2 ^ 8) with 256. change 255 with (Z.ones 8). rewrite Z.land_comm, Z.land_ones by lia.
  change (2 ^ 8) with 256. lia.
Qed.

Lemma finish hdr p : hdr <> [] ->
  (do v_message <- (do t3 <- (do t2 <- (do t1 <- g_Message_Checksum (hdr ++ p ++ [0%N]); Val (wrap_u 8 (- t1))); Val (wrap_u 8 (Z.land 255 t2)));
                    g_set (hdr ++ p ++ [0%N]) (g_len (hdr ++ p ++ [0%N]) - 1) t3); Val v_message)
  = Val ((hdr ++ p) ++ [((256 - sumb (tl (hdr ++ p))) mod 256)%N]).
Proof.
  intros Hh. rewrite checksum_agrees. cbn [rbind]. rewrite app_assoc. rewrite set_last. cbn [rbind].
  f_equal. f_equal. f_equal. unfold checksum.
  destruct hdr as [|a h']; [contradiction Hh; reflexivity|]. cbn [app tl].
  rewrite sumb_snoc0. apply checksum_byte. apply sumb_lt.
Qed.

Theorem new_message_agrees mid p : 0 <= mid < 256 -> g_NewMessage mid p = Val (new_message (Z.to_N mid) p).
Proof.
  intros Hm. unfold g_NewMessage, new_message, g_len, min_ext, FA, FF. cbv zeta.
  set (n := length p).
  assert (Hmid : g_byte (wrap_u 8 mid) = Z.to_N mid) by (unfold g_byte, wrap_u; change (2 ^ 8) with 256; rewrite Z.mod_small by lia; reflexivity).
  destruct (Z.leb_spec 255 (Z.of_nat n)) as [Hx|Hx]; destruct (N.leb_spec 255 (N.of_nat n)) as [Hy|Hy]; try lia.
  - (* extended *)
    unfold g_make. destruct (Z.ltb_spec (6 + Z.of_nat n + 1) 0); [lia|].
    replace (Z.to_nat (6 + Z.of_nat n + 1)) with (6 + (n + 1))%nat by lia. cbn [Nat.add repeat rbind].
    change 0 with (Z.of_nat 0) at 1. rewrite g_set_nat by (cbn [length]; lia). cbn [upd rbind].
    change 1 with (Z.of_nat 1) at 1. rewrite g_set_nat by (cbn [length]; lia). cbn [upd rbind].
    change 2 with (Z.of_nat 2) at 1. rewrite g_set_nat by (cbn [length]; lia). cbn [upd rbind].
    change 3 with (Z.of_nat 3) at 1. rewrite g_set_nat by (cbn [length]; lia). cbn [upd rbind].
    unfold g_put16, g_len. cbn [length]. destruct (Z.ltb_spec 4 0); [lia|].
    match goal with |- context [(?a <? 4 + 2)] => destruct (Z.ltb_spec a (4 + 2)); [lia|] end. cbn [orb rbind].
    change (Z.to_nat 4) with 4%nat. cbn [upd Nat.add].
    rewrite Hmid. change (g_byte 250) with 250%N. change (g_byte 255) with 255%N.
    set (hi := g_byte (wrap_u 16 (Z.of_nat n) / 256 mod 256)). set (lo := g_byte (wrap_u 16 (Z.of_nat n) mod 256)).
    assert (Hrep : repeat 0%N (n + 1) = repeat 0%N (length p) ++ [0%N]).
    { fold n. rewrite repeat_app. reflexivity. }
    rewrite Hrep.
    change (250 :: 255 :: Z.to_N mid :: 255 :: hi :: lo :: repeat 0 (length p) ++ [0])%N
      with ([250; 255; Z.to_N mid; 255; hi; lo] ++ repeat 0 (length p) ++ [0])%N.
    change 6 with (Z.of_nat (length [250; 255; Z.to_N mid; 255; hi; lo]%N)) at 1.
    rewrite copy_body. cbn [rbind]. rewrite finish by discriminate.
    assert (Hhi : hi = ((N.of_nat n / 256) mod 256)%N) by (unfold hi, g_byte, wrap_u; change (2 ^ 16) with 65536; lia).
    assert (Hlo : lo = (N.of_nat n mod 256)%N) by (unfold lo, g_byte, wrap_u; change (2 ^ 16) with 65536; lia).
    rewrite Hhi, Hlo. reflexivity.
  - (* standard *)
    unfold g_make. destruct (Z.ltb_spec (4 + Z.of_nat n + 1) 0); [lia|].
    replace (Z.to_nat (4 + Z.of_nat n + 1)) with (4 + (n + 1))%nat by lia. cbn [Nat.add repeat rbind].
    change 0 with (Z.of_nat 0) at 1. rewrite g_set_nat by (cbn [length]; lia). cbn [upd rbind].
    change 1 with (Z.of_nat 1) at 1. rewrite g_set_nat by (cbn [length]; lia). cbn [upd rbind].
    change 2 with (Z.of_nat 2) at 1. rewrite g_set_nat by (cbn [length]; lia). cbn [upd rbind].
    change 3 with (Z.of_nat 3) at 1. rewrite g_set_nat by (cbn [length]; lia). cbn [upd rbind].
    rewrite Hmid. change (g_byte 250) with 250%N. change (g_byte 255) with 255%N.
    set (ln := g_byte (wrap_u 8 (Z.of_nat n))).
    assert (Hrep : repeat 0%N (n + 1) = repeat 0%N (length p) ++ [0%N]).
    { fold n. rewrite repeat_app. reflexivity. }
    rewrite Hrep.
    change (250 :: 255 :: Z.to_N mid :: ln :: repeat 0 (length p) ++ [0])%N
      with ([250; 255; Z.to_N mid; ln] ++ repeat 0 (length p) ++ [0])%N.
    change 4 with (Z.of_nat (length [250; 255; Z.to_N mid; ln]%N)) at 1.
    rewrite copy_body. cbn [rbind]. rewrite finish by discriminate.
    assert (Hln : ln = N.of_nat n) by (unfold ln, g_byte, wrap_u; change (2 ^ 8) with 256; lia).
    rewrite Hln. reflexivity.
Qed.

(* ---- NewMTData2Package (with SetLength and SetIdentifier writing through the slice) ---- *)
Theorem new_packet_agrees len t c p : 0 <= len < 256 -> 0 <= Gen.Funcs.f_DataIdentifier_Uint16 t c p ->
  g_NewMTData2Package len (t, c, p) =
  Val (new_packet (Z.to_N len) (Z.to_N (Gen.Funcs.f_DataIdentifier_Uint16 t c p))).
Proof.
  intros Hl Hw. unfold g_NewMTData2Package, new_packet, g_make.
  destruct (Z.ltb_spec (3 + len) 0); [lia|]. cbn [rbind].
  replace (Z.to_nat (3 + len)) with (3 + Z.to_nat len)%nat by lia. cbn [Nat.add repeat].
  unfold g_MTData2Packet_SetLength. change 2 with (Z.of_nat 2) at 1. rewrite g_set_nat by (cbn [length]; lia). cbn [rbind upd].
  unfold g_MTData2Packet_SetIdentifier, g_put16_in, g_len. cbn [length].
  destruct (Z.ltb_spec 0 0); [lia|]. destruct (Z.ltb_spec 2 0); [lia|].
  match goal with |- context [(?a <? 2)] => destruct (Z.ltb_spec a 2); [lia|] end.
  destruct (Z.ltb_spec (2 - 0) 2); [lia|]. cbn [orb rbind]. change (Z.to_nat 0) with 0%nat. cbn [upd Nat.add app].
  set (w := Gen.Funcs.f_DataIdentifier_Uint16 t c p) in *.
  rewrite Z_N_nat.
  replace (g_byte (w / 256 mod 256)) with ((Z.to_N w / 256) mod 256)%N by (unfold g_byte; lia).
  replace (g_byte (w mod 256)) with (Z.to_N w mod 256)%N by (unfold g_byte; lia).
  reflexivity.
Qed.

(* ---- MTData2Packet.Identifier: the packet header decoded through the generated SetUint16 ---- *)
Theorem packet_identifier_agrees p :
  g_MTData2Packet_Identifier p =
  if (2 <=? length p)%nat
  then Val (Gen.Funcs.f_DataIdentifier_SetUint16 0 0 0 (Z.of_N (be16 (nthb p 0) (nthb p 1))))
  else Pan.
Proof.
  unfold g_MTData2Packet_Identifier. cbv zeta.
  destruct (Nat.leb_spec 2 (length p)) as [H|H].
  - rewrite (g_slice_z p 0 2) by lia. change (Z.to_nat 2 - Z.to_nat 0)%nat with 2%nat. change (Z.to_nat 0) with 0%nat.
    cbn [rbind]. rewrite sub_two by lia. reflexivity.
  - change 0 with (Z.of_nat 0) at 1. change 2 with (Z.of_nat 2) at 1. rewrite g_slice_oob by lia. reflexivity.
Qed.

(* ---- Message.IsError / Message.ErrorCode on accepted frames (Go's && short-circuits; on an accepted frame every
   accessor is in bounds, so the order of evaluation does not show) ---- *)
Theorem is_error_agrees m : wf_bytes m -> validate m = VOk ->
  g_Message_IsError m = match is_error m with Some b => Val b | None => Pan end.
Proof.
  intros Hw Ev. destruct (XS.Proofs.FrameProofs.accessors_in_bounds m Ev) as (Hid & Hext & Hlen & _).
  unfold g_Message_IsError, is_error. rewrite (identifier_agrees m Hw), is_extended_total, (length_agrees m Hw).
  rewrite Hid, Hext, Hlen. cbn [rbind]. unfold mid_error.
  destruct (N.eqb_spec (nthb m 2) 66) as [E|E]; destruct (Z.eqb_spec (Z.of_N (nthb m 2)) 66); try lia; cbn [rbind andb negb]; [|reflexivity].
  destruct (nthb m 3 =? 255)%N; cbn [rbind andb negb]; [reflexivity|].
  destruct (N.eqb_spec (decl_len m) 1) as [E1|E1]; destruct (Z.eqb_spec (Z.of_N (decl_len m)) 1); try lia; reflexivity.
Qed.

Theorem error_code_agrees m : wf_bytes m -> validate m = VOk ->
  g_Message_ErrorCode m = match error_code m with Some c => Val (Z.of_N c) | None => Pan end.
Proof.
  intros Hw Ev. unfold g_Message_ErrorCode, error_code. rewrite (is_error_agrees m Hw Ev).
  destruct (XS.Proofs.FrameProofs.accessors_in_bounds m Ev) as (_ & _ & _ & _ & _ & _ & Hie & _). rewrite Hie. cbn [rbind].
  destruct ((nthb m 2 =? mid_error)%N && negb (nthb m 3 =? 255)%N && (decl_len m =? 1)%N); cbn [negb rbind]; [|reflexivity].
  assert (H5 : (5 <= length m)%nat).
  { apply XS.Proofs.FrameProofs.validate_iff_wf in Ev. destruct Ev as (H & _). exact H. }
  rewrite (g_index_z m 4) by lia. change (Z.to_nat 4) with 4%nat. cbn [rbind]. rewrite get_nthb by lia.
  f_equal. unfold wrap_u. change (2 ^ 8) with 256. pose proof (nthb_byte m 4 Hw). rewrite Z.mod_small by lia. reflexivity.
Qed.

(* ---- MTData2Packet.Data: everything behind the three header bytes ---- *)
Theorem packet_data_agrees p :
  g_MTData2Packet_Data p = match pkt_data p with Some d => Val d | None => Pan end.
Proof.
  unfold g_MTData2Packet_Data, pkt_data, g_slice, g_len.
  destruct (Nat.leb_spec 3 (length p)) as [H|H].
  - destruct (Z.ltb_spec 3 0); [lia|]. destruct (Z.ltb_spec (Z.of_nat (length p)) 3); [lia|].
    destruct (Z.ltb_spec (Z.of_nat (length p)) (Z.of_nat (length p))); [lia|]. cbn [orb rbind]. f_equal.
    change (Z.to_nat 3) with 3%nat. apply firstn_all2. rewrite skipn_length. lia.
  - destruct (Z.ltb_spec 3 0); [lia|]. destruct (Z.ltb_spec (Z.of_nat (length p)) 3); [|lia]. cbn [orb]. reflexivity.
Qed.
