(* Tie T for the output configuration codec: OutputConfiguration.Unmarshal as REGENERATED statement by statement from
   outputconfiguration.go (Gen/ConfFns.v: the reslice-or-grow decision on capacity, the counting loop, SetUint16 and the
   frequency store on the element in place) against the model outconf_unmarshal of Model/Config.v that C13 (and through
   the emulator C16, C18, C09, C14) is stated over - for every destination (contents, length, capacity) and every payload. *)
From Coq Require Import ZArith NArith List Bool Lia.
Require Import Base.Bytes Base.Tactics Base.GoInt Base.GoBytes Base.GoConf Gen.Funcs Gen.ConfFns Model.Config
  Tie.BytesAgree.
Import ListNotations.
Open Scope Z_scope.

Lemma groups4_nth d : forall k, (4 * k + 4 <= length d)%nat ->
  nth k (groups4 d) (0%N, 0%N) = (be16 (nthb d (4 * k)) (nthb d (4 * k + 1)), be16 (nthb d (4 * k + 2)) (nthb d (4 * k + 3))).
Proof.
  assert (H : forall n d, (length d <= n)%nat -> forall k, (4 * k + 4 <= length d)%nat ->
     nth k (groups4 d) (0%N, 0%N) = (be16 (nthb d (4 * k)) (nthb d (4 * k + 1)), be16 (nthb d (4 * k + 2)) (nthb d (4 * k + 3)))).
  { induction n as [|n IH]; intros d0 Hn k Hk; [lia|].
    destruct d0 as [|a [|b [|c [|e t]]]]; cbn [length] in Hk; try lia.
    cbn [groups4]. destruct k as [|k]; [reflexivity|].
    cbn [nth]. rewrite (IH t) by (cbn [length] in *; lia).
    unfold nthb. replace (4 * S k)%nat with (S (S (S (S (4 * k))))) by lia. cbn [nth Nat.add].
    replace (S (S (S (S (4 * k + 1)))))%nat with (S (S (S (S (4 * k)))) + 1)%nat by lia.
    replace (4 * k + 1)%nat with (S (4 * k)) by lia. replace (4 * k + 2)%nat with (S (S (4 * k))) by lia.
    replace (4 * k + 3)%nat with (S (S (S (4 * k)))) by lia.
    replace (S (S (S (S (4 * k)))) + 1)%nat with (S (S (S (S (S (4 * k)))))) by lia.
    replace (S (S (S (S (4 * k)))) + 2)%nat with (S (S (S (S (S (S (4 * k))))))) by lia.
    replace (S (S (S (S (4 * k)))) + 3)%nat with (S (S (S (S (S (S (S (4 * k)))))))) by lia.
    reflexivity. }
  intros k Hk. exact (H (length d) d (le_n _) k Hk).
Qed.

Lemma groups4_len d : length (groups4 d) = (length d / 4)%nat.
Proof.
  assert (H : forall n d, (length d <= n)%nat -> length (groups4 d) = (length d / 4)%nat).
  { induction n as [|n IH]; intros d0 Hn.
    - destruct d0; [reflexivity|cbn in Hn; lia].
    - destruct d0 as [|a [|b [|c [|e t]]]]; try reflexivity.
      cbn [groups4 length]. rewrite IH by (cbn [length] in Hn; lia).
      change (S (S (S (S (length t))))) with (4 + length t)%nat.
      replace (4 + length t)%nat with (length t + 1 * 4)%nat by lia. rewrite Nat.div_add by lia. lia. }
  exact (H (length d) d (le_n _)).
Qed.

Lemma overwrite_all_snoc base gs k : (S k <= length base)%nat -> (S k <= length gs)%nat ->
  overwrite_all (firstn (S k) base) (firstn (S k) gs) =
  overwrite_all (firstn k base) (firstn k gs) ++ [overwrite (nth k base zero_setting) (nth k gs (0%N, 0%N))].
Proof.
  revert base gs. induction k as [|k IH]; intros base gs Hb Hg.
  - destruct base as [|b base]; [cbn in Hb; lia|]. destruct gs as [|g gs]; [cbn in Hg; lia|]. reflexivity.
  - destruct base as [|b base]; [cbn in Hb; lia|]. destruct gs as [|g gs]; [cbn in Hg; lia|].
    cbn [length] in Hb, Hg. change (firstn (S (S k)) (b :: base)) with (b :: firstn (S k) base).
    change (firstn (S (S k)) (g :: gs)) with (g :: firstn (S k) gs). cbn [overwrite_all].
    rewrite IH by lia. reflexivity.
Qed.

Lemma overwrite_all_length base gs : (length gs <= length base)%nat -> length (overwrite_all base gs) = length gs.
Proof.
  revert base; induction gs as [|g gs IH]; intros base H; [destruct base; reflexivity|].
  destruct base as [|b base]; [cbn in H; lia|]. cbn [overwrite_all length]. rewrite IH by (cbn [length] in H; lia). reflexivity.
Qed.

Lemma upd_at_boundary {A} (l1 : list A) x rest y : upd (l1 ++ x :: rest) (length l1) y = l1 ++ y :: rest.
Proof. rewrite <- (Nat.add_0_r (length l1)). rewrite upd_app_r. reflexivity. Qed.

Lemma nth_at_boundary {A} (l1 : list A) x rest d : nth (length l1) (l1 ++ x :: rest) d = x.
Proof. rewrite app_nth2 by lia. rewrite Nat.sub_diag. reflexivity. Qed.

Lemma upd_at {A} k (l1 : list A) x rest y : length l1 = k -> upd (l1 ++ x :: rest) k y = l1 ++ y :: rest.
Proof. intros <-. apply upd_at_boundary. Qed.
Lemma nth_at {A} k (l1 : list A) x rest d : length l1 = k -> nth k (l1 ++ x :: rest) d = x.
Proof. intros <-. apply nth_at_boundary. Qed.

Lemma skipn_cons_nth {A} (l : list A) k d : (k < length l)%nat -> skipn k l = nth k l d :: skipn (S k) l.
Proof.
  revert k; induction l as [|a l IH]; intros k H; [cbn in H; lia|]. destruct k; [reflexivity|].
  cbn [skipn nth]. apply IH. cbn in H. lia.
Qed.

(* the decoding loop *)
Definition ubody (data : bytes) (v_i : Z) (t6 : oslice) : R oslice :=
  let v_o := t6 in
  do v_o <- (do t2 <- (do t1 <- g_slice data (v_i * 4) (g_len data); g_be16 t1); g_oset_id v_o v_i t2);
  do v_o <- (do t5 <- (do t4 <- (do t3 <- g_slice data (v_i * 4 + 2) (g_len data); g_be16 t3); Val (wrap_u 16 t4)); g_oset_freq v_o v_i t5);
  Val v_o.

Lemma ubody_step data base count k : wf_bytes data -> count = (length data / 4)%nat -> (count <= length base)%nat -> (k < count)%nat ->
  let gs := groups4 data in
  ubody data (Z.of_nat k) (overwrite_all (firstn k base) (firstn k gs) ++ skipn k base, Z.of_nat count) =
  Val (overwrite_all (firstn (S k) base) (firstn (S k) gs) ++ skipn (S k) base, Z.of_nat count).
Proof.
  intros Hw Hc Hb Hk gs.
  assert (Hlen4 : (4 * count <= length data)%nat) by (subst count; pose proof (Nat.div_mod (length data) 4 ltac:(lia)); lia).
  assert (Hgl : length gs = count) by (unfold gs; rewrite groups4_len; lia).
  set (A := overwrite_all (firstn k base) (firstn k gs)).
  assert (HA : length A = k).
  { unfold A. rewrite overwrite_all_length; rewrite !firstn_length; lia. }
  unfold ubody. cbv zeta.
  rewrite (g_slice_z data (Z.of_nat k * 4) (g_len data)) by (unfold g_len; lia).
  unfold g_len at 1. cbn [rbind]. unfold sub.
  replace (Z.to_nat (Z.of_nat (length data)) - Z.to_nat (Z.of_nat k * 4))%nat with (length data - 4 * k)%nat by lia.
  replace (Z.to_nat (Z.of_nat k * 4)) with (4 * k)%nat by lia.
  rewrite firstn_all2 by (rewrite skipn_length; lia).
  rewrite (skipn_cons_nth data (4 * k) 0%N) by lia. rewrite (skipn_cons_nth data (S (4 * k)) 0%N) by lia. cbn [g_be16 rbind].
  (* the element *)
  rewrite (skipn_cons_nth base k zero_setting) by lia.
  unfold g_oset_id, g_oupd, g_olen, snd, fst.
  destruct (Z.ltb_spec (Z.of_nat k) 0); [lia|]. destruct (Z.leb_spec (Z.of_nat count) (Z.of_nat k)); [lia|]. cbn [orb rbind].
  rewrite Nat2Z.id. rewrite (nth_at k A _ _ _ HA), (upd_at k A _ _ _ HA).
  (* the frequency *)
  rewrite (g_slice_z data (Z.of_nat k * 4 + 2) (g_len data)) by (unfold g_len; lia).
  unfold g_len at 1. cbn [rbind]. unfold sub.
  replace (Z.to_nat (Z.of_nat (length data)) - Z.to_nat (Z.of_nat k * 4 + 2))%nat with (length data - (4 * k + 2))%nat by lia.
  replace (Z.to_nat (Z.of_nat k * 4 + 2)) with (4 * k + 2)%nat by lia.
  rewrite firstn_all2 by (rewrite skipn_length; lia).
  rewrite (skipn_cons_nth data (4 * k + 2) 0%N) by lia. rewrite (skipn_cons_nth data (S (4 * k + 2)) 0%N) by lia. cbn [g_be16 rbind].
  unfold g_oset_freq, g_oupd, g_olen, snd, fst.
  destruct (Z.ltb_spec (Z.of_nat k) 0); [lia|]. destruct (Z.leb_spec (Z.of_nat count) (Z.of_nat k)); [lia|]. cbn [orb rbind].
  rewrite Nat2Z.id. rewrite (nth_at k A _ _ _ HA), (upd_at k A _ _ _ HA).
  f_equal. f_equal.
  rewrite overwrite_all_snoc by lia. fold A. rewrite <- app_assoc. cbn [app]. f_equal. f_equal.
  (* the element itself *)
  unfold gs. rewrite groups4_nth by lia. unfold overwrite. cbn [fst snd].
  destruct (nth k base zero_setting) as [[[ot oc] op] of].
  fold (nthb data (4 * k)). replace (S (4 * k)) with (4 * k + 1)%nat by lia. fold (nthb data (4 * k + 1)).
  fold (nthb data (4 * k + 2)). replace (S (4 * k + 2)) with (4 * k + 3)%nat by lia. fold (nthb data (4 * k + 3)).
  destruct (f_DataIdentifier_SetUint16 ot oc op (Z.of_N (be16 (nthb data (4 * k)) (nthb data (4 * k + 1))))) as [[t' c'] p'].
  f_equal. unfold wrap_u. change (2 ^ 16) with 65536.
  pose proof (nthb_byte data (4 * k + 2) Hw). pose proof (nthb_byte data (4 * k + 3) Hw). unfold be16. rewrite Z.mod_small; lia.
Qed.

Lemma uloop data base count : wf_bytes data -> count = (length data / 4)%nat -> (count <= length base)%nat ->
  forall n k, (k + n = count)%nat ->
  g_for_n n (Z.of_nat k) (overwrite_all (firstn k base) (firstn k (groups4 data)) ++ skipn k base, Z.of_nat count) (ubody data) =
  Val (overwrite_all (firstn count base) (firstn count (groups4 data)) ++ skipn count base, Z.of_nat count).
Proof.
  intros Hw Hc Hb. induction n as [|n IH]; intros k Hk.
  - cbn [g_for_n]. replace k with count by lia. reflexivity.
  - cbn [g_for_n]. rewrite (ubody_step data base count k Hw Hc Hb) by lia. cbn [rbind].
    replace (Z.of_nat k + 1) with (Z.of_nat (S k)) by lia. apply IH. lia.
Qed.

Theorem unmarshal_conf_agrees_full bk n data : wf_bytes data -> (0 <= n <= Z.of_nat (length bk)) ->
  exists o', g_OutputConfiguration_Unmarshal (bk, n) data = Val (None, o') /\
             firstn (Z.to_nat (snd o')) (fst o') = outconf_unmarshal bk data /\
             0 <= snd o' <= Z.of_nat (length (fst o')).
Proof.
  intros Hw Hn. unfold g_OutputConfiguration_Unmarshal. cbv zeta.
  set (count := (length data / 4)%nat).
  assert (Hq : Z.quot (g_len data) 4 = Z.of_nat count).
  { unfold g_len, count. rewrite Z.quot_div_nonneg by lia. rewrite Nat2Z.inj_div. reflexivity. }
  rewrite Hq. unfold g_ocap, fst.
  assert (Hgl : length (groups4 data) = count) by (rewrite groups4_len; reflexivity).
  unfold outconf_unmarshal. rewrite Hgl. unfold zero_setting, gzero, setting, dest in *.
  destruct (Z.leb_spec (Z.of_nat count) (Z.of_nat (length bk))) as [Hc|Hc]; destruct (Nat.leb_spec count (length bk)) as [Hc'|Hc']; try lia.
  - (* the capacity suffices: reslice *)
    unfold g_oreslice, g_ocap, fst. destruct (Z.ltb_spec (Z.of_nat count) 0); [lia|].
    destruct (Z.ltb_spec (Z.of_nat (length bk)) (Z.of_nat count)); [lia|]. cbn [orb rbind].
    unfold g_for. rewrite Z.sub_0_r, Nat2Z.id.
    pose proof (uloop data bk count Hw eq_refl Hc' count 0%nat ltac:(lia)) as L. cbn [firstn overwrite_all skipn app Z.of_nat] in L.
    unfold ubody, zero_setting, gzero, setting, dest in L. cbv zeta in L. rewrite L. cbn [rbind]. eexists. split; [reflexivity|]. cbn [fst snd]. split; [rewrite Nat2Z.id|rewrite app_length, overwrite_all_length by (rewrite !firstn_length; lia); rewrite ?firstn_length, ?skipn_length, ?Hgl; lia].
    rewrite firstn_app. rewrite overwrite_all_length by (rewrite !firstn_length; lia).
    rewrite firstn_length, Hgl. rewrite Nat.min_id, Nat.sub_diag. cbn [firstn]. rewrite app_nil_r.
    rewrite firstn_all2 by (rewrite overwrite_all_length; rewrite !firstn_length; lia).
    rewrite <- Hgl at 2. rewrite firstn_all. reflexivity.
  - (* grow *)
    unfold g_oreslice, g_ocap, fst. destruct (Z.ltb_spec (Z.of_nat (length bk)) 0); [lia|].
    destruct (Z.ltb_spec (Z.of_nat (length bk)) (Z.of_nat (length bk))); [lia|]. cbn [orb rbind].
    unfold g_omake. destruct (Z.ltb_spec (Z.of_nat count - Z.of_nat (length bk)) 0); [lia|]. cbn [rbind].
    replace (Z.to_nat (Z.of_nat count - Z.of_nat (length bk))) with (count - length bk)%nat by lia.
    unfold g_oappend, g_olen, g_ocap, fst, snd. rewrite repeat_length.
    destruct (Z.leb_spec (Z.of_nat (length bk) + Z.of_nat (count - length bk)) (Z.of_nat (length bk))); [lia|].
    rewrite Nat2Z.id, firstn_all.
    replace (Z.of_nat (length bk) + Z.of_nat (count - length bk)) with (Z.of_nat count) by lia.
    set (base := bk ++ repeat gzero (count - length bk)).
    assert (Hbl : length base = count) by (unfold base; rewrite app_length, repeat_length; lia).
    unfold g_for. rewrite Z.sub_0_r, Nat2Z.id.
    assert (Hbl' : (count <= @length setting base)%nat) by (unfold setting; lia).
    pose proof (uloop data base count Hw eq_refl Hbl' count 0%nat ltac:(lia)) as L. cbn [firstn overwrite_all skipn app Z.of_nat] in L.
    unfold ubody, zero_setting, gzero, setting, dest in L. cbv zeta in L. rewrite L. cbn [rbind]. eexists. split; [reflexivity|]. cbn [fst snd]. split; [rewrite Nat2Z.id|rewrite app_length, overwrite_all_length by (rewrite !firstn_length; lia); rewrite ?firstn_length, ?skipn_length, ?Hgl; lia].
    rewrite firstn_app. rewrite overwrite_all_length by (rewrite !firstn_length; lia).
    rewrite firstn_length, Hgl. rewrite Nat.min_id, Nat.sub_diag. cbn [firstn]. rewrite app_nil_r.
    rewrite firstn_all2 by (rewrite overwrite_all_length; rewrite !firstn_length; lia).
    rewrite <- Hgl at 2. rewrite firstn_all. rewrite <- Hbl at 1. rewrite firstn_all. reflexivity.
Qed.

Corollary unmarshal_conf_agrees bk n data : wf_bytes data -> (0 <= n <= Z.of_nat (length bk)) ->
  exists o', g_OutputConfiguration_Unmarshal (bk, n) data = Val (None, o') /\
             firstn (Z.to_nat (snd o')) (fst o') = outconf_unmarshal bk data.
Proof.
  intros Hw Hn. destruct (unmarshal_conf_agrees_full bk n data Hw Hn) as (o' & H1 & H2 & _). exists o'. split; assumption.
Qed.

(* ---- Marshal ---- *)
Definition enc_setting (s : setting) : bytes :=
  let '(t, c, p, f) := s in to_be 2 (Z.to_N (f_DataIdentifier_Uint16 t c p)) ++ to_be 2 (Z.to_N f).

Definition setting_wire_ok (s : setting) : Prop :=
  let '(t, c, p, f) := s in 0 <= f_DataIdentifier_Uint16 t c p /\ 0 <= f < 65536.

Lemma put16_at prefix rest v : 0 <= v ->
  g_put16 (prefix ++ 0%N :: 0%N :: rest) (Z.of_nat (length prefix)) v = Val (prefix ++ to_be 2 (Z.to_N v) ++ rest).
Proof.
  intros Hv. unfold g_put16, g_len. rewrite app_length. cbn [length].
  destruct (Z.ltb_spec (Z.of_nat (length prefix)) 0); [lia|].
  destruct (Z.ltb_spec (Z.of_nat (length prefix + S (S (length rest)))) (Z.of_nat (length prefix) + 2)); [lia|]. cbn [orb].
  rewrite Nat2Z.id. rewrite (upd_at (length prefix) prefix _ _ _ eq_refl).
  change (prefix ++ g_byte (v / 256 mod 256) :: 0%N :: rest) with (prefix ++ [g_byte (v / 256 mod 256)] ++ 0%N :: rest).
  rewrite app_assoc. rewrite (upd_at (length prefix + 1) (prefix ++ [g_byte (v / 256 mod 256)]) _ _ _ ltac:(rewrite app_length; reflexivity)).
  rewrite <- app_assoc. cbn [app to_be]. f_equal. f_equal. f_equal; [unfold g_byte; lia|].
  f_equal. unfold g_byte. lia.
Qed.

Lemma firstn_snoc {A} (l : list A) k d : (k < length l)%nat -> firstn (S k) l = firstn k l ++ [nth k l d].
Proof.
  revert k; induction l as [|a l IH]; intros k H; [cbn in H; lia|]. destruct k; [reflexivity|].
  change (firstn (S (S k)) (a :: l)) with (a :: firstn (S k) l). rewrite (IH k) by (cbn in H; lia). reflexivity.
Qed.

Definition mbody (o : list setting * Z) (v_i : Z) (t1 : bytes) : R bytes :=
  let v_buf := t1 in
  do v_setting <- g_oget o v_i;
  do v_buf <- g_put16 v_buf (v_i * 4) (let '(dt_, cs_, pr_, _) := v_setting in f_DataIdentifier_Uint16 dt_ cs_ pr_);
  do v_buf <- g_put16 v_buf (v_i * 4 + 2) (wrap_u 16 (let '(_, _, _, fr_) := v_setting in fr_));
  Val v_buf.

Lemma flat_map_len_enc cfg : length (flat_map enc_setting cfg) = (4 * length cfg)%nat.
Proof.
  induction cfg as [|[[[t c] p] f] cfg IH]; [reflexivity|]. cbn [flat_map length]. rewrite app_length, IH.
  unfold enc_setting. rewrite app_length. cbn [to_be app length]. lia.
Qed.

Lemma mloop bk n : (n <= length bk)%nat -> Forall setting_wire_ok (firstn n bk) ->
  forall m k, (k + m = n)%nat ->
  g_for_n m (Z.of_nat k) (flat_map enc_setting (firstn k bk) ++ repeat 0%N (4 * (n - k))) (mbody (bk, Z.of_nat n)) =
  Val (flat_map enc_setting (firstn n bk)).
Proof.
  intros Hn Hok. induction m as [|m IH]; intros k Hk.
  - cbn [g_for_n]. replace k with n by lia. rewrite Nat.sub_diag. cbn [Nat.mul repeat]. rewrite app_nil_r. reflexivity.
  - cbn [g_for_n]. unfold mbody at 1. cbv zeta. unfold g_oget, g_olen, snd, fst.
    destruct (Z.ltb_spec (Z.of_nat k) 0); [lia|]. destruct (Z.leb_spec (Z.of_nat n) (Z.of_nat k)); [lia|]. cbn [orb rbind].
    rewrite Nat2Z.id. change gzero with zero_setting. unfold setting in *.
    assert (Hs : setting_wire_ok (nth k bk zero_setting)).
    { rewrite Forall_forall in Hok. apply Hok. rewrite <- (firstn_skipn k (firstn n bk)).
      rewrite firstn_firstn, Nat.min_l by lia. apply in_or_app. right.
      rewrite (skipn_cons_nth (firstn n bk) k zero_setting) by (rewrite firstn_length; lia). left.
      clear - Hk Hn. revert k n Hk Hn. induction bk as [|b bk IHb]; intros k n Hk Hn; [cbn in Hn; lia|].
      destruct n; [lia|]. destruct k; [reflexivity|]. cbn [firstn nth]. apply IHb; cbn [length] in Hn; lia. }
    destruct (nth k bk zero_setting) as [[[t c] p] f] eqn:En. destruct Hs as [Hw Hf].
    set (P := flat_map enc_setting (firstn k bk)).
    assert (HP : length P = (4 * k)%nat) by (unfold P; rewrite flat_map_len_enc, firstn_length; lia).
    replace (4 * (n - k))%nat with (S (S (S (S (4 * (n - S k)))))) by lia. cbn [repeat].
    replace (Z.of_nat k * 4) with (Z.of_nat (length P)) by lia.
    rewrite put16_at by exact Hw. cbn [rbind].
    replace (Z.of_nat (length P) + 2) with (Z.of_nat (length (P ++ to_be 2 (Z.to_N (f_DataIdentifier_Uint16 t c p))))) by (rewrite app_length; cbn [to_be app length]; lia).
    rewrite app_assoc.
    rewrite put16_at by (unfold wrap_u; change (2 ^ 16) with 65536; lia). cbn [rbind].
    replace (Z.of_nat k + 1) with (Z.of_nat (S k)) by lia.
    match goal with |- g_for_n m _ ?b _ = _ =>
      replace b with (flat_map enc_setting (firstn (S k) bk) ++ repeat 0%N (4 * (n - S k))) end.
    + apply IH. lia.
    + rewrite (firstn_snoc bk k zero_setting) by lia. rewrite flat_map_app. fold P. rewrite <- !app_assoc. f_equal.
      cbn [flat_map]. rewrite En. unfold enc_setting. rewrite app_nil_r. rewrite <- !app_assoc. f_equal. f_equal.
      unfold wrap_u. change (2 ^ 16) with 65536. rewrite Z.mod_small by lia. reflexivity.
Qed.

Theorem marshal_conf_agrees bk n : (n <= length bk)%nat -> Forall setting_wire_ok (firstn n bk) ->
  g_OutputConfiguration_Marshal (bk, Z.of_nat n) = Val (outconf_marshal (firstn n bk), None).
Proof.
  intros Hn Hok. unfold g_OutputConfiguration_Marshal, g_olen, snd, g_make.
  destruct (Z.ltb_spec (Z.of_nat n * 4) 0); [lia|]. cbn [rbind].
  replace (Z.to_nat (Z.of_nat n * 4)) with (4 * (n - 0))%nat by lia.
  unfold g_for. rewrite Z.sub_0_r, Nat2Z.id.
  pose proof (mloop bk n Hn Hok n 0%nat ltac:(lia)) as L.
  match goal with |- context [g_for_n n 0 ?b ?f] =>
    change (g_for_n n 0 b f) with (g_for_n n (Z.of_nat 0) (flat_map enc_setting (firstn 0 bk) ++ repeat 0%N (4 * (n - 0))) (mbody (bk, Z.of_nat n)))
  end.
  rewrite L. cbn [rbind].
  f_equal.
Qed.

(* the identifier's wire form is a uint16 whatever the components: only the frequency's range (its Go type) is needed *)
Definition freq_typed (s : setting) : Prop := let '(_, _, _, f) := s in 0 <= f < 65536.
Lemma freq_typed_wire_ok s : freq_typed s -> setting_wire_ok s.
Proof.
  destruct s as [[[t c] p] f]. unfold freq_typed, setting_wire_ok. intros H. split; [|exact H].
  unfold f_DataIdentifier_Uint16, wrap_u. apply Z.mod_pos_bound. reflexivity.
Qed.

Theorem marshal_conf_agrees_typed bk n : (n <= length bk)%nat -> Forall freq_typed (firstn n bk) ->
  g_OutputConfiguration_Marshal (bk, Z.of_nat n) = Val (outconf_marshal (firstn n bk), None).
Proof.
  intros Hn H. apply marshal_conf_agrees; [exact Hn|]. eapply Forall_impl; [|exact H]. exact freq_typed_wire_ok.
Qed.
