(* Tie T for the small value codecs: CANConfig.MarshalBinary / UnmarshalBinary (canconfig.go) and DeviceID.UnmarshalBinary
   (informationmessages.go) as REGENERATED statement by statement (Gen/StructFns.v) against the models of Model/Config.v. *)
From Coq Require Import ZArith NArith List Bool Lia.
Require Import Base.Bytes Base.Tactics Base.GoInt Base.GoBytes Gen.Funcs Gen.StructFns Model.Config Tie.BytesAgree Tie.CanAgree.
Import ListNotations.
Open Scope Z_scope.

Theorem canconfig_marshal_agrees e b : -128 <= b < 128 ->
  g_CANConfig_MarshalBinary (e, b) = Val (can_marshal e b, None, (e, b)).
Proof.
  intros Hb. unfold g_CANConfig_MarshalBinary, can_marshal. change (g_make 4) with (Val [0; 0; 0; 0]%N). cbn [rbind].
  assert (E : g_byte (wrap_u 8 (Z.land (wrap_u 8 b) 127)) = N.land (Z.to_N (b mod 256)) 127).
  { unfold wrap_u. change (2 ^ 8) with 256. pose proof (Z.mod_pos_bound b 256 ltac:(lia)) as Hm.
    rewrite <- (Z2N.id (b mod 256)) at 1 by lia. change 127 with (Z.of_N 127). rewrite land_of_N.
    destruct (land_mask_bound (Z.to_N (b mod 256))) as (M & _).
    rewrite Z.mod_small by lia. unfold g_byte. rewrite N2Z.id. reflexivity. }
  assert (S3 : forall (x y z w : byte) v, g_set [x; y; z; w] 3 v = Val [x; y; z; g_byte v]) by reflexivity.
  assert (S2 : forall (x y z w : byte) v, g_set [x; y; z; w] 2 v = Val [x; y; g_byte v; w]) by reflexivity.
  destruct e; rewrite ?S2; cbn [rbind]; rewrite S3; cbn [rbind]; rewrite E; reflexivity.
Qed.

Theorem canconfig_unmarshal_agrees data st : wf_bytes data ->
  g_CANConfig_UnmarshalBinary data st =
  match can_unmarshal data with
  | Ok (e, b) => Val (None, (e, b))
  | Err _ => Val (Some 2, st)
  | _ => Pan
  end.
Proof.
  intros Hw. destruct st as [e0 b0]. unfold g_CANConfig_UnmarshalBinary, can_unmarshal, g_len.
  destruct (Z.leb_spec (Z.of_nat (length data)) 3) as [H|H]; destruct (Nat.leb_spec (length data) 3) as [H'|H']; try lia; [reflexivity|].
  rewrite (g_index_z data 2) by lia. rewrite (g_index_z data 3) by lia. cbn [rbind].
  change (Z.to_nat 2) with 2%nat. change (Z.to_nat 3) with 3%nat.
  unfold get. rewrite !(nth_error_nth' data 0%N) by lia. fold (nthb data 2). fold (nthb data 3).
  change 1 with (Z.of_N 1) at 1. change 127 with (Z.of_N 127).
  destruct (land_mask_bound (nthb data 2)) as (_ & M1 & _). destruct (land_mask_bound (nthb data 3)) as (M3 & _).
  rewrite (wrap_land _ 1 2 M1) by lia. rewrite (wrap_land _ 127 128 M3) by lia.
  f_equal. f_equal. f_equal.
  - destruct (N.eqb_spec (N.land (nthb data 2) 1) 1) as [E|E]; destruct (Z.eqb_spec (Z.of_N (N.land (nthb data 2) 1)) (Z.of_N 1)); try reflexivity; lia.
  - unfold wrap_s. change (2 ^ (8 - 1)) with 128. change (2 ^ 8) with 256. rewrite Z.mod_small by lia. lia.
Qed.

Theorem deviceid_unmarshal_agrees data st : wf_bytes data ->
  g_DeviceID_UnmarshalBinary data st =
  match deviceid_unmarshal data with
  | Ok v => Val (None, Z.of_N v)
  | Err _ => Val (Some 1, st)
  | _ => Pan
  end.
Proof.
  intros Hw. unfold g_DeviceID_UnmarshalBinary, deviceid_unmarshal. cbv zeta.
  assert (W : forall x : byte, (x < 256)%N -> True) by trivial.
  destruct data as [|a [|b [|c [|d [|e [|f [|g [|h [|i t]]]]]]]]];
    try (cbn [g_len length Z.of_nat Pos.of_succ_nat Pos.succ Z.eqb Pos.eqb]; reflexivity).
  - (* four bytes *)
    cbn [g_len length Z.of_nat Pos.of_succ_nat Pos.succ Z.eqb Pos.eqb]. unfold g_be32. cbn [length Nat.ltb Nat.leb firstn rbind].
    unfold wf_bytes in Hw. repeat match goal with H : Forall _ (_ :: _) |- _ => inversion H; clear H; subst end.
    unfold be, be32. cbn [be_of]. unfold wrap_u. change (2 ^ 32) with 4294967296. rewrite Z.mod_small by lia. repeat f_equal; lia.
  - (* eight bytes: the last four *)
    cbn [g_len length Z.of_nat Pos.of_succ_nat Pos.succ Z.eqb Pos.eqb].
    rewrite (g_slice_z _ 4 8) by (cbn [length]; lia). cbn [rbind]. unfold sub. change (Z.to_nat 8 - Z.to_nat 4)%nat with 4%nat.
    change (Z.to_nat 4) with 4%nat. cbn [skipn firstn]. unfold g_be32. cbn [length Nat.ltb Nat.leb firstn rbind].
    unfold wf_bytes in Hw. repeat match goal with H : Forall _ (_ :: _) |- _ => inversion H; clear H; subst end.
    unfold be, be32. cbn [be_of]. unfold wrap_u. change (2 ^ 32) with 4294967296. rewrite Z.mod_small by lia. repeat f_equal; lia.
  - (* nine or more *)
    unfold g_len. cbn [length].
    repeat match goal with |- context [Z.eqb ?x ?y] => destruct (Z.eqb_spec x y); [lia|] end. reflexivity.
Qed.

(* ---- HWVersion and ProductCode: texts ---- *)
From Coq Require Import String.
Theorem hwversion_unmarshal_agrees data st : wf_bytes data ->
  g_HWVersion_UnmarshalBinary data st =
  match hwversion_unmarshal data with
  | Ok (a, b) => Val (None, GFmt "%d.%d"%string [Z.of_N a; Z.of_N b])
  | Err _ => Val (Some 1, st)
  | _ => Pan
  end.
Proof.
  intros Hw. unfold g_HWVersion_UnmarshalBinary, hwversion_unmarshal. cbv zeta.
  destruct data as [|a [|b [|c t]]]; try reflexivity.
  unfold g_len. cbn [Datatypes.length].
  match goal with |- context [Z.eqb ?x ?y] => destruct (Z.eqb_spec x y); [lia|] end. reflexivity.
Qed.

Theorem productcode_unmarshal_agrees data st :
  g_ProductCode_UnmarshalBinary data st = Val (None, GText (productcode_unmarshal data)).
Proof.
  assert (D : forall d, g_drop_space d = drop_space d).
  { induction d as [|x d IH]; [reflexivity|]. cbn [g_drop_space drop_space]. unfold g_is_space, is_space. rewrite IH. reflexivity. }
  unfold g_ProductCode_UnmarshalBinary, productcode_unmarshal, g_trimspace. cbv zeta. rewrite !D. reflexivity.
Qed.
