(* Tie T: the translator recognised every item it is asked to render. *)
From Coq Require Import List String.
Require Import Gen.Broken.
Lemma translation_ok : translation_broken = nil.
Proof. reflexivity. Qed.
