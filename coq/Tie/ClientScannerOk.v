(* Tie T: NewClient sets its bufio.Scanner up exactly as Lib/Bufio.v models it (default buffer of 4096 bytes growing to
   64 KiB, split function ScanMessages, no sc.Buffer call or anything else).  A client whose scanner is configured
   differently is not the client the theorems are about. *)
Require Import Gen.Scanners.
Lemma client_scanner_default : client_scanner_is_default = true.
Proof. reflexivity. Qed.
