(* The sequential reading of the emulator's methods (Tie/EmuAgree.v) is justified only if they keep the lock discipline:
   the skeleton of every method, regenerated from emulator.go, is disciplined (C17's static check; its soundness theorem
   is Proofs/ConcProofs.discipline_sound).  An obligation of every property whose cases or theorems go through the
   emulator. *)
From Coq Require Import List String Bool.
Require Import Model.Conc Gen.EmuSkeleton.

Lemma emu_disciplined_ok : forallb (fun m => disciplined (snd m)) emu_methods = true.
Proof. vm_compute. reflexivity. Qed.
