(* Tie T for the serial port over UDP: xsensemulator/udpserialport.go as REGENERATED statement by statement (Gen/UdpFns.v)
   against Model/UdpPort.v, for every configured timeout, every result of the deadline and connection operations and every
   slice. *)
From Coq Require Import ZArith NArith List Bool.
Require Import Base.Bytes Base.GoInt Base.GoBytes Gen.UdpFns Model.UdpPort.
Import ListNotations.
Open Scope Z_scope.

Theorem udp_write_agrees timeout set_wdl conn_write p :
  g_UDPSerialPort_Write timeout set_wdl conn_write p = Val (udp_write timeout set_wdl conn_write p).
Proof.
  unfold g_UDPSerialPort_Write, udp_write. destruct (timeout =? 0); cbn [negb]; [reflexivity|].
  destruct set_wdl; reflexivity.
Qed.

Theorem udp_read_agrees timeout set_rdl conn_read p :
  g_UDPSerialPort_Read timeout set_rdl conn_read p = Val (udp_read timeout set_rdl conn_read p).
Proof.
  unfold g_UDPSerialPort_Read, udp_read. destruct (timeout =? 0); cbn [negb].
  - destruct (conn_read p) as [[n a] e]. reflexivity.
  - destruct set_rdl; [reflexivity|]. destruct (conn_read p) as [[n a] e]. reflexivity.
Qed.

Theorem udp_close_agrees c : g_UDPSerialPort_Close c = Val (udp_close c).
Proof. reflexivity. Qed.

Theorem udp_default_agrees : g_defaultOptions = udp_default_timeout.
Proof. reflexivity. Qed.

Theorem udp_with_timeout_agrees t old : g_WithTimeout t old = udp_with_timeout t old.
Proof. reflexivity. Qed.

Theorem udp_new_agrees resolve listen opts origin destination :
  g_NewUDPSerialPort resolve listen opts origin destination = Val (udp_new resolve listen opts origin destination).
Proof.
  unfold g_NewUDPSerialPort, udp_new.
  destruct (resolve origin) as [a [e|]]; [reflexivity|].
  destruct (resolve destination) as [d [e|]]; [reflexivity|].
  destruct (listen a) as [c [e|]]; reflexivity.
Qed.

(* all of it at once, in the form the property files quote *)
Theorem udp_port_agrees :
  (forall t dl cw p, g_UDPSerialPort_Write t dl cw p = Val (udp_write t dl cw p)) /\
  (forall t dl cr p, g_UDPSerialPort_Read t dl cr p = Val (udp_read t dl cr p)) /\
  (forall c, g_UDPSerialPort_Close c = Val c) /\
  g_defaultOptions = 0 /\
  (forall t old, g_WithTimeout t old = t) /\
  (forall rs ls o a b, g_NewUDPSerialPort rs ls o a b = Val (udp_new rs ls o a b)).
Proof.
  repeat split; intros.
  - apply udp_write_agrees.
  - apply udp_read_agrees.
  - apply udp_new_agrees.
Qed.
