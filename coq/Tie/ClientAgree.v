(* Tie T for the stateful core of the client: Client.Receive and Client.ScanMeasurementData as REGENERATED statement by
   statement from client.go (Gen/ClientFns.v) against the hand-written model (Model/Client.v) the theorems of C03, C08,
   C09, C10 and C14 are stated over.  The bufio.Scanner step is the model's (Lib/Bufio.scan); what is tied here is
   everything the client does around it: the state resets, the order of validation and payload latching, the error
   it returns, the packet cursor, the dispatch and decode decisions. *)
From Coq Require Import ZArith NArith List Bool Lia String.
Require Import Base.Bytes Base.Tactics Base.GoInt Base.GoBytes Gen.Funcs Gen.Bytes Gen.ClientFns
  Model.Frame Model.Packet Model.Split Lib.Bufio Model.Client Spec.FrameSpec Proofs.FrameProofs Tie.BytesAgree.
Import ListNotations.
Open Scope Z_scope.

Definition optb (o : option bytes) : bytes := match o with Some b => b | None => [] end.

(* the generated state of a model client *)
Definition abs (c : client) : gstate := (optb (cmsg c), optb (cpay c), optb (cpkt c), Z.of_nat (cnext c)).

(* what Scanner.Err() returns: nil for an orderly end *)
Definition err_code (t : terminal) : option Z :=
  match t with TEnd => None | TTooLong => Some (-101) | TNoProgress => Some (-102) | TPort k => Some (-200 - Z.of_N k) end.

(* classification of the error Receive returns: the causes are kept by %w *)
Definition recv_of (r : option Z) : recv_res :=
  match r with
  | None => ROk
  | Some z => if z =? -1 then RTerminal TEnd else if z =? -101 then RTerminal TTooLong
              else if z =? -102 then RTerminal TNoProgress
              else if z <=? -200 then RTerminal (TPort (Z.to_N (-200 - z))) else RRejected
  end.

Definition rmap {A B} (f : A -> B) (r : R A) : R B := match r with Val a => Val (f a) | Pan => Pan end.

(* validation failures are numbered from 1 *)
Lemma validate_site_pos m k : g_Message_Validate m = Val (Some k) -> 0 < k.
Proof.
  unfold g_Message_Validate.
  repeat match goal with
         | |- context [rbind ?x _] => lazymatch x with rbind _ _ => fail | _ => destruct x; cbn [rbind] end
         | |- context [if ?c then _ else _] => destruct c
         end; intros H; try discriminate; inversion H; lia.
Qed.

Lemma validate_ok m : validate m = VOk -> g_Message_Validate m = Val None.
Proof.
  intros H. pose proof (validate_agrees m) as A. rewrite H in A. cbn in A.
  destruct (g_Message_Validate m) as [[k|]|]; cbn in A; try discriminate; reflexivity.
Qed.
Lemma validate_err m e : validate m = VErr e -> exists k, g_Message_Validate m = Val (Some k) /\ 0 < k.
Proof.
  intros H. pose proof (validate_agrees m) as A. rewrite H in A. cbn in A.
  destruct (g_Message_Validate m) as [[k|]|] eqn:E; cbn in A; try discriminate.
  exists k. split; [reflexivity|]. exact (validate_site_pos m k E).
Qed.

(* ---- Receive ---- *)
Theorem receive_agrees c ok s' r' :
  scan (scan_fuel c) (csc c) (crd c) = SR ok s' r' ->
  (ok = true -> exists t, tok s' = Some t /\ wf_bytes t) ->
  rmap (fun '(e, st) => (recv_of e, st))
       (g_Client_Receive ok (optb (tok s')) (err_code (sc_err s')) (abs c))
  = Val (fst (receive c), abs (snd (receive c))).
Proof.
  intros Hs Htok. unfold receive. rewrite Hs. unfold g_Client_Receive, abs. cbv zeta.
  destruct ok.
  - destruct (Htok eq_refl) as (t & Ht & Hw). rewrite Ht. cbn [negb optb].
    destruct (validate t) as [|e|] eqn:Ev.
    + rewrite (validate_ok t Ev). cbn [rbind].
      destruct (accessors_in_bounds t Ev) as (Hid & _ & Hlen & Hdata & _).
      rewrite (identifier_agrees t Hw), Hid. cbn [rbind].
      assert (Hb : forall L, msg_length t = Some L -> (L <= 65529)%N).
      { intros L HL. apply validate_iff_wf in Ev. pose proof (wf_frame_len t Ev) as Hl.
        rewrite Hlen in HL. injection HL as <-. unfold decl_len. destruct Ev as (_ & _ & _ & Hstd & Hext & _).
        destruct (N.eqb_spec (nthb t 3) 255) as [E|E].
        - destruct (Hext E) as (_ & Hr & _). lia.
        - pose proof (nthb_byte t 3 Hw). lia. }
      unfold mid_mtdata2. destruct (N.eqb_spec (nthb t 2) 54) as [E|E]; destruct (Z.eqb_spec (Z.of_N (nthb t 2)) 54); try lia.
      * rewrite (data_agrees t Hw Hb), Hdata. cbn [rbind rmap fst snd cmsg cpay cpkt cnext optb recv_of]. reflexivity.
      * cbn [rbind rmap fst snd cmsg cpay cpkt cnext optb recv_of]. reflexivity.
    + destruct (validate_err t e Ev) as (k & Hk & Hpos). rewrite Hk. cbn [rbind rmap fst snd cmsg cpay cpkt cnext optb].
      unfold recv_of. destruct (Z.eqb_spec k (-1)); [lia|]. destruct (Z.eqb_spec k (-101)); [lia|].
      destruct (Z.eqb_spec k (-102)); [lia|]. destruct (Z.leb_spec k (-200)); [lia|]. reflexivity.
    + contradiction (validate_never_oob t Ev).
  - cbn [negb]. destruct (sc_err s') as [| | |k]; cbn [err_code rmap fst snd cmsg cpay cpkt cnext optb recv_of]; try reflexivity.
    unfold recv_of. destruct (Z.eqb_spec (-200 - Z.of_N k) (-1)); [lia|]. destruct (Z.eqb_spec (-200 - Z.of_N k) (-101)); [lia|].
    destruct (Z.eqb_spec (-200 - Z.of_N k) (-102)); [lia|]. destruct (Z.leb_spec (-200 - Z.of_N k) (-200)); [|lia].
    repeat f_equal. lia.
Qed.

(* ---- ScanMeasurementData ---- *)
Definition md_nil (p : bytes) : bool := match dispatch p with None => true | Some _ => false end.
Definition md_dec (_ p : bytes) : option Z := if decodable p then None else Some 1.

Definition scan_out (r : R (bool * gstate)) : outcome bool * option gstate :=
  match r with Val (b, st) => (Ok b, Some st) | Pan => (Panic, None) end.

Theorem scan_md_agrees c :
  (forall m, cmsg c = Some m -> wf_bytes m) ->
  let g := g_Client_ScanMeasurementData md_nil md_dec (abs c) in
  match fst (scan_md c) with
  | Panic => g = Pan
  | r => g = Val (match r with Ok b => b | _ => false end, abs (snd (scan_md c)))
  end.
Proof.
  intros Hw. unfold scan_md, g_Client_ScanMeasurementData, abs. cbv zeta.
  destruct (cmsg c) as [m|] eqn:Em; cbn [optb].
  - specialize (Hw m eq_refl). rewrite (identifier_agrees m Hw).
    destruct (identifier m) as [i|] eqn:Ei; cbn [rbind fst]; [|reflexivity].
    unfold mid_mtdata2. destruct (N.eqb_spec i 54) as [E|E]; destruct (Z.eqb_spec (Z.of_N i) 54); try lia; cbn [negb fst snd].
    + pose proof (packet_at_agrees (optb (cpay c)) (cnext c)) as PA.
      change (match cpay c with Some d => d | None => [] end) with (optb (cpay c)).
      destruct (g_MTData2_PacketAt (optb (cpay c)) (Z.of_nat (cnext c))) as [[p [k|]]|] eqn:EP; cbn [g_packet] in PA; rewrite <- PA; cbn [rbind fst snd].
      * rewrite ?Em. cbn [optb cmsg cpay cpkt cnext]. reflexivity.
      * unfold md_nil, md_dec, g_len.
        destruct (dispatch p) as [[slot ty]|]; [destruct (decodable p)|];
          cbn [fst snd cmsg cpay cpkt cnext optb]; rewrite ?Em; cbn [optb]; repeat f_equal; lia.
      * reflexivity.
    + rewrite ?Em. cbn [optb]. reflexivity.
  - cbn [fst]. reflexivity.
Qed.

(* ---- receiveUntil: one iteration of its loop ---- *)
Definition step_out (x : gstate + (option Z * gstate)) : option recv_res * gstate :=
  match x with inl st => (None, st) | inr (e, st) => (Some (recv_of e), st) end.

Lemma recv_of_ok e : recv_of e = ROk -> e = None.
Proof.
  destruct e as [z|]; [|reflexivity]. unfold recv_of.
  destruct (z =? -1); [discriminate|]. destruct (z =? -101); [discriminate|]. destruct (z =? -102); [discriminate|].
  destruct (z <=? -200); discriminate.
Qed.

Theorem receive_until_step_agrees c ok s' r' unt :
  scan (scan_fuel c) (csc c) (crd c) = SR ok s' r' ->
  (ok = true -> exists t, tok s' = Some t /\ wf_bytes t) ->
  0 <= unt < 256 ->
  let c' := snd (receive c) in
  rmap step_out (g_Client_receiveUntil_step ok (optb (tok s')) (err_code (sc_err s')) unt (abs c)) =
  match fst (receive c) with
  | ROk => match message_identifier c' with
           | Ok i => Val (if (Z.of_N i =? unt) then Some ROk else None, abs c')
           | _ => Pan
           end
  | r => Val (Some r, abs c')
  end.
Proof.
  intros Hs Htok Hu c'. pose proof (receive_agrees c ok s' r' Hs Htok) as RA.
  unfold g_Client_receiveUntil_step. unfold abs at 1.
  change (optb (cmsg c), optb (cpay c), optb (cpkt c), Z.of_nat (cnext c)) with (abs c).
  destruct (g_Client_Receive ok (optb (tok s')) (err_code (sc_err s')) (abs c)) as [[e st]|] eqn:EG; cbn [rmap] in RA; [|discriminate].
  injection RA as Hr Hst. cbn [rbind]. destruct st as [[[m1 m2] m3] m4].
  destruct (fst (receive c)) eqn:Er.
  - (* accepted *)
    pose proof (recv_of_ok e Hr) as ->. cbn [rbind].
    assert (Hmsg : exists t, cmsg c' = Some t /\ wf_bytes t /\ (5 <= length t)%nat).
    { clear Hst EG. unfold c'. unfold receive in Er |- *. rewrite Hs in Er |- *. destruct ok.
      - destruct (Htok eq_refl) as (t & Ht & Hw). rewrite Ht in Er |- *. destruct (validate t) eqn:Ev; cbn [fst snd] in Er |- *; try discriminate.
        exists t. cbn [cmsg]. ssplit; [reflexivity|exact Hw|]. apply validate_iff_wf in Ev. destruct Ev as (H5 & _). exact H5.
      - cbn [fst] in Er. discriminate. }
    fold c' in Hst.
    destruct Hmsg as (t & Hc & Hw & Hl). unfold message_identifier. rewrite Hc.
    assert (Em1 : m1 = t). { unfold abs in Hst. rewrite Hc in Hst. cbn [optb] in Hst. congruence. }
    subst m1. rewrite (identifier_agrees t Hw). unfold identifier. rewrite get_nthb by lia. cbn [of_opt rbind].
    destruct (Z.eqb_spec (Z.of_N (nthb t 2)) unt); cbn [negb rmap step_out recv_of]; rewrite <- Hst; reflexivity.
  - assert (He : exists z, e = Some z) by (destruct e; [eexists; reflexivity|cbn in Hr; discriminate]). destruct He as [z ->].
    cbn [rbind rmap step_out]. rewrite Hr, Hst. reflexivity.
  - assert (He : exists z, e = Some z) by (destruct e; [eexists; reflexivity|cbn in Hr; discriminate]). destruct He as [z ->].
    cbn [rbind rmap step_out]. rewrite Hr, Hst. reflexivity.
  - assert (He : exists z, e = Some z) by (destruct e; [eexists; reflexivity|cbn in Hr; discriminate]). destruct He as [z ->].
    cbn [rbind rmap step_out]. rewrite Hr, Hst. reflexivity.
Qed.

(* ---- the accessors: DataType, RawPacket, MessageIdentifier ---- *)
Theorem data_type_agrees c :
  g_Client_DataType (abs c) = match data_type c with Ok z => Val (z, abs c) | _ => Pan end.
Proof.
  unfold g_Client_DataType, data_type, abs. rewrite packet_identifier_agrees.
  destruct (cpkt c) as [p|]; cbn [optb length].
  - destruct (2 <=? length p)%nat; cbn [rbind]; [|reflexivity]. unfold pkt_dtype.
    destruct (f_DataIdentifier_SetUint16 0 0 0 (Z.of_N (be16 (nthb p 0) (nthb p 1)))) as [[t cs] pr]. reflexivity.
  - reflexivity.
Qed.

Theorem raw_packet_agrees c : g_Client_RawPacket (abs c) = Val (optb (raw_packet c), abs c).
Proof. reflexivity. Qed.

Theorem message_identifier_agrees c : (forall m, cmsg c = Some m -> wf_bytes m) ->
  g_Client_MessageIdentifier (abs c) = match message_identifier c with Ok i => Val (Z.of_N i, abs c) | _ => Pan end.
Proof.
  intros Hw. unfold g_Client_MessageIdentifier, message_identifier, abs.
  destruct (cmsg c) as [m|] eqn:Em; cbn [optb].
  - rewrite (identifier_agrees m (Hw m eq_refl)). destruct (identifier m); reflexivity.
  - reflexivity.
Qed.

(* ---- send: one write of the request frame; the port's output grows by exactly that frame, or (failing write) by
   nothing and the write's error is the cause ---- *)
Theorem send_agrees m port :
  g_Client_send None m port = Val (None, port ++ [m]) /\
  (forall c, (3 <= length m)%nat -> g_Client_send (Some c) m port = Val (Some c, port)).
Proof.
  split; [reflexivity|]. intros c H. unfold g_Client_send, g_port_write. cbv zeta.
  unfold g_Message_Identifier. rewrite (g_index_z m 2) by lia. reflexivity.
Qed.
