(* Tie T: the command table regenerated from client.go equals the protocol's. *)
From Coq Require Import ZArith List String Bool.
Require Import Gen.Commands Spec.ProtocolTables.
Import ListNotations.
Open Scope Z_scope.

Definition commands_agree : bool :=
  (List.length command_table =? List.length spec_commands)%nat &&
  forallb (fun p : (string * (Z * (string * (Z * string)))) * (string * (Z * Z)) =>
             let '((n, (req, (_, (ack, _)))), (n', (req', ack'))) := p in
             String.eqb n n' && (req =? req') && (ack =? ack'))
          (combine command_table spec_commands).

Lemma commands_agree_ok : commands_agree = true.
Proof. vm_compute. reflexivity. Qed.
