(* Tie T for the fixed-point conversions: FP1220/FP1632 Float64 and FromFloat64 as REGENERATED statement by statement
   from fixedpoint.go (Gen/Fixed.v) are the hand-written models of Model/Codec.v, for every byte pattern and every
   binary64 value - so the theorems of C05 (exactness, monotonicity, round trips, quantisation) are about the source. *)
From Coq Require Import ZArith NArith List Bool Lia.
From Flocq Require Import Core BinarySingleNaN.
Require Import Base.Bytes Base.Tactics Base.GoInt Base.GoBytes Base.GoFloat Base.Sweep Gen.Fixed Model.Codec Tie.BytesAgree.
Import ListNotations.
Open Scope Z_scope.

Lemma g_byte_of_N x : g_byte (Z.of_N x) = x.
Proof. unfold g_byte. apply N2Z.id. Qed.

Lemma g_set_z s z v : 0 <= z < Z.of_nat (length s) -> g_set s z v = Val (upd s (Z.to_nat z) (g_byte v)).
Proof. intros H. rewrite <- (Z2Nat.id z) at 1 by lia. apply g_set_nat. lia. Qed.

Lemma wrap_s_sint w u : 0 < w -> 0 <= u < 2 ^ w -> wrap_s w u = sint w u.
Proof.
  intros Hw Hu. unfold wrap_s, sint.
  assert (E : 2 ^ w = 2 * 2 ^ (w - 1)) by (rewrite <- Z.pow_succ_r by lia; f_equal; lia).
  destruct (Z.ltb_spec u (2 ^ (w - 1))).
  - rewrite Z.mod_small by lia. lia.
  - replace (u + 2 ^ (w - 1)) with ((u - 2 ^ (w - 1)) + 1 * 2 ^ w) by lia. rewrite Z.mod_add by lia.
    rewrite Z.mod_small by lia. lia.
Qed.

Lemma be_of_bound l : forall acc, wf_bytes l -> (be_of l acc < (acc + 1) * 256 ^ N.of_nat (length l))%N.
Proof.
  induction l as [|x l IH]; intros acc Hw; [cbn; lia|].
  inversion Hw as [|? ? Hx Hl]; subst. cbn [be_of length]. specialize (IH (acc * 256 + x)%N Hl).
  rewrite Nat2N.inj_succ, N.pow_succ_r'. nia.
Qed.
Lemma be_bound l : wf_bytes l -> (be l < 256 ^ N.of_nat (length l))%N.
Proof. intros H. pose proof (be_of_bound l 0 H). unfold be. lia. Qed.

Lemma firstn_wf n (l : bytes) : wf_bytes l -> wf_bytes (firstn n l).
Proof.
  revert l; induction n as [|n IH]; intros l H; [constructor|]. destruct l as [|x l]; [constructor|].
  inversion H; subst. cbn [firstn]. constructor; [assumption|apply IH; assumption].
Qed.

(* ---- FP1220 ---- *)
Theorem fp1220_float64_agrees b : wf_bytes b -> length b = 4%nat -> g_FP1220_Float64 b = Val (fp1220_float64 b).
Proof.
  intros Hw Hl. unfold g_FP1220_Float64, fp1220_float64, g_be32. cbv zeta. rewrite Hl. cbn [Nat.ltb Nat.leb rbind].
  f_equal. f_equal. f_equal. apply wrap_s_sint; [lia|].
  pose proof (be_bound (firstn 4 b) (firstn_wf 4 b Hw)) as Hb. rewrite firstn_length, Hl in Hb.
  change (256 ^ N.of_nat (Nat.min 4 4))%N with 4294967296%N in Hb. change (2 ^ 32) with 4294967296. lia.
Qed.

Theorem fp1220_from_agrees b x : length b = 4%nat -> g_FP1220_FromFloat64 b x = Val (fp1220_from x).
Proof.
  intros Hl. unfold g_FP1220_FromFloat64, fp1220_from, g_putn, g_len, zbe. rewrite Hl. cbn [Z.ltb Z.of_nat orb Z.add Z.compare Pos.compare Pos.of_succ_nat Pos.succ].
  change (0 <? 0) with false. change (4 <? 0 + 4) with false. cbn [orb rbind firstn Z.to_nat app Nat.add].
  rewrite skipn_all2 by lia. rewrite app_nil_r. reflexivity.
Qed.

(* ---- FP1632 ---- *)
Lemma land128_sweep : forallb (fun x => Bool.eqb (0 <? wrap_u 8 (Z.land x 128)) (128 <=? x)) (zrange 256) = true.
Proof. vm_compute. reflexivity. Qed.
Lemma land128 x : 0 <= x < 256 -> (0 <? wrap_u 8 (Z.land x 128)) = (128 <=? x).
Proof. intros H. pose proof (sweep _ 256 land128_sweep x H) as S. apply eqb_prop in S. exact S. Qed.

Theorem fp1632_float64_agrees b : wf_bytes b -> length b = 6%nat -> g_FP1632_Float64 b = Val (fp1632_float64 b).
Proof.
  intros Hw Hl.
  destruct b as [|b0 [|b1 [|b2 [|b3 [|b4 [|b5 [|? ?]]]]]]]; try discriminate.
  assert (Hb : (b0 < 256 /\ b1 < 256 /\ b2 < 256 /\ b3 < 256 /\ b4 < 256 /\ b5 < 256)%N).
  { unfold wf_bytes in Hw. repeat match goal with H : Forall _ (_ :: _) |- _ => inversion H; clear H; subst end. ssplit; assumption. }
  destruct Hb as (H0 & H1 & H2 & H3 & H4 & H5).
  unfold g_FP1632_Float64, fp1632_float64, fp1632_int.
  set (B := [b0; b1; b2; b3; b4; b5]).
  assert (HB : length B = 6%nat) by reflexivity.
  rewrite (g_index_z B 4), (g_index_z B 5), (g_index_z B 0), (g_index_z B 1), (g_index_z B 2), (g_index_z B 3) by (rewrite HB; lia).
  change (Z.to_nat 4) with 4%nat. change (Z.to_nat 5) with 5%nat. change (Z.to_nat 0) with 0%nat.
  change (Z.to_nat 1) with 1%nat. change (Z.to_nat 2) with 2%nat. change (Z.to_nat 3) with 3%nat.
  unfold B at 1 2 3 4 5 6. unfold nthb. cbn [nth rbind].
  rewrite !g_byte_of_N. change (g_byte 0) with 0%N.
  match goal with |- context [g_index ?l 2] => rewrite (g_index_z l 2) by (cbn [length]; lia) end. change (Z.to_nat 2) with 2%nat.
  unfold nthb. cbn [nth rbind].
  (* the sign test, whatever its syntactic form: decided by a sweep over the 256 values of the byte *)
  match goal with |- context [if ?c then _ else _] =>
    let f := eval pattern (Z.of_N b4) in c in
    match f with ?F _ =>
      let Hc := fresh "Hc" in
      assert (Hc : c = (128 <=? Z.of_N b4));
      [ change c with (F (Z.of_N b4));
        let S := fresh "S" in
        assert (S : forallb (fun x => Bool.eqb (F x) (128 <=? x)) (zrange 256) = true) by (vm_compute; reflexivity);
        apply eqb_prop; exact (sweep _ 256 S (Z.of_N b4) ltac:(lia))
      | first [rewrite Hc | idtac] ]
    end
  end.
  assert (Hint : forall s, (s = 0 \/ s = 255)%N -> (s = 255%N <-> (128 <= b4)%N) ->
     wrap_s 64 (Z.of_N (be (firstn 8 [s; s; b4; b5; b0; b1; b2; b3]))) =
     sint 48 (Z.of_N (be (firstn 2 (skipn 4 [b0; b1; b2; b3; b4; b5])) * 2 ^ 32 + be (firstn 4 [b0; b1; b2; b3; b4; b5])))).
  { intros s Hs Hiff. cbn [firstn skipn]. unfold be. cbn [be_of].
    unfold wrap_s, sint. change (2 ^ (64 - 1)) with 9223372036854775808. change (2 ^ 64) with 18446744073709551616.
    change (2 ^ (48 - 1)) with 140737488355328. change (2 ^ 48) with 281474976710656. change (2 ^ 32)%N with 4294967296%N.
    destruct Hs as [-> | ->].
    - assert (b4 < 128)%N by (destruct (N.ltb_spec b4 128); [assumption|exfalso; assert (0 = 255)%N by (apply Hiff; assumption); discriminate]).
      match goal with |- context [?a <? 140737488355328] => destruct (Z.ltb_spec a 140737488355328) end; lia.
    - assert (128 <= b4)%N by (apply Hiff; reflexivity).
      match goal with |- context [?a <? 140737488355328] => destruct (Z.ltb_spec a 140737488355328) end; lia. }
  destruct (Z.leb_spec 128 (Z.of_N b4)) as [Hs|Hs].
  - match goal with |- context [g_set ?l 0 255] => rewrite (g_set_z l 0 255) by (cbn [length]; lia) end. change (Z.to_nat 0) with 0%nat. cbn [rbind upd].
    match goal with |- context [g_set ?l 1 255] => rewrite (g_set_z l 1 255) by (cbn [length]; lia) end. change (Z.to_nat 1) with 1%nat. cbn [rbind upd].
    change (g_byte 255) with 255%N.
    unfold g_be64. cbn [length Nat.ltb Nat.leb rbind]. cbv zeta. f_equal. f_equal. f_equal.
    apply (Hint 255%N); [right; reflexivity|]. split; intros; [lia|reflexivity].
  - unfold g_be64. cbn [length Nat.ltb Nat.leb rbind]. cbv zeta. f_equal. f_equal. f_equal.
    apply (Hint 0%N); [left; reflexivity|]. split; intros; [discriminate|lia].
Qed.

Lemma to_be8 w : exists d0 d1 d2 d3 d4 d5 d6 d7, to_be 8 w = [d0; d1; d2; d3; d4; d5; d6; d7].
Proof. cbn [to_be app]. repeat eexists. Qed.

Ltac idx_step := match goal with
  | |- context [g_index ?l ?i] => let n := eval vm_compute in (Z.to_nat i) in
        rewrite (g_index_z l i) by (cbn [length]; lia); change (Z.to_nat i) with n; unfold nthb; cbn [rbind nth upd]
  | |- context [g_set ?l ?i ?v] => let n := eval vm_compute in (Z.to_nat i) in
        rewrite (g_set_z l i v) by (cbn [length]; lia); change (Z.to_nat i) with n; cbn [rbind nth upd]
  end.

Theorem fp1632_from_agrees b x : length b = 6%nat -> g_FP1632_FromFloat64 b x = Val (fp1632_from x).
Proof.
  intros Hl. destruct b as [|b0 [|b1 [|b2 [|b3 [|b4 [|b5 [|? ?]]]]]]]; try discriminate.
  unfold g_FP1632_FromFloat64, fp1632_from, zbe. cbv zeta. change factor1632 with (f64_of_Z 4294967296).
  set (V := to_uint 64 (Bmult mode_NE x (f64_of_Z 4294967296))).
  change (g_make 8) with (Val (repeat 0%N 8)). cbn [rbind].
  assert (Hput : g_putn 8 (repeat 0%N 8) 0 V = Val (to_be 8 (Z.to_N (V mod 2 ^ (8 * Z.of_nat 8))))).
  { unfold g_putn, g_len.
    replace ((0 <? 0) || (Z.of_nat (length (repeat 0%N 8)) <? 0 + Z.of_nat 8)) with false by reflexivity.
    change (Z.to_nat 0) with 0%nat. cbn [firstn Nat.add repeat skipn app]. rewrite app_nil_r. reflexivity. }
  rewrite Hput. cbn [rbind].
  destruct (to_be8 (Z.to_N (V mod 2 ^ (8 * Z.of_nat 8)))) as (d0 & d1 & d2 & d3 & d4 & d5 & d6 & d7 & Hd). rewrite Hd.
  repeat idx_step.
  change (Z.to_nat 0) with 0%nat. change (Z.to_nat 1) with 1%nat. change (Z.to_nat 2) with 2%nat. change (Z.to_nat 3) with 3%nat.
  change (Z.to_nat 4) with 4%nat. change (Z.to_nat 5) with 5%nat. change (Z.to_nat 6) with 6%nat. change (Z.to_nat 7) with 7%nat.
  cbn [nth upd firstn skipn app]. rewrite !g_byte_of_N. reflexivity.
Qed.
