(* Tie T for the client's typed accessors: every accessor returns the address of a record the dispatch table decodes into,
   and no two accessors share a record.
   (Gen/Getters.v lists only accessors of the shape `return &c.<field>`; any other shape is reported by the translator.) *)
From Coq Require Import ZArith List String Bool.
Require Import Gen.Funcs Gen.Getters Spec.LayoutCheck.
Import ListNotations.

(* every accessor returns the address of a record the dispatch table decodes into *)
Definition getters_are_slots : bool :=
  forallb (fun g : string * (string * string) =>
             slot_in (fst (snd g)) (map (fun d : Z * (string * string) => fst (snd d)) dispatch_table)) client_getters.

Definition getters_distinct : bool := no_dup_slots (map (fun g : string * (string * string) => fst (snd g)) client_getters).

Lemma getters_are_slots_ok : getters_are_slots = true.
Proof. vm_compute. reflexivity. Qed.

Lemma getters_distinct_ok : getters_distinct = true.
Proof. vm_compute. reflexivity. Qed.
