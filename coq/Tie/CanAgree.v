(* Tie T for the CAN output configuration codec: CANOutputConfiguration.MarshalBinary / UnmarshalBinary as REGENERATED
   statement by statement from canoutputconfiguration.go with Go's slice aliasing (Gen/CanFns.v: sub-slices are views of
   the array they were cut from, the helpers copyBytes / extractBytes are translated in place) against the hand-written
   model (Model/Config.v: canout_marshal, canout_unmarshal) C15's theorems are stated over. *)
From Coq Require Import ZArith NArith List Bool Lia.
Require Import Base.Bytes Base.Tactics Base.GoInt Base.GoBytes Base.GoConf Gen.Funcs Gen.CanFns Model.Config Tie.BytesAgree Tie.ConfAgree.
Import ListNotations.
Open Scope Z_scope.

(* ---- loops by invariant (no copy of the generated body is needed) ---- *)
Lemma g_for_n_inv {S} (P : nat -> S -> Prop) (body : Z -> S -> R S) n : forall k0 s0,
  P k0 s0 ->
  (forall k s, (k0 <= k < k0 + n)%nat -> P k s -> exists s', body (Z.of_nat k) s = Val s' /\ P (Datatypes.S k) s') ->
  exists s', g_for_n n (Z.of_nat k0) s0 body = Val s' /\ P (k0 + n)%nat s'.
Proof.
  induction n as [|n IH]; intros k0 s0 H0 Hstep.
  - exists s0. cbn [g_for_n]. rewrite Nat.add_0_r. split; [reflexivity|exact H0].
  - cbn [g_for_n]. destruct (Hstep k0 s0 ltac:(lia) H0) as (s1 & E1 & P1). rewrite E1. cbn [rbind].
    replace (Z.of_nat k0 + 1) with (Z.of_nat (Datatypes.S k0)) by lia.
    destruct (IH (Datatypes.S k0) s1 P1) as (s' & E' & P').
    + intros k s Hk. apply Hstep. lia.
    + exists s'. split; [exact E'|]. replace (k0 + Datatypes.S n)%nat with (Datatypes.S k0 + n)%nat by lia. exact P'.
Qed.

(* ---- the payload as chunks of eight bytes ---- *)
Fixpoint groups8 (d : bytes) : list bytes :=
  match d with
  | b0 :: b1 :: b2 :: b3 :: b4 :: b5 :: b6 :: b7 :: t => [b0; b1; b2; b3; b4; b5; b6; b7] :: groups8 t
  | _ => []
  end.

Lemma groups8_unfold d : (8 <= length d)%nat -> groups8 d = firstn 8 d :: groups8 (skipn 8 d).
Proof.
  intros H. do 8 (destruct d as [|? d]; [cbn in H; lia|]). reflexivity.
Qed.
Lemma groups8_short d : (length d < 8)%nat -> groups8 d = [].
Proof. intros H. do 8 (destruct d as [|? d]; [reflexivity|]). cbn in H. lia. Qed.

Lemma groups8_length d : length (groups8 d) = (length d / 8)%nat.
Proof.
  remember (length d) as n eqn:En. revert d En. induction n as [n IH] using lt_wf_ind. intros d En.
  destruct (Nat.ltb_spec n 8) as [H|H].
  - rewrite groups8_short by lia. rewrite Nat.div_small by lia. reflexivity.
  - rewrite groups8_unfold by lia. cbn [length]. rewrite (IH (n - 8)%nat) by (try lia; rewrite skipn_length; lia).
    replace n with ((n - 8) + 1 * 8)%nat at 2 by lia. rewrite Nat.div_add by lia. lia.
Qed.

Lemma skipn_skipn' {A} (l : list A) a b : skipn a (skipn b l) = skipn (b + a) l.
Proof. revert l; induction b as [|b IH]; intros l; [reflexivity|]. destruct l; [rewrite !skipn_nil; reflexivity|]. cbn [Nat.add skipn]. apply IH. Qed.

Lemma groups8_nth d : forall k, (8 * (k + 1) <= length d)%nat -> nth k (groups8 d) [] = firstn 8 (skipn (8 * k) d).
Proof.
  intros k. revert d. induction k as [|k IH]; intros d H.
  - rewrite groups8_unfold by lia. reflexivity.
  - rewrite groups8_unfold by lia. cbn [nth]. rewrite IH by (rewrite skipn_length; lia).
    rewrite skipn_skipn'. f_equal. f_equal. lia.
Qed.

Lemma chunk8 (d : bytes) k : (8 * (k + 1) <= length d)%nat ->
  exists b0 b1 b2 b3 b4 b5 b6 b7 : byte, firstn 8 (skipn (8 * k) d) = [b0; b1; b2; b3; b4; b5; b6; b7] /\
    d = firstn (8 * k) d ++ [b0; b1; b2; b3; b4; b5; b6; b7] ++ skipn (8 * k + 8) d.
Proof.
  intros H. pose proof (firstn_skipn (8 * k) d) as E.
  assert (L : (8 <= length (skipn (8 * k) d))%nat) by (rewrite skipn_length; lia).
  destruct (skipn (8 * k) d) as [|b0 [|b1 [|b2 [|b3 [|b4 [|b5 [|b6 [|b7 t]]]]]]]] eqn:Es; cbn [length] in L; try lia.
  exists b0, b1, b2, b3, b4, b5, b6, b7. split; [reflexivity|].
  rewrite <- E at 1. f_equal. cbn [app]. do 8 f_equal.
  replace (8 * k + 8)%nat with (8 * k + 8)%nat by lia. rewrite <- skipn_skipn'. rewrite Es. reflexivity.
Qed.

(* s[lo:hi] inside the chunk that follows a prefix *)
Lemma g_slice_mid (P C Rr : bytes) lo hi (c l : nat) :
  lo = Z.of_nat (length P + c) -> hi = Z.of_nat (length P + c + l) -> (c + l <= length C)%nat ->
  g_slice (P ++ C ++ Rr) lo hi = Val (firstn l (skipn c C)).
Proof.
  intros -> -> H. unfold g_slice, g_len. rewrite !app_length.
  destruct (Z.ltb_spec (Z.of_nat (length P + c)) 0); [lia|].
  destruct (Z.ltb_spec (Z.of_nat (length P + c + l)) (Z.of_nat (length P + c))); [lia|].
  destruct (Z.ltb_spec (Z.of_nat (length P + (length C + length Rr))) (Z.of_nat (length P + c + l))); [lia|]. cbn [orb].
  f_equal. replace (Z.to_nat (Z.of_nat (length P + c + l) - Z.of_nat (length P + c))) with l by lia. rewrite Nat2Z.id.
  rewrite skipn_app. rewrite skipn_all2 by lia. cbn [app]. replace (length P + c - length P)%nat with c by lia.
  rewrite skipn_app. rewrite firstn_app.
  replace (l - length (skipn c C))%nat with 0%nat by (rewrite skipn_length; lia).
  rewrite firstn_O, app_nil_r. reflexivity.
Qed.

(* ---- UnmarshalBinary ---- *)
Definition cdec (c : bytes) : Z * Z * Z * Z :=
  match c with
  | [b0; b1; b2; b3; b4; b5; b6; b7] =>
      (Z.of_N (N.land b0 127), if negb (N.land b1 1 =? 0)%N then 1 else 0,
       Z.of_N (be32 (N.land b2 31) b3 b4 b5), Z.of_N (be16 (N.land b6 7) b7))
  | _ => gzero
  end.
Definition conv (s : can_setting) : Z * Z * Z * Z :=
  let '(a, f, m, q) := s in (Z.of_N a, if f then 1 else 0, Z.of_N m, Z.of_N q).

Lemma canout_unmarshal_groups d : map conv (canout_unmarshal d) = map cdec (groups8 d).
Proof.
  remember (length d) as n eqn:En. revert d En. induction n as [n IH] using lt_wf_ind. intros d En.
  destruct d as [|b0 [|b1 [|b2 [|b3 [|b4 [|b5 [|b6 [|b7 t]]]]]]]]; try reflexivity.
  cbn [canout_unmarshal groups8 map conv cdec]. f_equal.
  apply (IH (length t)); [subst n; cbn [length]; lia|reflexivity].
Qed.

Lemma g_oset_at_mid (A : list (Z * Z * Z * Z)) x B n k f v : length A = k -> Z.of_nat k < n ->
  g_oset_at (A ++ x :: B, n) (Z.of_nat k) f v =
  Val (A ++ (let '(a, b, c, d) := x in
             if f =? 0 then (v, b, c, d) else if f =? 1 then (a, v, c, d) else if f =? 2 then (a, b, v, d) else (a, b, c, v)) :: B, n).
Proof.
  intros HA Hk. unfold g_oset_at, g_oupd, g_olen, snd, fst.
  destruct (Z.ltb_spec (Z.of_nat k) 0); [lia|]. destruct (Z.leb_spec n (Z.of_nat k)); [lia|]. cbn [orb].
  rewrite Nat2Z.id. rewrite (nth_at k A _ _ _ HA), (upd_at k A _ _ _ HA). reflexivity.
Qed.

Ltac guard_off :=
  match goal with
  | |- context [if ?c then Pan else _] =>
      let H := fresh "G" in
      assert (H : c = false) by
        (repeat (apply orb_false_iff; split); first [apply Z.ltb_ge | apply Z.leb_gt]; unfold g_len in *; cbn [length]; lia);
      rewrite H; clear H
  end.

Lemma g_slice_chunk (data C : bytes) k lo hi (c l : nat) :
  data = firstn (8 * k) data ++ C ++ skipn (8 * k + 8) data -> (8 * (k + 1) <= length data)%nat ->
  lo = Z.of_nat (8 * k + c) -> hi = Z.of_nat (8 * k + c + l) -> (c + l <= length C)%nat ->
  g_slice data lo hi = Val (firstn l (skipn c C)).
Proof.
  intros E Hl -> -> Hc. rewrite E.
  apply g_slice_mid; rewrite ?firstn_length; try lia; f_equal; lia.
Qed.

Lemma g_copy_full (s y : bytes) : length y = length s -> g_copy s 0 (firstn (Z.to_nat (g_len s)) y) = Val y.
Proof.
  intros H. unfold g_len.
  replace (firstn (Z.to_nat (Z.of_nat (length s))) y) with y by (rewrite Nat2Z.id, firstn_all2; [reflexivity|lia]).
  unfold g_copy, g_len.
  destruct (Z.ltb_spec 0 0); [lia|]. destruct (Z.ltb_spec (Z.of_nat (length s)) 0); [lia|]. cbn [orb].
  change (Z.to_nat 0) with 0%nat. rewrite Nat.sub_0_r, H, Nat.min_id. cbn [firstn app Nat.add].
  rewrite <- H at 1. rewrite firstn_all. rewrite skipn_all2 by lia. rewrite app_nil_r. reflexivity.
Qed.

Lemma land_of_N a m : Z.land (Z.of_N a) (Z.of_N m) = Z.of_N (N.land a m).
Proof. destruct a as [|p], m as [|q]; reflexivity. Qed.

Lemma land_ones_lt a n : (N.land a (N.ones n) < 2 ^ n)%N.
Proof. rewrite N.land_ones. apply N.mod_lt. apply N.pow_nonzero. discriminate. Qed.

(* the four masks of the codec are 2^n - 1 *)
Lemma land_mask_bound a : (N.land a 127 < 128)%N /\ (N.land a 1 < 2)%N /\ (N.land a 31 < 32)%N /\ (N.land a 7 < 8)%N.
Proof.
  repeat split.
  - exact (land_ones_lt a 7).
  - exact (land_ones_lt a 1).
  - exact (land_ones_lt a 5).
  - exact (land_ones_lt a 3).
Qed.

(* the loop of UnmarshalBinary, whatever destination array it runs on *)
Lemma can_uloop (data : bytes) (base : list (Z * Z * Z * Z)) body cnt : wf_bytes data ->
  cnt = (length data / 8)%nat ->
  (cnt <= length base)%nat ->
  (forall k, (k < cnt)%nat -> forall b0 b1 b2 b3 b4 b5 b6 b7 A x B,
     firstn 8 (skipn (8 * k) data) = [b0; b1; b2; b3; b4; b5; b6; b7] ->
     data = firstn (8 * k) data ++ [b0; b1; b2; b3; b4; b5; b6; b7] ++ skipn (8 * k + 8) data ->
     length A = k ->
     body (Z.of_nat k) (data, (A ++ x :: B, Z.of_nat cnt)) = Val (data, (A ++ cdec [b0; b1; b2; b3; b4; b5; b6; b7] :: B, Z.of_nat cnt))) ->
  g_for_n cnt 0 (data, (base, Z.of_nat cnt)) body =
  Val (data, (map cdec (groups8 data) ++ skipn cnt base, Z.of_nat cnt)).
Proof.
  intros Hw Ecnt Hb Hstep.
  destruct (g_for_n_inv (fun k (s : bytes * (list (Z * Z * Z * Z) * Z)) =>
              s = (data, (map cdec (firstn k (groups8 data)) ++ skipn k base, Z.of_nat cnt))) body cnt 0%nat
              (data, (base, Z.of_nat cnt))) as (s' & Es & Ps).
  - reflexivity.
  - intros k s Hk ->.
    assert (Hlen : (8 * (k + 1) <= length data)%nat).
    { rewrite Ecnt in Hk. pose proof (Nat.div_mod (length data) 8 ltac:(lia)). pose proof (Nat.mod_upper_bound (length data) 8 ltac:(lia)). nia. }
    destruct (chunk8 data k Hlen) as (b0 & b1 & b2 & b3 & b4 & b5 & b6 & b7 & EC & ED).
    assert (HG : length (groups8 data) = cnt) by (rewrite Ecnt; apply groups8_length).
    rewrite (skipn_cons_nth base k gzero) by lia.
    rewrite (Hstep k ltac:(lia) b0 b1 b2 b3 b4 b5 b6 b7 _ _ _ EC ED) by (rewrite map_length, firstn_length; lia).
    eexists. split; [reflexivity|]. f_equal. f_equal.
    rewrite (firstn_snoc (groups8 data) k []) by lia. rewrite map_app, <- app_assoc. cbn [map app].
    rewrite groups8_nth by lia. rewrite EC. reflexivity.
  - change (Z.of_nat 0) with 0 in Es. rewrite Es. rewrite Ps. cbn [Nat.add].
    rewrite firstn_all2 by (rewrite groups8_length; lia). reflexivity.
Qed.

Lemma g_make_1 : g_make 1 = Val [0%N]. Proof. reflexivity. Qed.
Lemma g_make_2 : g_make 2 = Val [0%N; 0%N]. Proof. reflexivity. Qed.
Lemma g_make_4 : g_make 4 = Val [0%N; 0%N; 0%N; 0%N]. Proof. reflexivity. Qed.

Lemma wrap_land b m bound : (N.land b m < bound)%N -> (bound <= 256)%N ->
  wrap_u 8 (Z.land (Z.of_N b) (Z.of_N m)) = Z.of_N (N.land b m).
Proof.
  intros H Hb. rewrite land_of_N. unfold wrap_u. change (2 ^ 8) with 256. rewrite Z.mod_small by lia. reflexivity.
Qed.

Lemma can_fields b0 b1 b2 b3 b4 b5 b6 b7 : wf_bytes [b0; b1; b2; b3; b4; b5; b6; b7] ->
  (wrap_u 8 (wrap_u 8 (Z.land (Z.of_N b0) 127)),
   if negb (wrap_u 8 (Z.land (Z.of_N b1) 1) =? 0) then 1 else 0,
   Z.of_N (be [g_byte (Z.land (Z.of_N b2) 31); b3; b4; b5]),
   wrap_u 16 (Z.of_N (be16 (g_byte (Z.land (Z.of_N b6) 7)) b7))) = cdec [b0; b1; b2; b3; b4; b5; b6; b7].
Proof.
  intros Hw. unfold wf_bytes in Hw. repeat match goal with H : Forall _ (_ :: _) |- _ => inversion H; clear H; subst end.
  destruct (land_mask_bound b0) as (M0 & _). destruct (land_mask_bound b1) as (_ & M1 & _).
  destruct (land_mask_bound b2) as (_ & _ & M2 & _). destruct (land_mask_bound b6) as (_ & _ & _ & M6).
  unfold cdec.
  change 127 with (Z.of_N 127). change 1 with (Z.of_N 1) at 1. change 31 with (Z.of_N 31). change 7 with (Z.of_N 7).
  rewrite (wrap_land b0 127 128 M0) by lia. rewrite (wrap_land b1 1 2 M1) by lia.
  unfold g_byte. rewrite !land_of_N, !N2Z.id.
  assert (E0 : wrap_u 8 (Z.of_N (N.land b0 127)) = Z.of_N (N.land b0 127)).
  { unfold wrap_u. change (2 ^ 8) with 256. rewrite Z.mod_small by lia. reflexivity. }
  assert (E1 : (Z.of_N (N.land b1 1) =? 0) = (N.land b1 1 =? 0)%N).
  { destruct (N.eqb_spec (N.land b1 1) 0) as [E|E]; destruct (Z.eqb_spec (Z.of_N (N.land b1 1)) 0); try reflexivity; lia. }
  assert (E2 : be [N.land b2 31; b3; b4; b5] = be32 (N.land b2 31) b3 b4 b5).
  { unfold be, be32. cbn [be_of]. lia. }
  assert (E3 : wrap_u 16 (Z.of_N (be16 (N.land b6 7) b7)) = Z.of_N (be16 (N.land b6 7) b7)).
  { unfold wrap_u, be16. change (2 ^ 16) with 65536. rewrite Z.mod_small by lia. reflexivity. }
  rewrite E0, E1, E3. unfold be. cbn [be_of]. unfold be32. repeat f_equal; lia.
Qed.

(* the loop body of UnmarshalBinary, taken from the generated definition (both branches run the same loop) *)
Definition can_ubody : Z -> bytes * (list (Z * Z * Z * Z) * Z) -> R (bytes * (list (Z * Z * Z * Z) * Z)) :=
  ltac:(let t := eval cbv beta delta [g_CANOutputConfiguration_UnmarshalBinary] in (g_CANOutputConfiguration_UnmarshalBinary ([], 0) []) in
        match t with context [g_for _ _ _ ?b] => exact b end).

Lemma can_ubody_step (data : bytes) cnt k b0 b1 b2 b3 b4 b5 b6 b7 (A : list (Z * Z * Z * Z)) x B :
  wf_bytes data -> cnt = (length data / 8)%nat -> (k < cnt)%nat ->
  firstn 8 (skipn (8 * k) data) = [b0; b1; b2; b3; b4; b5; b6; b7] ->
  data = firstn (8 * k) data ++ [b0; b1; b2; b3; b4; b5; b6; b7] ++ skipn (8 * k + 8) data ->
  length A = k ->
  can_ubody (Z.of_nat k) (data, (A ++ x :: B, Z.of_nat cnt)) = Val (data, (A ++ cdec [b0; b1; b2; b3; b4; b5; b6; b7] :: B, Z.of_nat cnt)).
Proof.
  intros Hw Ecnt Hk EC ED HA. unfold can_ubody. cbv beta iota.
      assert (Hlen : (8 * (k + 1) <= length data)%nat).
      { rewrite Ecnt in Hk. pose proof (Nat.div_mod (length data) 8 ltac:(lia)). pose proof (Nat.mod_upper_bound (length data) 8 ltac:(lia)). nia. }
      guard_off.
      rewrite g_make_1. cbn [rbind]. guard_off.
      rewrite (g_slice_chunk data _ k _ _ 0 1 ED Hlen) by (cbn [length]; lia). cbn [rbind firstn skipn].
      rewrite g_copy_full by reflexivity. cbn [rbind].
      destruct x as [[[x0 x1] x2] x3].
      rewrite (g_index_z [b0] 0) by (cbn [length]; lia). change (Z.to_nat 0) with 0%nat. cbn [rbind nthb nth].
      rewrite (g_oset_at_mid A _ B _ k 0 _ HA) by lia. cbn [rbind Z.eqb].
      guard_off.
      rewrite (g_slice_chunk data _ k _ _ 1 1 ED Hlen) by (cbn [length]; lia). cbn [rbind firstn skipn].
      rewrite g_copy_full by reflexivity. cbn [rbind].
      rewrite (g_index_z [b1] 0) by (cbn [length]; lia). change (Z.to_nat 0) with 0%nat. cbn [rbind nthb nth].
      rewrite (g_oset_at_mid A _ B _ k 1 _ HA) by lia. cbn [rbind Z.eqb Pos.eqb].
      rewrite g_make_4. cbn [rbind]. guard_off.
      rewrite (g_slice_chunk data _ k _ _ 2 4 ED Hlen) by (cbn [length]; lia). cbn [rbind firstn skipn].
      rewrite g_copy_full by reflexivity. cbn [rbind].
      guard_off. change (0 + 0) with 0.
      rewrite (g_index_z [b2; b3; b4; b5] 0) by (cbn [length]; lia). change (Z.to_nat 0) with 0%nat. cbn [rbind nthb nth].
      rewrite (g_set_nat [b2; b3; b4; b5] 0) by (cbn [length]; lia). cbn [rbind upd].
      unfold g_be32. cbn [length Nat.ltb Nat.leb firstn rbind].
      rewrite (g_oset_at_mid A _ B _ k 2 _ HA) by lia. cbn [rbind Z.eqb Pos.eqb].
      rewrite g_make_2. cbn [rbind]. guard_off.
      rewrite (g_slice_chunk data _ k _ _ 6 2 ED Hlen) by (cbn [length]; lia). cbn [rbind firstn skipn].
      rewrite g_copy_full by reflexivity. cbn [rbind].
      guard_off.
      rewrite (g_index_z [b6; b7] 0) by (cbn [length]; lia). change (Z.to_nat 0) with 0%nat. cbn [rbind nthb nth].
      rewrite (g_set_nat [b6; b7] 0) by (cbn [length]; lia). cbn [rbind upd g_be16].
      unfold g_oset_freq, g_oupd, g_olen, snd, fst.
      destruct (Z.ltb_spec (Z.of_nat k) 0); [lia|]. destruct (Z.leb_spec (Z.of_nat cnt) (Z.of_nat k)); [lia|]. cbn [orb rbind].
      rewrite Nat2Z.id. rewrite (nth_at k A _ _ _ HA), (upd_at k A _ _ _ HA).
      rewrite can_fields; [reflexivity|].
      unfold wf_bytes in *. rewrite ED in Hw. apply Forall_app in Hw. destruct Hw as [_ Hw]. apply Forall_app in Hw. exact (proj1 Hw).
Qed.

Theorem can_unmarshal_agrees bk n data : wf_bytes data -> 0 <= n <= Z.of_nat (length bk) ->
  exists o', g_CANOutputConfiguration_UnmarshalBinary (bk, n) data = Val (None, o', data) /\
             firstn (Z.to_nat (snd o')) (fst o') = map conv (canout_unmarshal data) /\
             0 <= snd o' <= Z.of_nat (length (fst o')).
Proof.
  intros Hw Hn. unfold g_CANOutputConfiguration_UnmarshalBinary. cbv zeta.
  set (cnt := (length data / 8)%nat).
  assert (Hq : Z.quot (g_len data) 8 = Z.of_nat cnt).
  { unfold g_len, cnt. rewrite Z.quot_div_nonneg by lia. rewrite Nat2Z.inj_div. reflexivity. }
  rewrite Hq. unfold g_ocap, fst.
  destruct (Z.leb_spec (Z.of_nat cnt) (Z.of_nat (length bk))) as [Hc|Hc].
  - unfold g_oreslice, g_ocap, fst. destruct (Z.ltb_spec (Z.of_nat cnt) 0); [lia|].
    destruct (Z.ltb_spec (Z.of_nat (length bk)) (Z.of_nat cnt)); [lia|]. cbn [orb rbind].
    unfold g_for. rewrite Z.sub_0_r, Nat2Z.id.
    match goal with |- context [g_for_n cnt 0 _ ?body] => change body with can_ubody end.
    rewrite (can_uloop data bk can_ubody cnt Hw eq_refl ltac:(lia)).
    + cbn [rbind]. eexists. split; [reflexivity|]. cbn [fst snd]. rewrite Nat2Z.id. split.
      * rewrite firstn_app. rewrite map_length, groups8_length. fold cnt. rewrite Nat.sub_diag. cbn [firstn]. rewrite app_nil_r.
        rewrite firstn_all2 by (rewrite map_length, groups8_length; fold cnt; lia).
        symmetry. apply canout_unmarshal_groups.
      * rewrite app_length, map_length, groups8_length, skipn_length. fold cnt. lia.
    + intros k Hk b0 b1 b2 b3 b4 b5 b6 b7 A x B EC ED HA. exact (can_ubody_step data cnt k b0 b1 b2 b3 b4 b5 b6 b7 A x B Hw eq_refl Hk EC ED HA).
  - unfold g_oreslice, g_ocap, fst. destruct (Z.ltb_spec (Z.of_nat (length bk)) 0); [lia|].
    destruct (Z.ltb_spec (Z.of_nat (length bk)) (Z.of_nat (length bk))); [lia|]. cbn [orb rbind].
    unfold g_omake. destruct (Z.ltb_spec (Z.of_nat cnt - Z.of_nat (length bk)) 0); [lia|]. cbn [rbind].
    replace (Z.to_nat (Z.of_nat cnt - Z.of_nat (length bk))) with (cnt - length bk)%nat by lia.
    unfold g_oappend, g_olen, g_ocap, fst, snd. rewrite repeat_length.
    destruct (Z.leb_spec (Z.of_nat (length bk) + Z.of_nat (cnt - length bk)) (Z.of_nat (length bk))); [lia|].
    rewrite Nat2Z.id, firstn_all.
    replace (Z.of_nat (length bk) + Z.of_nat (cnt - length bk)) with (Z.of_nat cnt) by lia.
    set (base := bk ++ repeat gzero (cnt - length bk)).
    assert (Hbl : length base = cnt) by (unfold base; rewrite app_length, repeat_length; lia).
    unfold g_for. rewrite Z.sub_0_r, Nat2Z.id.
    match goal with |- context [g_for_n cnt 0 _ ?body] => change body with can_ubody end.
    rewrite (can_uloop data base can_ubody cnt Hw eq_refl ltac:(lia)).
    + cbn [rbind]. eexists. split; [reflexivity|]. cbn [fst snd]. rewrite Nat2Z.id. split.
      * rewrite firstn_app. rewrite map_length, groups8_length. fold cnt. rewrite Nat.sub_diag. cbn [firstn]. rewrite app_nil_r.
        rewrite firstn_all2 by (rewrite map_length, groups8_length; fold cnt; lia).
        symmetry. apply canout_unmarshal_groups.
      * rewrite app_length, map_length, groups8_length, skipn_length. fold cnt. lia.
    + intros k Hk b0 b1 b2 b3 b4 b5 b6 b7 A x B EC ED HA. exact (can_ubody_step data cnt k b0 b1 b2 b3 b4 b5 b6 b7 A x B Hw eq_refl Hk EC ED HA).
Qed.

(* ---- MarshalBinary ---- *)
Definition unconv (s : Z * Z * Z * Z) : can_setting :=
  let '(a, f, m, q) := s in (Z.to_N a, negb (f =? 0), Z.to_N m, Z.to_N q).
(* the Go types of the fields: uint8 identifier, uint16 frequency *)
Definition can_typed (s : Z * Z * Z * Z) : Prop := let '(a, _, _, q) := s in 0 <= a < 256 /\ 0 <= q < 65536.

Definition can_mbody (o : list (Z * Z * Z * Z) * Z) : Z -> bytes -> R bytes :=
  ltac:(let t := eval cbv beta delta [g_CANOutputConfiguration_MarshalBinary] in (g_CANOutputConfiguration_MarshalBinary o) in
        match t with context [g_for _ _ _ ?b] => exact b end).

Lemma g_set_mid (P C Rr : list N) z (c : nat) v : z = Z.of_nat (length P + c) -> (c < length C)%nat ->
  g_set (P ++ C ++ Rr) z v = Val (P ++ upd C c (g_byte v) ++ Rr).
Proof.
  intros -> H. rewrite g_set_nat by (rewrite !app_length; lia). f_equal.
  rewrite upd_app_r. f_equal. clear P. revert c H. induction C as [|a C IH]; intros c H; [cbn in H; lia|].
  destruct c; [reflexivity|]. cbn [upd app]. f_equal. apply IH. cbn in H. lia.
Qed.

Lemma g_index_mid (P C Rr : list N) z (c : nat) : z = Z.of_nat (length P + c) -> (c < length C)%nat ->
  g_index (P ++ C ++ Rr) z = Val (Z.of_N (nthb C c)).
Proof.
  intros -> H. rewrite g_index_z by (rewrite !app_length; lia). rewrite Nat2Z.id. f_equal. f_equal.
  unfold nthb. rewrite app_nth2 by lia. replace (length P + c - length P)%nat with c by lia. apply app_nth1. exact H.
Qed.

Lemma g_putn_mid n (P C Rr : list N) z (c : nat) v : z = Z.of_nat (length P + c) -> (c + n <= length C)%nat ->
  g_putn n (P ++ C ++ Rr) z v = Val (P ++ (firstn c C ++ to_be n (Z.to_N (v mod 2 ^ (8 * Z.of_nat n))) ++ skipn (c + n) C) ++ Rr).
Proof.
  intros -> H. unfold g_putn, g_len. rewrite !app_length.
  destruct (Z.ltb_spec (Z.of_nat (length P + c)) 0); [lia|].
  destruct (Z.ltb_spec (Z.of_nat (length P + (length C + length Rr))) (Z.of_nat (length P + c) + Z.of_nat n)); [lia|]. cbn [orb].
  f_equal. rewrite Nat2Z.id.
  rewrite firstn_app. rewrite firstn_all2 by lia. replace (length P + c - length P)%nat with c by lia.
  rewrite firstn_app. replace (c - length C)%nat with 0%nat by lia. rewrite firstn_O, app_nil_r.
  rewrite skipn_app. rewrite skipn_all2 by lia. cbn [app]. replace (length P + c + n - length P)%nat with (c + n)%nat by lia.
  rewrite skipn_app. replace (c + n - length C)%nat with 0%nat by lia. cbn [skipn].
  rewrite <- !app_assoc. reflexivity.
Qed.

Ltac refold8 Rr :=
  match goal with |- context [?a :: ?b :: ?c :: ?d :: ?e :: ?f :: ?g :: ?h :: Rr] =>
    change (a :: b :: c :: d :: e :: f :: g :: h :: Rr) with ([a; b; c; d; e; f; g; h] ++ Rr) end.

Lemma can_mbody_step (o : list (Z * Z * Z * Z) * Z) k (P Rr : list N) a f m q :
  g_oget o (Z.of_nat k) = Val (a, f, m, q) -> can_typed (a, f, m, q) -> length P = (8 * k)%nat ->
  can_mbody o (Z.of_nat k) (P ++ [0; 0; 0; 0; 0; 0; 0; 0]%N ++ Rr) = Val (P ++ canout_marshal_one (unconv (a, f, m, q)) ++ Rr).
Proof.
  intros Hget [Ha Hq] HP. unfold can_mbody. cbv beta iota. rewrite Hget. cbn [rbind].
  assert (HL : g_len (P ++ [0; 0; 0; 0; 0; 0; 0; 0]%N ++ Rr) = Z.of_nat (8 * k + 8 + length Rr)).
  { unfold g_len. rewrite !app_length. cbn [length]. unfold bytes, byte in *. lia. }
  rewrite !HL.
  repeat guard_off. rewrite (g_set_mid P _ Rr _ 0) by (cbn [length]; lia). cbn [rbind upd].
  repeat guard_off. rewrite (g_index_mid P _ Rr _ 0) by (cbn [length]; lia). cbn [rbind nthb nth].
  rewrite (g_set_mid P _ Rr _ 0) by (cbn [length]; lia). cbn [rbind upd].
  repeat guard_off.
  assert (W8 : wrap_u 8 a = a) by (unfold wrap_u; change (2 ^ 8) with 256; rewrite Z.mod_small; lia).
  assert (W32 : wrap_u 32 a mod 2 ^ (8 * Z.of_nat 4) = a).
  { unfold wrap_u. change (2 ^ (8 * Z.of_nat 4)) with 4294967296. change (2 ^ 32) with 4294967296. rewrite !Z.mod_small; lia. }
  assert (W16 : wrap_u 16 q mod 2 ^ (8 * Z.of_nat 2) = q).
  { unfold wrap_u. change (2 ^ (8 * Z.of_nat 2)) with 65536. change (2 ^ 16) with 65536. rewrite !Z.mod_small; lia. }
  destruct (f =? 0) eqn:Ef; cbn [negb].
  - repeat guard_off. rewrite (g_putn_mid 4 P _ Rr _ 2) by (cbn [length]; lia). cbn [rbind firstn skipn app Nat.add to_be]. refold8 Rr.
    repeat guard_off. rewrite (g_index_mid P _ Rr _ 2) by (cbn [length]; lia). cbn [rbind nthb nth].
    rewrite (g_set_mid P _ Rr _ 2) by (cbn [length]; lia). cbn [rbind upd].
    repeat guard_off. rewrite (g_putn_mid 2 P _ Rr _ 6) by (cbn [length]; lia). cbn [rbind firstn skipn app Nat.add to_be]. refold8 Rr.
    repeat guard_off. rewrite (g_index_mid P _ Rr _ 6) by (cbn [length]; lia). cbn [rbind nthb nth].
    rewrite (g_set_mid P _ Rr _ 6) by (cbn [length]; lia). cbn [rbind upd].
    unfold canout_marshal_one, unconv. rewrite Ef. cbn [negb to_be app nthb nth].
    rewrite ?W8, W32, W16. unfold g_byte.
    change 127 with (Z.of_N 127). change 31 with (Z.of_N 31). change 7 with (Z.of_N 7).
    rewrite !land_of_N, !N2Z.id. reflexivity.
  - repeat guard_off. rewrite (g_set_mid P _ Rr _ 1) by (cbn [length]; lia). cbn [rbind upd].
    repeat guard_off. rewrite (g_putn_mid 4 P _ Rr _ 2) by (cbn [length]; lia). cbn [rbind firstn skipn app Nat.add to_be]. refold8 Rr.
    repeat guard_off. rewrite (g_index_mid P _ Rr _ 2) by (cbn [length]; lia). cbn [rbind nthb nth].
    rewrite (g_set_mid P _ Rr _ 2) by (cbn [length]; lia). cbn [rbind upd].
    repeat guard_off. rewrite (g_putn_mid 2 P _ Rr _ 6) by (cbn [length]; lia). cbn [rbind firstn skipn app Nat.add to_be]. refold8 Rr.
    repeat guard_off. rewrite (g_index_mid P _ Rr _ 6) by (cbn [length]; lia). cbn [rbind nthb nth].
    rewrite (g_set_mid P _ Rr _ 6) by (cbn [length]; lia). cbn [rbind upd].
    unfold canout_marshal_one, unconv. rewrite Ef. cbn [negb to_be app nthb nth].
    rewrite ?W8, W32, W16. unfold g_byte.
    change 127 with (Z.of_N 127). change 31 with (Z.of_N 31). change 7 with (Z.of_N 7).
    rewrite !land_of_N, !N2Z.id. reflexivity.
Qed.

Lemma g_slice_all (s : bytes) : g_slice s 0 (0 + g_len s) = Val s.
Proof.
  unfold g_slice, g_len. destruct (Z.ltb_spec 0 0); [lia|]. destruct (Z.ltb_spec (0 + Z.of_nat (length s)) 0); [lia|].
  destruct (Z.ltb_spec (Z.of_nat (length s)) (0 + Z.of_nat (length s))); [lia|]. cbn [orb].
  replace (Z.to_nat (0 + Z.of_nat (length s) - 0)) with (length s) by lia. change (Z.to_nat 0) with 0%nat. cbn [skipn].
  rewrite firstn_all. reflexivity.
Qed.

Definition cenc (s : Z * Z * Z * Z) : bytes := canout_marshal_one (unconv s).
Lemma cenc_length s : length (cenc s) = 8%nat.
Proof. destruct s as [[[a f] m] q]. reflexivity. Qed.
Lemma flat_cenc_length l : length (flat_map cenc l) = (8 * length l)%nat.
Proof. induction l as [|s l IH]; [reflexivity|]. cbn [flat_map]. rewrite app_length, cenc_length, IH. cbn [length]. lia. Qed.

Theorem can_marshal_agrees (bk : list (Z * Z * Z * Z)) n : (n <= length bk)%nat -> Forall can_typed (firstn n bk) ->
  g_CANOutputConfiguration_MarshalBinary (bk, Z.of_nat n) =
  Val (canout_marshal (map unconv (firstn n bk)), None, (bk, Z.of_nat n)).
Proof.
  intros Hn Hty. unfold g_CANOutputConfiguration_MarshalBinary. unfold g_olen at 1. cbn [snd].
  unfold g_make. destruct (Z.ltb_spec (Z.of_nat n * 8) 0); [lia|]. cbn [rbind].
  unfold g_for, g_olen. cbn [snd]. rewrite Z.sub_0_r, Nat2Z.id.
  match goal with |- context [g_for_n n 0 _ ?body] => change body with (can_mbody (bk, Z.of_nat n)) end.
  destruct (g_for_n_inv (fun k (buf : bytes) => buf = flat_map cenc (firstn k bk) ++ repeat 0%N (8 * (n - k)))
              (can_mbody (bk, Z.of_nat n)) n 0%nat (repeat 0%N (Z.to_nat (Z.of_nat n * 8)))) as (s' & Es & Ps).
  - cbn [firstn flat_map app]. f_equal. lia.
  - intros k buf Hk ->.
    assert (Hg : g_oget (bk, Z.of_nat n) (Z.of_nat k) = Val (nth k bk gzero)).
    { unfold g_oget, g_olen, snd, fst. destruct (Z.ltb_spec (Z.of_nat k) 0); [lia|].
      destruct (Z.leb_spec (Z.of_nat n) (Z.of_nat k)); [lia|]. cbn [orb]. rewrite Nat2Z.id. reflexivity. }
    assert (Ht : can_typed (nth k bk gzero)).
    { rewrite Forall_forall in Hty. apply Hty. rewrite <- (firstn_skipn k (firstn n bk)).
      rewrite firstn_firstn, Nat.min_l by lia. apply in_or_app. right.
      rewrite (skipn_cons_nth (firstn n bk) k gzero) by (rewrite firstn_length; lia). left.
      clear - Hk Hn. revert k n Hk Hn. induction bk as [|b bk IHb]; intros k n Hk Hn; [cbn in Hn; lia|].
      destruct n; [lia|]. destruct k; [reflexivity|]. cbn [firstn nth]. apply IHb; cbn [length] in Hn; lia. }
    destruct (nth k bk gzero) as [[[a f] m] q] eqn:En.
    replace (8 * (n - k))%nat with (8 + 8 * (n - Datatypes.S k))%nat by lia. rewrite repeat_app. cbn [repeat Nat.add].
    change (repeat 0%N 8) with [0; 0; 0; 0; 0; 0; 0; 0]%N.
    rewrite (can_mbody_step (bk, Z.of_nat n) k _ _ a f m q Hg Ht) by (rewrite flat_cenc_length, firstn_length; lia).
    eexists. split; [reflexivity|].
    rewrite (firstn_snoc bk k gzero) by lia. rewrite flat_map_app. cbn [flat_map]. rewrite En, app_nil_r.
    rewrite <- app_assoc. reflexivity.
  - change (Z.of_nat 0) with 0 in Es. rewrite Es. cbn [rbind]. rewrite g_slice_all. cbn [rbind].
    rewrite Ps. cbn [Nat.add]. rewrite Nat.sub_diag. cbn [Nat.mul repeat]. rewrite app_nil_r.
    f_equal. f_equal. f_equal. unfold canout_marshal. generalize (firstn n bk). intros l.
    induction l as [|x l IH]; [reflexivity|]. cbn [flat_map map]. rewrite IH. reflexivity.
Qed.
