(* Tie T: NewEmulator sets its bufio.Scanner up exactly as Lib/Bufio.v models it (default buffer, split function
   ScanMessages, nothing else). *)
Require Import Gen.Scanners.
Lemma emulator_scanner_default : emulator_scanner_is_default = true.
Proof. reflexivity. Qed.
