(* Tie T for the timestamp conversions: UTCTime.Time / UnmarshalTime and GNSSPVTData.Time as REGENERATED from
   measurementdata.go (Gen/TimeFns.v: which field goes to which argument of time.Date, through which integer conversion,
   and which accessor of the UTC-converted instant fills which field) against Model/TimeConv.v.  time.Date and the
   accessors themselves are the model's (Lib/Civil.v), validated against Go's time package by C19's correspondence. *)
From Coq Require Import ZArith List Bool Lia.
Require Import Base.Bytes Base.GoInt Base.GoBytes Lib.Civil Model.TimeConv Gen.TimeFns.
Import ListNotations.
Open Scope Z_scope.

Theorem utc_time_agrees r : g_UTCTime_Time go_date r = Val (utc_to_instant r).
Proof. destruct r as [[[[[[ns y] mo] d] h] mi] s]. reflexivity. Qed.

Theorem gnss_time_agrees y mo d h mi s nano :
  g_GNSSPVTData_Time go_date (y, mo, d, h, mi, s, nano) = Val (gnss_to_instant y mo d h mi s nano).
Proof. reflexivity. Qed.

(* the accessors of the UTC-converted instant (seconds since 0001-01-01, nanoseconds) *)
Definition acc_of (t : Z * Z) : Z * Z * Z * Z * Z * Z * Z :=
  let '(T, ns) := t in
  let '(y, mo, d) := civil_from_days (T / 86400) in
  let sod := T mod 86400 in
  (y, mo, d, sod / 3600, (sod mod 3600) / 60, sod mod 60, ns).

Theorem utc_unmarshal_time_agrees t old zy zmo zd zh zmi zs zns :
  let '(y, mo, d, h, mi, s, ns) := acc_of t in
  g_UTCTime_UnmarshalTime y mo d h mi s ns zy zmo zd zh zmi zs zns old = Val (instant_to_utc t).
Proof.
  destruct t as [T ns]. unfold acc_of, instant_to_utc. destruct (civil_from_days (T / 86400)) as [[y mo] d].
  destruct old as [[[[[[o1 o2] o3] o4] o5] o6] o7]. reflexivity.
Qed.
