(* On the skeleton regenerated from emulator.go: no path of an iteration of the receive loop writes shared state after a
   port write (the mode and the configuration are what the acknowledge announces by the time it is written, and a failing
   acknowledge write cannot skip the state change).  C16's order theorem; an obligation of every property whose cases or
   theorems go through the emulator's receive loop. *)
From Coq Require Import List String Bool.
Require Import Model.Conc Spec.Order Gen.EmuSkeleton.

Lemma emu_receive_order_ok : receive_order_ok m_Receive = true.
Proof. vm_compute. reflexivity. Qed.
