(* C10 - Port failures surface with their cause after all complete frames are delivered. *)
From Coq Require Import String.
Require Import Base.Bytes Model.Frame Model.Split Lib.Bufio Spec.FrameSpec Spec.StreamSpec Spec.Terminal
  Gen.Funcs Model.Client Spec.ClientSpec Spec.ClientOps
  Proofs.ScanThm2 Proofs.ClientProofs Proofs.SpecClientProofs.
Open Scope nat_scope.

(* whatever the prefix delivered before the failure, whatever the failure point, error value, (n, err) convention
   and fragmentation: the client behaves as the abstract client on that prefix ... *)
Theorem C10_client_refines_spec : forall prefix sch fin ewd wplan ops,
  sched_ok sch -> (ewd = false \/ snd (segT prefix) = SEnd) ->
  Forall2 agrees (m_run (new_client (mk prefix sch fin ewd) wplan) ops) (s_run (snew prefix fin wplan) ops).
Proof. exact client_refines_spec. Qed.
Print Assumptions C10_client_refines_spec.

(* ... which delivers every complete frame of the prefix in order (accepted or rejected), never the incomplete
   tail, and then reports the terminal cause on that and on every later receive: the port's error when no
   oversize header occurs (snd (segT prefix) = SEnd), io.EOF being the orderly end *)
Theorem C10_prefix_then_cause : forall prefix fin wplan n,
  fst (receives n (snew prefix fin wplan)) =
    map classify (firstn n (fst (segT prefix))) ++
    repeat (RTerminal (tterm (snd (segT prefix)) fin)) (n - length (fst (segT prefix))).
Proof. exact prefix_then_cause. Qed.
Print Assumptions C10_prefix_then_cause.

Theorem C10_rejected_then_rest : forall stream fin wplan a bad b,
  fst (segT stream) = a ++ bad :: b -> wf_frameb bad = false ->
  firstn (length a + 1 + length b) (fst (receives (length a + 1 + length b) (snew stream fin wplan)))
  = map classify a ++ RRejected :: map classify b.
Proof. exact rejected_then_rest. Qed.
Print Assumptions C10_rejected_then_rest.

(* finding K1 (known_findings.txt): with an oversize header the strict statement is refuted - the terminal is
   TooLong, not the port's error, and the frame after the false header is never delivered *)
Definition k1_stream : bytes := [250; 255; 16; 255; 255; 255]%N ++ repeat 0%N (N.to_nat 65536) ++ [250; 255; 48; 0; 209]%N.
Example C10_oversize_header_refuted :
  segT k1_stream = ([], STooLong) /\
  fst (receives 2 (snew k1_stream (TPort 9) [])) = [RTerminal TTooLong; RTerminal TTooLong].
Proof. split; vm_compute; reflexivity. Qed.

Example C10_example :
  m_run (new_client (mk (new_message 48%N [] ++ [250; 255; 1]%N) [2; 0; 0; 6] (TPort 5) true) [])
        [OReceive; OReceive; OReceive]
  = [BRecvOk; BRecvTerm (TPort 5); BRecvTerm (TPort 5)].
Proof. vm_compute. reflexivity. Qed.
