(* C17 - The emulator may be used from other goroutines while its receive loop runs.
   emu_methods is the lock/access skeleton of every method of xsensemulator.Emulator, REGENERATED from emulator.go
   on every run (Gen/EmuSkeleton.v).  Go's memory model guarantees sequentially consistent behaviour to programs
   free of data races under sequentially consistent interleavings (DRF-SC), so interleavings suffice. *)
From Coq Require Import List String Bool.
Require Import Model.Conc Gen.EmuSkeleton Proofs.ConcProofs Tie.TranslationOk.
Require Import Base.Bytes Base.GoBytes Model.Config Spec.ConfigSpec Proofs.ConfigProofs Gen.ConfFns Tie.ConfAgree.
Import ListNotations.

(* metatheory, proved once: disciplined code has no race and no write critical section overlapping any other critical
   section, for any number of threads and every interleaving that respects the lock (sync.Mutex, or sync.RWMutex:
   a writer excludes everybody, readers exclude the writer) *)
Theorem C17_discipline_sound : forall code : nat -> list action,
  (forall i, ok HN (code i) = true) ->
  forall st, reachable (initial code) st -> ~ race st /\ ~ overlap st.
Proof. exact discipline_sound. Qed.
Print Assumptions C17_discipline_sound.

(* the static check is sound for every path of a statement (loops unrolled arbitrarily, returns cut the path) *)
Theorem C17_disciplined_paths : forall s l ret, disciplined s = true -> path s l ret ->
  ok HN l = true /\ final HN l = HN.
Proof. exact disciplined_paths. Qed.
Print Assumptions C17_disciplined_paths.

(* the emulator, as it is in the source now *)
Theorem C17_emulator_disciplined : forallb (fun m => disciplined (snd m)) emu_methods = true.
Proof. vm_compute. reflexivity. Qed.
Print Assumptions C17_emulator_disciplined.

(* the shared state is what the skeleton tracks: mode register and output configuration behind one mutex *)
Theorem C17_emulator_fields :
  emu_fields = ["port"; "w"; "sc"; "mutex"; "outputConf"; "lastMessageIdentifier"]%string.
Proof. reflexivity. Qed.

(* hence: any number of goroutines, each calling any emulator methods in any order (one of them the receive loop),
   under every interleaving: no data race on the mode register or the configuration, and never two goroutines
   inside critical sections at once - a concurrent encode sees the whole previous or the whole new configuration *)
Theorem C17_emulator_race_free : forall plan : nat -> list (list action),
  (forall i, Forall (fun l => exists m ret, In m emu_methods /\ path (snd m) l ret) (plan i)) ->
  forall st, reachable (initial (fun i => List.concat (plan i))) st -> ~ race st /\ ~ overlap st.
Proof.
  intros plan Hp. apply discipline_sound. intros i. apply ok_concat.
  specialize (Hp i). induction Hp as [|l ls (m & ret & Hin & Hpath) _ IH]; constructor; [|exact IH].
  pose proof C17_emulator_disciplined as D. rewrite forallb_forall in D. specialize (D m Hin).
  exact (disciplined_paths _ _ _ D Hpath).
Qed.
Print Assumptions C17_emulator_race_free.

(* "whole new": what the receive loop stores inside its critical section - the GENERATED OutputConfiguration.Unmarshal
   applied to the configuration the emulator held before (any contents, length n, capacity) - is the decoding of the
   command's payload alone: no component of the previous configuration survives in any slot *)
Theorem C17_installed_configuration_is_the_commands : forall bk n data, wf_bytes data -> (0 <= n <= Z.of_nat (length bk))%Z ->
  exists o', g_OutputConfiguration_Unmarshal (bk, n) data = Val (None, o') /\
             firstn (Z.to_nat (snd o')) (fst o') = map decode_group (groups4 data).
Proof.
  intros bk n data Hw Hn. destruct (unmarshal_conf_agrees bk n data Hw Hn) as (o' & H1 & H2).
  exists o'. split; [exact H1|]. rewrite H2. exact (proj1 (unmarshal_positional bk data Hw)).
Qed.
Print Assumptions C17_installed_configuration_is_the_commands.

(* non-vacuity: the pinned (pre-fix) Transmit is rejected by the check, the repaired one accepted; a real path *)
Example C17_example :
  disciplined (Seq (Act (ARd Mode)) (Seq (Choice Ret Skip) Ret)) = false /\
  disciplined m_Transmit = true /\
  (* sync.RWMutex: a read under the read lock is fine, a write under it is not *)
  disciplined (Seq (Act ARLock) (Seq (Act (ARd Mode)) (Seq (Act ARUnlock) Ret))) = true /\
  disciplined (Seq (Act ARLock) (Seq (Act (AWr Mode)) (Act ARUnlock))) = false /\
  path m_SetSendMode [ALock; AWr Mode; AUnlock] false.
Proof.
  repeat split; try reflexivity.
  change [ALock; AWr Mode; AUnlock] with ([ALock] ++ ([AWr Mode] ++ [AUnlock])).
  unfold m_SetSendMode. apply p_seq; [apply p_act|]. apply p_seq; apply p_act.
Qed.
