(* C08 - Commands send one exact request and stop at the matching ack, losing nothing. *)
From Coq Require Import String.
Require Import Base.Bytes Model.Frame Model.Split Lib.Bufio Spec.FrameSpec Spec.StreamSpec Spec.Terminal Spec.ProtocolTables
  Gen.Funcs Gen.Commands Model.Client Spec.ClientSpec Spec.ClientOps Tie.CommandsAgree
  Proofs.ScanThm2 Proofs.FrameProofs Proofs.ClientProofs Proofs.SpecClientProofs.
Open Scope nat_scope.

(* the command table regenerated from client.go (request identifier, awaited identifier) is the protocol's *)
Theorem C08_command_table : commands_agree = true.
Proof. exact commands_agree_ok. Qed.
Print Assumptions C08_command_table.

(* under every read fragmentation, error convention and sequence of commands and receives on one client, the
   model client does what the abstract client does (commands included: see step_refines) *)
Theorem C08_client_refines_spec : forall stream sch fin ewd wplan ops,
  sched_ok sch -> (ewd = false \/ snd (segT stream) = SEnd) ->
  Forall2 agrees (m_run (new_client (mk stream sch fin ewd) wplan) ops) (s_run (snew stream fin wplan) ops).
Proof. exact client_refines_spec. Qed.
Print Assumptions C08_client_refines_spec.

(* the request written is new_message, which is well-formed and carries identifier and payload (C06) *)
Theorem C08_request_is_well_formed : forall req payload, (length payload <= 2048)%nat ->
  wf_frame (new_message req payload) /\ identifier (new_message req payload) = Some req /\
  msg_data (new_message req payload) = Some payload.
Proof. intros req p H. pose proof (new_message_wf req p H) as X. cbv zeta in X. destruct X as (A & _ & B & _ & C & _). split; [exact A|split; [exact B|exact C]]. Qed.
Print Assumptions C08_request_is_well_formed.

Theorem C08_command_consumes_to_ack : forall sc frame ack us a rest,
  (swplan sc = [] \/ exists pl, swplan sc = true :: pl) ->
  ssegs sc = us ++ a :: rest ->
  Forall (fun u => wf_frameb u = true /\ nthb u 2 <> ack) us -> wf_frameb a = true -> nthb a 2 = ack ->
  let '(r, sc') := scommand sc frame ack in
  r = CmdOk /\ swritten sc' = swritten sc ++ [frame] /\ scur sc' = Some a /\ ssegs sc' = rest /\
  spkts sc' = (if (ack =? 54)%N then packets_of (payload_of a) else []) /\
  fst (sreceive sc') = match rest with [] => RTerminal (sterm sc) | n :: _ => classify n end.
Proof. exact command_consumes_to_ack. Qed.
Print Assumptions C08_command_consumes_to_ack.

Theorem C08_write_failure_consumes_nothing : forall sc frame ack pl, swplan sc = false :: pl ->
  let '(r, sc') := scommand sc frame ack in
  r = CmdWriteErr /\ ssegs sc' = ssegs sc /\ swritten sc' = swritten sc /\ scur sc' = scur sc.
Proof. exact write_failure_consumes_nothing. Qed.
Print Assumptions C08_write_failure_consumes_nothing.

Theorem C08_no_ack_fails_with_terminal : forall sc frame ack,
  (swplan sc = [] \/ exists pl, swplan sc = true :: pl) ->
  Forall (fun u => wf_frameb u = true /\ nthb u 2 <> ack) (ssegs sc) ->
  fst (scommand sc frame ack) = CmdRecvErr (RTerminal (sterm sc)).
Proof. exact no_ack_fails_with_terminal. Qed.
Print Assumptions C08_no_ack_fails_with_terminal.

Example C08_example :
  let stream := new_message 54%N [] ++ new_message 49%N [] ++ new_message 1%N [1; 2; 3; 4]%N in
  m_run (new_client (mk stream [1; 1; 1; 0; 4] TEnd false) []) [OCmd "GoToConfig" []; OMsgId; OReceive; OMsgId]
  = [BCmd (BBool true) [[250; 255; 48; 0; 209]%N] 0%N; BNum 49%Z; BRecvOk; BNum 1%Z].
Proof. vm_compute. reflexivity. Qed.

(* The model IS the code, for the command loop: one iteration of Client.receiveUntil as REGENERATED statement by statement
   from client.go on this run (Gen/ClientFns.v: Receive, then the identifier comparison, continue or return) agrees with
   one unfolding of the model's receive_until - a validation failure ends the command with its cause, an accepted
   frame ends it exactly when it carries the awaited identifier *)
Require Import Base.GoBytes Gen.ClientFns Lib.Bufio Tie.ClientAgree.
Theorem C08_command_loop_model_is_the_source : forall c ok s' r' unt,
  scan (scan_fuel c) (csc c) (crd c) = SR ok s' r' ->
  (ok = true -> exists t, tok s' = Some t /\ wf_bytes t) ->
  (0 <= unt < 256)%Z ->
  let c' := snd (receive c) in
  rmap step_out (g_Client_receiveUntil_step ok (optb (tok s')) (err_code (sc_err s')) unt (abs c)) =
  match fst (receive c) with
  | ROk => match message_identifier c' with
           | Ok i => Val (if (Z.of_N i =? unt)%Z then Some ROk else None, abs c')
           | _ => Pan
           end
  | r => Val (Some r, abs c')
  end.
Proof. exact receive_until_step_agrees. Qed.

(* and Client.send as regenerated from client.go: one write of the request frame - the port's output grows by exactly that
   frame - or, when the write fails, nothing is written and the write's error is the cause; no other state of the client
   is touched (the generated function has only the port's output as its state: an assignment to any other field is
   reported by the translator). *)
Theorem C08_send_model_is_the_source : forall m port,
  g_Client_send None m port = Val (None, port ++ [m]) /\
  (forall c, (3 <= length m)%nat -> g_Client_send (Some c) m port = Val (Some c, port)).
Proof. exact send_agrees. Qed.
Print Assumptions C08_send_model_is_the_source.

(* ---- the serial port over UDP, the transport of an emulator and its client (xsensemulator/udpserialport.go) ----
   Whatever one port writes, the port facing it reads whole, unchanged and in order - every size, every configured
   timeout, however much time passes in between (Model/UdpPort.v on a first-in first-out loop-back network). *)
Require Import Base.GoBytes Model.UdpPort Proofs.UdpPortProofs Gen.UdpFns Tie.UdpAgree.
Theorem C08_udp_port_delivers_every_slice_unchanged : forall t0 t1 side buflen ps,
  Forall (fun p => (length p <= buflen)%nat) ps ->
  urun t0 t1 unet0 (writes side ps ++ reads (negb side) buflen (length ps)) =
  map (fun p => UWrote (Z.of_nat (length p)) None) ps ++ map (fun p => UGot p None) ps.
Proof. exact udp_delivers. Qed.
Print Assumptions C08_udp_port_delivers_every_slice_unchanged.

(* and that model is udpserialport.go as regenerated on this run: Write and Read hand the caller's slice as it is to the
   connection and return its results as they are, after a fresh deadline for that direction only when a timeout was
   configured; a port created without options has none; the port listens on its origin and sends to its destination. *)
Theorem C08_udp_port_model_is_the_source :
  (forall t dl cw p, g_UDPSerialPort_Write t dl cw p = Val (udp_write t dl cw p)) /\
  (forall t dl cr p, g_UDPSerialPort_Read t dl cr p = Val (udp_read t dl cr p)) /\
  (forall c, g_UDPSerialPort_Close c = Val c) /\
  g_defaultOptions = 0%Z /\
  (forall t old, g_WithTimeout t old = t) /\
  (forall rs ls o a b, g_NewUDPSerialPort rs ls o a b = Val (udp_new rs ls o a b)).
Proof. exact udp_port_agrees. Qed.
Print Assumptions C08_udp_port_model_is_the_source.
