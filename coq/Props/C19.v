(* C19 - Timestamp records and time instants convert without loss.
   utc_to_instant / instant_to_utc / gnss_to_instant model UTCTime.Time, UTCTime.UnmarshalTime and GNSSPVTData.Time
   over a model of Go's time.Date (with its field normalisation) and Time.Date()/Clock() in UTC (Lib/Civil.v).
   An instant is (seconds since 0001-01-01T00:00:00Z, ns); zones do not change instants. *)
From Coq Require Import ZArith List Bool.
Require Import Base.GoInt Lib.Civil Model.TimeConv Gen.Funcs Proofs.TimeProofs.
Open Scope Z_scope.

(* forall instants of the years 1..9999, to the nanosecond *)
Theorem C19_instant_roundtrip : forall T ns, 0 <= T < max_seconds -> 0 <= ns < billion ->
  utc_to_instant (instant_to_utc (T, ns)) = (T, ns).
Proof. exact instant_roundtrip. Qed.
Print Assumptions C19_instant_roundtrip.

(* forall records with valid calendar fields *)
Theorem C19_fields_roundtrip : forall r, valid_record r -> instant_to_utc (utc_to_instant r) = r.
Proof. exact fields_roundtrip. Qed.
Print Assumptions C19_fields_roundtrip.

(* the instant is the proleptic Gregorian UTC date and time of the fields *)
Theorem C19_instant_is_gregorian : forall ns y mo d h mi s, valid_record (ns, y, mo, d, h, mi, s) ->
  utc_to_instant (ns, y, mo, d, h, mi, s) = (days_from_civil y mo d * 86400 + h * 3600 + mi * 60 + s, ns).
Proof. exact instant_is_gregorian. Qed.
Print Assumptions C19_instant_is_gregorian.

(* ... where days_from_civil and civil_from_days are inverse bijections between day numbers and valid dates *)
Theorem C19_civil_of_days : forall z, 0 <= z ->
  let '(y, m, d) := civil_from_days z in
  1 <= y /\ 1 <= m <= 12 /\ 1 <= d <= dim (is_leap y) m /\ days_from_civil y m d = z.
Proof. exact civil_of_days. Qed.
Theorem C19_days_of_civil : forall y m d, 1 <= y -> 1 <= m <= 12 -> 1 <= d <= dim (is_leap y) m ->
  civil_from_days (days_from_civil y m d) = (y, m, d) /\ 0 <= days_from_civil y m d.
Proof. exact days_of_civil. Qed.
Print Assumptions C19_days_of_civil.

(* GNSS position record: plus its signed nanosecond offset, with borrow *)
Theorem C19_gnss_instant : forall y mo d h mi s nano, valid_record (0, y, mo, d, h, mi, s) -> - billion < nano < billion ->
  gnss_to_instant y mo d h mi s nano =
    (days_from_civil y mo d * 86400 + h * 3600 + mi * 60 + s + (if nano <? 0 then -1 else 0), if nano <? 0 then nano + billion else nano).
Proof. exact gnss_instant. Qed.
Print Assumptions C19_gnss_instant.

(* validity flags from bits 0, 1, 2 - forall 256 validity bytes, over the generated functions *)
Theorem C19_validity_bits : forall u, 0 <= u < 256 ->
  f_UTCValidity_IsDateValid u = Z.testbit u 0 /\ f_UTCValidity_IsTimeOfDayValid u = Z.testbit u 1 /\
  f_UTCValidity_IsTimeOfDayFullyResolved u = Z.testbit u 2.
Proof. exact validity_bits. Qed.
Print Assumptions C19_validity_bits.

Example C19_example :
  utc_to_instant (999999999, 2024, 2, 29, 23, 59, 59) = (63844847999, 999999999) /\
  instant_to_utc (63844847999 + 1, 0) = (0, 2024, 3, 1, 0, 0, 0) /\
  gnss_to_instant 2021 1 1 0 0 0 (-1) = (63745056000 - 1, 999999999) /\ valid_record (999999999, 2024, 2, 29, 23, 59, 59).
Proof. unfold valid_record, billion. repeat split; vm_compute; try reflexivity; discriminate. Qed.

(* The model IS the code (field mapping): UTCTime.Time, UTCTime.UnmarshalTime and GNSSPVTData.Time as REGENERATED from
   measurementdata.go on this run (Gen/TimeFns.v) - which field is which argument of time.Date(.., time.UTC), through which
   integer conversion; which accessor of ts.UTC() fills which field, truncated to which width - are utc_to_instant,
   instant_to_utc and gnss_to_instant.  (time.Date and the accessors are the calendar model the theorems above are about.) *)
Require Import Base.GoBytes Gen.TimeFns Tie.TimeAgree.
Theorem C19_conversions_model_is_the_source :
  (forall r, g_UTCTime_Time go_date r = Val (utc_to_instant r)) /\
  (forall y mo d h mi s nano, g_GNSSPVTData_Time go_date (y, mo, d, h, mi, s, nano) = Val (gnss_to_instant y mo d h mi s nano)) /\
  (forall t old zy zmo zd zh zmi zs zns,
     let '(y, mo, d, h, mi, s, ns) := acc_of t in
     g_UTCTime_UnmarshalTime y mo d h mi s ns zy zmo zd zh zmi zs zns old = Val (instant_to_utc t)).
Proof. split; [exact utc_time_agrees|]. split; [exact gnss_time_agrees|exact utc_unmarshal_time_agrees]. Qed.
Print Assumptions C19_conversions_model_is_the_source.

(* ---- the serial port over UDP, the transport of an emulator and its client (xsensemulator/udpserialport.go) ----
   Whatever one port writes, the port facing it reads whole, unchanged and in order - every size, every configured
   timeout, however much time passes in between (Model/UdpPort.v on a first-in first-out loop-back network). *)
Require Import Base.GoBytes Model.UdpPort Proofs.UdpPortProofs Gen.UdpFns Tie.UdpAgree.
Theorem C19_udp_port_delivers_every_slice_unchanged : forall t0 t1 side buflen ps,
  Forall (fun p => (length p <= buflen)%nat) ps ->
  urun t0 t1 unet0 (writes side ps ++ reads (negb side) buflen (length ps)) =
  map (fun p => UWrote (Z.of_nat (length p)) None) ps ++ map (fun p => UGot p None) ps.
Proof. exact udp_delivers. Qed.
Print Assumptions C19_udp_port_delivers_every_slice_unchanged.

(* and that model is udpserialport.go as regenerated on this run: Write and Read hand the caller's slice as it is to the
   connection and return its results as they are, after a fresh deadline for that direction only when a timeout was
   configured; a port created without options has none; the port listens on its origin and sends to its destination. *)
Theorem C19_udp_port_model_is_the_source :
  (forall t dl cw p, g_UDPSerialPort_Write t dl cw p = Val (udp_write t dl cw p)) /\
  (forall t dl cr p, g_UDPSerialPort_Read t dl cr p = Val (udp_read t dl cr p)) /\
  (forall c, g_UDPSerialPort_Close c = Val c) /\
  g_defaultOptions = 0%Z /\
  (forall t old, g_WithTimeout t old = t) /\
  (forall rs ls o a b, g_NewUDPSerialPort rs ls o a b = Val (udp_new rs ls o a b)).
Proof. exact udp_port_agrees. Qed.
Print Assumptions C19_udp_port_model_is_the_source.
