(* C14 - Query commands return the reference decoding of the reply or an error, no panic.
   The command layer (request written, acknowledge awaited, payload handed to the decoder) is C08 and the
   generated command table; here: the decoders themselves, on every payload. *)
Require Import Base.Bytes Gen.Commands Spec.ProtocolTables Model.Config Spec.ConfigSpec Proofs.ConfigProofs Tie.CommandsAgree.
Open Scope N_scope.

Theorem C14_device_id : forall d, deviceid_unmarshal d <> OOB /\ deviceid_unmarshal d <> Panic /\
  (length d = 4%nat -> deviceid_unmarshal d = Ok (be32 (nthb d 0) (nthb d 1) (nthb d 2) (nthb d 3))) /\
  (length d = 8%nat -> deviceid_unmarshal d = Ok (be32 (nthb d 4) (nthb d 5) (nthb d 6) (nthb d 7))) /\
  (length d <> 4%nat -> length d <> 8%nat -> deviceid_unmarshal d = Err 1).
Proof. exact deviceid_spec. Qed.
Print Assumptions C14_device_id.

Theorem C14_hw_version : forall d, hwversion_unmarshal d <> OOB /\ hwversion_unmarshal d <> Panic /\
  (length d = 2%nat -> hwversion_unmarshal d = Ok (nthb d 0, nthb d 1)) /\
  (length d <> 2%nat -> hwversion_unmarshal d = Err 1).
Proof. exact hwversion_spec. Qed.
Print Assumptions C14_hw_version.

Theorem C14_product_code : forall d, exists l r,
  d = l ++ productcode_unmarshal d ++ r /\ forallb is_space l = true /\ forallb is_space r = true /\
  (match productcode_unmarshal d with b :: _ => is_space b = false | [] => True end) /\
  (match rev (productcode_unmarshal d) with b :: _ => is_space b = false | [] => True end).
Proof. exact productcode_spec. Qed.
Print Assumptions C14_product_code.

Theorem C14_output_configuration : forall payload, wf_bytes payload ->
  outconf_unmarshal [] payload = map decode_group (groups4 payload).
Proof. intros p H. exact (proj1 (unmarshal_positional [] p H)). Qed.
Print Assumptions C14_output_configuration.

Theorem C14_can_configuration : forall d, can_unmarshal d <> OOB /\ can_unmarshal d <> Panic /\
  ((length d < 4)%nat -> can_unmarshal d = Err 1).
Proof. exact can_unmarshal_total. Qed.
Print Assumptions C14_can_configuration.

(* the six queries send the request and await the acknowledge the protocol prescribes (generated table) *)
Theorem C14_command_table_agrees : commands_agree = true.
Proof. exact commands_agree_ok. Qed.
Print Assumptions C14_command_table_agrees.

Example C14_example :
  deviceid_unmarshal [1; 2; 3; 4; 5; 6; 7; 8] = Ok 0x05060708 /\ deviceid_unmarshal [1; 2; 3] = Err 1 /\
  hwversion_unmarshal [2; 0] = Ok (2, 0) /\ productcode_unmarshal [32; 9; 77; 84; 105; 32; 51; 13; 10] = [77; 84; 105; 32; 51] /\
  can_unmarshal [0; 0; 1] = Err 1.
Proof. repeat split. Qed.

(* The decoders ARE the code: DeviceID.UnmarshalBinary (the switch on the payload length, the last four bytes of an
   eight-byte identifier) and CANConfig.UnmarshalBinary as regenerated from informationmessages.go / canconfig.go
   (Gen/StructFns.v), and CANOutputConfiguration.UnmarshalBinary with its slice aliasing (Gen/CanFns.v), are the reference
   decoders above - for every payload; none of them panics, and the CAN decoder leaves the payload it was given unchanged. *)
Require Import Base.GoBytes Base.GoConf Gen.StructFns Gen.CanFns Tie.StructAgree Tie.CanAgree.
Theorem C14_decoders_model_is_the_source :
  (forall data st, wf_bytes data ->
     g_DeviceID_UnmarshalBinary data st =
     match deviceid_unmarshal data with Ok v => Val (None, Z.of_N v) | Err _ => Val (Some 1%Z, st) | _ => Pan end) /\
  (forall data st, wf_bytes data ->
     g_CANConfig_UnmarshalBinary data st =
     match can_unmarshal data with Ok (e, b) => Val (None, (e, b)) | Err _ => Val (Some 2%Z, st) | _ => Pan end) /\
  (forall bk n data, wf_bytes data -> (0 <= n <= Z.of_nat (length bk))%Z ->
     exists o', g_CANOutputConfiguration_UnmarshalBinary (bk, n) data = Val (None, o', data) /\
                firstn (Z.to_nat (snd o')) (fst o') = map conv (canout_unmarshal data) /\
                (0 <= snd o' <= Z.of_nat (length (fst o')))%Z).
Proof. split; [exact deviceid_unmarshal_agrees|]. split; [exact canconfig_unmarshal_agrees|exact can_unmarshal_agrees]. Qed.
Print Assumptions C14_decoders_model_is_the_source.

(* and the two text results: HWVersion.UnmarshalBinary (exactly two bytes, rendered "%d.%d" of those two bytes) and
   ProductCode.UnmarshalBinary (strings.TrimSpace of the payload read as ASCII text) as regenerated from the source *)
From Coq Require Import String.
Theorem C14_text_decoders_model_is_the_source :
  (forall data st, wf_bytes data ->
     g_HWVersion_UnmarshalBinary data st =
     match hwversion_unmarshal data with
     | Ok (a, b) => Val (None, GFmt "%d.%d"%string [Z.of_N a; Z.of_N b]) | Err _ => Val (Some 1%Z, st) | _ => Pan end) /\
  (forall data st, g_ProductCode_UnmarshalBinary data st = Val (None, GText (productcode_unmarshal data))).
Proof. split; [exact hwversion_unmarshal_agrees|exact productcode_unmarshal_agrees]. Qed.
Print Assumptions C14_text_decoders_model_is_the_source.
