(* C12 - Advertised size, encoder, decoder and client dispatch agree for every identifier.
   DataSize, SetUint16, the dispatch switch of Client.MeasurementData, every encoder's NewMTData2Package size and
   every decoder's binary.Read destination are REGENERATED from source on each run (Gen/Funcs.v, Gen/Layouts.v);
   spec_layouts is the protocol's layout table. *)
From Coq Require Import ZArith List String Bool.
Require Import Base.GoInt Base.Sweep Spec.LayoutKinds Spec.LayoutSpec Gen.Funcs Gen.Layouts Spec.LayoutCheck Tie.LayoutsAgree Proofs.SizeProofs.
Open Scope Z_scope.

(* forall 65536 wire identifiers (complete sweep in the kernel): for a supported type the advertised size equals the
   encoder's declared size, the size of the value the decoder reads with binary.Read (= the minimum it accepts:
   binary.Read fails exactly on shorter input) and the protocol's size; otherwise it is 0 *)
Theorem C12_sizes_agree : forall v, 0 <= v < 65536 ->
  let '(t, c, p) := f_DataIdentifier_SetUint16 0 0 0 v in
  let ds := f_DataIdentifier_DataSize t c p in
  match lookup_dispatch t dispatch_table with
  | Some (_, ty) => exists es l sh, enc_size_of ty p = Some es /\ dec_layout_of ty p = Some l /\ lookup_shape t spec_layouts = Some sh /\
                    ds = es /\ ds = layout_size l /\ ds = spec_size sh p /\ ds <> 0
  | None => ds = 0
  end.
Proof. exact sizes_agree. Qed.
Print Assumptions C12_sizes_agree.

Theorem C12_nonzero_iff_dispatch : forall v, 0 <= v < 65536 ->
  let '(t, c, p) := f_DataIdentifier_SetUint16 0 0 0 v in
  (f_DataIdentifier_DataSize t c p <> 0 <-> lookup_dispatch t dispatch_table <> None).
Proof. exact nonzero_iff_dispatch. Qed.
Print Assumptions C12_nonzero_iff_dispatch.

Theorem C12_decoders_match_protocol_layouts : dec_matches_spec = true.
Proof. exact dec_matches_spec_ok. Qed.
Theorem C12_encoders_match_decoders : enc_matches_dec = true.
Proof. exact enc_matches_dec_ok. Qed.
Print Assumptions C12_encoders_match_decoders.

Example C12_example :
  f_DataIdentifier_DataSize 0x5040 0 2 = 12 /\ f_DataIdentifier_DataSize 0x7010 0 0 = 94 /\
  f_DataIdentifier_DataSize 0x8830 0 0 = 0 /\ lookup_dispatch 0x5040 dispatch_table = Some ("latLon"%string, "LatLon"%string).
Proof. repeat split. Qed.
