(* C20 - Hand-maintained lookup tables agree with each other and with the protocol tables.
   can_id_strings (the stringer's table), can_id_known (UnmarshalText's candidates), can_id_constants, CANBaudRate.ID,
   Ack and IsAck are REGENERATED from source on every run. *)
From Coq Require Import ZArith List String Bool.
Require Import Base.GoInt Gen.Funcs Gen.Tables Model.Tables Spec.ProtocolTables Proofs.TableProofs.
Open Scope Z_scope.

Theorem C20_can_id_text_roundtrip : forall v, In v named_ids -> can_id_unmarshal (can_id_name v) = Some v.
Proof. exact can_id_text_roundtrip. Qed.
Print Assumptions C20_can_id_text_roundtrip.

(* forall texts: acceptance implies the text is the name of a named identifier - everything else is rejected *)
Theorem C20_can_id_text_reject : forall text v, can_id_unmarshal text = Some v -> text = can_id_name v /\ In v named_ids.
Proof. exact can_id_text_reject. Qed.
Print Assumptions C20_can_id_text_reject.

Theorem C20_tables_agree : names_match_constants = true /\ known_are_named = true /\
  distinct_strings (map can_id_name named_ids) = true /\ List.length named_ids = 27%nat.
Proof.
  split; [exact names_match_constants_ok|]. split; [exact known_are_named_ok|]. exact names_distinct.
Qed.
Print Assumptions C20_tables_agree.

(* forall rates *)
Theorem C20_baud_table : forall c, f_CANBaudRate_ID c = match lookup_zz c spec_baud with Some v => v | None => -1 end.
Proof. exact baud_table. Qed.
Theorem C20_baud_codes_distinct : distinct_z (map snd spec_baud) = true /\ distinct_z (map fst spec_baud) = true /\ List.length spec_baud = 13%nat
  /\ forallb (fun e : Z * Z => (0 <=? snd e) && (snd e <? 128)) spec_baud = true.
Proof. exact baud_codes_distinct. Qed.
Print Assumptions C20_baud_table.

Theorem C20_ack_next : forall m, 0 <= m < 255 -> f_MessageIdentifier_Ack m = m + 1.
Proof. exact ack_next. Qed.
Theorem C20_is_ack_iff_odd : forall m, 0 <= m < 256 -> f_MessageIdentifier_IsAck m = Z.odd m.
Proof. exact is_ack_iff_odd. Qed.
Print Assumptions C20_is_ack_iff_odd.

Example C20_example :
  can_id_name 0x79 = "GnssReceiverStatus"%string /\ can_id_unmarshal "GnssReceiverStatus" = Some 0x79 /\
  can_id_name 3 = "CANDataIdentifier(3)"%string /\ can_id_unmarshal "CANDataIdentifier(3)" = None /\
  can_id_unmarshal "latlong" = None /\ f_CANBaudRate_ID 83300 = 3 /\ f_CANBaudRate_ID 83333 = -1.
Proof. repeat split. Qed.
