(* C16 - A client driving the emulator over a lossless duplex link: every command completes, the emulator reflects it
   once it has returned, and transmitted measurements arrive intact and in order.
   Model.Link: the client (send / receiveUntil, identifiers from the GENERATED command table) and the emulator's
   receive loop (Model.Emulator.estep, split into "update state" and "write acknowledge" in the order the GENERATED
   skeleton of Receive shows) as separately scheduled steps over two FIFO channels.  A schedule is any list of
   choices; the theorems quantify over all of them, over all command sequences and all configurations.
   The channels carry frames; theorems (7) below discharge that abstraction with C01: the bytes either side writes,
   cut into reads in ANY way, are scanned by the other side's bufio.Scanner model into exactly those frames.
   That the client's command loop is the frame-level loop used here is C08 (client_refines_spec). *)
From Coq Require Import ZArith NArith List Bool String.
Require Import Base.Bytes Model.Frame Model.Config Model.Conc Model.Emulator Model.Link Spec.ConfigSpec Spec.Order
  Gen.EmuSkeleton Gen.Funcs Gen.Layouts Model.Codec Model.Client Model.DataPath
  Lib.Bufio Spec.Terminal Proofs.ScanThm2
  Proofs.LinkProofs Proofs.OrderProofs Proofs.CodecProofs Proofs.DataPathProofs Proofs.LinkBytes Tie.TranslationOk.
Import ListNotations.
Open Scope Z_scope.

(* commands considered: any sequence; a configuration of up to 512 settings whose fields are in range *)
Definition commands_ok (cmds : list lcmd) : Prop := Forall cmd_ok cmds.

(* (1) under EVERY schedule the commands complete: each enabled step of the command phase uses up exactly one of
   4 * |cmds| units, some step is always enabled while a command is outstanding, no client call ever fails *)
Theorem C16_every_schedule_completes : forall cmds sch s, commands_ok cmds ->
  lrun (link_init cmds) sch = Some s -> (length sch <= 4 * length cmds)%nat ->
  mu s = (4 * length cmds - length sch)%nat /\ lfail s = false /\
  (data_phase s = false -> exists ch, (ch = ChClient \/ ch = ChEmuRecv \/ ch = ChEmuAck) /\ lstep s ch <> None) /\
  (mu s = 0%nat -> ldone s = cmds /\ emode (lemu s) = mode_after cmds /\ econf (lemu s) = conf_after [] cmds).
Proof.
  intros cmds sch s Hok Hr Hl.
  pose proof (inv_run cmds sch _ _ Hok (inv_init cmds) Hr) as Hi.
  pose proof (schedule_progress cmds Hok sch _ _ (inv_init cmds) Hr) as Hm. rewrite mu_init in Hm.
  split; [apply Hm; exact Hl|]. split; [exact (proj1 Hi)|]. split; [exact (progress cmds s Hi)|].
  intros Hz. apply (mu_zero_iff cmds s Hi) in Hz. destruct (completed_state cmds s Hi Hz) as (_ & H1 & H2 & H3). auto.
Qed.
Print Assumptions C16_every_schedule_completes.

(* (2) once a command has returned (the client is between commands) the emulator reflects exactly the commands that
   have returned: mode register and configuration, under every schedule, at every such point *)
Theorem C16_reflected_once_returned : forall cmds sch s, commands_ok cmds ->
  lrun (link_init cmds) sch = Some s -> lwait s = None ->
  lfail s = false /\ (exists rest, cmds = ldone s ++ rest) /\
  emode (lemu s) = mode_after (ldone s) /\ econf (lemu s) = conf_after [] (ldone s).
Proof. exact reflected_on_return. Qed.
Print Assumptions C16_reflected_once_returned.

(* (3) encoding uses exactly the identifiers of the configuration: a type is refused iff no setting has it; an accepted
   type is encoded with the identifier of a setting of that type - the only one when each type occurs once *)
Theorem C16_refuses_iff_absent : forall e dt, marshal_id e dt = None <-> (forall s, In s (econf e) -> stype s <> dt).
Proof. exact marshal_refuses_iff_absent. Qed.
Theorem C16_encodes_with_configured_identifier : forall e s, NoDup (map stype (econf e)) -> In s (econf e) ->
  marshal_id e (stype s) = Some (sid s).
Proof. exact marshal_unique_setting. Qed.
Print Assumptions C16_encodes_with_configured_identifier.

(* (4) the data path: what Transmit wrote is what the client has received followed by what is still in flight - in
   order, nothing lost, duplicated or merged; every frame passes validation; Transmit writes iff the last command
   was go-to-measurement *)
Theorem C16_data_in_order : forall cmds sch s, commands_ok cmds ->
  lrun (link_init cmds) sch = Some s -> data_phase s = true ->
  lrecv s ++ le2c s = ltx s /\ Forall (fun f => validate f = VOk) (ltx s) /\ lfail s = false.
Proof. exact data_in_order. Qed.
Theorem C16_transmit_iff_measuring : forall cmds s m s', Inv cmds s -> lstep s (ChTx m) = Some s' ->
  ltx s' = ltx s ++ (if (mode_after (ldone s) =? mid_meas) && (match validate m with VOk => true | _ => false end) then [m] else []).
Proof. exact transmit_in_data_phase. Qed.
Print Assumptions C16_data_in_order.

(* (5) the order the model's receive loop relies on, checked on the skeleton REGENERATED from emulator.go: in every
   iteration of Receive, on every path, no write to the mode register or the configuration follows a port write *)
Theorem C16_state_before_acknowledge :
  exists body, m_Receive = Loop body /\ forall l r, path body l r -> no_wr_after false l = true.
Proof. apply receive_order_sound. vm_compute. reflexivity. Qed.
Print Assumptions C16_state_before_acknowledge.

(* (6) the value: a measurement of a configured type (Go type = the one the data type dispatches to, one field value per
   layout field), marshalled by the emulator and sent as an MTData2 message, is reported by the client's Receive /
   ScanMeasurementData / typed getter as exactly one packet of that Go type whose fields are the value at the
   precision of that type's setting; values representable at the precision arrive unchanged.  The finite part
   (generated dispatch table x coordinate systems x precisions: identifier bytes lead back to the same type and
   precision, declared size = layout size < 256) is recomputed from the generated tables on every run. *)
Theorem C16_configured_measurement_arrives : forall e s slot ty l vs,
  NoDup (map stype (econf e)) -> In s (econf e) ->
  let '(dt, c, p, _) := s in
  lookup_z dt dispatch_table = Some (slot, ty) -> In c [0; 4; 8; 12] -> In p [0; 1; 2; 3] ->
  dec_layout_of ty p = Some l -> length vs = length l ->
  exists pkt, marshal_message e ty dt vs = Some pkt /\
              client_values (data_frame pkt) = [option_map (fun q => (ty, q)) (at_precision ty p vs)] /\
              at_precision ty p vs <> None /\ (length pkt <= 258)%nat.
Proof. exact configured_measurement_arrives. Qed.
Theorem C16_representable_values_unchanged : forall ty p l vs, dec_layout_of ty p = Some l ->
  Forall2 (fun f v => field_value_ok (snd f) v) l vs -> at_precision ty p vs = Some vs.
Proof. exact representable_values_arrive_unchanged. Qed.
Print Assumptions C16_configured_measurement_arrives.

(* (7) byte level (composition with C01): what Transmit wrote / all requests / all acknowledges, as one byte stream
   fragmented into reads of any sizes (empty reads included), with any terminal error, scan into exactly the frames
   the model's channels carry *)
Theorem C16_transmitted_bytes_scan_to_frames : forall cmds sch s rsch fin ewd,
  commands_ok cmds -> sched_bytes_ok sch -> lrun (link_init cmds) sch = Some s -> data_phase s = true -> sched_ok rsch ->
  run (2 * length (concat (ltx s)) + length rsch + 3) init_scanner (mk (concat (ltx s)) rsch fin ewd) [] = Some (ltx s, fin).
Proof. exact transmitted_bytes_scan_to_frames. Qed.
Theorem C16_request_bytes_scan_to_frames : forall cmds rsch fin ewd, commands_ok cmds -> sched_ok rsch ->
  let fs := map cmd_frame cmds in
  run (2 * length (concat fs) + length rsch + 3) init_scanner (mk (concat fs) rsch fin ewd) [] = Some (fs, fin).
Proof. exact request_bytes_scan_to_frames. Qed.
Theorem C16_acknowledge_bytes_scan_to_frames : forall cmds rsch fin ewd, sched_ok rsch ->
  let fs := map ack_frame cmds in
  run (2 * length (concat fs) + length rsch + 3) init_scanner (mk (concat fs) rsch fin ewd) [] = Some (fs, fin).
Proof. exact acknowledge_bytes_scan_to_frames. Qed.
Print Assumptions C16_transmitted_bytes_scan_to_frames.

(* (8) everything together: after ANY schedule of ANY command sequence that ends in go-to-measurement, a measurement
   of a configured type handed to MarshalMessage and Transmit is written as exactly one frame behind what is in
   flight, and that frame is what the client decodes to the value at the configured precision *)
Theorem C16_end_to_end : forall cmds sch s st slot ty l vs,
  commands_ok cmds -> lrun (link_init cmds) sch = Some s -> data_phase s = true -> mode_after cmds = mid_meas ->
  NoDup (map stype (conf_after [] cmds)) -> In st (conf_after [] cmds) ->
  let '(dt, c, p, _) := st in
  lookup_z dt dispatch_table = Some (slot, ty) -> In c [0; 4; 8; 12] -> In p [0; 1; 2; 3] ->
  dec_layout_of ty p = Some l -> length vs = length l ->
  exists pkt s1, marshal_message (lemu s) ty dt vs = Some pkt /\
                 lstep s (ChTx (data_frame pkt)) = Some s1 /\ ltx s1 = ltx s ++ [data_frame pkt] /\
                 le2c s1 = le2c s ++ [data_frame pkt] /\
                 client_values (data_frame pkt) = [option_map (fun q => (ty, q)) (at_precision ty p vs)] /\
                 at_precision ty p vs <> None.
Proof. exact end_to_end. Qed.
Print Assumptions C16_end_to_end.

(* non-vacuity of (6)/(8): a LatLon at FP16.32 in a two-setting configuration, value (1.5, -2.25): arrives unchanged *)
Example C16_example_value :
  let e := {| emode := mid_meas; econf := [(0x2010, 0, 3, 100); (0x5040, 0, 2, 100)]; ealive := true; eport := [] |} in
  let vs := [0x3FF8000000000000; 0xC002000000000000] in
  match marshal_message e "LatLon" 0x5040 vs with
  | Some pkt => client_values (data_frame pkt) = [Some ("LatLon"%string, vs)]
  | None => False
  end.
Proof. vm_compute. reflexivity. Qed.

(* non-vacuity: a concrete sequence with a shrinking reconfiguration under a non-canonical schedule *)
Example C16_example :
  let cfg1 := [(0x8020, 0, 3, 100); (0x4020, 0, 1, 100)] in
  let cfg2 := [(0x4020, 4, 2, 50)] in
  let cmds := [LGoConfig; LSetConf cfg1; LSetConf cfg2; LGoMeas] in
  commands_ok cmds /\
  match lrun (link_init cmds) (sched_cmds 4) with
  | Some s => data_phase s = true /\ econf (lemu s) = cfg2 /\ marshal_id (lemu s) 0x8020 = None /\
              marshal_id (lemu s) 0x4020 = Some 0x4026
  | None => False
  end.
Proof.
  split.
  - repeat constructor; vm_compute; try reflexivity; intros; discriminate.
  - vm_compute. repeat split; reflexivity.
Qed.

(* (9) The emulator side of the link model IS the code: one iteration of Emulator.Receive as REGENERATED statement by
   statement from emulator.go on this run (Gen/EmuFns.v) takes Model.Emulator.estep's step on every token the scanner
   delivers - same mode register, same configuration (the generated in-place Unmarshal), exactly the model's acknowledge
   appended to the port's output - or ends the loop with an error and the state untouched. *)
Require Import Base.GoBytes Gen.EmuFns Tie.EmuAgree.
Theorem C16_emulator_step_model_is_the_source : forall st f, wf_bytes f -> conf_ok st ->
  exists r, g_Emulator_Receive_step false true f None None st = Val r /\
    match r with
    | inl st' => estep (absE st true) (ERecv f) = (OWrote (skipn (length (snd st)) (snd st')), absE st' true) /\ conf_ok st'
    | inr (e, st') => e <> None /\ estep (absE st true) (ERecv f) = (OWrote [], absE st' false) /\ st' = st
    end.
Proof. exact emu_receive_step_agrees. Qed.
Print Assumptions C16_emulator_step_model_is_the_source.

(* (10) and MarshalMessage as regenerated from emulator.go: it hands the encoder the identifier of the LAST configured
   setting of the requested data type, unchanged, or refuses with "not in output configuration" when there is none; the
   state is untouched.  (The model's EMarshal observation is that identifier's wire form.) *)
Theorem C16_marshal_model_is_the_source : forall md dt st a, conf_ok st ->
  g_Emulator_MarshalMessage md dt st = Val (marshal_result md (last_match dt (econf (absE st a))), st) /\
  estep (absE st a) (EMarshal dt) =
    (OMar (option_map (fun id => let '(t, c, p) := id in f_DataIdentifier_Uint16 t c p) (last_match dt (econf (absE st a)))), absE st a).
Proof. exact emu_marshal_agrees. Qed.
Print Assumptions C16_marshal_model_is_the_source.
