(* C02 - A frame is accepted exactly when well-formed; corruption is never accepted.
   validate/render/accessors are the Gallina model of message.go (Model/Frame.v, tied to the code by the
   exhaustive + differential correspondence of ./check C02); wf_frame is the independent reference (Spec/FrameSpec.v). *)
Require Import Base.Bytes Model.Frame Spec.FrameSpec Proofs.FrameProofs.
Open Scope N_scope.

Theorem C02_validate_iff_wf : forall m : bytes, validate m = VOk <-> wf_frame m.
Proof. exact validate_iff_wf. Qed.
Print Assumptions C02_validate_iff_wf.

(* validation never indexes outside the byte string, whatever its length and content *)
Theorem C02_validate_never_out_of_bounds : forall m : bytes, validate m <> VOOB.
Proof. exact validate_never_oob. Qed.
Print Assumptions C02_validate_never_out_of_bounds.

(* changing any single byte of a well-formed frame (any position, any of the 255 non-zero deltas) *)
Theorem C02_single_byte_corruption_rejected : forall f i d,
  wf_frame f -> (i < length f)%nat -> 1 <= d < 256 ->
  validate (upd f i ((nth i f 0 + d) mod 256)) <> VOk.
Proof. exact single_byte_corruption_rejected. Qed.
Print Assumptions C02_single_byte_corruption_rejected.

(* every accessor of an accepted frame stays inside its bytes; the payload has exactly the declared length *)
Theorem C02_accessors_in_bounds : forall m, validate m = VOk ->
  identifier m = Some (nthb m 2) /\
  is_extended m = Some (nthb m 3 =? 255) /\
  msg_length m = Some (decl_len m) /\
  msg_data m = Some (sub m (hdr_len m) (N.to_nat (decl_len m))) /\
  length (sub m (hdr_len m) (N.to_nat (decl_len m))) = N.to_nat (decl_len m) /\
  sub m (hdr_len m) (N.to_nat (decl_len m)) = payload_of m /\
  is_error m = Some ((nthb m 2 =? mid_error) && negb (nthb m 3 =? 255) && (decl_len m =? 1)) /\
  error_code m = Some (if (nthb m 2 =? mid_error) && negb (nthb m 3 =? 255) && (decl_len m =? 1) then nthb m 4 else 0).
Proof. exact accessors_in_bounds. Qed.
Print Assumptions C02_accessors_in_bounds.

Theorem C02_frame_is_header_payload_checksum : forall m, wf_frame m ->
  length m = (hdr_len m + N.to_nat (decl_len m) + 1)%nat.
Proof. exact wf_frame_len. Qed.
Print Assumptions C02_frame_is_header_payload_checksum.

(* textual rendering never panics, on any byte string *)
Theorem C02_render_total : forall m : bytes, render m <> None.
Proof. exact render_total. Qed.
Print Assumptions C02_render_total.

Theorem C02_oracle_is_spec : forall m, wf_frameb m = true <-> wf_frame m.
Proof. exact wf_frameb_spec. Qed.
Print Assumptions C02_oracle_is_spec.

(* non-vacuity: a standard and an extended well-formed frame; the F1 witnesses are rejected *)
Example C02_example_standard : wf_frame [250; 255; 48; 0; 209] /\ validate [250; 255; 66; 1; 4; 186] = VOk.
Proof. split; [apply wf_frameb_spec|]; vm_compute; reflexivity. Qed.
Example C02_example_extended :
  validate (new_message 54 (repeat 7 300)) = VOk /\ length (new_message 54 (repeat 7 300)) = 307%nat.
Proof. split; vm_compute; reflexivity. Qed.
Example C02_example_F1_witnesses :
  validate [250; 255; 0; 255; 2] = VErr VTooFewExt /\ validate [250; 255; 0; 5; 252] = VErr VSize /\
  validate [250; 255; 0; 0; 1; 0] = VErr VSize.
Proof. repeat split. Qed.

(* the client clause: under every fragmentation the client behaves as the abstract client (C03_client_refines_spec),
   and the abstract client reports success only for a well-formed frame and exposes measurement packets only then *)
Require Import Lib.Bufio Spec.StreamSpec Model.Client Spec.ClientSpec Spec.ClientOps Proofs.ScanThm2 Proofs.ClientProofs Proofs.SpecClientProofs.

Theorem C02_client_refines_spec : forall stream sch fin ewd wplan ops,
  sched_ok sch -> (ewd = false \/ snd (segT stream) = SEnd) ->
  Forall2 agrees (m_run (new_client (mk stream sch fin ewd) wplan) ops) (s_run (snew stream fin wplan) ops).
Proof. exact client_refines_spec. Qed.
Print Assumptions C02_client_refines_spec.

Theorem C02_client_exposes_only_wf : forall sc,
  let '(r, sc') := sreceive sc in
  (r = ROk -> exists t, scur sc' = Some t /\ wf_frameb t = true) /\
  (spkts sc' <> [] -> r = ROk).
Proof. exact only_wf_exposed. Qed.
Print Assumptions C02_client_exposes_only_wf.

(* The model IS the code: Message.Validate, Checksum and the accessors as REGENERATED statement by statement from
   message.go on this run (Gen/Bytes.v; every index and slice a possible panic) agree with the model above on every
   byte string - so the theorems of this file are about what the source says now, not about sampled behaviour. *)
Require Import Base.GoBytes Gen.Bytes Tie.BytesAgree.
Theorem C02_validate_model_is_the_source : forall m, g_verdict (g_Message_Validate m) = h_verdict (validate m).
Proof. exact validate_agrees. Qed.
Theorem C02_checksum_model_is_the_source : forall m, g_Message_Checksum m = Val (Z.of_N (checksum m)).
Proof. exact checksum_agrees. Qed.
Theorem C02_accessor_models_are_the_source : forall m, wf_bytes m ->
  g_Message_Identifier m = match identifier m with Some b => Val (Z.of_N b) | None => Pan end /\
  g_Message_IsExtended m = match is_extended m with Some b => Val b | None => Pan end /\
  g_Message_Length m = match msg_length m with Some L => Val (Z.of_N L) | None => Pan end /\
  ((forall L, msg_length m = Some L -> (L <= 65529)%N) ->
   g_Message_Data m = match msg_data m with Some d => Val d | None => Pan end).
Proof.
  intros m Hw. repeat split; [apply identifier_agrees|apply is_extended_total|apply length_agrees|apply data_agrees]; assumption.
Qed.
Print Assumptions C02_validate_model_is_the_source.
