(* C03 - Client reports each packet of a measurement message faithfully, never stale data.
   Two layers: (1) client_refines_spec - on every stream, read schedule, error convention and operation sequence the
   model client (client.go rendered statement by statement over the bufio.Scanner model) returns what the abstract
   client returns; (2) properties of the abstract client.  Values: the slot the client hands out holds the decoding
   of the reported packet by the type's decoder (checked by the correspondence, decoders themselves: C04). *)
From Coq Require Import String.
Require Import Base.Bytes Model.Frame Model.Packet Model.Split Lib.Bufio Spec.FrameSpec Spec.StreamSpec Spec.Terminal
  Gen.Funcs Model.Client Spec.ClientSpec Spec.ClientOps
  Proofs.ScanThm2 Proofs.PacketProofs Proofs.ClientProofs Proofs.SpecClientProofs.
Open Scope nat_scope.

Theorem C03_client_refines_spec : forall stream sch fin ewd wplan ops,
  sched_ok sch -> (ewd = false \/ snd (segT stream) = SEnd) ->
  Forall2 agrees (m_run (new_client (mk stream sch fin ewd) wplan) ops) (s_run (snew stream fin wplan) ops).
Proof. exact client_refines_spec. Qed.
Print Assumptions C03_client_refines_spec.

(* each packet exactly once, in wire order, with its raw bytes; true exactly for supported, complete packets;
   then false for ever *)
Theorem C03_scan_reports_packets : forall stream fin wplan t rest ps n,
  fst (segT stream) = t :: rest -> wf_frameb t = true -> nthb t 2 = 54%N ->
  payload_of t = concat ps -> Forall wf_packet ps ->
  let sc := snd (sreceive (snew stream fin wplan)) in
  fst (scans n sc) = map (fun p => (supported p, Some p)) (firstn n ps) ++
                     repeat (false, match rev (firstn n ps) with p :: _ => Some p | [] => None end) (n - length ps).
Proof. exact scan_reports_packets. Qed.
Print Assumptions C03_scan_reports_packets.

Theorem C03_scan_terminates : forall payload, 3 * length (packets_of payload) <= length payload.
Proof. exact scan_steps_bounded. Qed.
Print Assumptions C03_scan_terminates.

(* after any later receive - measurement message, other message, rejected frame, terminal error - no packet of an
   earlier message is current, and whatever is scanned afterwards belongs to the frame just delivered *)
Theorem C03_no_stale_packet : forall sc,
  let sc' := snd (sreceive sc) in
  scurpkt sc' = None /\
  (spkts sc' = [] \/ exists t, scur sc' = Some t /\ wf_frameb t = true /\ nthb t 2 = 54%N /\ spkts sc' = packets_of (payload_of t)).
Proof. exact no_stale_packet. Qed.
Print Assumptions C03_no_stale_packet.

(* non-vacuity: two measurement messages, the first scanned half way, then a rejected frame *)
Example C03_example :
  let m1 := new_message 54%N [16; 32; 2; 0; 7;  224; 16; 1; 9]%N in     (* PacketCounter 7, StatusByte 9 *)
  let m2 := new_message 54%N [16; 96; 4; 0; 0; 1; 0]%N in               (* SampleTimeFine 256 *)
  let bad := [250; 255; 54; 1; 0; 0]%N in
  m_run (new_client (mk (m1 ++ bad ++ m2) [3; 0; 1; 1; 50] TEnd false) [])
        [OReceive; OScan; ORawPkt; OReceive; OScan; OReceive; OScan; ORawPkt; OScan; OReceive]
  = [BRecvOk; BBool true; BBytes (Some [16; 32; 2; 0; 7]%N); BRecvRej true; BBool false;
     BRecvOk; BBool true; BBytes (Some [16; 96; 4; 0; 0; 1; 0]%N); BBool false; BRecvTerm TEnd].
Proof. vm_compute. reflexivity. Qed.

(* The model IS the code, for the stateful core of the client: Client.Receive and Client.ScanMeasurementData as
   REGENERATED statement by statement from client.go on this run (Gen/ClientFns.v) agree with the model's receive and
   scan_md - the state resets, validation before the payload is latched, the error returned with its cause, the packet
   cursor, the dispatch / decode decisions.  The bufio.Scanner step is the model's (C01); dispatch and the decoders'
   minimum sizes are the generated tables (C12). *)
Require Import Base.GoBytes Gen.ClientFns Lib.Bufio Tie.ClientAgree.
Theorem C03_receive_model_is_the_source : forall c ok s' r',
  scan (scan_fuel c) (csc c) (crd c) = SR ok s' r' ->
  (ok = true -> exists t, tok s' = Some t /\ wf_bytes t) ->
  rmap (fun '(e, st) => (recv_of e, st)) (g_Client_Receive ok (optb (tok s')) (err_code (sc_err s')) (abs c))
  = Val (fst (receive c), abs (snd (receive c))).
Proof. exact receive_agrees. Qed.
Theorem C03_scan_model_is_the_source : forall c, (forall m, cmsg c = Some m -> wf_bytes m) ->
  let g := g_Client_ScanMeasurementData md_nil md_dec (abs c) in
  match fst (scan_md c) with
  | Panic => g = Pan
  | r => g = Val (match r with Ok b => b | _ => false end, abs (snd (scan_md c)))
  end.
Proof. exact scan_md_agrees. Qed.
Print Assumptions C03_receive_model_is_the_source.
