(* C01 - Frame reassembly is lossless, ordered and independent of read fragmentation.
   scan_messages = Gallina model of ScanMessages (scanmessages.go); run/scan/read_loop = statement-level model
   of bufio.Scanner.Scan (Go 1.23.5) over a chunking reader; segT = reference segmentation of the whole stream
   in one unbounded buffer, with the scanner's 64 KiB token limit. *)
Require Import Base.Bytes Model.Frame Model.Split Lib.Bufio Spec.FrameSpec Spec.StreamSpec Spec.Terminal Spec.FramedSpec
  Proofs.ScanThm2 Proofs.ScanThm3 Proofs.ScanThm4 Proofs.FramedStream Proofs.FrameProofs.
Open Scope nat_scope.

(* first clause: a stream of well-formed frames (any identifier, standard or extended, payload bytes arbitrary -
   FA, FF and FA FF included) separated by noise without the pair FA FF (noise may end in FA) segments into
   exactly those frames, in order, each once *)
Theorem C01_segments_of_framed_stream : forall fs ns, length ns = S (length fs) ->
  Forall (fun f => wf_bytes f /\ wf_frame f) fs -> Forall (fun n => find_hdr n = None) ns ->
  segT (interleave ns fs) = (fs, SEnd).
Proof. exact segments_of_framed_stream. Qed.
Print Assumptions C01_segments_of_framed_stream.

(* second clause: for every byte stream whatsoever, every partition into reads of size >= 0 (at most 100
   empty reads in a row), every terminal error, delivered by its own read or together with the last data
   (the latter when the reference segmentation does not end in TooLong - see C10/K1), the scanner delivers
   exactly the reference segmentation followed by the terminal error: a function of the bytes alone *)
Theorem C01_scan_fragmentation_independent : forall stream sch fin ewd,
  sched_ok sch -> (ewd = false \/ snd (segT stream) = SEnd) ->
  run (2 * length stream + length sch + 3) init_scanner (mk stream sch fin ewd) []
  = Some (fst (segT stream), tterm (snd (segT stream)) fin).
Proof. exact scan_fragmentation_independent. Qed.
Print Assumptions C01_scan_fragmentation_independent.

Theorem C01_two_schedules_agree : forall stream sch1 sch2 fin ewd1 ewd2, sched_ok sch1 -> sched_ok sch2 ->
  (ewd1 = false \/ snd (segT stream) = SEnd) -> (ewd2 = false \/ snd (segT stream) = SEnd) ->
  run (2 * length stream + length sch1 + 3) init_scanner (mk stream sch1 fin ewd1) []
  = run (2 * length stream + length sch2 + 3) init_scanner (mk stream sch2 fin ewd2) [].
Proof. exact two_schedules_agree. Qed.
Print Assumptions C01_two_schedules_agree.

(* both clauses together: framed streams are delivered exactly, under every fragmentation *)
Theorem C01_framed_stream_delivered : forall fs ns sch fin ewd, length ns = S (length fs) ->
  Forall (fun f => wf_bytes f /\ wf_frame f) fs -> Forall (fun n => find_hdr n = None) ns -> sched_ok sch ->
  run (2 * length (interleave ns fs) + length sch + 3) init_scanner (mk (interleave ns fs) sch fin ewd) []
  = Some (fs, fin).
Proof.
  intros fs ns sch fin ewd Hl Hf Hn Hs.
  pose proof (segments_of_framed_stream fs ns Hl Hf Hn) as E.
  rewrite scan_fragmentation_independent; [rewrite E; reflexivity|exact Hs|right; rewrite E; reflexivity].
Qed.
Print Assumptions C01_framed_stream_delivered.

(* non-vacuity: noise ending in FA, a standard frame whose payload contains FA FF, an extended frame,
   read one byte at a time with empty reads in between *)
Example C01_example :
  let f1 := new_message 54%N [250; 255; 1]%N in
  let f2 := new_message 16%N (repeat 250%N 300) in
  let stream := interleave [[1; 250]%N; [250]%N; []] [f1; f2] in
  segT stream = ([f1; f2], SEnd) /\
  run 2000 init_scanner (mk stream [1; 0; 0; 1; 2; 0; 1; 1; 1; 1; 1; 1; 3; 0; 500] (TPort 7) false) [] = Some ([f1; f2], TPort 7).
Proof. split; vm_compute; reflexivity. Qed.

(* The model IS the code: the split function ScanMessages as REGENERATED statement by statement from scanmessages.go
   on this run agrees with scan_messages on every buffer bufio.Scanner can hand it (a non-empty one, or the empty
   one at end of input; Go panics on an empty buffer before end of input and bufio never calls it so) *)
Require Import Base.GoBytes Gen.Bytes Tie.BytesAgree.
Theorem C01_split_function_model_is_the_source : forall d eof, d <> nil \/ eof = true ->
  g_scan (g_ScanMessages d eof) = Some (scan_messages d eof).
Proof. exact scan_agrees. Qed.
Print Assumptions C01_split_function_model_is_the_source.

(* ---- the serial port over UDP, the transport of an emulator and its client (xsensemulator/udpserialport.go) ----
   Whatever one port writes, the port facing it reads whole, unchanged and in order - every size, every configured
   timeout, however much time passes in between (Model/UdpPort.v on a first-in first-out loop-back network). *)
Require Import Base.GoBytes Model.UdpPort Proofs.UdpPortProofs Gen.UdpFns Tie.UdpAgree.
Theorem C01_udp_port_delivers_every_slice_unchanged : forall t0 t1 side buflen ps,
  Forall (fun p => (length p <= buflen)%nat) ps ->
  urun t0 t1 unet0 (writes side ps ++ reads (negb side) buflen (length ps)) =
  map (fun p => UWrote (Z.of_nat (length p)) None) ps ++ map (fun p => UGot p None) ps.
Proof. exact udp_delivers. Qed.
Print Assumptions C01_udp_port_delivers_every_slice_unchanged.

(* and that model is udpserialport.go as regenerated on this run: Write and Read hand the caller's slice as it is to the
   connection and return its results as they are, after a fresh deadline for that direction only when a timeout was
   configured; a port created without options has none; the port listens on its origin and sends to its destination. *)
Theorem C01_udp_port_model_is_the_source :
  (forall t dl cw p, g_UDPSerialPort_Write t dl cw p = Val (udp_write t dl cw p)) /\
  (forall t dl cr p, g_UDPSerialPort_Read t dl cr p = Val (udp_read t dl cr p)) /\
  (forall c, g_UDPSerialPort_Close c = Val c) /\
  g_defaultOptions = 0%Z /\
  (forall t old, g_WithTimeout t old = t) /\
  (forall rs ls o a b, g_NewUDPSerialPort rs ls o a b = Val (udp_new rs ls o a b)).
Proof. exact udp_port_agrees. Qed.
Print Assumptions C01_udp_port_model_is_the_source.
