(* C09 - Arbitrary device bytes never panic or hang the client. *)
From Coq Require Import String.
Require Import Base.Bytes Model.Frame Model.Packet Model.Split Lib.Bufio Spec.FrameSpec Spec.StreamSpec Spec.Terminal
  Gen.Funcs Model.Client Model.Config Spec.ClientSpec Spec.ClientOps
  Proofs.ScanThm2 Proofs.FrameProofs Proofs.PacketProofs Proofs.ConfigProofs Proofs.ClientProofs Proofs.SpecClientProofs.
Open Scope nat_scope.

(* for every byte stream and every fragmentation: wherever the abstract client defines an observation (i.e. the
   calls respect the API protocol: frame accessors after a delivered frame, packet accessors after a scan step
   that reached a packet), the model client returns exactly that value - in particular never a panic, and
   (the model functions being total, with explicit fuel) every call returns *)
Theorem C09_documented_loop_total : forall stream sch fin ewd wplan ops,
  sched_ok sch -> (ewd = false \/ snd (segT stream) = SEnd) ->
  Forall2 (fun mo so => match so with Some w => mo = w /\ w <> BPanic | None => True end)
          (m_run (new_client (mk stream sch fin ewd) wplan) ops) (s_run (snew stream fin wplan) ops).
Proof.
  intros stream sch fin ewd wplan ops Hok Hc.
  pose proof (client_refines_spec stream sch fin ewd wplan ops Hok Hc) as H.
  pose proof (s_run_no_panic ops) as Hs.
  specialize (Hs (snew stream fin wplan)).
  revert Hs. induction H as [|mo so ml sl Ha Hr IH]; intros Hs; [constructor|].
  inversion Hs as [|? ? Hp Hs']; subst. constructor; [|apply IH; exact Hs'].
  destruct so as [w|]; [|exact I]. cbn in Ha. subst w. split; [reflexivity|]. intros E. apply Hp. rewrite E. reflexivity.
Qed.
Print Assumptions C09_documented_loop_total.

(* one receive per 5 stream bytes delivers every frame; two more see the terminal error *)
Theorem C09_receive_bound : forall stream fin wplan, 5 * length (ssegs (snew stream fin wplan)) <= length stream.
Proof. exact loop_bounds. Qed.
Print Assumptions C09_receive_bound.

Theorem C09_scan_bound : forall payload, 3 * length (packets_of payload) <= length payload.
Proof. exact scan_steps_bounded. Qed.
Print Assumptions C09_scan_bound.

(* the exported decoders are total on arbitrary payloads *)
Theorem C09_validate_total : forall m : bytes, validate m <> VOOB.
Proof. exact validate_never_oob. Qed.
Theorem C09_packet_at_total : forall m i, packet_at m i <> OOB /\ packet_at m i <> Panic /\ packet_at m i <> OutOfFuel.
Proof. exact packet_at_total. Qed.
Theorem C09_can_config_total : forall d, can_unmarshal d <> OOB /\ can_unmarshal d <> Panic /\
  ((length d < 4)%nat -> can_unmarshal d = Err 1%N).
Proof. exact can_unmarshal_total. Qed.
Theorem C09_device_id_total : forall d, deviceid_unmarshal d <> OOB /\ deviceid_unmarshal d <> Panic.
Proof. intros d. destruct (deviceid_spec d) as (A & B & _). split; assumption. Qed.
Theorem C09_hw_version_total : forall d, hwversion_unmarshal d <> OOB /\ hwversion_unmarshal d <> Panic.
Proof. intros d. destruct (hwversion_spec d) as (A & B & _). split; assumption. Qed.
Print Assumptions C09_can_config_total.

Example C09_example :
  m_run (new_client (mk [250; 255; 54; 255; 0; 1; 250; 250; 250; 255; 0; 0; 1]%N [1; 1; 0; 9] (TPort 3) true) [])
        [OReceive; ORawMsg; OReceive; OMsgId; OScan; OReceive; ORawMsg]
  = [BRecvRej true; BBytes (Some [250; 255; 54; 255; 0; 1; 250; 250]%N); BRecvOk; BNum 0%Z; BBool false;
     BRecvTerm (TPort 3); BBytes None].
Proof. vm_compute. reflexivity. Qed.
