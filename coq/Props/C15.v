(* C15 - CAN configuration codecs keep reserved bits clear and round-trip in-range values. *)
Require Import Base.Bytes Model.Config Spec.ConfigSpec Proofs.ConfigProofs.
Open Scope N_scope.

Theorem C15_can_config_size_reserved : forall e b,
  length (can_marshal e b) = 4%nat /\ nthb (can_marshal e b) 0 = 0 /\ nthb (can_marshal e b) 1 = 0 /\
  nthb (can_marshal e b) 2 <= 1 /\ nthb (can_marshal e b) 3 < 128.
Proof. exact can_config_size_reserved. Qed.
Print Assumptions C15_can_config_size_reserved.

Theorem C15_can_config_roundtrip : forall e b, (0 <= b < 128)%Z -> can_unmarshal (can_marshal e b) = Ok (e, b).
Proof. exact can_config_roundtrip. Qed.
Print Assumptions C15_can_config_roundtrip.

Theorem C15_can_unmarshal_total : forall d, can_unmarshal d <> OOB /\ can_unmarshal d <> Panic /\
  ((length d < 4)%nat -> can_unmarshal d = Err 1).
Proof. exact can_unmarshal_total. Qed.
Print Assumptions C15_can_unmarshal_total.

Theorem C15_can_out_size_reserved : forall cfg,
  Forall (fun s : can_setting => let '(id, _, _, freq) := s in id < 256 /\ freq < 65536) cfg ->
  length (canout_marshal cfg) = (8 * length cfg)%nat /\
  Forall (fun s => let b := canout_marshal_one s in
                   length b = 8%nat /\ nthb b 0 < 128 /\ nthb b 1 <= 1 /\ nthb b 2 < 32 /\ nthb b 6 < 8) cfg.
Proof. exact canout_size_reserved. Qed.
Print Assumptions C15_can_out_size_reserved.

Theorem C15_can_out_decode_encode : forall cfg, Forall can_setting_ok cfg -> canout_unmarshal (canout_marshal cfg) = cfg.
Proof. exact canout_decode_encode. Qed.
Print Assumptions C15_can_out_decode_encode.

Theorem C15_can_out_encode_decode : forall d, wf_bytes d ->
  canout_marshal (canout_unmarshal d) = flat_map can_normalize (groups8 d) /\
  length (canout_unmarshal d) = (length d / 8)%nat.
Proof. exact canout_encode_decode. Qed.
Print Assumptions C15_can_out_encode_decode.

Example C15_example :
  canout_marshal [(0x71, true, 0x71, 100)] = [0x71; 1; 0; 0; 0; 0x71; 0; 100] /\
  canout_unmarshal [0xf1; 0xff; 0xff; 1; 2; 3; 0xff; 0xff; 9] = [(0x71, true, 0x1f010203, 0x7ff)] /\
  can_setting_ok (0x71, true, 0x71, 100) /\ can_marshal true 0x0c = [0; 0; 1; 12].
Proof. unfold can_setting_ok. repeat split; vm_compute; reflexivity. Qed.

(* The model IS the code (output configuration): CANOutputConfiguration.UnmarshalBinary and MarshalBinary as REGENERATED
   statement by statement from canoutputconfiguration.go on this run, WITH Go's slice aliasing (Gen/CanFns.v: the window
   w := data[i*8:(i+1)*8-1], the helpers copyBytes / extractBytes translated in place, the masks applied through the
   sub-slices) compute exactly canout_unmarshal / canout_marshal: for every payload and every destination (contents, length,
   capacity) the decoder returns no error and never panics, the visible part of the destination is the model's decoding, and the
   payload it was given is returned unchanged (nothing is written into the caller's bytes); for every configuration whose
   fields are in their Go types' ranges the encoder returns the model's bytes and leaves the configuration alone. *)
Require Import Base.GoBytes Base.GoConf Gen.CanFns Tie.CanAgree.
Theorem C15_can_out_unmarshal_model_is_the_source : forall bk n data, wf_bytes data -> (0 <= n <= Z.of_nat (length bk))%Z ->
  exists o', g_CANOutputConfiguration_UnmarshalBinary (bk, n) data = Val (None, o', data) /\
             firstn (Z.to_nat (snd o')) (fst o') = map conv (canout_unmarshal data) /\
             (0 <= snd o' <= Z.of_nat (length (fst o')))%Z.
Proof. exact can_unmarshal_agrees. Qed.
Print Assumptions C15_can_out_unmarshal_model_is_the_source.

Theorem C15_can_out_marshal_model_is_the_source : forall bk n, (n <= length bk)%nat -> Forall can_typed (firstn n bk) ->
  g_CANOutputConfiguration_MarshalBinary (bk, Z.of_nat n) =
  Val (canout_marshal (map unconv (firstn n bk)), None, (bk, Z.of_nat n)).
Proof. exact can_marshal_agrees. Qed.
Print Assumptions C15_can_out_marshal_model_is_the_source.

(* The model IS the code (bus configuration): CANConfig.MarshalBinary / UnmarshalBinary as regenerated from canconfig.go
   (Gen/StructFns.v; the receiver is a non-nil pointer) are can_marshal / can_unmarshal, for every baud-rate code of the
   int8 type and every payload. *)
Require Import Gen.StructFns Tie.StructAgree.
Theorem C15_can_config_model_is_the_source :
  (forall e b, (-128 <= b < 128)%Z -> g_CANConfig_MarshalBinary (e, b) = Val (can_marshal e b, None, (e, b))) /\
  (forall data st, wf_bytes data ->
     g_CANConfig_UnmarshalBinary data st =
     match can_unmarshal data with Ok (e, b) => Val (None, (e, b)) | Err _ => Val (Some 2%Z, st) | _ => Pan end).
Proof. split; [exact canconfig_marshal_agrees|exact canconfig_unmarshal_agrees]. Qed.
Print Assumptions C15_can_config_model_is_the_source.
