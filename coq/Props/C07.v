(* C07 - Packet extraction partitions a measurement payload without reading outside it. *)
Require Import Base.Bytes Base.Tactics Model.Packet Spec.FrameSpec Proofs.PacketProofs.
Open Scope N_scope.

Theorem C07_packet_at_spec : forall m i, (i <= length m)%nat ->
  packet_at m i <> OOB /\ packet_at m i <> Panic /\ packet_at m i <> OutOfFuel /\
  ((i + 3 <= length m)%nat /\ (i + 3 + N.to_nat (nthb m (i + 2)) <= length m)%nat ->
     packet_at m i = Ok (sub m i (3 + N.to_nat (nthb m (i + 2))))) /\
  (~ ((i + 3 <= length m)%nat /\ (i + 3 + N.to_nat (nthb m (i + 2)) <= length m)%nat) ->
     packet_at m i = Err insufficient).
Proof. exact packet_at_spec. Qed.
Print Assumptions C07_packet_at_spec.

Theorem C07_packet_at_total : forall m i,
  packet_at m i <> OOB /\ packet_at m i <> Panic /\ packet_at m i <> OutOfFuel.
Proof. exact packet_at_total. Qed.
Print Assumptions C07_packet_at_total.

Theorem C07_packet_inside_payload : forall m i p, packet_at m i = Ok p ->
  (i + length p <= length m)%nat /\ p = sub m i (length p) /\ (3 <= length p)%nat /\
  length p = (3 + N.to_nat (nthb p 2))%nat.
Proof. exact packet_at_inside. Qed.
Print Assumptions C07_packet_inside_payload.

(* walking a concatenation of packets recovers exactly those packets and ends at the payload's end *)
Theorem C07_walk_concat : forall ps, Forall wf_packet ps ->
  walk (S (length (concat ps))) (concat ps) 0 = (ps, length (concat ps)).
Proof. exact walk_concat. Qed.
Print Assumptions C07_walk_concat.

Theorem C07_walk_bound : forall fuel m i ps j, walk fuel m i = (ps, j) -> (i <= length m)%nat ->
  (i + 3 * length ps <= j)%nat /\ (j <= length m)%nat.
Proof. exact walk_bound. Qed.
Print Assumptions C07_walk_bound.

(* constructor: forall declared lengths 0..255, forall 16-bit wire identifiers *)
Theorem C07_new_packet_spec : forall len wire, len < 256 -> wire < 65536 ->
  let p := new_packet len wire in
  wf_packet p /\ pkt_wire p = Some wire /\ nthb p 2 = len /\
  pkt_data p = Some (repeat 0 (N.to_nat len)) /\ length p = (3 + N.to_nat len)%nat /\ wf_bytes p.
Proof. exact new_packet_spec. Qed.
Print Assumptions C07_new_packet_spec.

Example C07_example :
  packet_at [16; 32; 2; 7; 8; 32; 16; 0] 0 = Ok [16; 32; 2; 7; 8] /\
  packet_at [16; 32; 2; 7; 8; 32; 16; 0] 5 = Ok [32; 16; 0] /\
  packet_at [16; 32; 2; 7; 8; 32; 16; 0] 8 = Err insufficient /\
  packet_at [16; 32; 2; 7] 0 = Err insufficient /\
  wf_packet [16; 32; 2; 7; 8] /\ length (new_packet 255 8208) = 258%nat.
Proof. unfold wf_packet. repeat split; vm_compute; try reflexivity; lia. Qed.

(* The model IS the code: MTData2.PacketAt as REGENERATED statement by statement from mtdata2.go on this run agrees
   with the model on every payload and every index (slices as lists: capacity = length; the harness covers spare
   capacity) *)
Require Import Base.GoBytes Gen.Bytes Tie.BytesAgree.
Theorem C07_packet_at_model_is_the_source : forall m i, g_packet (g_MTData2_PacketAt m (Z.of_nat i)) = packet_at m i.
Proof. exact packet_at_agrees. Qed.
Print Assumptions C07_packet_at_model_is_the_source.

(* ... and the constructor: NewMTData2Package with SetLength / SetIdentifier writing through the slice, REGENERATED from
   mtdata2.go, builds exactly new_packet for every declared length 0..255 and every identifier *)
Theorem C07_new_packet_model_is_the_source : forall len t c p, (0 <= len < 256)%Z ->
  (0 <= Gen.Funcs.f_DataIdentifier_Uint16 t c p)%Z ->
  g_NewMTData2Package len (t, c, p) = Val (new_packet (Z.to_N len) (Z.to_N (Gen.Funcs.f_DataIdentifier_Uint16 t c p))).
Proof. exact new_packet_agrees. Qed.

(* ---- the serial port over UDP, the transport of an emulator and its client (xsensemulator/udpserialport.go) ----
   Whatever one port writes, the port facing it reads whole, unchanged and in order - every size, every configured
   timeout, however much time passes in between (Model/UdpPort.v on a first-in first-out loop-back network). *)
Require Import Base.GoBytes Model.UdpPort Proofs.UdpPortProofs Gen.UdpFns Tie.UdpAgree.
Theorem C07_udp_port_delivers_every_slice_unchanged : forall t0 t1 side buflen ps,
  Forall (fun p => (length p <= buflen)%nat) ps ->
  urun t0 t1 unet0 (writes side ps ++ reads (negb side) buflen (length ps)) =
  map (fun p => UWrote (Z.of_nat (length p)) None) ps ++ map (fun p => UGot p None) ps.
Proof. exact udp_delivers. Qed.
Print Assumptions C07_udp_port_delivers_every_slice_unchanged.

(* and that model is udpserialport.go as regenerated on this run: Write and Read hand the caller's slice as it is to the
   connection and return its results as they are, after a fresh deadline for that direction only when a timeout was
   configured; a port created without options has none; the port listens on its origin and sends to its destination. *)
Theorem C07_udp_port_model_is_the_source :
  (forall t dl cw p, g_UDPSerialPort_Write t dl cw p = Val (udp_write t dl cw p)) /\
  (forall t dl cr p, g_UDPSerialPort_Read t dl cr p = Val (udp_read t dl cr p)) /\
  (forall c, g_UDPSerialPort_Close c = Val c) /\
  g_defaultOptions = 0%Z /\
  (forall t old, g_WithTimeout t old = t) /\
  (forall rs ls o a b, g_NewUDPSerialPort rs ls o a b = Val (udp_new rs ls o a b)).
Proof. exact udp_port_agrees. Qed.
Print Assumptions C07_udp_port_model_is_the_source.
