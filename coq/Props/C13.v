(* C13 - Output configuration decoding is positional and independent of buffer reuse.
   outconf_unmarshal/outconf_marshal model outputconfiguration.go (destination = contents of its backing array);
   the identifier conversion inside them is the SetUint16/Uint16 regenerated from dataidentifier.go. *)
Require Import Base.Bytes Gen.Funcs Spec.IdSpec Model.Config Spec.ConfigSpec Proofs.ConfigProofs.
Open Scope N_scope.

(* one setting per complete 4-byte group, in order, trailing partial group ignored; the result does not depend
   on the destination's previous contents, length or capacity - forall payloads, forall destinations *)
Theorem C13_unmarshal_positional : forall dst payload, wf_bytes payload ->
  outconf_unmarshal dst payload = map decode_group (groups4 payload) /\
  length (outconf_unmarshal dst payload) = (length payload / 4)%nat.
Proof. exact unmarshal_positional. Qed.
Print Assumptions C13_unmarshal_positional.

Theorem C13_unmarshal_independent_of_destination : forall dst1 dst2 payload, wf_bytes payload ->
  outconf_unmarshal dst1 payload = outconf_unmarshal dst2 payload.
Proof. exact unmarshal_independent. Qed.
Print Assumptions C13_unmarshal_independent_of_destination.

(* hence any sequence of decodes into one destination: the k-th result is a function of the k-th payload only *)
Theorem C13_sequence_of_decodes : forall (payloads : list bytes) (dst0 : dest), Forall wf_bytes payloads ->
  let step := fun (st : dest * list (list setting)) p => (outconf_unmarshal (fst st) p, snd st ++ [outconf_unmarshal (fst st) p]) in
  snd (fold_left step payloads (dst0, [])) = map (fun p => map decode_group (groups4 p)) payloads.
Proof.
  intros payloads dst0 Hw step.
  assert (G : forall acc d, snd (fold_left step payloads (d, acc)) = acc ++ map (fun p => map decode_group (groups4 p)) payloads).
  { induction Hw as [|p ps Hp Hps IH]; intros acc d; [cbn; rewrite app_nil_r; reflexivity|].
    cbn [fold_left map]. unfold step at 2. cbn [fst snd]. rewrite IH.
    rewrite (proj1 (unmarshal_positional d p Hp)), <- app_assoc. reflexivity. }
  rewrite G. reflexivity.
Qed.
Print Assumptions C13_sequence_of_decodes.

(* re-encoding reproduces the payload with only the identifiers' reserved bits cleared *)
Theorem C13_unmarshal_marshal : forall dst payload, wf_bytes payload ->
  outconf_marshal (outconf_unmarshal dst payload) = flat_map clear_reserved (groups4 payload).
Proof. exact unmarshal_marshal. Qed.
Print Assumptions C13_unmarshal_marshal.

(* decode-after-encode is the identity on every configuration with in-range fields *)
Theorem C13_marshal_unmarshal : forall dst cfg, Forall setting_ok cfg ->
  outconf_unmarshal dst (outconf_marshal cfg) = cfg.
Proof. exact marshal_unmarshal. Qed.
Print Assumptions C13_marshal_unmarshal.

Example C13_example :
  outconf_unmarshal [(1, 2, 3, 4); (5, 6, 7, 8); (9, 9, 9, 9)]%Z [0x27; 0x16; 0x00; 0x64; 0x10; 0x20; 0xff; 0xff; 0x40]
  = [(0x2010, 0x4, 0x2, 100); (0x1020, 0, 0, 65535)]%Z /\
  outconf_marshal [(0x2010, 0x4, 0x2, 100)]%Z = [0x20; 0x16; 0x00; 0x64] /\ setting_ok (0x2010, 0x4, 0x2, 100)%Z.
Proof. unfold setting_ok. repeat split; vm_compute; try reflexivity; discriminate. Qed.

(* The model IS the code: OutputConfiguration.Unmarshal as REGENERATED statement by statement from outputconfiguration.go
   on this run (Gen/ConfFns.v: a configuration value = its backing array up to the capacity + its length; reslice when the
   capacity suffices, otherwise append to the full-capacity slice; the counting loop; SetUint16 and the frequency store on
   the element in place) yields exactly outconf_unmarshal - for every destination (contents, length, capacity) and
   every payload *)
Require Import Base.GoBytes Base.GoConf Gen.ConfFns Tie.ConfAgree.
Theorem C13_unmarshal_model_is_the_source : forall bk n data, wf_bytes data -> (0 <= n <= Z.of_nat (length bk))%Z ->
  exists o', g_OutputConfiguration_Unmarshal (bk, n) data = Val (None, o') /\
             firstn (Z.to_nat (snd o')) (fst o') = outconf_unmarshal bk data.
Proof. exact unmarshal_conf_agrees. Qed.
Print Assumptions C13_unmarshal_model_is_the_source.

(* and OutputConfiguration.Marshal as regenerated from the source (make, the range loop over the settings, the two
   PutUint16 of Uint16() and of the frequency) yields exactly outconf_marshal of the configuration's elements and no
   error - for every backing array, length and contents with frequencies in their Go type's range *)
Theorem C13_marshal_model_is_the_source : forall bk n, (n <= length bk)%nat -> Forall freq_typed (firstn n bk) ->
  g_OutputConfiguration_Marshal (bk, Z.of_nat n) = Val (outconf_marshal (firstn n bk), None).
Proof. exact marshal_conf_agrees_typed. Qed.
Print Assumptions C13_marshal_model_is_the_source.
