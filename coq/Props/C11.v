(* C11 - Data identifiers and their 16-bit wire form correspond field by field.
   The functions f_DataIdentifier_* are regenerated from dataidentifier.go on every run (Gen/Funcs.v). *)
From Coq Require Import ZArith List Bool.
Require Import Base.GoInt Base.Sweep Gen.Funcs Spec.IdSpec Proofs.IdProofs.
Open Scope Z_scope.

(* wire -> identifier -> wire keeps every non-reserved bit, clears bits 10-8, and each bit field
   lands in its own component; forall 65536 wire values (complete sweep in the kernel) *)
Theorem C11_set_get : forall v, 0 <= v < 65536 ->
  let '(t, c, p) := f_DataIdentifier_SetUint16 0 0 0 v in
  f_DataIdentifier_Uint16 t c p = Z.land v 0xf8ff /\
  t = Z.land v 0xf8f0 /\ c = Z.land v 0x000c /\ p = Z.land v 0x0003.
Proof. exact set_get. Qed.
Print Assumptions C11_set_get.

Theorem C11_set_ignores_destination : forall a b c v,
  f_DataIdentifier_SetUint16 a b c v = f_DataIdentifier_SetUint16 0 0 0 v.
Proof. exact set_ignores_old. Qed.
Print Assumptions C11_set_ignores_destination.

Theorem C11_masks_partition :
  Z.land 0xf8f0 0x000c = 0 /\ Z.land 0xf8f0 0x0003 = 0 /\ Z.land 0x000c 0x0003 = 0 /\
  Z.lor (Z.lor 0xf8f0 0x000c) 0x0003 = 0xf8ff.
Proof. exact masks_disjoint. Qed.
Print Assumptions C11_masks_partition.

(* identifier -> wire -> identifier is the identity on every identifier with in-range components *)
Theorem C11_get_set : forall t c p, in_range t c p = true ->
  f_DataIdentifier_SetUint16 0 0 0 (f_DataIdentifier_Uint16 t c p) = (t, c, p) /\
  0 <= f_DataIdentifier_Uint16 t c p < 65536.
Proof. exact get_set. Qed.
Print Assumptions C11_get_set.

Theorem C11_same_identifier_iff : forall v w, 0 <= v < 65536 -> 0 <= w < 65536 ->
  (f_DataIdentifier_SetUint16 0 0 0 v = f_DataIdentifier_SetUint16 0 0 0 w <-> Z.land v 0xf8ff = Z.land w 0xf8ff).
Proof. exact same_identifier_iff. Qed.
Print Assumptions C11_same_identifier_iff.

(* non-vacuity: a concrete identifier (Quaternion, NorthEastDown, FP16.32 with reserved bits set) *)
Example C11_example :
  f_DataIdentifier_SetUint16 7 7 7 0x2716 = (0x2010, 0x4, 0x2) /\ in_range 0x2010 0x4 0x2 = true /\
  f_DataIdentifier_Uint16 0x2010 0x4 0x2 = 0x2016.
Proof. repeat split. Qed.

(* The packet header path: MTData2Packet.Identifier as REGENERATED statement by statement from mtdata2.go decodes the two
   header bytes through the generated SetUint16 - the same function the sweeps above characterise - for every packet *)
Require Import Base.Bytes Base.GoBytes Gen.Bytes Tie.BytesAgree.
Theorem C11_packet_header_uses_the_same_decoding : forall p,
  g_MTData2Packet_Identifier p =
  if (2 <=? length p)%nat
  then Val (Gen.Funcs.f_DataIdentifier_SetUint16 0 0 0 (Z.of_N (be16 (nthb p 0) (nthb p 1))))
  else Pan.
Proof. exact packet_identifier_agrees. Qed.

(* through the emulator: MarshalMessage as REGENERATED from xsensemulator/emulator.go hands the value's encoder the
   identifier of the last configured setting of the requested type, every component unchanged (or refuses when there is
   none) - so an identifier travels configuration -> packet header through the functions above only *)
Require Import Base.GoBytes Model.Emulator Gen.EmuFns Tie.EmuAgree.
Theorem C11_emulator_passes_the_configured_identifier : forall md dt st, conf_ok st ->
  g_Emulator_MarshalMessage md dt st = Val (marshal_result md (last_match dt (econf (absE st true))), st).
Proof. intros md dt st H. exact (proj1 (emu_marshal_agrees md dt st true H)). Qed.
Print Assumptions C11_emulator_passes_the_configured_identifier.
