(* C06 - Constructed frames validate, scan back and read back exactly. *)
Require Import Base.Bytes Model.Frame Model.Split Spec.FrameSpec Spec.StreamSpec Proofs.FrameProofs Proofs.FramedStream.
Open Scope N_scope.

(* forall identifiers, forall payloads of 0..2048 bytes *)
Theorem C06_new_message_wf : forall mid p, (length p <= 2048)%nat ->
  let m := new_message mid p in
  wf_frame m /\ validate m = VOk /\
  identifier m = Some mid /\ msg_length m = Some (N.of_nat (length p)) /\ msg_data m = Some p /\
  is_extended m = Some (255 <=? N.of_nat (length p)) /\
  checksum m = 0 /\
  length m = if (255 <=? N.of_nat (length p))%N then (7 + length p)%nat else (5 + length p)%nat.
Proof. exact new_message_wf. Qed.
Print Assumptions C06_new_message_wf.

(* the stream scanner (reference segmentation, to which C01 reduces every read fragmentation) delivers it unchanged *)
Theorem C06_new_message_scans_back : forall mid p, (length p <= 2048)%nat ->
  segT (new_message mid p) = ([new_message mid p], SEnd).
Proof. exact new_message_scans_back. Qed.
Print Assumptions C06_new_message_scans_back.

(* device errors: exactly identifier Error with a one-byte payload, which is the code; otherwise code OK (0) *)
Theorem C06_is_error_iff : forall m, validate m = VOk ->
  is_error m = Some ((nthb m 2 =? mid_error) && (length (payload_of m) =? 1)%nat) /\
  error_code m = Some (if (nthb m 2 =? mid_error) && (length (payload_of m) =? 1)%nat then nthb (payload_of m) 0 else 0).
Proof. exact is_error_iff. Qed.
Print Assumptions C06_is_error_iff.

Example C06_example : new_message 48 [] = [250; 255; 48; 0; 209] /\
  new_message 66 [4] = [250; 255; 66; 1; 4; 186] /\
  firstn 6 (new_message 54 (repeat 250 255)) = [250; 255; 54; 255; 0; 255] /\
  error_code (new_message 66 [33]) = Some 33 /\ error_code (new_message 66 [1; 2]) = Some 0.
Proof. repeat split. Qed.

(* The model IS the code: NewMessage as REGENERATED statement by statement from message.go on this run (make, element
   writes, PutUint16 and copy into sub-slices, the checksum loop) builds exactly the frame of the model, for every
   identifier and every payload of any length *)
Require Import Base.GoBytes Gen.Bytes Tie.BytesAgree.
Theorem C06_new_message_model_is_the_source : forall mid p, (0 <= mid < 256)%Z ->
  g_NewMessage mid p = Val (new_message (Z.to_N mid) p).
Proof. exact new_message_agrees. Qed.
Print Assumptions C06_new_message_model_is_the_source.
