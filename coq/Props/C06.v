(* C06 - Constructed frames validate, scan back and read back exactly. *)
Require Import Base.Bytes Model.Frame Model.Split Spec.FrameSpec Spec.StreamSpec Proofs.FrameProofs Proofs.FramedStream.
Open Scope N_scope.

(* forall identifiers, forall payloads of 0..2048 bytes *)
Theorem C06_new_message_wf : forall mid p, (length p <= 2048)%nat ->
  let m := new_message mid p in
  wf_frame m /\ validate m = VOk /\
  identifier m = Some mid /\ msg_length m = Some (N.of_nat (length p)) /\ msg_data m = Some p /\
  is_extended m = Some (255 <=? N.of_nat (length p)) /\
  checksum m = 0 /\
  length m = if (255 <=? N.of_nat (length p))%N then (7 + length p)%nat else (5 + length p)%nat.
Proof. exact new_message_wf. Qed.
Print Assumptions C06_new_message_wf.

(* the stream scanner (reference segmentation, to which C01 reduces every read fragmentation) delivers it unchanged *)
Theorem C06_new_message_scans_back : forall mid p, (length p <= 2048)%nat ->
  segT (new_message mid p) = ([new_message mid p], SEnd).
Proof. exact new_message_scans_back. Qed.
Print Assumptions C06_new_message_scans_back.

(* device errors: exactly identifier Error with a one-byte payload, which is the code; otherwise code OK (0) *)
Theorem C06_is_error_iff : forall m, validate m = VOk ->
  is_error m = Some ((nthb m 2 =? mid_error) && (length (payload_of m) =? 1)%nat) /\
  error_code m = Some (if (nthb m 2 =? mid_error) && (length (payload_of m) =? 1)%nat then nthb (payload_of m) 0 else 0).
Proof. exact is_error_iff. Qed.
Print Assumptions C06_is_error_iff.

Example C06_example : new_message 48 [] = [250; 255; 48; 0; 209] /\
  new_message 66 [4] = [250; 255; 66; 1; 4; 186] /\
  firstn 6 (new_message 54 (repeat 250 255)) = [250; 255; 54; 255; 0; 255] /\
  error_code (new_message 66 [33]) = Some 33 /\ error_code (new_message 66 [1; 2]) = Some 0.
Proof. repeat split. Qed.

(* The model IS the code: NewMessage as REGENERATED statement by statement from message.go on this run (make, element
   writes, PutUint16 and copy into sub-slices, the checksum loop) builds exactly the frame of the model, for every
   identifier and every payload of any length *)
Require Import Base.GoBytes Gen.Bytes Tie.BytesAgree.
Theorem C06_new_message_model_is_the_source : forall mid p, (0 <= mid < 256)%Z ->
  g_NewMessage mid p = Val (new_message (Z.to_N mid) p).
Proof. exact new_message_agrees. Qed.
Print Assumptions C06_new_message_model_is_the_source.

(* ---- the serial port over UDP, the transport of an emulator and its client (xsensemulator/udpserialport.go) ----
   Whatever one port writes, the port facing it reads whole, unchanged and in order - every size, every configured
   timeout, however much time passes in between (Model/UdpPort.v on a first-in first-out loop-back network). *)
Require Import Base.GoBytes Model.UdpPort Proofs.UdpPortProofs Gen.UdpFns Tie.UdpAgree.
Theorem C06_udp_port_delivers_every_slice_unchanged : forall t0 t1 side buflen ps,
  Forall (fun p => (length p <= buflen)%nat) ps ->
  urun t0 t1 unet0 (writes side ps ++ reads (negb side) buflen (length ps)) =
  map (fun p => UWrote (Z.of_nat (length p)) None) ps ++ map (fun p => UGot p None) ps.
Proof. exact udp_delivers. Qed.
Print Assumptions C06_udp_port_delivers_every_slice_unchanged.

(* and that model is udpserialport.go as regenerated on this run: Write and Read hand the caller's slice as it is to the
   connection and return its results as they are, after a fresh deadline for that direction only when a timeout was
   configured; a port created without options has none; the port listens on its origin and sends to its destination. *)
Theorem C06_udp_port_model_is_the_source :
  (forall t dl cw p, g_UDPSerialPort_Write t dl cw p = Val (udp_write t dl cw p)) /\
  (forall t dl cr p, g_UDPSerialPort_Read t dl cr p = Val (udp_read t dl cr p)) /\
  (forall c, g_UDPSerialPort_Close c = Val c) /\
  g_defaultOptions = 0%Z /\
  (forall t old, g_WithTimeout t old = t) /\
  (forall rs ls o a b, g_NewUDPSerialPort rs ls o a b = Val (udp_new rs ls o a b)).
Proof. exact udp_port_agrees. Qed.
Print Assumptions C06_udp_port_model_is_the_source.

(* and across the two layers: frames built by the constructor, one per write, arrive at the port facing the writer whole,
   unchanged and in order when each is read with 4096 bytes of room - every identifier, every payload of 0..2048 bytes *)
Require Import Proofs.LinkBytes Proofs.UdpFrames.
Theorem C06_constructed_frames_arrive_over_udp : forall (l : list (N * bytes)) t0 t1 side,
  Forall (fun mp => (fst mp < 256)%N /\ wf_bytes (snd mp) /\ (length (snd mp) <= 2048)%nat) l ->
  let fs := map (fun mp => new_message (fst mp) (snd mp)) l in
  urun t0 t1 unet0 (writes side fs ++ reads (negb side) 4096 (length fs)) =
  map (fun p => UWrote (Z.of_nat (length p)) None) fs ++ map (fun p => UGot p None) fs.
Proof.
  intros l t0 t1 side H. apply frames_arrive_over_udp; apply Forall_forall; intros f Hf;
    apply in_map_iff in Hf; destruct Hf as (mp & <- & Hin); rewrite Forall_forall in H; destruct (H mp Hin) as (Hm & Hb & Hl).
  - apply new_message_bytes; assumption.
  - exact (proj1 (new_message_wf (fst mp) (snd mp) Hl)).
Qed.
Print Assumptions C06_constructed_frames_arrive_over_udp.
