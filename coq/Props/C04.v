(* C04 - Every data type x precision encodes/decodes per the MTData2 layout, both ways.
   Layouts: dec_layout_of / enc_size_of / enc_stores_of are REGENERATED from measurementdata.go (Gen/Layouts.v).
   decode / encode (Model/Codec.v) read / write those layouts field after field, big endian, converting reals with
   Flocq's IEEE-754 operations. *)
From Coq Require Import ZArith Reals List String Bool.
From Flocq Require Import Core BinarySingleNaN.
Require Import Base.Bytes Spec.LayoutKinds Spec.LayoutSpec Spec.LayoutCheck Gen.Funcs Gen.Layouts Tie.LayoutsAgree
  Model.Codec Proofs.FixedProofs Proofs.CodecProofs Proofs.SizeProofs.
Open Scope Z_scope.

(* layout: for each of the 25 data types the Go type it dispatches to decodes, at each of the 4 precisions, fields of
   exactly the widths the protocol specifies (and coordinate-system bits do not enter: the tables are keyed by type) *)
Theorem C04_decoders_match_protocol_layouts : dec_matches_spec = true.
Proof. exact dec_matches_spec_ok. Qed.
(* fixed-layout encoders store the decoder's fields at the decoder's offsets; every encoder declares the layout's size *)
Theorem C04_encoders_match_decoders : enc_matches_dec = true.
Proof. exact enc_matches_dec_ok. Qed.
Print Assumptions C04_encoders_match_decoders.

(* identifier and declared size of an encoded packet *)
Theorem C04_encode_header : forall ty wire vs p, encode ty wire vs = Some p ->
  exists l sz, dec_layout_of ty (Z.land wire 3) = Some l /\ enc_size_of ty (Z.land wire 3) = Some sz /\
               p = zbe 2 wire ++ zbe 1 sz ++ encode_fields l vs.
Proof.
  intros ty wire vs p H. unfold encode in H.
  destruct (dec_layout_of ty (Z.land wire 3)) as [l|]; [|discriminate].
  destruct (enc_size_of ty (Z.land wire 3)) as [sz|]; [|discriminate].
  injection H as <-. exists l, sz. repeat split.
Qed.

(* the decoder reads exactly the layout, and rejects shorter data *)
Theorem C04_decode_reads_layout : forall ty prec data l, dec_layout_of ty prec = Some l ->
  (Z.to_nat (layout_size l) <= length data)%nat ->
  decode ty prec data = decode_fields l data /\ decode_fields l data <> None.
Proof. exact decode_reads_layout. Qed.
Theorem C04_short_packet_rejected : forall ty prec data l, dec_layout_of ty prec = Some l ->
  (length data < Z.to_nat (layout_size l))%nat -> decode ty prec data = None.
Proof. exact decode_short. Qed.
Print Assumptions C04_short_packet_rejected.

(* encode-after-decode is the identity on every packet of the specified size (float32 NaN payloads excepted),
   for ANY layout - in particular each generated one *)
Theorem C04_encode_decode_id : forall l d, wf_bytes d -> length d = layout_len l -> fields_data_ok l d ->
  exists vs, decode_fields l d = Some vs /\ encode_fields l vs = d.
Proof. exact fields_encode_decode. Qed.
Print Assumptions C04_encode_decode_id.

(* decode-after-encode is the identity on every value representable at the precision: integers of the field's
   width, every binary64 bit pattern, every widened non-NaN binary32, every fixed-point value *)
Theorem C04_decode_encode_id : forall l vs, Forall2 (fun f v => field_value_ok (snd f) v) l vs ->
  decode_fields l (encode_fields l vs) = Some vs /\ length (encode_fields l vs) = layout_len l.
Proof. exact fields_decode_encode. Qed.
Print Assumptions C04_decode_encode_id.

(* reals: float32 fields are read exactly, and float32(float64(x)) = x *)
Theorem C04_float32_widen_exact : forall x : f32, is_finite x = true -> B2R (widen x) = B2R x.
Proof. exact widen_value. Qed.
Theorem C04_float32_narrow_widen : forall x : f32, is_nan x = false -> narrow (widen x) = x.
Proof. exact narrow_widen. Qed.
Print Assumptions C04_float32_narrow_widen.

Example C04_example :
  decode "VectorXYZ" 1 [0; 16; 0; 0; 255; 240; 0; 0; 0; 0; 0; 1]%N
    = Some [0x3FF0000000000000; 0xBFF0000000000000; 0x3EB0000000000000] /\
  encode "UTCTime" 0x1010 [1000; 2024; 2; 29; 23; 59; 58; 7] = Some [16; 16; 12; 0; 0; 3; 232; 7; 232; 2; 29; 23; 59; 58; 7]%N /\
  decode "Scalar" 2 [1; 2; 3]%N = None.
Proof. repeat split; vm_compute; reflexivity. Qed.

(* through the emulator: MarshalMessage as REGENERATED from xsensemulator/emulator.go hands the value's encoder the
   identifier of the last configured setting of the requested type, every component unchanged (or refuses when there is
   none) - so an identifier travels configuration -> packet header through the functions above only *)
Require Import Base.GoBytes Model.Emulator Gen.EmuFns Tie.EmuAgree.
Theorem C04_emulator_passes_the_configured_identifier : forall md dt st, conf_ok st ->
  g_Emulator_MarshalMessage md dt st = Val (marshal_result md (last_match dt (econf (absE st true))), st).
Proof. intros md dt st H. exact (proj1 (emu_marshal_agrees md dt st true H)). Qed.
Print Assumptions C04_emulator_passes_the_configured_identifier.
