(* C05 - Fixed-point 12.20 and 16.32 conversion is exact for every bit pattern.
   fp1220_float64 / fp1632_float64 / fp1220_from / fp1632_from perform the IEEE operations of fixedpoint.go with
   Flocq's binary64: float64(int), / 2^k, * 2^k, truncating conversion.  B2R is the real number a float denotes. *)
From Coq Require Import ZArith Reals List.
From Flocq Require Import Core BinarySingleNaN.
Require Import Base.Bytes Model.Codec Proofs.FixedProofs.
Open Scope Z_scope.

(* exactness: forall bit patterns - the two's complement integer (fraction word first for 16.32: fp1632_int) divided
   by 2^20 resp. 2^32, no rounding, always finite *)
Theorem C05_fp1220_exact : forall b, wf_bytes b ->
  B2R (fp1220_float64 b) = (IZR (fp1220_int b) / 2 ^ 20)%R /\ is_finite (fp1220_float64 b) = true.
Proof. exact fp1220_exact. Qed.
Print Assumptions C05_fp1220_exact.

Theorem C05_fp1632_exact : forall b, wf_bytes b ->
  B2R (fp1632_float64 b) = (IZR (fp1632_int b) / 2 ^ 32)%R /\ is_finite (fp1632_float64 b) = true.
Proof. exact fp1632_exact. Qed.
Print Assumptions C05_fp1632_exact.

(* the integers are the sign-extended 32-bit / 48-bit two's complement values *)
Theorem C05_fp1220_int_range : forall b, wf_bytes b -> - 2 ^ 31 <= fp1220_int b < 2 ^ 31.
Proof. exact fp1220_int_range. Qed.
Theorem C05_fp1632_int_range : forall b, wf_bytes b -> - 2 ^ 47 <= fp1632_int b < 2 ^ 47.
Proof. exact fp1632_int_range. Qed.

(* strictly order preserving *)
Theorem C05_fp1220_strictly_monotone : forall a b, wf_bytes a -> wf_bytes b ->
  fp1220_int a < fp1220_int b -> (B2R (fp1220_float64 a) < B2R (fp1220_float64 b))%R.
Proof. exact fp1220_strictly_monotone. Qed.
Theorem C05_fp1632_strictly_monotone : forall a b, wf_bytes a -> wf_bytes b ->
  fp1632_int a < fp1632_int b -> (B2R (fp1632_float64 a) < B2R (fp1632_float64 b))%R.
Proof. exact fp1632_strictly_monotone. Qed.
Print Assumptions C05_fp1632_strictly_monotone.

(* encoding the decoded value gives back the same bit pattern *)
Theorem C05_fp1220_encode_decode : forall b, wf_bytes b -> length b = 4%nat -> fp1220_from (fp1220_float64 b) = b.
Proof. exact fp1220_encode_decode. Qed.
Print Assumptions C05_fp1220_encode_decode.

Theorem C05_fp1632_encode_decode : forall b, wf_bytes b -> length b = 6%nat -> fp1632_from (fp1632_float64 b) = b.
Proof. exact fp1632_encode_decode. Qed.
Print Assumptions C05_fp1632_encode_decode.

(* encoding any in-range float and decoding it again moves it by less than one unit of resolution *)
Theorem C05_fp1220_quantisation : forall x : f64, is_finite x = true -> (-2048 <= B2R x < 2048)%R ->
  (Rabs (B2R (fp1220_float64 (fp1220_from x)) - B2R x) < / 2 ^ 20)%R.
Proof. exact fp1220_quantisation. Qed.
Print Assumptions C05_fp1220_quantisation.

Theorem C05_fp1632_quantisation : forall x : f64, is_finite x = true -> (-32768 <= B2R x < 32768)%R ->
  (Rabs (B2R (fp1632_float64 (fp1632_from x)) - B2R x) < / 2 ^ 32)%R.
Proof. exact fp1632_quantisation. Qed.
Print Assumptions C05_fp1632_quantisation.

(* non-vacuity: -3 * 2^-20, the most negative 16.32 value, a pattern with the fraction word first *)
Example C05_example :
  bits_of_f64 (fp1220_float64 [255; 255; 255; 253]%N) = 0xBEC8000000000000 /\
  bits_of_f64 (fp1632_float64 [0; 0; 0; 0; 128; 0]%N) = 0xC0E0000000000000 /\      (* -32768.0 *)
  bits_of_f64 (fp1632_float64 [128; 0; 0; 0; 0; 1]%N) = 0x3FF8000000000000 /\      (* 1.5 *)
  fp1632_from (fp1632_float64 [18; 52; 86; 120; 255; 254]%N) = [18; 52; 86; 120; 255; 254]%N.
Proof. repeat split; vm_compute; reflexivity. Qed.
