(* C05 - Fixed-point 12.20 and 16.32 conversion is exact for every bit pattern.
   fp1220_float64 / fp1632_float64 / fp1220_from / fp1632_from perform the IEEE operations of fixedpoint.go with
   Flocq's binary64: float64(int), / 2^k, * 2^k, truncating conversion.  B2R is the real number a float denotes. *)
From Coq Require Import ZArith Reals List.
From Flocq Require Import Core BinarySingleNaN.
Require Import Base.Bytes Model.Codec Proofs.FixedProofs.
Open Scope Z_scope.

(* exactness: forall bit patterns - the two's complement integer (fraction word first for 16.32: fp1632_int) divided
   by 2^20 resp. 2^32, no rounding, always finite *)
Theorem C05_fp1220_exact : forall b, wf_bytes b ->
  B2R (fp1220_float64 b) = (IZR (fp1220_int b) / 2 ^ 20)%R /\ is_finite (fp1220_float64 b) = true.
Proof. exact fp1220_exact. Qed.
Print Assumptions C05_fp1220_exact.

Theorem C05_fp1632_exact : forall b, wf_bytes b ->
  B2R (fp1632_float64 b) = (IZR (fp1632_int b) / 2 ^ 32)%R /\ is_finite (fp1632_float64 b) = true.
Proof. exact fp1632_exact. Qed.
Print Assumptions C05_fp1632_exact.

(* the integers are the sign-extended 32-bit / 48-bit two's complement values *)
Theorem C05_fp1220_int_range : forall b, wf_bytes b -> - 2 ^ 31 <= fp1220_int b < 2 ^ 31.
Proof. exact fp1220_int_range. Qed.
Theorem C05_fp1632_int_range : forall b, wf_bytes b -> - 2 ^ 47 <= fp1632_int b < 2 ^ 47.
Proof. exact fp1632_int_range. Qed.

(* strictly order preserving *)
Theorem C05_fp1220_strictly_monotone : forall a b, wf_bytes a -> wf_bytes b ->
  fp1220_int a < fp1220_int b -> (B2R (fp1220_float64 a) < B2R (fp1220_float64 b))%R.
Proof. exact fp1220_strictly_monotone. Qed.
Theorem C05_fp1632_strictly_monotone : forall a b, wf_bytes a -> wf_bytes b ->
  fp1632_int a < fp1632_int b -> (B2R (fp1632_float64 a) < B2R (fp1632_float64 b))%R.
Proof. exact fp1632_strictly_monotone. Qed.
Print Assumptions C05_fp1632_strictly_monotone.

(* encoding the decoded value gives back the same bit pattern *)
Theorem C05_fp1220_encode_decode : forall b, wf_bytes b -> length b = 4%nat -> fp1220_from (fp1220_float64 b) = b.
Proof. exact fp1220_encode_decode. Qed.
Print Assumptions C05_fp1220_encode_decode.

Theorem C05_fp1632_encode_decode : forall b, wf_bytes b -> length b = 6%nat -> fp1632_from (fp1632_float64 b) = b.
Proof. exact fp1632_encode_decode. Qed.
Print Assumptions C05_fp1632_encode_decode.

(* encoding any in-range float and decoding it again moves it by less than one unit of resolution *)
Theorem C05_fp1220_quantisation : forall x : f64, is_finite x = true -> (-2048 <= B2R x < 2048)%R ->
  (Rabs (B2R (fp1220_float64 (fp1220_from x)) - B2R x) < / 2 ^ 20)%R.
Proof. exact fp1220_quantisation. Qed.
Print Assumptions C05_fp1220_quantisation.

Theorem C05_fp1632_quantisation : forall x : f64, is_finite x = true -> (-32768 <= B2R x < 32768)%R ->
  (Rabs (B2R (fp1632_float64 (fp1632_from x)) - B2R x) < / 2 ^ 32)%R.
Proof. exact fp1632_quantisation. Qed.
Print Assumptions C05_fp1632_quantisation.

(* non-vacuity: -3 * 2^-20, the most negative 16.32 value, a pattern with the fraction word first *)
Example C05_example :
  bits_of_f64 (fp1220_float64 [255; 255; 255; 253]%N) = 0xBEC8000000000000 /\
  bits_of_f64 (fp1632_float64 [0; 0; 0; 0; 128; 0]%N) = 0xC0E0000000000000 /\      (* -32768.0 *)
  bits_of_f64 (fp1632_float64 [128; 0; 0; 0; 0; 1]%N) = 0x3FF8000000000000 /\      (* 1.5 *)
  fp1632_from (fp1632_float64 [18; 52; 86; 120; 255; 254]%N) = [18; 52; 86; 120; 255; 254]%N.
Proof. repeat split; vm_compute; reflexivity. Qed.

(* The model IS the code: FP1220 / FP1632 Float64 and FromFloat64 as REGENERATED statement by statement from
   fixedpoint.go on this run (Gen/Fixed.v: Uint32/Uint64, the sign-extension branch, float64(int), the division
   and multiplication by 2^k, the float -> unsigned conversion, PutUint32/PutUint64 and the byte shuffling) are the
   models the theorems above are stated over - for every byte pattern and every binary64 value *)
Require Import Base.GoBytes Gen.Fixed Tie.FixedAgree.
Theorem C05_fp1220_models_are_the_source : forall b x, wf_bytes b -> length b = 4%nat ->
  g_FP1220_Float64 b = Val (fp1220_float64 b) /\ g_FP1220_FromFloat64 b x = Val (fp1220_from x).
Proof. intros b x Hw Hl. split; [apply fp1220_float64_agrees|apply fp1220_from_agrees]; assumption. Qed.
Theorem C05_fp1632_models_are_the_source : forall b x, wf_bytes b -> length b = 6%nat ->
  g_FP1632_Float64 b = Val (fp1632_float64 b) /\ g_FP1632_FromFloat64 b x = Val (fp1632_from x).
Proof. intros b x Hw Hl. split; [apply fp1632_float64_agrees|apply fp1632_from_agrees]; assumption. Qed.
Print Assumptions C05_fp1632_models_are_the_source.
