(* C18 - The emulator transmits only in measurement mode and only well-formed frames.
   estep/erun model xsensemulator/emulator.go event by event (Model/Emulator.v); the frame predicate is C02's. *)
From Coq Require Import ZArith List Bool.
Require Import Base.Bytes Model.Frame Model.Config Model.Emulator Spec.FrameSpec Proofs.FrameProofs Proofs.EmulatorProofs.
Import ListNotations.
Open Scope Z_scope.

Theorem C18_transmit_spec : forall s m,
  let '(o, s') := estep s (ETransmit m) in
  (measuring s = false -> o = OTx 1 [] /\ s' = s) /\
  (measuring s = true -> wf_frame m -> o = OTx 0 [m] /\ eport s' = eport s ++ [m] /\ emode s' = emode s /\ econf s' = econf s) /\
  (measuring s = true -> ~ wf_frame m -> o = OTx 2 [] /\ s' = s).
Proof. exact transmit_spec. Qed.
Print Assumptions C18_transmit_spec.

(* every event either sets the mode (go-to-measurement, send-mode switch: measuring; go-to-config,
   set-output-configuration: not measuring) or leaves it alone *)
Theorem C18_step_mode : forall s e,
  match mode_effect s e with
  | Some b => measuring (snd (estep s e)) = b
  | None => measuring (snd (estep s e)) = measuring s
  end.
Proof. exact step_mode. Qed.

(* for every history of events, from any state *)
Theorem C18_measuring_iff_last_event : forall es s,
  measuring (snd (erun s es)) = match last_effect s es None with Some b => b | None => measuring s end.
Proof. intros es s. apply measuring_iff_last_event. left. reflexivity. Qed.
Print Assumptions C18_measuring_iff_last_event.

(* whatever happens, only well-formed frames reach the port *)
Theorem C18_port_only_wf : forall es s, Forall wf_frame (eport s) -> Forall wf_frame (eport (snd (erun s es))).
Proof.
  induction es as [|e t IH]; intros s H; [exact H|]. rewrite erun_snd. apply IH. apply port_only_wf. exact H.
Qed.
Print Assumptions C18_port_only_wf.

Example C18_example :
  let cfg := new_message 48%N [] in let meas := new_message 16%N [] in let data := new_message 54%N [16; 32; 2; 0; 7]%N in
  fst (erun emu_init [ETransmit data; ERecv meas; ETransmit data; ETransmit [250; 255; 54; 1; 0; 0]%N; ERecv cfg; ETransmit data; ESendMode; ETransmit data; ELastId])
  = [OTx 1 []; OWrote [new_message 54%N []]; OTx 0 [data]; OTx 2 []; OWrote [new_message 49%N []]; OTx 1 []; ONone; OTx 0 [data]; OId 54].
Proof. vm_compute. reflexivity. Qed.
