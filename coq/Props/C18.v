(* C18 - The emulator transmits only in measurement mode and only well-formed frames.
   estep/erun model xsensemulator/emulator.go event by event (Model/Emulator.v); the frame predicate is C02's. *)
From Coq Require Import ZArith List Bool.
Require Import Base.Bytes Model.Frame Model.Config Model.Emulator Spec.FrameSpec Proofs.FrameProofs Proofs.EmulatorProofs.
Import ListNotations.
Open Scope Z_scope.

Theorem C18_transmit_spec : forall s m,
  let '(o, s') := estep s (ETransmit m) in
  (measuring s = false -> o = OTx 1 [] /\ s' = s) /\
  (measuring s = true -> wf_frame m -> o = OTx 0 [m] /\ eport s' = eport s ++ [m] /\ emode s' = emode s /\ econf s' = econf s) /\
  (measuring s = true -> ~ wf_frame m -> o = OTx 2 [] /\ s' = s).
Proof. exact transmit_spec. Qed.
Print Assumptions C18_transmit_spec.

(* every event either sets the mode (go-to-measurement, send-mode switch: measuring; go-to-config,
   set-output-configuration: not measuring) or leaves it alone *)
Theorem C18_step_mode : forall s e,
  match mode_effect s e with
  | Some b => measuring (snd (estep s e)) = b
  | None => measuring (snd (estep s e)) = measuring s
  end.
Proof. exact step_mode. Qed.

(* for every history of events, from any state *)
Theorem C18_measuring_iff_last_event : forall es s,
  measuring (snd (erun s es)) = match last_effect s es None with Some b => b | None => measuring s end.
Proof. intros es s. apply measuring_iff_last_event. left. reflexivity. Qed.
Print Assumptions C18_measuring_iff_last_event.

(* whatever happens, only well-formed frames reach the port *)
Theorem C18_port_only_wf : forall es s, Forall wf_frame (eport s) -> Forall wf_frame (eport (snd (erun s es))).
Proof.
  induction es as [|e t IH]; intros s H; [exact H|]. rewrite erun_snd. apply IH. apply port_only_wf. exact H.
Qed.
Print Assumptions C18_port_only_wf.

Example C18_example :
  let cfg := new_message 48%N [] in let meas := new_message 16%N [] in let data := new_message 54%N [16; 32; 2; 0; 7]%N in
  fst (erun emu_init [ETransmit data; ERecv meas; ETransmit data; ETransmit [250; 255; 54; 1; 0; 0]%N; ERecv cfg; ETransmit data; ESendMode; ETransmit data; ELastId])
  = [OTx 1 []; OWrote [new_message 54%N []]; OTx 0 [data]; OTx 2 []; OWrote [new_message 49%N []]; OTx 1 []; ONone; OTx 0 [data]; OId 54].
Proof. vm_compute. reflexivity. Qed.

(* The model IS the code: every method of xsensemulator.Emulator as REGENERATED statement by statement from emulator.go
   on this run (Gen/EmuFns.v; state = configuration slice with its capacity, mode register, frames written to the
   port; the mutex operations do not touch that state) takes the same step as estep, for every state, every token the
   scanner delivers and every frame handed to Transmit: one iteration of the receive loop either goes round again having
   written exactly the model's acknowledge after the model's state change, or returns an error with the state untouched
   and the loop dead; Transmit's three outcomes are the model's; a cancelled context, the end of the input and a failing
   port write end the loop / the call with that cause and write nothing. *)
Require Import Base.GoBytes Gen.EmuFns Tie.EmuAgree.
Theorem C18_receive_step_model_is_the_source : forall st f, wf_bytes f -> conf_ok st ->
  exists r, g_Emulator_Receive_step false true f None None st = Val r /\
    match r with
    | inl st' => estep (absE st true) (ERecv f) = (OWrote (skipn (length (snd st)) (snd st')), absE st' true) /\ conf_ok st'
    | inr (e, st') => e <> None /\ estep (absE st true) (ERecv f) = (OWrote [], absE st' false) /\ st' = st
    end.
Proof. exact emu_receive_step_agrees. Qed.
Print Assumptions C18_receive_step_model_is_the_source.

Theorem C18_transmit_model_is_the_source : forall st a m, wf_bytes m ->
  exists e st', g_Emulator_Transmit None m st = Val (e, st') /\
    estep (absE st a) (ETransmit m) = (OTx (tx_code e) (skipn (length (snd st)) (snd st')), absE st' a).
Proof. exact emu_transmit_agrees. Qed.
Print Assumptions C18_transmit_model_is_the_source.

Theorem C18_other_methods_model_is_the_source : forall st a,
  (exists st', g_Emulator_SetSendMode st = Val st' /\ estep (absE st a) ESendMode = (ONone, absE st' a)) /\
  (forall cfg, exists st', g_Emulator_SetOutputConguration cfg st = Val st' /\
     estep (absE st a) (ESetConf (firstn (Z.to_nat (snd cfg)) (fst cfg))) = (ONone, absE st' a)) /\
  (exists z, g_Emulator_LastMessageIdentifier st = Val (z, st) /\ estep (absE st a) ELastId = (OId z, absE st a)).
Proof.
  intros st a. split; [exact (emu_set_send_mode_agrees st a)|]. split; [exact (emu_set_conf_agrees st a)|exact (emu_last_id_agrees st a)].
Qed.
Print Assumptions C18_other_methods_model_is_the_source.

Theorem C18_loop_ends_without_writing : forall st f sc e pw,
  g_Emulator_Receive_step true sc f e pw st = Val (inr (Some (-2), st)) /\
  g_Emulator_Receive_step false false f e pw st = Val (inr (match e with Some c => Some c | None => Some (-1) end, st)).
Proof. exact emu_receive_step_stops. Qed.
Print Assumptions C18_loop_ends_without_writing.

Theorem C18_failing_write_writes_nothing : forall o port m c, validate m = VOk ->
  g_Emulator_Transmit (Some c) m (o, 54, port) = Val (Some c, (o, 54, port)).
Proof. exact emu_transmit_write_fails. Qed.
Print Assumptions C18_failing_write_writes_nothing.

(* ---- the serial port over UDP, the transport of an emulator and its client (xsensemulator/udpserialport.go) ----
   Whatever one port writes, the port facing it reads whole, unchanged and in order - every size, every configured
   timeout, however much time passes in between (Model/UdpPort.v on a first-in first-out loop-back network). *)
Require Import Base.GoBytes Model.UdpPort Proofs.UdpPortProofs Gen.UdpFns Tie.UdpAgree.
Theorem C18_udp_port_delivers_every_slice_unchanged : forall t0 t1 side buflen ps,
  Forall (fun p => (length p <= buflen)%nat) ps ->
  urun t0 t1 unet0 (writes side ps ++ reads (negb side) buflen (length ps)) =
  map (fun p => UWrote (Z.of_nat (length p)) None) ps ++ map (fun p => UGot p None) ps.
Proof. exact udp_delivers. Qed.
Print Assumptions C18_udp_port_delivers_every_slice_unchanged.

(* and that model is udpserialport.go as regenerated on this run: Write and Read hand the caller's slice as it is to the
   connection and return its results as they are, after a fresh deadline for that direction only when a timeout was
   configured; a port created without options has none; the port listens on its origin and sends to its destination. *)
Theorem C18_udp_port_model_is_the_source :
  (forall t dl cw p, g_UDPSerialPort_Write t dl cw p = Val (udp_write t dl cw p)) /\
  (forall t dl cr p, g_UDPSerialPort_Read t dl cr p = Val (udp_read t dl cr p)) /\
  (forall c, g_UDPSerialPort_Close c = Val c) /\
  g_defaultOptions = 0%Z /\
  (forall t old, g_WithTimeout t old = t) /\
  (forall rs ls o a b, g_NewUDPSerialPort rs ls o a b = Val (udp_new rs ls o a b)).
Proof. exact udp_port_agrees. Qed.
Print Assumptions C18_udp_port_model_is_the_source.

(* and across the two layers: whatever an emulator has written to its port after any history of events - acknowledges and
   transmitted frames, all well-formed by C18_port_only_wf, hence of at most 2055 bytes - arrives at the port facing it
   whole, unchanged and in order when each is read with 4096 bytes of room *)
Require Import Proofs.UdpFrames.
Theorem C18_everything_the_emulator_writes_arrives_over_udp : forall es s t0 t1,
  Forall wf_frame (eport s) -> Forall wf_bytes (eport (snd (erun s es))) ->
  let fs := eport (snd (erun s es)) in
  urun t0 t1 unet0 (writes false fs ++ reads true 4096 (length fs)) =
  map (fun p => UWrote (Z.of_nat (length p)) None) fs ++ map (fun p => UGot p None) fs.
Proof.
  intros es s t0 t1 Hw Hb. apply (frames_arrive_over_udp t0 t1 false); [exact Hb | exact (C18_port_only_wf es s Hw)].
Qed.
Print Assumptions C18_everything_the_emulator_writes_arrives_over_udp.
