Base/Bytes.vo Base/Bytes.glob Base/Bytes.v.beautified Base/Bytes.required_vo: Base/Bytes.v 
Base/Bytes.vio: Base/Bytes.v 
Base/Bytes.vos Base/Bytes.vok Base/Bytes.required_vos: Base/Bytes.v 
Base/Tactics.vo Base/Tactics.glob Base/Tactics.v.beautified Base/Tactics.required_vo: Base/Tactics.v 
Base/Tactics.vio: Base/Tactics.v 
Base/Tactics.vos Base/Tactics.vok Base/Tactics.required_vos: Base/Tactics.v 
Model/Frame.vo Model/Frame.glob Model/Frame.v.beautified Model/Frame.required_vo: Model/Frame.v Base/Bytes.vo
Model/Frame.vio: Model/Frame.v Base/Bytes.vio
Model/Frame.vos Model/Frame.vok Model/Frame.required_vos: Model/Frame.v Base/Bytes.vos
Spec/FrameSpec.vo Spec/FrameSpec.glob Spec/FrameSpec.v.beautified Spec/FrameSpec.required_vo: Spec/FrameSpec.v Base/Bytes.vo
Spec/FrameSpec.vio: Spec/FrameSpec.v Base/Bytes.vio
Spec/FrameSpec.vos Spec/FrameSpec.vok Spec/FrameSpec.required_vos: Spec/FrameSpec.v Base/Bytes.vos
Proofs/FrameProofs.vo Proofs/FrameProofs.glob Proofs/FrameProofs.v.beautified Proofs/FrameProofs.required_vo: Proofs/FrameProofs.v Base/Bytes.vo Base/Tactics.vo Model/Frame.vo Spec/FrameSpec.vo
Proofs/FrameProofs.vio: Proofs/FrameProofs.v Base/Bytes.vio Base/Tactics.vio Model/Frame.vio Spec/FrameSpec.vio
Proofs/FrameProofs.vos Proofs/FrameProofs.vok Proofs/FrameProofs.required_vos: Proofs/FrameProofs.v Base/Bytes.vos Base/Tactics.vos Model/Frame.vos Spec/FrameSpec.vos
