#!/bin/sh
# usage: dbg.sh File.v LINE [extra tactic]  -- compile the first LINE lines, then print the goals
f=$1; n=$2; shift 2
d=$(dirname $f); b=$(basename $f .v)
head -n $n $f > $d/Dbg_$b.v
echo "$* Show." >> $d/Dbg_$b.v
timeout 300 coqc -R /verif/coq XS -w none $d/Dbg_$b.v 2>&1 | tail -${TAIL:-60}
rm -f $d/Dbg_$b.v $d/Dbg_$b.vo $d/Dbg_$b.glob $d/.Dbg_$b.aux $d/Dbg_$b.vok $d/Dbg_$b.vos
