(* L0: bytes, byte strings, big-endian numbers, outcomes.  Definitions only (executable). *)
From Coq Require Export List NArith ZArith Arith Bool Lia.
Export ListNotations.

Definition byte := N.
Definition bytes := list byte.

Definition is_byte (b : N) : bool := (b <? 256)%N.
Definition wf_bytes (l : bytes) : Prop := Forall (fun b => (b < 256)%N) l.
Definition wf_bytesb (l : bytes) : bool := forallb is_byte l.

(* Go slice element access: [None] is an index outside the slice (panic when cap = len,
   foreign bytes when cap > len).  No default value hides it. *)
Definition get (d : bytes) (i : nat) : option byte := nth_error d i.

Definition nthb (d : bytes) (i : nat) : byte := nth i d 0%N.

(* m[lo:hi] for hi <= len *)
Definition sub (d : bytes) (lo n : nat) : bytes := firstn n (skipn lo d).

Definition be16 (hi lo : byte) : N := (hi * 256 + lo)%N.
Definition be32 (a b c d : byte) : N := (((a * 256 + b) * 256 + c) * 256 + d)%N.

Fixpoint be_of (l : bytes) (acc : N) : N :=
  match l with [] => acc | b :: t => be_of t (acc * 256 + b)%N end.
Definition be (l : bytes) : N := be_of l 0%N.

(* big-endian rendering of v in n bytes (v taken modulo 256^n) *)
Fixpoint to_be (n : nat) (v : N) : bytes :=
  match n with
  | O => []
  | S k => to_be k (v / 256)%N ++ [(v mod 256)%N]
  end.

Definition sumb (l : bytes) : N := fold_left (fun a b => ((a + b) mod 256)%N) l 0%N.

(* list update *)
Fixpoint upd {A} (l : list A) (i : nat) (x : A) : list A :=
  match l, i with
  | [], _ => []
  | _ :: t, O => x :: t
  | a :: t, S k => a :: upd t k x
  end.

(* outcomes of model functions that mirror Go functions which may fail or panic *)
Inductive outcome (A : Type) := Ok (a : A) | Err (k : N) | OOB | Panic | OutOfFuel.
Arguments Ok {A} a. Arguments Err {A} k. Arguments OOB {A}. Arguments Panic {A}. Arguments OutOfFuel {A}.

Definition bind {A B} (x : outcome A) (f : A -> outcome B) : outcome B :=
  match x with Ok a => f a | Err k => Err k | OOB => OOB | Panic => Panic | OutOfFuel => OutOfFuel end.

Definition of_opt {A} (x : option A) : outcome A := match x with Some a => Ok a | None => OOB end.

Definition is_ok {A} (x : outcome A) : bool := match x with Ok _ => true | _ => false end.
Definition is_okerr {A} (x : outcome A) : bool := match x with Ok _ | Err _ => true | _ => false end.

(* two's complement reinterpretation *)
Definition to_signed (w : N) (v : N) : Z :=
  if (v <? 2 ^ (w - 1))%N then Z.of_N v else (Z.of_N v - Z.of_N (2 ^ w))%Z.
Definition of_signed (w : N) (z : Z) : N := Z.to_N (z mod Z.of_N (2 ^ w))%Z.

Fixpoint list_eqb {A} (eqb : A -> A -> bool) (a b : list A) : bool :=
  match a, b with
  | [], [] => true
  | x :: a', y :: b' => eqb x y && list_eqb eqb a' b'
  | _, _ => false
  end.
Definition bytes_eqb := list_eqb N.eqb.
Definition opt_eqb {A} (eqb : A -> A -> bool) (a b : option A) : bool :=
  match a, b with Some x, Some y => eqb x y | None, None => true | _, _ => false end.
