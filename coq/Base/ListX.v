(* list lemmas missing from the 8.16 standard library *)
From Coq Require Import List Arith Lia.
Import ListNotations.

Lemma nth_skipn {A} (l : list A) n i d : nth i (skipn n l) d = nth (n + i) l d.
Proof. revert l; induction n as [|n IH]; intros l; [reflexivity|]. destruct l; [destruct i; reflexivity|]. apply IH. Qed.

Lemma nth_firstn_lt {A} (l : list A) n i d : i < n -> nth i (firstn n l) d = nth i l d.
Proof.
  revert l i; induction n as [|n IH]; intros l i H; [lia|].
  destruct l; [reflexivity|]. destruct i; [reflexivity|]. cbn. apply IH. lia.
Qed.

Lemma skipn_skipn' {A} (l : list A) a b : skipn a (skipn b l) = skipn (b + a) l.
Proof. revert l; induction b as [|b IH]; intros l; [reflexivity|]. destruct l; [destruct a; reflexivity|]. apply IH. Qed.

Lemma firstn_skipn_comm' {A} (l : list A) a b : firstn a (skipn b l) = skipn b (firstn (b + a) l).
Proof. revert l; induction b as [|b IH]; intros l; [reflexivity|]. destruct l; [destruct a; reflexivity|]. apply IH. Qed.

Lemma skipn_app_exact {A} (l1 l2 : list A) : skipn (length l1) (l1 ++ l2) = l2.
Proof. induction l1; [reflexivity|assumption]. Qed.

Lemma firstn_app_exact {A} (l1 l2 : list A) : firstn (length l1) (l1 ++ l2) = l1.
Proof. induction l1; cbn; [reflexivity|f_equal; assumption]. Qed.
