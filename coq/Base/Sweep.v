(* complete finite sweeps inside the kernel: forallb over an explicit range, lifted to a forall *)
From Coq Require Import ZArith List Lia Bool.
Import ListNotations.
Open Scope Z_scope.

Fixpoint zrange_from (n : nat) (start : Z) : list Z :=
  match n with O => [] | S k => start :: zrange_from k (start + 1) end.
Definition zrange (n : Z) : list Z := zrange_from (Z.to_nat n) 0.

Lemma in_zrange_from n s v : s <= v < s + Z.of_nat n -> In v (zrange_from n s).
Proof.
  revert s; induction n as [|n IH]; intros s H; [lia|].
  cbn [zrange_from]. destruct (Z.eq_dec s v) as [->|Hne]; [left; reflexivity|right].
  apply IH. lia.
Qed.

Lemma in_zrange n v : 0 <= v < n -> In v (zrange n).
Proof. intros H. apply in_zrange_from. rewrite Z2Nat.id; lia. Qed.

Lemma sweep (P : Z -> bool) n : forallb P (zrange n) = true -> forall v, 0 <= v < n -> P v = true.
Proof. intros H v Hv. rewrite forallb_forall in H. apply H, in_zrange, Hv. Qed.

(* first counterexample, for the violation search *)
Definition find_cex (P : Z -> bool) (n : Z) : option Z := find (fun v => negb (P v)) (zrange n).
