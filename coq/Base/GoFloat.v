(* L0: IEEE-754 binary64 / binary32 values and the Go operations on them (Flocq, BinarySingleNaN): conversion from
   integers, bit patterns, widening and narrowing, and float -> unsigned integer conversion as compiled for amd64.
   Shared by the hand-written codec model (Model/Codec.v) and by the functions the translator generates from
   fixedpoint.go (Gen/Fixed.v).  Definitions only. *)
From Coq Require Import ZArith List.
From Flocq Require Import Core BinarySingleNaN.
From Flocq Require Binary Bits.
Open Scope Z_scope.

Notation f64 := (BinarySingleNaN.binary_float 53 1024).
Notation f32 := (BinarySingleNaN.binary_float 24 128).
#[export] Instance P53 : Prec_gt_0 53 := refl_equal _.
#[export] Instance P1024 : Prec_lt_emax 53 1024 := refl_equal _.
#[export] Instance P24 : Prec_gt_0 24 := refl_equal _.
#[export] Instance P128 : Prec_lt_emax 24 128 := refl_equal _.

Definition nan64 : {x : Binary.binary_float 53 1024 | Binary.is_nan 53 1024 x = true} :=
  exist _ (Binary.B754_nan 53 1024 false (2 ^ 51)%positive (refl_equal _)) (refl_equal _).
Definition nan32 : {x : Binary.binary_float 24 128 | Binary.is_nan 24 128 x = true} :=
  exist _ (Binary.B754_nan 24 128 false (2 ^ 22)%positive (refl_equal _)) (refl_equal _).

Definition f64_of_bits (z : Z) : f64 := Binary.B2BSN 53 1024 (Bits.b64_of_bits z).
Definition bits_of_f64 (x : f64) : Z := Bits.bits_of_b64 (Binary.BSN2B 53 1024 nan64 x).
Definition f32_of_bits (z : Z) : f32 := Binary.B2BSN 24 128 (Bits.b32_of_bits z).
Definition bits_of_f32 (x : f32) : Z := Bits.bits_of_b32 (Binary.BSN2B 24 128 nan32 x).

(* float64(i) for an integer that fits (int32 / int64 with |i| < 2^53): exact *)
Definition f64_of_Z (i : Z) : f64 := BinarySingleNaN.binary_normalize 53 1024 P53 P1024 mode_NE i 0 false.
Definition factor1220 : f64 := f64_of_Z (2 ^ 20).
Definition factor1632 : f64 := f64_of_Z (2 ^ 32).

(* float64(float32) and float32(float64) *)
Definition widen (x : f32) : f64 :=
  match x with
  | B754_zero s => B754_zero s
  | B754_infinity s => B754_infinity s
  | B754_nan => B754_nan
  | B754_finite s m e _ => BinarySingleNaN.binary_normalize 53 1024 P53 P1024 mode_NE (cond_Zopp s (Zpos m)) e s
  end.
Definition narrow (x : f64) : f32 :=
  match x with
  | B754_zero s => B754_zero s
  | B754_infinity s => B754_infinity s
  | B754_nan => B754_nan
  | B754_finite s m e _ => BinarySingleNaN.binary_normalize 24 128 P24 P128 mode_NE (cond_Zopp s (Zpos m)) e s
  end.

(* uintN(f) as compiled for amd64: truncation through a signed 64-bit conversion; out of the int64 range
   (and NaN, infinities) the instruction yields 0x8000000000000000, whose low bits are 0 *)
Definition to_uint (w : Z) (x : f64) : Z :=
  let z := BinarySingleNaN.Btrunc x in
  if (Z.abs z <? 2 ^ 63) then z mod 2 ^ w else (2 ^ 63) mod 2 ^ w.

