(* element updates of a configuration slice that go through the GENERATED SetUint16 *)
From Coq Require Import ZArith List.
Require Import Base.Bytes Base.GoInt Base.GoBytes Gen.Funcs.
Open Scope Z_scope.

(* o[i].DataIdentifier.SetUint16(w) *)
Definition g_oset_id (o : oslice) (i w : Z) : R oslice :=
  g_oupd o i (fun s => let '(t, c, p, f) := s in let '(t', c', p') := f_DataIdentifier_SetUint16 t c p w in (t', c', p', f)).
(* o[i].OutputFrequency = v *)
Definition g_oset_freq (o : oslice) (i v : Z) : R oslice :=
  g_oupd o i (fun s => let '(t, c, p, _) := s in (t, c, p, v)).
(* o[i].F = v for the k-th field of a four-field setting *)
Definition g_oset_at (o : oslice) (i : Z) (k : Z) (v : Z) : R oslice :=
  g_oupd o i (fun s => let '(a, b, c, d) := s in
                       if k =? 0 then (v, b, c, d) else if k =? 1 then (a, v, c, d) else if k =? 2 then (a, b, v, d) else (a, b, c, v)).
