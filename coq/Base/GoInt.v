(* Go fixed-width integer arithmetic over Z: results of operations are wrapped explicitly. *)
From Coq Require Import ZArith.
Open Scope Z_scope.

Definition wrap_u (w : Z) (x : Z) : Z := x mod 2 ^ w.
Definition wrap_s (w : Z) (x : Z) : Z := (x + 2 ^ (w - 1)) mod 2 ^ w - 2 ^ (w - 1).
