(* arithmetic automation shared by the proof files: lia understands N/nat/bool and div/mod *)
From Coq Require Export ZArith Lia ZifyN ZifyNat ZifyBool.
Ltac Zify.zify_post_hook ::= Z.div_mod_to_equations.

Ltac ssplit := repeat match goal with |- _ /\ _ => split end.
