(* L0: the Go fragment that the translator renders statement by statement (go/xlate/bytesfn.go): functions over byte
   slices with integer arithmetic, indexing, slicing, early returns, counting loops and calls of each other.
   A term of type [R A] is a Go evaluation: a value or a run-time panic.  Slices are lists (capacity = length: an index
   or slice bound beyond the length panics; the harness exercises buffers with spare capacity separately).
   [int] arithmetic is unbounded (lengths and indices below 2^62); narrower integer types are wrapped by the
   translator (Base.GoInt).  Definitions only (executable). *)
From Coq Require Import ZArith NArith List Bool.
Require Import Base.Bytes Base.GoInt.
Import ListNotations.
Open Scope Z_scope.

Inductive R (A : Type) := Val (a : A) | Pan.
Arguments Val {A} a. Arguments Pan {A}.

Definition rbind {A B} (r : R A) (f : A -> R B) : R B := match r with Val a => f a | Pan => Pan end.
Notation "'do' x <- e ; k" := (rbind e (fun x => k)) (at level 200, x name, e at level 100, k at level 200).

Definition g_len (s : bytes) : Z := Z.of_nat (length s).

(* s[i] *)
Definition g_index (s : bytes) (i : Z) : R Z :=
  if (i <? 0) || (g_len s <=? i) then Pan else Val (Z.of_N (nth (Z.to_nat i) s 0%N)).

(* s[lo:hi] *)
Definition g_slice (s : bytes) (lo hi : Z) : R bytes :=
  if (lo <? 0) || (hi <? lo) || (g_len s <? hi) then Pan
  else Val (firstn (Z.to_nat (hi - lo)) (skipn (Z.to_nat lo) s)).

(* binary.BigEndian.Uint16(s) *)
Definition g_be16 (s : bytes) : R Z :=
  match s with a :: b :: _ => Val (Z.of_N (be16 a b)) | _ => Pan end.

(* bytes.Index(s, pat): first index of pat in s, or -1 *)
Fixpoint prefix_eqb (pat s : bytes) : bool :=
  match pat, s with
  | [], _ => true
  | p :: pt, x :: st => (p =? x)%N && prefix_eqb pt st
  | _ :: _, [] => false
  end.
Fixpoint g_bytes_index_from (s pat : bytes) (i : Z) : Z :=
  if prefix_eqb pat s then i else
  match s with
  | [] => -1
  | _ :: t => g_bytes_index_from t pat (i + 1)
  end.
Definition g_bytes_index (s pat : bytes) : Z := g_bytes_index_from s pat 0.

(* for i := lo; i < hi; i++ { st = body i st }   (body assigns neither i nor the bound) *)
Fixpoint g_for_n {S} (n : nat) (i : Z) (st : S) (body : Z -> S -> R S) : R S :=
  match n with
  | O => Val st
  | Datatypes.S k => do st' <- body i st; g_for_n k (i + 1) st' body
  end.
Definition g_for {S} (lo hi : Z) (st : S) (body : Z -> S -> R S) : R S := g_for_n (Z.to_nat (hi - lo)) lo st body.

Definition g_byte (z : Z) : byte := Z.to_N z.

(* make([]byte, n) *)
Definition g_make (n : Z) : R bytes := if n <? 0 then Pan else Val (repeat 0%N (Z.to_nat n)).
(* s[i] = v *)
Definition g_set (s : bytes) (i v : Z) : R bytes :=
  if (i <? 0) || (g_len s <=? i) then Pan else Val (upd s (Z.to_nat i) (g_byte v)).
(* binary.BigEndian.PutUint16(s[a:], v): the two bytes at a, a+1 *)
Definition g_put16 (s : bytes) (a v : Z) : R bytes :=
  if (a <? 0) || (g_len s <? a + 2) then Pan
  else Val (upd (upd s (Z.to_nat a) (g_byte ((v / 256) mod 256))) (Z.to_nat a + 1) (g_byte (v mod 256))).
(* copy(s[a:], y): as many bytes as fit *)
Definition g_copy (s : bytes) (a : Z) (y : bytes) : R bytes :=
  if (a <? 0) || (g_len s <? a) then Pan
  else let k := Nat.min (length y) (length s - Z.to_nat a) in
       Val (firstn (Z.to_nat a) s ++ firstn k y ++ skipn (Z.to_nat a + k) s).

(* binary.BigEndian.Uint32 / Uint64 *)
Definition g_be32 (s : bytes) : R Z := if (length s <? 4)%nat then Pan else Val (Z.of_N (be (firstn 4 s))).
Definition g_be64 (s : bytes) : R Z := if (length s <? 8)%nat then Pan else Val (Z.of_N (be (firstn 8 s))).
(* binary.BigEndian.PutUint32 / PutUint64 (s[a:], v): n bytes, most significant first *)
Definition g_putn (n : nat) (s : bytes) (a v : Z) : R bytes :=
  if (a <? 0) || (g_len s <? a + Z.of_nat n) then Pan
  else Val (firstn (Z.to_nat a) s ++ to_be n (Z.to_N (v mod 2 ^ (8 * Z.of_nat n))) ++ skipn (Z.to_nat a + n) s).
(* binary.BigEndian.PutUint16(s[a:hi], v) *)
Definition g_put16_in (s : bytes) (a hi v : Z) : R bytes :=
  if (a <? 0) || (hi <? a) || (g_len s <? hi) || (hi - a <? 2) then Pan
  else Val (upd (upd s (Z.to_nat a) (g_byte ((v / 256) mod 256))) (Z.to_nat a + 1) (g_byte (v mod 256))).

(* ---- slices of output configuration settings: the backing array up to the capacity, and the length ---- *)
Notation gsetting := (Z * Z * Z * Z)%type (only parsing).   (* data type, coordinate system, precision, output frequency *)
Definition gzero : gsetting := (0, 0, 0, 0).
Notation oslice := (list (Z * Z * Z * Z) * Z)%type (only parsing).
Definition g_ocap (o : oslice) : Z := Z.of_nat (length (fst o)).
Definition g_olen (o : oslice) : Z := snd o.
(* o[:hi] *)
Definition g_oreslice (o : oslice) (hi : Z) : R oslice :=
  if (hi <? 0) || (g_ocap o <? hi) then Pan else Val (fst o, hi).
(* make([]OutputConfigurationSetting, n) *)
Definition g_omake (n : Z) : R (list gsetting) := if n <? 0 then Pan else Val (repeat gzero (Z.to_nat n)).
(* append(o, l...): in place when the capacity suffices, otherwise a new backing array (its spare capacity is not
   modelled: capacity = new length) *)
Definition g_oappend (o : oslice) (l : list gsetting) : oslice :=
  let n := Z.to_nat (snd o) in
  if (g_olen o + Z.of_nat (length l) <=? g_ocap o)
  then (firstn n (fst o) ++ l ++ skipn (n + length l) (fst o), snd o + Z.of_nat (length l))
  else (firstn n (fst o) ++ l, snd o + Z.of_nat (length l)).
(* o[i] *)
Definition g_oget (o : oslice) (i : Z) : R gsetting :=
  if (i <? 0) || (g_olen o <=? i) then Pan else Val (nth (Z.to_nat i) (fst o) gzero).
Definition g_oupd (o : oslice) (i : Z) (f : gsetting -> gsetting) : R oslice :=
  if (i <? 0) || (g_olen o <=? i) then Pan
  else Val (upd (fst o) (Z.to_nat i) (f (nth (Z.to_nat i) (fst o) gzero)), snd o).

(* _, err := port.Write(x): the frame joins the port's output unless the write fails with the given error *)
Definition g_port_write (port : list bytes) (x : bytes) (pw_err : option Z) : list bytes * option Z :=
  match pw_err with None => (port ++ [x], None) | Some c => (port, Some c) end.

(* ---- texts: a string built from bytes, or a formatted text kept as its format and integer arguments ---- *)
Require Import Coq.Strings.String.
Inductive gstring := GText (b : bytes) | GFmt (f : string) (args : list Z).
(* strings.TrimSpace on ASCII text: \t \n \v \f \r and space dropped from both ends *)
Definition g_is_space (b : byte) : bool := ((9 <=? b)%N && (b <=? 13)%N) || (b =? 32)%N.
Fixpoint g_drop_space (d : bytes) : bytes :=
  match d with b :: t => if g_is_space b then g_drop_space t else d | [] => [] end.
Definition g_trimspace (s : gstring) : gstring :=
  match s with GText d => GText (rev (g_drop_space (rev (g_drop_space d)))) | other => other end.
