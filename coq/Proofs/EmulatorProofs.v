(* C18: the emulator's mode machine and Transmit. *)
From Coq Require Import ZArith List Bool Lia.
Require Import Base.Bytes Model.Frame Model.Config Model.Emulator Spec.FrameSpec Proofs.FrameProofs.
Import ListNotations.
Open Scope Z_scope.

Lemma step_mode s e :
  match mode_effect s e with
  | Some b => measuring (snd (estep s e)) = b
  | None => measuring (snd (estep s e)) = measuring s
  end.
Proof.
  destruct e as [f| |cfg|m|dt|]; cbn [mode_effect estep]; try reflexivity.
  - destruct (ealive s); cbn [negb]; [|reflexivity].
    destruct (validate f) eqn:V; try reflexivity.
    destruct (accessors_in_bounds f V) as (Hid & _ & _ & Hmd & _). rewrite Hid, Hmd.
    destruct (Z.eqb_spec (Z.of_N (nthb f 2)) mid_goto_config); [reflexivity|].
    destruct (Z.eqb_spec (Z.of_N (nthb f 2)) mid_set_outconf); [reflexivity|].
    destruct (Z.eqb_spec (Z.of_N (nthb f 2)) mid_goto_meas); reflexivity.
  - unfold measuring. destruct (emode s =? mid_meas) eqn:E; cbn [negb snd]; [|exact E].
    destruct (validate m); cbn [snd emode]; exact E.
Qed.

(* the most recent mode-affecting event of a history, following the states it passes through *)
Fixpoint last_effect (s : emu) (es : list eevent) (acc : option bool) : option bool :=
  match es with
  | [] => acc
  | e :: t => last_effect (snd (estep s e)) t (match mode_effect s e with Some b => Some b | None => acc end)
  end.

Lemma erun_snd s e t : snd (erun s (e :: t)) = snd (erun (snd (estep s e)) t).
Proof. cbn [erun]. destruct (estep s e) as [o s']. cbn [snd]. destruct (erun s' t) as [os s'']. reflexivity. Qed.

(* measurement mode holds exactly when the most recent mode-affecting event is go-to-measurement or the send-mode
   switch; go-to-config and set-output-configuration leave it: for every history of events *)
Theorem measuring_iff_last_event es : forall s acc, (acc = None \/ acc = Some (measuring s)) ->
  measuring (snd (erun s es)) = match last_effect s es acc with Some b => b | None => measuring s end.
Proof.
  induction es as [|e t IH]; intros s acc Hacc.
  - cbn. destruct Hacc as [->| ->]; reflexivity.
  - rewrite erun_snd. cbn [last_effect]. pose proof (step_mode s e) as Hs.
    destruct (mode_effect s e) as [b|].
    + rewrite (IH (snd (estep s e)) (Some b)) by (right; rewrite Hs; reflexivity).
      destruct (last_effect (snd (estep s e)) t (Some b)) as [b'|] eqn:E; [reflexivity|].
      exfalso. clear -E. revert E. generalize (snd (estep s e)). generalize b.
      induction t as [|e' t' IH']; intros b0 s0 E; cbn [last_effect] in E; [discriminate|].
      destruct (mode_effect s0 e'); eapply IH'; exact E.
    + rewrite (IH (snd (estep s e)) acc).
      * rewrite Hs. reflexivity.
      * destruct Hacc as [->| ->]; [left; reflexivity|right; rewrite Hs; reflexivity].
Qed.

(* Transmit: outside measurement mode nothing is written; in it a malformed frame is not written and the
   validation failure is reported; a well-formed frame is written exactly once, unchanged *)
Theorem transmit_spec s m :
  let '(o, s') := estep s (ETransmit m) in
  (measuring s = false -> o = OTx 1 [] /\ s' = s) /\
  (measuring s = true -> wf_frame m -> o = OTx 0 [m] /\ eport s' = eport s ++ [m] /\ emode s' = emode s /\ econf s' = econf s) /\
  (measuring s = true -> ~ wf_frame m -> o = OTx 2 [] /\ s' = s).
Proof.
  cbn [estep]. destruct (measuring s) eqn:M; cbn [negb].
  - destruct (validate m) eqn:V.
    + split; [intros; discriminate|]. split.
      * intros _ _. cbn [eport emode econf]. repeat split; reflexivity.
      * intros _ Hn. exfalso. apply Hn. apply validate_iff_wf. exact V.
    + split; [intros; discriminate|]. split.
      * intros _ Hw. apply validate_iff_wf in Hw. congruence.
      * intros _ _. split; reflexivity.
    + exfalso. exact (validate_never_oob m V).
  - split; [intros _; split; reflexivity|]. split; intros; discriminate.
Qed.

(* nothing but acknowledges of handled commands and transmitted well-formed frames ever reaches the port *)
Theorem port_only_wf s e : Forall wf_frame (eport s) -> Forall wf_frame (eport (snd (estep s e))).
Proof.
  intros H. destruct e as [f| |cfg|m|dt|]; cbn [estep]; try exact H.
  - destruct (ealive s); cbn [negb]; [|exact H].
    destruct (validate f) eqn:V; try exact H.
    destruct (identifier f); [|exact H]. destruct (msg_data f); [|exact H].
    repeat match goal with |- context [if ?c then _ else _] => destruct c end; cbn [snd eport with_mode]; try exact H;
      (apply Forall_app; split; [exact H|constructor; [|constructor]]);
      apply (proj1 (new_message_wf _ [] ltac:(cbn; lia))).
  - destruct (measuring s); cbn [negb]; [|exact H]. destruct (validate m) eqn:V; try exact H.
    cbn [snd eport]. apply Forall_app. split; [exact H|constructor; [|constructor]]. apply validate_iff_wf. exact V.
Qed.
