(* C07: packet extraction. *)
Require Import Base.Bytes Base.Tactics Base.ListX Model.Packet Spec.FrameSpec Proofs.FrameProofs.
Open Scope N_scope.

Theorem packet_at_spec m i : (i <= length m)%nat ->
  packet_at m i <> OOB /\ packet_at m i <> Panic /\ packet_at m i <> OutOfFuel /\
  ((i + 3 <= length m)%nat /\ (i + 3 + N.to_nat (nthb m (i + 2)) <= length m)%nat ->
     packet_at m i = Ok (sub m i (3 + N.to_nat (nthb m (i + 2))))) /\
  (~ ((i + 3 <= length m)%nat /\ (i + 3 + N.to_nat (nthb m (i + 2)) <= length m)%nat) ->
     packet_at m i = Err insufficient).
Proof.
  intros Hi. unfold packet_at.
  destruct (Nat.ltb_spec (length m) (i + 3)) as [H3|H3].
  - ssplit; try discriminate; [intros [? ?]; lia|reflexivity].
  - rewrite get_nthb by lia.
    destruct (Nat.ltb_spec (length m) (i + 3 + N.to_nat (nthb m (i + 2)))) as [HL|HL].
    + ssplit; try discriminate; [intros [? ?]; lia|reflexivity].
    + ssplit; try discriminate; [reflexivity|intros H; exfalso; apply H; lia].
Qed.

(* total on every offset, also beyond the payload (Go: i > len(m) gives "insufficient data") *)
Theorem packet_at_total m i : packet_at m i <> OOB /\ packet_at m i <> Panic /\ packet_at m i <> OutOfFuel.
Proof.
  unfold packet_at. destruct (Nat.ltb_spec (length m) (i + 3)) as [H3|H3]; [ssplit; discriminate|].
  rewrite get_nthb by lia. destruct (_ <? _)%nat; ssplit; discriminate.
Qed.

(* the returned packet lies inside the payload: it is the sub-list at [i, i+len) *)
Theorem packet_at_inside m i p : packet_at m i = Ok p ->
  (i + length p <= length m)%nat /\ p = sub m i (length p) /\ (3 <= length p)%nat /\
  length p = (3 + N.to_nat (nthb p 2))%nat.
Proof.
  unfold packet_at. destruct (Nat.ltb_spec (length m) (i + 3)) as [H3|H3]; [discriminate|].
  rewrite get_nthb by lia.
  destruct (Nat.ltb_spec (length m) (i + 3 + N.to_nat (nthb m (i + 2)))) as [HL|HL]; [discriminate|].
  intros E. assert (Ep : p = sub m i (3 + N.to_nat (nthb m (i + 2)))) by congruence. subst p. clear E.
  assert (Hl : length (sub m i (3 + N.to_nat (nthb m (i + 2)))) = (3 + N.to_nat (nthb m (i + 2)))%nat)
    by (apply sub_length; lia).
  rewrite Hl. ssplit; try lia; try reflexivity.
  f_equal. f_equal. unfold nthb, sub.
  rewrite nth_firstn_lt by lia. rewrite nth_skipn. reflexivity.
Qed.

Definition wf_packet (p : bytes) : Prop := (3 <= length p)%nat /\ length p = (3 + N.to_nat (nthb p 2))%nat.

Lemma packet_at_app pre p rest : wf_packet p -> packet_at (pre ++ p ++ rest) (length pre) = Ok p.
Proof.
  intros [H3 HL]. unfold packet_at. rewrite !app_length.
  destruct (Nat.ltb_spec (length pre + (length p + length rest)) (length pre + 3)); [lia|].
  assert (Hg : get (pre ++ p ++ rest) (length pre + 2) = Some (nthb p 2)).
  { unfold get. rewrite nth_error_app2 by lia. replace (length pre + 2 - length pre)%nat with 2%nat by lia.
    rewrite nth_error_app1 by lia. apply get_nthb. lia. }
  rewrite Hg.
  destruct (Nat.ltb_spec (length pre + (length p + length rest)) (length pre + 3 + N.to_nat (nthb p 2))); [lia|].
  f_equal. unfold sub. rewrite skipn_app_exact. rewrite <- HL. apply firstn_app_exact.
Qed.

Lemma packet_at_end m : packet_at m (length m) = Err insufficient.
Proof. unfold packet_at. destruct (Nat.ltb_spec (length m) (length m + 3)); [reflexivity|lia]. Qed.

Lemma walk_concat_gen ps : forall pre fuel, Forall wf_packet ps -> (length ps < fuel)%nat ->
  walk fuel (pre ++ concat ps) (length pre) = (ps, (length pre + length (concat ps))%nat).
Proof.
  induction ps as [|p ps IH]; intros pre fuel Hwf Hf.
  - destruct fuel as [|f]; [lia|]. cbn [concat walk]. rewrite app_nil_r, packet_at_end. cbn. f_equal. lia.
  - destruct fuel as [|f]; [cbn in Hf; lia|]. cbn [concat walk].
    inversion Hwf as [|? ? Hp Hps]; subst.
    rewrite packet_at_app by exact Hp.
    replace (pre ++ p ++ concat ps) with ((pre ++ p) ++ concat ps) by (rewrite app_assoc; reflexivity).
    replace (length pre + length p)%nat with (length (pre ++ p)) by (rewrite app_length; reflexivity).
    rewrite IH by (try assumption; cbn [length] in Hf; lia).
    f_equal. rewrite !app_length. lia.
Qed.

Theorem walk_concat ps : Forall wf_packet ps ->
  walk (S (length (concat ps))) (concat ps) 0 = (ps, length (concat ps)).
Proof.
  intros Hwf.
  assert (Hn : (length ps <= length (concat ps))%nat).
  { induction Hwf as [|p ps [H3 _] _ IH]; [cbn; lia|]. cbn [concat length]. rewrite app_length. lia. }
  exact (walk_concat_gen ps [] (S (length (concat ps))) Hwf ltac:(lia)).
Qed.

(* every step of a walk consumes at least 3 bytes, so it reports at most len/3 packets *)
Theorem walk_bound fuel m i ps j : walk fuel m i = (ps, j) -> (i <= length m)%nat ->
  (i + 3 * length ps <= j)%nat /\ (j <= length m)%nat.
Proof.
  revert i ps j; induction fuel as [|f IH]; intros i ps j E Hi; cbn [walk] in E.
  - injection E as <- <-. cbn. lia.
  - destruct (packet_at m i) as [p| | | |] eqn:Ep; try (injection E as <- <-; cbn; lia).
    destruct (packet_at_inside m i p Ep) as (H1 & _ & H3 & _).
    destruct (walk f m (i + length p)) as [ps' j'] eqn:Ew. injection E as <- <-.
    destruct (IH _ _ _ Ew ltac:(lia)) as [A B]. cbn [length]. lia.
Qed.

(* NewMTData2Package *)
Theorem new_packet_spec len wire : len < 256 -> wire < 65536 ->
  let p := new_packet len wire in
  wf_packet p /\ pkt_wire p = Some wire /\ nthb p 2 = len /\
  pkt_data p = Some (repeat 0 (N.to_nat len)) /\ length p = (3 + N.to_nat len)%nat /\ wf_bytes p.
Proof.
  intros Hl Hw p. unfold p, new_packet, wf_packet, pkt_wire, pkt_data, nthb, get.
  cbn [app length nth nth_error skipn]. rewrite repeat_length.
  ssplit; try reflexivity; try lia.
  - f_equal. unfold be16. lia.
  - unfold wf_bytes. constructor; [apply N.mod_upper_bound; discriminate|].
    constructor; [apply N.mod_upper_bound; discriminate|]. constructor; [exact Hl|].
    apply Forall_forall. intros x Hx. apply repeat_spec in Hx. subst x. lia.
Qed.
