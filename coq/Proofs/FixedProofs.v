(* C05: fixed point 12.20 / 16.32 <-> float64, over the reals (Flocq). *)
From Coq Require Import ZArith Reals Lia Lra Psatz List.
From Flocq Require Import Core BinarySingleNaN.
Require Import Base.Bytes Model.Codec.
Import ListNotations.
Open Scope Z_scope.

Local Notation fexp64 := (SpecFloat.fexp 53 1024).

Lemma fmt_small : forall i e, Z.abs i < 2 ^ 53 -> -1074 <= e ->
  generic_format radix2 fexp64 (F2R (Float radix2 i e)).
Proof.
  intros i e Hi He.
  apply (generic_format_FLT radix2 (-1074) 53).
  exists (Float radix2 i e); simpl; auto.
Qed.

Lemma F2R_lt_emax i e : Z.abs i < 2 ^ 53 -> e <= 900 -> (Rabs (F2R (Float radix2 i e)) < bpow radix2 1024)%R.
Proof.
  intros Hi He. rewrite <- F2R_Zabs.
  apply Rlt_le_trans with (F2R (Float radix2 (2 ^ 53) e)).
  - apply F2R_lt. exact Hi.
  - unfold F2R; cbn [Fnum Fexp].
    replace (IZR (2 ^ 53)) with (bpow radix2 53) by (rewrite <- (IZR_Zpower radix2 53) by lia; reflexivity).
    rewrite <- bpow_plus. apply bpow_le. lia.
Qed.

(* float64(i) is exact for |i| < 2^53 *)
Lemma f64_of_Z_exact i : Z.abs i < 2 ^ 53 ->
  B2R (f64_of_Z i) = IZR i /\ is_finite (f64_of_Z i) = true /\
  Bsign (f64_of_Z i) = (i <? 0).
Proof.
  intros Hi. unfold f64_of_Z.
  generalize (binary_normalize_correct 53 1024 P53 P1024 mode_NE i 0 false). cbv zeta.
  rewrite round_generic; [|apply valid_rnd_N|apply fmt_small; lia].
  rewrite Rlt_bool_true by (apply F2R_lt_emax; lia).
  intros (H1 & H2 & H3). replace (F2R (Float radix2 i 0)) with (IZR i) in * by (unfold F2R; cbn; lra).
  repeat split; try assumption. rewrite H3.
  destruct (Z.ltb_spec i 0) as [Hn|Hn].
  - rewrite Rcompare_Lt; [reflexivity|]. apply IZR_lt. exact Hn.
  - destruct (Z.eq_dec i 0) as [->|Hz].
    + rewrite Rcompare_Eq; reflexivity.
    + rewrite Rcompare_Gt; [reflexivity|]. apply IZR_lt. lia.
Qed.

Lemma pow2_IZR k : 0 <= k -> IZR (2 ^ k) = bpow radix2 k.
Proof. intros Hk. rewrite <- (IZR_Zpower radix2 k) by exact Hk. reflexivity. Qed.

(* float64(i) / 2^k is exactly i * 2^-k *)
Lemma fp_div_exact i k : Z.abs i < 2 ^ 53 -> 0 <= k <= 52 ->
  B2R (Bdiv mode_NE (f64_of_Z i) (f64_of_Z (2 ^ k))) = F2R (Float radix2 i (- k)) /\
  is_finite (Bdiv mode_NE (f64_of_Z i) (f64_of_Z (2 ^ k))) = true.
Proof.
  intros Hi Hk.
  assert (Hk2 : Z.abs (2 ^ k) < 2 ^ 53).
  { rewrite Z.abs_eq by (apply Z.pow_nonneg; lia). apply Z.pow_lt_mono_r; lia. }
  destruct (f64_of_Z_exact i Hi) as (Ri & Fi & _).
  destruct (f64_of_Z_exact (2 ^ k) Hk2) as (Rk & Fk & _).
  assert (Hnz : B2R (f64_of_Z (2 ^ k)) <> 0%R).
  { rewrite Rk, pow2_IZR by lia. apply Rgt_not_eq. apply bpow_gt_0. }
  generalize (Bdiv_correct 53 1024 P53 P1024 mode_NE (f64_of_Z i) (f64_of_Z (2 ^ k)) Hnz).
  rewrite Ri, Rk, pow2_IZR by lia.
  assert (E : (IZR i / bpow radix2 k)%R = F2R (Float radix2 i (- k))).
  { unfold F2R; cbn [Fnum Fexp]. rewrite bpow_opp. reflexivity. }
  rewrite E.
  rewrite round_generic; [|apply valid_rnd_N|apply fmt_small; lia].
  rewrite Rlt_bool_true by (apply F2R_lt_emax; lia).
  intros (H1 & H2 & _). split; [exact H1|]. rewrite H2. exact Fi.
Qed.

(* ---- integers carried by the wire patterns ---- *)
Lemma sint_range w u : 0 < w -> 0 <= u < 2 ^ w -> - 2 ^ (w - 1) <= sint w u < 2 ^ (w - 1).
Proof.
  intros Hw Hu. unfold sint.
  assert (E : 2 ^ w = 2 * 2 ^ (w - 1)) by (rewrite <- Z.pow_succ_r by lia; f_equal; lia).
  assert (Hp : 0 < 2 ^ (w - 1)) by (apply Z.pow_pos_nonneg; lia).
  destruct (Z.ltb_spec u (2 ^ (w - 1))); lia.
Qed.

Lemma be_bound l : wf_bytes l -> (be l < 256 ^ N.of_nat (length l))%N.
Proof.
  intros H. unfold be.
  assert (G : forall l acc, wf_bytes l -> (be_of l acc < (acc + 1) * 256 ^ N.of_nat (length l))%N).
  { induction l0 as [|b t IH]; intros acc Hw; cbn [be_of length].
    - cbn. lia.
    - inversion Hw as [|? ? Hb Ht]; subst. specialize (IH (acc * 256 + b)%N Ht).
      rewrite Nat2N.inj_succ, N.pow_succ_r'. nia. }
  specialize (G l 0%N H). rewrite N.add_0_l, N.mul_1_l in G. exact G.
Qed.

Lemma firstn_wf n l : wf_bytes l -> wf_bytes (firstn n l).
Proof.
  intros H. unfold wf_bytes in *. rewrite Forall_forall in *. intros x Hx. apply H.
  rewrite <- (firstn_skipn n l). apply in_or_app. left. exact Hx.
Qed.
Lemma skipn_wf n l : wf_bytes l -> wf_bytes (skipn n l).
Proof.
  intros H. unfold wf_bytes in *. rewrite Forall_forall in *. intros x Hx. apply H.
  rewrite <- (firstn_skipn n l). apply in_or_app. right. exact Hx.
Qed.

Lemma be_firstn4_bound b : wf_bytes b -> 0 <= Z.of_N (be (firstn 4 b)) < 2 ^ 32.
Proof.
  intros H. pose proof (be_bound (firstn 4 b) (firstn_wf 4 b H)) as Hb.
  assert (Hl : (length (firstn 4 b) <= 4)%nat) by (rewrite firstn_length; lia).
  assert ((256 ^ N.of_nat (length (firstn 4 b)) <= 256 ^ 4)%N) by (apply N.pow_le_mono_r; lia).
  change (256 ^ 4)%N with 4294967296%N in *. lia.
Qed.

Definition fp1220_int (b : bytes) : Z := sint 32 (Z.of_N (be (firstn 4 b))).

Lemma fp1220_int_range b : wf_bytes b -> - 2 ^ 31 <= fp1220_int b < 2 ^ 31.
Proof. intros H. unfold fp1220_int. apply (sint_range 32); [lia|apply be_firstn4_bound; exact H]. Qed.

Lemma fp1632_int_range b : wf_bytes b -> - 2 ^ 47 <= fp1632_int b < 2 ^ 47.
Proof.
  intros H. unfold fp1632_int. apply (sint_range 48); [lia|].
  pose proof (be_firstn4_bound b H) as H4.
  pose proof (be_bound (firstn 2 (skipn 4 b)) (firstn_wf 2 _ (skipn_wf 4 b H))) as H2.
  assert (Hl : (length (firstn 2 (skipn 4 b)) <= 2)%nat) by (rewrite firstn_length; lia).
  assert ((256 ^ N.of_nat (length (firstn 2 (skipn 4 b))) <= 256 ^ 2)%N) by (apply N.pow_le_mono_r; lia).
  change (256 ^ 2)%N with 65536%N in *. lia.
Qed.

(* ---- exactness: for EVERY bit pattern ---- *)
Theorem fp1220_exact b : wf_bytes b ->
  B2R (fp1220_float64 b) = (IZR (fp1220_int b) / 2 ^ 20)%R /\ is_finite (fp1220_float64 b) = true.
Proof.
  intros H. pose proof (fp1220_int_range b H) as Hr.
  destruct (fp_div_exact (fp1220_int b) 20 ltac:(lia) ltac:(lia)) as [E F].
  unfold fp1220_float64, factor1220. fold (fp1220_int b). split; [|exact F].
  rewrite E. unfold F2R; cbn [Fnum Fexp]. rewrite bpow_opp. unfold Rdiv. f_equal. f_equal.
  rewrite <- pow2_IZR by lia. rewrite pow_IZR. f_equal.
Qed.

Theorem fp1632_exact b : wf_bytes b ->
  B2R (fp1632_float64 b) = (IZR (fp1632_int b) / 2 ^ 32)%R /\ is_finite (fp1632_float64 b) = true.
Proof.
  intros H. pose proof (fp1632_int_range b H) as Hr.
  destruct (fp_div_exact (fp1632_int b) 32 ltac:(lia) ltac:(lia)) as [E F].
  unfold fp1632_float64, factor1632. split; [|exact F].
  rewrite E. unfold F2R; cbn [Fnum Fexp]. rewrite bpow_opp. unfold Rdiv. f_equal. f_equal.
  rewrite <- pow2_IZR by lia. rewrite pow_IZR. f_equal.
Qed.

(* strictly order preserving (as two's-complement integers) *)
Theorem fp1220_strictly_monotone a b : wf_bytes a -> wf_bytes b ->
  fp1220_int a < fp1220_int b -> (B2R (fp1220_float64 a) < B2R (fp1220_float64 b))%R.
Proof.
  intros Ha Hb Hlt. rewrite (proj1 (fp1220_exact a Ha)), (proj1 (fp1220_exact b Hb)).
  unfold Rdiv. apply Rmult_lt_compat_r; [apply Rinv_0_lt_compat; apply pow_lt; lra|apply IZR_lt; exact Hlt].
Qed.

Theorem fp1632_strictly_monotone a b : wf_bytes a -> wf_bytes b ->
  fp1632_int a < fp1632_int b -> (B2R (fp1632_float64 a) < B2R (fp1632_float64 b))%R.
Proof.
  intros Ha Hb Hlt. rewrite (proj1 (fp1632_exact a Ha)), (proj1 (fp1632_exact b Hb)).
  unfold Rdiv. apply Rmult_lt_compat_r; [apply Rinv_0_lt_compat; apply pow_lt; lra|apply IZR_lt; exact Hlt].
Qed.

(* ---- encoding ---- *)
Lemma fexp64_FLT e : fexp64 e = FLT_exp (-1074) 53 e.
Proof. reflexivity. Qed.

(* a finite double times 2^k (k >= 0) is computed exactly by Bmult, as long as it stays below 2^1024 *)
Lemma mult_pow2_exact (x : f64) k : is_finite x = true -> 0 <= k <= 52 ->
  (Rabs (B2R x * bpow radix2 k) < bpow radix2 1024)%R ->
  B2R (Bmult mode_NE x (f64_of_Z (2 ^ k))) = (B2R x * bpow radix2 k)%R /\
  is_finite (Bmult mode_NE x (f64_of_Z (2 ^ k))) = true.
Proof.
  intros Hf Hk Hlt.
  assert (Hk2 : Z.abs (2 ^ k) < 2 ^ 53).
  { rewrite Z.abs_eq by (apply Z.pow_nonneg; lia). apply Z.pow_lt_mono_r; lia. }
  destruct (f64_of_Z_exact (2 ^ k) Hk2) as (Rk & Fk & _).
  generalize (Bmult_correct 53 1024 P53 P1024 mode_NE x (f64_of_Z (2 ^ k))).
  rewrite Rk, pow2_IZR by lia.
  assert (Hfmt : generic_format radix2 fexp64 (B2R x * bpow radix2 k)).
  { destruct (FLT_format_generic radix2 (-1074) 53 (B2R x) (generic_format_B2R 53 1024 x)) as [[mx ex] H1 H2 H3].
    cbn [Fnum Fexp] in H2, H3. rewrite H1.
    replace (F2R (Float radix2 mx ex) * bpow radix2 k)%R with (F2R (Float radix2 mx (ex + k))).
    - apply fmt_small; [exact H2|lia].
    - unfold F2R; cbn [Fnum Fexp]. rewrite bpow_plus. ring. }
  rewrite round_generic; [|apply valid_rnd_N|exact Hfmt].
  rewrite Rlt_bool_true by exact Hlt.
  intros (H1 & H2 & _). split; [exact H1|]. rewrite H2, Hf, Fk. reflexivity.
Qed.

Lemma Btrunc_IZR (y : f64) z : B2R y = IZR z -> Btrunc y = z.
Proof.
  intros H. apply eq_IZR. rewrite (Btrunc_correct 53 1024 P1024 y), H.
  rewrite round_generic; [reflexivity|apply valid_rnd_ZR|].
  apply generic_format_FIX. exists (Float radix2 z 0); [unfold F2R; cbn; ring|reflexivity].
Qed.

Lemma to_be_snoc n v : to_be (S n) v = to_be n (v / 256)%N ++ [(v mod 256)%N].
Proof. reflexivity. Qed.

Lemma be_snoc l x : be (l ++ [x]) = (be l * 256 + x)%N.
Proof.
  unfold be. assert (G : forall l acc, be_of (l ++ [x]) acc = (be_of l acc * 256 + x)%N).
  { induction l0 as [|b t IH]; intros acc; cbn [app be_of]; [reflexivity|apply IH]. }
  apply G.
Qed.

Lemma to_be_be l : wf_bytes l -> to_be (length l) (be l) = l.
Proof.
  induction l as [|x l IH] using rev_ind; intros H; [reflexivity|].
  rewrite app_length. cbn [length]. rewrite Nat.add_1_r, to_be_snoc, be_snoc.
  assert (Hx : (x < 256)%N).
  { unfold wf_bytes in H. rewrite Forall_forall in H. apply H. apply in_or_app. right. left. reflexivity. }
  assert (Hl : wf_bytes l).
  { unfold wf_bytes in *. rewrite Forall_forall in *. intros y Hy. apply H. apply in_or_app. left. exact Hy. }
  replace ((be l * 256 + x) / 256)%N with (be l) by (apply N.div_unique with x; lia).
  replace ((be l * 256 + x) mod 256)%N with x by (apply N.mod_unique with (be l); lia).
  rewrite IH by exact Hl. reflexivity.
Qed.

Lemma sint_mod w u : 0 < w -> 0 <= u < 2 ^ w -> (sint w u) mod 2 ^ w = u.
Proof.
  intros Hw Hu. unfold sint. destruct (Z.ltb_spec u (2 ^ (w - 1))).
  - apply Z.mod_small. lia.
  - replace (u - 2 ^ w) with (u + (-1) * 2 ^ w) by ring. rewrite Z.mod_add by lia. apply Z.mod_small. lia.
Qed.

(* encoding the decoded value gives back the same bit pattern: for every pattern *)
Theorem fp1220_encode_decode b : wf_bytes b -> length b = 4%nat -> fp1220_from (fp1220_float64 b) = b.
Proof.
  intros Hw Hl. destruct (fp1220_exact b Hw) as [E F]. pose proof (fp1220_int_range b Hw) as Hr.
  assert (Ey : (B2R (fp1220_float64 b) * bpow radix2 20)%R = IZR (fp1220_int b)).
  { rewrite E. unfold Rdiv. rewrite Rmult_assoc. rewrite <- (pow2_IZR 20) by lia.
    replace (/ 2 ^ 20 * IZR (2 ^ 20))%R with 1%R; [ring|]. rewrite pow_IZR. change (Z.of_nat 20) with 20. field.
    apply IZR_neq. lia. }
  destruct (mult_pow2_exact (fp1220_float64 b) 20 F ltac:(lia)) as [M MF].
  { rewrite Ey. rewrite <- (Rabs_Zabs (fp1220_int b)) || rewrite <- abs_IZR.
    apply Rlt_trans with (IZR (2 ^ 53)); [apply IZR_lt; lia|]. rewrite pow2_IZR by lia. apply bpow_lt. lia. }
  unfold fp1220_from, factor1220, to_uint. rewrite (Btrunc_IZR _ (fp1220_int b)) by (rewrite M; exact Ey).
  destruct (Z.ltb_spec (Z.abs (fp1220_int b)) (2 ^ 63)); [|lia].
  unfold fp1220_int, zbe. rewrite firstn_all2 by lia.
  pose proof (be_firstn4_bound b Hw) as Hb. rewrite firstn_all2 in Hb by lia.
  change (8 * Z.of_nat 4) with 32. rewrite Z.mod_mod by lia. rewrite (sint_mod 32) by lia.
  rewrite N2Z.id. rewrite <- Hl. apply to_be_be. exact Hw.
Qed.

Ltac Zify.zify_post_hook ::= Z.div_mod_to_equations.

Lemma to_be8 v : to_be 8 v =
  [(v / 256 / 256 / 256 / 256 / 256 / 256 / 256) mod 256; (v / 256 / 256 / 256 / 256 / 256 / 256) mod 256;
   (v / 256 / 256 / 256 / 256 / 256) mod 256; (v / 256 / 256 / 256 / 256) mod 256; (v / 256 / 256 / 256) mod 256;
   (v / 256 / 256) mod 256; (v / 256) mod 256; v mod 256]%N.
Proof. reflexivity. Qed.

Theorem fp1632_encode_decode b : wf_bytes b -> length b = 6%nat -> fp1632_from (fp1632_float64 b) = b.
Proof.
  intros Hw Hl. destruct (fp1632_exact b Hw) as [E F]. pose proof (fp1632_int_range b Hw) as Hr.
  assert (Ey : (B2R (fp1632_float64 b) * bpow radix2 32)%R = IZR (fp1632_int b)).
  { rewrite E. unfold Rdiv. rewrite Rmult_assoc. rewrite <- (pow2_IZR 32) by lia.
    replace (/ 2 ^ 32 * IZR (2 ^ 32))%R with 1%R; [ring|]. rewrite pow_IZR. change (Z.of_nat 32) with 32. field.
    apply IZR_neq. lia. }
  destruct (mult_pow2_exact (fp1632_float64 b) 32 F ltac:(lia)) as [M MF].
  { rewrite Ey. rewrite <- abs_IZR.
    apply Rlt_trans with (IZR (2 ^ 53)); [apply IZR_lt; lia|]. rewrite pow2_IZR by lia. apply bpow_lt. lia. }
  unfold fp1632_from, factor1632, to_uint. rewrite (Btrunc_IZR _ (fp1632_int b)) by (rewrite M; exact Ey).
  destruct (Z.ltb_spec (Z.abs (fp1632_int b)) (2 ^ 63)); [|lia].
  clear E F Ey M MF.
  destruct b as [|b0 [|b1 [|b2 [|b3 [|b4 [|b5 [|b6 bt]]]]]]]; cbn [length] in Hl; try lia.
  assert (Hb : (b0 < 256 /\ b1 < 256 /\ b2 < 256 /\ b3 < 256 /\ b4 < 256 /\ b5 < 256)%N).
  { unfold wf_bytes in Hw. rewrite Forall_forall in Hw. repeat split; apply Hw; cbn; tauto. }
  destruct Hb as (H0 & H1 & H2 & H3 & H4 & H5).
  unfold fp1632_int in *. cbn [firstn skipn] in *. unfold be in *. cbn [be_of] in *.
  unfold zbe. change (8 * Z.of_nat 8) with 64. rewrite Z.mod_mod by lia. rewrite to_be8. cbn [firstn skipn app].
  set (u := (((0 * 256 + b4) * 256 + b5) * 2 ^ 32 + ((((0 * 256 + b0) * 256 + b1) * 256 + b2) * 256 + b3))%N) in *.
  assert (Hu : Z.of_N u = ((Z.of_N b4 * 256 + Z.of_N b5) * 4294967296 + (((Z.of_N b0 * 256 + Z.of_N b1) * 256 + Z.of_N b2) * 256 + Z.of_N b3))).
  { unfold u. lia. }
  set (v := Z.to_N (sint 48 (Z.of_N u) mod 2 ^ 64)).
  assert (Hv : Z.of_N v = Z.of_N u \/ Z.of_N v = Z.of_N u - 2 ^ 48 + 2 ^ 64).
  { unfold v. rewrite Z2N.id by (apply Z.mod_pos_bound; lia). unfold sint.
    destruct (Z.ltb_spec (Z.of_N u) (2 ^ (48 - 1))).
    - left. apply Z.mod_small. lia.
    - right. change (2 ^ 48) with 281474976710656. change (2 ^ 64) with 18446744073709551616.
      assert (Z.of_N u < 281474976710656) by lia.
      symmetry. apply (Z.mod_unique _ _ (-1)); lia. }
  clearbody v u. clear H Hr.
  change (2 ^ 48) with 281474976710656 in Hv. change (2 ^ 64) with 18446744073709551616 in Hv.
  assert (Hx : exists X, v = ((((((X * 256 + b4) * 256 + b5) * 256 + b0) * 256 + b1) * 256 + b2) * 256 + b3)%N).
  { destruct Hv as [Hv|Hv]; [exists 0%N|exists 65535%N]; lia. }
  destruct Hx as [X ->].
  assert (Dh : forall a b : N, (b < 256)%N -> ((a * 256 + b) / 256 = a)%N).
  { intros a b Hb. rewrite N.div_add_l by discriminate. rewrite (N.div_small b) by exact Hb. apply N.add_0_r. }
  assert (Mh : forall a b : N, (b < 256)%N -> ((a * 256 + b) mod 256 = b)%N).
  { intros a b Hb. rewrite N.add_comm, N.mod_add by discriminate. apply N.mod_small. exact Hb. }
  rewrite !Dh, !Mh by assumption. reflexivity.
Qed.

(* ---- quantisation: encode an in-range float, decode it again ---- *)
Lemma to_be_length n v : length (to_be n v) = n.
Proof. revert v; induction n as [|n IH]; intros v; [reflexivity|]. cbn [to_be]. rewrite app_length, IH. cbn. lia. Qed.

Lemma to_be_wf n v : wf_bytes (to_be n v).
Proof.
  revert v; induction n as [|n IH]; intros v; [constructor|]. cbn [to_be]. unfold wf_bytes in *.
  apply Forall_app. split; [apply IH|]. constructor; [apply N.mod_upper_bound; discriminate|constructor].
Qed.

Lemma be_to_be n v : be (to_be n v) = (v mod 256 ^ N.of_nat n)%N.
Proof.
  revert v; induction n as [|n IH]; intros v.
  - cbn. symmetry. apply N.mod_1_r.
  - cbn [to_be]. rewrite be_snoc, IH. rewrite Nat2N.inj_succ, N.pow_succ_r'.
    rewrite N.mod_mul_r by (try discriminate; apply N.pow_nonzero; discriminate). ring.
Qed.

Lemma Btrunc_bounds (y : f64) :
  (Rabs (IZR (Btrunc y) - B2R y) < 1)%R /\
  (forall lo hi : Z, lo <= 0 -> 0 < hi -> (IZR lo <= B2R y < IZR hi)%R -> lo <= Btrunc y < hi).
Proof.
  pose proof (Btrunc_correct 53 1024 P1024 y) as H.
  assert (E : IZR (Btrunc y) = IZR (Ztrunc (B2R y))).
  { rewrite H. unfold round, F2R, scaled_mantissa, cexp, FIX_exp. cbn [Fnum Fexp]. cbn [bpow Z.opp].
    rewrite !Rmult_1_r. reflexivity. }
  apply eq_IZR in E. rewrite E. set (t := B2R y). split.
  - destruct (Rle_or_lt 0 t) as [Hp|Hn].
    + rewrite Ztrunc_floor by exact Hp. pose proof (Zfloor_lb t). pose proof (Zfloor_ub t).
      apply Rabs_def1; lra.
    + rewrite Ztrunc_ceil by lra. pose proof (Zceil_ub t). pose proof (Zceil_lb t).
      apply Rabs_def1; lra.
  - intros lo hi Hlo0 Hhi0 [Hlo Hhi]. destruct (Rle_or_lt 0 t) as [Hp|Hn].
    + rewrite Ztrunc_floor by exact Hp. split.
      * apply Z.le_trans with 0; [exact Hlo0|]. apply Zfloor_lub. exact Hp.
      * apply lt_IZR. apply Rle_lt_trans with t; [apply Zfloor_lb|exact Hhi].
    + rewrite Ztrunc_ceil by lra. split.
      * apply le_IZR. apply Rle_trans with t; [exact Hlo|apply Zceil_ub].
      * apply Z.le_lt_trans with 0; [|exact Hhi0]. apply Zceil_glb. lra.
Qed.

Lemma sint_of_mod w z : 0 < w -> - 2 ^ (w - 1) <= z < 2 ^ (w - 1) -> sint w (z mod 2 ^ w) = z.
Proof.
  intros Hw Hz. unfold sint.
  assert (E : 2 ^ w = 2 * 2 ^ (w - 1)) by (rewrite <- Z.pow_succ_r by lia; f_equal; lia).
  assert (Hp : 0 < 2 ^ (w - 1)) by (apply Z.pow_pos_nonneg; lia).
  destruct (Z_lt_le_dec z 0) as [Hn|Hn].
  - assert (Em : z mod 2 ^ w = z + 2 ^ w) by (symmetry; apply (Z.mod_unique _ _ (-1)); lia).
    rewrite Em. destruct (Z.ltb_spec (z + 2 ^ w) (2 ^ (w - 1))); lia.
  - rewrite Z.mod_small by lia. destruct (Z.ltb_spec z (2 ^ (w - 1))); lia.
Qed.

Lemma pow2_R k : (2 ^ k)%R = bpow radix2 (Z.of_nat k).
Proof. rewrite <- (pow2_IZR (Z.of_nat k)) by lia. rewrite pow_IZR. reflexivity. Qed.

(* the common part: scale by 2^k, truncate *)
Lemma scale_trunc (x : f64) k lim : is_finite x = true -> (0 <= k <= 52) -> 0 < lim -> lim + k <= 62 ->
  (- IZR (2 ^ lim) <= B2R x < IZR (2 ^ lim))%R ->
  let z := Btrunc (Bmult mode_NE x (f64_of_Z (2 ^ k))) in
  - 2 ^ (lim + k) <= z < 2 ^ (lim + k) /\ (Rabs (IZR z - B2R x * bpow radix2 k) < 1)%R.
Proof.
  intros Hf Hk Hlim Hlk Hx z.
  assert (Hb : (- bpow radix2 (lim + k) <= B2R x * bpow radix2 k < bpow radix2 (lim + k))%R).
  { rewrite !pow2_IZR in Hx by lia. rewrite bpow_plus. pose proof (bpow_gt_0 radix2 k). split.
    - replace (- (bpow radix2 lim * bpow radix2 k))%R with ((- bpow radix2 lim) * bpow radix2 k)%R by ring.
      apply Rmult_le_compat_r; lra.
    - apply Rmult_lt_compat_r; lra. }
  destruct (mult_pow2_exact x k Hf Hk) as [M MF].
  { apply Rlt_trans with (bpow radix2 (lim + k + 1)).
    - apply Rabs_def1; [|].
      + apply Rlt_trans with (bpow radix2 (lim + k)); [lra|apply bpow_lt; lia].
      + apply Rlt_le_trans with (- bpow radix2 (lim + k))%R; [|lra].
        apply Ropp_lt_contravar. apply bpow_lt. lia.
    - apply bpow_lt. lia. }
  destruct (Btrunc_bounds (Bmult mode_NE x (f64_of_Z (2 ^ k)))) as [B1 B2]. fold z in B1, B2. rewrite M in B1, B2.
  split; [|exact B1].
  apply B2.
  - assert (0 < 2 ^ (lim + k)) by (apply Z.pow_pos_nonneg; lia). lia.
  - apply Z.pow_pos_nonneg; lia.
  - rewrite opp_IZR, !pow2_IZR by lia. exact Hb.
Qed.

Theorem fp1220_quantisation (x : f64) : is_finite x = true -> (-2048 <= B2R x < 2048)%R ->
  (Rabs (B2R (fp1220_float64 (fp1220_from x)) - B2R x) < / 2 ^ 20)%R.
Proof.
  intros Hf Hx.
  destruct (scale_trunc x 20 11 Hf ltac:(lia) ltac:(lia) ltac:(lia)) as [Hz Hd].
  { change (2 ^ 11) with 2048. exact Hx. }
  set (z := Btrunc (Bmult mode_NE x (f64_of_Z (2 ^ 20)))) in *. change (11 + 20) with 31 in Hz.
  set (b := fp1220_from x).
  assert (Eb : b = to_be 4 (Z.to_N (z mod 2 ^ 32))).
  { unfold b, fp1220_from, factor1220, to_uint. fold z.
    destruct (Z.ltb_spec (Z.abs z) (2 ^ 63)); [|lia]. unfold zbe. change (8 * Z.of_nat 4) with 32. rewrite Z.mod_mod by lia. reflexivity. }
  assert (Hw : wf_bytes b) by (rewrite Eb; apply to_be_wf).
  assert (Hi : fp1220_int b = z).
  { unfold fp1220_int. rewrite Eb, firstn_all2 by (rewrite to_be_length; lia). rewrite be_to_be.
    change (256 ^ N.of_nat 4)%N with 4294967296%N.
    assert (Hm : 0 <= z mod 2 ^ 32 < 4294967296) by (apply Z.mod_pos_bound; lia).
    rewrite N.mod_small by lia. rewrite Z2N.id by lia. apply (sint_of_mod 32); lia. }
  destruct (fp1220_exact b Hw) as [E _]. rewrite E, Hi.
  replace (IZR z / 2 ^ 20 - B2R x)%R with ((IZR z - B2R x * bpow radix2 20) * / 2 ^ 20)%R.
  - rewrite Rabs_mult. rewrite (Rabs_pos_eq (/ 2 ^ 20)) by (apply Rlt_le, Rinv_0_lt_compat, pow_lt; lra).
    rewrite <- (Rmult_1_l (/ 2 ^ 20)) at 2. apply Rmult_lt_compat_r; [apply Rinv_0_lt_compat, pow_lt; lra|exact Hd].
  - rewrite (pow2_R 20). change (Z.of_nat 20) with 20. field. apply Rgt_not_eq, bpow_gt_0.
Qed.

Theorem fp1632_quantisation (x : f64) : is_finite x = true -> (-32768 <= B2R x < 32768)%R ->
  (Rabs (B2R (fp1632_float64 (fp1632_from x)) - B2R x) < / 2 ^ 32)%R.
Proof.
  intros Hf Hx.
  destruct (scale_trunc x 32 15 Hf ltac:(lia) ltac:(lia) ltac:(lia)) as [Hz Hd].
  { change (2 ^ 15) with 32768. exact Hx. }
  set (z := Btrunc (Bmult mode_NE x (f64_of_Z (2 ^ 32)))) in *. change (15 + 32) with 47 in Hz.
  set (b := fp1632_from x).
  set (v := Z.to_N (z mod 2 ^ 64)).
  assert (Eb : b = firstn 4 (skipn 4 (to_be 8 v)) ++ firstn 2 (skipn 2 (to_be 8 v))).
  { unfold b, fp1632_from, factor1632, to_uint. fold z.
    destruct (Z.ltb_spec (Z.abs z) (2 ^ 63)); [|lia]. unfold zbe. change (8 * Z.of_nat 8) with 64. rewrite Z.mod_mod by lia. reflexivity. }
  assert (Hw : wf_bytes b).
  { rewrite Eb. unfold wf_bytes. apply Forall_app. split; [apply firstn_wf, skipn_wf, to_be_wf|apply firstn_wf, skipn_wf, to_be_wf]. }
  assert (Hi : fp1632_int b = z).
  { unfold fp1632_int. rewrite Eb, to_be8. cbn [firstn skipn app]. unfold be. cbn [be_of].
    assert (Hv : Z.of_N v = z mod 2 ^ 64) by (unfold v; apply Z2N.id; apply Z.mod_pos_bound; lia).
    assert (Hvz : Z.of_N v = z \/ Z.of_N v = z + 18446744073709551616).
    { rewrite Hv. destruct (Z_lt_le_dec z 0).
      - right. symmetry. apply (Z.mod_unique _ _ (-1)); lia.
      - left. apply Z.mod_small. lia. }
    clearbody v. clear Hv Eb Hw b.
    (* the eight digits of v, and the 48-bit value reassembled from six of them *)
    set (d7 := (v mod 256)%N). set (d6 := ((v / 256) mod 256)%N). set (d5 := ((v / 256 / 256) mod 256)%N).
    set (d4 := ((v / 256 / 256 / 256) mod 256)%N). set (d3 := ((v / 256 / 256 / 256 / 256) mod 256)%N).
    set (d2 := ((v / 256 / 256 / 256 / 256 / 256) mod 256)%N).
    assert (Hu : Z.of_N (((0 * 256 + d2) * 256 + d3) * 2 ^ 32 + ((((0 * 256 + d4) * 256 + d5) * 256 + d6) * 256 + d7))%N
                 = Z.of_N v mod 281474976710656).
    { assert (St : forall a P : N, P <> 0%N -> (a mod (256 * P) = (a / 256) mod P * 256 + a mod 256)%N).
      { intros a P HP. rewrite N.mod_mul_r by (try discriminate; exact HP). ring. }
      assert (E6 : (v mod 281474976710656 = ((((d2 * 256 + d3) * 256 + d4) * 256 + d5) * 256 + d6) * 256 + d7)%N).
      { change 281474976710656%N with (256 * (256 * (256 * (256 * (256 * 256)))))%N.
        rewrite St by discriminate. rewrite (St (v / 256)%N) by discriminate.
        rewrite (St (v / 256 / 256)%N) by discriminate. rewrite (St (v / 256 / 256 / 256)%N) by discriminate.
        rewrite (St (v / 256 / 256 / 256 / 256)%N) by discriminate. reflexivity. }
      change (Z.of_N v mod 281474976710656) with (Z.of_N v mod Z.of_N 281474976710656).
      rewrite <- N2Z.inj_mod, E6. change (2 ^ 32)%N with 4294967296%N. f_equal. ring. }
    rewrite Hu. change (2 ^ 47) with 140737488355328 in Hz.
    replace (Z.of_N v mod 281474976710656) with (z mod 2 ^ 48).
    - apply (sint_of_mod 48); [lia|]. change (2 ^ (48 - 1)) with 140737488355328. lia.
    - change (2 ^ 48) with 281474976710656. destruct Hvz as [-> | ->]; [reflexivity|].
      replace 18446744073709551616 with (65536 * 281474976710656) by reflexivity. rewrite Z.mod_add by lia. reflexivity. }
  destruct (fp1632_exact b Hw) as [E _]. rewrite E, Hi.
  replace (IZR z / 2 ^ 32 - B2R x)%R with ((IZR z - B2R x * bpow radix2 32) * / 2 ^ 32)%R.
  - rewrite Rabs_mult. rewrite (Rabs_pos_eq (/ 2 ^ 32)) by (apply Rlt_le, Rinv_0_lt_compat, pow_lt; lra).
    rewrite <- (Rmult_1_l (/ 2 ^ 32)) at 2. apply Rmult_lt_compat_r; [apply Rinv_0_lt_compat, pow_lt; lra|exact Hd].
  - rewrite (pow2_R 32). change (Z.of_nat 32) with 32. field. apply Rgt_not_eq, bpow_gt_0.
Qed.
