From Coq Require Import Lia.
Require Import Base.Bytes Model.Frame Model.Split.
Open Scope nat_scope.

Lemma find_hdr_bound d i : find_hdr d = Some i -> i + 2 <= length d.
Proof.
  revert i; induction d as [|a t IH]; intros i H; cbn in H; [discriminate|].
  destruct t as [|b t']; [discriminate|].
  destruct ((a =? FA)%N && (b =? FF)%N) eqn:E.
  - inversion H; subst; cbn; lia.
  - destruct (find_hdr (b :: t')) as [j|] eqn:F; cbn in H; [|discriminate].
    inversion H; subst. specialize (IH j eq_refl). cbn in *; lia.
Qed.

Lemma find_hdr_cons2 a b t : find_hdr (a :: b :: t) =
  if ((a =? FA)%N && (b =? FF)%N) then Some 0 else option_map S (find_hdr (b :: t)).
Proof. reflexivity. Qed.

Lemma find_hdr_app_some d e i : find_hdr d = Some i -> find_hdr (d ++ e) = Some i.
Proof.
  revert i; induction d as [|a t IH]; intros i H; [discriminate|].
  destruct t as [|b t']; [discriminate|].
  rewrite find_hdr_cons2 in H. cbn [app]. rewrite find_hdr_cons2.
  destruct ((a =? FA)%N && (b =? FF)%N) eqn:E; [exact H|].
  destruct (find_hdr (b :: t')) as [j|] eqn:F; cbn in H; [|discriminate].
  inversion H; subst. change (b :: t' ++ e) with ((b :: t') ++ e). rewrite (IH j eq_refl). reflexivity.
Qed.

(* header found at i: bytes at i, i+1 *)
Lemma find_hdr_spec d i : find_hdr d = Some i ->
  exists pre m, d = pre ++ FA :: FF :: m /\ length pre = i /\ find_hdr (pre ++ [FA]) = None.
Proof.
  revert i; induction d as [|a t IH]; intros i H; cbn in H; [discriminate|].
  destruct t as [|b t']; [discriminate|].
  destruct ((a =? FA)%N && (b =? FF)%N) eqn:E.
  - inversion H; subst. apply andb_prop in E as [Ea Eb].
    apply N.eqb_eq in Ea, Eb; subst. exists [], t'; repeat split; reflexivity.
  - destruct (find_hdr (b :: t')) as [j|] eqn:F; cbn in H; [|discriminate].
    inversion H; subst. destruct (IH j eq_refl) as (pre & m & Hd & Hl & Hn).
    exists (a :: pre), m. rewrite Hd. repeat split; cbn; try lia.
    destruct pre as [|p pre'].
    + cbn in *. inversion Hd; subst. destruct (a =? FA)%N; reflexivity.
    + cbn [app] in *. inversion Hd; subst.
      destruct ((a =? FA)%N && (p =? FF)%N) eqn:E2; [discriminate|].
      change (p :: pre' ++ [FA]) with ((p :: pre') ++ [FA]). cbn [app]. rewrite Hn. reflexivity.
Qed.

Lemma skipn_app_le {A} n (l1 l2 : list A) : n <= length l1 -> skipn n (l1 ++ l2) = skipn n l1 ++ l2.
Proof. intros H. rewrite skipn_app. replace (n - length l1) with 0 by lia. reflexivity. Qed.

Lemma firstn_app_le {A} n (l1 l2 : list A) : n <= length l1 -> firstn n (l1 ++ l2) = firstn n l1.
Proof. intros H. rewrite firstn_app. replace (n - length l1) with 0 by lia. cbn. apply app_nil_r. Qed.

Lemma nthb_app_lt d e i : i < length d -> nthb (d ++ e) i = nthb d i.
Proof. intros; unfold nthb; apply app_nth1; assumption. Qed.

Lemma claimed_len_app m e L : claimed_len m = Some L -> claimed_len (m ++ e) = Some L.
Proof.
  unfold claimed_len. rewrite app_length.
  destruct (length m <? 4) eqn:E4; [discriminate|]. apply Nat.ltb_ge in E4.
  replace (length m + length e <? 4) with false by (symmetry; apply Nat.ltb_ge; lia).
  rewrite (nthb_app_lt m e 3) by lia.
  destruct (nthb m 3 =? 255)%N; [|auto].
  destruct (length m <? 6) eqn:E6; [discriminate|]. apply Nat.ltb_ge in E6.
  replace (length m + length e <? 6) with false by (symmetry; apply Nat.ltb_ge; lia).
  rewrite !(nthb_app_lt m e) by lia. auto.
Qed.

Lemma tok_stable d e eof eof' a t :
  scan_messages d eof = (a, Some t) -> scan_messages (d ++ e) eof' = (a, Some t).
Proof.
  unfold scan_messages. destruct d as [|x d']; [discriminate|].
  set (d := x :: d'). change ((x :: d') ++ e) with (d ++ e).
  destruct (d ++ e) eqn:Ede; [destruct d; discriminate|]. rewrite <- Ede. clear Ede.
  destruct (find_hdr d) as [i|] eqn:F.
  2:{ destruct (last_is_FA d); discriminate. }
  rewrite (find_hdr_app_some _ e _ F). pose proof (find_hdr_bound _ _ F) as Hb.
  rewrite skipn_app_le by lia.
  destruct (claimed_len (skipn i d)) as [L|] eqn:C; [|discriminate].
  rewrite (claimed_len_app _ e _ C).
  destruct (length (skipn i d) <? L) eqn:EL; [discriminate|]. apply Nat.ltb_ge in EL.
  intros H; inversion H; subst. rewrite app_length.
  replace (length (skipn i d) + length e <? L) with false by (symmetry; apply Nat.ltb_ge; lia).
  rewrite firstn_app_le by lia. reflexivity.
Qed.
