(* C19: calendar arithmetic and the timestamp conversions. *)
From Coq Require Import ZArith List Bool Lia.
Require Import Base.GoInt Base.Sweep Lib.Civil Model.TimeConv Gen.Funcs.
Import ListNotations.
Open Scope Z_scope.
Ltac Zify.zify_post_hook ::= Z.div_mod_to_equations.

(* ---- years: for every day number, no bound ---- *)
Lemma year_of_ok z : 0 <= z -> dby (year_of z) <= z < dby (year_of z + 1).
Proof.
  intros Hz. unfold year_of. set (y0 := z * 400 / 146097 + 1).
  assert (Hy0 : 146097 * (y0 - 1) <= z * 400 < 146097 * y0) by (unfold y0; lia).
  clearbody y0.
  destruct (Z.gtb_spec (dby y0) z) as [H1|H1].
  - unfold dby in *. lia.
  - destruct (Z.leb_spec (dby (y0 + 1)) z) as [H2|H2].
    + unfold dby in *. replace (y0 + 1 + 1 - 1) with (y0 + 1) by lia. replace (y0 + 1 - 1) with y0 in * by lia. lia.
    + lia.
Qed.

Lemma dby_step y : dby (y + 1) = dby y + 365 + (if is_leap y then 1 else 0).
Proof.
  unfold dby, is_leap. replace (y + 1 - 1) with y by lia.
  destruct (Z.eqb_spec (y mod 4) 0); destruct (Z.eqb_spec (y mod 100) 0); destruct (Z.eqb_spec (y mod 400) 0);
    cbn [negb andb orb]; lia.
Qed.

Lemma dby_mono a b : a <= b -> dby a <= dby b.
Proof. intros H. unfold dby. lia. Qed.

Lemma year_unique z y : dby y <= z < dby (y + 1) -> 0 <= z -> year_of z = y.
Proof.
  intros Hy Hz. pose proof (year_of_ok z Hz) as H. set (y' := year_of z) in *. clearbody y'.
  destruct (Z.lt_trichotomy y y') as [L|[E|G]]; [|exact (eq_sym E)|].
  - pose proof (dby_mono (y + 1) y' ltac:(lia)). lia.
  - pose proof (dby_mono (y' + 1) y ltac:(lia)). lia.
Qed.

(* ---- months and days: complete sweeps of the finite tables ---- *)
Definition md_ok (leap : bool) (doy : Z) : bool :=
  let '(m, d) := md_of leap doy in
  (1 <=? m) && (m <=? 12) && (1 <=? d) && (d <=? dim leap m) && (dbm leap m + (d - 1) =? doy).
Lemma md_sweep : forallb (md_ok false) (zrange 365) = true /\ forallb (md_ok true) (zrange 366) = true.
Proof. split; vm_compute; reflexivity. Qed.

Lemma md_of_ok (leap : bool) doy : 0 <= doy < 365 + (if leap then 1 else 0) ->
  let '(m, d) := md_of leap doy in 1 <= m <= 12 /\ 1 <= d <= dim leap m /\ dbm leap m + (d - 1) = doy.
Proof.
  intros H. destruct md_sweep as [S0 S1].
  assert (G : md_ok leap doy = true) by (destruct leap; [apply (sweep _ 366 S1)|apply (sweep _ 365 S0)]; lia).
  unfold md_ok in G. destruct (md_of leap doy) as [m d].
  rewrite !andb_true_iff, !Z.leb_le, Z.eqb_eq in G. lia.
Qed.

Definition dm_ok (leap : bool) (m : Z) : bool :=
  forallb (fun d => negb (d <=? dim leap m) || (let '(m', d') := md_of leap (dbm leap m + (d - 1)) in (m' =? m) && (d' =? d)))
          (map (fun k => k + 1) (zrange 31))
  && (dbm leap m + dim leap m <=? 365 + (if leap then 1 else 0)) && (0 <=? dbm leap m).
Lemma dm_sweep : forallb (dm_ok false) (map (fun k => k + 1) (zrange 12)) = true /\
                 forallb (dm_ok true) (map (fun k => k + 1) (zrange 12)) = true.
Proof. split; vm_compute; reflexivity. Qed.

Lemma md_of_dbm (leap : bool) m d : 1 <= m <= 12 -> 1 <= d <= dim leap m ->
  md_of leap (dbm leap m + (d - 1)) = (m, d) /\ 0 <= dbm leap m + (d - 1) < 365 + (if leap then 1 else 0).
Proof.
  intros Hm Hd.
  assert (Hmi : In m (map (fun k => k + 1) (zrange 12))).
  { apply in_map_iff. exists (m - 1). split; [lia|apply in_zrange; lia]. }
  assert (Hdi : In d (map (fun k => k + 1) (zrange 31))).
  { apply in_map_iff. exists (d - 1). split; [lia|apply in_zrange]. unfold dim in Hd.
    destruct (m =? 2); [destruct leap; lia|]. destruct (_ || _); lia. }
  assert (G : dm_ok leap m = true).
  { destruct dm_sweep as [S0 S1]. destruct leap; [rewrite forallb_forall in S1; apply S1|rewrite forallb_forall in S0; apply S0]; exact Hmi. }
  unfold dm_ok in G. rewrite !andb_true_iff in G. destruct G as [[G1 G2] G3]. rewrite forallb_forall in G1.
  specialize (G1 d Hdi). destruct (Z.leb_spec d (dim leap m)); [|lia]. cbn [negb orb] in G1.
  destruct (md_of leap (dbm leap m + (d - 1))) as [m' d']. rewrite andb_true_iff, !Z.eqb_eq in G1.
  destruct G1 as [-> ->]. split; [reflexivity|]. apply Z.leb_le in G2, G3. lia.
Qed.

(* ---- days <-> civil dates, both directions ---- *)
Theorem civil_of_days z : 0 <= z ->
  let '(y, m, d) := civil_from_days z in
  1 <= y /\ 1 <= m <= 12 /\ 1 <= d <= dim (is_leap y) m /\ days_from_civil y m d = z.
Proof.
  intros Hz. unfold civil_from_days. pose proof (year_of_ok z Hz) as Hy. set (y := year_of z) in *.
  pose proof (dby_step y) as Hs.
  pose proof (md_of_ok (is_leap y) (z - dby y) ltac:(destruct (is_leap y); lia)) as Hm.
  destruct (md_of (is_leap y) (z - dby y)) as [m d]. destruct Hm as (H1 & H2 & H3).
  repeat split; try lia.
  - assert (dby 1 = 0) by reflexivity. destruct (Z_lt_le_dec y 1); [|lia].
    pose proof (dby_mono (y + 1) 1 ltac:(lia)). lia.
  - unfold days_from_civil. lia.
Qed.

Theorem days_of_civil y m d : 1 <= y -> 1 <= m <= 12 -> 1 <= d <= dim (is_leap y) m ->
  civil_from_days (days_from_civil y m d) = (y, m, d) /\ 0 <= days_from_civil y m d.
Proof.
  intros Hy Hm Hd. destruct (md_of_dbm (is_leap y) m d Hm Hd) as [E R].
  assert (H0 : 0 <= dby y) by (pose proof (dby_mono 1 y Hy); assert (dby 1 = 0) by reflexivity; lia).
  unfold civil_from_days, days_from_civil.
  assert (Ey : year_of (dby y + dbm (is_leap y) m + (d - 1)) = y).
  { apply year_unique; [|lia]. rewrite dby_step. destruct (is_leap y); lia. }
  rewrite Ey. replace (dby y + dbm (is_leap y) m + (d - 1) - dby y) with (dbm (is_leap y) m + (d - 1)) by lia.
  rewrite E. split; [reflexivity|lia].
Qed.

(* ---- records <-> instants ---- *)
Definition valid_record (r : utc_record) : Prop :=
  let '(ns, y, mo, d, h, mi, s) := r in
  1 <= y <= 9999 /\ 1 <= mo <= 12 /\ 1 <= d <= dim (is_leap y) mo /\ 0 <= h < 24 /\ 0 <= mi < 60 /\ 0 <= s < 60 /\ 0 <= ns < billion.

(* the instant of a valid record is the proleptic Gregorian UTC date and time of its fields *)
Theorem instant_is_gregorian ns y mo d h mi s : valid_record (ns, y, mo, d, h, mi, s) ->
  utc_to_instant (ns, y, mo, d, h, mi, s) = (days_from_civil y mo d * 86400 + h * 3600 + mi * 60 + s, ns).
Proof.
  intros (Hy & Hm & Hd & Hh & Hmi & Hs & Hn). unfold utc_to_instant, go_date, days_from_civil, billion in *.
  replace ((mo - 1) / 12) with 0 by lia. replace ((mo - 1) mod 12 + 1) with mo by lia.
  replace (ns / 1000000000) with 0 by lia. replace (ns mod 1000000000) with ns by lia.
  rewrite Z.add_0_r. f_equal. lia.
Qed.

Theorem fields_roundtrip r : valid_record r -> instant_to_utc (utc_to_instant r) = r.
Proof.
  destruct r as [[[[[[ns y] mo] d] h] mi] s]. intros V. rewrite (instant_is_gregorian _ _ _ _ _ _ _ V).
  destruct V as (Hy & Hm & Hd & Hh & Hmi & Hs & Hn).
  destruct (days_of_civil y mo d ltac:(lia) Hm Hd) as [E H0]. unfold instant_to_utc.
  set (D := days_from_civil y mo d) in *.
  replace ((D * 86400 + h * 3600 + mi * 60 + s) / 86400) with D by lia. rewrite E.
  replace ((D * 86400 + h * 3600 + mi * 60 + s) mod 86400) with (h * 3600 + mi * 60 + s) by lia.
  unfold billion in *. assert (Hdm : d <= 31) by (unfold dim in Hd; destruct (mo =? 2); [destruct (is_leap y); lia|destruct (_ || _); lia]).
  repeat (f_equal; try lia).
Qed.

Definition max_seconds : Z := dby 10000 * 86400.    (* first instant of year 10000 *)

Theorem instant_roundtrip T ns : 0 <= T < max_seconds -> 0 <= ns < billion ->
  utc_to_instant (instant_to_utc (T, ns)) = (T, ns).
Proof.
  intros HS Hn. unfold instant_to_utc.
  assert (Hz : 0 <= T / 86400 < dby 10000) by (unfold max_seconds in HS; lia).
  pose proof (civil_of_days (T / 86400) (proj1 Hz)) as C.
  destruct (civil_from_days (T / 86400)) as [[y mo] d]. destruct C as (Hy & Hm & Hd & E).
  assert (Hy2 : y <= 9999).
  { destruct (Z_lt_le_dec 9999 y) as [G|]; [|lia]. pose proof (dby_mono 10000 y ltac:(lia)).
    unfold days_from_civil in E. assert (0 <= dbm (is_leap y) mo) by (destruct (md_of_dbm (is_leap y) mo d Hm Hd); unfold dbm, cum in *; lia).
    lia. }
  assert (Hdm : d <= 31) by (unfold dim in Hd; destruct (mo =? 2); [destruct (is_leap y); lia|destruct (_ || _); lia]).
  set (sod := T mod 86400). assert (Hsod : 0 <= sod < 86400) by (unfold sod; lia).
  unfold billion in *.
  rewrite !Z.mod_small by lia.
  rewrite instant_is_gregorian.
  - rewrite E. f_equal. unfold sod. lia.
  - unfold valid_record, billion. lia.
Qed.

(* the GNSS record: the fields' instant plus the signed nanosecond offset *)
Theorem gnss_instant y mo d h mi s nano : valid_record (0, y, mo, d, h, mi, s) -> - billion < nano < billion ->
  gnss_to_instant y mo d h mi s nano =
    (days_from_civil y mo d * 86400 + h * 3600 + mi * 60 + s + (if nano <? 0 then -1 else 0), if nano <? 0 then nano + billion else nano).
Proof.
  intros (Hy & Hm & Hd & Hh & Hmi & Hs & _) Hn. unfold gnss_to_instant, go_date, days_from_civil, billion in *.
  replace ((mo - 1) / 12) with 0 by lia. replace ((mo - 1) mod 12 + 1) with mo by lia.
  rewrite Z.add_0_r. destruct (Z.ltb_spec nano 0).
  - replace (nano / 1000000000) with (-1) by lia. replace (nano mod 1000000000) with (nano + 1000000000) by lia. f_equal. lia.
  - replace (nano / 1000000000) with 0 by lia. replace (nano mod 1000000000) with nano by lia. f_equal. lia.
Qed.

(* ---- validity flags: bits 0, 1, 2 of the validity byte (generated functions, 256-value sweep) ---- *)
Lemma validity_sweep : forallb (fun u => Bool.eqb (f_UTCValidity_IsDateValid u) (Z.testbit u 0) &&
                                         Bool.eqb (f_UTCValidity_IsTimeOfDayValid u) (Z.testbit u 1) &&
                                         Bool.eqb (f_UTCValidity_IsTimeOfDayFullyResolved u) (Z.testbit u 2)) (zrange 256) = true.
Proof. vm_compute. reflexivity. Qed.

Theorem validity_bits u : 0 <= u < 256 ->
  f_UTCValidity_IsDateValid u = Z.testbit u 0 /\ f_UTCValidity_IsTimeOfDayValid u = Z.testbit u 1 /\
  f_UTCValidity_IsTimeOfDayFullyResolved u = Z.testbit u 2.
Proof.
  intros H. pose proof (sweep _ 256 validity_sweep u H) as S. cbv beta in S.
  rewrite !andb_true_iff in S. destruct S as [[A B] C]. repeat split; apply eqb_prop; assumption.
Qed.
