(* Streams of well-formed frames separated by pair-free noise segment exactly into those frames. *)
From Coq Require Import Lia.
Require Import Base.Bytes Base.ListX Model.Frame Model.Split Spec.FrameSpec Spec.StreamSpec Spec.FramedSpec
  Proofs.FrameProofs Proofs.SplitProofs Proofs.SegProofs Proofs.LemmaB Proofs.SegT Proofs.ScanThm1.
Open Scope nat_scope.

Lemma wf_frame_hdr f : wf_frame f -> exists t, f = FA :: FF :: t.
Proof.
  intros (H5 & H0 & H1 & _). destruct f as [|a [|b t]]; cbn [length] in H5; try lia.
  unfold nthb in *. cbn [nth] in *. subst. exists t. reflexivity.
Qed.

Lemma wf_frame_claimed f : wf_frame f -> claimed_len f = Some (length f).
Proof.
  intros Hwf. pose proof (wf_frame_len f Hwf) as Hl. destruct Hwf as (H5 & _ & _ & Hstd & Hext & _).
  unfold claimed_len. destruct (Nat.ltb_spec (length f) 4); [lia|].
  unfold hdr_len, decl_len in Hl.
  destruct (N.eqb_spec (nthb f 3) 255) as [E|E].
  - destruct (Hext E) as (H7 & _). destruct (Nat.ltb_spec (length f) 6); [lia|].
    f_equal. unfold be16 in Hl. lia.
  - f_equal. lia.
Qed.

Lemma scan_wf_frame f eof : wf_frame f -> scan_messages f eof = (length f, Some f).
Proof.
  intros Hwf. destruct (wf_frame_hdr f Hwf) as (t & Hf).
  unfold scan_messages. rewrite Hf at 1.
  assert (Fh : find_hdr f = Some 0) by (rewrite Hf; reflexivity).
  rewrite Fh. cbn [skipn]. rewrite (wf_frame_claimed f Hwf).
  destruct (Nat.ltb_spec (length f) (length f)); [lia|]. rewrite firstn_all. reflexivity.
Qed.

Lemma wf_frame_maxlen f : wf_bytes f -> wf_frame f -> length f <= 2055.
Proof.
  intros Hb Hwf. pose proof (wf_frame_len f Hwf) as Hl. destruct Hwf as (H5 & _ & _ & Hstd & Hext & _).
  unfold hdr_len, decl_len in Hl.
  destruct (N.eqb_spec (nthb f 3) 255) as [E|E].
  - destruct (Hext E) as (_ & [_ Hb2] & _). lia.
  - assert (nthb f 3 < 256)%N.
    { unfold wf_bytes in Hb. rewrite Forall_forall in Hb. apply Hb. unfold nthb. apply nth_In. lia. }
    lia.
Qed.

Lemma find_hdr_snoc_notFF n x : find_hdr n = None -> x <> FF -> find_hdr (n ++ [x]) = None.
Proof.
  intros F Hx. induction n as [|a n IH]; [reflexivity|].
  destruct n as [|b n'].
  - cbn [app]. rewrite find_hdr_cons2. destruct (N.eqb_spec x FF); [contradiction|]. rewrite andb_false_r. reflexivity.
  - cbn [app] in *. rewrite find_hdr_cons2 in *.
    destruct ((a =? FA)%N && (b =? FF)%N); [discriminate|].
    destruct (find_hdr (b :: n')) eqn:E; [discriminate|]. rewrite (IH eq_refl). reflexivity.
Qed.

(* a frame followed by anything: the frame is the first token *)
Lemma segT_frame_app f rest : wf_bytes f -> wf_frame f ->
  segT (f ++ rest) = (f :: fst (segT rest), snd (segT rest)).
Proof.
  intros Hb Hwf. rewrite segT_unfold.
  rewrite (tok_stable f rest true true _ _ (scan_wf_frame f true Hwf)).
  pose proof (wf_frame_maxlen f Hb Hwf) as Hm.
  assert (Hlt : (maxtok <? length f) = false).
  { apply Nat.ltb_ge. pose proof maxtok_eq. lia. }
  rewrite Hlt, skipn_app_exact. destruct (segT rest); reflexivity.
Qed.

Theorem segments_of_framed_stream fs : forall ns, length ns = S (length fs) ->
  Forall (fun f => wf_bytes f /\ wf_frame f) fs -> Forall (fun n => find_hdr n = None) ns ->
  segT (interleave ns fs) = (fs, SEnd).
Proof.
  induction fs as [|f fs IH]; intros ns Hlen Hfs Hns.
  - destruct ns as [|n [|? ?]]; cbn [length] in Hlen; try lia. cbn [interleave].
    inversion Hns; subst. apply segT_no_hdr'. assumption.
  - destruct ns as [|n ns]; cbn [length] in Hlen; [lia|]. cbn [interleave].
    inversion Hns as [|? ? Hn Hns']; subst. inversion Hfs as [|? ? [Hb Hwf] Hfs']; subst.
    destruct (wf_frame_hdr f Hwf) as (t & Hf).
    rewrite segT_skip_prefix.
    + rewrite (segT_frame_app f _ Hb Hwf), IH by (try assumption; lia). reflexivity.
    + rewrite Hf. cbn [app firstn]. apply find_hdr_snoc_notFF; [assumption|discriminate].
Qed.

Theorem new_message_scans_back mid p : (length p <= 2048)%nat ->
  segT (new_message mid p) = ([new_message mid p], SEnd).
Proof.
  intros Hl. destruct (new_message_wf mid p Hl) as (Hwf & _).
  rewrite segT_unfold, (scan_wf_frame _ true Hwf).
  destruct (new_message_wf mid p Hl) as (_ & _ & _ & _ & _ & _ & _ & Hlen).
  assert (Hlt : (maxtok <? length (new_message mid p)) = false).
  { apply Nat.ltb_ge. pose proof maxtok_eq. rewrite Hlen. destruct (255 <=? N.of_nat (length p))%N; lia. }
  rewrite Hlt, skipn_all. rewrite segT_no_hdr' by reflexivity. reflexivity.
Qed.
