From Coq Require Import Lia.
Require Import Base.Bytes Model.Frame Model.Split Lib.Bufio Spec.StreamSpec Proofs.SplitProofs Proofs.SegProofs Proofs.LemmaB Proofs.SegT Proofs.ScanThm1 Proofs.ScanThm2 Proofs.ScanThm3.
Open Scope nat_scope.

Definition state_ok (s : scanner) (r : reader) : Prop :=
  serr s = None \/ (serr s = Some (final r) /\ rest r = [] /\ length (pend s) < maxtok).

Definition bound (s : scanner) (r : reader) := length (pend s) + 2 * length (rest r) + length (sched r).

Theorem run_ok fuel : forall s r acc, G s -> err_with_data r = false -> sched_pos (sched r) -> state_ok s r ->
  bound s r + 3 <= fuel ->
  run fuel s r acc = Some (rev acc ++ fst (segT (pend s ++ rest r)), tterm (snd (segT (pend s ++ rest r))) (final r)).
Proof.
  induction fuel as [|f IH]; intros s r acc HG Hewd Hpos Hst Hb; [lia|].
  cbn [run]. destruct Hst as [He|(He & Hrest & Hlt)].
  - (* no error yet *)
    pose proof (scan_ok (S f) s r HG He Hewd Hpos ltac:(unfold bound, mu in *; lia)) as H.
    destruct (scan (S f) s r) as [[|] s' r'|]; cbn [scan_post] in H; [| |contradiction].
    + destruct H as (t & ts & z & Ht & Hseg & Hseg' & HG' & Hfin & Hewd' & Hpos' & Hmu & Hlen & Hst').
      rewrite Ht. rewrite IH; try assumption.
      * rewrite Hseg, Hseg', Hfin. cbn [fst snd rev]. rewrite <- app_assoc. reflexivity.
      * destruct Hst' as [H1|(H1 & H2 & H3)]; [left; exact H1|right]. rewrite Hfin. repeat split; assumption.
      * unfold bound, mu in *. lia.
    + destruct H as (z & Hseg & Herr). rewrite Hseg, Herr. cbn [fst snd]. rewrite app_nil_r. reflexivity.
  - (* error already recorded: drain the buffer *)
    pose proof (scan_err_state f s r (final r) He Hlt) as H.
    destruct (scan (S f) s r) as [[|] s' r'|]; [| |contradiction].
    + destruct H as (-> & t & ts & z & Ht & Hseg & Hseg' & Hes & Hlen & HGG).
      rewrite Ht. rewrite IH; try assumption.
      * rewrite Hrest, !app_nil_r. rewrite Hseg, Hseg'. cbn [fst snd rev]. rewrite <- app_assoc. reflexivity.
      * apply HGG; exact HG.
      * right. repeat split; try assumption. lia.
      * unfold bound in *. lia.
    + destruct H as (Hseg & Herr). rewrite Hrest, app_nil_r, Hseg, Herr. cbn [fst snd tterm]. rewrite app_nil_r. reflexivity.
Qed.

(* The headline statement: for every stream and every schedule of positive chunk sizes, with the port's
   terminal error delivered by a separate read, the scanner delivers exactly the reference segmentation. *)
Theorem scan_fragmentation_independent stream sch fin :
  sched_pos sch ->
  run (2 * length stream + length sch + 3) init_scanner (mk stream sch fin false) []
  = Some (fst (segT stream), tterm (snd (segT stream)) fin).
Proof.
  intros Hpos. rewrite run_ok; try assumption; try reflexivity.
  all: try (unfold G, sc_end, init_scanner, max_token; cbn; lia).
  all: try (left; reflexivity).
  all: try (unfold bound; cbn; lia).
Qed.

Corollary two_schedules_agree stream sch1 sch2 fin : sched_pos sch1 -> sched_pos sch2 ->
  run (2 * length stream + length sch1 + 3) init_scanner (mk stream sch1 fin false) []
  = run (2 * length stream + length sch2 + 3) init_scanner (mk stream sch2 fin false) [].
Proof. intros H1 H2. rewrite !scan_fragmentation_independent by assumption. reflexivity. Qed.

