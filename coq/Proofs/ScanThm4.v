From Coq Require Import Lia.
Require Import Base.Bytes Model.Frame Model.Split Lib.Bufio Spec.StreamSpec Spec.Terminal Proofs.SplitProofs Proofs.SegProofs Proofs.LemmaB Proofs.SegT Proofs.ScanThm1 Proofs.ScanThm2 Proofs.ScanThm3.
Open Scope nat_scope.

Definition state_ok (s : scanner) (r : reader) : Prop :=
  (serr s = None /\ conv_ok s r) \/ (serr s = Some (final r) /\ rest r = [] /\ drain_ok s).

Definition bound (s : scanner) (r : reader) := length (pend s) + 2 * length (rest r) + length (sched r).

Theorem run_ok fuel : forall s r acc, G s -> sched_ok (sched r) -> state_ok s r ->
  bound s r + 3 <= fuel ->
  run fuel s r acc = Some (rev acc ++ fst (segT (pend s ++ rest r)), tterm (snd (segT (pend s ++ rest r))) (final r)).
Proof.
  induction fuel as [|f IH]; intros s r acc HG Hok Hst Hb; [lia|].
  cbn [run]. destruct Hst as [(He & Hconv)|(He & Hrest & Hdr)].
  - (* no error yet *)
    pose proof (scan_ok (S f) s r) as H.
    specialize (H ltac:(unfold scan_pre; ssplit; try assumption; unfold bound, mu in *; lia)).
    destruct (scan (S f) s r) as [[|] s' r'|]; cbn [scan_post] in H; [| |contradiction].
    + destruct H as (t & ts & z & Ht & Hseg & Hseg' & HG' & Hfin & Hewd' & Hok' & Hmu & Hlen & Hst').
      rewrite Ht. rewrite IH; try assumption.
      * rewrite Hseg, Hseg', Hfin. cbn [fst snd rev]. rewrite <- app_assoc. reflexivity.
      * destruct Hst' as [H1|(H1 & H2 & H3)].
        -- left. split; [exact H1|]. unfold conv_ok in *. rewrite Hewd', Hseg'. cbn [snd].
           destruct Hconv as [Hc|Hc]; [left; exact Hc|right]. rewrite Hseg in Hc. exact Hc.
        -- right. rewrite Hfin. ssplit; assumption.
      * unfold bound, mu in *. lia.
    + destruct H as (z & Hseg & Herr & _). rewrite Hseg, Herr. cbn [fst snd]. rewrite app_nil_r. reflexivity.
  - (* error already recorded: drain the buffer *)
    pose proof (scan_err_state f s r (final r) He HG Hdr) as H.
    destruct (scan (S f) s r) as [[|] s' r'|]; [| |contradiction].
    + destruct H as (-> & t & ts & z & Ht & Hseg & Hseg' & Hes & Hlen & HGG).
      rewrite Ht. rewrite IH; try assumption.
      * rewrite Hrest, !app_nil_r. rewrite Hseg, Hseg'. cbn [fst snd rev]. rewrite <- app_assoc. reflexivity.
      * right. ssplit; try assumption.
        destruct Hdr as [Hd|Hd]; [left; lia|right]. rewrite Hseg'. rewrite Hseg in Hd. exact Hd.
      * unfold bound in *. lia.
    + destruct H as (Hseg & Herr & _). rewrite Hrest, app_nil_r, Hseg, Herr. cbn [fst snd tterm]. rewrite app_nil_r. reflexivity.
Qed.

(* The headline statement.  For every stream, every schedule of read sizes (0 included, at most 100 empty
   reads in a row), every terminal error, and either convention for delivering it (with the last data, or by
   a read of its own - the former provided the reference segmentation does not end in TooLong), the scanner
   delivers exactly the reference segmentation of the stream followed by the terminal error. *)
Theorem scan_fragmentation_independent stream sch fin ewd :
  sched_ok sch -> (ewd = false \/ snd (segT stream) = SEnd) ->
  run (2 * length stream + length sch + 3) init_scanner (mk stream sch fin ewd) []
  = Some (fst (segT stream), tterm (snd (segT stream)) fin).
Proof.
  intros Hok Hc. rewrite run_ok; try assumption; try reflexivity.
  all: try (unfold G, sc_end, init_scanner, max_token; cbn; lia).
  all: try (left; split; [reflexivity|exact Hc]).
  all: try (unfold bound; cbn; lia).
Qed.

Corollary two_schedules_agree stream sch1 sch2 fin ewd1 ewd2 : sched_ok sch1 -> sched_ok sch2 ->
  (ewd1 = false \/ snd (segT stream) = SEnd) -> (ewd2 = false \/ snd (segT stream) = SEnd) ->
  run (2 * length stream + length sch1 + 3) init_scanner (mk stream sch1 fin ewd1) []
  = run (2 * length stream + length sch2 + 3) init_scanner (mk stream sch2 fin ewd2) [].
Proof. intros H1 H2 C1 C2. rewrite !scan_fragmentation_independent by assumption. reflexivity. Qed.
