(* The reader and the inner read loop of the scanner, for every schedule (empty reads included) and both
   (n, err) conventions. *)
From Coq Require Import Lia.
Require Import Base.Bytes Model.Frame Model.Split Lib.Bufio Spec.StreamSpec Proofs.SplitProofs Proofs.SegProofs Proofs.LemmaB Proofs.SegT Proofs.ScanThm1.
Open Scope nat_scope.

(* leading empty reads of a schedule *)
Fixpoint lead0 (l : list nat) : nat := match l with O :: t => S (lead0 t) | _ => 0 end.

(* fewer than 101 consecutive empty reads anywhere: the inner loop tolerates 100 and fails on the 101st *)
Fixpoint sched_ok (l : list nat) : Prop :=
  lead0 l <= 100 /\ match l with [] => True | _ :: t => sched_ok t end.

Definition mu (r : reader) := length (rest r) + length (sched r).

Lemma sched_ok_tl l : sched_ok l -> sched_ok (tl l).
Proof. destruct l as [|k t]; [intros H; exact H|]. intros [_ H]. exact H. Qed.

Lemma sched_ok_nil : sched_ok []. Proof. cbn. split; [lia|exact I]. Qed.

Lemma read_zero r room t : sched r = O :: t ->
  read r room = ([], None, {| rest := rest r; sched := t; final := final r; err_with_data := err_with_data r |}).
Proof. intros H. unfold read. rewrite H. reflexivity. Qed.

Lemma read_nil r room : lead0 (sched r) = 0 -> rest r = [] -> read r room = ([], Some (final r), r).
Proof.
  intros H0 H. unfold read. rewrite H. destruct (sched r) as [|[|k] t]; cbn in H0; try lia; reflexivity.
Qed.

Lemma read_cons r room : lead0 (sched r) = 0 -> rest r <> [] -> 1 <= room ->
  exists k, 1 <= k <= length (rest r) /\ k <= room /\
    read r room = (firstn k (rest r),
       (if err_with_data r && (length (rest r) <=? k) then Some (final r) else None),
       {| rest := skipn k (rest r); sched := tl (sched r); final := final r; err_with_data := err_with_data r |}).
Proof.
  intros H0 Hne Hr. unfold read. destruct (rest r) as [|b bs] eqn:Er; [congruence|].
  destruct (sched r) as [|[|k] t] eqn:Es; cbn in H0; try lia.
  - exists (Nat.min room (Nat.min room (length (b :: bs)))). cbn [length tl]. repeat split; try lia.
  - exists (Nat.min (S k) (Nat.min room (length (b :: bs)))). cbn [length tl]. repeat split; try lia.
Qed.

Lemma with_pend_nil s : with_pend s (pend s ++ []) = s.
Proof. unfold with_pend. rewrite app_nil_r. destruct s; reflexivity. Qed.

(* one run of the inner loop: end of input (A), k more bytes (B), or k last bytes together with the error (C) *)
Definition read_loop_post (s : scanner) (r : reader) (s4 : scanner) (r' : reader) : Prop :=
  buflen s4 = buflen s /\ start s4 = start s /\ final r' = final r /\ err_with_data r' = err_with_data r /\
  sched_ok (sched r') /\ length (sched r') <= length (sched r) /\
  ((rest r = [] /\ rest r' = [] /\ pend s4 = pend s /\ serr s4 = set_err (serr s) (final r))
   \/ (exists k, 1 <= k <= length (rest r) /\ pend s4 = pend s ++ firstn k (rest r) /\
        rest r' = skipn k (rest r) /\ G s4 /\ mu r' + 1 <= mu r /\
        ((serr s4 = serr s /\ (err_with_data r = false \/ k < length (rest r)))
         \/ (err_with_data r = true /\ k = length (rest r) /\ serr s4 = set_err (serr s) (final r))))).

Definition read_loop_tail (n : nat) (s1 : scanner) (r' : reader) : scanner * reader :=
  match n with O => (with_err s1 TNoProgress, r') | S n' => read_loop n' s1 r' end.

Lemma read_loop_nz n s r s4 r' :
  lead0 (sched r) = 0 -> G s -> (sc_end s < buflen s)%N -> sched_ok (sched r) ->
  read_loop n s r = (s4, r') -> read_loop_post s r s4 r'.
Proof.
  intros H0 HG Hroom Hok H.
    assert (Hr : 1 <= N.to_nat (buflen s - sc_end s)) by lia.
    assert (H1 : read_loop n s r = (let '(bs, e, r'') := read r (N.to_nat (buflen s - sc_end s)%N) in
      match e with Some err => (with_err (with_pend s (pend s ++ bs)) err, r'')
      | None => match bs with _ :: _ => (with_pend s (pend s ++ bs), r'') | [] => read_loop_tail n (with_pend s (pend s ++ bs)) r'' end end))
      by (destruct n; reflexivity).
    rewrite H1 in H. clear H1.
    destruct (rest r) as [|b bs] eqn:Er.
    + rewrite (read_nil _ _ H0 Er) in H. injection H as <- <-.
      unfold read_loop_post. cbn [buflen start pend serr with_err with_pend]. rewrite app_nil_r.
      repeat split; try reflexivity; try assumption; try lia.
      left. rewrite Er. repeat split; reflexivity.
    + destruct (read_cons r _ H0 ltac:(rewrite Er; discriminate) Hr) as (k & Hk1 & Hk2 & Hrd).
      rewrite Hrd in H. rewrite Er in *.
      destruct (firstn k (b :: bs)) as [|c cs] eqn:Ef.
      { apply (f_equal (@length _)) in Ef. rewrite firstn_length in Ef. cbn [length] in *. lia. }
      assert (HG4 : forall e, G (with_pend s (pend s ++ c :: cs)) /\ G (with_err (with_pend s (pend s ++ c :: cs)) e)).
      { intros e. destruct HG as [G1 G2]. unfold G, sc_end in *. cbn [buflen start pend with_pend with_err].
        rewrite app_length. rewrite <- Ef, firstn_length. cbn [length] in *. split; split; lia. }
      assert (Hmu : forall rr, rest rr = skipn k (b :: bs) -> sched rr = tl (sched r) -> mu rr + 1 <= mu r).
      { intros rr E1 E2. unfold mu. rewrite E1, E2, Er, skipn_length. cbn [length] in *.
        destruct (sched r); cbn [tl length]; lia. }
      destruct (err_with_data r && (length (b :: bs) <=? k)) eqn:Ee.
      * apply andb_prop in Ee as [Ee1 Ee2]. apply Nat.leb_le in Ee2.
        injection H as <- <-. unfold read_loop_post.
        cbn [buflen start pend serr with_err with_pend final err_with_data rest sched].
        repeat split; try reflexivity; try (apply sched_ok_tl; assumption); try (destruct (sched r); cbn; lia).
        right. exists k. rewrite Er.
        split; [cbn [length] in *; lia|]. split; [rewrite Ef; reflexivity|]. split; [reflexivity|].
        split; [apply HG4|]. split; [apply Hmu; reflexivity|].
        right. split; [assumption|]. split; [cbn [length] in *; lia|reflexivity].
      * injection H as <- <-. unfold read_loop_post.
        cbn [buflen start pend serr with_err with_pend final err_with_data rest sched].
        repeat split; try reflexivity; try (apply sched_ok_tl; assumption); try (destruct (sched r); cbn; lia).
        right. exists k. rewrite Er.
        split; [cbn [length] in *; lia|]. split; [rewrite Ef; reflexivity|]. split; [reflexivity|].
        split; [apply (HG4 TEnd)|]. split; [apply Hmu; reflexivity|].
        left. split; [reflexivity|]. apply andb_false_iff in Ee. destruct Ee as [Ee|Ee]; [left; exact Ee|right].
        apply Nat.leb_gt in Ee. exact Ee.
Qed.

Lemma read_loop_gen n : forall s r s4 r',
  lead0 (sched r) <= n -> G s -> (sc_end s < buflen s)%N -> sched_ok (sched r) ->
  read_loop n s r = (s4, r') -> read_loop_post s r s4 r'.
Proof.
  induction n as [|n IH]; intros s r s4 r' Hl HG Hroom Hok H.
  - apply (read_loop_nz 0 s r s4 r'); try assumption. lia.
  - destruct (sched r) as [|[|k] t] eqn:Es.
    + apply (read_loop_nz (S n) s r s4 r'); try assumption; rewrite Es; try reflexivity; assumption.
    + (* an empty read: the loop continues with the rest of the schedule *)
      cbn [read_loop] in H. rewrite (read_zero r _ t Es) in H. rewrite with_pend_nil in H.
      set (r1 := {| rest := rest r; sched := t; final := final r; err_with_data := err_with_data r |}) in *.
      cbn [lead0] in Hl. destruct Hok as [_ Hok].
      specialize (IH s r1 s4 r' ltac:(cbn [sched r1]; lia) HG Hroom Hok H).
      unfold read_loop_post in *. cbn [rest sched final err_with_data r1] in IH.
      destruct IH as (I1 & I2 & I3 & I4 & I5 & I6 & I7).
      split; [assumption|]. split; [assumption|]. split; [assumption|]. split; [assumption|]. split; [assumption|].
      split; [rewrite Es; cbn [length]; lia|].
      destruct I7 as [I7|(k & K1 & K2 & K3 & K4 & K5 & K6)]; [left; exact I7|right].
      exists k. split; [assumption|]. split; [assumption|]. split; [assumption|]. split; [assumption|]. split; [|assumption].
      unfold mu in *. cbn [rest sched r1] in K5. rewrite Es. cbn [length]. lia.
    + apply (read_loop_nz (S n) s r s4 r'); try assumption; rewrite Es; try reflexivity; assumption.
Qed.
