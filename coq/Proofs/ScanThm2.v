From Coq Require Import Lia.
Require Import Base.Bytes Model.Frame Model.Split Lib.Bufio Spec.StreamSpec Proofs.SplitProofs Proofs.SegProofs Proofs.LemmaB Proofs.SegT Proofs.ScanThm1.
Open Scope nat_scope.

Definition sched_pos (l : list nat) := Forall (fun k => 1 <= k) l.
Definition mu (r : reader) := length (rest r) + length (sched r).

Lemma sched_pos_tl l : sched_pos l -> sched_pos (tl l).
Proof. intros H. destruct l; [exact H|]. inversion H; assumption. Qed.

Lemma read_nil r room : rest r = [] -> read r room = ([], Some (final r), r).
Proof. intros H. unfold read. rewrite H. reflexivity. Qed.

Lemma read_cons r room : rest r <> [] -> err_with_data r = false -> sched_pos (sched r) -> 1 <= room ->
  exists k, 1 <= k <= length (rest r) /\ k <= room /\
    read r room = (firstn k (rest r), None,
       {| rest := skipn k (rest r); sched := tl (sched r); final := final r; err_with_data := err_with_data r |}).
Proof.
  intros Hne Hewd Hpos Hr. unfold read. destruct (rest r) as [|b bs] eqn:Er; [congruence|].
  rewrite Hewd. cbn [andb].
  set (k0 := match sched r with [] => room | k :: _ => k end).
  assert (Hk0 : 1 <= k0) by (unfold k0; destruct (sched r) as [|k l] eqn:Es; [lia| inversion Hpos; assumption]).
  exists (Nat.min k0 (Nat.min room (length (b :: bs)))). cbn [length]. repeat split; try lia.
Qed.

Lemma read_loop_pos n s r s4 r' :
  G s -> (sc_end s < buflen s)%N -> err_with_data r = false -> sched_pos (sched r) ->
  read_loop n s r = (s4, r') ->
  buflen s4 = buflen s /\ start s4 = start s /\ final r' = final r /\ err_with_data r' = false /\
  ((rest r = [] /\ pend s4 = pend s /\ serr s4 = set_err (serr s) (final r) /\ r' = r)
   \/ (exists k, 1 <= k <= length (rest r) /\ pend s4 = pend s ++ firstn k (rest r) /\
        rest r' = skipn k (rest r) /\ serr s4 = serr s /\ G s4 /\ sched r' = tl (sched r))).
Proof.
  intros HG Hroom Hewd Hpos H.
  assert (Hr : 1 <= N.to_nat (buflen s - sc_end s)) by lia.
  destruct (rest r) as [|b bs] eqn:Er.
  - assert (H' : read_loop n s r = (with_err (with_pend s (pend s ++ [])) (final r), r)).
    { destruct n; cbn [read_loop]; rewrite (read_nil _ _ Er); reflexivity. }
    rewrite H' in H. injection H as <- <-. cbn. rewrite app_nil_r.
    repeat split; try reflexivity; try assumption. left. repeat split; reflexivity.
  - destruct (read_cons r _ ltac:(rewrite Er; discriminate) Hewd Hpos Hr) as (k & Hk1 & Hk2 & Hrd).
    rewrite Er in *.
    destruct (firstn k (b :: bs)) as [|c cs] eqn:Ef.
    { apply (f_equal (@length _)) in Ef. rewrite firstn_length in Ef. cbn [length] in *. lia. }
    assert (H' : read_loop n s r = (with_pend s (pend s ++ c :: cs),
       {| rest := skipn k (b :: bs); sched := tl (sched r); final := final r; err_with_data := err_with_data r |})).
    { destruct n; cbn [read_loop]; rewrite Hrd; reflexivity. }
    rewrite H' in H. injection H as <- <-. cbn [buflen start pend serr final err_with_data rest sched with_pend].
    repeat split; try reflexivity; try assumption.
    right. exists k. repeat split; try reflexivity; try lia.
    + rewrite Ef. reflexivity.
    + destruct HG as [G1 G2]. unfold sc_end in *. cbn [buflen start pend with_pend].
      rewrite app_length. rewrite <- Ef, firstn_length. cbn [length] in *. lia.
    + destruct HG as [G1 G2]. exact G2.
Qed.
