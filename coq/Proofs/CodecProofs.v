(* C04: field codecs and whole-value codecs over any layout. *)
From Coq Require Import ZArith Reals Lia Lra List String Bool.
From Flocq Require Import Core BinarySingleNaN.
From Flocq Require Binary Bits.
Require Import Base.Bytes Base.ListX Spec.LayoutKinds Gen.Layouts Model.Codec Proofs.FixedProofs.
Import ListNotations.
Open Scope Z_scope.

(* ---- float32 <-> float64 ---- *)
Lemma fexp_incl : forall e, SpecFloat.fexp 53 1024 e <= SpecFloat.fexp 24 128 e.
Proof. intros e. unfold SpecFloat.fexp, SpecFloat.emin. lia. Qed.

Lemma f32_in_f64_format (x : f32) : generic_format radix2 (SpecFloat.fexp 53 1024) (B2R x).
Proof.
  apply generic_inclusion_mag with (fexp1 := SpecFloat.fexp 24 128).
  - intros _. apply fexp_incl.
  - apply generic_format_B2R.
Qed.

Lemma abs_f32_lt (x : f32) : (Rabs (B2R x) < bpow radix2 1024)%R.
Proof. apply Rlt_trans with (bpow radix2 128); [apply abs_B2R_lt_emax|apply bpow_lt; lia]. Qed.

Lemma widen_exact (x : f32) : is_finite x = true ->
  B2R (widen x) = B2R x /\ is_finite (widen x) = true /\ Bsign (widen x) = Bsign x.
Proof.
  destruct x as [s|s| |s m e Hb]; cbn [is_finite widen]; intros Hf; try discriminate.
  - repeat split.
  - generalize (binary_normalize_correct 53 1024 P53 P1024 mode_NE (cond_Zopp s (Zpos m)) e s).
    cbv zeta.
    change (F2R (Float radix2 (cond_Zopp s (Zpos m)) e)) with (B2R (B754_finite s m e Hb : f32)).
    set (x := (B754_finite s m e Hb : f32)).
    rewrite round_generic; [| apply valid_rnd_N | apply f32_in_f64_format ].
    rewrite Rlt_bool_true by apply abs_f32_lt.
    intros (H1 & H2 & H3). repeat split; try assumption.
    rewrite H3. unfold x; cbn [Bsign B2R].
    destruct s; cbn [cond_Zopp].
    + rewrite Rcompare_Lt; [reflexivity|]. apply F2R_lt_0. reflexivity.
    + rewrite Rcompare_Gt; [reflexivity|]. apply F2R_gt_0. reflexivity.
Qed.

(* float32(float64(x)) = x for every non-NaN binary32 x *)
Theorem narrow_widen (x : f32) : is_nan x = false -> narrow (widen x) = x.
Proof.
  intros Hn.
  destruct x as [s|s| |s m e Hb] eqn:Ex; try discriminate; try reflexivity.
  rewrite <- Ex. assert (Hf : is_finite x = true) by (subst; reflexivity).
  destruct (widen_exact x Hf) as (HR & HF & HS).
  destruct (widen x) as [s'|s'| |s' m' e' Hb'] eqn:Ew; try discriminate.
  - exfalso. cbn [B2R] in HR. subst x. cbn [B2R] in HR.
    symmetry in HR. apply eq_0_F2R in HR. destruct s; discriminate.
  - cbn [narrow].
    generalize (binary_normalize_correct 24 128 P24 P128 mode_NE (cond_Zopp s' (Zpos m')) e' s').
    cbv zeta.
    change (F2R (Float radix2 (cond_Zopp s' (Zpos m')) e')) with (B2R (B754_finite s' m' e' Hb' : f64)).
    rewrite HR.
    rewrite round_generic; [| apply valid_rnd_N | apply generic_format_B2R ].
    rewrite Rlt_bool_true by apply abs_B2R_lt_emax.
    intros (H1 & H2 & H3).
    apply B2R_Bsign_inj; try assumption.
    rewrite H3. cbn [Bsign] in HS. rewrite <- HS.
    subst x. cbn [B2R].
    destruct s; cbn [cond_Zopp Bsign] in *.
    + rewrite Rcompare_Lt; [congruence|]. apply F2R_lt_0. reflexivity.
    + rewrite Rcompare_Gt; [congruence|]. apply F2R_gt_0. reflexivity.
Qed.

(* the widened value denotes the same real number: decoding a Float32 field is exact *)
Theorem widen_value (x : f32) : is_finite x = true -> B2R (widen x) = B2R x.
Proof. intros H. exact (proj1 (widen_exact x H)). Qed.

(* ---- bit patterns ---- *)
Lemma f64_bits_roundtrip (x : f64) : f64_of_bits (bits_of_f64 x) = x.
Proof.
  unfold f64_of_bits, bits_of_f64, Bits.b64_of_bits, Bits.bits_of_b64.
  rewrite Bits.binary_float_of_bits_of_binary_float. apply Binary.B2BSN_BSN2B.
Qed.

Lemma f32_bits_roundtrip (x : f32) : f32_of_bits (bits_of_f32 x) = x.
Proof.
  unfold f32_of_bits, bits_of_f32, Bits.b32_of_bits, Bits.bits_of_b32.
  rewrite Bits.binary_float_of_bits_of_binary_float. apply Binary.B2BSN_BSN2B.
Qed.

Lemma BSN2B_B2BSN_nonnan prec emax nan (z : Binary.binary_float prec emax) :
  Binary.is_nan prec emax z = false -> Binary.BSN2B prec emax nan (Binary.B2BSN prec emax z) = z.
Proof. destruct z; cbn; try reflexivity. discriminate. Qed.

Lemma bits_f32_roundtrip w : 0 <= w < 2 ^ 32 -> is_nan (f32_of_bits w) = false -> bits_of_f32 (f32_of_bits w) = w.
Proof.
  intros Hw Hn. unfold bits_of_f32, f32_of_bits in *.
  rewrite BSN2B_B2BSN_nonnan.
  - unfold Bits.bits_of_b32, Bits.b32_of_bits. apply Bits.bits_of_binary_float_of_bits. exact Hw.
  - destruct (Bits.b32_of_bits w); cbn in *; try reflexivity. discriminate.
Qed.

Lemma bits_of_f32_range (x : f32) : 0 <= bits_of_f32 x < 2 ^ 32.
Proof. unfold bits_of_f32, Bits.bits_of_b32. apply (Bits.bits_of_binary_float_range 23 8); reflexivity. Qed.

(* ---- integers on the wire ---- *)
Lemma zbe_length n v : length (zbe n v) = n.
Proof. apply to_be_length. Qed.
Lemma zbe_wf n v : wf_bytes (zbe n v).
Proof. apply to_be_wf. Qed.

Lemma pow256 n : (256 ^ N.of_nat n)%N = Z.to_N (2 ^ (8 * Z.of_nat n)).
Proof.
  induction n as [|n IH]; [reflexivity|].
  rewrite Nat2N.inj_succ, N.pow_succ_r', IH.
  replace (8 * Z.of_nat (S n)) with (8 + 8 * Z.of_nat n) by lia.
  rewrite Z.pow_add_r by lia. rewrite Z2N.inj_mul by (try lia; apply Z.pow_nonneg; lia). reflexivity.
Qed.

Lemma be_zbe n v : Z.of_N (be (zbe n v)) = v mod 2 ^ (8 * Z.of_nat n).
Proof.
  unfold zbe. rewrite be_to_be, pow256.
  assert (H : 0 < 2 ^ (8 * Z.of_nat n)) by (apply Z.pow_pos_nonneg; lia).
  pose proof (Z.mod_pos_bound v _ H) as Hm.
  rewrite N.mod_small by (apply Z2N.inj_lt; lia). apply Z2N.id. lia.
Qed.

Lemma zbe_be b : wf_bytes b -> zbe (length b) (Z.of_N (be b)) = b.
Proof.
  intros H. unfold zbe.
  pose proof (be_bound b H) as Hb. rewrite pow256 in Hb.
  assert (H2 : 0 < 2 ^ (8 * Z.of_nat (length b))) by (apply Z.pow_pos_nonneg; lia).
  rewrite Z.mod_small.
  - rewrite N2Z.id. apply to_be_be. exact H.
  - split; [lia|]. apply Z2N.inj_lt; try lia; rewrite N2Z.id; exact Hb.
Qed.

Lemma zbe_sint n w b : wf_bytes b -> length b = n -> w = 8 * Z.of_nat n -> 0 < w -> zbe n (sint w (Z.of_N (be b))) = b.
Proof.
  intros Hw Hl Ew Hw0. unfold zbe. rewrite <- Ew.
  pose proof (be_bound b Hw) as Hb. rewrite Hl, pow256, <- Ew in Hb.
  assert (Hr : 0 <= Z.of_N (be b) < 2 ^ w).
  { split; [lia|]. apply Z2N.inj_lt; [lia|apply Z.pow_nonneg; lia|rewrite N2Z.id; exact Hb]. }
  rewrite (sint_mod w _ Hw0 Hr). rewrite N2Z.id. rewrite <- Hl. apply to_be_be. exact Hw.
Qed.

(* ---- one field ---- *)
Definition ksz (k : fkind) : nat := Z.to_nat (ksize k).

(* the data of a field for which encode-after-decode is the identity: everything except float32 NaNs *)
Definition field_data_ok (k : fkind) (b : bytes) : Prop :=
  match k with KF32 => is_nan (f32_of_bits (Z.of_N (be b))) = false | _ => True end.

Theorem field_encode_decode k b : wf_bytes b -> length b = ksz k -> field_data_ok k b ->
  encode_field k (decode_field k b) = b.
Proof.
  intros Hw Hl Hok. pose proof (zbe_be b Hw) as Hz. rewrite Hl in Hz.
  destruct k; cbn [decode_field encode_field]; unfold ksz in *; cbn [ksize] in *;
    try exact Hz.
  - apply (zbe_sint 1 8); auto; lia.
  - apply (zbe_sint 2 16); auto; lia.
  - apply (zbe_sint 4 32); auto; lia.
  - apply (zbe_sint 8 64); auto; lia.
  - (* float32 *)
    cbn [field_data_ok] in Hok. rewrite f64_bits_roundtrip, narrow_widen by exact Hok.
    pose proof (be_bound b Hw) as Hb. rewrite Hl in Hb. change (256 ^ N.of_nat (Z.to_nat 4))%N with 4294967296%N in Hb.
    rewrite bits_f32_roundtrip by (try exact Hok; lia). exact Hz.
  - (* 12.20 *) rewrite f64_bits_roundtrip. apply fp1220_encode_decode; assumption.
  - (* 16.32 *) rewrite f64_bits_roundtrip. apply fp1632_encode_decode; assumption.
Qed.

(* the values of a field for which decode-after-encode is the identity: representable at the field's kind *)
Definition field_value_ok (k : fkind) (v : Z) : Prop :=
  match k with
  | KU8 => 0 <= v < 2 ^ 8 | KU16 => 0 <= v < 2 ^ 16 | KU32 => 0 <= v < 2 ^ 32 | KU64 | KF64 => 0 <= v < 2 ^ 64
  | KI8 => - 2 ^ 7 <= v < 2 ^ 7 | KI16 => - 2 ^ 15 <= v < 2 ^ 15 | KI32 => - 2 ^ 31 <= v < 2 ^ 31 | KI64 => - 2 ^ 63 <= v < 2 ^ 63
  | KF32 => exists y : f32, is_nan y = false /\ v = bits_of_f64 (widen y)
  | KFP1220 => exists b, wf_bytes b /\ length b = 4%nat /\ v = bits_of_f64 (fp1220_float64 b)
  | KFP1632 => exists b, wf_bytes b /\ length b = 6%nat /\ v = bits_of_f64 (fp1632_float64 b)
  end.

Lemma encode_field_length k v : length (encode_field k v) = ksz k.
Proof.
  destruct k; cbn [encode_field]; unfold ksz; cbn [ksize]; try apply zbe_length;
    try (unfold fp1220_from; apply zbe_length).
  unfold fp1632_from. rewrite app_length, !firstn_length, !skipn_length, zbe_length. reflexivity.
Qed.

Theorem field_decode_encode k v : field_value_ok k v -> decode_field k (encode_field k v) = v.
Proof.
  intros Hv.
  destruct k; cbn [decode_field encode_field field_value_ok] in *;
    try (rewrite be_zbe; apply Z.mod_small; exact Hv).
  - rewrite be_zbe. apply (sint_of_mod 8); [lia|exact Hv].
  - rewrite be_zbe. apply (sint_of_mod 16); [lia|exact Hv].
  - rewrite be_zbe. apply (sint_of_mod 32); [lia|exact Hv].
  - rewrite be_zbe. apply (sint_of_mod 64); [lia|exact Hv].
  - destruct Hv as (y & Hn & ->). rewrite f64_bits_roundtrip, narrow_widen by exact Hn.
    rewrite be_zbe. pose proof (bits_of_f32_range y) as Hr. change (8 * Z.of_nat 4) with 32.
    rewrite Z.mod_small by exact Hr. rewrite f32_bits_roundtrip. reflexivity.
  - destruct Hv as (b & Hw & Hl & ->). rewrite f64_bits_roundtrip, fp1220_encode_decode by assumption. reflexivity.
  - destruct Hv as (b & Hw & Hl & ->). rewrite f64_bits_roundtrip, fp1632_encode_decode by assumption. reflexivity.
Qed.

Lemma skipn_app_len {A} (l1 l2 : list A) n : length l1 = n -> skipn n (l1 ++ l2) = l2.
Proof. intros <-. apply skipn_app_exact. Qed.
Lemma firstn_app_len {A} (l1 l2 : list A) n : length l1 = n -> firstn n (l1 ++ l2) = l1.
Proof. intros <-. apply firstn_app_exact. Qed.

(* ---- a whole value, for ANY layout (in particular every generated one) ---- *)
Definition layout_len (l : list (string * fkind)) : nat := fold_right (fun f a => ksz (snd f) + a)%nat 0%nat l.

Fixpoint fields_data_ok (l : list (string * fkind)) (d : bytes) : Prop :=
  match l with
  | [] => True
  | (_, k) :: t => field_data_ok k (firstn (ksz k) d) /\ fields_data_ok t (skipn (ksz k) d)
  end.

Theorem fields_encode_decode l : forall d, wf_bytes d -> length d = layout_len l -> fields_data_ok l d ->
  exists vs, decode_fields l d = Some vs /\ encode_fields l vs = d.
Proof.
  induction l as [|[n k] t IH]; intros d Hw Hl Hok.
  - destruct d; [|cbn in Hl; lia]. exists []. split; reflexivity.
  - cbn [layout_len fold_right snd] in Hl. cbn [fields_data_ok] in Hok. destruct Hok as [Hk Ht].
    cbn [decode_fields]. fold (ksz k).
    destruct (Nat.ltb_spec (length d) (ksz k)); [lia|].
    fold (layout_len t) in Hl.
    assert (Hl2 : length (skipn (ksz k) d) = layout_len t) by (rewrite skipn_length; lia).
    destruct (IH (skipn (ksz k) d) (skipn_wf _ _ Hw) Hl2 Ht) as (vs & Hd & He).
    rewrite Hd. eexists. split; [reflexivity|]. cbn [encode_fields]. rewrite He.
    rewrite field_encode_decode; [apply firstn_skipn|apply firstn_wf; exact Hw|rewrite firstn_length; lia|exact Hk].
Qed.

Theorem fields_decode_encode l : forall vs, Forall2 (fun f v => field_value_ok (snd f) v) l vs ->
  decode_fields l (encode_fields l vs) = Some vs /\ length (encode_fields l vs) = layout_len l.
Proof.
  induction l as [|[n k] t IH]; intros vs H; inversion H as [|? v ? vs' Hv Ht]; subst.
  - split; reflexivity.
  - destruct (IH vs' Ht) as [Hd Hl]. cbn [snd] in Hv.
    cbn [encode_fields decode_fields layout_len fold_right snd]. fold (ksz k). fold (layout_len t).
    rewrite app_length, encode_field_length, Hl. split; [|reflexivity].
    destruct (Nat.ltb_spec (ksz k + layout_len t) (ksz k)); [lia|].
    rewrite (skipn_app_len _ _ _ (encode_field_length k v)), (firstn_app_len _ _ _ (encode_field_length k v)).
    rewrite Hd.
    rewrite field_decode_encode by exact Hv. reflexivity.
Qed.

(* too little data: rejected (binary.Read does not touch the destination) *)
Theorem decode_short ty prec data l : dec_layout_of ty prec = Some l ->
  (length data < Z.to_nat (layout_size l))%nat -> decode ty prec data = None.
Proof.
  intros Hl Hs. unfold decode. rewrite Hl. destruct (Nat.ltb_spec (length data) (Z.to_nat (layout_size l))); [reflexivity|lia].
Qed.

Lemma layout_len_size l : layout_len l = Z.to_nat (layout_size l).
Proof.
  induction l as [|[n k] t IH]; [reflexivity|]. cbn [layout_len layout_size fold_right snd]. fold (layout_len t). fold (layout_size t).
  rewrite IH. unfold ksz. rewrite Z2Nat.inj_add; [reflexivity|destruct k; cbn; lia|].
  clear IH. induction t as [|[n' k'] t' IH']; cbn [layout_size fold_right snd]; [lia|]. fold (layout_size t'). destruct k'; cbn [ksize]; lia.
Qed.

(* with enough data the decoder reads exactly the fields of the layout, big endian, in order, and ignores the rest *)
Theorem decode_reads_layout ty prec data l : dec_layout_of ty prec = Some l ->
  (Z.to_nat (layout_size l) <= length data)%nat ->
  decode ty prec data = decode_fields l data /\ decode_fields l data <> None.
Proof.
  intros Hl Hs. unfold decode. rewrite Hl. destruct (Nat.ltb_spec (length data) (Z.to_nat (layout_size l))); [lia|].
  split; [reflexivity|]. rewrite <- layout_len_size in Hs. clear Hl H.
  revert data Hs. induction l as [|[n k] t IH]; intros data Hs; [discriminate|].
  cbn [layout_len fold_right snd] in Hs. fold (layout_len t) in Hs. cbn [decode_fields]. fold (ksz k).
  destruct (Nat.ltb_spec (length data) (ksz k)); [lia|].
  specialize (IH (skipn (ksz k) data) ltac:(rewrite skipn_length; lia)).
  destruct (decode_fields t (skipn (ksz k) data)); [discriminate|contradiction IH; reflexivity].
Qed.
