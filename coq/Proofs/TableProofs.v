(* C20: hand-maintained lookup tables.  All tables and functions are the GENERATED ones. *)
From Coq Require Import ZArith List String Bool Lia.
Require Import Base.GoInt Base.Sweep Gen.Funcs Gen.Tables Model.Tables Spec.ProtocolTables.
Import ListNotations.
Open Scope Z_scope.

(* every named identifier parses back from its own text form *)
Definition roundtrip_ok : bool :=
  forallb (fun v => match can_id_unmarshal (can_id_name v) with Some w => w =? v | None => false end) named_ids.
Lemma roundtrip_sweep : roundtrip_ok = true. Proof. vm_compute. reflexivity. Qed.

Theorem can_id_text_roundtrip v : In v named_ids -> can_id_unmarshal (can_id_name v) = Some v.
Proof.
  intros H. pose proof roundtrip_sweep as S. unfold roundtrip_ok in S. rewrite forallb_forall in S. specialize (S v H).
  destruct (can_id_unmarshal (can_id_name v)) as [w|]; [|discriminate]. apply Z.eqb_eq in S. subst. reflexivity.
Qed.

(* the candidates of UnmarshalText are exactly the named identifiers *)
Definition known_are_named : bool :=
  forallb (fun d => existsb (Z.eqb d) named_ids) can_id_known && forallb (fun v => existsb (Z.eqb v) can_id_known) named_ids
  && (List.length can_id_known =? List.length named_ids)%nat.
Lemma known_are_named_ok : known_are_named = true. Proof. vm_compute. reflexivity. Qed.

(* any text that is accepted is the text form of a named identifier, and that identifier is the result:
   so every other text is rejected *)
Theorem can_id_text_reject text v : can_id_unmarshal text = Some v -> text = can_id_name v /\ In v named_ids.
Proof.
  intros H. unfold can_id_unmarshal in H. apply find_some in H. destruct H as [Hin He].
  apply String.eqb_eq in He. split; [symmetry; exact He|].
  pose proof known_are_named_ok as K. unfold known_are_named in K. rewrite !andb_true_iff in K. destruct K as [[K _] _].
  rewrite forallb_forall in K. specialize (K v Hin). apply existsb_exists in K. destruct K as (w & Hw & E).
  apply Z.eqb_eq in E. subst. exact Hw.
Qed.

(* the text forms are the constant names, and they are pairwise distinct *)
Definition names_match_constants : bool :=
  forallb (fun c : Z * string => String.eqb (can_id_name (fst c)) (snd c)) can_id_constants.
Lemma names_match_constants_ok : names_match_constants = true. Proof. vm_compute. reflexivity. Qed.

Fixpoint distinct_strings (l : list string) : bool :=
  match l with [] => true | s :: t => negb (existsb (String.eqb s) t) && distinct_strings t end.
Lemma names_distinct : distinct_strings (map can_id_name named_ids) = true /\ List.length named_ids = 27%nat.
Proof. split; vm_compute; reflexivity. Qed.

(* ---- baud rates ---- *)
(* forall rates (every integer): the 13 supported rates map to their protocol codes, every other rate to -1 *)
Theorem baud_table c : f_CANBaudRate_ID c = match lookup_zz c spec_baud with Some v => v | None => -1 end.
Proof.
  unfold f_CANBaudRate_ID, spec_baud. cbn [lookup_zz].
  repeat match goal with |- context [c =? ?k] => destruct (Z.eqb_spec c k); [subst; reflexivity|] end.
  reflexivity.
Qed.

Fixpoint distinct_z (l : list Z) : bool :=
  match l with [] => true | s :: t => negb (existsb (Z.eqb s) t) && distinct_z t end.
Lemma baud_codes_distinct : distinct_z (map snd spec_baud) = true /\ distinct_z (map fst spec_baud) = true /\ List.length spec_baud = 13%nat
  /\ forallb (fun e : Z * Z => (0 <=? snd e) && (snd e <? 128)) spec_baud = true.
Proof. repeat split. Qed.

(* ---- acknowledge identifiers ---- *)
Lemma ack_sweep : forallb (fun m => f_MessageIdentifier_Ack m =? m + 1) (zrange 255) = true.
Proof. vm_compute. reflexivity. Qed.
Theorem ack_next m : 0 <= m < 255 -> f_MessageIdentifier_Ack m = m + 1.
Proof. intros H. pose proof (sweep _ 255 ack_sweep m H) as S. apply Z.eqb_eq in S. exact S. Qed.

Lemma isack_sweep : forallb (fun m => Bool.eqb (f_MessageIdentifier_IsAck m) (Z.odd m)) (zrange 256) = true.
Proof. vm_compute. reflexivity. Qed.
Theorem is_ack_iff_odd m : 0 <= m < 256 -> f_MessageIdentifier_IsAck m = Z.odd m.
Proof. intros H. pose proof (sweep _ 256 isack_sweep m H) as S. apply eqb_prop in S. exact S. Qed.
