(* The model client (Model.Client: scanner, buffer, read schedule, packet cursor) refines the abstract
   client (Spec.ClientSpec: reference segmentation, reference packet walk).  C02 (client clause), C03, C09, C10. *)
From Coq Require Import Lia String.
Require Import Base.Bytes Base.ListX Model.Frame Model.Packet Model.Split Lib.Bufio Spec.FrameSpec Spec.StreamSpec Spec.Terminal
  Gen.Funcs Gen.Commands Model.Client Spec.ClientSpec Spec.ClientOps Spec.ProtocolTables
  Proofs.FrameProofs Proofs.PacketProofs Proofs.SplitProofs Proofs.SegProofs Proofs.LemmaB Proofs.SegT
  Proofs.ScanThm1 Proofs.ScanThm2 Proofs.ScanThm3 Proofs.ScanThm4.
Open Scope nat_scope.

Ltac ssplit := repeat match goal with |- _ /\ _ => split end.

(* ---- the scanner against the reference segmentation ---- *)
Definition Rscan (s : scanner) (r : reader) (segs : list bytes) (tm : terminal) : Prop :=
  (G s /\ sched_ok (sched r) /\ serr s = None /\ conv_ok s r /\
     exists z, segT (pend s ++ rest r) = (segs, z) /\ tm = tterm z (final r))
  \/ (G s /\ serr s = Some (final r) /\ rest r = [] /\ drain_ok s /\
     exists z, segT (pend s) = (segs, z) /\ tm = tterm z (final r))
  \/ (finished s tm /\ segs = []).

Lemma scan_eof_irrelevant d : scan_messages d true = scan_messages d false.
Proof. unfold scan_messages. reflexivity. Qed.

Lemma scan_refines fuel s r segs tm : Rscan s r segs tm -> mu r + 2 <= fuel ->
  match scan fuel s r with
  | SR true s' r' => exists t ts, segs = t :: ts /\ tok s' = Some t /\ Rscan s' r' ts tm
  | SR false s' r' => segs = [] /\ sc_err s' = tm /\ finished s' tm
  | SFuel => False
  end.
Proof.
  intros [(HG & Hok & He & Hconv & z & Hseg & Htm)|[(HG & He & Hrest & Hdr & z & Hseg & Htm)|(Hfin & Hsegs)]] Hf.
  - (* running *)
    pose proof (scan_ok fuel s r ltac:(unfold scan_pre; ssplit; assumption)) as H.
    destruct (scan fuel s r) as [[|] s' r'|]; cbn [scan_post] in H; [| |contradiction].
    + destruct H as (t & ts & z' & Ht & Hs & Hs' & HG' & Hfin & Hewd & Hok' & Hmu & Hlen & Hst).
      rewrite Hseg in Hs. injection Hs as -> ->. exists t, ts. split; [reflexivity|]. split; [exact Ht|].
      destruct Hst as [Hn|(Hn & Hr' & Hd')].
      * left. ssplit; try assumption.
        -- unfold conv_ok in *. rewrite Hewd, Hs'. cbn [snd].
           destruct Hconv as [Hc|Hc]; [left; exact Hc|right]. rewrite Hseg in Hc. exact Hc.
        -- exists z'. split; [exact Hs'|]. rewrite Hfin. exact Htm.
      * right. left. ssplit; try assumption.
        -- rewrite Hfin. exact Hn.
        -- exists z'. rewrite Hr', app_nil_r in Hs'. split; [exact Hs'|]. rewrite Hfin. exact Htm.
    + destruct H as (z' & Hs & Herr & Hfn & Hfr & Hsr). rewrite Hseg in Hs. injection Hs as -> ->.
      split; [reflexivity|]. split; [rewrite Htm; exact Herr|]. rewrite Htm; exact Hfn.
  - (* draining *)
    destruct fuel as [|f]; [lia|].
    pose proof (scan_err_state f s r (final r) He HG Hdr) as H.
    destruct (scan (S f) s r) as [[|] s' r'|]; [| |contradiction].
    + destruct H as (-> & t & ts & z' & Ht & Hs & Hs' & Hes & Hlen & HG').
      rewrite Hseg in Hs. injection Hs as -> ->. exists t, ts. split; [reflexivity|]. split; [exact Ht|].
      right. left. ssplit; try assumption.
      * destruct Hdr as [Hd|Hd]; [left; lia|right]. rewrite Hs'. rewrite Hseg in Hd. exact Hd.
      * exists z'. split; [exact Hs'|exact Htm].
    + destruct H as (Hs & Herr & -> & Hfn). rewrite Hseg in Hs. injection Hs as -> ->.
      cbn [tterm] in Htm. subst tm. split; [reflexivity|]. split; [exact Herr|]. exact Hfn.
  - (* finished: every further call fails the same way *)
    destruct fuel as [|f]; [lia|]. destruct Hfin as (He & Hn & Htk).
    assert (Hh : has_err s = true) by (unfold has_err; rewrite He; reflexivity).
    cbn [scan]. rewrite (phase1_err _ Hh), Hh.
    destruct (scan_messages (pend s) true) as [a [t|]] eqn:E; [cbn in Hn; discriminate|].
    split; [exact Hsegs|]. split; [unfold sc_err; cbn [serr]; rewrite He; reflexivity|].
    split; [cbn [serr]; exact He|split; reflexivity].
Qed.

Lemma Rscan_init stream sch fin ewd : sched_ok sch -> (ewd = false \/ snd (segT stream) = SEnd) ->
  Rscan init_scanner (mk stream sch fin ewd) (fst (segT stream)) (tterm (snd (segT stream)) fin).
Proof.
  intros Hok Hc. left. ssplit.
  - unfold G, sc_end, init_scanner, max_token; cbn; lia.
  - exact Hok.
  - reflexivity.
  - exact Hc.
  - exists (snd (segT stream)). cbn [pend init_scanner rest mk app]. split; [destruct (segT stream); reflexivity|reflexivity].
Qed.

(* ---- packets: the cursor walk against the reference walk ---- *)
Definition packets_from (P : bytes) (i : nat) : list bytes := fst (walk (S (length P)) P i).

Lemma walk_fuel f : forall f' P i, length P - i < f -> length P - i < f' -> i <= length P -> walk f P i = walk f' P i.
Proof.
  induction f as [|f IH]; intros f' P i H H' Hi; [lia|]. destruct f' as [|f']; [lia|]. cbn [walk].
  destruct (packet_at P i) as [p| | | |] eqn:Ep; try reflexivity.
  destruct (packet_at_inside P i p Ep) as (H1 & _ & H3 & _).
  rewrite (IH f' P (i + length p)); [reflexivity| | |]; lia.
Qed.

Lemma walk_S f m i : walk (S f) m i =
  match packet_at m i with
  | Ok p => let '(ps, j) := walk f m (i + length p) in (p :: ps, j)
  | _ => ([], i)
  end.
Proof. reflexivity. Qed.

Lemma packets_from_step P i p : i <= length P -> packet_at P i = Ok p ->
  packets_from P i = p :: packets_from P (i + length p).
Proof.
  intros Hi Ep. unfold packets_from. rewrite (walk_S (length P) P i), Ep.
  destruct (packet_at_inside P i p Ep) as (H1 & _ & H3 & _).
  rewrite (walk_fuel (length P) (S (length P)) P (i + length p)) by lia.
  destruct (walk (S (length P)) P (i + length p)); reflexivity.
Qed.

Lemma packets_from_stop P i : (forall p, packet_at P i <> Ok p) -> packets_from P i = [].
Proof.
  intros H. unfold packets_from. rewrite walk_S. destruct (packet_at P i) as [p| | | |] eqn:Ep; try reflexivity.
  exfalso. exact (H p eq_refl).
Qed.

(* ---- the client ---- *)
Definition pay (c : client) : bytes := match cpay c with Some d => d | None => [] end.

Record Rcl (c : client) (sc : sclient) : Prop := {
  r_scan : Rscan (csc c) (crd c) (ssegs sc) (sterm sc);
  r_msg : cmsg c = scur sc;
  r_raw : tok (csc c) = scur sc;
  r_pkt : cpkt c = scurpkt sc;
  r_pkts : spkts sc = packets_from (pay c) (cnext c);
  r_next : cnext c <= length (pay c);
  r_pktlen : forall p, cpkt c = Some p -> 3 <= length p;
  r_tok : forall m, cmsg c = Some m -> identifier m = Some (nthb m 2) /\ (nthb m 2 <> 54%N -> spkts sc = []);
  r_wr : cwritten c = swritten sc;
  r_wp : cwplan c = swplan sc
}.

Lemma Rcl_init stream sch fin ewd wplan : sched_ok sch -> (ewd = false \/ snd (segT stream) = SEnd) ->
  Rcl (new_client (mk stream sch fin ewd) wplan) (snew stream fin wplan).
Proof.
  intros Hok Hc. pose proof (Rscan_init stream sch fin ewd Hok Hc) as HR.
  unfold snew. destruct (segT stream) as [ts z] eqn:E. cbn [fst snd] in HR.
  constructor; cbn; try reflexivity; try assumption; try lia; intros m Hm; discriminate.
Qed.

Lemma token_shape d eof a t : scan_messages d eof = (a, Some t) -> 5 <= length t.
Proof.
  unfold scan_messages. destruct d as [|x d']; [discriminate|]. set (d := x :: d').
  destruct (find_hdr d) as [i|]; [|destruct (last_is_FA d); discriminate].
  destruct (claimed_len (skipn i d)) as [L|] eqn:C; [|discriminate].
  destruct (length (skipn i d) <? L) eqn:EL; [discriminate|]. apply Nat.ltb_ge in EL.
  intros H; injection H as <- <-. rewrite firstn_length.
  unfold claimed_len in C. destruct (length (skipn i d) <? 4); [discriminate|].
  destruct (nthb (skipn i d) 3 =? 255)%N.
  - destruct (length (skipn i d) <? 6); [discriminate|]. injection C as <-. lia.
  - injection C as <-. lia.
Qed.

Lemma segT_head_shape x t ts z : segT x = (t :: ts, z) -> 5 <= length t.
Proof.
  rewrite segT_unfold. destruct (scan_messages x true) as [a [t'|]] eqn:E; [|discriminate].
  destruct (maxtok <? length t'); [discriminate|].
  destruct (segT (skipn a x)). intros H; injection H as <- _ _. exact (token_shape _ _ _ _ E).
Qed.

Lemma Rscan_head_shape s r t ts tm : Rscan s r (t :: ts) tm -> 5 <= length t.
Proof.
  intros [(_ & _ & _ & _ & z & Hseg & _)|[(_ & _ & _ & _ & z & Hseg & _)|(_ & Hs)]];
    [exact (segT_head_shape _ _ _ _ Hseg)|exact (segT_head_shape _ _ _ _ Hseg)|discriminate].
Qed.

Lemma packets_from_nil i : packets_from [] i = [].
Proof. unfold packets_from. cbn. unfold packet_at. cbn [length]. destruct (0 <? i + 3) eqn:E; [reflexivity|]. apply Nat.ltb_ge in E. lia. Qed.

Lemma identifier_of_token t : 5 <= length t -> identifier t = Some (nthb t 2).
Proof. intros H. unfold identifier. apply get_nthb. lia. Qed.

Theorem receive_refines c sc : Rcl c sc ->
  fst (receive c) = fst (sreceive sc) /\ Rcl (snd (receive c)) (snd (sreceive sc)).
Proof.
  intros R. destruct R as [Rs Rm Rr Rp Rps Rn Rpl Rt Rw Rwp].
  pose proof (scan_refines (scan_fuel c) (csc c) (crd c) (ssegs sc) (sterm sc) Rs ltac:(unfold scan_fuel, mu; lia)) as H.
  unfold receive, sreceive.
  destruct (scan (scan_fuel c) (csc c) (crd c)) as [[|] s' r'|]; [| |contradiction].
  - destruct H as (t & ts & Hsegs & Htok & HR'). rewrite Hsegs, Htok.
    pose proof (Rscan_head_shape _ _ _ _ _ ltac:(rewrite <- Hsegs; exact Rs)) as H5.
    pose proof (accepted_iff_wfb t) as Ha. unfold accepted in Ha.
    destruct (validate t) as [|e|] eqn:V.
    + (* accepted *)
      rewrite <- Ha. cbn [fst snd andb]. split; [reflexivity|].
      destruct (accessors_in_bounds t V) as (Hid & _ & _ & Hmd & _ & Hpo & _ & _). rewrite Hid.
      constructor; cbn [csc crd cmsg cpay cpkt cnext cslots cwritten cwplan ssegs sterm scur scurok spkts scurpkt swritten swplan];
        try reflexivity; try assumption; try lia; try (intros ? Hx; discriminate Hx).
      * unfold pay. cbn [cpay]. unfold mid_mtdata2. destruct (N.eqb_spec (nthb t 2) 54) as [E|E].
        -- rewrite Hmd, Hpo. reflexivity.
        -- rewrite packets_from_nil. reflexivity.
      * intros m Hm. injection Hm as <-. split; [exact Hid|]. intros Hne.
        destruct (N.eqb_spec (nthb t 2) 54); [contradiction|reflexivity].
    + (* rejected *)
      rewrite <- Ha. cbn [fst snd andb]. split; [reflexivity|].
      constructor; cbn [csc crd cmsg cpay cpkt cnext cslots cwritten cwplan ssegs sterm scur scurok spkts scurpkt swritten swplan];
        try reflexivity; try assumption; try lia; try (intros ? Hx; discriminate Hx).
      all: try (unfold pay; cbn [cpay]; rewrite packets_from_nil; reflexivity).
      intros m Hm. injection Hm as <-. split; [apply identifier_of_token; exact H5|reflexivity].
    + exfalso. exact (validate_never_oob t V).
  - destruct H as (Hsegs & Herr & HR'). rewrite Hsegs. cbn [fst snd]. split; [rewrite Herr; reflexivity|].
    pose proof HR' as (_ & _ & Htk).
    assert (HR2 : Rscan s' r' [] (sterm sc)) by (right; right; split; [exact HR'|reflexivity]).
    constructor; cbn [csc crd cmsg cpay cpkt cnext cslots cwritten cwplan ssegs sterm scur scurok spkts scurpkt swritten swplan];
      try reflexivity; try assumption; try lia; try (intros ? Hx; discriminate Hx).
    all: try (unfold pay; cbn [cpay]; rewrite packets_from_nil; reflexivity).
    all: try (intros m Hm; discriminate).
Qed.

Theorem scan_md_refines c sc : Rcl c sc -> scur sc <> None ->
  fst (scan_md c) = Ok (fst (sscan sc)) /\ Rcl (snd (scan_md c)) (snd (sscan sc)).
Proof.
  intros R Hcur. destruct R as [Rs Rm Rr Rp Rps Rn Rpl Rt Rw Rwp].
  destruct (scur sc) as [m|] eqn:Ecur; [|congruence]. clear Hcur.
  destruct (Rt m Rm) as [Hid Hne].
  unfold scan_md. rewrite Rm, Hid. unfold mid_mtdata2.
  destruct (N.eqb_spec (nthb m 2) 54) as [E|E]; cbn [negb].
  - (* a measurement message: advance the cursor *)
    fold (pay c).
    destruct (packet_at (pay c) (cnext c)) as [p|k| | |] eqn:Ep.
    + pose proof (packets_from_step (pay c) (cnext c) p Rn Ep) as Hstep. rewrite <- Rps in Hstep.
      destruct (packet_at_inside _ _ _ Ep) as (Hin & _ & Hp3 & _).
      unfold sscan. rewrite Hstep.
      assert (HR : forall sl, Rcl {| csc := csc c; crd := crd c; cmsg := Some m; cpay := cpay c; cpkt := Some p;
                                     cnext := cnext c + length p; cslots := sl; cwritten := cwritten c; cwplan := cwplan c |}
                                  {| ssegs := ssegs sc; sterm := sterm sc; scur := scur sc; scurok := scurok sc;
                                     spkts := packets_from (pay c) (cnext c + length p); scurpkt := Some p;
                                     swritten := swritten sc; swplan := swplan sc |}).
      { intros sl. constructor; cbn [csc crd cmsg cpay cpkt cnext cslots cwritten cwplan ssegs sterm scur scurok spkts scurpkt swritten swplan];
          try reflexivity; try assumption; try (rewrite Ecur; assumption); try (symmetry; assumption).
        - intros p' Hp'. injection Hp' as <-. exact Hp3.
        - intros m' Hm'; injection Hm' as <-; split; [exact Hid|]; intros; contradiction. }
      destruct (dispatch p) as [[slot ty]|].
      * destruct (decodable p); cbn [fst snd]; (split; [reflexivity|apply HR]).
      * cbn [fst snd]. split; [reflexivity|apply HR].
    + assert (Hnil : spkts sc = []).
      { rewrite Rps. apply packets_from_stop. intros p Hp. rewrite Ep in Hp. discriminate. }
      unfold sscan. rewrite Hnil. cbn [fst snd]. split; [reflexivity|].
      constructor; try assumption; try (rewrite Ecur; assumption).
    + exfalso. exact (proj1 (packet_at_total (pay c) (cnext c)) Ep).
    + exfalso. exact (proj1 (proj2 (packet_at_total (pay c) (cnext c))) Ep).
    + exfalso. exact (proj2 (proj2 (packet_at_total (pay c) (cnext c))) Ep).
  - (* not a measurement message: nothing to scan *)
    unfold sscan. rewrite (Hne E). cbn [fst snd]. split; [reflexivity|].
    constructor; try assumption; try (rewrite Ecur; assumption).
Qed.

(* ---- operation sequences ---- *)
Open Scope nat_scope.

Definition agrees (mo : obs) (so : option obs) : Prop := match so with None => True | Some w => w = mo end.

Lemma segT_count x : forall l z, segT x = (l, z) -> length l <= length x.
Proof.
  assert (H : forall n x, length x <= n -> forall l z, segT x = (l, z) -> length l <= length x).
  { induction n as [|n IH]; intros y Hn l z.
    - destruct y; [|cbn in Hn; lia]. rewrite segT_unfold. cbn. destruct (maxtok <=? 0); intros E; injection E as <- _; cbn; lia.
    - rewrite segT_unfold. destruct (scan_messages y true) as [a [t|]] eqn:E.
      + destruct (scan_tok_bounds _ _ _ _ E) as [[Ha1 Ha2] _].
        destruct (maxtok <? length t); [intros E2; injection E2 as <- _; cbn; lia|].
        destruct (segT (skipn a y)) as [ts e] eqn:E3. intros E2; injection E2 as <- _.
        pose proof (IH (skipn a y) ltac:(rewrite skipn_length; lia) ts e E3) as Hl.
        rewrite skipn_length in Hl. cbn [length]. lia.
      + intros E2; injection E2 as <- _. cbn; lia. }
  intros l z. exact (H (length x) x (le_n _) l z).
Qed.

Lemma Rscan_count s r segs tm : Rscan s r segs tm -> length segs <= length (pend s) + length (rest r).
Proof.
  intros [(_ & _ & _ & _ & z & Hseg & _)|[(_ & _ & _ & _ & z & Hseg & _)|(_ & ->)]].
  - pose proof (segT_count _ _ _ Hseg) as H. rewrite app_length in H. exact H.
  - pose proof (segT_count _ _ _ Hseg) as H. unfold bytes in *. lia.
  - cbn. lia.
Qed.

Lemma receive_until_refines f1 : forall f2 c sc until, Rcl c sc ->
  length (ssegs sc) < f1 -> length (ssegs sc) < f2 ->
  fst (receive_until f1 c until) = fst (sreceive_until f2 sc until) /\
  Rcl (snd (receive_until f1 c until)) (snd (sreceive_until f2 sc until)).
Proof.
  induction f1 as [|f1 IH]; intros f2 c sc until R H1 H2; [lia|]. destruct f2 as [|f2]; [lia|].
  cbn [receive_until sreceive_until].
  destruct (receive_refines c sc R) as [E R'].
  destruct (receive c) as [rr c'] eqn:Erc. destruct (sreceive sc) as [rs sc'] eqn:Ers. cbn [fst snd] in E, R'. subst rs.
  destruct rr; try (cbn [fst snd]; split; [reflexivity|exact R']).
  (* ROk: the frame just delivered *)
  assert (Hcur : exists t ts, ssegs sc = t :: ts /\ scur sc' = Some t /\ ssegs sc' = ts).
  { unfold sreceive in Ers. destruct (ssegs sc) as [|t ts]; [injection Ers as E _; discriminate|].
    injection Ers as _ <-. exists t, ts. repeat split. }
  destruct Hcur as (t & ts & Hs & Hc & Hs').
  destruct R' as [Rs Rm Rr Rp Rps Rn Rpl Rt Rw Rwp] eqn:ER. 
  unfold message_identifier. rewrite Rm, Hc. destruct (Rt t ltac:(rewrite Rm; exact Hc)) as [Hid _]. rewrite Hid. cbn [of_opt].
  destruct (nthb t 2 =? until)%N; [cbn [fst snd]; split; [reflexivity|constructor; assumption]|].
  apply IH; [constructor; assumption| |]; rewrite Hs'; rewrite Hs in *; cbn [length] in *; lia.
Qed.

Lemma lookup_tables_agree name :
  option_map (fun v : Z * (string * (Z * string)) => (fst v, fst (snd (snd v)))) (lookup_cmd name) = lookup_spec_cmd name.
Proof.
  unfold lookup_cmd, lookup_spec_cmd, command_table, spec_commands.
  cbn [option_map fst snd].
  repeat match goal with |- context [String.eqb ?k name] => destruct (String.eqb k name); [reflexivity|] end.
  reflexivity.
Qed.

Theorem step_refines c sc o : Rcl c sc ->
  agrees (fst (m_step c o)) (fst (s_step sc o)) /\ Rcl (snd (m_step c o)) (snd (s_step sc o)).
Proof.
  intros R. destruct o as [| | | | | | |name payload]; cbn [m_step s_step].
  - (* receive *)
    destruct (receive_refines c sc R) as [E R'].
    destruct (receive c) as [rr c']. destruct (sreceive sc) as [rs sc']. cbn [fst snd] in *. subst. split; [reflexivity|exact R'].
  - (* scan *)
    destruct (scur sc) as [m|] eqn:Ecur.
    + destruct (scan_md_refines c sc R ltac:(rewrite Ecur; discriminate)) as [E R'].
      destruct (scan_md c) as [rr c']. destruct (sscan sc) as [b sc']. cbn [fst snd] in *. subst rr. split; [reflexivity|exact R'].
    + destruct R as [Rs Rm Rr Rp Rps Rn Rpl Rt Rw Rwp] eqn:ER. unfold scan_md. rewrite Rm, Ecur. cbn [fst snd]. split; [exact I|].
      constructor; assumption.
  - (* raw message *)
    cbn [fst snd]. split; [|exact R]. unfold raw_message. rewrite (r_raw _ _ R). reflexivity.
  - (* message identifier *)
    cbn [fst snd]. split; [|exact R]. unfold message_identifier. rewrite (r_msg _ _ R).
    destruct (scur sc) as [t|] eqn:Ecur; [|exact I].
    destruct (r_tok _ _ R t ltac:(rewrite (r_msg _ _ R); exact Ecur)) as [Hid _]. rewrite Hid. reflexivity.
  - (* data type *)
    cbn [fst snd]. split; [|exact R]. unfold data_type. rewrite (r_pkt _ _ R).
    destruct (scurpkt sc) as [p|] eqn:Ep; [|exact I].
    pose proof (r_pktlen _ _ R p ltac:(rewrite (r_pkt _ _ R); exact Ep)) as H3.
    destruct (Nat.leb_spec 2 (length p)); [reflexivity|lia].
  - (* raw packet *)
    cbn [fst snd]. split; [|exact R]. unfold raw_packet. rewrite (r_pkt _ _ R).
    destruct (scurpkt sc); [reflexivity|exact I].
  - (* measurement slot *)
    cbn [fst snd]. split; [|exact R]. unfold measurement_slot. rewrite (r_pkt _ _ R).
    destruct (scurpkt sc) as [p|] eqn:Ep; [|exact I].
    pose proof (r_pktlen _ _ R p ltac:(rewrite (r_pkt _ _ R); exact Ep)) as H3.
    destruct (Nat.leb_spec 2 (length p)); [|lia]. destruct (dispatch p) as [[a b]|]; reflexivity.
  - (* command *)
    pose proof (lookup_tables_agree name) as Ht.
    destruct (lookup_cmd name) as [[req [src [ack dec]]]|]; cbn [option_map fst snd] in Ht; rewrite <- Ht.
    2:{ cbn [fst snd]. split; [exact I|exact R]. }
    unfold command, scommand, send. rewrite (r_wp _ _ R).
    assert (Hok : forall wp',
      let c1 := {| csc := csc c; crd := crd c; cmsg := cmsg c; cpay := cpay c; cpkt := cpkt c; cnext := cnext c;
                   cslots := cslots c; cwritten := cwritten c ++ [new_message (Z.to_N req) payload]; cwplan := wp' |} in
      let sc1 := {| ssegs := ssegs sc; sterm := sterm sc; scur := scur sc; scurok := scurok sc; spkts := spkts sc;
                    scurpkt := scurpkt sc; swritten := swritten sc ++ [new_message (Z.to_N req) payload]; swplan := wp' |} in
      agrees (BCmd match fst (receive_until (until_fuel c1) c1 (Z.to_N ack)) with
                   | CmdOk => BBool true | CmdWriteErr => BBool false | CmdRecvErr e => recv_obs e end
                   (skipn (length (cwritten c)) (cwritten (snd (receive_until (until_fuel c1) c1 (Z.to_N ack))))) 0)
             (Some (BCmd match fst (sreceive_until (S (length (ssegs sc))) sc1 (Z.to_N ack)) with
                         | CmdOk => BBool true | CmdWriteErr => BBool false | CmdRecvErr e => recv_obs e end
                         (skipn (length (swritten sc)) (swritten (snd (sreceive_until (S (length (ssegs sc))) sc1 (Z.to_N ack))))) 0)) /\
      Rcl (snd (receive_until (until_fuel c1) c1 (Z.to_N ack))) (snd (sreceive_until (S (length (ssegs sc))) sc1 (Z.to_N ack)))).
    { intros wp' c1 sc1.
      assert (R1 : Rcl c1 sc1).
      { destruct R as [Rs Rm Rr Rp Rps Rn Rpl Rt Rw Rwp]. constructor; cbn; try assumption; try reflexivity. rewrite Rw. reflexivity. }
      pose proof (Rscan_count _ _ _ _ (r_scan _ _ R)) as Hc.
      destruct (receive_until_refines (until_fuel c1) (S (length (ssegs sc))) c1 sc1 (Z.to_N ack) R1
                  ltac:(unfold until_fuel, c1, sc1; cbn [csc crd ssegs]; unfold bytes in *; lia) ltac:(unfold sc1; cbn [ssegs]; lia)) as [E R'].
      split; [|exact R']. cbn [agrees]. rewrite E, (r_wr _ _ R'), (r_wr _ _ R). reflexivity. }
    destruct (swplan sc) as [|[|] pl] eqn:Ewp.
    + (* no plan left: the write succeeds *)
      specialize (Hok []). cbv zeta in Hok. cbn [tl].
      destruct (receive_until _ _ _) as [rr c']. destruct (sreceive_until _ _ _) as [rs sc']. exact Hok.
    + specialize (Hok pl). cbv zeta in Hok. cbn [tl].
      destruct (receive_until _ _ _) as [rr c']. destruct (sreceive_until _ _ _) as [rs sc']. exact Hok.
    + (* the write fails: nothing is consumed, nothing is written *)
      cbn [fst snd cwritten swritten]. rewrite (r_wr _ _ R), !skipn_all. split; [reflexivity|].
      destruct R as [Rs Rm Rr Rp Rps Rn Rpl Rt Rw Rwp]. constructor; cbn; try assumption; reflexivity.
Qed.

Theorem run_refines ops : forall c sc, Rcl c sc -> Forall2 agrees (m_run c ops) (s_run sc ops).
Proof.
  induction ops as [|o ops IH]; intros c sc R; cbn [m_run s_run]; [constructor|].
  destruct (step_refines c sc o R) as [Ha R'].
  destruct (m_step c o) as [b c']. destruct (s_step sc o) as [w sc']. cbn [fst snd] in *.
  constructor; [exact Ha|apply IH; exact R'].
Qed.

(* the headline: on every stream, under every read schedule and error convention, whatever the operations,
   the client behaves as the abstract client over the reference segmentation wherever the latter is defined *)
Theorem client_refines_spec stream sch fin ewd wplan ops :
  sched_ok sch -> (ewd = false \/ snd (segT stream) = SEnd) ->
  Forall2 agrees (m_run (new_client (mk stream sch fin ewd) wplan) ops) (s_run (snew stream fin wplan) ops).
Proof. intros Hok Hc. apply run_refines. apply Rcl_init; assumption. Qed.
