(* C17: the lock discipline excludes data races and overlapping critical sections under every interleaving. *)
From Coq Require Import List Arith Lia Bool.
Require Import Model.Conc.
Import ListNotations.

Definition inv (st : gstate) : Prop :=
  (forall i, ok (held (threads st i)) (todo (threads st i)) = true) /\
  (forall i, held (threads st i) = HW <-> holder st = Some i) /\
  (holder st <> None -> forall j, held (threads st j) <> HR).

Lemma upd_same f i x : upd f i x i = x.
Proof. unfold upd. rewrite Nat.eqb_refl. reflexivity. Qed.
Lemma upd_other f i x j : j <> i -> upd f i x j = f j.
Proof. intros H. unfold upd. apply Nat.eqb_neq in H. rewrite H. reflexivity. Qed.

Lemma ok_cons_other a l h : is_lock_op a = false -> ok h (a :: l) = true -> ok h l = true.
Proof. intros Ha H. destruct a; try discriminate; cbn [ok] in H; destruct h; try discriminate; exact H. Qed.

Lemma inv_step st st' : inv st -> step st st' -> inv st'.
Proof.
  intros (Hok & Hh & Hr) Hs. inversion Hs; subst; clear Hs.
  - (* Lock *)
    pose proof (Hok i) as Oi. rewrite H in Oi. cbn [ok] in Oi. destruct (held (threads st i)) eqn:Ei; try discriminate.
    split; [|split]; cbn [threads holder].
    + intros j. destruct (Nat.eq_dec j i) as [->|Hne]; [rewrite upd_same; exact Oi|rewrite upd_other by exact Hne; apply Hok].
    + intros j. destruct (Nat.eq_dec j i) as [->|Hne]; [rewrite upd_same; cbn; tauto|rewrite upd_other by exact Hne].
      split; intros Hj; [apply Hh in Hj; congruence|inversion Hj; congruence].
    + intros _ j. destruct (Nat.eq_dec j i) as [->|Hne]; [rewrite upd_same; cbn; discriminate|rewrite upd_other by exact Hne; apply H1].
  - (* Unlock *)
    pose proof (Hok i) as Oi. rewrite H in Oi. cbn [ok] in Oi. destruct (held (threads st i)) eqn:Ei; try discriminate.
    split; [|split]; cbn [threads holder].
    + intros j. destruct (Nat.eq_dec j i) as [->|Hne]; [rewrite upd_same; exact Oi|rewrite upd_other by exact Hne; apply Hok].
    + intros j. destruct (Nat.eq_dec j i) as [->|Hne]; [rewrite upd_same; cbn; split; discriminate|rewrite upd_other by exact Hne].
      split; [|discriminate]. intros Hj. apply Hh in Ei. apply Hh in Hj. congruence.
    + intros C; contradiction C; reflexivity.
  - (* RLock *)
    pose proof (Hok i) as Oi. rewrite H in Oi. cbn [ok] in Oi. destruct (held (threads st i)) eqn:Ei; try discriminate.
    split; [|split]; cbn [threads holder].
    + intros j. destruct (Nat.eq_dec j i) as [->|Hne]; [rewrite upd_same; exact Oi|rewrite upd_other by exact Hne; apply Hok].
    + intros j. destruct (Nat.eq_dec j i) as [->|Hne]; [rewrite upd_same; cbn; split; discriminate|rewrite upd_other by exact Hne].
      rewrite <- H0. apply Hh.
    + intros C; contradiction C; reflexivity.
  - (* RUnlock *)
    pose proof (Hok i) as Oi. rewrite H in Oi. cbn [ok] in Oi. destruct (held (threads st i)) eqn:Ei; try discriminate.
    split; [|split]; cbn [threads holder].
    + intros j. destruct (Nat.eq_dec j i) as [->|Hne]; [rewrite upd_same; exact Oi|rewrite upd_other by exact Hne; apply Hok].
    + intros j. destruct (Nat.eq_dec j i) as [->|Hne]; [rewrite upd_same; cbn|rewrite upd_other by exact Hne; apply Hh].
      split; [discriminate|]. intros Hj. apply Hh in Hj. congruence.
    + intros Hn j. destruct (Nat.eq_dec j i) as [->|Hne]; [rewrite upd_same; cbn; discriminate|rewrite upd_other by exact Hne; apply Hr; exact Hn].
  - (* any other action *)
    split; [|split]; cbn [threads holder].
    + intros j. destruct (Nat.eq_dec j i) as [->|Hne]; [rewrite upd_same|rewrite upd_other by exact Hne; apply Hok].
      cbn [todo held]. specialize (Hok i). rewrite H in Hok. exact (ok_cons_other _ _ _ H0 Hok).
    + intros j. destruct (Nat.eq_dec j i) as [->|Hne]; [rewrite upd_same; cbn; apply Hh|rewrite upd_other by exact Hne; apply Hh].
    + intros Hn j. destruct (Nat.eq_dec j i) as [->|Hne]; [rewrite upd_same; cbn; apply Hr; exact Hn|rewrite upd_other by exact Hne; apply Hr; exact Hn].
Qed.

Lemma access_held a l h x w : ok h (a :: l) = true -> access a = Some (x, w) ->
  h <> HN /\ (w = true -> h = HW).
Proof.
  intros Ho Ha. destruct a; cbn in Ha; try discriminate; injection Ha as <- <-; cbn [ok] in Ho; destruct h; try discriminate;
    (split; [discriminate|]); intros; try reflexivity; discriminate.
Qed.

Lemma inv_no_race st : inv st -> ~ race st.
Proof.
  intros (Hok & Hh & Hr) (i & j & a & b & la & lb & x & wa & wb & Hne & Hi & Hj & Ha & Hb & Hw).
  pose proof (Hok i) as Oi. pose proof (Hok j) as Oj. rewrite Hi in Oi. rewrite Hj in Oj.
  destruct (access_held _ _ _ _ _ Oi Ha) as [Ni Wi]. destruct (access_held _ _ _ _ _ Oj Hb) as [Nj Wj].
  apply orb_true_iff in Hw. destruct Hw as [->| ->].
  - specialize (Wi eq_refl). pose proof (proj1 (Hh i) Wi) as Hi'.
    destruct (held (threads st j)) eqn:Ej; [contradiction Nj; reflexivity| |].
    + apply (Hr ltac:(rewrite Hi'; discriminate) j). exact Ej.
    + apply Hh in Ej. congruence.
  - specialize (Wj eq_refl). pose proof (proj1 (Hh j) Wj) as Hj'.
    destruct (held (threads st i)) eqn:Ei; [contradiction Ni; reflexivity| |].
    + apply (Hr ltac:(rewrite Hj'; discriminate) i). exact Ei.
    + apply Hh in Ei. congruence.
Qed.

Lemma inv_no_overlap st : inv st -> ~ overlap st.
Proof.
  intros (_ & Hh & Hr) (i & j & Hne & Hi & Hj). pose proof (proj1 (Hh i) Hi) as Hi'.
  destruct (held (threads st j)) eqn:Ej; [contradiction Hj; reflexivity| |].
  - apply (Hr ltac:(rewrite Hi'; discriminate) j). exact Ej.
  - apply Hh in Ej. congruence.
Qed.

Lemma inv_reachable code st : (forall i, ok HN (code i) = true) -> reachable (initial code) st -> inv st.
Proof.
  intros Hcode Hr. induction Hr as [|s s' _ IH Hs].
  - split; [|split]; cbn; [intros i; apply Hcode|intros i; split; discriminate|intros C; contradiction C; reflexivity].
  - eapply inv_step; eassumption.
Qed.

(* any number of threads, any interleaving that respects the lock (a writer excludes everybody, readers exclude
   writers): no data race, and never a thread inside a write critical section while another is inside any critical
   section (so what one critical section reads is the whole of what another wrote) *)
Theorem discipline_sound (code : nat -> list action) :
  (forall i, ok HN (code i) = true) ->
  forall st, reachable (initial code) st -> ~ race st /\ ~ overlap st.
Proof.
  intros Hcode st Hr. pose proof (inv_reachable code st Hcode Hr) as I. split; [apply inv_no_race|apply inv_no_overlap]; exact I.
Qed.

(* ---- the static check is sound for every path ---- *)
Lemma ok_app_iff h l1 l2 : ok h (l1 ++ l2) = ok h l1 && ok (final h l1) l2.
Proof.
  revert h; induction l1 as [|a l IH]; intros h; [reflexivity|].
  destruct a; cbn [app ok final]; try (destruct h; cbn; try reflexivity; apply IH); apply IH.
Qed.
Lemma final_app h l1 l2 : final h (l1 ++ l2) = final (final h l1) l2.
Proof. revert h; induction l1 as [|a l IH]; intros h; [reflexivity|]. destruct a; cbn; apply IH. Qed.

Lemma hm_eqb_eq a b : hm_eqb a b = true -> a = b.
Proof. destruct a, b; cbn; intros H; try discriminate; reflexivity. Qed.

Lemma act_check_sound a h h' : act_check a h = Some h' -> ok h [a] = true /\ final h [a] = h'.
Proof. destruct a, h; cbn; intros H; try discriminate; injection H as <-; split; reflexivity. Qed.

Lemma check_sound s : forall h r l ret, check s h = Some r -> path s l ret ->
  ok h l = true /\ (ret = true -> final h l = HN) /\ (ret = false -> r = Some (final h l)).
Proof.
  induction s as [| a | |a IHa b IHb|a IHa b IHb|a IHa|c IHc]; intros h r l ret Hc Hp.
  - inversion Hp; subst. cbn in Hc. injection Hc as <-. repeat split; try discriminate; reflexivity.
  - inversion Hp; subst. cbn [check] in Hc. destruct (act_check a h) as [h'|] eqn:E; [|discriminate]. injection Hc as <-.
    destruct (act_check_sound a h h' E) as [O F]. repeat split; [exact O|discriminate|intros _; rewrite F; reflexivity].
  - inversion Hp; subst. cbn in Hc. destruct h; try discriminate. injection Hc as <-. repeat split; try discriminate; reflexivity.
  - cbn in Hc. destruct (check a h) as [[h1|]|] eqn:E1; [| |discriminate].
    + inversion Hp as [| | |a0 b0 la Pa|a0 b0 la lb r0 Pa Pb| | | | | |]; subst.
      * destruct (IHa _ _ _ _ E1 Pa) as (O1 & F1 & _). repeat split; [exact O1|intros _; apply F1; reflexivity|discriminate].
      * destruct (IHa _ _ _ _ E1 Pa) as (O1 & _ & F1). specialize (F1 eq_refl). injection F1 as F1.
        subst h1. destruct (IHb _ _ _ _ Hc Pb) as (O2 & F2 & G2).
        rewrite ok_app_iff, final_app, O1, O2. repeat split; assumption.
    + injection Hc as <-. inversion Hp as [| | |a0 b0 la Pa|a0 b0 la lb r0 Pa Pb| | | | | |]; subst.
      * destruct (IHa _ _ _ _ E1 Pa) as (O1 & F1 & _). repeat split; [exact O1|intros _; apply F1; reflexivity|discriminate].
      * destruct (IHa _ _ _ _ E1 Pa) as (_ & _ & F1). specialize (F1 eq_refl). discriminate.
  - cbn in Hc.
    destruct (check a h) as [[h1|]|] eqn:E1; destruct (check b h) as [[h2|]|] eqn:E2; try discriminate.
    + destruct (hm_eqb h1 h2) eqn:E; [|discriminate]. apply hm_eqb_eq in E. subst h2. injection Hc as <-.
      inversion Hp as [| | | | |a0 b0 l0 r0 Pa|a0 b0 l0 r0 Pb| | | |]; subst.
      * exact (IHa _ _ _ _ E1 Pa).
      * exact (IHb _ _ _ _ E2 Pb).
    + injection Hc as <-.
      inversion Hp as [| | | | |a0 b0 l0 r0 Pa|a0 b0 l0 r0 Pb| | | |]; subst.
      * exact (IHa _ _ _ _ E1 Pa).
      * destruct (IHb _ _ _ _ E2 Pb) as (O & F & G). repeat split; [exact O|exact F|]. intros Hr. specialize (G Hr). discriminate.
    + injection Hc as <-.
      inversion Hp as [| | | | |a0 b0 l0 r0 Pa|a0 b0 l0 r0 Pb| | | |]; subst.
      * destruct (IHa _ _ _ _ E1 Pa) as (O & F & G). repeat split; [exact O|exact F|]. intros Hr. specialize (G Hr). discriminate.
      * exact (IHb _ _ _ _ E2 Pb).
    + injection Hc as <-.
      inversion Hp as [| | | | |a0 b0 l0 r0 Pa|a0 b0 l0 r0 Pb| | | |]; subst.
      * exact (IHa _ _ _ _ E1 Pa).
      * exact (IHb _ _ _ _ E2 Pb).
  - cbn in Hc. destruct (check a h) as [[h1|]|] eqn:E1; [| |discriminate].
    + destruct (hm_eqb h1 h) eqn:E; [|discriminate]. apply hm_eqb_eq in E. subst h1. injection Hc as <-.
      remember (Loop a) as la eqn:El. induction Hp as [| | | | | | |a0|a0 l1 l2 r0 P1 _ P2 IH2|a0 l1 P1|]; inversion El; subst.
      * repeat split; try discriminate; reflexivity.
      * destruct (IHa _ _ _ _ E1 P1) as (O1 & _ & G1). specialize (G1 eq_refl). injection G1 as G1.
        destruct (IH2 eq_refl) as (O2 & F2 & G2). rewrite ok_app_iff, final_app, O1. rewrite <- G1. repeat split; assumption.
      * destruct (IHa _ _ _ _ E1 P1) as (O1 & F1 & _). repeat split; [exact O1|exact F1|discriminate].
    + injection Hc as <-.
      remember (Loop a) as la eqn:El. induction Hp as [| | | | | | |a0|a0 l1 l2 r0 P1 _ P2 IH2|a0 l1 P1|]; inversion El; subst.
      * repeat split; try discriminate; reflexivity.
      * destruct (IHa _ _ _ _ E1 P1) as (_ & _ & G1). specialize (G1 eq_refl). discriminate.
      * destruct (IHa _ _ _ _ E1 P1) as (O1 & F1 & _). repeat split; [exact O1|exact F1|discriminate].
  - cbn in Hc. inversion Hp as [| | | | | | | | | |s0 l0 r0 Pc]; subst.
    destruct (check c h) as [[h1|]|] eqn:E1; [| |discriminate].
    + destruct h1; try discriminate. injection Hc as <-.
      destruct (IHc _ _ _ _ E1 Pc) as (O1 & F1 & G1). repeat split; [exact O1|discriminate|].
      intros _. destruct r0; [rewrite (F1 eq_refl); reflexivity|specialize (G1 eq_refl); injection G1 as <-; reflexivity].
    + injection Hc as <-. destruct (IHc _ _ _ _ E1 Pc) as (O1 & F1 & G1). repeat split; [exact O1|discriminate|].
      intros _. destruct r0; [rewrite (F1 eq_refl); reflexivity|specialize (G1 eq_refl); discriminate].
Qed.

(* a disciplined method: every path, returning or falling off the end, is a balanced sequence of critical sections *)
Theorem disciplined_paths s l ret : disciplined s = true -> path s l ret -> ok HN l = true /\ final HN l = HN.
Proof.
  unfold disciplined. destruct (check s HN) as [[[| |]|]|] eqn:E; try discriminate; intros _ Hp;
    destruct (check_sound _ _ _ _ _ E Hp) as (O & F & G); (split; [exact O|]); destruct ret.
  - apply F; reflexivity.
  - specialize (G eq_refl). injection G as G. symmetry. exact G.
  - apply F; reflexivity.
  - specialize (G eq_refl). discriminate.
Qed.

(* a thread that calls disciplined methods one after the other *)
Lemma ok_concat ls : Forall (fun l => ok HN l = true /\ final HN l = HN) ls ->
  ok HN (concat ls) = true /\ final HN (concat ls) = HN.
Proof.
  induction 1 as [|l ls [O F] _ [IO IF]]; [split; reflexivity|]. cbn [concat].
  rewrite ok_app_iff, final_app, O, F, IO, IF. split; reflexivity.
Qed.
