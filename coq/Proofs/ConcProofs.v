(* C17: the lock discipline excludes data races and overlapping critical sections under every interleaving. *)
From Coq Require Import List Arith Lia Bool.
Require Import Model.Conc.
Import ListNotations.

Definition inv (st : gstate) : Prop :=
  (forall i, ok (held (threads st i)) (todo (threads st i)) = true) /\
  (forall i, held (threads st i) = true <-> holder st = Some i).

Lemma upd_same f i x : upd f i x i = x.
Proof. unfold upd. rewrite Nat.eqb_refl. reflexivity. Qed.
Lemma upd_other f i x j : j <> i -> upd f i x j = f j.
Proof. intros H. unfold upd. apply Nat.eqb_neq in H. rewrite H. reflexivity. Qed.

Lemma inv_step st st' : inv st -> step st st' -> inv st'.
Proof.
  intros [Hok Hh] Hs. inversion Hs; subst; clear Hs; split; cbn [threads holder]; intros j.
  - destruct (Nat.eq_dec j i) as [->|Hne]; [rewrite upd_same|rewrite upd_other by exact Hne; apply Hok].
    cbn [todo held]. specialize (Hok i). rewrite H in Hok. cbn [ok] in Hok.
    destruct (held (threads st i)); [discriminate|exact Hok].
  - destruct (Nat.eq_dec j i) as [->|Hne]; [rewrite upd_same; cbn; tauto|rewrite upd_other by exact Hne].
    split; intros Hj.
    + apply Hh in Hj. congruence.
    + inversion Hj; congruence.
  - destruct (Nat.eq_dec j i) as [->|Hne]; [rewrite upd_same|rewrite upd_other by exact Hne; apply Hok].
    cbn [todo held]. specialize (Hok i). rewrite H in Hok. cbn [ok] in Hok.
    destruct (held (threads st i)); [exact Hok|discriminate].
  - destruct (Nat.eq_dec j i) as [->|Hne]; [rewrite upd_same; cbn; split; discriminate|rewrite upd_other by exact Hne].
    split; [|discriminate]. intros Hj.
    pose proof (Hok i) as Hi. rewrite H in Hi. cbn [ok] in Hi.
    destruct (held (threads st i)) eqn:Ei; [|discriminate].
    apply Hh in Ei. apply Hh in Hj. congruence.
  - destruct (Nat.eq_dec j i) as [->|Hne]; [rewrite upd_same|rewrite upd_other by exact Hne; apply Hok].
    cbn [todo held]. specialize (Hok i). rewrite H in Hok.
    destruct a; try congruence; cbn [ok] in Hok; try exact Hok; apply andb_prop in Hok as [_ Hok]; exact Hok.
  - destruct (Nat.eq_dec j i) as [->|Hne]; [rewrite upd_same; cbn; apply Hh|rewrite upd_other by exact Hne; apply Hh].
Qed.

Lemma inv_no_race st : inv st -> ~ race st.
Proof.
  intros [Hok Hh] (i & j & a & b & la & lb & x & wa & wb & Hne & Hi & Hj & Ha & Hb & _).
  pose proof (Hok i) as Oi. pose proof (Hok j) as Oj. rewrite Hi in Oi. rewrite Hj in Oj.
  assert (held (threads st i) = true).
  { destruct a; cbn in Ha; try discriminate; cbn [ok] in Oi; apply andb_prop in Oi as [Oi _]; exact Oi. }
  assert (held (threads st j) = true).
  { destruct b; cbn in Hb; try discriminate; cbn [ok] in Oj; apply andb_prop in Oj as [Oj _]; exact Oj. }
  apply Hh in H. apply Hh in H0. congruence.
Qed.

Lemma inv_no_overlap st : inv st -> ~ overlap st.
Proof. intros [_ Hh] (i & j & Hne & Hi & Hj). apply Hh in Hi. apply Hh in Hj. congruence. Qed.

Lemma inv_reachable code st : (forall i, ok false (code i) = true) -> reachable (initial code) st -> inv st.
Proof.
  intros Hcode Hr. induction Hr as [|s s' _ IH Hs].
  - split; cbn; intros i; [apply Hcode|split; discriminate].
  - eapply inv_step; eassumption.
Qed.

(* any number of threads, any interleaving that respects the lock: no data race, no two threads inside a
   critical section at once (so what one critical section reads is the whole of what another wrote) *)
Theorem discipline_sound (code : nat -> list action) :
  (forall i, ok false (code i) = true) ->
  forall st, reachable (initial code) st -> ~ race st /\ ~ overlap st.
Proof.
  intros Hcode st Hr. pose proof (inv_reachable code st Hcode Hr) as I. split; [apply inv_no_race|apply inv_no_overlap]; exact I.
Qed.

(* ---- the static check is sound for every path ---- *)
Lemma ok_app_iff h l1 l2 : ok h (l1 ++ l2) = ok h l1 && ok (final h l1) l2.
Proof.
  revert h; induction l1 as [|a l IH]; intros h; [reflexivity|].
  destruct a; cbn [app ok final]; try (destruct h; cbn; try reflexivity; apply IH); apply IH.
Qed.
Lemma final_app h l1 l2 : final h (l1 ++ l2) = final (final h l1) l2.
Proof. revert h; induction l1 as [|a l IH]; intros h; [reflexivity|]. destruct a; cbn; apply IH. Qed.

Definition post (r : option (option bool)) (h : bool) (l : list action) (ret : bool) : Prop :=
  ok h l = true /\ (ret = true -> final h l = false) /\ (ret = false -> r = Some (Some (final h l))).

Lemma check_sound s : forall h r l ret, check s h = Some r -> path s l ret ->
  ok h l = true /\ (ret = true -> final h l = false) /\ (ret = false -> r = Some (final h l)).
Proof.
  induction s as [| a | |a IHa b IHb|a IHa b IHb|a IHa|c IHc]; intros h r l ret Hc Hp.
  - inversion Hp; subst. cbn in Hc. injection Hc as <-. repeat split; try discriminate; reflexivity.
  - inversion Hp; subst. destruct a, h; cbn in Hc; inversion Hc; repeat split; try discriminate; reflexivity.
  - inversion Hp; subst. cbn in Hc. destruct h; [discriminate|]. injection Hc as <-. repeat split; try discriminate; reflexivity.
  - cbn in Hc. destruct (check a h) as [[h1|]|] eqn:E1; [| |discriminate].
    + inversion Hp as [| | |a0 b0 la Pa|a0 b0 la lb r0 Pa Pb| | | | | |]; subst.
      * destruct (IHa _ _ _ _ E1 Pa) as (O1 & F1 & _). repeat split; [exact O1|intros _; apply F1; reflexivity|discriminate].
      * destruct (IHa _ _ _ _ E1 Pa) as (O1 & _ & F1). specialize (F1 eq_refl). injection F1 as F1.
        subst h1. destruct (IHb _ _ _ _ Hc Pb) as (O2 & F2 & G2).
        rewrite ok_app_iff, final_app, O1, O2. repeat split; assumption.
    + injection Hc as <-. inversion Hp as [| | |a0 b0 la Pa|a0 b0 la lb r0 Pa Pb| | | | | |]; subst.
      * destruct (IHa _ _ _ _ E1 Pa) as (O1 & F1 & _). repeat split; [exact O1|intros _; apply F1; reflexivity|discriminate].
      * destruct (IHa _ _ _ _ E1 Pa) as (_ & _ & F1). specialize (F1 eq_refl). discriminate.
  - cbn in Hc.
    destruct (check a h) as [[h1|]|] eqn:E1; destruct (check b h) as [[h2|]|] eqn:E2; try discriminate.
    + (* both may fall through: with the same flag *)
      destruct (Bool.eqb h1 h2) eqn:E; [|discriminate]. apply eqb_prop in E. subst h2. injection Hc as <-.
      inversion Hp as [| | | | |a0 b0 l0 r0 Pa|a0 b0 l0 r0 Pb| | | |]; subst.
      * exact (IHa _ _ _ _ E1 Pa).
      * exact (IHb _ _ _ _ E2 Pb).
    + (* the right branch always returns *)
      injection Hc as <-.
      inversion Hp as [| | | | |a0 b0 l0 r0 Pa|a0 b0 l0 r0 Pb| | | |]; subst.
      * exact (IHa _ _ _ _ E1 Pa).
      * destruct (IHb _ _ _ _ E2 Pb) as (O & F & G). repeat split; [exact O|exact F|]. intros Hr. specialize (G Hr). discriminate.
    + (* the left branch always returns *)
      injection Hc as <-.
      inversion Hp as [| | | | |a0 b0 l0 r0 Pa|a0 b0 l0 r0 Pb| | | |]; subst.
      * destruct (IHa _ _ _ _ E1 Pa) as (O & F & G). repeat split; [exact O|exact F|]. intros Hr. specialize (G Hr). discriminate.
      * exact (IHb _ _ _ _ E2 Pb).
    + injection Hc as <-.
      inversion Hp as [| | | | |a0 b0 l0 r0 Pa|a0 b0 l0 r0 Pb| | | |]; subst.
      * exact (IHa _ _ _ _ E1 Pa).
      * exact (IHb _ _ _ _ E2 Pb).
  - cbn in Hc. destruct (check a h) as [[h1|]|] eqn:E1; [| |discriminate].
    + destruct (Bool.eqb h1 h) eqn:E; [|discriminate]. apply eqb_prop in E. subst h1. injection Hc as <-.
      remember (Loop a) as la eqn:El. induction Hp as [| | | | | | |a0|a0 l1 l2 r0 P1 _ P2 IH2|a0 l1 P1|]; inversion El; subst.
      * repeat split; try discriminate; reflexivity.
      * destruct (IHa _ _ _ _ E1 P1) as (O1 & _ & G1). specialize (G1 eq_refl). injection G1 as G1.
        destruct (IH2 eq_refl) as (O2 & F2 & G2). rewrite ok_app_iff, final_app, O1. rewrite <- G1. repeat split; assumption.
      * destruct (IHa _ _ _ _ E1 P1) as (O1 & F1 & _). repeat split; [exact O1|exact F1|discriminate].
    + injection Hc as <-.
      remember (Loop a) as la eqn:El. induction Hp as [| | | | | | |a0|a0 l1 l2 r0 P1 _ P2 IH2|a0 l1 P1|]; inversion El; subst.
      * repeat split; try discriminate; reflexivity.
      * destruct (IHa _ _ _ _ E1 P1) as (_ & _ & G1). specialize (G1 eq_refl). discriminate.
      * destruct (IHa _ _ _ _ E1 P1) as (O1 & F1 & _). repeat split; [exact O1|exact F1|discriminate].
  - cbn in Hc. inversion Hp as [| | | | | | | | | |s0 l0 r0 Pc]; subst.
    destruct (check c h) as [[h1|]|] eqn:E1; [| |discriminate].
    + destruct h1; [discriminate|]. injection Hc as <-.
      destruct (IHc _ _ _ _ E1 Pc) as (O1 & F1 & G1). repeat split; [exact O1|discriminate|].
      intros _. destruct r0; [rewrite (F1 eq_refl); reflexivity|specialize (G1 eq_refl); injection G1 as <-; reflexivity].
    + injection Hc as <-. destruct (IHc _ _ _ _ E1 Pc) as (O1 & F1 & G1). repeat split; [exact O1|discriminate|].
      intros _. destruct r0; [rewrite (F1 eq_refl); reflexivity|specialize (G1 eq_refl); discriminate].
Qed.

(* a disciplined method: every path, returning or falling off the end, is a balanced sequence of critical sections *)
Theorem disciplined_paths s l ret : disciplined s = true -> path s l ret -> ok false l = true /\ final false l = false.
Proof.
  unfold disciplined. destruct (check s false) as [[[|]|]|] eqn:E; try discriminate; intros _ Hp;
    destruct (check_sound _ _ _ _ _ E Hp) as (O & F & G); (split; [exact O|]); destruct ret.
  - apply F; reflexivity.
  - specialize (G eq_refl). injection G as G. symmetry. exact G.
  - apply F; reflexivity.
  - specialize (G eq_refl). discriminate.
Qed.

(* a thread that calls disciplined methods one after the other *)
Lemma ok_concat ls : Forall (fun l => ok false l = true /\ final false l = false) ls ->
  ok false (concat ls) = true /\ final false (concat ls) = false.
Proof.
  induction 1 as [|l ls [O F] _ [IO IF]]; [split; reflexivity|]. cbn [concat].
  rewrite ok_app_iff, final_app, O, F, IO, IF. split; reflexivity.
Qed.
