From Coq Require Import Lia.
Require Import Base.Bytes Model.Frame Model.Split Lib.Bufio Spec.StreamSpec Proofs.SplitProofs Proofs.SegProofs Proofs.LemmaB Proofs.SegT Proofs.ScanThm1 Proofs.ScanThm2.
Open Scope nat_scope.

Ltac ssplit := repeat match goal with |- _ /\ _ => split end.

Definition tterm (z : term) (fin : terminal) := match z with STooLong => TTooLong | SEnd => fin end.

Lemma phase1_err s : has_err s = true ->
  phase1 s = (let '(adv, t) := scan_messages (pend s) true in
              ({| buflen := buflen s; start := (start s + N.of_nat adv)%N; pend := skipn adv (pend s); serr := serr s; tok := t |},
               match t with Some _ => true | None => false end)).
Proof. intros H. unfold phase1. rewrite H, orb_true_r. reflexivity. Qed.

Lemma scan_err_state fuel s r e : serr s = Some e -> length (pend s) < maxtok ->
  match scan (S fuel) s r with
  | SR true s' r' => r' = r /\ exists t ts z, tok s' = Some t /\ segT (pend s) = (t :: ts, z) /\
        segT (pend s') = (ts, z) /\ serr s' = Some e /\ length (pend s') + 5 <= length (pend s) /\ (G s -> G s')
  | SR false s' r' => segT (pend s) = ([], SEnd) /\ sc_err s' = e
  | SFuel => False
  end.
Proof.
  intros He Hl. assert (Hh : has_err s = true) by (unfold has_err; rewrite He; reflexivity).
  cbn [scan]. rewrite (phase1_err _ Hh), Hh.
  destruct (scan_messages (pend s) true) as [a [t|]] eqn:E.
  - split; [reflexivity|]. destruct (scan_tok_bounds _ _ _ _ E) as [[Ha1 Ha2] Ht].
    rewrite (segT_unfold (pend s)), E.
    destruct (maxtok <? length t) eqn:E2; [apply Nat.ltb_lt in E2; lia|].
    cbn [pend tok serr]. destruct (segT (skipn a (pend s))) as [ts z] eqn:E3.
    exists t, ts, z. split; [reflexivity|]. split; [reflexivity|]. split; [reflexivity|]. split; [assumption|]. split.
    + rewrite skipn_length. lia.
    + intros [G1 G2]. unfold G, sc_end in *. cbn [buflen start pend]. rewrite skipn_length. split; lia.
  - cbn [sc_err serr]. rewrite He. split; [|reflexivity].
    rewrite segT_unfold, E. f_equal.
    destruct (maxtok <=? length (skipn a (pend s))) eqn:E2; [|reflexivity].
    apply Nat.leb_le in E2. rewrite skipn_length in E2. lia.
Qed.

Lemma phase1_noerr_nil s : has_err s = false -> pend s = [] -> phase1 s = (s, false).
Proof. intros H Hp. unfold phase1. rewrite H, Hp. reflexivity. Qed.

Lemma phase1_noerr_cons s : has_err s = false -> pend s <> [] ->
  phase1 s = (let '(adv, t) := scan_messages (pend s) false in
              ({| buflen := buflen s; start := (start s + N.of_nat adv)%N; pend := skipn adv (pend s); serr := serr s; tok := t |},
               match t with Some _ => true | None => false end)).
Proof. intros H Hp. unfold phase1. rewrite H. destruct (pend s); [congruence|]. reflexivity. Qed.

Definition scan_post (s : scanner) (r : reader) (res : scan_res) : Prop :=
  match res with
  | SFuel => False
  | SR true s' r' => exists t ts z, tok s' = Some t /\ segT (pend s ++ rest r) = (t :: ts, z) /\
        segT (pend s' ++ rest r') = (ts, z) /\ G s' /\ final r' = final r /\ err_with_data r' = false /\
        sched_pos (sched r') /\ mu r' <= mu r /\
        length (pend s') + length (rest r') + 5 <= length (pend s) + length (rest r) /\
        (serr s' = None \/ (serr s' = Some (final r) /\ rest r' = [] /\ length (pend s') < maxtok))
  | SR false s' r' => exists z, segT (pend s ++ rest r) = ([], z) /\ sc_err s' = tterm z (final r)
  end.

(* the part of one loop iteration after phase 1 produced no token, in the no-error state *)
Lemma after_phase1 f (IH : forall s r, G s -> serr s = None -> err_with_data r = false -> sched_pos (sched r) ->
                          mu r + 2 <= f -> scan_post s r (scan f s r))
  s1 r : G s1 -> serr s1 = None -> err_with_data r = false -> sched_pos (sched r) -> mu r + 2 <= S f ->
  (pend s1 = [] \/ scan_messages (pend s1) false = (0, None)) ->
  scan_post s1 r
    (match grow (shift s1) with
     | None => SR false (with_err (shift s1) TTooLong) r
     | Some s3 => let '(s4, r') := read_loop 100 s3 r in scan f s4 r'
     end).
Proof.
  intros HG He Hewd Hpos Hmu Hidem.
  destruct (shift_props s1 HG) as (HG2 & Hp2 & He2 & Hb2 & Hst2).
  destruct (grow (shift s1)) as [s3|] eqn:Eg.
  - destruct (grow_some _ _ HG2 Eg) as (HG3 & Hp3 & He3 & Hroom).
    destruct (read_loop 100 s3 r) as [s4 r'] eqn:Erl. cbv iota beta.
    destruct (read_loop_pos _ _ _ _ _ HG3 Hroom Hewd Hpos Erl) as (Hb4 & Hs4 & Hf4 & Hewd4 & [Hcase|Hcase]).
    + (* end of input *)
      destruct Hcase as (Hrest & Hp4 & He4 & ->).
      assert (Hlt : length (pend s4) < maxtok).
      { rewrite Hp4. destruct HG3 as [G1 G2]. unfold sc_end, max_token in *. pose proof maxtok_eq. lia. }
      rewrite He3, He2, He in He4. cbn [set_err] in He4.
      destruct f as [|f']; [unfold mu in Hmu; lia|].
      pose proof (scan_err_state f' s4 r (final r) He4 Hlt) as Hs.
      rewrite Hp4, Hp3, Hp2 in Hs.
      destruct (scan (S f') s4 r) as [[|] s' r''|]; cbn [scan_post]; [| |exact Hs].
      * destruct Hs as (-> & t & ts & z & Ht & Hseg & Hseg' & Hes & Hlen & HGG).
        exists t, ts, z. rewrite Hrest, !app_nil_r. ssplit; try assumption; try reflexivity.
        -- apply HGG. destruct HG3 as [G1 G2]. split.
           ++ unfold sc_end in *. rewrite Hb4, Hs4, Hp4. exact G1.
           ++ rewrite Hb4. exact G2.
        -- cbn [length]. lia.
        -- right. ssplit; try assumption; try reflexivity. rewrite Hp4, Hp3, Hp2 in Hlt. lia.
      * destruct Hs as (Hseg & Herr). exists SEnd. rewrite Hrest, app_nil_r. split; [exact Hseg|exact Herr].
    + (* k more bytes *)
      destruct Hcase as (k & Hk & Hp4 & Hr' & He4 & HG4 & Hsch).
      assert (Happ : pend s4 ++ rest r' = pend s1 ++ rest r).
      { rewrite Hp4, Hr', Hp3, Hp2, <- app_assoc, firstn_skipn. reflexivity. }
      assert (Hmu' : mu r' + 1 <= mu r).
      { unfold mu. rewrite Hr', Hsch, skipn_length. destruct (sched r); cbn [tl length]; lia. }
      specialize (IH s4 r' HG4 ltac:(rewrite He4, He3, He2; exact He) Hewd4
                    ltac:(rewrite Hsch; apply sched_pos_tl; exact Hpos) ltac:(lia)).
      destruct (scan f s4 r') as [[|] s' r''|]; cbn [scan_post] in *; [| |exact IH].
      * destruct IH as (t & ts & z & Ht & Hseg & Hseg' & HG' & Hfin & Hewd' & Hpos' & Hmu'' & Hlen & Hst).
        exists t, ts, z. rewrite <- Happ. ssplit; try assumption; try congruence; try lia.
        assert (HH : length (pend s4 ++ rest r') = length (pend s1 ++ rest r)) by (rewrite Happ; reflexivity).
        rewrite !app_length in HH. lia.
      * destruct IH as (z & Hseg & Herr). exists z. rewrite <- Happ, <- Hf4. split; assumption.
  - (* ErrTooLong *)
    pose proof (grow_none _ HG2 Hst2 Eg) as Hfull. rewrite Hp2 in Hfull.
    exists STooLong. split.
    + apply full_buffer_toolong; [|lia].
      destruct Hidem as [Hnil|Hidem]; [rewrite Hnil in Hfull; cbn in Hfull; pose proof maxtok_ge; lia|exact Hidem].
    + unfold sc_err, with_err. cbn [serr]. rewrite He2, He. reflexivity.
Qed.

Theorem scan_ok fuel : forall s r, G s -> serr s = None -> err_with_data r = false -> sched_pos (sched r) ->
  mu r + 2 <= fuel -> scan_post s r (scan fuel s r).
Proof.
  induction fuel as [|f IH]; intros s r HG He Hewd Hpos Hmu; [lia|].
  assert (Hh : has_err s = false) by (unfold has_err; rewrite He; reflexivity).
  cbn [scan]. destruct (pend s) as [|b bs] eqn:Ep.
  - rewrite (phase1_noerr_nil _ Hh Ep), Hh. cbn [negb].
    pose proof (after_phase1 f IH s r HG He Hewd Hpos Hmu (or_introl Ep)) as H. exact H.
  - rewrite (phase1_noerr_cons _ Hh ltac:(rewrite Ep; discriminate)). rewrite Ep.
    destruct (scan_messages (b :: bs) false) as [a [t|]] eqn:E.
    + (* token from buffered data *)
      destruct (scan_tok_bounds _ _ _ _ E) as [[Ha1 Ha2] Ht].
      pose proof (G_pend_le _ HG) as Hle. rewrite Ep in Hle.
      pose proof (tok_stableT _ (rest r) _ _ _ E ltac:(lia)) as Hst.
      destruct (segT (skipn a (b :: bs) ++ rest r)) as [ts z] eqn:E3.
      exists t, ts, z. cbn [tok pend serr]. ssplit; try assumption; try reflexivity; try lia.
      * rewrite Ep. exact Hst.
      * destruct HG as [G1 G2]. unfold G, sc_end in *. cbn [buflen start pend]. rewrite Ep in G1.
        rewrite skipn_length. split; lia.
      * rewrite Ep, skipn_length. lia.
      * left. exact He.
    + (* no token: advance and read more *)
      rewrite Hh.
      set (s1 := {| buflen := buflen s; start := (start s + N.of_nat a)%N; pend := skipn a (b :: bs); serr := serr s; tok := None |}).
      pose proof (scan_adv_le _ _ _ _ E) as Ha.
      assert (HG1 : G s1).
      { destruct HG as [G1 G2]. unfold s1, G, sc_end in *. cbn [buflen start pend]. rewrite Ep in G1. rewrite skipn_length. split; lia. }
      assert (Hidem : pend s1 = [] \/ scan_messages (pend s1) false = (0, None)).
      { unfold s1. cbn [pend]. destruct (skipn a (b :: bs)) eqn:Esk; [left; reflexivity|right].
        rewrite <- Esk. apply split_idem; [exact E|rewrite Esk; discriminate]. }
      pose proof (after_phase1 f IH s1 r HG1 He Hewd Hpos Hmu Hidem) as H.
      pose proof (no_tok_advance_stableT (b :: bs) (rest r) a ltac:(discriminate) E) as Hstab.
      assert (Hs1 : pend s1 = skipn a (b :: bs)) by reflexivity.
      assert (Hlen1 : length (pend s1) <= length (pend s)) by (rewrite Hs1, Ep, skipn_length; lia).
      rewrite <- Hs1 in Hstab. rewrite <- Ep in Hstab. clearbody s1.
      destruct (grow (shift s1)) as [s3|].
      * destruct (read_loop 100 s3 r) as [s4 r']. cbv iota beta in *.
        destruct (scan f s4 r') as [[|] s' r''|]; cbn [scan_post] in *; [| |exact H].
        -- destruct H as (t & ts & z & Ht & Hseg & Hrest). exists t, ts, z.
           rewrite Hstab. split; [exact Ht|]. split; [exact Hseg|].
           destruct Hrest as (H1 & H2 & H3 & H4 & H5 & H6 & H7 & H8). ssplit; try assumption. lia.
        -- destruct H as (z & Hseg & Herr). exists z. rewrite Hstab. split; assumption.
      * cbn [scan_post] in *. destruct H as (z & Hseg & Herr). exists z. rewrite Hstab. split; assumption.
Qed.
