From Coq Require Import Lia.
Require Import Base.Bytes Model.Frame Model.Split Lib.Bufio Spec.StreamSpec Spec.Terminal Proofs.SplitProofs Proofs.SegProofs Proofs.LemmaB Proofs.SegT Proofs.ScanThm1 Proofs.ScanThm2.
Open Scope nat_scope.

Ltac ssplit := repeat match goal with |- _ /\ _ => split end.


Lemma phase1_err s : has_err s = true ->
  phase1 s = (let '(adv, t) := scan_messages (pend s) true in
              ({| buflen := buflen s; start := (start s + N.of_nat adv)%N; pend := skipn adv (pend s); serr := serr s; tok := t |},
               match t with Some _ => true | None => false end)).
Proof. intros H. unfold phase1. rewrite H, orb_true_r. reflexivity. Qed.

(* a scanner that has given up: its error is recorded and what it still holds yields no token *)
Definition finished (s : scanner) (e : terminal) : Prop :=
  serr s = Some e /\ snd (scan_messages (pend s) true) = None /\ tok s = None.

Lemma scan_err_state fuel s r e : serr s = Some e -> G s ->
  (length (pend s) < maxtok \/ snd (segT (pend s)) = SEnd) ->
  match scan (S fuel) s r with
  | SR true s' r' => r' = r /\ exists t ts z, tok s' = Some t /\ segT (pend s) = (t :: ts, z) /\
        segT (pend s') = (ts, z) /\ serr s' = Some e /\ length (pend s') + 5 <= length (pend s) /\ G s'
  | SR false s' r' => segT (pend s) = ([], SEnd) /\ sc_err s' = e /\ r' = r /\ finished s' e
  | SFuel => False
  end.
Proof.
  intros He HG Hl. assert (Hh : has_err s = true) by (unfold has_err; rewrite He; reflexivity).
  cbn [scan]. rewrite (phase1_err _ Hh), Hh.
  destruct (scan_messages (pend s) true) as [a [t|]] eqn:E.
  - split; [reflexivity|]. destruct (scan_tok_bounds _ _ _ _ E) as [[Ha1 Ha2] Ht].
    rewrite (segT_unfold (pend s)), E. pose proof (G_pend_le _ HG) as Hle.
    destruct (maxtok <? length t) eqn:E2; [apply Nat.ltb_lt in E2; lia|].
    cbn [pend tok serr]. destruct (segT (skipn a (pend s))) as [ts z] eqn:E3.
    exists t, ts, z. split; [reflexivity|]. split; [reflexivity|]. split; [reflexivity|]. split; [assumption|]. split.
    + rewrite skipn_length. lia.
    + destruct HG as [G1 G2]. unfold G, sc_end in *. cbn [buflen start pend]. rewrite skipn_length. split; lia.
  - cbn [sc_err serr]. rewrite He. split; [|split; [reflexivity|split; [reflexivity|split; [reflexivity|split; reflexivity]]]].
    rewrite segT_unfold, E in *. f_equal.
    destruct Hl as [Hl|Hl]; [|exact Hl].
    destruct (maxtok <=? length (skipn a (pend s))) eqn:E2; [|reflexivity].
    apply Nat.leb_le in E2. rewrite skipn_length in E2. lia.
Qed.

Lemma phase1_noerr_nil s : has_err s = false -> pend s = [] -> phase1 s = (s, false).
Proof. intros H Hp. unfold phase1. rewrite H, Hp. reflexivity. Qed.

Lemma phase1_noerr_cons s : has_err s = false -> pend s <> [] ->
  phase1 s = (let '(adv, t) := scan_messages (pend s) false in
              ({| buflen := buflen s; start := (start s + N.of_nat adv)%N; pend := skipn adv (pend s); serr := serr s; tok := t |},
               match t with Some _ => true | None => false end)).
Proof. intros H Hp. unfold phase1. rewrite H. destruct (pend s); [congruence|]. reflexivity. Qed.

Definition drain_ok (s : scanner) : Prop := length (pend s) < maxtok \/ snd (segT (pend s)) = SEnd.

Definition scan_post (s : scanner) (r : reader) (res : scan_res) : Prop :=
  match res with
  | SFuel => False
  | SR true s' r' => exists t ts z, tok s' = Some t /\ segT (pend s ++ rest r) = (t :: ts, z) /\
        segT (pend s' ++ rest r') = (ts, z) /\ G s' /\ final r' = final r /\ err_with_data r' = err_with_data r /\
        sched_ok (sched r') /\ mu r' <= mu r /\
        length (pend s') + length (rest r') + 5 <= length (pend s) + length (rest r) /\
        (serr s' = None \/ (serr s' = Some (final r) /\ rest r' = [] /\ drain_ok s'))
  | SR false s' r' => exists z, segT (pend s ++ rest r) = ([], z) /\ sc_err s' = tterm z (final r) /\
        finished s' (tterm z (final r)) /\ final r' = final r /\ sched_ok (sched r')
  end.

(* the error convention "data together with the error" is covered when the reference segmentation of
   what is left does not end in TooLong (otherwise the outcome at exactly 64 KiB pending differs) *)
Definition conv_ok (s : scanner) (r : reader) : Prop :=
  err_with_data r = false \/ snd (segT (pend s ++ rest r)) = SEnd.

Definition scan_pre (s : scanner) (r : reader) (fuel : nat) : Prop :=
  G s /\ serr s = None /\ sched_ok (sched r) /\ conv_ok s r /\ mu r + 2 <= fuel.

(* the part of one loop iteration after phase 1 produced no token, in the no-error state *)
Lemma after_phase1 f (IH : forall s r, scan_pre s r f -> scan_post s r (scan f s r))
  s1 r : scan_pre s1 r (S f) ->
  (pend s1 = [] \/ (scan_messages (pend s1) false = (0, None) /\ tok s1 = None)) ->
  scan_post s1 r
    (match grow (shift s1) with
     | None => SR false (with_err (shift s1) TTooLong) r
     | Some s3 => let '(s4, r') := read_loop 100 s3 r in scan f s4 r'
     end).
Proof.
  intros (HG & He & Hok & Hconv & Hmu) Hidem.
  destruct (shift_props s1 HG) as (HG2 & Hp2 & He2 & Hb2 & Hst2).
  destruct (grow (shift s1)) as [s3|] eqn:Eg.
  - destruct (grow_some _ _ HG2 Eg) as (HG3 & Hp3 & He3 & Hroom).
    destruct (read_loop 100 s3 r) as [s4 r'] eqn:Erl. cbv iota beta.
    assert (Hl0 : lead0 (sched r) <= 100) by (destruct (sched r); [cbn; lia|destruct Hok as [H _]; exact H]).
    destruct (read_loop_gen 100 _ _ _ _ Hl0 HG3 Hroom Hok Erl) as (Hb4 & Hs4 & Hf4 & Hewd4 & Hok4 & Hsl4 & Hcase).
    assert (Hse : serr s3 = None) by (rewrite He3, He2; exact He).
    destruct Hcase as [Hcase|Hcase].
    + (* end of input *)
      destruct Hcase as (Hrest & Hrest' & Hp4 & He4).
      assert (Hlt : length (pend s4) < maxtok).
      { rewrite Hp4. destruct HG3 as [G1 G2]. unfold sc_end, max_token in *. pose proof maxtok_eq. lia. }
      rewrite Hse in He4. cbn [set_err] in He4.
      assert (HG4 : G s4).
      { destruct HG3 as [G1 G2]. unfold G, sc_end in *. rewrite Hb4, Hs4, Hp4. split; assumption. }
      destruct f as [|f']; [unfold mu in Hmu; lia|].
      pose proof (scan_err_state f' s4 r' (final r) He4 HG4 (or_introl Hlt)) as Hs.
      rewrite Hp4, Hp3, Hp2 in Hs.
      destruct (scan (S f') s4 r') as [[|] s' r''|]; cbn [scan_post]; [| |exact Hs].
      * destruct Hs as (-> & t & ts & z & Ht & Hseg & Hseg' & Hes & Hlen & HGG).
        exists t, ts, z. rewrite Hrest, Hrest', !app_nil_r. ssplit; try assumption; try reflexivity.
        -- unfold mu. rewrite Hrest, Hrest'. cbn [length]. lia.
        -- cbn [length]. lia.
        -- right. ssplit; try assumption; try reflexivity. left. rewrite Hp4, Hp3, Hp2 in Hlt. lia.
      * destruct Hs as (Hseg & Herr & -> & Hfin). exists SEnd. rewrite Hrest, app_nil_r. cbn [tterm]. ssplit; assumption.
    + destruct Hcase as (k & Hk & Hp4 & Hr' & HG4 & Hmu' & Hcase).
      assert (Happ : pend s4 ++ rest r' = pend s1 ++ rest r).
      { rewrite Hp4, Hr', Hp3, Hp2, <- app_assoc, firstn_skipn. reflexivity. }
      destruct Hcase as [(He4 & Hne)|(Hewd & Hkall & He4)].
      * (* k more bytes, no error *)
        assert (Hpre : scan_pre s4 r' f).
        { unfold scan_pre, conv_ok. rewrite Happ, Hewd4, He4, Hse. ssplit; try assumption; try reflexivity. lia. }
        specialize (IH s4 r' Hpre).
        destruct (scan f s4 r') as [[|] s' r''|]; cbn [scan_post] in *; [| |exact IH].
        -- destruct IH as (t & ts & z & Ht & Hseg & Hseg' & HG' & Hfin & Hewd' & Hok' & Hmu'' & Hlen & Hst).
           exists t, ts, z. rewrite <- Happ. ssplit; try assumption; try congruence; try lia.
           ++ assert (HH : length (pend s4 ++ rest r') = length (pend s1 ++ rest r)) by (rewrite Happ; reflexivity).
              rewrite !app_length in HH. lia.
        -- destruct IH as (z & Hseg & Herr & Hfin & Hfr & Hsr). exists z. rewrite <- Happ, <- Hf4. ssplit; try assumption; congruence.
      * (* the last k bytes arrive together with the error *)
        rewrite Hse in He4. cbn [set_err] in He4.
        assert (Hr'nil : rest r' = []) by (rewrite Hr', Hkall; apply skipn_all).
        assert (Hp4' : pend s4 = pend s1 ++ rest r) by (rewrite <- Happ, Hr'nil, app_nil_r; reflexivity).
        assert (Hdr : drain_ok s4).
        { right. rewrite Hp4'. destruct Hconv as [Hc|Hc]; [congruence|exact Hc]. }
        destruct f as [|f']; [unfold mu in *; lia|].
        pose proof (scan_err_state f' s4 r' (final r) He4 HG4 Hdr) as Hs.
        rewrite Hp4' in Hs.
        destruct (scan (S f') s4 r') as [[|] s' r''|]; cbn [scan_post]; [| |exact Hs].
        -- destruct Hs as (-> & t & ts & z & Ht & Hseg & Hseg' & Hes & Hlen & HGG).
           exists t, ts, z. rewrite Hr'nil, !app_nil_r. ssplit; try assumption; try reflexivity; try lia.
           ++ cbn [length]. rewrite app_length in Hlen. lia.
           ++ right. ssplit; try assumption; try reflexivity.
              right. rewrite Hseg'. cbn [snd].
              destruct Hconv as [Hc|Hc]; [congruence|]. rewrite Hseg in Hc. exact Hc.
        -- destruct Hs as (Hseg & Herr & -> & Hfin). exists SEnd. cbn [tterm]. ssplit; assumption.
  - (* ErrTooLong *)
    pose proof (grow_none _ HG2 Hst2 Eg) as Hfull. rewrite Hp2 in Hfull.
    exists STooLong. split.
    + apply full_buffer_toolong; [|lia].
      destruct Hidem as [Hnil|[Hidem _]]; [rewrite Hnil in Hfull; cbn in Hfull; pose proof maxtok_ge; lia|exact Hidem].
    + assert (Hf : finished (with_err (shift s1) TTooLong) TTooLong).
      { unfold finished, with_err. cbn [serr pend tok]. rewrite He2, He, Hp2.
        destruct Hidem as [Hnil|[Hid Htk]]; [rewrite Hnil in Hfull; cbn in Hfull; pose proof maxtok_ge; lia|].
        split; [reflexivity|]. split.
        - replace (scan_messages (pend s1) true) with (scan_messages (pend s1) false) by (unfold scan_messages; reflexivity).
          rewrite Hid. reflexivity.
        - unfold shift. destruct (_ && _); cbn [tok]; exact Htk. }
      cbn [tterm]. ssplit; try assumption; try reflexivity.
      unfold sc_err, with_err. cbn [serr]. rewrite He2, He. reflexivity.
Qed.

Theorem scan_ok fuel : forall s r, scan_pre s r fuel -> scan_post s r (scan fuel s r).
Proof.
  induction fuel as [|f IH]; intros s r Hpre; [destruct Hpre as (_ & _ & _ & _ & Hmu); lia|].
  pose proof Hpre as (HG & He & Hok & Hconv & Hmu).
  assert (Hh : has_err s = false) by (unfold has_err; rewrite He; reflexivity).
  cbn [scan]. destruct (pend s) as [|b bs] eqn:Ep.
  - rewrite (phase1_noerr_nil _ Hh Ep), Hh. cbn [negb].
    pose proof (after_phase1 f IH s r Hpre (or_introl Ep)) as H. exact H.
  - rewrite (phase1_noerr_cons _ Hh ltac:(rewrite Ep; discriminate)). rewrite Ep.
    destruct (scan_messages (b :: bs) false) as [a [t|]] eqn:E.
    + (* token from buffered data *)
      destruct (scan_tok_bounds _ _ _ _ E) as [[Ha1 Ha2] Ht].
      pose proof (G_pend_le _ HG) as Hle. rewrite Ep in Hle.
      pose proof (tok_stableT _ (rest r) _ _ _ E ltac:(lia)) as Hst.
      destruct (segT (skipn a (b :: bs) ++ rest r)) as [ts z] eqn:E3.
      exists t, ts, z. cbn [tok pend serr]. ssplit; try assumption; try reflexivity; try lia.
      * rewrite Ep. exact Hst.
      * destruct HG as [G1 G2]. unfold G, sc_end in *. cbn [buflen start pend]. rewrite Ep in G1.
        rewrite skipn_length. split; lia.
      * rewrite Ep, skipn_length. cbn [length] in *. lia.
      * left. exact He.
    + (* no token: advance and read more *)
      rewrite Hh.
      set (s1 := {| buflen := buflen s; start := (start s + N.of_nat a)%N; pend := skipn a (b :: bs); serr := serr s; tok := None |}).
      pose proof (scan_adv_le _ _ _ _ E) as Ha.
      assert (HG1 : G s1).
      { destruct HG as [G1 G2]. unfold s1, G, sc_end in *. cbn [buflen start pend]. rewrite Ep in G1. rewrite skipn_length. split; lia. }
      assert (Hidem : pend s1 = [] \/ (scan_messages (pend s1) false = (0, None) /\ tok s1 = None)).
      { unfold s1. cbn [pend tok]. destruct (skipn a (b :: bs)) eqn:Esk; [left; reflexivity|right].
        split; [|reflexivity]. rewrite <- Esk. apply split_idem; [exact E|rewrite Esk; discriminate]. }
      pose proof (no_tok_advance_stableT (b :: bs) (rest r) a ltac:(discriminate) E) as Hstab.
      assert (Hs1 : pend s1 = skipn a (b :: bs)) by reflexivity.
      assert (Hlen1 : length (pend s1) <= length (b :: bs)) by (rewrite Hs1, skipn_length; lia).
      rewrite <- Hs1 in Hstab. rewrite <- Ep in Hstab.
      assert (Hpre1 : scan_pre s1 r (S f)).
      { unfold scan_pre, conv_ok. ssplit; try assumption.
        destruct Hconv as [Hc|Hc]; [left; exact Hc|right]. rewrite <- Hstab. exact Hc. }
      pose proof (after_phase1 f IH s1 r Hpre1 Hidem) as H.
      clearbody s1.
      destruct (grow (shift s1)) as [s3|].
      * destruct (read_loop 100 s3 r) as [s4 r']. cbv iota beta in *.
        destruct (scan f s4 r') as [[|] s' r''|]; cbn [scan_post] in *; [| |exact H].
        -- destruct H as (t & ts & z & Ht & Hseg & Hrest). exists t, ts, z.
           rewrite Hstab. split; [exact Ht|]. split; [exact Hseg|].
           destruct Hrest as (H1 & H2 & H3 & H4 & H5 & H6 & H7 & H8). ssplit; try assumption. rewrite Ep. lia.
        -- destruct H as (z & Hseg & Herr & Hrest). exists z. rewrite Hstab. ssplit; try assumption; apply Hrest.
      * cbn [scan_post] in *. destruct H as (z & Hseg & Herr & Hrest). exists z. rewrite Hstab. ssplit; try assumption; apply Hrest.
Qed.
