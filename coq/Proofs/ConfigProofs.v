(* C13, C15, C14: configuration codecs. *)
Require Import Base.Bytes Base.Tactics Base.GoInt Gen.Funcs Spec.IdSpec Model.Config Spec.ConfigSpec Proofs.IdProofs.
Open Scope N_scope.

(* ---------- C13 ---------- *)
Definition group_ok (g : N * N) : Prop := fst g < 65536.

Lemma overwrite_spec old g : group_ok g -> overwrite old g = decode_group g.
Proof.
  intros Hg. unfold overwrite, decode_group. destruct old as [[[ot oc] op] of].
  rewrite set_ignores_old, set_spec by (unfold group_ok in Hg; lia). reflexivity.
Qed.

Lemma overwrite_all_spec base gs : (length gs <= length base)%nat -> Forall group_ok gs ->
  overwrite_all base gs = map decode_group gs.
Proof.
  revert base; induction gs as [|g gs IH]; intros base Hl Hok.
  - destruct base; reflexivity.
  - destruct base as [|o base]; [cbn in Hl; lia|]. cbn [overwrite_all map].
    inversion Hok; subst. rewrite overwrite_spec by assumption. f_equal. apply IH; [cbn in Hl; lia|assumption].
Qed.

Lemma groups4_ok d : wf_bytes d -> Forall group_ok (groups4 d).
Proof.
  assert (H : forall n d, (length d <= n)%nat -> wf_bytes d -> Forall group_ok (groups4 d)).
  { induction n as [|n IH]; intros d0 Hn Hw.
    - destruct d0; [constructor|cbn in Hn; lia].
    - destruct d0 as [|a [|b [|c [|e t]]]]; try constructor.
      + inversion Hw as [|? ? Ha Hw1]; inversion Hw1 as [|? ? Hb _]; subst.
        unfold group_ok, be16. cbn [fst]. lia.
      + apply IH; [cbn in Hn; lia|].
        inversion Hw as [|? ? _ Hw1]; inversion Hw1 as [|? ? _ Hw2]; inversion Hw2 as [|? ? _ Hw3];
          inversion Hw3; assumption. }
  intros Hw. exact (H (length d) d (le_n _) Hw).
Qed.

Lemma groups4_freq d : wf_bytes d -> Forall (fun g => snd g < 65536) (groups4 d).
Proof.
  assert (H : forall n d, (length d <= n)%nat -> wf_bytes d -> Forall (fun g => snd g < 65536) (groups4 d)).
  { induction n as [|n IH]; intros d0 Hn Hw.
    - destruct d0; [constructor|cbn in Hn; lia].
    - destruct d0 as [|a [|b [|c [|e t]]]]; try constructor.
      + inversion Hw as [|? ? _ Hw1]; inversion Hw1 as [|? ? _ Hw2]; inversion Hw2 as [|? ? Hc Hw3];
          inversion Hw3 as [|? ? He _]; subst. unfold be16. cbn [snd]. lia.
      + apply IH; [cbn in Hn; lia|].
        inversion Hw as [|? ? _ Hw1]; inversion Hw1 as [|? ? _ Hw2]; inversion Hw2 as [|? ? _ Hw3];
          inversion Hw3; assumption. }
  intros Hw. exact (H (length d) d (le_n _) Hw).
Qed.

Lemma groups4_length d : length (groups4 d) = (length d / 4)%nat.
Proof.
  assert (H : forall n d, (length d <= n)%nat -> length (groups4 d) = (length d / 4)%nat).
  { induction n as [|n IH]; intros d0 Hn.
    - destruct d0; [reflexivity|cbn in Hn; lia].
    - destruct d0 as [|a [|b [|c [|e t]]]]; try reflexivity.
      cbn [groups4 length]. rewrite IH by (cbn in Hn; lia).
      change (S (S (S (S (length t))))) with (4 + length t)%nat.
      rewrite (Nat.div_add_l 1 4) by lia. lia. }
  exact (H (length d) d (le_n _)).
Qed.

(* decoding is positional and independent of the destination (contents, length, capacity) *)
Theorem unmarshal_positional dst payload : wf_bytes payload ->
  outconf_unmarshal dst payload = map decode_group (groups4 payload) /\
  length (outconf_unmarshal dst payload) = (length payload / 4)%nat.
Proof.
  intros Hw. assert (E : outconf_unmarshal dst payload = map decode_group (groups4 payload)).
  { unfold outconf_unmarshal. apply overwrite_all_spec; [|apply groups4_ok; exact Hw].
    destruct (Nat.leb_spec (length (groups4 payload)) (length dst)).
    - rewrite firstn_length. lia.
    - rewrite app_length, repeat_length. lia. }
  split; [exact E|]. rewrite E, map_length. apply groups4_length.
Qed.

Corollary unmarshal_independent dst1 dst2 payload : wf_bytes payload ->
  outconf_unmarshal dst1 payload = outconf_unmarshal dst2 payload.
Proof. intros Hw. rewrite !(proj1 (unmarshal_positional _ payload Hw)). reflexivity. Qed.

Lemma land_of_N a b : Z.land (Z.of_N a) (Z.of_N b) = Z.of_N (N.land a b).
Proof. destruct a, b; reflexivity. Qed.

Lemma to_be2 w : to_be 2 w = [(w / 256) mod 256; w mod 256].
Proof. reflexivity. Qed.

Lemma be16_to_be2 w : w < 65536 -> be16 ((w / 256) mod 256) (w mod 256) = w.
Proof. intros H. unfold be16. lia. Qed.

Lemma groups4_marshal cfg : Forall setting_ok cfg ->
  groups4 (outconf_marshal cfg) =
  map (fun s : setting => let '(t, c, p, f) := s in (Z.to_N (f_DataIdentifier_Uint16 t c p), Z.to_N f)) cfg.
Proof.
  induction cfg as [|[[[t c] p] f] cfg IH]; intros Hok; [reflexivity|].
  inversion Hok as [|? ? Hs Hok']; subst. unfold setting_ok in Hs. destruct Hs as [Hr Hf].
  unfold outconf_marshal in *. cbn [flat_map map]. rewrite !to_be2. cbn [app groups4].
  destruct (get_set t c p Hr) as [_ Hw].
  rewrite !be16_to_be2 by lia. f_equal. apply IH. exact Hok'.
Qed.

(* decode-after-encode is the identity on every configuration with in-range fields, whatever the destination *)
Theorem marshal_unmarshal dst cfg : Forall setting_ok cfg -> outconf_unmarshal dst (outconf_marshal cfg) = cfg.
Proof.
  intros Hok. unfold outconf_unmarshal. rewrite (groups4_marshal cfg Hok).
  rewrite overwrite_all_spec.
  - rewrite map_map. rewrite <- (map_id cfg) at 2. apply map_ext_in. intros [[[t c] p] f] Hin.
    rewrite Forall_forall in Hok. pose proof (Hok _ Hin) as Hs0. unfold setting_ok in Hs0. destruct Hs0 as [Hr Hf].
    destruct (get_set t c p Hr) as [Hs Hw]. unfold decode_group. cbn [fst snd].
    rewrite !Z2N.id by lia. rewrite <- set_spec by lia. rewrite Hs. reflexivity.
  - rewrite map_length.
    destruct (Nat.leb_spec (length cfg) (length dst)); [rewrite firstn_length|rewrite app_length, repeat_length]; lia.
  - rewrite Forall_forall. intros g Hin. apply in_map_iff in Hin. destruct Hin as ([[[t c] p] f] & <- & Hin).
    rewrite Forall_forall in Hok. pose proof (Hok _ Hin) as Hs0. unfold setting_ok in Hs0. destruct Hs0 as [Hr Hf]. destruct (get_set t c p Hr) as [_ Hw].
    unfold group_ok. cbn [fst]. lia.
Qed.

Theorem unmarshal_marshal dst payload : wf_bytes payload ->
  outconf_marshal (outconf_unmarshal dst payload) = flat_map clear_reserved (groups4 payload).
Proof.
  intros Hw. rewrite (proj1 (unmarshal_positional dst payload Hw)).
  pose proof (groups4_ok payload Hw) as Hok. pose proof (groups4_freq payload Hw) as Hfr.
  induction (groups4 payload) as [|g gs IH]; [reflexivity|].
  inversion Hok as [|? ? Hg Hok']; subst. inversion Hfr as [|? ? Hf Hfr']; subst.
  cbn [map flat_map]. unfold outconf_marshal in *. cbn [flat_map]. rewrite IH by assumption. f_equal.
  unfold decode_group, clear_reserved. unfold group_ok in Hg.
  pose proof (set_get (Z.of_N (fst g)) ltac:(lia)) as Hsg. rewrite set_spec in Hsg by lia.
  destruct Hsg as (Hu & _). unfold mask_all in Hu. rewrite Hu. change 63743%Z with (Z.of_N 63743).
  rewrite (land_of_N (fst g) 63743), !N2Z.id. reflexivity.
Qed.

(* ---------- C15: CAN codecs ---------- *)
Lemma get_nthb_cfg m i : (i < length m)%nat -> get m i = Some (nthb m i).
Proof. intros H. unfold get, nthb. apply nth_error_nth'. exact H. Qed.

Lemma land127 x : N.land x 127 = x mod 128. Proof. change 127 with (N.ones 7). apply N.land_ones. Qed.
Lemma land31 x : N.land x 31 = x mod 32. Proof. change 31 with (N.ones 5). apply N.land_ones. Qed.
Lemma land7 x : N.land x 7 = x mod 8. Proof. change 7 with (N.ones 3). apply N.land_ones. Qed.
Lemma land1 x : N.land x 1 = x mod 2. Proof. change 1 with (N.ones 1). apply N.land_ones. Qed.

Theorem can_config_size_reserved e b :
  length (can_marshal e b) = 4%nat /\ nthb (can_marshal e b) 0 = 0 /\ nthb (can_marshal e b) 1 = 0 /\
  nthb (can_marshal e b) 2 <= 1 /\ nthb (can_marshal e b) 3 < 128.
Proof.
  unfold can_marshal, nthb. cbn [length nth]. rewrite land127. ssplit; try reflexivity; try lia.
  destruct e; lia.
Qed.

Theorem can_config_roundtrip e b : (0 <= b < 128)%Z -> can_unmarshal (can_marshal e b) = Ok (e, b).
Proof.
  intros Hb. unfold can_unmarshal, can_marshal, get. cbn [length Nat.leb nth_error].
  rewrite land127, land127, land1. f_equal. f_equal.
  - destruct e; reflexivity.
  - rewrite N.mod_mod by discriminate. lia.
Qed.

Theorem can_unmarshal_total d : can_unmarshal d <> OOB /\ can_unmarshal d <> Panic /\
  ((length d < 4)%nat -> can_unmarshal d = Err 1).
Proof.
  unfold can_unmarshal. destruct (Nat.leb_spec (length d) 3) as [H|H].
  - ssplit; try discriminate. reflexivity.
  - rewrite !get_nthb_cfg by lia. ssplit; try discriminate. lia.
Qed.

Lemma to_be4_small id : id < 256 -> to_be 4 id = [0; 0; 0; id].
Proof. intros H. cbn [to_be app]. repeat f_equal; lia. Qed.

Theorem canout_size_reserved cfg : Forall (fun s : can_setting => let '(id, _, _, freq) := s in id < 256 /\ freq < 65536) cfg ->
  length (canout_marshal cfg) = (8 * length cfg)%nat /\
  Forall (fun s => let b := canout_marshal_one s in
                   length b = 8%nat /\ nthb b 0 < 128 /\ nthb b 1 <= 1 /\ nthb b 2 < 32 /\ nthb b 6 < 8) cfg.
Proof.
  intros H. split.
  - unfold canout_marshal. induction cfg as [|[[[id fl] m] fr] cfg IH]; [reflexivity|].
    cbn [flat_map]. rewrite app_length. inversion H; subst. rewrite IH by assumption. unfold canout_marshal_one. cbn [length]. lia.
  - rewrite Forall_forall in *. intros [[[id fl] m] fr] Hin. specialize (H _ Hin). cbn beta iota in H. destruct H as [Hid Hfr].
    unfold canout_marshal_one, nthb. cbn [length nth]. rewrite land127, land31, land7.
    ssplit; try reflexivity; try lia. destruct fl; lia.
Qed.

Theorem canout_decode_encode cfg : Forall can_setting_ok cfg -> canout_unmarshal (canout_marshal cfg) = cfg.
Proof.
  induction cfg as [|[[[id fl] m] fr] cfg IH]; intros H; [reflexivity|].
  inversion H as [|? ? Hs H']; subst. unfold can_setting_ok in Hs. destruct Hs as (Hid & Hfr & Hm).
  unfold canout_marshal in *. cbn [flat_map]. unfold canout_marshal_one at 1.
  rewrite to_be4_small by lia. rewrite to_be2. unfold nthb. cbn [nth app canout_unmarshal].
  rewrite IH by assumption. f_equal.
  rewrite !land127, !land31, !land7, !land1. unfold be32, be16.
  f_equal; [f_equal; [f_equal|]|].
  - lia.
  - destruct fl; reflexivity.
  - subst m. lia.
  - lia.
Qed.

Theorem canout_encode_decode d : wf_bytes d ->
  canout_marshal (canout_unmarshal d) = flat_map can_normalize (groups8 d) /\
  length (canout_unmarshal d) = (length d / 8)%nat.
Proof.
  assert (H : forall n d, (length d <= n)%nat -> wf_bytes d ->
     canout_marshal (canout_unmarshal d) = flat_map can_normalize (groups8 d) /\
     length (canout_unmarshal d) = (length d / 8)%nat).
  { induction n as [|n IH]; intros d0 Hn Hw.
    - destruct d0; [split; reflexivity|cbn in Hn; lia].
    - destruct d0 as [|b0 [|b1 [|b2 [|b3 [|b4 [|b5 [|b6 [|b7 t]]]]]]]]; try (split; reflexivity).
      assert (Hwt : wf_bytes t) by (do 8 (inversion Hw as [|? ? _ Hw']; clear Hw; rename Hw' into Hw); exact Hw).
      assert (Hb : b0 < 256 /\ b1 < 256 /\ b6 < 256 /\ b7 < 256).
      { unfold wf_bytes in Hw. rewrite Forall_forall in Hw. ssplit; apply Hw; cbn; tauto. }
      destruct (IH t ltac:(cbn in Hn; lia) Hwt) as [E1 E2].
      cbn [canout_unmarshal groups8 flat_map]. unfold canout_marshal in *. cbn [flat_map]. rewrite E1. split.
      + f_equal. unfold canout_marshal_one, can_normalize, nthb. cbn [nth].
        rewrite to_be4_small by (rewrite land127; lia). rewrite to_be2. cbn [nth app].
        rewrite !land127, !land31, !land7, !land1. unfold be16.
        destruct Hb as (Hb0 & Hb1 & Hb6 & Hb7).
        destruct (N.eqb_spec (b1 mod 2) 0) as [E|E]; cbn [negb];
          repeat match goal with |- cons _ _ = cons _ _ => apply f_equal2 end; try reflexivity; lia.
      + cbn [length]. rewrite E2. change (S (S (S (S (S (S (S (S (length t))))))))) with (8 + length t)%nat.
        rewrite (Nat.div_add_l 1 8) by lia. lia. }
  intros Hw. exact (H (length d) d (le_n _) Hw).
Qed.

(* ---------- C14: query results ---------- *)
Theorem deviceid_spec d : deviceid_unmarshal d <> OOB /\ deviceid_unmarshal d <> Panic /\
  (length d = 4%nat -> deviceid_unmarshal d = Ok (be32 (nthb d 0) (nthb d 1) (nthb d 2) (nthb d 3))) /\
  (length d = 8%nat -> deviceid_unmarshal d = Ok (be32 (nthb d 4) (nthb d 5) (nthb d 6) (nthb d 7))) /\
  (length d <> 4%nat -> length d <> 8%nat -> deviceid_unmarshal d = Err 1).
Proof.
  destruct d as [|a [|b [|c [|e [|f [|g [|h [|i [|j t]]]]]]]]]; cbn; ssplit; try discriminate; try reflexivity; try lia; intros; try lia; reflexivity.
Qed.

Theorem hwversion_spec d : hwversion_unmarshal d <> OOB /\ hwversion_unmarshal d <> Panic /\
  (length d = 2%nat -> hwversion_unmarshal d = Ok (nthb d 0, nthb d 1)) /\
  (length d <> 2%nat -> hwversion_unmarshal d = Err 1).
Proof.
  destruct d as [|a [|b [|c t]]]; cbn; ssplit; try discriminate; try reflexivity; intros; try lia; reflexivity.
Qed.

Lemma drop_space_spec d : exists sp, d = sp ++ drop_space d /\ forallb is_space sp = true /\
  (match drop_space d with b :: _ => is_space b = false | [] => True end).
Proof.
  induction d as [|b d IH]; [exists []; repeat split|].
  cbn [drop_space]. destruct (is_space b) eqn:E.
  - destruct IH as (sp & E1 & E2 & E3). exists (b :: sp). cbn [app forallb]. rewrite E, E2. rewrite <- E1. repeat split. exact E3.
  - exists []. repeat split. exact E.
Qed.

(* the product code is the payload without its leading and trailing ASCII whitespace *)
Theorem productcode_spec d : exists l r,
  d = l ++ productcode_unmarshal d ++ r /\ forallb is_space l = true /\ forallb is_space r = true /\
  (match productcode_unmarshal d with b :: _ => is_space b = false | [] => True end) /\
  (match rev (productcode_unmarshal d) with b :: _ => is_space b = false | [] => True end).
Proof.
  unfold productcode_unmarshal.
  destruct (drop_space_spec d) as (l & El & Hl & Hfirst).
  destruct (drop_space_spec (rev (drop_space d))) as (r & Er & Hr & Hlast).
  exists l, (rev r). rewrite rev_involutive.
  assert (E : drop_space d = rev (drop_space (rev (drop_space d))) ++ rev r).
  { rewrite <- rev_app_distr, <- Er, rev_involutive. reflexivity. }
  ssplit.
  - rewrite <- E. exact El.
  - exact Hl.
  - rewrite forallb_forall in *. intros x Hx. apply Hr. apply in_rev. exact Hx.
  - destruct (rev (drop_space (rev (drop_space d)))) as [|b t] eqn:Ec; [exact I|].
    rewrite E in Hfirst. cbn [app] in Hfirst. exact Hfirst.
  - exact Hlast.
Qed.
