(* Reference segmentation with the 64 KiB rule: stability lemmas *)
Require Import Base.Bytes Base.Tactics Model.Frame Model.Split Spec.StreamSpec Proofs.SplitProofs Proofs.SegProofs Proofs.LemmaB.
Open Scope nat_scope.

Lemma maxtok_ge : 6 <= maxtok. Proof. unfold maxtok. lia. Qed.
Global Opaque maxtok.

Lemma segT_fuel_irrel f f' s : length s < f -> length s < f' -> segT_fuel f s = segT_fuel f' s.
Proof.
  revert f' s; induction f as [|f IH]; intros f' s H H'; [lia|].
  destruct f' as [|f']; [lia|]. cbn [segT_fuel].
  destruct (scan_messages s true) as [a [t|]] eqn:E; [|reflexivity].
  destruct (scan_tok_bounds _ _ _ _ E) as [[Ha1 Ha2] _].
  destruct (maxtok <? length t); [reflexivity|].
  rewrite (IH f' (skipn a s)); [reflexivity| |]; rewrite skipn_length; lia.
Qed.

Lemma segT_unfold s : segT s =
  match scan_messages s true with
  | (a, Some t) => if maxtok <? length t then ([], STooLong)
                   else let '(ts, e) := segT (skipn a s) in (t :: ts, e)
  | (a, None) => ([], if maxtok <=? length (skipn a s) then STooLong else SEnd)
  end.
Proof.
  unfold segT at 1. cbn [segT_fuel].
  destruct (scan_messages s true) as [a [t|]] eqn:E; [|reflexivity].
  destruct (scan_tok_bounds _ _ _ _ E) as [[Ha1 Ha2] _].
  destruct (maxtok <? length t); [reflexivity|].
  unfold segT. rewrite (segT_fuel_irrel (length s) (S (length (skipn a s))) (skipn a s)); [reflexivity| |];
    rewrite skipn_length; lia.
Qed.

Lemma segT_from_hdr s i : find_hdr s = Some i -> segT s = segT (skipn i s).
Proof.
  intros F. rewrite (segT_unfold s), (segT_unfold (skipn i s)), (scan_from_hdr _ _ F).
  destruct (scan_messages (skipn i s) true) as [a [t|]]; rewrite skipn_skipn'; reflexivity.
Qed.

Lemma segT_no_hdr s : find_hdr s = None -> length s < maxtok -> segT s = ([], SEnd).
Proof.
  intros F Hl. rewrite segT_unfold. unfold scan_messages. destruct s as [|x s']; [cbn; 
    destruct (maxtok <=? 0) eqn:E; [apply Nat.leb_le in E; pose proof maxtok_ge; lia|reflexivity]|].
  rewrite F. pose proof maxtok_ge.
  destruct (last_is_FA _); f_equal; rewrite skipn_length;
    (destruct (maxtok <=? _) eqn:E; [apply Nat.leb_le in E; lia|reflexivity]).
Qed.

(* no header in s: the terminal only depends on ... nothing remains after the advance (0 or 1 byte) *)
Lemma segT_no_hdr' s : find_hdr s = None -> segT s = ([], SEnd).
Proof.
  intros F. rewrite segT_unfold. unfold scan_messages. pose proof maxtok_ge as M.
  destruct s as [|x s'].
  - cbn. destruct (maxtok <=? 0) eqn:E; [apply Nat.leb_le in E; lia|reflexivity].
  - rewrite F. destruct (last_is_FA (x :: s')); f_equal.
    + rewrite skipn_length. cbn [length].
      destruct (maxtok <=? _) eqn:E; [apply Nat.leb_le in E; lia|reflexivity].
    + rewrite skipn_all. cbn. destruct (maxtok <=? 0) eqn:E; [apply Nat.leb_le in E; lia|reflexivity].
Qed.

Lemma segT_skip_prefix p q : find_hdr (p ++ firstn 1 q) = None -> segT (p ++ q) = segT q.
Proof.
  intros H. pose proof (find_hdr_app_none _ _ H) as F.
  destruct (find_hdr q) as [j|] eqn:Fq; cbn in F.
  - rewrite (segT_from_hdr _ _ F), (segT_from_hdr _ _ Fq).
    rewrite skipn_app, skipn_all2 by lia. cbn [app]. f_equal. f_equal. lia.
  - rewrite (segT_no_hdr' _ F), (segT_no_hdr' _ Fq). reflexivity.
Qed.

Theorem no_tok_advance_stableT d e a : d <> [] ->
  scan_messages d false = (a, None) -> segT (d ++ e) = segT (skipn a d ++ e).
Proof.
  intros Hne H. unfold scan_messages in H. destruct d as [|x d0]; [congruence|]. remember (x :: d0) as d eqn:Ed.
  destruct (find_hdr d) as [i|] eqn:F.
  - pose proof (find_hdr_bound _ _ F) as Hb.
    assert (a = i).
    { destruct (claimed_len (skipn i d)); [destruct (length (skipn i d) <? n)|]; inversion H; reflexivity. }
    subst a. rewrite (segT_from_hdr _ _ (find_hdr_app_some _ e _ F)).
    rewrite skipn_app_le by lia. reflexivity.
  - destruct (last_is_FA d) eqn:L; inversion H; subst a; clear H.
    + destruct (last_is_FA_split d ltac:(subst d; discriminate) L) as (d' & Hd). clear Ed. subst d.
      rewrite app_length. cbn [length]. replace (length d' + 1 - 1) with (length d') by lia.
      rewrite skipn_app, skipn_all, Nat.sub_diag. cbn [skipn app].
      rewrite <- app_assoc. cbn [app]. apply segT_skip_prefix. cbn [firstn]. exact F.
    + rewrite skipn_all. cbn [app]. apply segT_skip_prefix.
      destruct e as [|y e']; cbn [firstn]; [rewrite app_nil_r; exact F|].
      apply last_is_FA_false_no_new_pair; assumption.
Qed.

Theorem tok_stableT d e eof a t : scan_messages d eof = (a, Some t) -> length t <= maxtok ->
  segT (d ++ e) = let '(ts, z) := segT (skipn a d ++ e) in (t :: ts, z).
Proof.
  intros H Hl. rewrite segT_unfold. rewrite (tok_stable _ e _ true _ _ H).
  destruct (maxtok <? length t) eqn:E; [apply Nat.ltb_lt in E; lia|].
  destruct (scan_tok_bounds _ _ _ _ H) as [[_ Ha] _].
  rewrite skipn_app_le by lia. reflexivity.
Qed.

(* re-splitting after a no-token advance does not move *)
Lemma split_idem d a : scan_messages d false = (a, None) -> skipn a d <> [] ->
  scan_messages (skipn a d) false = (0, None).
Proof.
  intros H Hne. unfold scan_messages in H. destruct d as [|x d0]; [inversion H; subst; cbn in Hne; congruence|].
  remember (x :: d0) as d eqn:Ed.
  destruct (find_hdr d) as [i|] eqn:F.
  - destruct (find_hdr_spec _ _ F) as (pre & m & Hs & Hl & _).
    assert (Hsk : skipn i d = FA :: FF :: m).
    { rewrite Hs, <- Hl. rewrite skipn_app, skipn_all, Nat.sub_diag. reflexivity. }
    assert (a = i).
    { destruct (claimed_len (skipn i d)); [destruct (length (skipn i d) <? n)|]; inversion H; reflexivity. }
    subst a. unfold scan_messages. rewrite Hsk in *.
    replace (find_hdr (FA :: FF :: m)) with (Some 0) by reflexivity. cbn [skipn].
    destruct (claimed_len (FA :: FF :: m)) as [L|]; [|reflexivity].
    destruct (length (FA :: FF :: m) <? L); [reflexivity|discriminate].
  - destruct (last_is_FA d) eqn:L; inversion H; subst a; clear H.
    + destruct (last_is_FA_split d ltac:(subst d; discriminate) L) as (d' & Hd). clear Ed. subst d.
      rewrite app_length. cbn [length]. replace (length d' + 1 - 1) with (length d') by lia.
      rewrite skipn_app, skipn_all, Nat.sub_diag. cbn [skipn app]. reflexivity.
    + rewrite skipn_all in Hne. congruence.
Qed.

(* a full buffer that yields no token and does not move: the segmentation is TooLong *)
Lemma full_buffer_toolong d e : scan_messages d false = (0, None) -> maxtok <= length d ->
  segT (d ++ e) = ([], STooLong).
Proof.
  intros H Hl. pose proof maxtok_ge as M. unfold scan_messages in H.
  destruct d as [|x d0]; [cbn in Hl; lia|]. remember (x :: d0) as d eqn:Ed.
  destruct (find_hdr d) as [i|] eqn:F.
  2:{ destruct (last_is_FA d); inversion H; lia. }
  assert (i = 0).
  { destruct (claimed_len (skipn i d)); [destruct (length (skipn i d) <? n)|]; inversion H; reflexivity. }
  subst i. cbn [skipn] in H.
  destruct (claimed_len d) as [L|] eqn:C.
  2:{ unfold claimed_len in C. destruct (length d <? 4) eqn:E4; [apply Nat.ltb_lt in E4; lia|].
      destruct (nthb d 3 =? 255)%N; [|discriminate].
      destruct (length d <? 6) eqn:E6; [apply Nat.ltb_lt in E6; lia|discriminate]. }
  destruct (length d <? L) eqn:EL; [|discriminate]. apply Nat.ltb_lt in EL.
  rewrite segT_unfold. unfold scan_messages.
  destruct (d ++ e) eqn:Ede; [destruct d; discriminate|]. rewrite <- Ede. clear Ede.
  rewrite (find_hdr_app_some _ e _ F). cbn [skipn]. rewrite (claimed_len_app _ e _ C).
  destruct (length (d ++ e) <? L) eqn:E2.
  - cbn [skipn]. rewrite app_length.
    destruct (maxtok <=? length d + length e) eqn:E3; [reflexivity|]. apply Nat.leb_gt in E3. lia.
  - apply Nat.ltb_ge in E2. rewrite firstn_length, Nat.min_l by lia.
    destruct (maxtok <? L) eqn:E3; [reflexivity|]. apply Nat.ltb_ge in E3. lia.
Qed.
