(* C11: data identifier <-> 16-bit wire form.  Theorems about the functions GENERATED from
   dataidentifier.go (Gen.Funcs), proved by complete sweeps of the 16-bit domain. *)
From Coq Require Import ZArith List Lia Bool.
Require Import Base.GoInt Base.Sweep Gen.Funcs Spec.IdSpec.
Import ListNotations.
Open Scope Z_scope.


Lemma trip_eqb_eq a b : trip_eqb a b = true -> a = b.
Proof.
  destruct a as [[a1 a2] a3], b as [[b1 b2] b3]. cbn. rewrite !andb_true_iff, !Z.eqb_eq.
  intros [[-> ->] ->]. reflexivity.
Qed.

(* wire -> identifier: each bit field lands in its own component (the destination's old contents
   are irrelevant: the sweep fixes them to 0 and [set_ignores_old] covers the rest) *)
Definition set_ok (v : Z) : bool :=
  trip_eqb (f_DataIdentifier_SetUint16 0 0 0 v) (Z.land v mask_type, Z.land v mask_coord, Z.land v mask_prec).

Lemma set_sweep : forallb set_ok (zrange 65536) = true.
Proof. vm_compute. reflexivity. Qed.

Lemma set_spec v : 0 <= v < 65536 ->
  f_DataIdentifier_SetUint16 0 0 0 v = (Z.land v mask_type, Z.land v mask_coord, Z.land v mask_prec).
Proof. intros H. apply trip_eqb_eq. exact (sweep set_ok 65536 set_sweep v H). Qed.

Definition get_ok (v : Z) : bool :=
  let '(t, c, p) := f_DataIdentifier_SetUint16 0 0 0 v in f_DataIdentifier_Uint16 t c p =? Z.land v mask_all.

Lemma get_sweep : forallb get_ok (zrange 65536) = true.
Proof. vm_compute. reflexivity. Qed.

Lemma set_get v : 0 <= v < 65536 ->
  let '(t, c, p) := f_DataIdentifier_SetUint16 0 0 0 v in
  f_DataIdentifier_Uint16 t c p = Z.land v mask_all /\
  t = Z.land v mask_type /\ c = Z.land v mask_coord /\ p = Z.land v mask_prec.
Proof.
  intros H. pose proof (sweep get_ok 65536 get_sweep v H) as G. unfold get_ok in G.
  rewrite (set_spec v H) in *. apply Z.eqb_eq in G. repeat split; assumption.
Qed.

Lemma masks_disjoint :
  Z.land mask_type mask_coord = 0 /\ Z.land mask_type mask_prec = 0 /\ Z.land mask_coord mask_prec = 0 /\
  Z.lor (Z.lor mask_type mask_coord) mask_prec = mask_all.
Proof. repeat split. Qed.

(* identifier -> wire -> identifier on in-range components.  In-range: the component only has
   bits of its own mask.  Complete sweep: 65536 candidate types (512 in range) x 4 x 4. *)

Definition getset_ok_t (t : Z) : bool :=
  if Z.land t mask_type =? t then
    forallb (fun c => forallb (fun p =>
       trip_eqb (f_DataIdentifier_SetUint16 0 0 0 (f_DataIdentifier_Uint16 t c p)) (t, c, p) &&
       (f_DataIdentifier_Uint16 t c p <? 65536) && (0 <=? f_DataIdentifier_Uint16 t c p))
      [0; 1; 2; 3]) [0; 4; 8; 12]
  else true.

Lemma getset_sweep : forallb getset_ok_t (zrange 65536) = true.
Proof. vm_compute. reflexivity. Qed.

Lemma land_mask_bound x m k : 0 <= k -> Z.land m (Z.ones k) = m -> Z.land x m = x -> 0 <= x < 2 ^ k.
Proof.
  intros Hk Hm Hx. rewrite <- Hx, <- Hm, Z.land_assoc, Hx, Z.land_ones by exact Hk.
  apply Z.mod_pos_bound. apply Z.pow_pos_nonneg; lia.
Qed.

Lemma coord_cases c : Z.land c mask_coord = c -> In c [0; 4; 8; 12].
Proof.
  intros Hc. pose proof (land_mask_bound c mask_coord 4 ltac:(lia) eq_refl Hc) as Hr. change (2 ^ 4) with 16 in Hr.
  assert (E : forallb (fun x => negb (Z.land x mask_coord =? x) || existsb (Z.eqb x) [0; 4; 8; 12]) (zrange 16) = true) by (vm_compute; reflexivity).
  pose proof (sweep _ 16 E c Hr) as G. cbv beta in G.
  rewrite Hc, Z.eqb_refl in G. cbn [negb orb] in G.
  apply existsb_exists in G. destruct G as (x & Hx & Ex). apply Z.eqb_eq in Ex. subst x. exact Hx.
Qed.

Lemma prec_cases p : Z.land p mask_prec = p -> In p [0; 1; 2; 3].
Proof.
  intros Hc. pose proof (land_mask_bound p mask_prec 2 ltac:(lia) eq_refl Hc) as Hr. change (2 ^ 2) with 4 in Hr.
  assert (Hp : p = 0 \/ p = 1 \/ p = 2 \/ p = 3) by lia.
  destruct Hp as [Hp|[Hp|[Hp|Hp]]]; subst p; cbn; tauto.
Qed.

Lemma get_set t c p : in_range t c p = true ->
  f_DataIdentifier_SetUint16 0 0 0 (f_DataIdentifier_Uint16 t c p) = (t, c, p) /\
  0 <= f_DataIdentifier_Uint16 t c p < 65536.
Proof.
  unfold in_range. rewrite !andb_true_iff, !Z.eqb_eq. intros [[Ht Hc] Hp].
  pose proof (land_mask_bound t mask_type 16 ltac:(lia) eq_refl Ht) as Hr. change (2 ^ 16) with 65536 in Hr.
  pose proof (sweep getset_ok_t 65536 getset_sweep t Hr) as G. unfold getset_ok_t in G.
  rewrite Ht, Z.eqb_refl in G.
  rewrite forallb_forall in G. specialize (G c (coord_cases c Hc)).
  rewrite forallb_forall in G. specialize (G p (prec_cases p Hp)).
  rewrite !andb_true_iff in G. destruct G as [[G1 G2] G3].
  apply trip_eqb_eq in G1. apply Z.ltb_lt in G2. apply Z.leb_le in G3. split; [exact G1|lia].
Qed.

(* SetUint16 overwrites every component: the result does not depend on the destination *)
Lemma set_ignores_old a b c v : f_DataIdentifier_SetUint16 a b c v = f_DataIdentifier_SetUint16 0 0 0 v.
Proof. reflexivity. Qed.

Lemma land_land_mask v m1 m2 : Z.land (Z.land v m1) m2 = Z.land v (Z.land m1 m2).
Proof. rewrite Z.land_assoc. reflexivity. Qed.

Theorem same_identifier_iff v w : 0 <= v < 65536 -> 0 <= w < 65536 ->
  (f_DataIdentifier_SetUint16 0 0 0 v = f_DataIdentifier_SetUint16 0 0 0 w <-> Z.land v mask_all = Z.land w mask_all).
Proof.
  intros Hv Hw. rewrite (set_spec v Hv), (set_spec w Hw). split.
  - intros E. injection E as E1 E2 E3.
    assert (D : forall x, Z.land x mask_all = Z.lor (Z.lor (Z.land x mask_type) (Z.land x mask_coord)) (Z.land x mask_prec)).
    { intros x. rewrite <- !Z.land_lor_distr_r. reflexivity. }
    rewrite (D v), (D w), E1, E2, E3. reflexivity.
  - intros E.
    assert (T : forall x m, Z.land mask_all m = m -> Z.land x m = Z.land (Z.land x mask_all) m).
    { intros x m Hm. rewrite land_land_mask, Hm. reflexivity. }
    rewrite (T v mask_type), (T w mask_type), (T v mask_coord), (T w mask_coord), (T v mask_prec), (T w mask_prec), E
      by reflexivity.
    reflexivity.
Qed.
