From Coq Require Import Lia.
Require Import Base.Bytes Model.Frame Model.Split Lib.Bufio Spec.StreamSpec Proofs.SplitProofs Proofs.SegProofs Proofs.LemmaB Proofs.SegT.
Open Scope nat_scope.

Lemma maxtok_eq : N.of_nat maxtok = 65536%N.
Proof. Transparent maxtok. unfold maxtok. rewrite N2Nat.id. reflexivity. Opaque maxtok. Qed.

Lemma scan_adv_le d eof a t : scan_messages d eof = (a, t) -> a <= length d.
Proof.
  destruct t as [t|].
  - intros H. destruct (scan_tok_bounds _ _ _ _ H) as [[_ H2] _]. exact H2.
  - unfold scan_messages. destruct d as [|x d0]; [intros H; inversion H; cbn; lia|].
    remember (x :: d0) as d. destruct (find_hdr d) as [i|] eqn:F.
    + pose proof (find_hdr_bound _ _ F).
      destruct (claimed_len (skipn i d)); [destruct (length (skipn i d) <? n)|]; intros H0; inversion H0; lia.
    + destruct (last_is_FA d); intros H0; inversion H0; lia.
Qed.

Definition G (s : scanner) : Prop := (sc_end s <= buflen s)%N /\ (buflen s <= max_token)%N.

Lemma G_pend_le s : G s -> length (pend s) <= maxtok.
Proof.
  intros [H1 H2]. unfold sc_end, max_token in *. pose proof maxtok_eq. lia.
Qed.

Lemma phase1_G s s1 got : G s -> phase1 s = (s1, got) -> G s1 /\ buflen s1 = buflen s /\ serr s1 = serr s.
Proof.
  intros [H1 H2] H. unfold phase1 in H.
  destruct (negb match pend s with [] => true | _ => false end || has_err s).
  - destruct (scan_messages (pend s) (has_err s)) as [adv t] eqn:E. inversion H; subst; clear H.
    pose proof (scan_adv_le _ _ _ _ E) as Ha.
    unfold G, sc_end in *. cbn [buflen start pend serr]. rewrite skipn_length. repeat split; try lia.
  - inversion H; subst. repeat split; assumption.
Qed.

Lemma shift_props s : G s -> G (shift s) /\ pend (shift s) = pend s /\ serr (shift s) = serr s /\ buflen (shift s) = buflen s
  /\ (sc_end (shift s) = buflen (shift s) -> start (shift s) = 0%N).
Proof.
  intros [H1 H2]. unfold shift.
  destruct ((0 <? start s)%N && ((sc_end s =? buflen s)%N || (buflen s / 2 <? start s)%N)) eqn:E.
  - unfold G, sc_end in *. cbn [buflen start pend serr]. repeat split; try lia.
  - repeat split; try assumption. intros Heq.
    apply andb_false_iff in E. destruct E as [E|E].
    + apply N.ltb_ge in E. lia.
    + apply orb_false_iff in E. destruct E as [E _]. apply N.eqb_neq in E. congruence.
Qed.

Lemma grow_none s : G s -> (sc_end s = buflen s -> start s = 0%N) -> grow s = None -> length (pend s) = maxtok.
Proof.
  intros [H1 H2] Hs H. unfold grow in H.
  destruct (sc_end s =? buflen s)%N eqn:E; [|discriminate]. apply N.eqb_eq in E.
  destruct (max_token <=? buflen s)%N eqn:E2; [|discriminate]. apply N.leb_le in E2.
  specialize (Hs E). unfold sc_end, max_token in *. pose proof maxtok_eq. lia.
Qed.

Lemma grow_some s s3 : G s -> grow s = Some s3 ->
  G s3 /\ pend s3 = pend s /\ serr s3 = serr s /\ (sc_end s3 < buflen s3)%N.
Proof.
  intros [H1 H2] H. unfold grow in H.
  destruct (sc_end s =? buflen s)%N eqn:E.
  - apply N.eqb_eq in E. destruct (max_token <=? buflen s)%N eqn:E2; [discriminate|]. apply N.leb_gt in E2.
    remember (if (buflen s =? 0)%N then start_buf else N.min (2 * buflen s) max_token) as nb eqn:Enb.
    assert (Hnb : (buflen s < nb)%N /\ (nb <= max_token)%N).
    { subst nb. unfold max_token, start_buf in *. destruct (buflen s =? 0)%N eqn:E0.
      - apply N.eqb_eq in E0. lia.
      - apply N.eqb_neq in E0. lia. }
    injection H as <-. unfold G, sc_end in *. cbn [buflen start pend serr].
    repeat split; try reflexivity; lia.
  - apply N.eqb_neq in E. injection H as <-. repeat split; try assumption. lia.
Qed.
