From Coq Require Import List Bool Lia.
Require Import Model.Conc Spec.Order.
Import ListNotations.

Lemma no_wr_after_app p a b : no_wr_after p (a ++ b) = no_wr_after p a && no_wr_after (flag p a) b.
Proof.
  revert p; induction a as [|x a IH]; intros p.
  - unfold flag. cbn. rewrite orb_false_r. reflexivity.
  - destruct x; cbn [app no_wr_after]; rewrite IH; unfold flag; cbn [existsb is_port orb]; try reflexivity.
    + rewrite andb_assoc. reflexivity.
    + rewrite orb_true_r. reflexivity.
Qed.

Lemma flag_app p a b : flag p (a ++ b) = flag (flag p a) b.
Proof. unfold flag. rewrite existsb_app, orb_assoc. reflexivity. Qed.

Lemma no_wr_antitone l : forall p, no_wr_after true l = true -> no_wr_after p l = true.
Proof.
  induction l as [|x l IH]; intros p H; [reflexivity|].
  destruct x; cbn [no_wr_after negb andb] in *; try (apply IH; exact H); try discriminate; try exact H.
Qed.

Lemma no_wr_le p q l : (p = true -> q = true) -> no_wr_after q l = true -> no_wr_after p l = true.
Proof.
  intros Hpq H. destruct p; [rewrite (Hpq eq_refl) in H; exact H|].
  destruct q; [apply no_wr_antitone; exact H|exact H].
Qed.

Lemma flag_le p q l : (p = true -> q = true) -> flag p l = true -> flag q l = true.
Proof. unfold flag. intros Hpq H. apply orb_true_iff in H. apply orb_true_iff. destruct H as [H|H]; [left; auto|right; exact H]. Qed.

Lemma order_mono s : forall q, order_check s true = Some q -> q = true.
Proof.
  induction s as [| a | | a IHa b IHb | a IHa b IHb | a IHa | a IHa]; intros q H; cbn [order_check] in H.
  - injection H as <-. reflexivity.
  - destruct a; try discriminate; injection H as <-; reflexivity.
  - injection H as <-. reflexivity.
  - destruct (order_check a true) as [p1|]; [|discriminate]. pose proof (IHa p1 eq_refl) as ->. apply IHb. exact H.
  - destruct (order_check a true) as [x|]; [|discriminate].
    destruct (order_check b true) as [y|]; [|discriminate]. injection H as <-. rewrite (IHa x eq_refl). reflexivity.
  - destruct (order_check a true) as [p1|]; [|discriminate]. destruct p1; cbn in H; injection H as <-; reflexivity.
  - apply IHa. exact H.
Qed.

(* the check accepted from p: it is also accepted from any flag below p... only the two cases needed *)
Lemma order_sound : forall s l r, path s l r -> forall p q, order_check s p = Some q ->
  no_wr_after p l = true /\ (flag p l = true -> q = true).
Proof.
  intros s l r Hp. induction Hp as [ | a | | a b la Ha IHa | a b la lb r Ha IHa Hb IHb | a b l r Ha IHa | a b l r Hb IHb
                                   | a | a l1 l2 r H1 IH1 H2 IH2 | a l1 H1 IH1 | s l r Hs IHs]; intros p q H; cbn [order_check] in H.
  - injection H as <-. unfold flag. cbn. rewrite orb_false_r. split; [reflexivity|auto].
  - unfold flag. destruct a; cbn [no_wr_after existsb is_port orb negb andb] ; rewrite ?orb_false_r;
      try (destruct p; [discriminate|]); injection H as <-; (split; [reflexivity|auto]).
  - injection H as <-. unfold flag. cbn. rewrite orb_false_r. split; [reflexivity|auto].
  - destruct (order_check a p) as [p1|] eqn:E; [|discriminate]. destruct (IHa p p1 E) as [I1 I2]. split; [exact I1|].
    intros F. rewrite (I2 F) in H. exact (order_mono b q H).
  - destruct (order_check a p) as [p1|] eqn:E; [|discriminate]. destruct (IHa p p1 E) as [I1 I2].
    destruct (IHb p1 q H) as [J1 J2]. rewrite no_wr_after_app, flag_app, I1. split.
    + cbn [andb]. exact (no_wr_le _ _ _ I2 J1).
    + intros F. apply J2. exact (flag_le _ _ _ I2 F).
  - destruct (order_check a p) as [x|] eqn:Ea; [|discriminate]. destruct (order_check b p) as [y|] eqn:Eb; [|discriminate].
    injection H as <-. destruct (IHa p x Ea) as [I1 I2]. split; [exact I1|]. intros F. rewrite (I2 F). reflexivity.
  - destruct (order_check a p) as [x|] eqn:Ea; [|discriminate]. destruct (order_check b p) as [y|] eqn:Eb; [|discriminate].
    injection H as <-. destruct (IHb p y Eb) as [I1 I2]. split; [exact I1|]. intros F. rewrite (I2 F). apply orb_true_r.
  - unfold flag. cbn. rewrite orb_false_r. split; [reflexivity|]. intros ->.
    destruct (order_check a true) as [p1|] eqn:E; [|discriminate]. pose proof (order_mono a p1 E) as ->.
    cbn in H. injection H as <-. reflexivity.
  - (* one more iteration, then the rest of the loop from the flag reached *)
    destruct (order_check a p) as [p1|] eqn:E; [|discriminate]. destruct (IH1 p p1 E) as [I1 I2].
    assert (Hrest : exists q', order_check (Loop a) (flag p l1) = Some q' /\ (q' = true -> q = true)).
    { destruct p1.
      - destruct (order_check a true) as [x|] eqn:E1; [|discriminate]. injection H as <-.
        destruct (flag p l1) eqn:F.
        + exists true. cbn [order_check]. rewrite E1. pose proof (order_mono a x E1) as ->. split; [reflexivity|auto].
        + assert (p = false) as -> by (unfold flag in F; destruct p; [discriminate|reflexivity]).
          exists true. cbn [order_check]. rewrite E, E1. split; [reflexivity|auto].
      - injection H as <-. assert (F : flag p l1 = false) by (destruct (flag p l1); [specialize (I2 eq_refl); discriminate|reflexivity]).
        assert (p = false) as -> by (unfold flag in F; destruct p; [discriminate|reflexivity]).
        rewrite F. exists false. cbn [order_check]. rewrite E. split; [reflexivity|auto]. }
    destruct Hrest as (q' & Hq & Hle). destruct (IH2 _ _ Hq) as [J1 J2].
    rewrite no_wr_after_app, flag_app, I1, J1. split; [reflexivity|]. intros F. apply Hle, J2, F.
  - destruct (order_check a p) as [p1|] eqn:E; [|discriminate]. destruct (IH1 p p1 E) as [I1 I2]. split; [exact I1|].
    intros F. specialize (I2 F). subst p1. destruct (order_check a true); [injection H as <-; reflexivity|discriminate].
  - exact (IHs p q H).
Qed.

Theorem receive_order_sound s : receive_order_ok s = true ->
  exists body, s = Loop body /\ forall l r, path body l r -> no_wr_after false l = true.
Proof.
  unfold receive_order_ok. destruct s as [| | | | | body |]; try discriminate.
  destruct (order_check body false) as [q|] eqn:E; [|discriminate]. intros _. exists body. split; [reflexivity|].
  intros l r Hp. exact (proj1 (order_sound body l r Hp false q E)).
Qed.
