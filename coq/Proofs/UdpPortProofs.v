(* What the port over UDP guarantees to the layers above it (Model/UdpPort.v): whatever one side writes, the other side
   reads whole, unchanged and in order, whatever the sizes, the configured timeouts and the time that passes in between. *)
From Coq Require Import ZArith NArith List Bool Lia.
Require Import Base.Bytes Model.UdpPort.
Import ListNotations.
Open Scope Z_scope.

Lemma udp_write_open t n side p : uclosed n side = false ->
  udp_write t None (sock_write n side) p = (Z.of_nat (length p), None).
Proof. intros H. unfold udp_write, sock_write. rewrite H. destruct (t =? 0); reflexivity. Qed.

Lemma uqueue_set n side q : uqueue (uset_queue n side q) side = q.
Proof. destruct side; reflexivity. Qed.
Lemma uqueue_set_other n side q : uqueue (uset_queue n (negb side) q) side = uqueue n side.
Proof. destruct side; reflexivity. Qed.
Lemma uclosed_set n side s q : uclosed (uset_queue n s q) side = uclosed n side.
Proof. destruct side, s; reflexivity. Qed.

(* one write: the whole slice is accepted and becomes the newest datagram on its way to the other side *)
Theorem udp_write_step t0 t1 n side p : uclosed n side = false ->
  ustep t0 t1 n (UWrite side p) = (uset_queue n (negb side) (uqueue n (negb side) ++ [p]), UWrote (Z.of_nat (length p)) None).
Proof. intros H. unfold ustep. rewrite udp_write_open by exact H. reflexivity. Qed.

(* one read with room for the oldest datagram: exactly that datagram *)
Theorem udp_read_step t0 t1 n side buflen d q : uclosed n side = false -> uqueue n side = d :: q -> (length d <= buflen)%nat ->
  ustep t0 t1 n (URead side buflen) = (uset_queue n side q, UGot d None).
Proof.
  intros Hc Hq Hl. unfold ustep, udp_read, sock_read. rewrite Hc, Hq.
  rewrite firstn_all2 by exact Hl. destruct ((if side then t1 else t0) =? 0); reflexivity.
Qed.

(* time passing changes nothing *)
Theorem udp_sleep_step t0 t1 n : ustep t0 t1 n USleep = (n, UNone).
Proof. reflexivity. Qed.

(* a burst of writes from one side followed by as many reads on the other side, with sleeps anywhere in between:
   the reads return the written slices, whole and in order *)
Definition writes side (ps : list bytes) : list uop := map (UWrite side) ps.
Definition reads side buflen (k : nat) : list uop := repeat (URead side buflen) k.

Lemma urun_app t0 t1 n a b : urun t0 t1 n (a ++ b) =
  urun t0 t1 n a ++ urun t0 t1 (fold_left (fun m o => fst (ustep t0 t1 m o)) a n) b.
Proof.
  revert n. induction a as [|o a IH]; intros n; cbn [app urun fold_left]; [reflexivity|].
  destruct (ustep t0 t1 n o) as [n' out] eqn:E. cbn [fst]. rewrite IH. reflexivity.
Qed.

Lemma writes_state t0 t1 side ps : forall n, uclosed n side = false ->
  let n' := fold_left (fun m o => fst (ustep t0 t1 m o)) (writes side ps) n in
  uqueue n' (negb side) = uqueue n (negb side) ++ ps /\ uqueue n' side = uqueue n side /\
  (forall s, uclosed n' s = uclosed n s) /\
  urun t0 t1 n (writes side ps) = map (fun p => UWrote (Z.of_nat (length p)) None) ps.
Proof.
  induction ps as [|p ps IH]; intros n Hc; cbn [writes map fold_left urun].
  - rewrite app_nil_r. repeat split; reflexivity.
  - rewrite udp_write_step by exact Hc. cbn [fst].
    specialize (IH (uset_queue n (negb side) (uqueue n (negb side) ++ [p]))).
    rewrite uclosed_set in IH. specialize (IH Hc). cbn zeta in IH. destruct IH as (Q & Q' & C & RUN).
    rewrite uqueue_set in Q. rewrite <- app_assoc in Q. cbn [app] in Q.
    assert (Q2 : uqueue (uset_queue n (negb side) (uqueue n (negb side) ++ [p])) side = uqueue n side).
    { destruct side; reflexivity. }
    rewrite Q2 in Q'. repeat split; try assumption.
    + intros s. rewrite C. apply uclosed_set.
    + unfold writes in RUN. rewrite RUN. reflexivity.
Qed.

Lemma reads_run t0 t1 side buflen ps : forall n, uclosed n side = false -> uqueue n side = ps ->
  Forall (fun p => (length p <= buflen)%nat) ps ->
  urun t0 t1 n (reads side buflen (length ps)) = map (fun p => UGot p None) ps.
Proof.
  induction ps as [|p ps IH]; intros n Hc Hq Hl; cbn [reads length repeat urun map]; [reflexivity|].
  inversion Hl as [|? ? Hp Hps]; subst.
  rewrite (udp_read_step t0 t1 n side buflen p ps Hc Hq Hp).
  f_equal. apply IH; [rewrite uclosed_set; exact Hc | apply uqueue_set | exact Hps].
Qed.

Theorem udp_delivers t0 t1 side buflen ps :
  Forall (fun p => (length p <= buflen)%nat) ps ->
  urun t0 t1 unet0 (writes side ps ++ reads (negb side) buflen (length ps)) =
  map (fun p => UWrote (Z.of_nat (length p)) None) ps ++ map (fun p => UGot p None) ps.
Proof.
  intros Hl. rewrite urun_app.
  destruct (writes_state t0 t1 side ps unet0) as (Q & _ & C & RUN); [destruct side; reflexivity|].
  cbn zeta in *. rewrite RUN. f_equal.
  apply reads_run; [rewrite C; destruct side; reflexivity | | exact Hl].
  rewrite Q. destruct side; reflexivity.
Qed.

(* a port created without options never sets a deadline: its timeout is 0, and with timeout 0 the deadline operations'
   results are irrelevant *)
Theorem udp_no_option_no_deadline : udp_options [] = 0.
Proof. reflexivity. Qed.
Theorem udp_last_option_wins ts t : udp_options (ts ++ [t]) = t.
Proof. unfold udp_options. rewrite fold_left_app. reflexivity. Qed.
Theorem udp_write_without_timeout dl cw p : udp_write 0 dl cw p = cw p.
Proof. reflexivity. Qed.
Theorem udp_read_without_timeout dl cr p : udp_read 0 dl cr p = (let '(n, _, e) := cr p in (n, e)).
Proof. reflexivity. Qed.

(* a write's error is the connection's error: never swallowed, never invented *)
Theorem udp_write_error t cw p : snd (udp_write t None cw p) = snd (cw p) /\ fst (udp_write t None cw p) = fst (cw p).
Proof. unfold udp_write. destruct (t =? 0); split; reflexivity. Qed.

Example udp_delivers_nonvacuous :
  urun 0 100 unet0 (writes false [[250; 255; 54; 0; 203]%N; []] ++ [USleep] ++ reads true 4096 2) =
  [UWrote 5 None; UWrote 0 None; UNone; UGot [250; 255; 54; 0; 203]%N None; UGot [] None].
Proof. reflexivity. Qed.

(* what the hypothesis [length p <= buflen] of [udp_delivers] excludes (DESIGN 13.8): a read with less room than the
   oldest datagram returns its head and the rest is gone - the next read finds the line empty *)
Example udp_short_read_loses_the_tail :
  urun 0 50 unet0 [UWrite false [1; 2; 3; 4; 5]%N; URead true 3; URead true 4096] =
  [UWrote 5 None; UGot [1; 2; 3]%N None; UGot [] (Some 2)].
Proof. reflexivity. Qed.
Theorem udp_short_read_refuted : exists p buflen, (buflen < length p)%nat /\
  urun 0 50 unet0 [UWrite false p; URead true buflen; URead true 4096] <>
  [UWrote (Z.of_nat (length p)) None; UGot (firstn buflen p) None; UGot (skipn buflen p) None].
Proof. exists [1; 2; 3; 4; 5]%N, 3%nat. split; [cbn; repeat constructor|]. cbn. discriminate. Qed.
