From Coq Require Import Lia.
Require Import Base.Bytes Model.Frame Model.Split Proofs.SplitProofs.
Open Scope nat_scope.

Lemma skipn_skipn' {A} a i (s : list A) : skipn a (skipn i s) = skipn (i + a) s.
Proof. revert s; induction i as [|i IH]; intros s; [reflexivity|]. destruct s; [destruct a; reflexivity|]. apply IH. Qed.

(* a token advance is positive and within the data *)
Lemma scan_tok_bounds d eof a t : scan_messages d eof = (a, Some t) -> 5 <= a <= length d /\ length t <= a.
Proof.
  unfold scan_messages. destruct d as [|x d']; [discriminate|]. set (d := x :: d').
  destruct (find_hdr d) as [i|] eqn:F.
  2:{ destruct (last_is_FA d); discriminate. }
  pose proof (find_hdr_bound _ _ F) as Hb.
  destruct (claimed_len (skipn i d)) as [L|] eqn:C; [|discriminate].
  destruct (length (skipn i d) <? L) eqn:EL; [discriminate|]. apply Nat.ltb_ge in EL.
  intros H; inversion H; subst. rewrite skipn_length in EL. rewrite firstn_length, skipn_length.
  assert (5 <= L).
  { unfold claimed_len in C. destruct (length (skipn i d) <? 4); [discriminate|].
    destruct (nthb (skipn i d) 3 =? 255)%N.
    - destruct (length (skipn i d) <? 6); [discriminate|]. inversion C. lia.
    - inversion C. lia. }
  lia.
Qed.

Lemma segments_fuel_irrel f f' s : length s < f -> length s < f' -> segments f s = segments f' s.
Proof.
  revert f' s; induction f as [|f IH]; intros f' s H H'; [lia|].
  destruct f' as [|f']; [lia|]. cbn [segments].
  destruct (scan_messages s true) as [a [t|]] eqn:E; [|reflexivity].
  destruct (scan_tok_bounds _ _ _ _ E) as [[Ha1 Ha2] _].
  f_equal. apply IH; rewrite skipn_length; lia.
Qed.

Lemma segs_unfold s : segs s = match scan_messages s true with
                               | (a, Some t) => t :: segs (skipn a s)
                               | (_, None) => [] end.
Proof.
  unfold segs at 1. cbn [segments].
  destruct (scan_messages s true) as [a [t|]] eqn:E; [|reflexivity].
  destruct (scan_tok_bounds _ _ _ _ E) as [[Ha1 Ha2] _].
  f_equal. unfold segs. apply segments_fuel_irrel; rewrite skipn_length; lia.
Qed.

(* scanning a stream = scanning from its first header *)
Lemma scan_from_hdr s i : find_hdr s = Some i ->
  scan_messages s true = let '(a, t) := scan_messages (skipn i s) true in ((i + a), t).
Proof.
  intros F. destruct (find_hdr_spec _ _ F) as (pre & m & Hs & Hl & _).
  pose proof (find_hdr_bound _ _ F) as Hb.
  assert (Hsk : skipn i s = FA :: FF :: m).
  { subst s i. rewrite skipn_app, skipn_all, Nat.sub_diag. reflexivity. }
  unfold scan_messages at 2. rewrite Hsk.
  replace (find_hdr (FA :: FF :: m)) with (Some 0) by reflexivity.
  cbn [skipn]. unfold scan_messages. destruct s as [|x s']; [cbn in Hb; lia|].
  rewrite F, Hsk.
  destruct (claimed_len (FA :: FF :: m)) as [L|]; [|f_equal; lia].
  destruct (length (FA :: FF :: m) <? L); f_equal; lia.
Qed.

Lemma segs_from_hdr s i : find_hdr s = Some i -> segs s = segs (skipn i s).
Proof.
  intros F. rewrite (segs_unfold s), (segs_unfold (skipn i s)), (scan_from_hdr _ _ F).
  destruct (scan_messages (skipn i s) true) as [a [t|]]; [|reflexivity].
  rewrite skipn_skipn'. reflexivity.
Qed.

Lemma segs_no_hdr s : find_hdr s = None -> segs s = [].
Proof.
  intros F. rewrite segs_unfold. unfold scan_messages. destruct s; [reflexivity|].
  rewrite F. destruct (last_is_FA _); reflexivity.
Qed.
