(* Proofs about Model.Link: every schedule of client vs. emulator. *)
From Coq Require Import ZArith NArith List Bool String Lia.
Require Import Base.Bytes Base.Tactics Model.Frame Model.Config Model.Emulator Model.Link
  Spec.FrameSpec Spec.ConfigSpec Proofs.FrameProofs Proofs.ConfigProofs.
Import ListNotations.
Open Scope Z_scope.

Definition cmd_ok (c : lcmd) : Prop :=
  match c with LSetConf cfg => Forall setting_ok cfg /\ (length cfg <= 512)%nat | _ => True end.

Definition ack_frame (c : lcmd) : bytes := new_message (Z.to_N (cmd_ack c)) [].

Definition reflects (e : emu) (done : list lcmd) : Prop :=
  emode e = mode_after done /\ econf e = conf_after [] done.

Definition waiting (w : option lcmd) : list lcmd := match w with Some c => [c] | None => [] end.

Definition Inv (cmds : list lcmd) (s : link) : Prop :=
  lfail s = false /\ ealive (lemu s) = true /\
  cmds = ldone s ++ waiting (lwait s) ++ ltodo s /\
  match lwait s with
  | None =>
      lc2e s = [] /\ lpend s = [] /\ reflects (lemu s) (ldone s) /\
      lrecv s ++ le2c s = ltx s /\ Forall (fun f => validate f = VOk) (ltx s) /\ (ltodo s <> [] -> ltx s = [])
  | Some c =>
      lrecv s = [] /\ ltx s = [] /\
      ((lc2e s = [cmd_frame c] /\ lpend s = [] /\ le2c s = [] /\ reflects (lemu s) (ldone s)) \/
       (lc2e s = [] /\ lpend s = [ack_frame c] /\ le2c s = [] /\ reflects (lemu s) (ldone s ++ [c])) \/
       (lc2e s = [] /\ lpend s = [] /\ le2c s = [ack_frame c] /\ reflects (lemu s) (ldone s ++ [c])))
  end.

(* ---- the command table entries the model relies on (recomputed from the generated table) ---- *)
Lemma ids_goconfig : cmd_req LGoConfig = 48 /\ cmd_ack LGoConfig = 49. Proof. split; reflexivity. Qed.
Lemma ids_setconf cfg : cmd_req (LSetConf cfg) = 192 /\ cmd_ack (LSetConf cfg) = 193. Proof. split; reflexivity. Qed.
Lemma ids_gomeas : cmd_req LGoMeas = 16 /\ cmd_ack LGoMeas = 54. Proof. split; reflexivity. Qed.

Lemma outconf_marshal_length cfg : length (outconf_marshal cfg) = (4 * length cfg)%nat.
Proof.
  unfold outconf_marshal. induction cfg as [|[[[t c] p] f] cfg IH]; [reflexivity|].
  cbn [flat_map]. rewrite app_length, IH. cbn [length]. rewrite app_length. cbn. lia.
Qed.

Lemma mode_after_snoc done c : mode_after (done ++ [c]) =
  match c with LGoConfig => mid_goto_config | LSetConf _ => mid_set_outconf | LGoMeas => mid_meas end.
Proof. unfold mode_after. rewrite rev_app_distr. reflexivity. Qed.

Lemma conf_after_app acc a b : conf_after acc (a ++ b) = conf_after (conf_after acc a) b.
Proof. revert acc; induction a as [|c a IH]; intros acc; [reflexivity|]. destruct c; cbn [app conf_after]; apply IH. Qed.

Lemma conf_after_snoc done c : conf_after [] (done ++ [c]) =
  match c with LSetConf cfg => cfg | _ => conf_after [] done end.
Proof. rewrite conf_after_app. destruct c; reflexivity. Qed.

(* ---- the emulator handling a request the client wrote ---- *)
Lemma emu_handles e c done : ealive e = true -> cmd_ok c -> reflects e done ->
  exists e', estep e (ERecv (cmd_frame c)) = (OWrote [ack_frame c], e') /\ ealive e' = true /\ reflects e' (done ++ [c]).
Proof.
  intros Ha Hok [Hm Hc].
  assert (Hlen : (length (cmd_payload c) <= 2048)%nat).
  { destruct c as [|cfg|]; cbn [cmd_payload length]; try lia.
    rewrite outconf_marshal_length. destruct Hok as [_ Hl]. lia. }
  pose proof (new_message_wf (Z.to_N (cmd_req c)) (cmd_payload c) Hlen) as W. cbv zeta in W.
  destruct W as (_ & Hv & Hid & _ & Hd & _).
  unfold estep, cmd_frame. rewrite Ha. cbn [negb]. rewrite Hv, Hid, Hd.
  unfold reflects. rewrite mode_after_snoc, conf_after_snoc.
  destruct c as [|cfg|].
  - eexists; split; [reflexivity|]. cbn. repeat split; try exact Ha. exact Hc.
  - eexists; split; [reflexivity|]. cbn [ealive emode econf]. repeat split.
    cbn [cmd_payload]. destruct Hok as [Hs _]. apply marshal_unmarshal. exact Hs.
  - eexists; split; [reflexivity|]. cbn. repeat split; try exact Ha. exact Hc.
Qed.

(* ---- the client reading the acknowledge ---- *)
Lemma ack_accepted c : validate (ack_frame c) = VOk /\ identifier (ack_frame c) = Some (Z.to_N (cmd_ack c)).
Proof.
  pose proof (new_message_wf (Z.to_N (cmd_ack c)) [] ltac:(cbn; lia)) as W. cbv zeta in W.
  destruct W as (_ & Hv & Hid & _). split; assumption.
Qed.

Lemma cmd_ack_range c : Z.of_N (Z.to_N (cmd_ack c)) = cmd_ack c.
Proof. destruct c; reflexivity. Qed.

Ltac lsimpl := cbn [lfail lemu ltodo lwait ldone lc2e le2c lpend lrecv ltx waiting app length frames_of].

(* ---- the invariant ---- *)
Theorem inv_init cmds : Inv cmds (link_init cmds).
Proof. unfold Inv, link_init, reflects. cbn. ssplit; try reflexivity. constructor. Qed.

Theorem inv_step cmds s ch s' : Forall cmd_ok cmds -> Inv cmds s -> lstep s ch = Some s' -> Inv cmds s'.
Proof.
  intros Hok (Hf & Ha & Hcm & Hw) Hs.
  destruct ch as [| | |m]; unfold lstep in Hs.
  - (* client *)
    rewrite Hf in Hs. destruct (lwait s) as [c|] eqn:Ew.
    + destruct Hw as (Hr & Ht & [(H1 & H2 & H3 & H4)|[(H1 & H2 & H3 & H4)|(H1 & H2 & H3 & H4)]]);
        rewrite H3 in Hs; try discriminate.
      destruct (ack_accepted c) as [Hv Hi]. rewrite Hv, Hi, cmd_ack_range, Z.eqb_refl in Hs.
      injection Hs as <-. unfold Inv; lsimpl. ssplit; try assumption; try reflexivity.
      * rewrite Hcm. lsimpl. rewrite <- app_assoc. reflexivity.
      * rewrite Hr, Ht. reflexivity.
      * rewrite Ht. constructor.
      * intros _. exact Ht.
    + destruct Hw as (H1 & H2 & H3 & H4 & H5 & H6).
      destruct (ltodo s) as [|c t] eqn:Et.
      * destruct (le2c s) as [|f r] eqn:Ee; [discriminate|].
        assert (Hvf : validate f = VOk).
        { rewrite <- H4 in H5. rewrite Forall_app in H5. destruct H5 as [_ H5]. inversion H5; assumption. }
        rewrite Hvf in Hs. injection Hs as <-. unfold Inv; lsimpl. ssplit; try assumption; try reflexivity.
        rewrite <- app_assoc. exact H4.
      * injection Hs as <-. unfold Inv; lsimpl. ssplit; try assumption; try reflexivity.
        -- specialize (H6 ltac:(discriminate)). rewrite H6 in H4. destruct (lrecv s); [reflexivity|discriminate].
        -- apply H6; discriminate.
        -- left. specialize (H6 ltac:(discriminate)). rewrite H6 in H4.
           rewrite H1. ssplit; try assumption; try reflexivity.
           destruct (lrecv s); [exact H4|discriminate].
  - (* the receive loop takes a request *)
    destruct (lpend s) as [|a p] eqn:Ep; [|discriminate].
    destruct (lc2e s) as [|f r] eqn:Ec; [discriminate|].
    destruct (lwait s) as [c|] eqn:Ew.
    + destruct Hw as (Hr & Ht & [(H1 & H2 & H3 & H4)|[(H1 & H2 & H3 & H4)|(H1 & H2 & H3 & H4)]]); try discriminate.
      injection H1 as -> ->.
      assert (Hc : cmd_ok c).
      { rewrite Forall_forall in Hok. apply Hok. rewrite Hcm. apply in_or_app. right. left. reflexivity. }
      destruct (emu_handles (lemu s) c (ldone s) Ha Hc H4) as (e' & He & Ha' & Hr').
      rewrite He in Hs. injection Hs as <-. unfold Inv; lsimpl. rewrite ?Ew. ssplit; try assumption.
      right. left. ssplit; try assumption; reflexivity.
    + destruct Hw as (H1 & _). discriminate.
  - (* the receive loop writes the acknowledge *)
    destruct (lpend s) as [|a p] eqn:Ep; [discriminate|]. injection Hs as <-.
    destruct (lwait s) as [c|] eqn:Ew.
    + destruct Hw as (Hr & Ht & [(H1 & H2 & H3 & H4)|[(H1 & H2 & H3 & H4)|(H1 & H2 & H3 & H4)]]); try discriminate.
      injection H2 as -> ->. unfold Inv; lsimpl. rewrite ?Ew. ssplit; try assumption.
      right. right. rewrite H3. ssplit; try assumption; reflexivity.
    + destruct Hw as (_ & H2 & _). discriminate.
  - (* Transmit in the data phase *)
    unfold data_phase in Hs. destruct (ltodo s) as [|c t] eqn:Et; [|discriminate].
    destruct (lwait s) as [c|] eqn:Ew; [discriminate|]. rewrite Hf in Hs. cbn [negb] in Hs.
    destruct Hw as (H1 & H2 & H3 & H4 & H5 & H6).
    assert (Hfin : forall fs e', ealive e' = true -> reflects e' (ldone s) -> Forall (fun f => validate f = VOk) fs ->
      Inv cmds {| ltodo := []; lwait := None; ldone := ldone s; lc2e := lc2e s; le2c := le2c s ++ fs; lemu := e';
                  lpend := lpend s; lrecv := lrecv s; ltx := ltx s ++ fs; lfail := false |}).
    { intros fs e' Ha' Hr' Hfs. unfold Inv; lsimpl. ssplit; try assumption; try reflexivity.
      - rewrite app_assoc, H4. reflexivity.
      - apply Forall_app. split; assumption.
      - intros C; contradiction C; reflexivity. }
    unfold estep in Hs. destruct (negb (measuring (lemu s))).
    + injection Hs as <-. apply Hfin; try assumption. constructor.
    + destruct (validate m) eqn:Ev; injection Hs as <-; apply Hfin; try assumption; try constructor; try assumption; try constructor.
Qed.

Theorem inv_run cmds sch : forall s s', Forall cmd_ok cmds -> Inv cmds s -> lrun s sch = Some s' -> Inv cmds s'.
Proof.
  induction sch as [|ch t IH]; intros s s' Hok Hi Hr; cbn [lrun] in Hr.
  - injection Hr as <-. exact Hi.
  - destruct (lstep s ch) as [s1|] eqn:E; [|discriminate].
    apply (IH s1 s' Hok); [exact (inv_step cmds s ch s1 Hok Hi E)|exact Hr].
Qed.

(* ---- every command completes under every schedule: a measure that every enabled step decreases by exactly one ---- *)
Definition mu (s : link) : nat :=
  (4 * length (ltodo s) + length (waiting (lwait s)) + 2 * length (lc2e s) + length (lpend s))%nat.

Theorem mu_init cmds : mu (link_init cmds) = (4 * length cmds)%nat.
Proof. unfold mu, link_init. cbn. lia. Qed.

Theorem mu_zero_iff cmds s : Inv cmds s -> (mu s = 0%nat <-> data_phase s = true).
Proof.
  intros (Hf & Ha & Hcm & Hw). unfold mu, data_phase. rewrite Hf.
  destruct (ltodo s) as [|c t]; destruct (lwait s) as [c'|]; cbn [length waiting negb]; split; intros H; try discriminate; try lia.
  all: try reflexivity.
  destruct Hw as (H1 & H2 & _). rewrite H1, H2. reflexivity.
Qed.

Theorem mu_step cmds s ch s' : Forall cmd_ok cmds -> Inv cmds s -> lstep s ch = Some s' -> data_phase s = false ->
  (mu s' + 1 = mu s)%nat.
Proof.
  intros Hok (Hf & Ha & Hcm & Hw) Hs Hd.
  destruct ch as [| | |m]; unfold lstep in Hs.
  - rewrite Hf in Hs. destruct (lwait s) as [c|] eqn:Ew.
    + destruct Hw as (Hr & Ht & [(H1 & H2 & H3 & H4)|[(H1 & H2 & H3 & H4)|(H1 & H2 & H3 & H4)]]);
        rewrite H3 in Hs; try discriminate.
      destruct (ack_accepted c) as [Hv Hi]. rewrite Hv, Hi, cmd_ack_range, Z.eqb_refl in Hs.
      injection Hs as <-. unfold mu; lsimpl. rewrite Ew, H1, H2. cbn. lia.
    + destruct (ltodo s) as [|c t] eqn:Et.
      * unfold data_phase in Hd. rewrite Et, Ew, Hf in Hd. discriminate.
      * injection Hs as <-. unfold mu; lsimpl. rewrite Ew, Et, app_length. cbn. lia.
  - destruct (lpend s) as [|a p] eqn:Ep; [|discriminate].
    destruct (lc2e s) as [|f r] eqn:Ec; [discriminate|].
    destruct (lwait s) as [c|] eqn:Ew; [|destruct Hw as (H1 & _); discriminate].
    destruct Hw as (Hr & Ht & [(H1 & H2 & H3 & H4)|[(H1 & H2 & H3 & H4)|(H1 & H2 & H3 & H4)]]); try discriminate.
    injection H1 as -> ->.
    assert (Hc : cmd_ok c).
    { rewrite Forall_forall in Hok. apply Hok. rewrite Hcm. apply in_or_app. right. left. reflexivity. }
    destruct (emu_handles (lemu s) c (ldone s) Ha Hc H4) as (e' & He & _).
    rewrite He in Hs. injection Hs as <-. unfold mu; lsimpl. rewrite ?Ew, ?Ec, ?Ep. cbn [length waiting]. lia.
  - destruct (lpend s) as [|a p] eqn:Ep; [discriminate|]. injection Hs as <-. unfold mu; lsimpl. rewrite ?Ep. cbn [length]. lia.
  - unfold data_phase in *. destruct (ltodo s); [|discriminate]. destruct (lwait s); [discriminate|]. rewrite Hd in Hs. discriminate.
Qed.

(* no deadlock: while a command is outstanding some step is enabled (and by mu_step it makes progress) *)
Theorem progress cmds s : Inv cmds s -> data_phase s = false ->
  exists ch, (ch = ChClient \/ ch = ChEmuRecv \/ ch = ChEmuAck) /\ lstep s ch <> None.
Proof.
  intros (Hf & Ha & Hcm & Hw) Hd. destruct (lwait s) as [c|] eqn:Ew.
  - destruct Hw as (Hr & Ht & [(H1 & H2 & H3 & H4)|[(H1 & H2 & H3 & H4)|(H1 & H2 & H3 & H4)]]).
    + exists ChEmuRecv. split; [tauto|]. unfold lstep. rewrite H2, H1. destruct (estep _ _). discriminate.
    + exists ChEmuAck. split; [tauto|]. unfold lstep. rewrite H2. discriminate.
    + exists ChClient. split; [tauto|]. unfold lstep. rewrite Hf, Ew, H3.
      destruct (ack_accepted c) as [Hv Hi]. rewrite Hv, Hi, cmd_ack_range, Z.eqb_refl. discriminate.
  - destruct (ltodo s) as [|c t] eqn:Et.
    + unfold data_phase in Hd. rewrite Et, Ew, Hf in Hd. discriminate.
    + exists ChClient. split; [tauto|]. unfold lstep. rewrite Hf, Ew, Et. discriminate.
Qed.

(* every schedule: after k enabled steps of the command phase exactly 4n - k remain; when none remains every command
   has returned successfully, in order, and the emulator reflects the whole sequence *)
Theorem schedule_progress cmds : Forall cmd_ok cmds -> forall sch s s', Inv cmds s -> lrun s sch = Some s' ->
  (length sch <= mu s)%nat -> mu s' = (mu s - length sch)%nat.
Proof.
  intros Hok. induction sch as [|ch t IH]; intros s s' Hi Hr Hl; cbn [lrun length] in *.
  - injection Hr as <-. lia.
  - destruct (lstep s ch) as [s1|] eqn:E; [|discriminate].
    assert (Hd : data_phase s = false).
    { destruct (data_phase s) eqn:D; [|reflexivity]. apply (mu_zero_iff cmds s Hi) in D. lia. }
    pose proof (mu_step cmds s ch s1 Hok Hi E Hd) as Hm.
    rewrite (IH s1 s' (inv_step cmds s ch s1 Hok Hi E) Hr) by lia. lia.
Qed.

Theorem completed_state cmds s : Inv cmds s -> data_phase s = true ->
  lfail s = false /\ ldone s = cmds /\ emode (lemu s) = mode_after cmds /\ econf (lemu s) = conf_after [] cmds.
Proof.
  intros (Hf & Ha & Hcm & Hw) Hd. unfold data_phase in Hd.
  destruct (ltodo s) eqn:Et; [|discriminate]. destruct (lwait s) eqn:Ew; [discriminate|].
  cbn in Hcm. rewrite app_nil_r in Hcm. subst cmds. destruct Hw as (_ & _ & [Hm Hc] & _). ssplit; try assumption; reflexivity.
Qed.

(* at every return point of a command, under every schedule, the emulator reflects exactly the commands returned *)
Theorem reflected_on_return cmds sch s : Forall cmd_ok cmds -> lrun (link_init cmds) sch = Some s -> lwait s = None ->
  lfail s = false /\ (exists rest, cmds = ldone s ++ rest) /\
  emode (lemu s) = mode_after (ldone s) /\ econf (lemu s) = conf_after [] (ldone s).
Proof.
  intros Hok Hr Hw. pose proof (inv_run cmds sch _ _ Hok (inv_init cmds) Hr) as (Hf & Ha & Hcm & Hi).
  rewrite Hw in Hi, Hcm. destruct Hi as (_ & _ & [Hm Hc] & _). ssplit; try assumption. exists (ltodo s). exact Hcm.
Qed.

(* the data path: whatever Transmit wrote is what the client has received so far followed by what is in flight, in
   order; every such frame passes validation, so Receive returns it without error *)
Theorem data_in_order cmds sch s : Forall cmd_ok cmds -> lrun (link_init cmds) sch = Some s -> data_phase s = true ->
  lrecv s ++ le2c s = ltx s /\ Forall (fun f => validate f = VOk) (ltx s) /\ lfail s = false.
Proof.
  intros Hok Hr Hd. pose proof (inv_run cmds sch _ _ Hok (inv_init cmds) Hr) as (Hf & Ha & Hcm & Hi).
  unfold data_phase in Hd. destruct (ltodo s); [|discriminate]. destruct (lwait s); [discriminate|].
  destruct Hi as (_ & _ & _ & H4 & H5 & _). ssplit; assumption.
Qed.

(* Transmit in the data phase: a valid message is appended exactly once, unchanged, iff the last command was go-to-measurement *)
Theorem transmit_in_data_phase cmds s m s' : Inv cmds s -> lstep s (ChTx m) = Some s' ->
  ltx s' = ltx s ++ (if (mode_after (ldone s) =? mid_meas) && (match validate m with VOk => true | _ => false end) then [m] else []).
Proof.
  intros (Hf & Ha & Hcm & Hw) Hs. unfold lstep in Hs. destruct (data_phase s) eqn:Hd; [|discriminate].
  unfold data_phase in Hd. destruct (ltodo s); [|discriminate]. destruct (lwait s); [discriminate|].
  destruct Hw as (_ & _ & [Hm _] & _). unfold estep, measuring in Hs. rewrite Hm in Hs.
  destruct (mode_after (ldone s) =? mid_meas); cbn [negb andb] in *.
  - destruct (validate m); injection Hs as <-; cbn; rewrite ?app_nil_r; reflexivity.
  - injection Hs as <-. cbn. rewrite app_nil_r. reflexivity.
Qed.

(* ---- MarshalMessage: exactly the identifiers of the configuration, the last matching setting wins ---- *)
Definition stype (s : setting) : Z := let '(t, _, _, _) := s in t.
Definition sid (s : setting) : Z := let '(t, c, p, _) := s in Gen.Funcs.f_DataIdentifier_Uint16 t c p.

Lemma find_app_local {A} (f : A -> bool) a b : find f (a ++ b) = match find f a with Some x => Some x | None => find f b end.
Proof. induction a as [|x a IH]; [reflexivity|]. cbn [app find]. destruct (f x); [reflexivity|exact IH]. Qed.

Lemma marshal_fold dt conf : forall acc,
  fold_left (fun acc (st : setting) => let '(t, c, p, _) := st in
                                       if t =? dt then Some (Gen.Funcs.f_DataIdentifier_Uint16 t c p) else acc) conf acc =
  match find (fun s => stype s =? dt) (rev conf) with Some s => Some (sid s) | None => acc end.
Proof.
  induction conf as [|st t IH]; intros acc; [reflexivity|].
  cbn [fold_left rev]. rewrite IH, find_app_local. destruct (find _ (rev t)); [reflexivity|].
  destruct st as [[[ty c] p] f]. cbn [find stype sid]. destruct (ty =? dt); reflexivity.
Qed.

Theorem marshal_id_spec e dt :
  marshal_id e dt = match find (fun s => stype s =? dt) (rev (econf e)) with Some s => Some (sid s) | None => None end.
Proof. unfold marshal_id, estep. cbn [fst]. apply marshal_fold. Qed.

(* refused exactly when no setting has the type *)
Theorem marshal_refuses_iff_absent e dt : marshal_id e dt = None <-> (forall s, In s (econf e) -> stype s <> dt).
Proof.
  rewrite marshal_id_spec. split.
  - intros H s Hin Heq. destruct (find _ (rev (econf e))) eqn:F; [discriminate|].
    pose proof (find_none _ _ F s (proj1 (in_rev _ _) Hin)) as Hn. cbv beta in Hn.
    apply Z.eqb_neq in Hn. contradiction.
  - intros H. destruct (find _ (rev (econf e))) as [s|] eqn:F; [|reflexivity].
    apply find_some in F. destruct F as [Hin Heq]. apply in_rev in Hin. apply Z.eqb_eq in Heq. contradiction (H s Hin Heq).
Qed.

(* accepted: with an identifier of the configuration for that type; each type at most once: exactly that setting's *)
Theorem marshal_uses_configured_id e dt w : marshal_id e dt = Some w ->
  exists s, In s (econf e) /\ stype s = dt /\ w = sid s.
Proof.
  rewrite marshal_id_spec. destruct (find _ (rev (econf e))) as [s|] eqn:F; [|discriminate].
  intros E. injection E as <-. apply find_some in F. destruct F as [Hin Heq]. exists s. split; [apply in_rev; exact Hin|].
  split; [apply Z.eqb_eq; exact Heq|reflexivity].
Qed.

Theorem marshal_unique_setting e s : NoDup (map stype (econf e)) -> In s (econf e) -> marshal_id e (stype s) = Some (sid s).
Proof.
  intros Hnd Hin. destruct (marshal_id e (stype s)) as [w|] eqn:E.
  - destruct (marshal_uses_configured_id e _ w E) as (s' & Hin' & Ht & ->).
    assert (s' = s); [|subst; reflexivity].
    clear E. induction (econf e) as [|x l IH]; [contradiction|]. cbn [map] in Hnd. inversion Hnd as [|? ? Hx Hl]; subst.
    destruct Hin as [->|Hin], Hin' as [->|Hin']; try reflexivity.
    + contradiction Hx. rewrite <- Ht. apply in_map. exact Hin'.
    + contradiction Hx. rewrite Ht. apply in_map. exact Hin.
    + apply IH; assumption.
  - pose proof (proj1 (marshal_refuses_iff_absent e (stype s)) E) as E'. contradiction (E' s Hin eq_refl).
Qed.
