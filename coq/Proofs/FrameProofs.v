(* Proofs about Model.Frame against Spec.FrameSpec (C02, C06). *)
Require Import Base.Bytes Base.Tactics Model.Frame Spec.FrameSpec.
Open Scope N_scope.

Lemma get_nthb m i : (i < length m)%nat -> get m i = Some (nthb m i).
Proof. intros H. unfold get, nthb. apply nth_error_nth'. exact H. Qed.

Lemma get_none m i : (length m <= i)%nat -> get m i = None.
Proof. intros H. unfold get. apply nth_error_None. exact H. Qed.

(* ---- checksum arithmetic ---- *)
Lemma fold_sumb l a : fold_left (fun a b => (a + b) mod 256) l (a mod 256) = (a + fold_right N.add 0 l) mod 256.
Proof.
  revert a; induction l as [|x l IH]; intros a; cbn [fold_left fold_right].
  - rewrite N.add_0_r. reflexivity.
  - rewrite N.add_mod_idemp_l by discriminate. rewrite IH. f_equal. lia.
Qed.

Lemma sumb_spec l : sumb l = fold_right N.add 0 l mod 256.
Proof. unfold sumb. change 0 with (0 mod 256) at 1. rewrite fold_sumb. reflexivity. Qed.

Lemma checksum_spec m : checksum m = sum_after_preamble m mod 256.
Proof. unfold checksum, sum_after_preamble. apply sumb_spec. Qed.

Lemma Neqb_false_neq a b : (a =? b) = false <-> a <> b.
Proof. apply N.eqb_neq. Qed.

Ltac bdestr :=
  match goal with
  | |- context [(?a =? ?b)%nat] => destruct (Nat.eqb_spec a b)
  | |- context [(?a <? ?b)%nat] => destruct (Nat.ltb_spec a b)
  | |- context [(?a <=? ?b)%nat] => destruct (Nat.leb_spec a b)
  | |- context [?a =? ?b] => destruct (N.eqb_spec a b)
  | |- context [?a <? ?b] => destruct (N.ltb_spec a b)
  | |- context [?a <=? ?b] => destruct (N.leb_spec a b)
  end.

(* validate in terms of nthb once the length is known *)
Lemma validate_unfold m : (5 <= length m)%nat ->
  validate m =
    if negb (nthb m 0 =? FA) then VErr VPreamble else
    if negb (nthb m 1 =? FF) then VErr VBusId else
    if nthb m 3 =? FF then
      if (length m <? 7)%nat then VErr VTooFewExt else
      let L := be16 (nthb m 4) (nthb m 5) in
      if (L <? min_ext) || (max_ext <? L) then VErr VExtLen else
      if negb (length m =? 6 + N.to_nat L + 1)%nat then VErr VSize else
      if negb (checksum m =? 0) then VErr VChecksum else VOk
    else
      if negb (length m =? 4 + N.to_nat (nthb m 3) + 1)%nat then VErr VSize else
      if negb (checksum m =? 0) then VErr VChecksum else VOk.
Proof.
  intros H. unfold validate, idx.
  destruct (Nat.ltb_spec (length m) 5); [lia|].
  rewrite !get_nthb by lia.
  destruct (negb (nthb m 0 =? FA)); [reflexivity|].
  destruct (negb (nthb m 1 =? FF)); [reflexivity|].
  destruct (nthb m 3 =? FF); [|reflexivity].
  destruct (Nat.ltb_spec (length m) 7); [reflexivity|].
  rewrite !get_nthb by lia. reflexivity.
Qed.

Theorem validate_never_oob m : validate m <> VOOB.
Proof.
  destruct (Nat.ltb_spec (length m) 5) as [H|H].
  - unfold validate. destruct (Nat.ltb_spec (length m) 5); [discriminate|lia].
  - rewrite validate_unfold by exact H. cbv zeta.
    repeat match goal with |- context [if ?c then _ else _] => destruct c end; discriminate.
Qed.

Theorem validate_iff_wf m : validate m = VOk <-> wf_frame m.
Proof.
  unfold wf_frame. destruct (Nat.ltb_spec (length m) 5) as [H|H].
  - split.
    + unfold validate. destruct (Nat.ltb_spec (length m) 5); [discriminate|lia].
    + intros [H5 _]. lia.
  - rewrite validate_unfold by exact H. cbv zeta. unfold FA, FF, min_ext, max_ext.
    rewrite checksum_spec.
    destruct (N.eqb_spec (nthb m 0) 250) as [E0|E0]; cbn [negb];
      [|split; [discriminate|intros (_ & ? & _); contradiction]].
    destruct (N.eqb_spec (nthb m 1) 255) as [E1|E1]; cbn [negb];
      [|split; [discriminate|intros (_ & _ & ? & _); contradiction]].
    destruct (N.eqb_spec (nthb m 3) 255) as [E3|E3].
    + destruct (Nat.ltb_spec (length m) 7) as [H7|H7];
        [split; [discriminate|intros (_ & _ & _ & _ & Hx & _); destruct (Hx E3); lia]|].
      destruct (N.ltb_spec (be16 (nthb m 4) (nthb m 5)) 255) as [Ha|Ha]; cbn [orb];
        [split; [discriminate|intros (_ & _ & _ & _ & Hx & _); destruct (Hx E3) as (_ & ? & _); lia]|].
      destruct (N.ltb_spec 2048 (be16 (nthb m 4) (nthb m 5))) as [Hb|Hb];
        [split; [discriminate|intros (_ & _ & _ & _ & Hx & _); destruct (Hx E3) as (_ & ? & _); lia]|].
      destruct (Nat.eqb_spec (length m) (6 + N.to_nat (be16 (nthb m 4) (nthb m 5)) + 1)) as [Hl|Hl]; cbn [negb];
        [|split; [discriminate|intros (_ & _ & _ & _ & Hx & _); destruct (Hx E3) as (_ & _ & ?); lia]].
      destruct (N.eqb_spec (sum_after_preamble m mod 256) 0) as [Hc|Hc]; cbn [negb];
        [|split; [discriminate|intros (_ & _ & _ & _ & _ & ?); contradiction]].
      split; [intros _|reflexivity].
      repeat match goal with |- _ /\ _ => split end; try assumption; try lia; intros; try contradiction; try lia.
    + destruct (Nat.eqb_spec (length m) (4 + N.to_nat (nthb m 3) + 1)) as [Hl|Hl]; cbn [negb];
        [|split; [discriminate|intros (_ & _ & _ & Hx & _); specialize (Hx E3); lia]].
      destruct (N.eqb_spec (sum_after_preamble m mod 256) 0) as [Hc|Hc]; cbn [negb];
        [|split; [discriminate|intros (_ & _ & _ & _ & _ & ?); contradiction]].
      split; [intros _|reflexivity].
      repeat match goal with |- _ /\ _ => split end; try assumption; try lia; intros; try contradiction; try lia.
Qed.

Lemma wf_frameb_spec m : wf_frameb m = true <-> wf_frame m.
Proof.
  unfold wf_frameb, wf_frame.
  rewrite !andb_true_iff.
  destruct (N.eqb_spec (nthb m 3) 255) as [E3|E3].
  - rewrite !andb_true_iff, Nat.leb_le, !N.eqb_eq, Nat.leb_le, !N.leb_le, Nat.eqb_eq.
    split.
    + intros ((((H5 & H0) & H1) & (((H7 & Ha) & Hb) & Hl)) & Hc).
      repeat match goal with |- _ /\ _ => split end; try assumption; try lia; intros; try contradiction; try lia.
    + intros (H5 & H0 & H1 & _ & Hx & Hc). destruct (Hx E3) as (H7 & (Ha & Hb) & Hl).
      repeat match goal with |- _ /\ _ => split end; assumption.
  - rewrite Nat.leb_le, !N.eqb_eq, Nat.eqb_eq.
    split.
    + intros ((((H5 & H0) & H1) & Hl) & Hc).
      repeat match goal with |- _ /\ _ => split end; try assumption; try lia; intros; try contradiction; try lia.
    + intros (H5 & H0 & H1 & Hx & _ & Hc). specialize (Hx E3).
      repeat match goal with |- _ /\ _ => split end; assumption.
Qed.

Theorem accepted_iff_wfb m : accepted m = wf_frameb m.
Proof.
  unfold accepted. destruct (wf_frameb m) eqn:E.
  - apply wf_frameb_spec, validate_iff_wf in E. rewrite E. reflexivity.
  - destruct (validate m) eqn:V; try reflexivity.
    apply validate_iff_wf, wf_frameb_spec in V. congruence.
Qed.

(* ---- single-byte corruption ---- *)
Lemma sum_upd l i x : (i < length l)%nat ->
  fold_right N.add 0 (upd l i x) + nth i l 0 = fold_right N.add 0 l + x.
Proof.
  revert i; induction l as [|a l IH]; intros i H; cbn [length] in H; [lia|].
  destruct i as [|i]; cbn [upd fold_right nth].
  - lia.
  - specialize (IH i ltac:(lia)). lia.
Qed.

Lemma upd_length {A} (l : list A) i x : length (upd l i x) = length l.
Proof. revert i; induction l as [|a l IH]; intros [|i]; cbn [upd length]; auto. Qed.

Lemma nth_upd_same l i (x : N) : (i < length l)%nat -> nth i (upd l i x) 0 = x.
Proof. revert i; induction l as [|a l IH]; intros [|i] H; cbn [upd nth length] in *; try lia; auto. apply IH; lia. Qed.

Lemma tl_upd_S {A} (l : list A) i x : tl (upd l (S i) x) = upd (tl l) i x.
Proof. destruct l; reflexivity. Qed.

Lemma corrupt_arith S0 S1 x d :
  S1 + x = S0 + (x + d) mod 256 -> S0 mod 256 = 0 -> S1 mod 256 = 0 -> 1 <= d < 256 -> False.
Proof. intros. lia. Qed.

Theorem single_byte_corruption_rejected f i d :
  wf_frame f -> (i < length f)%nat -> 1 <= d < 256 ->
  validate (upd f i ((nth i f 0 + d) mod 256)) <> VOk.
Proof.
  intros Hwf Hi Hd Hv. apply validate_iff_wf in Hv.
  destruct Hwf as (H5 & H0 & _ & _ & _ & Hs). destruct Hv as (_ & H0' & _ & _ & _ & Hs').
  destruct i as [|i].
  - unfold nthb in *. rewrite nth_upd_same in H0' by exact Hi. rewrite H0 in H0'.
    assert (250 + d < 512) by lia.
    destruct (N.lt_ge_cases (250 + d) 256) as [Hlt|Hge].
    + rewrite N.mod_small in H0' by exact Hlt. lia.
    + assert ((250 + d) mod 256 = 250 + d - 256).
      { symmetry. apply (N.mod_unique _ _ 1); lia. }
      lia.
  - unfold sum_after_preamble in *. rewrite tl_upd_S in Hs'.
    assert (Hi' : (i < length (tl f))%nat) by (destruct f; cbn [tl length] in *; lia).
    pose proof (sum_upd (tl f) i ((nth (S i) f 0 + d) mod 256) Hi') as E.
    assert (Hn : nth i (tl f) 0 = nth (S i) f 0) by (destruct f; [cbn in Hi; lia|reflexivity]).
    unfold byte in *. rewrite Hn in E.
    exact (corrupt_arith _ _ _ _ E Hs Hs' Hd).
Qed.

(* ---- accessors of an accepted frame ---- *)
Definition hdr_len (m : bytes) : nat := if nthb m 3 =? 255 then 6%nat else 4%nat.
Definition decl_len (m : bytes) : N := if nthb m 3 =? 255 then be16 (nthb m 4) (nthb m 5) else nthb m 3.

Lemma wf_frame_len m : wf_frame m -> length m = (hdr_len m + N.to_nat (decl_len m) + 1)%nat.
Proof.
  intros (H5 & H0 & H1 & Hstd & Hext & Hs). unfold hdr_len, decl_len.
  destruct (N.eqb_spec (nthb m 3) 255) as [E3|E3].
  - destruct (Hext E3) as (_ & _ & ->). lia.
  - rewrite (Hstd E3). lia.
Qed.

Lemma sub_length d lo n : (lo + n <= length d)%nat -> length (sub d lo n) = n.
Proof. intros H. unfold sub. rewrite firstn_length, skipn_length. lia. Qed.

Theorem accessors_in_bounds m : validate m = VOk ->
  identifier m = Some (nthb m 2) /\
  is_extended m = Some (nthb m 3 =? 255) /\
  msg_length m = Some (decl_len m) /\
  msg_data m = Some (sub m (hdr_len m) (N.to_nat (decl_len m))) /\
  length (sub m (hdr_len m) (N.to_nat (decl_len m))) = N.to_nat (decl_len m) /\
  sub m (hdr_len m) (N.to_nat (decl_len m)) = payload_of m /\
  is_error m = Some ((nthb m 2 =? mid_error) && negb (nthb m 3 =? 255) && (decl_len m =? 1)) /\
  error_code m = Some (if (nthb m 2 =? mid_error) && negb (nthb m 3 =? 255) && (decl_len m =? 1) then nthb m 4 else 0).
Proof.
  intros Hv. apply validate_iff_wf in Hv. pose proof (wf_frame_len m Hv) as Hlen.
  destruct Hv as (H5 & H0 & H1 & Hstd & Hext & Hs).
  assert (Hid : identifier m = Some (nthb m 2)) by (unfold identifier; apply get_nthb; lia).
  assert (Hie : is_extended m = Some (nthb m 3 =? 255)).
  { unfold is_extended. rewrite get_nthb by lia. reflexivity. }
  assert (Hml : msg_length m = Some (decl_len m)).
  { unfold msg_length, decl_len. rewrite Hie. destruct (N.eqb_spec (nthb m 3) 255) as [E3|E3].
    - destruct (Hext E3) as (H7 & _). rewrite !get_nthb by lia. reflexivity.
    - apply get_nthb; lia. }
  assert (Hmd : msg_data m = Some (sub m (hdr_len m) (N.to_nat (decl_len m)))).
  { unfold msg_data. rewrite Hie, Hml. unfold hdr_len in *.
    destruct (nthb m 3 =? 255);
      match goal with |- context [(?a <=? ?b)%nat] => destruct (Nat.leb_spec a b); [reflexivity|lia] end. }
  assert (Her : is_error m = Some ((nthb m 2 =? mid_error) && negb (nthb m 3 =? 255) && (decl_len m =? 1))).
  { unfold is_error. rewrite Hid, Hie, Hml. reflexivity. }
  repeat match goal with |- _ /\ _ => split end; try assumption.
  - apply sub_length. lia.
  - unfold payload_of, hdr_len, decl_len in *. destruct (nthb m 3 =? 255); f_equal; lia.
  - unfold error_code. rewrite Her.
    destruct ((nthb m 2 =? mid_error) && negb (nthb m 3 =? 255) && (decl_len m =? 1)); [|reflexivity].
    apply get_nthb; lia.
Qed.

Theorem render_total m : render m <> None.
Proof.
  unfold render. destruct (validate m) eqn:V; [|discriminate|exact (fun _ => validate_never_oob m V)].
  destruct (accessors_in_bounds m V) as (Hid & _ & _ & Hmd & _ & _ & Her & Hec).
  rewrite Her, Hid, Hec, Hmd. destruct (_ && _ && _); discriminate.
Qed.

(* ---- NewMessage (C06) ---- *)
Lemma sum_app l1 l2 : fold_right N.add 0 (l1 ++ l2) = fold_right N.add 0 l1 + fold_right N.add 0 l2.
Proof. induction l1 as [|a l IH]; cbn [app fold_right]; lia. Qed.

Lemma sub_app_mid (h p t : bytes) : sub (h ++ p ++ t) (length h) (length p) = p.
Proof.
  unfold sub. rewrite skipn_app, skipn_all, Nat.sub_diag. cbn [skipn app].
  rewrite firstn_app, firstn_all, Nat.sub_diag. cbn [firstn]. apply app_nil_r.
Qed.

Definition nm_hdr (mid : byte) (n : N) : bytes :=
  if min_ext <=? n then [FA; FF; mid; FF; (n / 256) mod 256; n mod 256] else [FA; FF; mid; n].

Lemma new_message_shape mid p :
  new_message mid p = nm_hdr mid (N.of_nat (length p)) ++ p ++
     [(256 - sumb (tl (nm_hdr mid (N.of_nat (length p)) ++ p))) mod 256].
Proof. unfold new_message, nm_hdr. rewrite <- app_assoc. reflexivity. Qed.

Theorem new_message_wf mid p : (length p <= 2048)%nat ->
  let m := new_message mid p in
  wf_frame m /\ validate m = VOk /\
  identifier m = Some mid /\ msg_length m = Some (N.of_nat (length p)) /\ msg_data m = Some p /\
  is_extended m = Some (255 <=? N.of_nat (length p)) /\
  checksum m = 0 /\
  length m = if (255 <=? N.of_nat (length p))%N then (7 + length p)%nat else (5 + length p)%nat.
Proof.
  intros Hlen m.
  assert (Hwf : wf_frame m).
  { unfold m. rewrite new_message_shape. unfold nm_hdr, min_ext, wf_frame, sum_after_preamble, FA, FF.
    set (n := N.of_nat (length p)) in *. assert (Hn : n <= 2048) by lia.
    destruct (N.leb_spec 255 n) as [Hx|Hx].
    - cbn [app tl]. unfold nthb. cbn [nth length].
      rewrite !app_length. cbn [length].
      assert (Hbe : be16 ((n / 256) mod 256) (n mod 256) = n) by (unfold be16; lia).
      rewrite Hbe. ssplit; try reflexivity; try lia.
      cbn [fold_right]. rewrite sum_app. cbn [fold_right]. rewrite sumb_spec. cbn [fold_right].
        set (S := fold_right N.add 0 p). lia.
    - cbn [app tl]. unfold nthb. cbn [nth length].
      rewrite !app_length. cbn [length].
      ssplit; try reflexivity; try lia.
      cbn [fold_right]. rewrite sum_app. cbn [fold_right]. rewrite sumb_spec. cbn [fold_right].
      set (S := fold_right N.add 0 p). lia. }
  pose proof (proj2 (validate_iff_wf m) Hwf) as Hv.
  destruct (accessors_in_bounds m Hv) as (Hid & Hie & Hml & Hmd & _ & _ & _ & _).
  assert (H3 : nthb m 3 = if 255 <=? N.of_nat (length p) then 255 else N.of_nat (length p)).
  { unfold m. rewrite new_message_shape. unfold nm_hdr, min_ext. destruct (255 <=? N.of_nat (length p)); reflexivity. }
  assert (Hdl : decl_len m = N.of_nat (length p)).
  { unfold decl_len. rewrite H3. destruct (N.leb_spec 255 (N.of_nat (length p))) as [Hx|Hx].
    - cbn [N.eqb Pos.eqb]. unfold m. rewrite new_message_shape. unfold nm_hdr, min_ext.
      destruct (N.leb_spec 255 (N.of_nat (length p))); [|lia]. unfold nthb. cbn [app nth]. unfold be16. lia.
    - destruct (N.eqb_spec (N.of_nat (length p)) 255); [lia|reflexivity]. }
  assert (Hhl : hdr_len m = length (nm_hdr mid (N.of_nat (length p)))).
  { unfold hdr_len. rewrite H3. unfold nm_hdr, min_ext. destruct (N.leb_spec 255 (N.of_nat (length p))) as [Hx|Hx].
    - reflexivity.
    - destruct (N.eqb_spec (N.of_nat (length p)) 255); [lia|reflexivity]. }
  ssplit; try assumption.
  - rewrite Hid. f_equal. unfold m. rewrite new_message_shape. unfold nm_hdr. destruct (min_ext <=? _); reflexivity.
  - rewrite Hml, Hdl. reflexivity.
  - rewrite Hmd, Hdl, Hhl, Nat2N.id. f_equal. unfold m. rewrite new_message_shape. apply sub_app_mid.
  - rewrite Hie, H3. destruct (N.leb_spec 255 (N.of_nat (length p))) as [Hx|Hx]; [reflexivity|].
    destruct (N.eqb_spec (N.of_nat (length p)) 255); [lia|reflexivity].
  - rewrite checksum_spec. destruct Hwf as (_ & _ & _ & _ & _ & Hs). exact Hs.
  - rewrite (wf_frame_len m Hwf), Hdl, Hhl, Nat2N.id. unfold nm_hdr, min_ext.
    destruct (255 <=? N.of_nat (length p)); cbn [length]; lia.
Qed.

Theorem is_error_iff m : validate m = VOk ->
  is_error m = Some ((nthb m 2 =? mid_error) && (length (payload_of m) =? 1)%nat) /\
  error_code m = Some (if (nthb m 2 =? mid_error) && (length (payload_of m) =? 1)%nat then nthb (payload_of m) 0 else 0).
Proof.
  intros Hv. destruct (accessors_in_bounds m Hv) as (_ & _ & _ & _ & Hl & Hp & Her & Hec).
  pose proof (proj1 (validate_iff_wf m) Hv) as Hwf. pose proof (wf_frame_len m Hwf) as Hlen.
  destruct Hwf as (H5 & _ & _ & Hstd & Hext & _).
  rewrite <- Hp, Hl.
  assert (E : negb (nthb m 3 =? 255) && (decl_len m =? 1) = (N.to_nat (decl_len m) =? 1)%nat).
  { unfold decl_len. destruct (N.eqb_spec (nthb m 3) 255) as [E3|E3]; cbn [negb andb].
    - destruct (Hext E3) as (_ & ? & _). symmetry. apply Nat.eqb_neq. lia.
    - destruct (N.eqb_spec (nthb m 3) 1); destruct (Nat.eqb_spec (N.to_nat (nthb m 3)) 1); try reflexivity; lia. }
  split.
  - rewrite Her, <- andb_assoc, E. reflexivity.
  - rewrite Hec, <- andb_assoc, E. f_equal.
    destruct (nthb m 2 =? mid_error); cbn [andb]; [|reflexivity].
    destruct (Nat.eqb_spec (N.to_nat (decl_len m)) 1) as [E1|E1]; [|reflexivity].
    unfold hdr_len, decl_len in *. destruct (N.eqb_spec (nthb m 3) 255) as [E3|E3].
    + destruct (Hext E3) as (_ & ? & _). lia.
    + rewrite E1. unfold sub, nthb.
      do 5 (destruct m as [|? m]; [cbn [length] in *; lia|]). reflexivity.
Qed.
