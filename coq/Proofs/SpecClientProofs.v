(* Properties of the abstract client (Spec.ClientSpec).  Together with Proofs.ClientProofs.client_refines_spec
   they are properties of the model client under every read schedule. *)
From Coq Require Import Lia String.
Require Import Base.Bytes Base.ListX Model.Frame Model.Packet Model.Split Lib.Bufio Spec.FrameSpec Spec.StreamSpec Spec.Terminal
  Gen.Funcs Model.Client Spec.ClientSpec Spec.ClientOps
  Proofs.FrameProofs Proofs.PacketProofs Proofs.SegProofs Proofs.SegT Proofs.ScanThm1 Proofs.ClientProofs.
Open Scope nat_scope.

Ltac ssplit := repeat match goal with |- _ /\ _ => split end.

(* ---------- receive: tokens in order, then the terminal for ever (C10) ---------- *)
Definition classify (t : bytes) : recv_res := if wf_frameb t then ROk else RRejected.

Fixpoint receives (n : nat) (sc : sclient) : list recv_res * sclient :=
  match n with
  | O => ([], sc)
  | S k => let '(r, sc') := sreceive sc in let '(rs, sc'') := receives k sc' in (r :: rs, sc'')
  end.

Lemma receives_spec n : forall sc,
  fst (receives n sc) = map classify (firstn n (ssegs sc)) ++ repeat (RTerminal (sterm sc)) (n - length (ssegs sc)) /\
  ssegs (snd (receives n sc)) = skipn n (ssegs sc) /\ sterm (snd (receives n sc)) = sterm sc.
Proof.
  induction n as [|n IH]; intros sc; [cbn; ssplit; reflexivity|].
  cbn [receives]. destruct (sreceive sc) as [r sc'] eqn:E1. specialize (IH sc').
  destruct (receives n sc') as [rs sc''] eqn:E2. cbn [fst snd] in *. destruct IH as (I1 & I2 & I3).
  unfold sreceive in E1. destruct (ssegs sc) as [|t ts] eqn:Es.
  - injection E1 as <- <-. cbn [ssegs sterm] in *. rewrite I1, I2, I3.
    rewrite !firstn_nil, !skipn_nil. cbn [map app length]. rewrite !Nat.sub_0_r. ssplit; reflexivity.
  - injection E1 as <- <-. cbn [ssegs sterm] in *. rewrite I1, I2, I3.
    cbn [firstn map app length skipn]. ssplit; reflexivity.
Qed.

(* every complete frame of the prefix is delivered (accepted or rejected as it deserves), in order, the incomplete
   tail never; afterwards the terminal cause on that and every later receive *)
Theorem prefix_then_cause stream fin wplan n :
  fst (receives n (snew stream fin wplan)) =
    map classify (firstn n (fst (segT stream))) ++
    repeat (RTerminal (tterm (snd (segT stream)) fin)) (n - length (fst (segT stream))).
Proof.
  pose proof (receives_spec n (snew stream fin wplan)) as (H & _). unfold snew in *.
  destruct (segT stream) as [ts z]. exact H.
Qed.

(* a rejected frame does not prevent the frames after it from being received: it is just one element of the list *)
Corollary rejected_then_rest stream fin wplan a bad b :
  fst (segT stream) = a ++ bad :: b -> wf_frameb bad = false ->
  firstn (length a + 1 + length b) (fst (receives (length a + 1 + length b) (snew stream fin wplan)))
  = map classify a ++ RRejected :: map classify b.
Proof.
  intros Hs Hb. rewrite prefix_then_cause, Hs.
  assert (Hl : length (a ++ bad :: b) = length a + 1 + length b) by (rewrite app_length; cbn [length]; lia).
  rewrite <- Hl, firstn_all, Nat.sub_diag. cbn [repeat]. rewrite app_nil_r, map_app. cbn [map].
  unfold classify at 2. rewrite Hb.
  rewrite firstn_all2; [reflexivity|]. rewrite app_length, !map_length. cbn [length]. rewrite map_length. lia.
Qed.

(* ---------- scan: each packet once, in order, then false (C03) ---------- *)
Definition supported (p : bytes) : bool := match dispatch p with Some _ => decodable p | None => false end.

Fixpoint scans (n : nat) (sc : sclient) : list (bool * option bytes) * sclient :=
  match n with
  | O => ([], sc)
  | S k => let '(b, sc') := sscan sc in let '(rs, sc'') := scans k sc' in ((b, scurpkt sc') :: rs, sc'')
  end.

Lemma scans_spec n : forall sc, scur sc <> None ->
  fst (scans n sc) = map (fun p => (supported p, Some p)) (firstn n (spkts sc)) ++
                     repeat (false, match rev (firstn n (spkts sc)) with p :: _ => Some p | [] => scurpkt sc end) (n - length (spkts sc)).
Proof.
  induction n as [|n IH]; intros sc Hc; [reflexivity|].
  cbn [scans]. destruct (sscan sc) as [b sc'] eqn:E1.
  unfold sscan in E1. destruct (spkts sc) as [|p ps] eqn:Ep.
  - injection E1 as <- <-. specialize (IH sc Hc). rewrite Ep in IH. destruct (scans n sc) as [rs sc'']. cbn [fst] in *. rewrite IH.
    rewrite !firstn_nil. cbn [map app rev length]. rewrite !Nat.sub_0_r. reflexivity.
  - injection E1 as <- <-.
    match goal with |- context [scans n ?x] => specialize (IH x Hc); destruct (scans n x) as [rs sc''] end.
    cbn [fst snd spkts scurpkt] in *. rewrite IH. cbn [firstn map app length]. unfold supported at 2. f_equal.
    f_equal. replace (S n - S (length ps)) with (n - length ps) by lia. f_equal. f_equal. cbn [rev].
    destruct (rev (firstn n ps)) as [|q qs]; reflexivity.
Qed.

(* after receiving an accepted measurement message whose payload is a concatenation of packets, the scan steps
   visit exactly those packets, in wire order, each once; a step answers true exactly for the packets of
   supported type with complete data; afterwards every step answers false *)
Theorem scan_reports_packets stream fin wplan t rest ps n :
  fst (segT stream) = t :: rest -> wf_frameb t = true -> nthb t 2 = 54%N ->
  payload_of t = concat ps -> Forall wf_packet ps ->
  let sc := snd (sreceive (snew stream fin wplan)) in
  fst (scans n sc) = map (fun p => (supported p, Some p)) (firstn n ps) ++
                     repeat (false, match rev (firstn n ps) with p :: _ => Some p | [] => None end) (n - length ps).
Proof.
  intros Hs Hw Hid Hp Hps sc.
  assert (Hsc : scur sc = Some t /\ spkts sc = ps /\ scurpkt sc = None).
  { unfold sc, snew, sreceive. destruct (segT stream) as [ts z]. cbn [fst] in Hs. subst ts.
    cbn [ssegs snd scur spkts scurpkt]. rewrite Hw, Hid. cbn [andb N.eqb Pos.eqb].
    ssplit; try reflexivity. unfold packets_of. rewrite Hp. rewrite (walk_concat ps Hps). reflexivity. }
  destruct Hsc as (H1 & H2 & H3). rewrite scans_spec by (rewrite H1; discriminate). rewrite H2, H3. reflexivity.
Qed.

(* scanning terminates: at most one step per 3 payload bytes reports a packet *)
Theorem scan_steps_bounded payload : 3 * length (packets_of payload) <= length payload.
Proof.
  unfold packets_of. destruct (walk (S (length payload)) payload 0) as [ps j] eqn:E.
  destruct (walk_bound _ _ _ _ _ E ltac:(lia)) as [H1 H2]. cbn [fst]. lia.
Qed.

(* never stale: whatever happened before, a receive leaves no current packet, and the packets still to be
   scanned are packets of the frame just delivered (none if it was not an accepted measurement message) *)
Theorem no_stale_packet sc :
  let sc' := snd (sreceive sc) in
  scurpkt sc' = None /\
  (spkts sc' = [] \/ exists t, scur sc' = Some t /\ wf_frameb t = true /\ nthb t 2 = 54%N /\ spkts sc' = packets_of (payload_of t)).
Proof.
  unfold sreceive. destruct (ssegs sc) as [|t ts]; cbn [snd scurpkt spkts scur]; [split; [reflexivity|left; reflexivity]|].
  split; [reflexivity|]. destruct (wf_frameb t) eqn:Ew; [|left; reflexivity].
  destruct (N.eqb_spec (nthb t 2) 54) as [E|E]; cbn [andb]; [|left; reflexivity].
  right. exists t. ssplit; try reflexivity; assumption.
Qed.

(* only well-formed frames are reported as success or expose measurement data (C02, client clause) *)
Theorem only_wf_exposed sc :
  let '(r, sc') := sreceive sc in
  (r = ROk -> exists t, scur sc' = Some t /\ wf_frameb t = true) /\
  (spkts sc' <> [] -> r = ROk).
Proof.
  unfold sreceive. destruct (ssegs sc) as [|t ts]; [split; [discriminate|intros H; contradiction H; reflexivity]|].
  destruct (wf_frameb t) eqn:Ew; cbn [andb spkts scur].
  - split; [intros _; exists t; split; [reflexivity|exact Ew]|reflexivity].
  - split; [discriminate|intros H; contradiction H; reflexivity].
Qed.

(* ---------- commands (C08) ---------- *)
Lemma sreceive_until_spec us : forall f sc a rest unt,
  ssegs sc = us ++ a :: rest ->
  Forall (fun u => wf_frameb u = true /\ nthb u 2 <> unt) us -> wf_frameb a = true -> nthb a 2 = unt ->
  length us < f ->
  let '(r, sc') := sreceive_until f sc unt in
  r = CmdOk /\ scur sc' = Some a /\ ssegs sc' = rest /\ swritten sc' = swritten sc /\ sterm sc' = sterm sc /\
  spkts sc' = (if (unt =? 54)%N then packets_of (payload_of a) else []) /\ scurpkt sc' = None.
Proof.
  induction us as [|u us IH]; intros f sc a rest unt Hs Hus Ha Hid Hf.
  - destruct f as [|f]; [lia|]. cbn [sreceive_until app] in *. unfold sreceive. rewrite Hs, Ha.
    cbn [scur]. rewrite Hid, N.eqb_refl. cbn [andb ssegs swritten sterm spkts scurpkt scur]. ssplit; reflexivity.
  - destruct f as [|f]; [cbn in Hf; lia|]. cbn [sreceive_until app] in *. unfold sreceive at 1. rewrite Hs.
    inversion_clear Hus as [|? ? [Hu1 Hu2] Hus']. rewrite Hu1. cbn [scur].
    destruct (N.eqb_spec (nthb u 2) unt) as [E|E]; [contradiction|].
    match goal with |- context [sreceive_until f ?x unt] =>
      pose proof (IH f x a rest unt eq_refl Hus' Ha Hid ltac:(cbn in Hf; lia)) as H; destruct (sreceive_until f x unt) as [r sc'] end.
    cbn [swritten sterm] in H. exact H.
Qed.

Lemma sreceive_until_noack us : forall f sc unt,
  ssegs sc = us -> Forall (fun u => wf_frameb u = true /\ nthb u 2 <> unt) us -> length us < f ->
  let '(r, sc') := sreceive_until f sc unt in
  r = CmdRecvErr (RTerminal (sterm sc)) /\ ssegs sc' = [] /\ swritten sc' = swritten sc.
Proof.
  induction us as [|u us IH]; intros f sc unt Hs Hus Hf.
  - destruct f as [|f]; [lia|]. cbn [sreceive_until]. unfold sreceive. rewrite Hs. cbn. ssplit; reflexivity.
  - destruct f as [|f]; [cbn in Hf; lia|]. cbn [sreceive_until]. unfold sreceive at 1. rewrite Hs.
    inversion_clear Hus as [|? ? [Hu1 Hu2] Hus']. rewrite Hu1. cbn [scur].
    destruct (N.eqb_spec (nthb u 2) unt) as [E|E]; [contradiction|].
    match goal with |- context [sreceive_until f ?x unt] =>
      pose proof (IH f x unt eq_refl Hus' ltac:(cbn in Hf; lia)) as H; destruct (sreceive_until f x unt) as [r sc'] end.
    cbn [swritten sterm] in H. exact H.
Qed.

(* one exact request; consume up to and including the first acknowledge, skipping unrelated valid frames;
   that acknowledge is then the current message and the next receive yields the frame after it *)
Theorem command_consumes_to_ack sc frame ack us a rest :
  (swplan sc = [] \/ exists pl, swplan sc = true :: pl) ->
  ssegs sc = us ++ a :: rest ->
  Forall (fun u => wf_frameb u = true /\ nthb u 2 <> ack) us -> wf_frameb a = true -> nthb a 2 = ack ->
  let '(r, sc') := scommand sc frame ack in
  r = CmdOk /\ swritten sc' = swritten sc ++ [frame] /\ scur sc' = Some a /\ ssegs sc' = rest /\
  spkts sc' = (if (ack =? 54)%N then packets_of (payload_of a) else []) /\
  fst (sreceive sc') = match rest with [] => RTerminal (sterm sc) | n :: _ => classify n end.
Proof.
  intros Hwp Hs Hus Ha Hid. unfold scommand.
  assert (Hlen : length us < S (length (ssegs sc))) by (rewrite Hs, app_length; cbn [length]; lia).
  assert (Hgo : forall wp, let sc1 := {| ssegs := ssegs sc; sterm := sterm sc; scur := scur sc; scurok := scurok sc; spkts := spkts sc;
                                          scurpkt := scurpkt sc; swritten := swritten sc ++ [frame]; swplan := wp |} in
     let '(r, sc') := sreceive_until (S (length (ssegs sc))) sc1 ack in
     r = CmdOk /\ swritten sc' = swritten sc ++ [frame] /\ scur sc' = Some a /\ ssegs sc' = rest /\
     spkts sc' = (if (ack =? 54)%N then packets_of (payload_of a) else []) /\
     fst (sreceive sc') = match rest with [] => RTerminal (sterm sc) | n :: _ => classify n end).
  { intros wp sc1.
    pose proof (sreceive_until_spec us (S (length (ssegs sc))) sc1 a rest ack Hs Hus Ha Hid Hlen) as H.
    destruct (sreceive_until _ sc1 ack) as [r sc']. destruct H as (H1 & H2 & H3 & H4 & H5 & H6 & H7).
    ssplit; try assumption. unfold sreceive. rewrite H3, H5. destruct rest as [|n ns]; [reflexivity|].
    cbn [fst]. unfold classify. destruct (wf_frameb n); reflexivity. }
  destruct Hwp as [Hwp|[pl Hwp]]; rewrite Hwp; cbn [tl]; apply Hgo.
Qed.

Theorem write_failure_consumes_nothing sc frame ack pl : swplan sc = false :: pl ->
  let '(r, sc') := scommand sc frame ack in
  r = CmdWriteErr /\ ssegs sc' = ssegs sc /\ swritten sc' = swritten sc /\ scur sc' = scur sc.
Proof. intros H. unfold scommand. rewrite H. ssplit; reflexivity. Qed.

Theorem no_ack_fails_with_terminal sc frame ack :
  (swplan sc = [] \/ exists pl, swplan sc = true :: pl) ->
  Forall (fun u => wf_frameb u = true /\ nthb u 2 <> ack) (ssegs sc) ->
  fst (scommand sc frame ack) = CmdRecvErr (RTerminal (sterm sc)).
Proof.
  intros Hwp Hus. unfold scommand.
  assert (Hgo : forall wp, fst (sreceive_until (S (length (ssegs sc)))
      {| ssegs := ssegs sc; sterm := sterm sc; scur := scur sc; scurok := scurok sc; spkts := spkts sc;
         scurpkt := scurpkt sc; swritten := swritten sc ++ [frame]; swplan := wp |} ack) = CmdRecvErr (RTerminal (sterm sc))).
  { intros wp.
    match goal with |- context [sreceive_until ?f ?x ack] =>
      pose proof (sreceive_until_noack (ssegs sc) f x ack eq_refl Hus ltac:(lia)) as H; destruct (sreceive_until f x ack) as [r sc'] end.
    destruct H as (H1 & _). exact H1. }
  destruct Hwp as [Hwp|[pl Hwp]]; rewrite Hwp; cbn [tl]; apply Hgo.
Qed.

(* ---------- totality (C09) ---------- *)
Lemma sreceive_no_panic sc : fst (sreceive sc) <> RPanic.
Proof. unfold sreceive. destruct (ssegs sc); [discriminate|]. cbn [fst]. destruct (wf_frameb _); discriminate. Qed.

Lemma sreceive_until_no_panic f : forall sc until, length (ssegs sc) < f ->
  fst (sreceive_until f sc until) <> CmdRecvErr RPanic.
Proof.
  induction f as [|f IH]; intros sc until Hf; [lia|]. cbn [sreceive_until].
  unfold sreceive at 1. destruct (ssegs sc) as [|t ts] eqn:Es; [cbn; discriminate|].
  destruct (wf_frameb t); cbn [scur]; [|cbn; discriminate].
  destruct (nthb t 2 =? until)%N; [cbn; discriminate|]. apply IH. cbn [ssegs length] in *. lia.
Qed.

(* the abstract client never asks for a panic: wherever it constrains an observation, that observation is a value *)
Theorem spec_never_panics sc o : fst (s_step sc o) <> Some BPanic.
Proof.
  destruct o as [| | | | | | |name payload]; cbn [s_step].
  - pose proof (sreceive_no_panic sc) as H. destruct (sreceive sc) as [r sc']. cbn [fst] in *.
    destruct r; cbn; try discriminate. contradiction.
  - destruct (scur sc); [destruct (sscan sc)|]; cbn; discriminate.
  - cbn; discriminate.
  - destruct (scur sc); cbn; discriminate.
  - destruct (scurpkt sc); cbn; discriminate.
  - destruct (scurpkt sc); cbn; discriminate.
  - destruct (scurpkt sc); cbn; discriminate.
  - destruct (lookup_spec_cmd name) as [[req ack]|]; [|cbn; discriminate].
    destruct (scommand sc _ _). cbn. discriminate.
Qed.

(* number of frames: one receive per 5 stream bytes suffices (plus the terminal ones) *)
Lemma segT_count5 x : forall l z, segT x = (l, z) -> 5 * length l <= length x.
Proof.
  assert (H : forall n x, length x <= n -> forall l z, segT x = (l, z) -> 5 * length l <= length x).
  { induction n as [|n IH]; intros y Hn l z.
    - destruct y; [|cbn in Hn; lia]. rewrite segT_unfold. cbn. destruct (maxtok <=? 0); intros E; injection E as <- _; cbn; lia.
    - rewrite segT_unfold. destruct (scan_messages y true) as [a [t|]] eqn:E.
      + destruct (scan_tok_bounds _ _ _ _ E) as [[Ha1 Ha2] _].
        destruct (maxtok <? length t); [intros E2; injection E2 as <- _; cbn; lia|].
        destruct (segT (skipn a y)) as [ts e] eqn:E3. intros E2; injection E2 as <- _.
        pose proof (IH (skipn a y) ltac:(rewrite skipn_length; lia) ts e E3) as Hl.
        rewrite skipn_length in Hl. cbn [length]. lia.
      + intros E2; injection E2 as <- _. cbn; lia. }
  intros l z. exact (H (length x) x (le_n _) l z).
Qed.

Theorem loop_bounds stream fin wplan :
  5 * length (ssegs (snew stream fin wplan)) <= length stream.
Proof. unfold snew. destruct (segT stream) as [ts z] eqn:E. cbn [ssegs]. exact (segT_count5 stream ts z E). Qed.

Lemma s_run_no_panic ops : forall sc, Forall (fun so => so <> Some BPanic) (s_run sc ops).
Proof.
  induction ops as [|o t IH]; intros sc; cbn [s_run].
  - constructor.
  - pose proof (spec_never_panics sc o) as Hp. destruct (s_step sc o) as [w sc']. cbn [fst] in Hp.
    constructor; [exact Hp|apply IH].
Qed.
