(* C12: advertised size = encoder size = decoder minimum; non-zero iff the client dispatches.
   All functions are the GENERATED ones; the statement is a complete sweep of the 65536 wire identifiers. *)
From Coq Require Import ZArith List String Bool Lia.
Require Import Base.GoInt Base.Sweep Spec.LayoutKinds Spec.LayoutSpec Gen.Funcs Gen.Layouts Spec.LayoutCheck Tie.LayoutsAgree.
Import ListNotations.
Open Scope Z_scope.

Definition size_ok (v : Z) : bool :=
  let '(t, c, p) := f_DataIdentifier_SetUint16 0 0 0 v in
  let ds := f_DataIdentifier_DataSize t c p in
  match lookup_dispatch t dispatch_table with
  | Some (_, ty) =>
      match enc_size_of ty p, dec_layout_of ty p, lookup_shape t spec_layouts with
      | Some es, Some l, Some sh => (ds =? es) && (ds =? layout_size l) && (ds =? spec_size sh p) && negb (ds =? 0) && (ds <? 256)
      | _, _, _ => false
      end
  | None => ds =? 0
  end.

Lemma size_sweep : forallb size_ok (zrange 65536) = true.
Proof. vm_compute. reflexivity. Qed.

Theorem sizes_agree v : 0 <= v < 65536 ->
  let '(t, c, p) := f_DataIdentifier_SetUint16 0 0 0 v in
  let ds := f_DataIdentifier_DataSize t c p in
  match lookup_dispatch t dispatch_table with
  | Some (_, ty) => exists es l sh, enc_size_of ty p = Some es /\ dec_layout_of ty p = Some l /\ lookup_shape t spec_layouts = Some sh /\
                    ds = es /\ ds = layout_size l /\ ds = spec_size sh p /\ ds <> 0
  | None => ds = 0
  end.
Proof.
  intros H. pose proof (sweep size_ok 65536 size_sweep v H) as G. unfold size_ok in G.
  destruct (f_DataIdentifier_SetUint16 0 0 0 v) as [[t c] p].
  destruct (lookup_dispatch t dispatch_table) as [[slot ty]|]; [|apply Z.eqb_eq; exact G].
  destruct (enc_size_of ty p) as [es|]; [|discriminate]. destruct (dec_layout_of ty p) as [l|]; [|discriminate].
  destruct (lookup_shape t spec_layouts) as [sh|]; [|discriminate].
  rewrite !andb_true_iff, !Z.eqb_eq, negb_true_iff, Z.eqb_neq in G. destruct G as ((((A & B) & C) & D) & _).
  exists es, l, sh. repeat split; assumption.
Qed.

Theorem nonzero_iff_dispatch v : 0 <= v < 65536 ->
  let '(t, c, p) := f_DataIdentifier_SetUint16 0 0 0 v in
  (f_DataIdentifier_DataSize t c p <> 0 <-> lookup_dispatch t dispatch_table <> None).
Proof.
  intros H. pose proof (sizes_agree v H) as G.
  destruct (f_DataIdentifier_SetUint16 0 0 0 v) as [[t c] p]. cbv zeta in G.
  destruct (lookup_dispatch t dispatch_table) as [[slot ty]|].
  - destruct G as (es & l & sh & _ & _ & _ & _ & _ & _ & Hn). split; [discriminate|intros _; exact Hn].
  - split; [intros Hx; contradiction|intros Hx; contradiction Hx; reflexivity].
Qed.
