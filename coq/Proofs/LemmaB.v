From Coq Require Import Lia.
Require Import Base.Bytes Model.Frame Model.Split Proofs.SplitProofs Proofs.SegProofs.
Open Scope nat_scope.

(* searching p ++ q when p together with the first byte of q has no header *)
Lemma find_hdr_app_none p q : find_hdr (p ++ firstn 1 q) = None ->
  find_hdr (p ++ q) = option_map (Nat.add (length p)) (find_hdr q).
Proof.
  induction p as [|a p IH]; intros H.
  - cbn. destruct (find_hdr q); reflexivity.
  - destruct p as [|b p'].
    + (* p = [a] *) cbn [app] in *. destruct q as [|c q']; [reflexivity|].
      cbn [firstn app] in H. rewrite find_hdr_cons2 in *.
      destruct ((a =? FA)%N && (c =? FF)%N); [discriminate|].
      cbn [length]. destruct (find_hdr (c :: q')); reflexivity.
    + cbn [app] in *. rewrite find_hdr_cons2 in *.
      destruct ((a =? FA)%N && (b =? FF)%N); [discriminate|].
      destruct (find_hdr (b :: p' ++ firstn 1 q)) eqn:E; [discriminate|].
      rewrite (IH eq_refl). cbn [length]. destruct (find_hdr q); reflexivity.
Qed.

Lemma last_is_FA_false_no_new_pair d x : find_hdr d = None -> last_is_FA d = false ->
  find_hdr (d ++ [x]) = None.
Proof.
  induction d as [|a d IH]; intros F L; [reflexivity|].
  destruct d as [|b d'].
  - cbn in L. cbn [app]. rewrite find_hdr_cons2. unfold last_is_FA in L. cbn in L. rewrite L. reflexivity.
  - cbn [app]. rewrite find_hdr_cons2 in *.
    destruct ((a =? FA)%N && (b =? FF)%N); [discriminate|].
    change (b :: d' ++ [x]) with ((b :: d') ++ [x]).
    destruct (find_hdr (b :: d')) eqn:E; [discriminate|].
    rewrite IH; [reflexivity|reflexivity|].
    unfold last_is_FA in *. cbn [rev] in *.
    destruct (rev d' ++ [b]) eqn:R; [destruct (rev d'); discriminate|].
    cbn [app] in L. exact L.
Qed.

Lemma segs_skip_prefix p q : find_hdr (p ++ firstn 1 q) = None -> segs (p ++ q) = segs q.
Proof.
  intros H. pose proof (find_hdr_app_none _ _ H) as F.
  destruct (find_hdr q) as [j|] eqn:Fq; cbn in F.
  - rewrite (segs_from_hdr _ _ F), (segs_from_hdr _ _ Fq).
    rewrite skipn_app, skipn_all2 by lia. cbn [app]. f_equal. f_equal. lia.
  - rewrite (segs_no_hdr _ F), (segs_no_hdr _ Fq). reflexivity.
Qed.

Lemma last_is_FA_split d : d <> [] -> last_is_FA d = true -> exists d', d = d' ++ [FA].
Proof.
  intros Hne L. destruct (exists_last Hne) as (d' & x & ->). exists d'.
  unfold last_is_FA in L. rewrite rev_app_distr in L. cbn in L. apply N.eqb_eq in L. subst. reflexivity.
Qed.

Theorem no_tok_advance_stable d e a : d <> [] ->
  scan_messages d false = (a, None) -> segs (d ++ e) = segs (skipn a d ++ e).
Proof.
  intros Hne H. unfold scan_messages in H. destruct d as [|x d0]; [congruence|]. remember (x :: d0) as d eqn:Ed.
  destruct (find_hdr d) as [i|] eqn:F.
  - (* header found, frame incomplete: advance to it *)
    pose proof (find_hdr_bound _ _ F) as Hb.
    assert (a = i).
    { destruct (claimed_len (skipn i d)); [destruct (length (skipn i d) <? n)|]; inversion H; reflexivity. }
    subst a. rewrite (segs_from_hdr _ _ (find_hdr_app_some _ e _ F)).
    rewrite skipn_app_le by lia. reflexivity.
  - destruct (last_is_FA d) eqn:L; inversion H; subst a; clear H.
    + (* lone trailing FA kept *)
      destruct (last_is_FA_split d ltac:(subst d; discriminate) L) as (d' & Hd). clear Ed. subst d.
      rewrite app_length. cbn [length]. replace (length d' + 1 - 1) with (length d') by lia.
      rewrite skipn_app, skipn_all, Nat.sub_diag. cbn [skipn app].
      rewrite <- app_assoc. cbn [app]. apply segs_skip_prefix. cbn [firstn]. exact F.
    + (* everything discarded *)
      rewrite skipn_all. cbn [app]. apply segs_skip_prefix.
      destruct e as [|y e']; cbn [firstn]; [rewrite app_nil_r; exact F|].
      apply last_is_FA_false_no_new_pair; assumption.
Qed.
