(* Frames over the serial port over UDP: every well-formed frame has at most 2055 bytes, so a reader that offers 4096 bytes
   (the initial buffer of the client's and the emulator's scanners, when it is empty) always has room; whatever frames one
   side writes, one per write, the other side reads whole, unchanged and in order. *)
From Coq Require Import ZArith NArith List Bool Lia.
Require Import Base.Bytes Model.Frame Spec.FrameSpec Proofs.FramedStream Model.UdpPort Proofs.UdpPortProofs.
Import ListNotations.

Theorem frames_arrive_over_udp t0 t1 side (fs : list bytes) :
  Forall wf_bytes fs -> Forall wf_frame fs ->
  urun t0 t1 unet0 (writes side fs ++ reads (negb side) 4096 (length fs)) =
  map (fun p => UWrote (Z.of_nat (length p)) None) fs ++ map (fun p => UGot p None) fs.
Proof.
  intros Hb Hw. apply udp_delivers.
  rewrite Forall_forall in *. intros f Hf.
  pose proof (wf_frame_maxlen f (Hb f Hf) (Hw f Hf)). lia.
Qed.
