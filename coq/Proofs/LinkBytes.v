(* The frame-level channels of Model.Link at byte level: what either side writes is a concatenation of frames that
   pass validation; by C01 the other side's bufio.Scanner delivers exactly those frames under every fragmentation
   of the byte stream into reads. *)
From Coq Require Import ZArith NArith List Bool String Lia.
Require Import Base.Bytes Base.Tactics Model.Frame Model.Split Lib.Bufio Model.Config Model.Emulator Model.Link
  Spec.FrameSpec Spec.StreamSpec Spec.Terminal Spec.FramedSpec Gen.Funcs
  Proofs.FrameProofs Proofs.FramedStream Proofs.ScanThm2 Proofs.ScanThm4 Proofs.LinkProofs.
Import ListNotations.

Lemma interleave_nil_noise fs : interleave (repeat [] (S (length fs))) fs = concat fs.
Proof.
  induction fs as [|f fs IH]; [reflexivity|].
  cbn [length repeat interleave concat app]. cbn [length repeat] in IH. rewrite IH. reflexivity.
Qed.

Theorem frames_on_a_byte_link fs sch fin ewd :
  Forall (fun f => wf_bytes f /\ validate f = VOk) fs -> sched_ok sch ->
  run (2 * length (concat fs) + length sch + 3) init_scanner (mk (concat fs) sch fin ewd) [] = Some (fs, fin).
Proof.
  intros Hf Hs. rewrite <- interleave_nil_noise.
  assert (E : segT (interleave (repeat [] (S (length fs))) fs) = (fs, SEnd)).
  { apply segments_of_framed_stream.
    - rewrite repeat_length. reflexivity.
    - eapply Forall_impl; [|exact Hf]. intros f [Hb Hv]. split; [exact Hb|apply validate_iff_wf; exact Hv].
    - apply Forall_forall. intros n Hn. apply repeat_spec in Hn. subst n. reflexivity. }
  rewrite scan_fragmentation_independent; [rewrite E; reflexivity|exact Hs|right; rewrite E; reflexivity].
Qed.

Open Scope N_scope.
Lemma new_message_bytes mid p : mid < 256 -> wf_bytes p -> wf_bytes (new_message mid p).
Proof.
  intros Hm Hp. unfold new_message, wf_bytes, min_ext, FA, FF in *.
  apply Forall_app. split.
  - apply Forall_app. split; [|exact Hp].
    destruct (255 <=? N.of_nat (length p)) eqn:E; repeat constructor; try lia.
  - constructor; [|constructor]. apply N.mod_lt. discriminate.
Qed.

Lemma outconf_marshal_bytes cfg : wf_bytes (outconf_marshal cfg).
Proof.
  unfold outconf_marshal, wf_bytes. induction cfg as [|[[[t c] p] f] cfg IH]; [constructor|].
  cbn [flat_map]. apply Forall_app. split; [|exact IH].
  cbn [to_be app]. repeat constructor; apply N.mod_lt; discriminate.
Qed.

Open Scope Z_scope.
(* requests and acknowledges are such frames *)
Theorem request_frame_ok c : cmd_ok c -> wf_bytes (cmd_frame c) /\ validate (cmd_frame c) = VOk.
Proof.
  intros Hok. split.
  - unfold cmd_frame. apply new_message_bytes.
    + destruct c; vm_compute; reflexivity.
    + destruct c; cbn [cmd_payload]; try constructor. apply outconf_marshal_bytes.
  - unfold cmd_frame.
    assert (Hlen : (length (cmd_payload c) <= 2048)%nat).
    { destruct c as [|cfg|]; cbn [cmd_payload length]; try lia. rewrite outconf_marshal_length. destruct Hok as [_ Hl]. lia. }
    pose proof (new_message_wf (Z.to_N (cmd_req c)) (cmd_payload c) Hlen) as W. cbv zeta in W. tauto.
Qed.

Theorem ack_frame_ok c : wf_bytes (ack_frame c) /\ validate (ack_frame c) = VOk.
Proof.
  split; [|exact (proj1 (ack_accepted c))].
  unfold ack_frame. apply new_message_bytes; [destruct c; vm_compute; reflexivity|constructor].
Qed.

(* everything Transmit wrote, when the messages handed to it are byte strings *)
Definition sched_bytes_ok (sch : list choice) : Prop :=
  Forall (fun ch => match ch with ChTx m => wf_bytes m | _ => True end) sch.

Lemma tx_bytes_step s ch s' : lstep s ch = Some s' -> (match ch with ChTx m => wf_bytes m | _ => True end) ->
  Forall wf_bytes (ltx s) -> Forall wf_bytes (ltx s').
Proof.
  intros Hs Hch Ht. destruct ch as [| | |m]; unfold lstep in Hs.
  - destruct (lfail s); [discriminate|]. destruct (lwait s) as [c|].
    + destruct (le2c s) as [|f r]; [discriminate|].
      destruct (validate f); destruct (identifier f); try (injection Hs as <-; exact Ht).
      destruct (_ =? _); injection Hs as <-; exact Ht.
    + destruct (ltodo s); [|injection Hs as <-; exact Ht].
      destruct (le2c s) as [|f r]; [discriminate|]. destruct (validate f); injection Hs as <-; exact Ht.
  - destruct (lpend s); [|discriminate]. destruct (lc2e s); [discriminate|]. destruct (estep _ _). injection Hs as <-. exact Ht.
  - destruct (lpend s); [discriminate|]. injection Hs as <-. exact Ht.
  - destruct (data_phase s); [|discriminate]. unfold estep in Hs.
    destruct (negb (measuring (lemu s))).
    + injection Hs as <-. cbn. rewrite app_nil_r. exact Ht.
    + destruct (validate m); injection Hs as <-; cbn; rewrite ?app_nil_r; try exact Ht.
      apply Forall_app. split; [exact Ht|]. constructor; [exact Hch|constructor].
Qed.

Lemma tx_bytes_run sch : forall s s', lrun s sch = Some s' -> sched_bytes_ok sch ->
  Forall wf_bytes (ltx s) -> Forall wf_bytes (ltx s').
Proof.
  induction sch as [|ch t IH]; intros s s' Hr Hb Ht; cbn [lrun] in Hr.
  - injection Hr as <-. exact Ht.
  - destruct (lstep s ch) as [s1|] eqn:E; [|discriminate]. inversion Hb as [|? ? Hc Hb']; subst.
    apply (IH s1 s' Hr Hb'). exact (tx_bytes_step s ch s1 E Hc Ht).
Qed.

(* the data path at byte level: the bytes Transmit wrote, cut into reads in any way, are scanned by the client's
   bufio.Scanner into exactly the frames the model's channel carried *)
Theorem transmitted_bytes_scan_to_frames cmds sch s rsch fin ewd :
  Forall cmd_ok cmds -> sched_bytes_ok sch -> lrun (link_init cmds) sch = Some s -> data_phase s = true -> sched_ok rsch ->
  run (2 * length (concat (ltx s)) + length rsch + 3) init_scanner (mk (concat (ltx s)) rsch fin ewd) [] = Some (ltx s, fin).
Proof.
  intros Hok Hb Hr Hd Hs. apply frames_on_a_byte_link; [|exact Hs].
  pose proof (data_in_order cmds sch s Hok Hr Hd) as (_ & Hv & _).
  pose proof (tx_bytes_run sch _ _ Hr Hb ltac:(constructor)) as Hw.
  clear - Hv Hw. induction (ltx s) as [|f l IH]; [constructor|].
  inversion Hv; inversion Hw; subst. constructor; [split; assumption|apply IH; assumption].
Qed.

(* the command path at byte level: all requests of a command sequence in a row, and all acknowledges *)
Theorem request_bytes_scan_to_frames cmds rsch fin ewd : Forall cmd_ok cmds -> sched_ok rsch ->
  let fs := map cmd_frame cmds in
  run (2 * length (concat fs) + length rsch + 3) init_scanner (mk (concat fs) rsch fin ewd) [] = Some (fs, fin).
Proof.
  intros Hok Hs fs. apply frames_on_a_byte_link; [|exact Hs]. unfold fs.
  induction Hok as [|c l Hc _ IH]; [constructor|]. cbn [map]. constructor; [exact (request_frame_ok c Hc)|exact IH].
Qed.

Theorem acknowledge_bytes_scan_to_frames cmds rsch fin ewd : sched_ok rsch ->
  let fs := map ack_frame cmds in
  run (2 * length (concat fs) + length rsch + 3) init_scanner (mk (concat fs) rsch fin ewd) [] = Some (fs, fin).
Proof.
  intros Hs fs. apply frames_on_a_byte_link; [|exact Hs]. unfold fs.
  induction cmds as [|c l IH]; [constructor|]. cbn [map]. constructor; [exact (ack_frame_ok c)|exact IH].
Qed.
