(* The data path end to end: a measurement marshalled by the emulator with an identifier of its configuration and
   sent as an MTData2 message is, after the client's Receive / ScanMeasurementData / typed getter, the value at the
   configured precision, in the Go type the data type dispatches to. *)
From Coq Require Import ZArith NArith List Bool String Lia.
Require Import Base.Bytes Base.Tactics Model.Frame Model.Packet Model.Config Model.Codec Model.Client Model.Emulator
  Model.Link Model.DataPath Spec.FrameSpec Spec.ClientSpec Spec.LayoutKinds Spec.LayoutSpec Gen.Funcs Gen.Layouts
  Proofs.FrameProofs Proofs.PacketProofs Proofs.CodecProofs Proofs.LinkProofs.
Import ListNotations.
Open Scope Z_scope.

(* the finite part, recomputed from the generated tables: for a data type of the dispatch table, a coordinate system
   and a precision, the identifier's two wire bytes lead the client back to the same Go type and precision, and the
   encoder's declared size is the decoder layout's size and fits the one-byte length field *)
Definition id_path_ok (dt c p : Z) : bool :=
  let wire := f_DataIdentifier_Uint16 dt c p in
  let hdr := zbe 2 wire in
  match lookup_z dt dispatch_table with
  | Some (_, ty) =>
      match dec_layout_of ty (Z.land wire 3), enc_size_of ty (Z.land wire 3) with
      | Some l, Some sz =>
          (Z.land wire 3 =? p) && (layout_size l =? sz) && (0 <=? sz) && (sz <? 256) &&
          (pkt_dtype hdr =? dt) &&
          (Z.land (Z.of_N (be16 (nthb hdr 0) (nthb hdr 1))) 3 =? p)
      | _, _ => false
      end
  | None => false
  end.

Definition all_id_paths_ok : bool :=
  forallb (fun d : Z * (string * string) =>
             forallb (fun c => forallb (fun p => id_path_ok (fst d) c p) [0; 1; 2; 3]) [0; 4; 8; 12])
          dispatch_table.

Lemma all_id_paths_ok_true : all_id_paths_ok = true.
Proof. vm_compute. reflexivity. Qed.

Lemma id_path_ok_of_table dt c p slot ty : lookup_z dt dispatch_table = Some (slot, ty) ->
  In c [0; 4; 8; 12] -> In p [0; 1; 2; 3] -> id_path_ok dt c p = true.
Proof.
  intros Hl Hc Hp. pose proof all_id_paths_ok_true as H. unfold all_id_paths_ok in H. rewrite forallb_forall in H.
  assert (Hin : exists v, In (dt, v) dispatch_table).
  { clear H. induction dispatch_table as [|[k v] t IH]; [discriminate|]. cbn [lookup_z] in Hl.
    destruct (Z.eqb_spec dt k) as [->|Hne]; [exists v; left; reflexivity|].
    destruct (IH Hl) as [v' Hv]. exists v'. right. exact Hv. }
  destruct Hin as [v Hv]. specialize (H _ Hv). cbn [fst] in H.
  rewrite forallb_forall in H. specialize (H c Hc). rewrite forallb_forall in H. exact (H p Hp).
Qed.

Lemma encode_fields_length l : forall vs, length vs = length l -> length (encode_fields l vs) = layout_len l.
Proof.
  induction l as [|[n k] l IH]; intros vs Hl; [destruct vs; reflexivity|].
  destruct vs as [|v vs]; [discriminate|]. cbn [encode_fields layout_len fold_right snd].
  rewrite app_length, encode_field_length. fold (layout_len l). rewrite IH; [reflexivity|]. cbn in Hl. lia.
Qed.

Lemma zbe2_shape w : exists a b, zbe 2 w = [a; b].
Proof. unfold zbe. cbn [to_be]. eexists; eexists; reflexivity. Qed.

Lemma zbe1_shape w : 0 <= w < 256 -> zbe 1 w = [Z.to_N w].
Proof.
  intros H. unfold zbe. cbn [to_be app]. change (8 * Z.of_nat 1) with 8. rewrite Z.mod_small by lia.
  f_equal. lia.
Qed.

(* the packet an encoder produces and what the client makes of the message around it *)
Theorem marshalled_packet_decodes dt c p slot ty l vs :
  lookup_z dt dispatch_table = Some (slot, ty) -> id_path_ok dt c p = true ->
  dec_layout_of ty p = Some l -> length vs = length l ->
  exists pkt, encode ty (f_DataIdentifier_Uint16 dt c p) vs = Some pkt /\
              client_values (data_frame pkt) = [option_map (fun q => (ty, q)) (at_precision ty p vs)] /\
              at_precision ty p vs <> None /\ (length pkt <= 258)%nat.
Proof.
  intros Hl Hok Hlay Hlen. unfold id_path_ok in Hok. rewrite Hl in Hok.
  set (wire := f_DataIdentifier_Uint16 dt c p) in *.
  destruct (dec_layout_of ty (Z.land wire 3)) as [l'|] eqn:El; [|discriminate].
  destruct (enc_size_of ty (Z.land wire 3)) as [sz|] eqn:Es; [|discriminate].
  repeat (apply andb_prop in Hok; destruct Hok as [Hok ?]).
  repeat match goal with H : (_ =? _) = true |- _ => apply Z.eqb_eq in H
                    | H : (_ <=? _) = true |- _ => apply Z.leb_le in H
                    | H : (_ <? _) = true |- _ => apply Z.ltb_lt in H end.
  match goal with H : Z.land wire 3 = p |- _ => rewrite H in El, Es end.
  rewrite Hlay in El. injection El as <-.
  unfold encode. match goal with H : Z.land wire 3 = p |- _ => rewrite H end. rewrite Hlay, Es.
  eexists. split; [reflexivity|].
  set (fields := encode_fields l vs).
  assert (Hfl : length fields = layout_len l) by (apply encode_fields_length; exact Hlen).
  assert (Hsz : layout_len l = Z.to_nat sz) by (rewrite layout_len_size; f_equal; assumption).
  destruct (zbe2_shape wire) as (a & b & Hab). rewrite (zbe1_shape sz) by lia.
  set (pkt := zbe 2 wire ++ [Z.to_N sz] ++ fields).
  assert (Hpl : length pkt = (3 + Z.to_nat sz)%nat).
  { unfold pkt. rewrite Hab. cbn [app length]. lia. }
  assert (Hwfp : wf_packet pkt).
  { unfold wf_packet. split; [lia|]. rewrite Hpl. unfold pkt. rewrite Hab. cbn [app]. unfold nthb. cbn [nth]. lia. }
  (* the message *)
  assert (Hmsg : msg_data (data_frame pkt) = Some pkt).
  { unfold data_frame. pose proof (new_message_wf 54%N pkt ltac:(lia)) as W. cbv zeta in W. tauto. }
  destruct (decode_reads_layout ty p fields l Hlay ltac:(rewrite <- layout_len_size; lia)) as [Hdec Hnn].
  assert (Hat : at_precision ty p vs = decode_fields l fields) by (unfold at_precision; rewrite Hlay; reflexivity).
  match goal with |- client_values (data_frame ?x) = _ /\ _ => change x with pkt end.
  split; [|split; [rewrite Hat; exact Hnn|lia]].
  unfold client_values. rewrite Hmsg.
  assert (Hwalk : packets_of pkt = [pkt]).
  { unfold packets_of. pose proof (walk_concat [pkt] ltac:(constructor; [exact Hwfp|constructor])) as W.
    cbn [concat] in W. rewrite app_nil_r in W. rewrite W. reflexivity. }
  rewrite Hwalk. cbn [map]. f_equal.
  (* the packet *)
  unfold packet_value.
  assert (Hdt : pkt_dtype pkt = dt).
  { match goal with H : pkt_dtype (zbe 2 wire) = dt |- _ => rewrite <- H end.
    unfold pkt_dtype, pkt. rewrite Hab. reflexivity. }
  unfold dispatch. rewrite Hdt, Hl.
  assert (Hw : pkt_wire pkt = Some (be16 a b)).
  { unfold pkt_wire, pkt, get. rewrite Hab. reflexivity. }
  rewrite Hw.
  assert (Hd : pkt_data pkt = Some fields).
  { unfold pkt_data. destruct (Nat.leb_spec 3 (length pkt)); [|lia]. unfold pkt. rewrite Hab. reflexivity. }
  rewrite Hd.
  assert (Hp : Z.land (Z.of_N (be16 a b)) 3 = p).
  { match goal with H : Z.land (Z.of_N (be16 (nthb (zbe 2 wire) 0) (nthb (zbe 2 wire) 1))) 3 = p |- _ => rewrite Hab in H; exact H end. }
  rewrite Hp, Hdec, Hat.
  destruct (decode_fields l fields) as [q|]; reflexivity.
Qed.

(* for values representable at the precision nothing is lost *)
Theorem representable_values_arrive_unchanged ty p l vs : dec_layout_of ty p = Some l ->
  Forall2 (fun f v => field_value_ok (snd f) v) l vs -> at_precision ty p vs = Some vs.
Proof. intros Hlay Hv. unfold at_precision. rewrite Hlay. exact (proj1 (fields_decode_encode l vs Hv)). Qed.

(* together with the configuration: what MarshalMessage produces for a configured type is decoded by the client as
   the value at the precision of that type's setting *)
Theorem configured_measurement_arrives e s slot ty l vs :
  NoDup (map stype (econf e)) -> In s (econf e) ->
  let '(dt, c, p, _) := s in
  lookup_z dt dispatch_table = Some (slot, ty) -> In c [0; 4; 8; 12] -> In p [0; 1; 2; 3] ->
  dec_layout_of ty p = Some l -> length vs = length l ->
  exists pkt, marshal_message e ty dt vs = Some pkt /\
              client_values (data_frame pkt) = [option_map (fun q => (ty, q)) (at_precision ty p vs)] /\
              at_precision ty p vs <> None /\ (length pkt <= 258)%nat.
Proof.
  intros Hnd Hin. destruct s as [[[dt c] p] f] eqn:Es. intros Hl Hc Hp Hlay Hlen.
  pose proof (marshal_unique_setting e s Hnd ltac:(rewrite Es; exact Hin)) as Hm. rewrite Es in Hm. cbn [stype sid] in Hm.
  unfold marshal_message. rewrite Hm.
  exact (marshalled_packet_decodes dt c p slot ty l vs Hl (id_path_ok_of_table dt c p slot ty Hl Hc Hp) Hlay Hlen).
Qed.

(* everything together: after ANY schedule of ANY command sequence ending in go-to-measurement, a measurement of a
   configured type handed to MarshalMessage and Transmit is written as one frame, and that frame is what the
   client decodes to the value at the configured precision *)
Theorem end_to_end cmds sch s st slot ty l vs :
  Forall cmd_ok cmds -> lrun (link_init cmds) sch = Some s -> data_phase s = true -> mode_after cmds = mid_meas ->
  NoDup (map stype (conf_after [] cmds)) -> In st (conf_after [] cmds) ->
  let '(dt, c, p, _) := st in
  lookup_z dt dispatch_table = Some (slot, ty) -> In c [0; 4; 8; 12] -> In p [0; 1; 2; 3] ->
  dec_layout_of ty p = Some l -> length vs = length l ->
  exists pkt s1, marshal_message (lemu s) ty dt vs = Some pkt /\
                 lstep s (ChTx (data_frame pkt)) = Some s1 /\ ltx s1 = ltx s ++ [data_frame pkt] /\
                 le2c s1 = le2c s ++ [data_frame pkt] /\
                 client_values (data_frame pkt) = [option_map (fun q => (ty, q)) (at_precision ty p vs)] /\
                 at_precision ty p vs <> None.
Proof.
  intros Hok Hr Hd Hm Hnd Hin. destruct st as [[[dt c] p] f] eqn:Est. intros Hl Hc Hp Hlay Hlen.
  pose proof (inv_run cmds sch _ _ Hok (inv_init cmds) Hr) as Hi.
  destruct (completed_state cmds s Hi Hd) as (Hf & Hdone & Hmode & Hconf).
  rewrite <- Hconf in Hnd, Hin.
  pose proof (configured_measurement_arrives (lemu s) st slot ty l vs Hnd ltac:(rewrite Est; exact Hin)) as H.
  rewrite Est in H. destruct (H Hl Hc Hp Hlay Hlen) as (pkt & Hmm & Hcv & Hat & Hlen').
  assert (Hv : validate (data_frame pkt) = VOk).
  { unfold data_frame. pose proof (new_message_wf 54%N pkt ltac:(lia)) as W. cbv zeta in W. tauto. }
  assert (Hstep : lstep s (ChTx (data_frame pkt)) =
    Some {| ltodo := ltodo s; lwait := lwait s; ldone := ldone s; lc2e := lc2e s; le2c := le2c s ++ [data_frame pkt];
            lemu := {| emode := emode (lemu s); econf := econf (lemu s); ealive := ealive (lemu s);
                       eport := eport (lemu s) ++ [data_frame pkt] |};
            lpend := lpend s; lrecv := lrecv s; ltx := ltx s ++ [data_frame pkt]; lfail := lfail s |}).
  { unfold lstep. rewrite Hd. unfold estep, measuring. rewrite Hmode, Hm, Z.eqb_refl. cbn [negb]. rewrite Hv. reflexivity. }
  exists pkt. eexists. split; [exact Hmm|]. split; [exact Hstep|]. cbn [ltx le2c]. repeat split; assumption.
Qed.
