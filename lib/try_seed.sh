#!/bin/sh
# usage: lib/try_seed.sh <patch.diff> <ID> [<ID>...]   -- apply a seeded change to /repo, run the quick checks, undo
patch=$1; shift
cd /verif
export VERIF_EVIDENCE_DIR=/verif/.scratch/evidence_changed_tree   # evidence/ only ever holds runs on the unchanged tree
git -C /repo apply "$patch" || { echo "patch does not apply"; exit 2; }
for p in "$@"; do
  ./check $p quick 2>&1 | grep -v "^WARNING" | cut -c1-400
done
git -C /repo checkout -- .
/verif/bin/xlate /repo /verif/coq/Gen >/dev/null 2>&1
git -C /repo status --short | head -3
