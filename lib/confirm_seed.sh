#!/bin/bash
# usage: lib/confirm_seed.sh <ID> <k>   -- confirm a seeded change in a scratch worktree of /repo (never in /repo itself):
#   the demonstration passes on the unchanged tree, the changed tree builds and passes the pinned test suite, and the
#   demonstration fails on the changed tree.  Prints one line: "<ID> p<k> clean-demo=PASS suite=PASS patched-demo=FAIL".
id=$1; k=$2
export GOFLAGS=-mod=mod GOPROXY=off GOSUMDB=off GOTOOLCHAIN=local
src=${SEEDS:-/verif/.scratch/seeds}/$id
wt=/tmp/seedwt_${id}_$k
rm -rf $wt; git -C /repo worktree prune
git -C /repo worktree add -q --detach $wt HEAD || exit 2
demo=$src/demo$k
pkgline=$(grep -h -m1 '^package' $demo/*_test.go | head -1)
case "$pkgline" in *xsensemulator*) pkg=xsensemulator;; *) pkg=.;; esac
tests=$(grep -h -o '^func Test[A-Za-z0-9_]*' $demo/*.go | sed 's/func //' | paste -sd'|')
race=""; [ "$id" = C17 ] && race="-race"
rundemo() { cp $demo/*.go $wt/$pkg/; (cd $wt && timeout 900 go test $race -vet=off -count=1 -run "^($tests)\$" ./$pkg >$wt/.demo.log 2>&1); rc=$?; rm -f $wt/$pkg/zz_demo*; return $rc; }
rundemo; c=$?
git -C $wt apply $src/patch$k.diff || { echo "$id p$k patch-does-not-apply"; git -C /repo worktree remove --force $wt; exit 2; }
(cd $wt && flock ${SUITE_LOCK:-/tmp/.xsens_suite.lock} timeout 1800 go test -vet=off -count=1 ./... >$wt/.suite.log 2>&1); s=$?
rundemo; d=$?
r() { [ $1 = 0 ] && echo PASS || echo FAIL; }
echo "$id p$k clean-demo=$(r $c) suite=$(r $s) patched-demo=$(r $d) tests=$tests"
if [ $c != 0 ] || [ $s != 0 ] || [ $d = 0 ]; then tail -15 $wt/.demo.log; tail -5 $wt/.suite.log; fi
git -C /repo worktree remove --force $wt; git -C /repo worktree prune
