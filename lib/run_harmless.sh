#!/bin/bash
# usage: lib/run_harmless.sh   -- behaviour-preserving rewrites of /repo (harmless/*.diff) must not raise an alarm:
# apply each to /repo, run the quick checks of the properties anchored in the files it touches, undo it.
cd /verif
export VERIF_EVIDENCE_DIR=/verif/.scratch/evidence_changed_tree   # evidence/ only ever holds runs on the unchanged tree
declare -A props=(
  [rwmutex_correct]="C16 C17 C18"
  [emulator_defer_unlock]="C16 C17 C18"
  [dataidentifier_reordered]="C03 C04 C11 C12 C13"
  [validate_reworded]="C02 C06 C10 C18"
  [scanmessages_renamed]="C01 C06 C09 C10"
  [receiveuntil_restructured]="C08 C14 C16"
  [ack_arithmetic]="C08 C20"
  [packetat_checksum_restructured]="C02 C07 C03"
  [baudrate_cases_reordered]="C20 C15"
  [fixedpoint_restructured]="C05 C04"
  [client_receive_reordered]="C03 C09 C10"
  [client_command_renamed]="C08 C14 C16"
  [latlon_decoder_renamed]="C04 C12 C03"
  [emulator_cases_reordered]="C16 C17 C18 C06"
  [can_codec_renamed]="C15 C09 C14 C08"
  [small_codecs_rewritten]="C14 C15 C19"
  [udp_port_rewritten]="C06 C18 C01"
)
for f in harmless/*.diff; do
  n=$(basename $f .diff)
  git -C /repo apply /verif/$f || { echo "$n: patch does not apply"; continue; }
  for p in ${props[$n]:-C02}; do
    out=$(./check $p quick 2>&1 | grep -v "^WARNING")
    if echo "$out" | grep -q "^VIOLATION"; then echo "$n $p: ALARM"; echo "$out" | grep "^BROKEN\|^FAILING\|^VIOLATION" | cut -c1-300; else echo "$n $p: quiet"; fi
  done
  git -C /repo checkout -- .
done
/verif/bin/xlate /repo /verif/coq/Gen >/dev/null 2>&1
git -C /repo status --short | head -3
