#!/bin/bash
# usage: lib/run_seeds.sh [<seed-dir>...]   -- for each /verif/seeded/<Cxx-k>: apply patch.diff to /repo, run the quick
# check of its property, record the report lines in detected.txt, undo the change.  Never commits anything in /repo.
cd /verif
export VERIF_EVIDENCE_DIR=/verif/.scratch/evidence_changed_tree   # evidence/ only ever holds runs on the unchanged tree
dirs="$@"; [ -z "$dirs" ] && dirs=$(ls -d seeded/C*)
for d in $dirs; do
  id=$(basename $d | cut -d- -f1)
  git -C /repo apply /verif/$d/patch.diff || { echo "$d: patch does not apply"; continue; }
  ./check $id quick 2>&1 | grep -v "^WARNING" | cut -c1-700 > $d/detected.txt
  git -C /repo checkout -- .
  echo "$d: $(grep -c '^VIOLATION' $d/detected.txt) violation line(s): $(grep '^VIOLATION' $d/detected.txt | head -1)"
done
/verif/bin/xlate /repo /verif/coq/Gen >/dev/null 2>&1
git -C /repo status --short | head -3
