#!/usr/bin/env python3
"""usage: lib/build_seeded.py <src-dir> <confirm-log> <offset>
Copies confirmed seeded changes (<src-dir>/<Cxx>/patch<k>.diff, demo<k>/, note<k>.md) to /verif/seeded/<Cxx>-<k+offset>/
with a meta.json; refuses any change whose confirmation line is not PASS/PASS/FAIL."""
import os, re, json, shutil, glob, sys
src, conflog, off = sys.argv[1], sys.argv[2], int(sys.argv[3])
dst = '/verif/seeded'
props = {}
for l in open('/verif/properties.jsonl'):
    d = json.loads(l); props[d['id']] = d
confirm = {}
for l in open(conflog):
    m = re.match(r'(C\d+) p(\d) clean-demo=(\w+) suite=(\w+) patched-demo=(\w+) tests=(\S+)', l)
    if m: confirm[(m.group(1), m.group(2))] = m.groups()[2:]
def section(txt, pats):
    parts = re.split(r'^(#+ .*)$', txt, flags=re.M)
    for i in range(1, len(parts), 2):
        if any(p in parts[i].lower() for p in pats):
            return parts[i + 1].strip()
    return ''
n = 0
for pid in sorted(props):
    for k in '12':
        sd = os.path.join(src, pid)
        if not os.path.exists(os.path.join(sd, 'patch%s.diff' % k)): continue
        c = confirm.get((pid, k))
        if not (c and c[0] == 'PASS' and c[1] == 'PASS' and c[2] == 'FAIL'):
            print('skipping unconfirmed', pid, k, c); continue
        name = '%s-%d' % (pid, int(k) + off)
        out = os.path.join(dst, name)
        shutil.rmtree(out, ignore_errors=True); os.makedirs(out)
        shutil.copy(os.path.join(sd, 'patch%s.diff' % k), os.path.join(out, 'patch.diff'))
        shutil.copytree(os.path.join(sd, 'demo%s' % k), os.path.join(out, 'demonstration'))
        note = open(os.path.join(sd, 'note%s.md' % k)).read()
        shutil.copy(os.path.join(sd, 'note%s.md' % k), os.path.join(out, 'note.md'))
        title = note.strip().splitlines()[0].lstrip('# ').strip()
        files = sorted(set(re.findall(r'^\+\+\+ b/(\S+)', open(os.path.join(out, 'patch.diff')).read(), flags=re.M)))
        pkgline = ''
        for f in glob.glob(os.path.join(out, 'demonstration', '*.go')):
            pkgline = re.search(r'^package (\w+)', open(f).read(), re.M).group(1); break
        pkg = './xsensemulator' if 'emulator' in pkgline else '.'
        meta = {
            'seed': name, 'property': pid, 'property_title': props[pid]['title'],
            'change': title, 'files_changed': files,
            'clause_broken': section(note, ['clause', 'breaks', 'broken'])[:1500],
            'needs_to_manifest': section(note, ['needed', 'manifest', 'trigger', 'require', 'needs'])[:2500],
            'origin': 'written by a sub-agent that saw only the property text and its own scratch worktree of /repo',
            'confirmed': {
                'how': 'lib/confirm_seed.sh %s %s (scratch git worktree of /repo under /tmp, removed afterwards): demonstration copied into %s and run with go test%s -run on the unchanged tree, the patch applied, the pinned suite (go test ./...) run, the demonstration run again' % (pid, k, pkg, ' -race' if pid == 'C17' else ''),
                'demonstration_on_unchanged_tree': 'PASS', 'pinned_suite_with_change': 'PASS', 'demonstration_with_change': 'FAIL',
                'tests': c[3].split('|'),
            },
            'checked_with': 'lib/run_seeds.sh seeded/%s  (git -C /repo apply; ./check %s quick; git -C /repo checkout -- .); report in detected.txt' % (name, pid),
        }
        json.dump(meta, open(os.path.join(out, 'meta.json'), 'w'), indent=1)
        n += 1
print(n, 'seeded changes written')
