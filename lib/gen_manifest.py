#!/usr/bin/env python3
"""Regenerate MANIFEST.json from lib/props.py (claimed properties) and properties.jsonl."""
import json, os, sys
ROOT = os.path.dirname(os.path.dirname(os.path.abspath(__file__)))
sys.path.insert(0, os.path.join(ROOT, "lib"))
from props import PROPS
ids = [json.loads(l)["id"] for l in open(os.path.join(ROOT, "properties.jsonl"))]
checks = []
for pid in ids:
    if pid not in PROPS or PROPS[pid].get("unclaimed"):
        continue
    c = PROPS[pid]
    checks.append({
        "property_id": pid,
        "quick_cmd": "./check %s quick" % pid,
        "thorough_cmd": "./check %s thorough" % pid,
        "evidence_file": "/verif/evidence/%s.json" % pid,
        "replay_cmd_template": "./check %s quick --replay {path}" % pid,
        "engine": "rocq-proof+correspondence",
        "level_claimed": {"category": "proof", "text": c["level_text"], "design_ref": c.get("design_ref", "DESIGN.md section 8 " + pid)},
        "level_note": c["level_note"],
        "technique": c["technique"],
    })
na = [{"property_id": p, "reason": "no check registered yet in this revision of /verif (work in progress; the design in DESIGN.md section 8 applies)"}
      for p in ids if p not in [c["property_id"] for c in checks]]
m = {
    "version": 1,
    "setup_cmd": "./setup.sh",
    "hooks": {
        "guard": "verif",
        "enable": "harness builds pass -tags verif; no source hook is needed (the harness uses exported API, the translator reads source)",
        "baseline_off_cmd": "cd /repo && GOFLAGS=-mod=mod GOPROXY=off GOSUMDB=off go test -mod=mod -vet=off -count=1 ./...",
        "source_commits": [],
        "add_only": True,
    },
    "engines": [{"name": "rocq-proof+correspondence", "path": "/verif/check",
                 "serves_properties": [c["property_id"] for c in checks],
                 "kind_free_text": "Coq 8.16.1 theorems over Gallina models (coq/), tied to /repo by a Go->Gallina translator (go/xlate, regenerated every run) and by a differential/exhaustive correspondence check (go/harness vs. vm_compute of the model)"}],
    "checks": checks,
    "not_applicable": na,
    "notes": "See DESIGN.md. known_findings.txt lists repaired defects (fixed:) and recorded findings (finding:).",
}
# kept even when empty: every property is claimed
json.dump(m, open(os.path.join(ROOT, "MANIFEST.json"), "w"), indent=1)
print("claimed:", [c["property_id"] for c in checks])
