#!/usr/bin/env python3
"""Prints the markdown table of seeded changes and how the quick check of their property reports them (from seeded/*/detected.txt)."""
import glob, re, os, json
rows = []
for d in sorted(glob.glob('/verif/seeded/C*')):
    p = os.path.join(d, 'detected.txt')
    if not os.path.exists(p):
        continue
    t = open(p).read()
    m = json.load(open(os.path.join(d, 'meta.json')))
    inp = 'FAILING-INPUT code=2' in t or 'kind=race' in t
    kinds = sorted(set(re.findall(r'^BROKEN (\w+)', t, re.M)))
    how = []
    if 'VIOLATION' not in t:
        how.append('**missed**')
    if inp: how.append('failing input')
    if 'proof' in kinds: how.append('obligation no longer checks')
    if 'translator' in kinds: how.append('translator tie broken')
    if 'correspondence' in kinds and not inp: how.append('correspondence only')
    if 'no-failing-input-found' in t: how.append('no-failing-input-found')
    first = ''
    mm = re.search(r'^BROKEN proof: obligation no longer checks: (\S+ line \d+)', t, re.M)
    if mm: first = mm.group(1)
    change = re.sub(r'^(C\d+ )?(Seeded |seeded )?(change|defect|Change) ?\d? ?(\(C\d+\))?[:\-–— ]*', '', m['change'], flags=re.I).strip()
    rows.append('| %s | %s | %s | %s |' % (os.path.basename(d), change[:100].replace('|', '/'), '; '.join(how), first))
print('| seed | change | how the quick check of its property reports it | first broken obligation |')
print('|---|---|---|---|')
print('\n'.join(rows))
