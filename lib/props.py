"""Per-property configuration of the driver (./check)."""

COMMON_TRUSTED = [
    "Coq 8.16.1 kernel incl. its vm_compute machine (finite sweeps, model evaluation); native_compute not used",
    "go/xlate translator (go/parser + go/types): constants, switch tables, integer expressions, layouts, command table, emulator skeleton",
    "correspondence: go/harness (runs /repo's current working tree), its observable projection, coq/Run/Eval*.v comparison",
]

PROPS = {}

PROPS["C11"] = {
    "level_text": "Theorems (Props/C11.v) about the SetUint16/Uint16 functions regenerated from dataidentifier.go on every run, proved by complete kernel sweeps of the 16-bit domain; an exhaustive 65536-value correspondence ties them and the packet accessors to the compiled code. A finite domain enumerated completely inside the kernel is a proof for the whole quantifier.",
    "level_note": "Trusted: Coq kernel + vm_compute, the translator's rendering of Go integer expressions, the harness. No axioms.",
    "technique": "Rocq proof by complete vm_compute sweep over translator-generated Gallina + exhaustive correspondence",
    "props_file": "Props/C11.v",
    "eval_module": "Run.EvalC11",
    "kinds": {"id16": {"type": "case_id16", "chk": "chk_id16", "sig": "sig_id16", "scope": "Z_scope"}},
    "exhaustive": True,
    "rule": "complete enumeration of the 65536 wire values (SetUint16 into a junk-filled identifier, Uint16 back, "
            "and the same through MTData2Packet.SetIdentifier/Identifier); non-trivial = at least one field or reserved bit set; "
            "distinct = distinct case terms",
    "explanation": "theorems are about f_DataIdentifier_SetUint16/Uint16 regenerated from dataidentifier.go on this run; "
                   "the 65536-value correspondence ties them (and the packet accessors) to the compiled code",
    "trusted": ["Go integer semantics as rendered by the translator (wrap_u/wrap_s over Z)"],
    "assumptions": ["DataIdentifier components are the three struct fields DataType, CoordinateSystem, Precision"],
}

FRAME_TRUSTED = ["Go slice model: contents + absolute indexing; an index outside the slice is the outcome OOB (panic with cap=len, foreign bytes with cap>len); the harness runs every input with both capacities"]

PROPS["C02"] = {
    "level_text": "Theorems (Props/C02.v) over the Gallina model of message.go: validate m = VOk <-> wf_frame m for every byte string, no out-of-bounds index, every single-byte corruption of a well-formed frame rejected, accessors in bounds, rendering total - general proofs by case analysis and modular arithmetic, no bound on length. The model is tied to the compiled code by bounded-exhaustive (protocol alphabet) and random differential correspondence at both slice capacities, and the client clause by stream-level correspondence.",
    "level_note": "Trusted: Coq kernel, hand-written model of message.go (validated by correspondence, not generated), Go slice model, harness. No axioms.",
    "technique": "Rocq proof over hand-written Gallina model + exhaustive/differential correspondence (vm_compute)",
    "props_file": "Props/C02.v",
    "eval_module": "Run.EvalFrame",
    "kinds": {
        "validate": {"type": "case_validate", "chk": "chk_validate", "sig": "sig_validate", "scope": "N_scope"},
        "corrupt": {"type": "case_corrupt", "chk": "chk_corrupt", "sig": "sig_corrupt", "scope": "N_scope"},
    },
    "rule": "validate: every string over {fa,ff,00,01,02,fe} up to length 4 (thorough 5), the same behind a fa ff header, corpus of past failures, random frames (lengths biased to 0,1,253-256,2046-2048) and 1-2 mutations each; every input with cap=len and cap=len+3. corrupt: frames x positions x deltas (all 255 deltas x all positions for one frame). non-trivial = the model's validate leaves through a branch other than 'too few bytes on empty input' / corruption of a well-formed frame; distinct = distinct case terms",
    "trusted": FRAME_TRUSTED,
    "assumptions": ["bytes are modelled as N < 256; String() is observed through its three output shapes"],
}

PROPS["C06"] = {
    "level_text": "Theorems (Props/C06.v): for every identifier and every payload of 0..2048 bytes new_message yields a wf_frame that validate accepts, whose accessors read back identifier/length/payload, extended exactly from 255 bytes, zero checksum, and which the reference segmentation (to which C01 reduces every read fragmentation) delivers unchanged; is_error/error_code characterised on every accepted frame. General proofs. Correspondence: every payload length 0..2048 (thorough; quick: every length to 300 then every 9th) and all 256 error codes against NewMessage/Validate/bufio.Scanner.",
    "level_note": "Trusted: Coq kernel, hand-written model of NewMessage (validated by correspondence), harness. No axioms.",
    "technique": "Rocq proof over hand-written Gallina model + exhaustive-by-length correspondence (vm_compute)",
    "props_file": "Props/C06.v",
    "eval_module": "Run.EvalFrame",
    "kinds": {"newmsg": {"type": "case_newmsg", "chk": "chk_newmsg", "sig": "sig_newmsg", "scope": "N_scope"}},
    "rule": "NewMessage(mid, payload): boundary lengths x identifiers, every length (see tier), adversarial content (FA FF runs, embedded frames), all 256 error codes; observable = frame bytes, Validate verdict, tokens a real bufio.Scanner(ScanMessages) delivers, all accessors; non-trivial = payload non-empty / boundary length class / error identifier / contains FA; distinct = distinct case terms",
    "trusted": FRAME_TRUSTED,
    "assumptions": ["payload length < 65536 (the property quantifies over 0..2048)"],
}

PROPS["C07"] = {
    "level_text": "Theorems (Props/C07.v): packet_at returns exactly sub payload i (3+len) or 'insufficient', never out of bounds, for every payload and every offset; the returned packet lies inside the payload; walking a concatenation of packets recovers exactly them and ends at the payload's end (induction over the packet list); each step consumes >= 3 bytes; the constructor is correct for all lengths 0..255 and identifiers. Correspondence: alphabet-exhaustive payloads x all offsets x both capacities, random walks, all 256 constructor lengths.",
    "level_note": "Trusted: Coq kernel, hand-written model of mtdata2.go (validated by correspondence), Go slice model, harness. No axioms.",
    "technique": "Rocq proof (induction over packet lists) over hand-written Gallina model + exhaustive/differential correspondence",
    "props_file": "Props/C07.v",
    "eval_module": "Run.EvalFrame",
    "kinds": {
        "pktat": {"type": "case_pktat", "chk": "chk_pktat", "sig": "sig_pktat", "scope": "N_scope"},
        "walk": {"type": "case_walk", "chk": "chk_walk", "sig": "sig_walk", "scope": "N_scope"},
        "newpkt": {"type": "case_newpkt", "chk": "chk_newpkt", "sig": "sig_newpkt", "scope": "N_scope"},
    },
    "rule": "pktat: every payload over {00,01,02,03,ff} up to length 4 (thorough 6) x every offset 0..len x capacity len and len+4; random packet sequences with offsets at/inside packets, truncations in the Message.Data() shape (spare capacity holding further bytes). walk: random packet sequences. newpkt: all 256 lengths x 4 identifiers. non-trivial = offset not at the end of an empty remainder / more than zero packets / length > 0; distinct = distinct case terms",
    "trusted": FRAME_TRUSTED,
    "assumptions": ["offsets are non-negative (the property quantifies over 0..len)"],
}

STREAM_TRUSTED = ["model of bufio.Scanner.Scan (Go 1.23.5, default 64 KiB limit) in coq/Lib/Bufio.v: validated against the real bufio on every run by the correspondence, not verified",
                  "chunking reader model: a read returns min(requested, room, remaining) bytes; 0-size entries are empty reads; the terminal error comes with the last data or by its own read"]

PROPS["C01"] = {
    "level_text": "Theorems (Props/C01.v), no bound on stream length, number of frames or schedule: (1) a stream of well-formed frames separated by pair-free noise has exactly those frames as its reference segmentation (induction over the frame list); (2) for every byte stream, every schedule of read sizes >= 0 with at most 100 consecutive empty reads, every terminal error and both (n, err) conventions, the statement-level model of bufio.Scanner.Scan composed with the model of ScanMessages delivers exactly the reference segmentation then the terminal error (induction on fuel with the buffer-geometry invariant), hence any two schedules agree. Models tied to ScanMessages and to the real bufio.Scanner by alphabet-exhaustive streams x all partitions and random streams x schedule families.",
    "level_note": "Trusted: Coq kernel; hand-written models of ScanMessages and of bufio.Scanner.Scan + chunking reader (validated by correspondence on every run); harness. No axioms. The error-with-data convention is proved when the reference segmentation does not end in TooLong (K1 shape).",
    "technique": "Rocq proof by induction (fuel, geometry invariant) over Gallina models of ScanMessages and bufio.Scanner + exhaustive-partition/differential correspondence",
    "props_file": "Props/C01.v",
    "eval_module": "Run.EvalStream",
    "imports": ["XS.Lib.Bufio"],
    "kinds": {
        "split": {"type": "case_split", "chk": "chk_split", "sig": "sig_split", "scope": "N_scope"},
        "scan": {"type": "case_scan", "chk": "chk_scan", "sig": "sig_scan", "scope": "N_scope"},
    },
    "rule": "split: ScanMessages called directly on every string over {fa,ff,00,01,02,fe} up to length 4 (thorough 5), both atEOF values, header-prefixed variants, random prefixes of framed and arbitrary streams. scan: a real bufio.Scanner over the chunking reader: every stream over {fa,ff,00,01} up to length 4 (thorough 6) x EVERY partition into reads; corpus streams x every 2-cut; framed streams (noise without FA FF, payloads with FA/FF/FA FF, lengths biased to 0,1,253-256,2046-2048) and arbitrary streams (false headers, damaged frames) x schedule families (whole, all-ones, random chunks with empty reads incl. after the last byte, runs of 99/100 empty reads, cuts at each of the first 24 offsets) x terminal errors x both (n,err) conventions; the 64 KiB boundary. non-trivial (scan) = at least one token, an empty read, error-with-data, a non-EOF terminal or an explicit schedule; distinct = distinct case terms",
    "trusted": STREAM_TRUSTED,
    "assumptions": ["bufio.Scanner as shipped with the Go toolchain on PATH (1.23.5); Client uses it with the default buffer"],
}
