"""Per-property configuration of the driver (./check)."""

COMMON_TRUSTED = [
    "Coq 8.16.1 kernel incl. its vm_compute machine (finite sweeps, model evaluation); native_compute not used",
    "go/xlate translator (go/parser + go/types): constants, switch tables, integer expressions, layouts, command table, emulator skeleton",
    "correspondence: go/harness (runs /repo's current working tree), its observable projection, coq/Run/Eval*.v comparison",
]

PROPS = {}

PROPS["C11"] = {
    "level_text": "Theorems (Props/C11.v) about the SetUint16/Uint16 functions regenerated from dataidentifier.go on every run, proved by complete kernel sweeps of the 16-bit domain; an exhaustive 65536-value correspondence ties them and the packet accessors to the compiled code. A finite domain enumerated completely inside the kernel is a proof for the whole quantifier.",
    "level_note": "Trusted: Coq kernel + vm_compute, the translator's rendering of Go integer expressions, the harness. No axioms.",
    "technique": "Rocq proof by complete vm_compute sweep over translator-generated Gallina + exhaustive correspondence",
    "tie_files": ["Tie/BytesAgree.v"],
    "props_file": "Props/C11.v",
    "eval_module": "Run.EvalC11",
    "kinds": {"id16": {"type": "case_id16", "chk": "chk_id16", "sig": "sig_id16", "scope": "Z_scope"}},
    "exhaustive": True,
    "rule": "complete enumeration of the 65536 wire values (SetUint16 into a junk-filled identifier, Uint16 back, "
            "and the same through MTData2Packet.SetIdentifier/Identifier); non-trivial = at least one field or reserved bit set; "
            "distinct = distinct case terms",
    "explanation": "theorems are about f_DataIdentifier_SetUint16/Uint16 regenerated from dataidentifier.go on this run; "
                   "the 65536-value correspondence ties them (and the packet accessors) to the compiled code",
    "trusted": ["Go integer semantics as rendered by the translator (wrap_u/wrap_s over Z)"],
    "assumptions": ["DataIdentifier components are the three struct fields DataType, CoordinateSystem, Precision"],
}

FRAME_TRUSTED = ["Go slice model: contents + absolute indexing; an index outside the slice is the outcome OOB (panic with cap=len, foreign bytes with cap>len); the harness runs every input with both capacities"]

PROPS["C02"] = {
    "level_text": "Theorems (Props/C02.v) over the Gallina model of message.go: validate m = VOk <-> wf_frame m for every byte string, no out-of-bounds index, every single-byte corruption of a well-formed frame rejected, accessors in bounds, rendering total - general proofs by case analysis and modular arithmetic, no bound on length. The model is tied to the compiled code by bounded-exhaustive (protocol alphabet) and random differential correspondence at both slice capacities, and the client clause by stream-level correspondence.",
    "level_note": "Trusted: Coq kernel, hand-written model of message.go (validated by correspondence, not generated), Go slice model, harness. No axioms. For Message.Validate, Checksum and the accessors: Tie T (Tie/BytesAgree.v): the function as REGENERATED statement by statement from the Go source on every run (Gen/Bytes.v, every index/slice a possible panic) is proved equal to the hand-written model on every input, so the theorems speak about the current source; the correspondence runs then only validate the translator and the slice-capacity abstraction.",
    "technique": "Rocq proof over hand-written Gallina model + exhaustive/differential correspondence (vm_compute)",
    "tie_files": ["Tie/ClientScannerOk.v", "Tie/ClientAgree.v", "Tie/BytesAgree.v"],
    "props_file": "Props/C02.v",
    "eval_modules": ["Run.EvalFrame", "Run.EvalClient"],
    "imports": ["XS.Lib.Bufio", "XS.Spec.ClientOps"],
    "kinds": {
        "validate": {"type": "case_validate", "chk": "chk_validate", "sig": "sig_validate", "scope": "N_scope"},
        "corrupt": {"type": "case_corrupt", "chk": "chk_corrupt", "sig": "sig_corrupt", "scope": "N_scope"},
        "client": {"type": "case_client", "chk": "chk_client", "sig": "sig_client", "scope": "N_scope"},
    },
    "rule": "validate: every string over {fa,ff,00,01,02,fe} up to length 4 (thorough 5), the same behind a fa ff header, corpus of past failures, random frames (lengths biased to 0,1,253-256,2046-2048) and 1-2 mutations each; every input with cap=len and cap=len+3. corrupt: frames x positions x deltas (all 255 deltas x all positions for one frame). non-trivial = the model's validate leaves through a branch other than 'too few bytes on empty input' / corruption of a well-formed frame; distinct = distinct case terms",
    "trusted": FRAME_TRUSTED,
    "assumptions": ["bytes are modelled as N < 256; String() is observed through its three output shapes"],
}

PROPS["C06"] = {
    "level_text": "Theorems (Props/C06.v): for every identifier and every payload of 0..2048 bytes new_message yields a wf_frame that validate accepts, whose accessors read back identifier/length/payload, extended exactly from 255 bytes, zero checksum, and which the reference segmentation (to which C01 reduces every read fragmentation) delivers unchanged; is_error/error_code characterised on every accepted frame. General proofs. Correspondence: every payload length 0..2048 (thorough; quick: every length to 300 then every 9th) and all 256 error codes against NewMessage/Validate/bufio.Scanner.",
    "level_note": "Trusted: Coq kernel, hand-written model of NewMessage (validated by correspondence), harness. No axioms. For Message.Validate and ScanMessages: Tie T (Tie/BytesAgree.v): the function as REGENERATED statement by statement from the Go source on every run (Gen/Bytes.v, every index/slice a possible panic) is proved equal to the hand-written model on every input, so the theorems speak about the current source; the correspondence runs then only validate the translator and the slice-capacity abstraction.",
    "technique": "Rocq proof over hand-written Gallina model + exhaustive-by-length correspondence (vm_compute)",
    "tie_files": ["Tie/ClientAgree.v", "Tie/ClientScannerOk.v", "Tie/EmulatorScannerOk.v", "Tie/BytesAgree.v"],
    "props_file": "Props/C06.v",
    "eval_modules": ["Run.EvalFrame", "Run.EvalClient", "Run.EvalEmu"],
    "imports": ["XS.Lib.Bufio", "XS.Spec.ClientOps", "XS.Model.Emulator"],
    "kinds": {"newmsg": {"type": "case_newmsg", "chk": "chk_newmsg", "sig": "sig_newmsg", "scope": "N_scope"},
              "validate": {"type": "case_validate", "chk": "chk_validate", "sig": "sig_validate", "scope": "N_scope"},
              "emu": {"type": "case_emu", "chk": "chk_emu", "sig": "sig_emu", "scope": "N_scope"},
              "client": {"type": "case_client", "chk": "chk_client", "sig": "sig_client", "scope": "N_scope"}},
    "rule": "NewMessage(mid, payload): boundary lengths x identifiers, every length (see tier), adversarial content (FA FF runs, embedded frames), all 256 error codes; observable = frame bytes, Validate verdict, tokens a real bufio.Scanner(ScanMessages) delivers under several read fragmentations (whole, byte by byte, one cut at each of the first 7 positions and before the checksum, a cut with an empty read, the frame twice with the second header split after its preamble), all accessors; non-trivial = payload non-empty / boundary length class / error identifier / contains FA; distinct = distinct case terms",
    "trusted": FRAME_TRUSTED,
    "assumptions": ["payload length < 65536 (the property quantifies over 0..2048)"],
}

PROPS["C07"] = {
    "level_text": "Theorems (Props/C07.v): packet_at returns exactly sub payload i (3+len) or 'insufficient', never out of bounds, for every payload and every offset; the returned packet lies inside the payload; walking a concatenation of packets recovers exactly them and ends at the payload's end (induction over the packet list); each step consumes >= 3 bytes; the constructor is correct for all lengths 0..255 and identifiers. Correspondence: alphabet-exhaustive payloads x all offsets x both capacities, random walks, all 256 constructor lengths.",
    "level_note": "Trusted: Coq kernel, hand-written model of mtdata2.go (validated by correspondence), Go slice model, harness. No axioms. For MTData2.PacketAt: Tie T (Tie/BytesAgree.v): the function as REGENERATED statement by statement from the Go source on every run (Gen/Bytes.v, every index/slice a possible panic) is proved equal to the hand-written model on every input, so the theorems speak about the current source; the correspondence runs then only validate the translator and the slice-capacity abstraction.",
    "technique": "Rocq proof (induction over packet lists) over hand-written Gallina model + exhaustive/differential correspondence",
    "tie_files": ["Tie/BytesAgree.v", "Tie/ClientAgree.v", "Tie/ClientScannerOk.v"],
    "props_file": "Props/C07.v",
    "eval_modules": ["Run.EvalFrame", "Run.EvalClient"],
    "imports": ["XS.Lib.Bufio", "XS.Spec.ClientOps"],
    "kinds": {
        "client": {"type": "case_client", "chk": "chk_client", "sig": "sig_client", "scope": "N_scope"},
        "pktat": {"type": "case_pktat", "chk": "chk_pktat", "sig": "sig_pktat", "scope": "N_scope"},
        "walk": {"type": "case_walk", "chk": "chk_walk", "sig": "sig_walk", "scope": "N_scope"},
        "newpkt": {"type": "case_newpkt", "chk": "chk_newpkt", "sig": "sig_newpkt", "scope": "N_scope"},
    },
    "rule": "pktat: every payload over {00,01,02,03,ff} up to length 4 (thorough 6) x every offset 0..len x capacity len and len+4; random packet sequences with offsets at/inside packets, truncations in the Message.Data() shape (spare capacity holding further bytes). walk: random packet sequences. newpkt: all 256 lengths x 4 identifiers. non-trivial = offset not at the end of an empty remainder / more than zero packets / length > 0; distinct = distinct case terms",
    "trusted": FRAME_TRUSTED,
    "assumptions": ["offsets are non-negative (the property quantifies over 0..len)"],
}

STREAM_TRUSTED = ["model of bufio.Scanner.Scan (Go 1.23.5, default 64 KiB limit) in coq/Lib/Bufio.v: validated against the real bufio on every run by the correspondence, not verified",
                  "chunking reader model: a read returns min(requested, room, remaining) bytes; 0-size entries are empty reads; the terminal error comes with the last data or by its own read"]

PROPS["C01"] = {
    "level_text": "Theorems (Props/C01.v), no bound on stream length, number of frames or schedule: (1) a stream of well-formed frames separated by pair-free noise has exactly those frames as its reference segmentation (induction over the frame list); (2) for every byte stream, every schedule of read sizes >= 0 with at most 100 consecutive empty reads, every terminal error and both (n, err) conventions, the statement-level model of bufio.Scanner.Scan composed with the model of ScanMessages delivers exactly the reference segmentation then the terminal error (induction on fuel with the buffer-geometry invariant), hence any two schedules agree. Models tied to ScanMessages and to the real bufio.Scanner by alphabet-exhaustive streams x all partitions and random streams x schedule families.",
    "level_note": "Trusted: Coq kernel; hand-written models of ScanMessages and of bufio.Scanner.Scan + chunking reader (validated by correspondence on every run); harness. No axioms. The error-with-data convention is proved when the reference segmentation does not end in TooLong (K1 shape). For the split function ScanMessages: Tie T (Tie/BytesAgree.v): the function as REGENERATED statement by statement from the Go source on every run (Gen/Bytes.v, every index/slice a possible panic) is proved equal to the hand-written model on every input, so the theorems speak about the current source; the correspondence runs then only validate the translator and the slice-capacity abstraction.",
    "technique": "Rocq proof by induction (fuel, geometry invariant) over Gallina models of ScanMessages and bufio.Scanner + exhaustive-partition/differential correspondence",
    "tie_files": ["Tie/ClientScannerOk.v", "Tie/BytesAgree.v"],
    "props_file": "Props/C01.v",
    "eval_modules": ["Run.EvalStream", "Run.EvalClient"],
    "imports": ["XS.Lib.Bufio", "XS.Spec.ClientOps"],
    "kinds": {
        "split": {"type": "case_split", "chk": "chk_split", "sig": "sig_split", "scope": "N_scope"},
        "scan": {"type": "case_scan", "chk": "chk_scan", "sig": "sig_scan", "scope": "N_scope"},
        "client": {"type": "case_client", "chk": "chk_client", "sig": "sig_client", "scope": "N_scope"},
    },
    "rule": "split: ScanMessages called directly on every string over {fa,ff,00,01,02,fe} up to length 4 (thorough 5), both atEOF values, header-prefixed variants, random prefixes of framed and arbitrary streams. scan: a real bufio.Scanner over the chunking reader: every stream over {fa,ff,00,01} up to length 4 (thorough 6) x EVERY partition into reads; corpus streams x every 2-cut; framed streams (noise without FA FF, payloads with FA/FF/FA FF, lengths biased to 0,1,253-256,2046-2048) and arbitrary streams (false headers, damaged frames) x schedule families (whole, all-ones, random chunks with empty reads incl. after the last byte, runs of 99/100 empty reads, cuts at each of the first 24 offsets) x terminal errors x both (n,err) conventions; the 64 KiB boundary. non-trivial (scan) = at least one token, an empty read, error-with-data, a non-EOF terminal or an explicit schedule; distinct = distinct case terms",
    "trusted": STREAM_TRUSTED,
    "assumptions": ["bufio.Scanner as shipped with the Go toolchain on PATH (1.23.5); Client uses it with the default buffer"],
}

PROPS["C13"] = {
    "level_text": "Theorems (Props/C13.v), for every payload and every destination (contents, length, capacity): the decoded configuration is map decode_group over the complete 4-byte groups (hence independent of the destination and of any history of earlier decodes into it - stated over arbitrary decode sequences), encode-after-decode clears only reserved identifier bits, decode-after-encode is the identity on in-range configurations. The identifier conversion inside the model is the SetUint16/Uint16 regenerated from source. Correspondence: payloads 0..512 bytes x prior destinations (nil, shorter, longer, spare capacity, junk-filled, aliased) x decode sequences, with the backing array's contents recorded before every call.",
    "level_note": "Trusted: Coq kernel, hand-written model of OutputConfiguration.Unmarshal/Marshal (validated by correspondence), translator for SetUint16/Uint16, Go slice/append model (destination = backing contents up to capacity), harness. No axioms.",
    "technique": "Rocq proof (induction over groups / decode sequences) over Gallina model using translator-generated identifier functions + differential correspondence",
    "tie_files": ["Tie/EmulatorScannerOk.v", "Tie/ConfAgree.v"],
    "props_file": "Props/C13.v",
    "eval_module": "Run.EvalConfig",
    "kinds": {
        "ocunm": {"type": "case_ocunm", "chk": "chk_ocunm", "sig": "sig_ocunm", "scope": "N_scope"},
        "ocmar": {"type": "case_ocmar", "chk": "chk_ocmar", "sig": "sig_ocmar", "scope": "N_scope"},
    },
    "rule": "ocunm: Unmarshal(payload) into a destination whose backing array (up to capacity) is recorded first; payload lengths biased to 0,1,3,4,5,7,8,...,511,512 and random 0..512; destinations nil / exact / too small / longer with spare capacity / empty-but-roomy / len<cap<needed / junk-filled, then three further decodes into the same destination and one through an aliasing header. ocmar: Marshal of in-range and out-of-range configurations, each decoded back into a junk destination. non-trivial = at least one group or a partial tail / non-empty configuration; distinct = distinct case terms",
    "trusted": ["Go append growth is observed, not modelled: every step records the actual backing array before the call"],
    "assumptions": ["settings are (DataType, CoordinateSystem, Precision, OutputFrequency) with Go's field widths"],
}

PROPS["C14"] = {
    "level_text": "Theorems (Props/C14.v): each query-result decoder is total (Ok or Err, never out of bounds) on every payload and returns the reference decoding: device id from the last 4 bytes of a 4- or 8-byte payload else Err; hardware version from exactly 2 bytes else Err; product code = payload minus leading/trailing ASCII whitespace (characterised, not restated); output / CAN configurations per C13 / C15; CAN bus configuration Err below 4 bytes. The command table (request, awaited acknowledge, decoder) is regenerated from client.go and proved equal to the protocol table. Correspondence through the real client: six queries x payload lengths 0..254.",
    "level_note": "Trusted: Coq kernel, hand-written decoder models (validated by correspondence), translator (command table), strings.TrimSpace modelled on ASCII input only, harness. No axioms. Tie T for the client's stateful core (Tie/ClientAgree.v): Client.Receive and Client.ScanMeasurementData as REGENERATED statement by statement from client.go on every run (Gen/ClientFns.v) are proved to agree with the model's receive / scan_md for every client state and every scanner step; the scanner step itself is the bufio model of C01.",
    "technique": "Rocq proof over Gallina decoder models + translator-generated command table + differential correspondence through Client.Get*",
    "props_file": "Props/C14.v",
    "tie_files": ["Tie/ClientScannerOk.v", "Tie/ConfAgree.v", "Tie/BytesAgree.v", "Tie/ClientAgree.v", "Tie/CommandsAgree.v"],
    "eval_module": "Run.EvalConfig",
    "kinds": {"query": {"type": "case_query", "chk": "chk_query", "sig": "sig_query", "scope": "N_scope"}},
    "rule": "each of the six Get* commands run on a real client whose port delivers an unrelated frame then the acknowledge with the given payload: every length 0..24 (3 contents each below 10), every 8th length to 248, 250..254, one extended-length payload; product code payloads are printable ASCII padded with all six ASCII whitespace characters; a returned value together with an error counts as a panic-class failure. non-trivial = non-empty payload; distinct = distinct case terms",
    "trusted": ["fmt %d.%d rendering of the hardware version is inverted by the harness (Sscanf) before comparison"],
    "assumptions": ["product code payloads are ASCII (the property's quantifier); non-ASCII Unicode spaces are outside the model"],
}

PROPS["C15"] = {
    "level_text": "Theorems (Props/C15.v): the bus configuration encodes to 4 bytes with bytes 0-1 zero, byte 2 <= 1, byte 3 < 128 and round-trips for both enable values and all 128 codes; output settings encode to 8 bytes each with reserved bits zero, decode-after-encode is the identity on in-range settings, encode-after-decode equals the input with reserved bits cleared and the ID mask replaced by the identifier, one setting per complete 8-byte group - general proofs via land/mod lemmas, induction over the byte string. Correspondence: 2 x 256 bus configurations (complete), payloads 0..8 bytes at both capacities, 0..32 settings with arbitrary fields, byte strings 0..256, fresh and reused receivers.",
    "level_note": "Trusted: Coq kernel, hand-written models of canconfig.go / canoutputconfiguration.go (validated by correspondence), harness. No axioms.",
    "technique": "Rocq proof (bit-mask algebra, induction) over Gallina model + exhaustive (bus config) and differential correspondence",
    "props_file": "Props/C15.v",
    "eval_module": "Run.EvalConfig",
    "kinds": {
        "canmar": {"type": "case_canmar", "chk": "chk_canmar", "sig": "sig_canmar", "scope": "N_scope"},
        "canunm": {"type": "case_canunm", "chk": "chk_canunm", "sig": "sig_canunm", "scope": "N_scope"},
        "comar": {"type": "case_comar", "chk": "chk_comar", "sig": "sig_comar", "scope": "N_scope"},
        "counm": {"type": "case_counm", "chk": "chk_counm", "sig": "sig_counm", "scope": "N_scope"},
    },
    "rule": "canmar: both enable values x all 256 int8 codes (complete). canunm: payloads of 0..8 bytes at capacity len and len+2, all 256 enable bytes. comar: 0..32 settings, in-range and arbitrary (identifier up to 255, frequency up to 65535 incl. 0xffff, random masks). counm: the encodings decoded into fresh and into reused receivers (backing array recorded), random byte strings 0..256. non-trivial = enable/code non-zero, non-empty input; distinct = distinct case terms",
    "trusted": [],
    "assumptions": ["in-range CAN setting: identifier < 128, frequency < 2048, mask = identifier (DESIGN section 10.4)"],
}

CLIENT_TRUSTED = STREAM_TRUSTED + ["scripted port: reads through the chunking reader, writes succeed or fail as planned",
                                   "Client.MeasurementData values are compared on the Go side with a fresh decoding of RawPacket() by the same Go type (the codecs themselves are C04)"]
CLIENT_KIND = {"type": "case_client", "chk": "chk_client", "sig": "sig_client", "scope": "N_scope"}
CLIENT_RULE = "a real Client over a scripted port executes an operation list (Receive, ScanMeasurementData, RawMessage, MessageIdentifier, DataType, RawPacket, MeasurementData, commands); every return value is compared with the Gallina client model (correspondence) and with the abstract client over the reference segmentation (oracle). non-trivial = at least one reported packet, rejected frame or command, error-with-data, or non-EOF terminal; distinct = distinct case terms. "

CLIENT_LEVEL_NOTE = "Trusted: Coq kernel; hand-written models of client.go, ScanMessages, message.go, mtdata2.go and of bufio.Scanner + scripted port (validated by correspondence on every run, not generated); translator (dispatch table, DataSize, command table); harness. No axioms."

PROPS["C03"] = {
    "level_text": "Theorem client_refines_spec (Props/C03.v): for every stream, read schedule (empty reads included), error convention and operation sequence, the model client - client.go rendered statement by statement over the bufio.Scanner model, with the dispatch table and size function regenerated from source - returns what the abstract client over the reference segmentation returns wherever the latter is defined (API protocol respected). On the abstract client: scan steps visit exactly the packets of the current measurement payload, once each, in wire order, true exactly for supported complete packets, then false for ever; at most |payload|/3 steps; after any receive no packet is current and everything scanned later belongs to the frame just delivered. Proof by a simulation relation preserved by every operation. Values: checked by the correspondence against a fresh decoding by the same Go type.",
    "level_note": CLIENT_LEVEL_NOTE + " Tie T for the client's stateful core (Tie/ClientAgree.v): Client.Receive and Client.ScanMeasurementData as REGENERATED statement by statement from client.go on every run (Gen/ClientFns.v) are proved to agree with the model's receive / scan_md for every client state and every scanner step; the scanner step itself is the bufio model of C01.",
    "technique": "Rocq refinement proof (simulation relation, induction over operation sequences) + differential correspondence on call sequences",
    "tie_files": ["Tie/ClientScannerOk.v", "Tie/FixedAgree.v", "Tie/BytesAgree.v", "Tie/ClientAgree.v"],
    "props_file": "Props/C03.v",
    "eval_modules": ["Run.EvalClient"],
    "imports": ["XS.Lib.Bufio", "XS.Spec.ClientOps"],
    "kinds": {"client": CLIENT_KIND},
    "rule": CLIENT_RULE + "C03 generators: 1-5 messages per stream: measurement messages of random packets over all 25 supported types x 4 precisions x 4 coordinate codes (reserved bits sometimes set) with well-sized, truncated, oversized and unknown-type packets, truncated payloads, other identifiers, corrupted frames; the documented receive/scan loop run adaptively, scanning completely or stopping half way; one clean message carrying all 25 types per precision x coordinate code; corrupted-frame streams",
    "trusted": CLIENT_TRUSTED,
    "assumptions": ["API protocol as in DESIGN section 10.1", "decoded values are compared on the Go side with a fresh decoding of RawPacket() (C04 covers the decoders)"],
}
PROPS["C08"] = {
    "level_text": "Theorems (Props/C08.v): the command table (request identifier, awaited identifier) regenerated from client.go equals the protocol table; step_refines covers commands, so any sequence of commands and receives on one client under any fragmentation behaves as the abstract client; on the abstract client: exactly one frame new_message(req, payload) is written (well-formed by C06), frames up to and including the first accepted frame with the awaited identifier are consumed skipping unrelated valid ones, that acknowledge is current (its packets scannable for go-to-measurement), the next receive yields the following frame; a failed write consumes nothing; no acknowledge => the end-of-stream cause.",
    "level_note": CLIENT_LEVEL_NOTE + " Tie T for the client's stateful core (Tie/ClientAgree.v): Client.Receive and Client.ScanMeasurementData as REGENERATED statement by statement from client.go on every run (Gen/ClientFns.v) are proved to agree with the model's receive / scan_md for every client state and every scanner step; the scanner step itself is the bufio model of C01.",
    "technique": "Rocq refinement proof + translator-generated command table + differential correspondence on command sequences",
    "props_file": "Props/C08.v",
    "tie_files": ["Tie/ClientScannerOk.v", "Tie/ConfAgree.v", "Tie/BytesAgree.v", "Tie/ClientAgree.v", "Tie/CommandsAgree.v"],
    "eval_modules": ["Run.EvalClient"],
    "imports": ["XS.Lib.Bufio", "XS.Spec.ClientOps"],
    "kinds": {"client": CLIENT_KIND},
    "rule": CLIENT_RULE + "C08 generators: 1-7 commands per case (each of the 11 at least twice; same command twice and Set-then-Get pairs), payloads from random output / CAN configurations incl. 64+ / 32 settings (extended-length requests), incoming stream = (unrelated valid frames)* ack (following frame) or no ack or a corrupted frame before the ack, planned write failures, every schedule family, both error conventions; after each command RawMessage/MessageIdentifier, for go-to-measurement a scan, then a receive",
    "trusted": CLIENT_TRUSTED,
    "assumptions": ["request payloads are produced by the library's own Marshal functions (C13, C15)"],
}
PROPS["C09"] = {
    "level_text": "Theorems (Props/C09.v): for every byte stream, read schedule and error convention, every observation the API protocol allows is a value, never a panic (client_refines_spec + the abstract client never asks for a panic); all model functions are total Gallina functions with explicit fuel and the fuel is shown sufficient (scan: mu+2, receive-until: pending+unread+2), so every call returns; at most |stream|/5 frames are delivered and at most |payload|/3 scan steps report a packet; every exported decoder model is total (never OOB/Panic). Partial: a port whose Read blocks for ever is outside any executable model.",
    "level_note": CLIENT_LEVEL_NOTE + " Runtime share not modelled: blocking reads.",
    "technique": "Rocq refinement proof + totality lemmas + differential correspondence on arbitrary / mutated streams",
    "tie_files": ["Tie/ClientScannerOk.v", "Tie/ConfAgree.v", "Tie/BytesAgree.v", "Tie/ClientAgree.v"],
    "props_file": "Props/C09.v",
    "eval_modules": ["Run.EvalClient", "Run.EvalConfig"],
    "imports": ["XS.Lib.Bufio", "XS.Spec.ClientOps"],
    "kinds": {"client": CLIENT_KIND,
              "counm": {"type": "case_counm", "chk": "chk_counm", "sig": "sig_counm", "scope": "N_scope"},
              "ocunm": {"type": "case_ocunm", "chk": "chk_ocunm", "sig": "sig_ocunm", "scope": "N_scope"}},
    "rule": CLIENT_RULE + "C09 generators: arbitrary protocol-heavy byte streams, uniformly random bytes, grammar-mutated valid traffic, bit-flipped windows of the five recorded captures, extended-length measurement messages whose packets tile 256 bytes; the documented loop run adaptively to the terminal error (three more receives after it), scanning also after rejected frames and after false steps",
    "trusted": CLIENT_TRUSTED,
    "assumptions": ["the reader always answers (a blocked Read is outside the model)"],
}
PROPS["C10"] = {
    "level_text": "Theorems (Props/C10.v): client_refines_spec for every prefix, failure point, error value, (n, err) convention (error with the last data or by its own read, 0-byte reads before it) and fragmentation; on the abstract client the receives deliver every complete frame of the prefix in order (accepted or rejected), never the incomplete tail, then the terminal cause on that and every later receive - the port's error when the reference segmentation does not end in TooLong (io.EOF = orderly end); a rejected frame is one element of that list, frames after it are delivered. The strict statement is refuted by computation for the oversize-header shape (finding K1, known_findings.txt).",
    "level_note": CLIENT_LEVEL_NOTE + " Finding K1 is recorded, not repaired: the check reports it as KNOWN-FINDING and fails for any other violation.",
    "technique": "Rocq refinement proof + refutation witness by vm_compute + differential correspondence with failure injection at every offset",
    "tie_files": ["Tie/ClientScannerOk.v", "Tie/BytesAgree.v", "Tie/ClientAgree.v"],
    "props_file": "Props/C10.v",
    "eval_modules": ["Run.EvalClient"],
    "imports": ["XS.Lib.Bufio", "XS.Spec.ClientOps"],
    "kinds": {"client10": {"type": "case_client", "chk": "chk_client10", "sig": "sig_client", "scope": "N_scope"}},
    "code3_key": "K1",
    "rule": CLIENT_RULE + "C10 generators: streams of 2-4 frames (some corrupted) cut at every byte offset (every k-th for long ones), the port failing there with a random error value, with the last data or by its own read, after 0-byte reads, under whole / all-ones / random schedules; receives continue four calls past the failure; corrupted frames at every position; the K1 witness (64 KiB behind an oversize header)",
    "trusted": CLIENT_TRUSTED,
    "assumptions": ["'the error chain contains the port's error' is observed with errors.As on the harness's port error type; 'carries the validation failure as its cause' = errors.Unwrap is non-nil and the text has no %!w(<nil>)"],
}

PROPS["C12"] = {
    "level_text": "Theorems (Props/C12.v) over functions and tables REGENERATED from source on every run - DataSize, SetUint16, the dispatch switch of Client.MeasurementData, each encoder's NewMTData2Package size, each decoder's binary.Read destination layout: for all 65536 wire identifiers (complete kernel sweep) the advertised size = encoder size = size of the value the decoder reads (its minimum: binary.Read fails exactly on shorter input) = the protocol's size, and it is non-zero exactly when the client dispatches the type; decoder layouts equal the protocol's layout table at every precision; fixed-layout encoders store the decoder's fields at the decoder's offsets. Exhaustive correspondence over the 65536 identifiers through the public API.",
    "level_note": "Trusted: Coq kernel + vm_compute; the translator (expressions, switch tables, layouts); 'binary.Read accepts iff the data has at least the value's size' (encoding/binary); the protocol table transcribed in Spec/LayoutSpec.v; harness. No axioms.",
    "technique": "Rocq proof by complete vm_compute sweep over translator-generated Gallina tables + exhaustive correspondence",
    "props_file": "Props/C12.v",
    "tie_files": ["Tie/BytesAgree.v", "Tie/LayoutsAgree.v"],
    "eval_module": "Run.EvalSizes",
    "kinds": {"size": {"type": "case_size", "chk": "chk_size", "sig": "sig_size", "scope": "Z_scope"}},
    "exhaustive": True,
    "rule": "for each of the 65536 wire identifiers: DataSize(); a measurement message holding one packet of that identifier with DataSize zero bytes is received by a real client: ScanMeasurementData result, MeasurementData() non-nil, the data length of MarshalMTData2Packet by the dispatched value, and whether a fresh value of the same type decodes DataSize and DataSize-1 bytes. non-trivial = the client dispatches the type; distinct = distinct case terms",
    "trusted": ["encoding/binary.Read size rule"],
    "assumptions": ["GNSSSatInfo: only the 8-byte header is decoded (the satellite list is ignored by the library)"],
}

CODEC_TRUSTED = ["IEEE-754 binary32/binary64 operations are Flocq's (BinarySingleNaN); uintN(float64) follows amd64 (truncation through a signed 64-bit conversion)",
                 "encoding/binary.Read semantics: big endian, field after field, fails without touching the destination when the data is short"]
PROPS["C04"] = {
    "level_text": "Layout: the decoder layouts (binary.Read destinations) and the fixed-layout encoders' stores are REGENERATED from measurementdata.go and proved equal to the protocol's layout table at every precision and to each other (Tie/LayoutsAgree); the precision-switched encoders (Scalar, VectorXYZ, Quaternion, RotationMatrix, LatLon) are tied by correspondence. Codec theorems (Props/C04.v): generic field-wise round trips by induction over any layout, per-kind lemmas (integers: all values; binary64: all bit patterns; binary32: narrow(widen x) = x for every non-NaN x; fixed point: C05), short data rejected. Correspondence: 25 types x 4 precisions x 4 coordinate codes x data patterns x every shorter length.",
    "level_note": "Trusted: Coq kernel; translator (layouts); Flocq as the IEEE-754 semantics; hand-written field codec model (validated by correspondence); protocol layout table; harness. Axioms: the standard-library real-number axioms and classic/functional extensionality that Flocq's correctness theorems depend on (listed in the evidence).",
    "technique": "Rocq proof (induction over generated layouts, Flocq for IEEE-754) + translator-generated layouts + differential correspondence",
    "props_file": "Props/C04.v",
    "tie_files": ["Tie/FixedAgree.v", "Tie/LayoutsAgree.v"],
    "eval_modules": ["Run.EvalCodec"],
    "imports": ["XS.Run.EvalConfig"],
    "kinds": {
        "codec": {"type": "case_codec", "chk": "chk_codec", "sig": "sig_codec", "scope": "N_scope"},
        "enc": {"type": "case_enc", "chk": "chk_enc", "sig": "sig_enc", "scope": "N_scope"},
    },
    "rule": "codec: for each of the 25 supported types x 4 precisions x 4 coordinate codes: data of the specified size in six patterns (all-00, all-ff, distinct bytes 01 02 03 .., sign-boundary lanes, plausible reals, random), every shorter length (sampled for the 94-byte record), longer data, reserved identifier bits; observable = decoded value (integers / float64 bit patterns), the packet obtained by re-encoding it, and whether an error left a pre-filled destination unchanged. enc: arbitrary values (reals of every magnitude incl. 0, -0, subnormal, max, inf, NaN; random integers) encoded at every precision. float32 NaN payloads are skipped (excepted by the property). non-trivial = every case (distinct precision/type/outcome signature); distinct = distinct case terms",
    "trusted": CODEC_TRUSTED,
    "assumptions": ["packets are header-complete (DESIGN 10.2)", "float-to-unsigned conversion of out-of-range values is outside the property"],
}
PROPS["C05"] = {
    "level_text": "Theorems (Props/C05.v) over the reals via Flocq, for every bit pattern (no enumeration): the float64 obtained from a 12.20 (16.32) field is exactly its two's-complement 32-bit (48-bit, fraction word first) integer divided by 2^20 (2^32) - float64(int) exact, division by a power of two exact; hence strictly monotone; re-encoding gives the same pattern; encoding an in-range float and decoding it again differs by less than one unit of resolution. Correspondence: boundary-biased and random patterns and floats against FP1220/FP1632.",
    "level_note": "Trusted: Coq kernel; Flocq as the IEEE-754 semantics; amd64 float-to-unsigned conversion; hand-written model of fixedpoint.go (validated by correspondence); harness. Axioms: standard-library real-number axioms, classic, functional extensionality (via Flocq/Reals). Tie T (Tie/FixedAgree.v): FP1220/FP1632 Float64 and FromFloat64 as REGENERATED statement by statement from fixedpoint.go on every run (Gen/Fixed.v) are proved equal to these models for every byte pattern and every binary64 value; float -> unsigned conversion and the IEEE operations remain those of Base/GoFloat.v (Flocq, amd64 conversion rule).",
    "technique": "Rocq proof over the reals (Flocq) of a Gallina model performing the same IEEE operations + differential correspondence",
    "tie_files": ["Tie/FixedAgree.v"],
    "props_file": "Props/C05.v",
    "eval_modules": ["Run.EvalCodec"],
    "imports": ["XS.Run.EvalConfig"],
    "kinds": {
        "codec": {"type": "case_codec", "chk": "chk_codec", "sig": "sig_codec", "scope": "N_scope"},
        "enc": {"type": "case_enc", "chk": "chk_enc", "sig": "sig_enc", "scope": "N_scope"},
        "fp": {"type": "case_fp", "chk": "chk_fp", "sig": "sig_fp", "scope": "N_scope"},
        "fpenc": {"type": "case_fpenc", "chk": "chk_fpenc", "sig": "sig_fpenc", "scope": "N_scope"},
    },
    "rule": "fp: patterns -> Float64() bits and FromFloat64(Float64()) bytes: every combination of edge bytes {00,01,7f,80,81,fe,ff} in each lane, all 256 high bytes of the integer word, random patterns (thorough: every third of the 65536 integer words). fpenc: in-range floats (boundaries: 0, -0, +-1 unit, half units, the range limits; exactly representable; small magnitudes; uniform) -> FromFloat64 bytes and their Float64(). non-trivial = every case; distinct = distinct case terms",
    "trusted": CODEC_TRUSTED,
    "assumptions": ["platform: amd64 (DESIGN 10.5)"],
}

PROPS["C20"] = {
    "level_text": "Theorems (Props/C20.v) over tables REGENERATED from source on every run (the stringer table of CANDataIdentifier interpreted for all 256 values, UnmarshalText's candidate list and loop shape, the constant list, CANBaudRate.ID, Ack, IsAck): every named identifier parses back from its text; for EVERY text, acceptance implies it is the name of a named identifier (so everything else is rejected); names equal the constant names, are pairwise distinct, 27 = 27; for EVERY integer rate the 13 supported ones map to their protocol codes (distinct, 0..127) and all others to -1; Ack(m) = m+1 below 255; IsAck(m) <-> m odd for all 256. Exhaustive correspondence over values, near-miss texts, a rate sweep.",
    "level_note": "Trusted: Coq kernel + vm_compute; translator (stringer interpreter, table extraction, expression rendering); protocol tables in Spec/ProtocolTables.v; harness. No axioms.",
    "technique": "Rocq proof over translator-generated tables (finite sweeps + general case analysis) + exhaustive correspondence",
    "props_file": "Props/C20.v",
    "eval_module": "Run.EvalTables",
    "kinds": {
        "canid": {"type": "case_canid", "chk": "chk_canid", "sig": "sig_canid", "scope": "Z_scope"},
        "cantext": {"type": "case_cantext", "chk": "chk_cantext", "sig": "sig_cantext", "scope": "Z_scope"},
        "baud": {"type": "case_baud", "chk": "chk_baud", "sig": "sig_baud", "scope": "Z_scope"},
        "ack": {"type": "case_ack", "chk": "chk_ack", "sig": "sig_ack", "scope": "Z_scope"},
    },
    "exhaustive": True,
    "rule": "canid: all 256 values: String() and UnmarshalText(String()). cantext: near-miss texts derived from every name (truncated, extended, case-changed, shifted, one character flipped, padded), default-format texts, random printable texts. baud: the 13 supported rates, neighbours, extremes, random rates. ack: all 256 message identifiers. non-trivial = named identifier / accepted text / supported rate / every identifier; distinct = distinct case terms",
    "trusted": [],
    "assumptions": ["texts containing a double quote or NUL are not generated (Coq string literal syntax)"],
}

PROPS["C19"] = {
    "level_text": "Theorems (Props/C19.v), general arithmetic proofs (lia with div/mod equations) with no bound on the day number: the year function is correct for EVERY day (dby(y) <= z < dby(y+1)), day numbers and valid civil dates are inverse bijections (month/day tables by complete 365/366 and 12 x 31 sweeps); hence instant -> record -> instant is the identity to the nanosecond for every instant of the years 1..9999 (any zone: zones do not change instants), record -> instant -> record is the identity on every record with valid calendar fields, the instant is the proleptic Gregorian UTC date and time of the fields (plus the signed nanosecond offset with borrow for the GNSS record); validity flags = bits 0,1,2 for all 256 bytes over the generated functions. Correspondence against Go's time package with boundary-biased instants and zones.",
    "level_note": "Trusted: Coq kernel; hand-written model of time.Date / Time.UTC().Date()/Clock() (validated against Go's time package by correspondence); translator (validity expressions); harness. No axioms.",
    "technique": "Rocq proof (linear arithmetic with div/mod, finite table sweeps) over a Gallina calendar model + differential correspondence against Go's time package",
    "props_file": "Props/C19.v",
    "eval_module": "Run.EvalTime",
    "kinds": {
        "t2r": {"type": "case_t2r", "chk": "chk_t2r", "sig": "sig_t2r", "scope": "Z_scope"},
        "r2t": {"type": "case_r2t", "chk": "chk_r2t", "sig": "sig_r2t", "scope": "Z_scope"},
        "gnss": {"type": "case_gnss", "chk": "chk_gnss", "sig": "sig_gnss", "scope": "Z_scope"},
        "valid": {"type": "case_valid", "chk": "chk_valid", "sig": "sig_valid", "scope": "Z_scope"},
    },
    "rule": "t2r: instants (years 1,2,4,100,399,400,401,1582,...,2024,2038,2100,2400,9998,9999 x leap days / month ends x day starts/ends x ns in {0,1,5e8,999999999}, random instants over years 1..9999) in twelve zones incl. +05:30, +05:45, -03:30, +13:45 -> UnmarshalTime -> Time. r2t: valid records (every month x first/last days, random) and invalid ones (Go normalises) -> Time -> UnmarshalTime. gnss: records x signed offsets {0, +-1, +-999999999, +-5e8, random} incl. second 0 and year boundaries. valid: all 256 validity bytes. non-trivial = non-UTC zone / non-zero ns / valid record / non-zero offset; distinct = distinct case terms",
    "trusted": ["Go's time package is the reference for the calendar model (differential)"],
    "assumptions": ["instants are compared as (Unix seconds, nanoseconds); monotonic clock readings and zone names are not part of an instant"],
}

EMU_NOTE = "Trusted: Coq kernel; event-level model of xsensemulator/emulator.go, proved equal (Tie/EmuAgree.v) to the statement-level translation of Receive (one loop iteration), Transmit, SetSendMode, SetOutputConguration and LastMessageIdentifier regenerated from emulator.go on every run, and validated by correspondence; the translator go/xlate (emufn.go: mutex operations are no-ops on the modelled state, the scanner results / context / port-write result are parameters); the frame model of C02; harness (drives a real emulator deterministically through a port that reports when the receive loop is idle). No axioms."
PROPS["C16"] = {
    "level_text": "Theorems (Props/C16.v) over Model.Link - client (send / receiveUntil with the identifiers of the generated command table) and emulator receive loop (Model.Emulator.estep split into 'update state' and 'write acknowledge') as separately scheduled steps over two FIFO channels - for EVERY schedule, every command sequence of any length and every configuration of up to 512 in-range settings: each enabled step consumes exactly one of 4*|cmds| units and some step is always enabled while a command is outstanding (so every command completes, none fails); whenever the client is between commands the emulator's mode and configuration are those of exactly the commands that have returned; MarshalMessage refuses a type iff no setting has it and otherwise uses the identifier of the setting of that type; in the data phase received ++ in-flight = transmitted (order, no loss/duplication/merging), every frame validates, Transmit writes iff the last command was go-to-measurement; on the skeleton regenerated from emulator.go, no path of an iteration of Receive writes shared state after a port write; and a marshalled measurement of a configured type is decoded by the client as exactly one packet of the dispatched Go type holding the value at the configured precision (unchanged when representable). Correspondence: real client + real emulator over synchronous and buffered in-memory links, GOMAXPROCS 1..16.",
    "level_note": "Channels carry frames: byte-level fragmentation independence is C01's theorem and the client's command loop refinement is C08's; the composition with them is by statement, not by a single Coq theorem. Goroutine scheduling itself is not modelled beyond interleaving of the four step kinds; the real runs only see the schedules that happen. The decoded-value clause is C16_configured_measurement_arrives (Proofs/DataPathProofs.v): generated dispatch table and layouts for the finite part, the generic codec theorems (Flocq; four standard-library axioms of the reals) for the values.",
    "technique": "Rocq proof (invariant + measure by induction over every schedule of an interleaving model; reflective order check of a skeleton translated from the Go AST on every run) + differential correspondence of real client/emulator runs against the model's canonical schedule",
    "tie_files": ["Tie/EmulatorScannerOk.v", "Tie/ClientScannerOk.v", "Tie/ConfAgree.v", "Tie/FixedAgree.v", "Tie/ClientAgree.v", "Tie/BytesAgree.v", "Tie/EmuAgree.v"],
    "props_file": "Props/C16.v",
    "eval_modules": ["Run.EvalLink"],
    "imports": ["XS.Model.Link"],
    "kinds": {"link": {"type": "case_link", "chk": "chk_link", "sig": "sig_link", "scope": "Z_scope"}},
    "rule": "command sequences: empty; the documented workflow for configuration sizes 1..25; reconfiguration to fewer settings (with and without returning to measurement); the same configuration twice; repeated mode commands; measuring with an empty configuration; random sequences of 0..12 (thorough 0..50) commands. Each on a synchronous (io.Pipe) and a buffered link, GOMAXPROCS drawn from {1,2,4,16}. After every command returns: LastMessageIdentifier and MarshalMessage for all 25 types + one unknown type, the types the command changed probed first. Then 0..12 transmissions of random values (types mostly from the configuration) while the client reads; per frame the client's typed value. Oracle: mode_after / conf_after of the returned commands, last-setting-wins identifiers, value at the configured precision (Model.Codec), order and count. non-trivial = at least one command; distinct = distinct terms",
    "trusted": CODEC_TRUSTED + ["in-memory links of the harness (io.Pipe; a mutex/cond buffered pipe) are lossless and ordered", "the observation after a command returns is taken from the harness goroutine as soon as the call returns"],
    "assumptions": ["lossless duplex link", "one client, commands issued sequentially", "measurements are transmitted after the command sequence (the property's 'then')"],
}

PROPS["C17"] = {
    "level_text": "Theorems (Props/C17.v): (metatheory, by induction over every interleaving of any number of threads) code whose every read of the shared fields happens inside a Lock..Unlock or RLock..RUnlock section of the one (RW)mutex, every write inside a Lock..Unlock section, and whose paths never return with a lock held, has no data race and never a thread inside a write section while another is inside any critical section (a writer excludes everybody, readers exclude the writer); (soundness of the static check) `disciplined s` implies this for every path of the statement, loops unrolled arbitrarily and early returns included; (the code) the lock/access skeleton of every method of xsensemulator.Emulator, REGENERATED from emulator.go on every run, is disciplined, hence any plan of emulator calls from any number of goroutines is race free and a concurrent encode reads the configuration inside one critical section, i.e. whole; and what the receive loop stores in its critical section (the generated OutputConfiguration.Unmarshal applied to the previous configuration, any contents/length/capacity) is the decoding of the command's payload alone - no component of the previous configuration survives. Dynamic side: the real emulator under Go's race detector with a receive loop and 2-4 hammering goroutines, and a mixture detector on the identifiers concurrent encodes return.",
    "level_note": "Go's memory model (DRF-SC) is assumed, not proved: race-free programs behave as some sequentially consistent interleaving. The skeleton abstracts each method to lock/unlock/read/write/call/return actions on the receiver's fields; aliasing through the slice passed to SetOutputConguration (the caller keeps a reference) is outside the model and stated as an assumption. The race detector only sees the schedules that happen.",
    "technique": "Rocq proof (lock-discipline metatheory by induction over interleavings + reflective check of a skeleton translated from the Go AST on every run) + race-detector / mixture-detector runs of the real emulator",
    "tie_files": ["Tie/ConfAgree.v"],
    "props_file": "Props/C17.v",
    "eval_modules": ["Run.EvalConc"],
    "kinds": {"skel": {"type": "case_skel", "chk": "chk_skel", "sig": "sig_skel", "scope": "Z_scope"},
              "mix": {"type": "case_mix", "chk": "chk_mix", "sig": "sig_mix", "scope": "Z_scope"}},
    "race_prop": "C17race",
    "rule": "skel: every exported method of *Emulator found by reflection must be present in the generated skeleton and disciplined. mix: a client alternates two configurations holding the probed type at opposite ends with different precisions (300 rounds quick, 3000 thorough; GOMAXPROCS 2,4,16; synchronous and buffered links) (the slot it occupies in one configuration holds a type with a non-default coordinate system in the other) while 1-4 goroutines encode that type; each distinct packet header they got (raw bytes) is a case and must be one of the two installed. race: the same with Transmit, SetSendMode, LastMessageIdentifier hammered too, under -race; any report is a failing input. non-trivial = all; distinct = distinct terms",
    "trusted": ["Go memory model: DRF-SC", "go/xlate skeleton extraction (field accesses by selector on the receiver, Lock/Unlock/RLock/RUnlock/defer (R)Unlock on e.mutex, e.port.Write as a port action, calls to own methods inlined as Call)", "Go's race detector (dynamic side only)"],
    "assumptions": ["callers do not keep mutating the slice they handed to SetOutputConguration", "one mutex field; accesses to port/w/sc are confined to the receive loop or are themselves synchronised (io.Writer port)"],
}

PROPS["C18"] = {
    "level_text": "Theorems (Props/C18.v), by induction over every event history from any state: Transmit writes nothing and reports not-in-measurement-mode outside measurement mode, refuses a frame that is not wf_frame (C02) with the validation failure, writes a wf_frame exactly once unchanged; every event either sets the mode (go-to-measurement / send-mode switch: measuring; go-to-config / set-output-configuration: not) or leaves it, hence measuring <-> the most recent mode-affecting event is go-to-measurement or the switch; only well-formed frames ever reach the port. Correspondence: bounded-exhaustive histories over the seven event kinds plus random longer ones on a real emulator.",
    "level_note": EMU_NOTE,
    "technique": "Rocq proof (induction over event histories) over a Gallina state machine + bounded-exhaustive / random differential correspondence",
    "tie_files": ["Tie/EmulatorScannerOk.v", "Tie/ConfAgree.v", "Tie/BytesAgree.v", "Tie/EmuAgree.v"],
    "props_file": "Props/C18.v",
    "eval_modules": ["Run.EvalEmu"],
    "imports": ["XS.Model.Emulator"],
    "kinds": {"emu": {"type": "case_emu", "chk": "chk_emu", "sig": "sig_emu", "scope": "N_scope"}},
    "rule": "every history of length 1..4 (thorough 5) over {go-to-config, set-output-configuration, go-to-measurement, unrelated command, send-mode switch, transmit(valid), transmit(malformed: bad checksum / cut in the header / LEN disagreeing with size / bad preamble / mutated)}, each followed by LastMessageIdentifier and two transmits; random histories of 6..15 events incl. SetOutputConguration, MarshalMessage probes and a corrupted incoming command (the receive loop returns). Observables: frames written per step, Transmit's error class, mode register. non-trivial = a frame was transmitted or refused / longer histories; distinct = distinct case terms",
    "trusted": ["deterministic drive of the receive loop: a frame is fed only when the loop waits for input"],
    "assumptions": ["events are sequential (C17 covers concurrent use)"],
}

# ---- ties of the shared models: an obligation of EVERY property whose cases or theorems go through that code, not only of
# the property that "owns" the function (the seeded changes of rounds 3-5 were mostly changes in shared code) ----
_CLIENT = ["Tie/ClientScannerOk.v", "Tie/BytesAgree.v", "Tie/ClientAgree.v"]
_EXTRA_TIES = {
    "C01": _CLIENT + ["Tie/CommandsAgree.v", "Tie/CanAgree.v"],
    "C02": _CLIENT + ["Tie/CommandsAgree.v"],
    "C04": _CLIENT + ["Tie/LayoutsAgree.v", "Tie/ConfAgree.v", "Tie/EmuAgree.v"],
    "C05": ["Tie/LayoutsAgree.v"],
    "C06": _CLIENT + ["Tie/CommandsAgree.v", "Tie/EmuAgree.v"],
    "C07": _CLIENT,
    "C10": _CLIENT + ["Tie/CommandsAgree.v"],
    "C11": _CLIENT + ["Tie/ConfAgree.v", "Tie/EmuAgree.v"],
    "C12": _CLIENT,
    "C13": _CLIENT + ["Tie/CommandsAgree.v"],
    "C15": _CLIENT + ["Tie/CommandsAgree.v", "Tie/CanAgree.v"],
    "C09": ["Tie/CanAgree.v"],
    "C14": ["Tie/CanAgree.v"],
    "C08": ["Tie/CanAgree.v"],
    "C17": ["Tie/EmuAgree.v"],
    "C19": _CLIENT + ["Tie/LayoutsAgree.v"],
}
_MORE = {
    "C19": ["Tie/TimeAgree.v", "Tie/GettersOk.v"],
    "C15": ["Tie/StructAgree.v"],
    "C14": ["Tie/StructAgree.v"],
    "C03": ["Tie/GettersOk.v"],
    "C04": ["Tie/EmuDisciplined.v"], "C06": ["Tie/EmuDisciplined.v"], "C11": ["Tie/EmuDisciplined.v"],
    "C16": ["Tie/EmuDisciplined.v"], "C18": ["Tie/EmuDisciplined.v"],
}
for _pid, _ties in _MORE.items():
    _EXTRA_TIES.setdefault(_pid, [])
    _EXTRA_TIES[_pid] = _EXTRA_TIES[_pid] + _ties
for _pid, _ties in _EXTRA_TIES.items():
    _cur = PROPS[_pid].setdefault("tie_files", [])
    for _t in _ties:
        if _t not in _cur:
            _cur.append(_t)

# ---- kinds shared across properties (the generators of one property are reused where another property's inputs go through
# the same code: frames built by the library's constructor, the split function, the mixture detector) ----
_NEWMSG = {"type": "case_newmsg", "chk": "chk_newmsg", "sig": "sig_newmsg", "scope": "N_scope"}
_SPLIT = {"type": "case_split", "chk": "chk_split", "sig": "sig_split", "scope": "N_scope"}
_MIX = {"type": "case_mix", "chk": "chk_mix", "sig": "sig_mix", "scope": "Z_scope"}


def _add_kind(pid, name, kind, module, imports=()):
    P = PROPS[pid]
    P["kinds"][name] = kind
    mods = P.get("eval_modules")
    if mods is None:
        mods = [P.pop("eval_module")]
        P["eval_modules"] = mods
    if module not in mods:
        mods.append(module)
    imps = P.setdefault("imports", [])
    for i in imports:
        if i not in imps:
            imps.append(i)


for _pid in ("C07", "C10", "C13", "C19"):
    _add_kind(_pid, "newmsg", _NEWMSG, "Run.EvalFrame")
_add_kind("C06", "split", _SPLIT, "Run.EvalStream", ["XS.Lib.Bufio"])
for _pid in ("C11", "C13"):
    _add_kind(_pid, "mix", _MIX, "Run.EvalConc")
_add_kind("C03", "codec", {"type": "case_codec", "chk": "chk_codec", "sig": "sig_codec", "scope": "N_scope"}, "Run.EvalCodec", ["XS.Run.EvalConfig"])
_add_kind("C13", "emu", {"type": "case_emu", "chk": "chk_emu", "sig": "sig_emu", "scope": "N_scope"}, "Run.EvalEmu", ["XS.Model.Emulator"])
# the order of state change and acknowledge in the emulator's receive loop (C16's reflective check on the regenerated skeleton)
for _pid in ("C04", "C06", "C11", "C13", "C16", "C17", "C18"):
    if "Tie/EmuOrderOk.v" not in PROPS[_pid]["tie_files"]:
        PROPS[_pid]["tie_files"].append("Tie/EmuOrderOk.v")
# C19's end-to-end cases go through the emulator
for _t in ("Tie/EmuAgree.v", "Tie/EmuDisciplined.v", "Tie/EmuOrderOk.v", "Tie/ConfAgree.v"):
    if _t not in PROPS["C19"]["tie_files"]:
        PROPS["C19"]["tie_files"].append(_t)

# ---- the serial port over UDP (round 8: six seeded changes went into xsensemulator/udpserialport.go, until then outside every
# model): regenerated (Gen/UdpFns.v), proved equal to Model/UdpPort.v (Tie/UdpAgree.v), exercised on real loop-back sockets ----
_UDP = {"type": "case_udp", "chk": "chk_udp", "sig": "sig_udp", "scope": "N_scope"}
for _pid in ("C01", "C06", "C07", "C08", "C18", "C19"):
    _add_kind(_pid, "udp", _UDP, "Run.EvalUdp", ["XS.Model.UdpPort"])
    if "Tie/UdpAgree.v" not in PROPS[_pid]["tie_files"]:
        PROPS[_pid]["tie_files"].append("Tie/UdpAgree.v")
    PROPS[_pid]["rule"] += (" Also (kind udp): the serial port over UDP on real loop-back sockets - frames of every boundary size"
                            " (0..2048 data bytes, around 1472-byte datagrams) in both directions in bursts, arbitrary slices with"
                            " small read buffers and interleaved directions, ports with and without a timeout (a read that waits for"
                            " a later write, a quiet line of 1.2 s, a deadline that passes), closed ports; an emulator transmitting"
                            " every size to the library's stream scanner.")
    PROPS[_pid]["level_note"] += (" The serial port over UDP (udpserialport.go) is regenerated statement by statement (go/xlate/udpfn.go;"
                                  " the connection's operations, address resolution and listening are parameters) and proved equal to"
                                  " Model/UdpPort.v (Tie/UdpAgree.v); the loop-back network is assumed first-in first-out and lossless"
                                  " (observed by the udp cases).")

# round 8: the scan called after a rejected frame (C19's timestamps must not come from a frame that failed validation); the
# query decoders under C09's totality clause
_add_kind("C19", "client", dict(PROPS["C07"]["kinds"]["client"]), "Run.EvalClient", ["XS.Lib.Bufio", "XS.Spec.ClientOps"])
_add_kind("C09", "query", dict(PROPS["C14"]["kinds"]["query"]), "Run.EvalConfig")
_add_kind("C12", "client", dict(PROPS["C07"]["kinds"]["client"]), "Run.EvalClient", ["XS.Lib.Bufio", "XS.Spec.ClientOps"])
_add_kind("C11", "newpkt", dict(PROPS["C07"]["kinds"]["newpkt"]), "Run.EvalFrame")
for _pid in ("C07", "C11"):
    PROPS[_pid]["rule"] += " Also: packets built for one identifier and re-identified with SetIdentifier (all format bits of the first one set in a third of the cases)."
for _pid in ("C12", "C19"):
    PROPS[_pid]["rule"] += " Also: the client's walk over decodable / undecodable / short packets in any order, the scan called again after a refusal."
    if "Tie/ClientAgree.v" not in PROPS[_pid]["tie_files"]:
        PROPS[_pid]["tie_files"].append("Tie/ClientAgree.v")
for _pid in ("C13", "C14"):
    PROPS[_pid]["rule"] += " Also: the port failing in the very read that brings the (last) acknowledge."
for _t in ("Tie/ClientAgree.v",):
    if _t not in PROPS["C19"]["tie_files"]:
        PROPS["C19"]["tie_files"].append(_t)
for _pid in ("C02", "C03", "C07", "C09", "C19"):
    PROPS[_pid]["rule"] += (" Also: a measurement frame that fails validation (one bit of its last payload byte or checksum flipped)"
                            " first or after a partly walked accepted frame, the packet scan, raw packet, type and value read after the refusal.")
PROPS["C09"]["rule"] += " Also: the six query commands on arbitrary reply payloads (C14's cases), each call under a 4 s guard."
PROPS["C14"]["rule"] += " Also: product codes padded with NUL bytes; every reply with its checksum byte arriving in a read of its own; each call under a 4 s guard."
PROPS["C10"]["rule"] += " Also: port errors whose chain ends in io.EOF (still the port's failure); a port that does not repeat its failure when read again."
PROPS["C12"]["rule"] += " Also: the short packet cut out of a full one by re-slicing (length byte unchanged, the missing byte behind the slice's end)."

# ---- what the later rounds of seeded changes added to the generators (appended to each property's rule, so that the
# evidence says what a run covered) ----
_RULE_MORE = {
    "C01": " Also: the command cases (every command after receives, the current message observed after it), two clients alive at once with interleaved receives.",
    "C02": " Also: Error-identifier frames with all 256 codes and payloads of 0, 2, 3, 254, 255 bytes; the command cases through the client.",
    "C03": " Also: maximal frames (2046..2048 data bytes) through the client; codec: the value the client hands out for packets with fixed-point fields at the ends of the range, against the reference decoding, re-encoded under the packet's identifier.",
    "C04": " Also: all ordered pairs of data types in one message through a client (first value read after the second was scanned); every decoded value encoded by an emulator configured with the packet's identifier, every 8th after a reconfiguration through its receive loop; cut-off packets (length byte = full size) with and without spare capacity; fields holding the largest / smallest fixed-point values.",
    "C05": " Also: type-level boundary patterns and values for scalar, pair, vector, quaternion and matrix types in both fixed precisions (oracle: an in-range component decodes to less than one unit away); cut-off fixed-point packets for every real-valued type.",
    "C06": " Also: the command cases through a client; validate cases (verdict, rendering, accessors) for Error-identifier frames; short prefixes of constructed frames to the split function in buffers that end there; frames of every boundary size handed to an emulator (kind emu).",
    "C07": " Also: the client's walk over decodable / undecodable / short packets, the scan called again after a refusal; the constructor's frames at the boundaries of the two length formats (kind newmsg).",
    "C08": " Also: damaged acknowledges, maximal frames and Error-identifier frames in front of the acknowledge; an extended acknowledge whose first five bytes end a completely filled 4096-byte scanner buffer.",
    "C09": " Also: the output-configuration and CAN-output-configuration decoders on kept and preallocated destinations in every relation of length, capacity and payload size; maximal frames through the client.",
    "C10": " Also: commands in the middle of a receive sequence (several frames per read, a read boundary inside a frame, a command after the failure was reported); frames announcing 2049..65529 bytes; the constructor's boundary frames.",
    "C11": " Also: every supported type x coordinate system x precision through an emulator (configured directly, and after a reconfiguration through its receive loop with an encode in between); all 65536 wire values through the client's DataType accessor; the mixture detector (two configurations alternated while other goroutines encode).",
    "C12": " Also: the decoders probed on views with spare capacity as well as on exact slices.",
    "C13": " Also: several GetOutputConfiguration calls on one client, every result examined after the last; configurations of 0..512 settings through the client's SetOutputConfiguration (the request payload is the case); the largest and the empty configuration as commands to an emulator (kind emu); the mixture detector; the constructor's boundary frames.",
    "C14": " Also: extended-length acknowledges; every query result examined after the same query was answered again; maximal unrelated frames in front of the reply.",
    "C15": " Also: kept and preallocated destinations in every relation of length, capacity and number of settings; 0..32 settings through a frame and the client.",
    "C16": " Also: transmitted fixed-point values at the ends of the ranges; trickling reads of 1, 2, 3, 5 bytes on both sides; a 400-frame burst.",
    "C17": " The probed type's slot holds a type with a non-default coordinate system in the other configuration; packet headers are compared as raw bytes.",
    "C18": " Also: commands of every boundary size (up to 2048 data bytes) in measurement mode followed by go-to-config and a transmit; configurations of 31..100 settings; commands fed in two reads cut after 1..4 bytes.",
    "C19": " Also: records sent as a UTCTime packet next to packets of each of the 511 other group/type values (standard and extended-length messages) and read back from the client; a pointer taken from the client's accessor once, read after each of three later messages; records end to end (client configures an emulator over a synchronous link, the emulator transmits as soon as go-to-measurement returned); the constructor's boundary frames.",
}
for _pid, _more in _RULE_MORE.items():
    PROPS[_pid]["rule"] = PROPS[_pid]["rule"] + _more

# ---- trust notes: which hand-written models are by now also tied by translation (tie T) ----
_NOTE_MORE = {
    "C13": " Tie T (Tie/ConfAgree.v): OutputConfiguration.Unmarshal and Marshal as REGENERATED statement by statement from outputconfiguration.go on every run (reslice-or-grow on capacity, append, the loops, SetUint16 in place) are proved equal to outconf_unmarshal / outconf_marshal for every destination, payload and configuration; the emulator's in-place decode is tied by Tie/EmuAgree.v.",
    "C14": " Tie T (Tie/StructAgree.v, Tie/CanAgree.v): DeviceID, HWVersion, ProductCode, CANConfig and CANOutputConfiguration decoders as regenerated from informationmessages.go / canconfig.go / canoutputconfiguration.go (the last with Go's slice aliasing) are proved equal to the reference decoders for every payload; the command methods must have the exact statement shape the command table is read from.",
    "C15": " Tie T (Tie/CanAgree.v, Tie/StructAgree.v): the output-configuration codec as regenerated with Go's slice aliasing (views, helpers translated in place) and the bus-configuration codec are proved equal to the models for every payload, destination and configuration; the decoder is proved to leave its payload unchanged.",
    "C19": " Tie T for the field mapping (Tie/TimeAgree.v): UTCTime.Time / UnmarshalTime and GNSSPVTData.Time as regenerated from measurementdata.go, with time.Date(.., time.UTC) and the accessors of ts.UTC() as parameters instantiated with the calendar model.",
    "C11": " Through the emulator: Tie/EmuAgree.v (MarshalMessage hands the encoder the last configured identifier of the type, unchanged), Tie/EmuDisciplined.v, Tie/EmuOrderOk.v; through the client: Tie/ClientAgree.v (DataType accessor).",
    "C07": " The client's walk: Tie/ClientAgree.v (ScanMeasurementData: cursor advance, dispatch and decode decisions).",
}
for _pid, _more in _NOTE_MORE.items():
    PROPS[_pid]["level_note"] = PROPS[_pid]["level_note"] + _more
PROPS["C15"]["technique"] = "Rocq proof (bit-mask algebra, induction) over a Gallina model proved equal to the statement-level translation of the Go codec (slice aliasing included) + exhaustive (bus config) and differential correspondence"

