"""Per-property configuration of the driver (./check)."""

COMMON_TRUSTED = [
    "Coq 8.16.1 kernel incl. its vm_compute machine (finite sweeps, model evaluation); native_compute not used",
    "go/xlate translator (go/parser + go/types): constants, switch tables, integer expressions, layouts, command table, emulator skeleton",
    "correspondence: go/harness (runs /repo's current working tree), its observable projection, coq/Run/Eval*.v comparison",
]

PROPS = {}

PROPS["C11"] = {
    "level_text": "Theorems (Props/C11.v) about the SetUint16/Uint16 functions regenerated from dataidentifier.go on every run, proved by complete kernel sweeps of the 16-bit domain; an exhaustive 65536-value correspondence ties them and the packet accessors to the compiled code. A finite domain enumerated completely inside the kernel is a proof for the whole quantifier.",
    "level_note": "Trusted: Coq kernel + vm_compute, the translator's rendering of Go integer expressions, the harness. No axioms.",
    "technique": "Rocq proof by complete vm_compute sweep over translator-generated Gallina + exhaustive correspondence",
    "props_file": "Props/C11.v",
    "eval_module": "Run.EvalC11",
    "kinds": {"id16": {"type": "case_id16", "chk": "chk_id16", "sig": "sig_id16", "scope": "Z_scope"}},
    "exhaustive": True,
    "rule": "complete enumeration of the 65536 wire values (SetUint16 into a junk-filled identifier, Uint16 back, "
            "and the same through MTData2Packet.SetIdentifier/Identifier); non-trivial = at least one field or reserved bit set; "
            "distinct = distinct case terms",
    "explanation": "theorems are about f_DataIdentifier_SetUint16/Uint16 regenerated from dataidentifier.go on this run; "
                   "the 65536-value correspondence ties them (and the packet accessors) to the compiled code",
    "trusted": ["Go integer semantics as rendered by the translator (wrap_u/wrap_s over Z)"],
    "assumptions": ["DataIdentifier components are the three struct fields DataType, CoordinateSystem, Precision"],
}
