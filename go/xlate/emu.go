package main

import (
	"bytes"
	"fmt"
	"go/ast"
	"go/parser"
	"go/token"
	"path/filepath"
	"sort"
	"strings"
)

// The lock/access skeleton of every method of xsensemulator.Emulator.
//
// Shared locations: outputConf -> Conf, lastMessageIdentifier -> Mode.  A shared field is WRITTEN when it is
// assigned, when its address is taken, or when it is the receiver of a pointer-receiver method (Unmarshal);
// otherwise an occurrence is a READ.  A local variable initialised from a shared slice field is an alias of
// its backing array: ranging over it or indexing it reads the location.  `return` ends the path (Ret);
// `defer mutex.Unlock()` unlocks before every return and at the end.  Calls of other Emulator methods are inlined.
var emuShared = map[string]string{"outputConf": "Conf", "lastMessageIdentifier": "Mode"}
var emuMutating = map[string]bool{"Unmarshal": true, "UnmarshalBinary": true}

type emuEmitter struct {
	x       *xl
	recv    string
	item    string
	alias   map[string]string // local -> location
	methods map[string]*ast.FuncDecl
	depth   int
	deferU  string // "" or the unlock action a deferred Unlock / RUnlock performs at every exit
	ok      bool
}

func (em *emuEmitter) fieldOf(e ast.Expr) (string, bool) {
	switch v := e.(type) {
	case *ast.SelectorExpr:
		if id, ok := v.X.(*ast.Ident); ok && id.Name == em.recv {
			if loc, ok := emuShared[v.Sel.Name]; ok {
				return loc, true
			}
		}
	case *ast.Ident:
		if loc, ok := em.alias[v.Name]; ok {
			return loc, true
		}
	case *ast.ParenExpr:
		return em.fieldOf(v.X)
	}
	return "", false
}

func (em *emuEmitter) isMutex(e ast.Expr) bool {
	if s, ok := e.(*ast.SelectorExpr); ok {
		if id, ok := s.X.(*ast.Ident); ok && id.Name == em.recv && s.Sel.Name == "mutex" {
			return true
		}
	}
	return false
}

// accesses lists the actions an expression performs, in evaluation order (approximately: left to right).
func (em *emuEmitter) accesses(e ast.Node, out *[]string) {
	if e == nil {
		return
	}
	ast.Inspect(e, func(n ast.Node) bool {
		switch v := n.(type) {
		case *ast.FuncLit:
			em.ok = false
			em.x.fail(em.item, "function literal")
			return false
		case *ast.CallExpr:
			if sel, ok := v.Fun.(*ast.SelectorExpr); ok {
				if em.isMutex(sel.X) {
					switch sel.Sel.Name {
					case "Lock":
						*out = append(*out, "Act ALock")
					case "Unlock":
						*out = append(*out, "Act AUnlock")
					case "RLock":
						*out = append(*out, "Act ARLock")
					case "RUnlock":
						*out = append(*out, "Act ARUnlock")
					default:
						em.ok = false
						em.x.fail(em.item, "unsupported mutex operation %s", sel.Sel.Name)
					}
					return false
				}
				// a write to the port: e.port.Write(...)
				if ps, ok := sel.X.(*ast.SelectorExpr); ok && sel.Sel.Name == "Write" && ps.Sel.Name == "port" {
					if id, ok := ps.X.(*ast.Ident); ok && id.Name == em.recv {
						for _, a := range v.Args {
							em.accesses(a, out)
						}
						*out = append(*out, "Act APort")
						return false
					}
				}
				if loc, ok := em.fieldOf(sel.X); ok {
					for _, a := range v.Args {
						em.accesses(a, out)
					}
					if emuMutating[sel.Sel.Name] {
						*out = append(*out, "Act (AWr "+loc+")")
					} else {
						*out = append(*out, "Act (ARd "+loc+")")
					}
					return false
				}
				// a call of another method of the emulator: inline its skeleton
				if id, ok := sel.X.(*ast.Ident); ok && id.Name == em.recv {
					if fd, ok := em.methods[sel.Sel.Name]; ok {
						for _, a := range v.Args {
							em.accesses(a, out)
						}
						if em.depth > 3 {
							em.ok = false
							em.x.fail(em.item, "call depth")
							return false
						}
						sub := &emuEmitter{x: em.x, recv: fd.Recv.List[0].Names[0].Name, item: em.item, alias: map[string]string{},
							methods: em.methods, depth: em.depth + 1, ok: true}
						body := sub.method(fd)
						if !sub.ok {
							em.ok = false
						}
						*out = append(*out, "Call ("+body+")")
						return false
					}
				}
			}
		case *ast.UnaryExpr:
			if v.Op == token.AND {
				if loc, ok := em.fieldOf(v.X); ok {
					*out = append(*out, "Act (AWr "+loc+")")
					return false
				}
			}
		case *ast.SelectorExpr:
			if loc, ok := em.fieldOf(v); ok {
				*out = append(*out, "Act (ARd "+loc+")")
				return false
			}
			if em.isMutex(v) {
				em.ok = false
				em.x.fail(em.item, "mutex used as a value")
				return false
			}
		case *ast.Ident:
			if loc, ok := em.alias[v.Name]; ok {
				*out = append(*out, "Act (ARd "+loc+")")
			}
		}
		return true
	})
}

func seqS(parts []string) string {
	var keep []string
	for _, p := range parts {
		if p != "Skip" {
			keep = append(keep, p)
		}
	}
	if len(keep) == 0 {
		return "Skip"
	}
	if len(keep) == 1 {
		return keep[0]
	}
	return "Seq (" + keep[0] + ") (" + seqS(keep[1:]) + ")"
}

func choiceS(parts []string) string {
	if len(parts) == 0 {
		return "Skip"
	}
	if len(parts) == 1 {
		return parts[0]
	}
	return "Choice (" + parts[0] + ") (" + choiceS(parts[1:]) + ")"
}

func (em *emuEmitter) block(stmts []ast.Stmt) string {
	var parts []string
	for _, st := range stmts {
		parts = append(parts, em.stmt(st))
	}
	return seqS(parts)
}

func (em *emuEmitter) ret() string {
	if em.deferU != "" {
		return "Seq (Act " + em.deferU + ") (Ret)"
	}
	return "Ret"
}

func (em *emuEmitter) stmt(st ast.Stmt) string {
	switch x := st.(type) {
	case nil:
		return "Skip"
	case *ast.AssignStmt:
		var acc []string
		for _, r := range x.Rhs {
			em.accesses(r, &acc)
		}
		for i, l := range x.Lhs {
			if loc, ok := em.fieldOf(l); ok {
				if _, isIdent := l.(*ast.Ident); !isIdent {
					acc = append(acc, "Act (AWr "+loc+")")
					continue
				}
			}
			switch lv := l.(type) {
			case *ast.Ident:
				// a local initialised from a shared slice field aliases its backing array
				delete(em.alias, lv.Name)
				if i < len(x.Rhs) {
					if loc, ok := em.fieldOf(x.Rhs[i]); ok && loc == "Conf" {
						em.alias[lv.Name] = loc
					}
				}
			case *ast.IndexExpr:
				if loc, ok := em.fieldOf(lv.X); ok {
					em.accesses(lv.Index, &acc)
					acc = append(acc, "Act (AWr "+loc+")")
				} else {
					em.accesses(l, &acc)
				}
			default:
				em.accesses(l, &acc)
			}
		}
		if len(acc) == 0 {
			return "Act ALocal"
		}
		return seqS(acc)
	case *ast.ExprStmt:
		var acc []string
		em.accesses(x.X, &acc)
		if len(acc) == 0 {
			return "Act ALocal"
		}
		return seqS(acc)
	case *ast.IncDecStmt:
		var acc []string
		if loc, ok := em.fieldOf(x.X); ok {
			acc = append(acc, "Act (ARd "+loc+")", "Act (AWr "+loc+")")
		}
		return seqS(append(acc, "Act ALocal"))
	case *ast.IfStmt:
		var pre []string
		if x.Init != nil {
			pre = append(pre, em.stmt(x.Init))
		}
		em.accesses(x.Cond, &pre)
		els := "Skip"
		if x.Else != nil {
			els = em.stmt(x.Else)
		}
		pre = append(pre, "Choice ("+em.block(x.Body.List)+") ("+els+")")
		return seqS(pre)
	case *ast.BlockStmt:
		return em.block(x.List)
	case *ast.ForStmt:
		var pre []string
		if x.Init != nil {
			pre = append(pre, em.stmt(x.Init))
		}
		var cond []string
		em.accesses(x.Cond, &cond)
		body := []string{}
		body = append(body, cond...)
		body = append(body, em.block(x.Body.List))
		if x.Post != nil {
			body = append(body, em.stmt(x.Post))
		}
		pre = append(pre, "Loop ("+seqS(body)+")")
		pre = append(pre, cond...)
		return seqS(pre)
	case *ast.RangeStmt:
		var acc []string
		em.accesses(x.X, &acc)
		body := []string{}
		if loc, ok := em.fieldOf(x.X); ok {
			body = append(body, "Act (ARd "+loc+")") // each iteration copies an element out of the shared array
		}
		body = append(body, em.block(x.Body.List))
		acc = append(acc, "Loop ("+seqS(body)+")")
		return seqS(acc)
	case *ast.SwitchStmt:
		var pre []string
		if x.Init != nil {
			pre = append(pre, em.stmt(x.Init))
		}
		em.accesses(x.Tag, &pre)
		var alts []string
		hasDefault := false
		for _, c := range x.Body.List {
			cc := c.(*ast.CaseClause)
			if cc.List == nil {
				hasDefault = true
			}
			var cs []string
			for _, e := range cc.List {
				em.accesses(e, &cs)
			}
			cs = append(cs, em.block(cc.Body))
			alts = append(alts, seqS(cs))
		}
		if !hasDefault {
			alts = append(alts, "Skip")
		}
		pre = append(pre, choiceS(alts))
		return seqS(pre)
	case *ast.SelectStmt:
		var alts []string
		for _, c := range x.Body.List {
			cc := c.(*ast.CommClause)
			var cs []string
			if cc.Comm != nil {
				cs = append(cs, em.stmt(cc.Comm))
			}
			cs = append(cs, em.block(cc.Body))
			alts = append(alts, seqS(cs))
		}
		return choiceS(alts)
	case *ast.ReturnStmt:
		var acc []string
		for _, r := range x.Results {
			em.accesses(r, &acc)
		}
		return seqS(append(acc, em.ret()))
	case *ast.DeclStmt:
		return "Skip"
	case *ast.BranchStmt:
		if x.Tok == token.CONTINUE || x.Tok == token.BREAK {
			// over-approximated as falling out of the enclosing construct: no action
			return "Skip"
		}
	case *ast.DeferStmt:
		if sel, ok := x.Call.Fun.(*ast.SelectorExpr); ok && em.isMutex(sel.X) && (sel.Sel.Name == "Unlock" || sel.Sel.Name == "RUnlock") {
			em.deferU = "A" + sel.Sel.Name
			return "Skip"
		}
	case *ast.GoStmt:
	}
	em.ok = false
	em.x.fail(em.item, "unsupported statement %T", st)
	return "Skip"
}

func (em *emuEmitter) method(fd *ast.FuncDecl) string {
	// defer is method-wide: find it first
	for _, st := range fd.Body.List {
		if d, ok := st.(*ast.DeferStmt); ok {
			if sel, ok := d.Call.Fun.(*ast.SelectorExpr); ok && em.isMutex(sel.X) && (sel.Sel.Name == "Unlock" || sel.Sel.Name == "RUnlock") {
				em.deferU = "A" + sel.Sel.Name
			}
		}
	}
	body := em.block(fd.Body.List)
	// a value receiver copies the whole struct - every shared field - when the method is called, before any lock
	if len(fd.Recv.List) == 1 {
		if _, isPtr := fd.Recv.List[0].Type.(*ast.StarExpr); !isPtr {
			body = "Seq (Act (ARd Mode)) (Seq (Act (ARd Conf)) (" + body + "))"
		}
	}
	if em.deferU != "" {
		body = "Seq (" + body + ") (Act " + em.deferU + ")"
	}
	return body
}

func (x *xl) emulator(w *bytes.Buffer, repo string) {
	w.WriteString("(* GENERATED by go/xlate from xsensemulator/emulator.go: the lock/access skeleton of every Emulator method. Do not edit. *)\n")
	w.WriteString("From Coq Require Import List String.\nRequire Import XS.Model.Conc.\nImport ListNotations.\n\n")
	fset := token.NewFileSet()
	f, err := parser.ParseFile(fset, filepath.Join(repo, "xsensemulator", "emulator.go"), nil, 0)
	if err != nil {
		x.fail("emulator skeleton", "parse: %v", err)
		w.WriteString("Definition emu_methods : list (string * stmt) := [].\n")
		return
	}
	methods := map[string]*ast.FuncDecl{}
	var names []string
	for _, d := range f.Decls {
		fd, ok := d.(*ast.FuncDecl)
		if !ok || fd.Recv == nil || fd.Body == nil || len(fd.Recv.List[0].Names) == 0 {
			continue
		}
		if recvTypeName(fd.Recv.List[0].Type) != "Emulator" {
			continue
		}
		methods[fd.Name.Name] = fd
		names = append(names, fd.Name.Name)
	}
	sort.Strings(names)
	// the struct must still have exactly the shared fields we know about guarded by one mutex
	var rows []string
	for _, nm := range names {
		fd := methods[nm]
		em := &emuEmitter{x: x, recv: fd.Recv.List[0].Names[0].Name, item: "emulator method " + nm, alias: map[string]string{}, methods: methods, ok: true}
		body := em.method(fd)
		if !em.ok {
			// keep the file compilable; an undisciplined stub makes the obligation fail
			body = "Act (AWr Mode)"
		}
		fmt.Fprintf(w, "Definition m_%s : stmt :=\n  %s.\n\n", nm, body)
		rows = append(rows, fmt.Sprintf("(%s%%string, m_%s)", coqString(nm), nm))
	}
	fmt.Fprintf(w, "Definition emu_methods : list (string * stmt) := [%s].\n", strings.Join(rows, "; "))
	// the fields of the struct, to notice new shared state
	var fields []string
	ast.Inspect(f, func(n ast.Node) bool {
		ts, ok := n.(*ast.TypeSpec)
		if !ok || ts.Name.Name != "Emulator" {
			return true
		}
		if st, ok := ts.Type.(*ast.StructType); ok {
			for _, fl := range st.Fields.List {
				for _, nm := range fl.Names {
					fields = append(fields, coqString(nm.Name)+"%string")
				}
			}
		}
		return false
	})
	fmt.Fprintf(w, "\nDefinition emu_fields : list string := [%s].\n", strings.Join(fields, "; "))
}
