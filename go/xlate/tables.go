package main

import (
	"bytes"
	"fmt"
	"go/ast"
	"go/constant"
	"go/token"
	"go/types"
	"sort"
	"strconv"
	"strings"
)

// evalInt evaluates an integer/boolean expression over one free variable.
func (x *xl) evalInt(e ast.Expr, name string, val int64) (int64, bool) {
	if tv, ok := x.info.Types[e]; ok && tv.Value != nil {
		switch tv.Value.Kind() {
		case constant.Int:
			v, ok := constant.Int64Val(tv.Value)
			return v, ok
		case constant.Bool:
			if constant.BoolVal(tv.Value) {
				return 1, true
			}
			return 0, true
		}
	}
	switch v := e.(type) {
	case *ast.ParenExpr:
		return x.evalInt(v.X, name, val)
	case *ast.Ident:
		if v.Name == name {
			return val, true
		}
	case *ast.BinaryExpr:
		a, ok1 := x.evalInt(v.X, name, val)
		b, ok2 := x.evalInt(v.Y, name, val)
		if !ok1 || !ok2 {
			return 0, false
		}
		bi := func(c bool) int64 {
			if c {
				return 1
			}
			return 0
		}
		switch v.Op {
		case token.ADD:
			return a + b, true
		case token.SUB:
			return a - b, true
		case token.LEQ:
			return bi(a <= b), true
		case token.LSS:
			return bi(a < b), true
		case token.GEQ:
			return bi(a >= b), true
		case token.GTR:
			return bi(a > b), true
		case token.EQL:
			return bi(a == b), true
		case token.LAND:
			return bi(a != 0 && b != 0), true
		case token.LOR:
			return bi(a != 0 || b != 0), true
		}
	}
	return 0, false
}

// stringerTable interprets the stringer-generated String() of an integer type for every value 0..255.
// Values that take the default branch ("Type(" + decimal + ")") are left out.
func (x *xl) stringerTable(typ string) (map[int64]string, string, bool) {
	item := "stringer " + typ
	fd := x.funcs[typ+".String"]
	if fd == nil || len(fd.Body.List) != 1 {
		x.fail(item, "String() not found or not a single switch")
		return nil, "", false
	}
	sw, ok := fd.Body.List[0].(*ast.SwitchStmt)
	if !ok || sw.Tag != nil {
		x.fail(item, "String() is not a tagless switch")
		return nil, "", false
	}
	recv := fd.Recv.List[0].Names[0].Name
	// package-level index arrays
	arrays := map[string][]int64{}
	for _, f := range x.files {
		for _, d := range f.Decls {
			gd, ok := d.(*ast.GenDecl)
			if !ok || gd.Tok != token.VAR {
				continue
			}
			for _, sp := range gd.Specs {
				vs := sp.(*ast.ValueSpec)
				for i, nm := range vs.Names {
					if i < len(vs.Values) {
						if cl, ok := vs.Values[i].(*ast.CompositeLit); ok {
							var vals []int64
							good := true
							for _, el := range cl.Elts {
								tv := x.info.Types[el]
								if tv.Value == nil {
									good = false
									break
								}
								v, _ := constant.Int64Val(tv.Value)
								vals = append(vals, v)
							}
							if good {
								arrays[nm.Name] = vals
							}
						}
					}
				}
			}
		}
	}
	constStr := func(e ast.Expr) (string, bool) {
		tv := x.info.Types[e]
		if tv.Value != nil && tv.Value.Kind() == constant.String {
			return constant.StringVal(tv.Value), true
		}
		return "", false
	}
	out := map[int64]string{}
	prefix := ""
	for v := int64(0); v < 256; v++ {
		matched := false
		for _, c := range sw.Body.List {
			cc := c.(*ast.CaseClause)
			if cc.List == nil {
				continue
			}
			hit := false
			for _, cond := range cc.List {
				r, ok := x.evalInt(cond, recv, v)
				if !ok {
					x.fail(item, "unrecognised case condition %s", types.ExprString(cond))
					return nil, "", false
				}
				if r != 0 {
					hit = true
				}
			}
			if !hit {
				continue
			}
			matched = true
			i := v
			var ret *ast.ReturnStmt
			for _, st := range cc.Body {
				switch s := st.(type) {
				case *ast.AssignStmt:
					if s.Tok == token.SUB_ASSIGN && len(s.Lhs) == 1 && types.ExprString(s.Lhs[0]) == recv {
						k, ok := x.evalInt(s.Rhs[0], recv, i)
						if !ok {
							x.fail(item, "unrecognised adjustment")
							return nil, "", false
						}
						i -= k
						continue
					}
					x.fail(item, "unrecognised statement in case body")
					return nil, "", false
				case *ast.ReturnStmt:
					ret = s
				default:
					x.fail(item, "unrecognised statement in case body")
					return nil, "", false
				}
			}
			if ret == nil || len(ret.Results) != 1 {
				x.fail(item, "case without a single return")
				return nil, "", false
			}
			switch r := ret.Results[0].(type) {
			case *ast.SliceExpr:
				s, ok := constStr(r.X)
				lo, ok1 := r.Low.(*ast.IndexExpr)
				hi, ok2 := r.High.(*ast.IndexExpr)
				if !ok || !ok1 || !ok2 {
					x.fail(item, "unrecognised slice expression")
					return nil, "", false
				}
				arr := arrays[types.ExprString(lo.X)]
				li, okl := x.evalInt(lo.Index, recv, i)
				hi2, okh := x.evalInt(hi.Index, recv, i)
				if arr == nil || !okl || !okh || li < 0 || hi2 >= int64(len(arr)) || types.ExprString(lo.X) != types.ExprString(hi.X) {
					x.fail(item, "index array access out of range for value %d", v)
					return nil, "", false
				}
				a, b := arr[li], arr[hi2]
				if a < 0 || b > int64(len(s)) || a > b {
					x.fail(item, "name slice out of range for value %d", v)
					return nil, "", false
				}
				out[v] = s[a:b]
			default:
				s, ok := constStr(r)
				if !ok {
					x.fail(item, "unrecognised return expression")
					return nil, "", false
				}
				out[v] = s
			}
			break
		}
		if !matched {
			// default clause must be "Type(" + strconv.FormatInt(int64(i), 10) + ")"
			for _, c := range sw.Body.List {
				cc := c.(*ast.CaseClause)
				if cc.List != nil {
					continue
				}
				if len(cc.Body) != 1 {
					x.fail(item, "unrecognised default clause")
					return nil, "", false
				}
				r, ok := cc.Body[0].(*ast.ReturnStmt)
				want := fmt.Sprintf("%s + strconv.FormatInt(int64(%s), 10) + \")\"", strconv.Quote(typ+"("), recv)
				if !ok || len(r.Results) != 1 || types.ExprString(r.Results[0]) != want {
					x.fail(item, "unrecognised default clause")
					return nil, "", false
				}
				prefix = typ + "("
			}
		}
	}
	return out, prefix, true
}

func (x *xl) tables(w *bytes.Buffer) {
	w.WriteString("(* GENERATED by go/xlate: hand-maintained lookup tables of /repo as data. Do not edit. *)\n")
	w.WriteString("From Coq Require Import ZArith List String.\nImport ListNotations.\nOpen Scope Z_scope.\n\n")
	// 1. the CANDataIdentifier constants
	var consts []string
	names := x.pkg.Scope().Names()
	sort.Strings(names)
	type cv struct {
		name string
		val  int64
	}
	var cvs []cv
	for _, nm := range names {
		c, ok := x.pkg.Scope().Lookup(nm).(*types.Const)
		if !ok {
			continue
		}
		if named, ok := c.Type().(*types.Named); ok && named.Obj().Name() == "CANDataIdentifier" {
			v, _ := constant.Int64Val(c.Val())
			cvs = append(cvs, cv{nm, v})
		}
	}
	sort.Slice(cvs, func(i, j int) bool { return cvs[i].val < cvs[j].val })
	for _, c := range cvs {
		consts = append(consts, fmt.Sprintf("(%d, %s%%string)", c.val, coqString(strings.TrimPrefix(c.name, "CANDataIdentifier"))))
	}
	fmt.Fprintf(w, "(* the named constants of type CANDataIdentifier: value, constant name without its prefix *)\nDefinition can_id_constants : list (Z * string) := [%s].\n\n", strings.Join(consts, "; "))
	// 2. the stringer table
	tbl, prefix, ok := x.stringerTable("CANDataIdentifier")
	var rows []string
	if ok {
		var keys []int64
		for k := range tbl {
			keys = append(keys, k)
		}
		sort.Slice(keys, func(i, j int) bool { return keys[i] < keys[j] })
		for _, k := range keys {
			rows = append(rows, fmt.Sprintf("(%d, %s%%string)", k, coqString(tbl[k])))
		}
	}
	fmt.Fprintf(w, "(* CANDataIdentifier.String() for every value 0..255 that does not take the default branch *)\nDefinition can_id_strings : list (Z * string) := [%s].\nDefinition can_id_default_prefix : string := %s%%string.\n\n", strings.Join(rows, "; "), coqString(prefix))
	// 3. knownIDs of UnmarshalText, and the shape of its loop
	item := "CANDataIdentifier.UnmarshalText"
	var known []string
	fd := x.funcs[item]
	shapeOK := false
	if fd == nil {
		x.fail(item, "function not found")
	} else if len(fd.Body.List) == 3 {
		as, ok1 := fd.Body.List[0].(*ast.AssignStmt)
		rg, ok2 := fd.Body.List[1].(*ast.RangeStmt)
		rt, ok3 := fd.Body.List[2].(*ast.ReturnStmt)
		if ok1 && ok2 && ok3 && len(as.Rhs) == 1 && len(as.Lhs) == 1 {
			cl, isLit := as.Rhs[0].(*ast.CompositeLit)
			lhs := types.ExprString(as.Lhs[0])
			if isLit && types.ExprString(rg.X) == lhs && rg.Value != nil && len(rg.Body.List) == 1 && len(rt.Results) == 1 &&
				strings.HasPrefix(types.ExprString(rt.Results[0]), "fmt.Errorf(") {
				d := types.ExprString(rg.Value)
				recv := fd.Recv.List[0].Names[0].Name
				text := fd.Type.Params.List[0].Names[0].Name
				ifs, isIf := rg.Body.List[0].(*ast.IfStmt)
				if isIf && ifs.Else == nil && ifs.Init == nil &&
					types.ExprString(ifs.Cond) == d+".String() == string("+text+")" && len(ifs.Body.List) == 2 &&
					stmtString(x, ifs.Body.List[0]) == "*"+recv+" = "+d && stmtString(x, ifs.Body.List[1]) == "return nil" {
					shapeOK = true
					for _, el := range cl.Elts {
						tv := x.info.Types[el]
						if tv.Value == nil {
							shapeOK = false
							break
						}
						v, _ := constant.Int64Val(tv.Value)
						known = append(known, fmt.Sprint(v))
					}
				}
			}
		}
		if !shapeOK {
			x.fail(item, "unrecognised shape (expected: knownIDs literal; for range { if d.String() == string(text) { *i = d; return nil } }; return error)")
			known = nil
		}
	} else {
		x.fail(item, "unrecognised shape")
	}
	fmt.Fprintf(w, "(* the candidates UnmarshalText tries, in order; it returns the first whose String() equals the text *)\nDefinition can_id_known : list Z := [%s].\n", strings.Join(known, "; "))
}

func stmtString(x *xl, s ast.Stmt) string {
	switch v := s.(type) {
	case *ast.AssignStmt:
		if len(v.Lhs) == 1 && len(v.Rhs) == 1 && v.Tok == token.ASSIGN {
			return types.ExprString(v.Lhs[0]) + " = " + types.ExprString(v.Rhs[0])
		}
	case *ast.ReturnStmt:
		var parts []string
		for _, r := range v.Results {
			parts = append(parts, types.ExprString(r))
		}
		return "return " + strings.Join(parts, ", ")
	}
	return "?"
}
