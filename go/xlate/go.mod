module xlate

go 1.23
