package main

import "bytes"

func extra(x *xl, f *bytes.Buffer, buf func(string) *bytes.Buffer) {
}
