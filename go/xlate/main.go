// Command xlate regenerates the Gallina files under coq/Gen from the current source of /repo.
//
// It is deliberately conservative: a source shape it does not recognise is an error
// ("translation broken for <item>"), never a guess.
//
//	xlate <repo> <outdir>
package main

import (
	"bytes"
	"fmt"
	"go/ast"
	"go/constant"
	"go/importer"
	"go/parser"
	"go/token"
	"go/types"
	"os"
	"path/filepath"
	"sort"
	"strings"
)

type xl struct {
	fset  *token.FileSet
	pkg   *types.Package
	info  *types.Info
	files []*ast.File
	funcs map[string]*ast.FuncDecl // "Recv.Name" or "Name"
	errs  []string
}

func (x *xl) fail(item string, format string, args ...interface{}) {
	x.errs = append(x.errs, fmt.Sprintf("translation broken for %s: %s", item, fmt.Sprintf(format, args...)))
}

func load(dir string) (*xl, error) {
	fset := token.NewFileSet()
	pkgs, err := parser.ParseDir(fset, dir, func(fi os.FileInfo) bool {
		return !strings.HasSuffix(fi.Name(), "_test.go") && fi.Name() != "tools.go"
	}, parser.ParseComments)
	if err != nil {
		return nil, err
	}
	p, ok := pkgs["xsens"]
	if !ok {
		return nil, fmt.Errorf("package xsens not found in %s", dir)
	}
	var names []string
	for n := range p.Files {
		names = append(names, n)
	}
	sort.Strings(names)
	x := &xl{fset: fset, funcs: map[string]*ast.FuncDecl{}}
	for _, n := range names {
		x.files = append(x.files, p.Files[n])
	}
	conf := types.Config{Importer: importer.ForCompiler(fset, "source", nil)}
	x.info = &types.Info{
		Defs:       map[*ast.Ident]types.Object{},
		Uses:       map[*ast.Ident]types.Object{},
		Types:      map[ast.Expr]types.TypeAndValue{},
		Selections: map[*ast.SelectorExpr]*types.Selection{},
	}
	x.pkg, err = conf.Check("go.einride.tech/xsens", fset, x.files, x.info)
	if err != nil {
		return nil, err
	}
	for _, f := range x.files {
		for _, d := range f.Decls {
			fd, ok := d.(*ast.FuncDecl)
			if !ok || fd.Body == nil {
				continue
			}
			key := fd.Name.Name
			if fd.Recv != nil && len(fd.Recv.List) == 1 {
				key = recvTypeName(fd.Recv.List[0].Type) + "." + key
			}
			x.funcs[key] = fd
		}
	}
	return x, nil
}

func recvTypeName(e ast.Expr) string {
	switch t := e.(type) {
	case *ast.StarExpr:
		return recvTypeName(t.X)
	case *ast.Ident:
		return t.Name
	}
	return "?"
}

// ---------------------------------------------------------------------------------------------
// integer types

type ity struct {
	bits   int
	signed bool
}

func intType(t types.Type) (ity, bool) {
	b, ok := t.Underlying().(*types.Basic)
	if !ok {
		return ity{}, false
	}
	switch b.Kind() {
	case types.Uint8:
		return ity{8, false}, true
	case types.Uint16:
		return ity{16, false}, true
	case types.Uint32:
		return ity{32, false}, true
	case types.Uint64, types.Uint, types.Uintptr:
		return ity{64, false}, true
	case types.Int8:
		return ity{8, true}, true
	case types.Int16:
		return ity{16, true}, true
	case types.Int32:
		return ity{32, true}, true
	case types.Int64, types.Int:
		return ity{64, true}, true
	case types.UntypedInt, types.UntypedRune:
		return ity{0, true}, true // no wrap
	}
	return ity{}, false
}

func wrap(t ity, e string) string {
	if t.bits == 0 {
		return e
	}
	if t.signed {
		return fmt.Sprintf("(wrap_s %d %s)", t.bits, e)
	}
	return fmt.Sprintf("(wrap_u %d %s)", t.bits, e)
}

func zlit(v constant.Value) (string, bool) {
	if v.Kind() != constant.Int {
		return "", false
	}
	s := v.ExactString()
	if strings.HasPrefix(s, "-") {
		return "(" + s + ")", true
	}
	return s, true
}

// ---------------------------------------------------------------------------------------------
// expression translation (integers are Z, booleans are bool)

type env struct {
	x     *xl
	item  string
	recv  string            // receiver identifier
	vars  map[string]string // Go identifier -> Gallina variable
	field func(name string) string
	ok    bool
}

func (e *env) bad(n ast.Node, why string) string {
	e.ok = false
	var buf bytes.Buffer
	fmt.Fprintf(&buf, "%s at %s", why, e.x.fset.Position(n.Pos()))
	e.x.fail(e.item, "%s", buf.String())
	return "(* ? *) 0"
}

func (e *env) expr(n ast.Expr) string {
	tv, have := e.x.info.Types[n]
	if have && tv.Value != nil {
		switch tv.Value.Kind() {
		case constant.Int:
			s, _ := zlit(tv.Value)
			return s
		case constant.Bool:
			if constant.BoolVal(tv.Value) {
				return "true"
			}
			return "false"
		}
	}
	switch v := n.(type) {
	case *ast.ParenExpr:
		return e.expr(v.X)
	case *ast.Ident:
		if g, ok := e.vars[v.Name]; ok {
			return g
		}
		return e.bad(n, "unknown identifier "+v.Name)
	case *ast.StarExpr:
		return e.expr(v.X)
	case *ast.SelectorExpr:
		if id, ok := v.X.(*ast.Ident); ok && id.Name == e.recv && e.field != nil {
			return e.field(v.Sel.Name)
		}
		// nested field access on the receiver, e.g. d.Precision (embedded) -- only one level supported
		return e.bad(n, "unsupported selector")
	case *ast.UnaryExpr:
		t, isInt := intType(tv.Type)
		switch v.Op {
		case token.SUB:
			if isInt {
				return wrap(t, "(- "+e.expr(v.X)+")")
			}
		case token.NOT:
			return "(negb " + e.expr(v.X) + ")"
		case token.XOR:
			if isInt {
				return wrap(t, "(Z.lnot "+e.expr(v.X)+")")
			}
		case token.ADD:
			return e.expr(v.X)
		}
		return e.bad(n, "unsupported unary operator "+v.Op.String())
	case *ast.BinaryExpr:
		a, b := e.expr(v.X), e.expr(v.Y)
		t, isInt := intType(tv.Type)
		switch v.Op {
		case token.LAND:
			return "(" + a + " && " + b + ")"
		case token.LOR:
			return "(" + a + " || " + b + ")"
		case token.EQL, token.NEQ, token.LSS, token.LEQ, token.GTR, token.GEQ:
			if _, ok := intType(e.x.info.Types[v.X].Type); !ok {
				if bt, isB := e.x.info.Types[v.X].Type.Underlying().(*types.Basic); isB && bt.Info()&types.IsBoolean != 0 {
					switch v.Op {
					case token.EQL:
						return "(Bool.eqb " + a + " " + b + ")"
					case token.NEQ:
						return "(negb (Bool.eqb " + a + " " + b + "))"
					}
				}
				return e.bad(n, "comparison of non-integers")
			}
			switch v.Op {
			case token.EQL:
				return "(" + a + " =? " + b + ")"
			case token.NEQ:
				return "(negb (" + a + " =? " + b + "))"
			case token.LSS:
				return "(" + a + " <? " + b + ")"
			case token.LEQ:
				return "(" + a + " <=? " + b + ")"
			case token.GTR:
				return "(" + b + " <? " + a + ")"
			case token.GEQ:
				return "(" + b + " <=? " + a + ")"
			}
		}
		if !isInt {
			return e.bad(n, "non-integer arithmetic")
		}
		switch v.Op {
		case token.ADD:
			return wrap(t, "("+a+" + "+b+")")
		case token.SUB:
			return wrap(t, "("+a+" - "+b+")")
		case token.MUL:
			return wrap(t, "("+a+" * "+b+")")
		case token.QUO:
			return wrap(t, "(Z.quot "+a+" "+b+")")
		case token.REM:
			return wrap(t, "(Z.rem "+a+" "+b+")")
		case token.AND:
			return wrap(t, "(Z.land "+a+" "+b+")")
		case token.OR:
			return wrap(t, "(Z.lor "+a+" "+b+")")
		case token.XOR:
			return wrap(t, "(Z.lxor "+a+" "+b+")")
		case token.AND_NOT:
			return wrap(t, "(Z.land "+a+" (Z.lnot "+b+"))")
		case token.SHL:
			return wrap(t, "(Z.shiftl "+a+" "+b+")")
		case token.SHR:
			return wrap(t, "(Z.shiftr "+a+" "+b+")")
		}
		return e.bad(n, "unsupported binary operator "+v.Op.String())
	case *ast.CallExpr:
		// conversion T(x)
		if ftv, ok := e.x.info.Types[v.Fun]; ok && ftv.IsType() && len(v.Args) == 1 {
			if t, ok := intType(ftv.Type); ok {
				if _, srcInt := intType(e.x.info.Types[v.Args[0]].Type); srcInt {
					return wrap(t, e.expr(v.Args[0]))
				}
			}
			return e.bad(n, "unsupported conversion")
		}
		// method call recvExpr.M() on a translated function
		if sel, ok := v.Fun.(*ast.SelectorExpr); ok && len(v.Args) == 0 {
			if s := e.x.info.Selections[sel]; s != nil && s.Kind() == types.MethodVal {
				rt := s.Recv()
				if p, isPtr := rt.(*types.Pointer); isPtr {
					rt = p.Elem()
				}
				if named, isNamed := rt.(*types.Named); isNamed {
					if _, isInt := intType(named); isInt {
						return "(f_" + named.Obj().Name() + "_" + sel.Sel.Name + " " + e.expr(sel.X) + ")"
					}
				}
			}
		}
		return e.bad(n, "unsupported call")
	}
	return e.bad(n, fmt.Sprintf("unsupported expression %T", n))
}

// block translates a statement list whose every path ends in a return into one Gallina term.
// ret renders the returned expressions; cont is the continuation when the list ends without return.
func (e *env) block(stmts []ast.Stmt, ret func([]ast.Expr) string, cont func() string) string {
	if len(stmts) == 0 {
		if cont == nil {
			e.ok = false
			e.x.fail(e.item, "path without return")
			return "0"
		}
		return cont()
	}
	rest := func() string { return e.block(stmts[1:], ret, cont) }
	switch s := stmts[0].(type) {
	case *ast.ReturnStmt:
		return ret(s.Results)
	case *ast.IfStmt:
		if s.Init != nil {
			return e.bad(s, "if with init statement")
		}
		els := rest
		if s.Else != nil {
			switch eb := s.Else.(type) {
			case *ast.BlockStmt:
				els = func() string { return e.block(eb.List, ret, rest) }
			case *ast.IfStmt:
				els = func() string { return e.block([]ast.Stmt{eb}, ret, rest) }
			}
		}
		return "(if " + e.expr(s.Cond) + " then " + e.block(s.Body.List, ret, rest) + " else " + els() + ")"
	case *ast.SwitchStmt:
		if s.Init != nil {
			return e.bad(s, "switch with init statement")
		}
		tag := ""
		if s.Tag != nil {
			tag = e.expr(s.Tag)
		}
		var deflt *ast.CaseClause
		var clauses []*ast.CaseClause
		for _, c := range s.Body.List {
			cc := c.(*ast.CaseClause)
			if cc.List == nil {
				deflt = cc
			} else {
				clauses = append(clauses, cc)
			}
		}
		for _, cc := range clauses {
			for _, st := range cc.Body {
				if b, ok := st.(*ast.BranchStmt); ok && b.Tok == token.FALLTHROUGH {
					return e.bad(b, "fallthrough")
				}
			}
		}
		out := ""
		closing := ""
		for _, cc := range clauses {
			var conds []string
			for _, c := range cc.List {
				if tag != "" {
					conds = append(conds, "("+tag+" =? "+e.expr(c)+")")
				} else {
					conds = append(conds, e.expr(c))
				}
			}
			out += "(if " + strings.Join(conds, " || ") + " then " + e.block(cc.Body, ret, rest) + " else "
			closing += ")"
		}
		if deflt != nil {
			out += e.block(deflt.Body, ret, rest)
		} else {
			out += rest()
		}
		return out + closing
	case *ast.AssignStmt:
		// receiver field update: d.F = e   (pointer receiver)  -> let d_F := e in ...
		if len(s.Lhs) == 1 && len(s.Rhs) == 1 && s.Tok == token.ASSIGN {
			if sel, ok := s.Lhs[0].(*ast.SelectorExpr); ok {
				if id, ok := sel.X.(*ast.Ident); ok && id.Name == e.recv && e.field != nil {
					name := e.field(sel.Sel.Name)
					return "(let " + name + " := " + e.expr(s.Rhs[0]) + " in " + rest() + ")"
				}
			}
		}
		return e.bad(s, "unsupported assignment")
	}
	return e.bad(stmts[0], fmt.Sprintf("unsupported statement %T", stmts[0]))
}

// ---------------------------------------------------------------------------------------------

func (x *xl) consts(w *bytes.Buffer) {
	w.WriteString("(* GENERATED by go/xlate from the package-level constants of /repo. Do not edit. *)\n")
	w.WriteString("From Coq Require Import ZArith String.\nOpen Scope Z_scope.\n\n")
	names := x.pkg.Scope().Names()
	sort.Strings(names)
	n := 0
	for _, nm := range names {
		c, ok := x.pkg.Scope().Lookup(nm).(*types.Const)
		if !ok || nm == "_" {
			continue
		}
		switch c.Val().Kind() {
		case constant.Int:
			s, _ := zlit(c.Val())
			fmt.Fprintf(w, "Definition c_%s : Z := %s.\n", nm, s)
			n++
		case constant.String:
			fmt.Fprintf(w, "Definition c_%s : string := %s%%string.\n", nm, coqString(constant.StringVal(c.Val())))
			n++
		}
	}
	fmt.Fprintf(w, "\nDefinition n_constants : Z := %d.\n", n)
}

func coqString(s string) string {
	return "\"" + strings.ReplaceAll(s, "\"", "\"\"") + "\""
}

type fnSpec struct {
	key    string   // Recv.Name
	fields []string // receiver struct fields (empty: the receiver is an integer named like the Go receiver)
	update bool     // pointer receiver updating fields; result = tuple of fields
}

func (x *xl) intFunc(w *bytes.Buffer, sp fnSpec) {
	item := "func " + sp.key
	fd, ok := x.funcs[sp.key]
	if !ok {
		x.fail(item, "function not found")
		fmt.Fprintf(w, "(* translation broken: function not found *)\nDefinition f_%s (a b c d : Z) := 0.\n\n", strings.ReplaceAll(sp.key, ".", "_"))
		return
	}
	e := &env{x: x, item: item, vars: map[string]string{}, ok: true}
	var params []string
	if fd.Recv != nil && len(fd.Recv.List[0].Names) == 1 {
		e.recv = fd.Recv.List[0].Names[0].Name
	}
	if len(sp.fields) > 0 {
		e.field = func(name string) string {
			for _, f := range sp.fields {
				if f == name {
					return e.recv + "_" + name
				}
			}
			e.ok = false
			x.fail(item, "access to unexpected field %s", name)
			return "0"
		}
		for _, f := range sp.fields {
			params = append(params, e.recv+"_"+f)
		}
	} else if e.recv != "" {
		e.vars[e.recv] = e.recv
		params = append(params, e.recv)
	}
	for _, p := range fd.Type.Params.List {
		for _, nm := range p.Names {
			e.vars[nm.Name] = nm.Name
			params = append(params, nm.Name)
		}
	}
	ret := func(rs []ast.Expr) string {
		if sp.update {
			return e.bad(fd, "return with value in updating function")
		}
		if len(rs) == 2 {
			if id, ok := rs[1].(*ast.Ident); !ok || id.Name != "nil" {
				return e.bad(rs[1], "second result is not nil")
			}
			return e.expr(rs[0])
		}
		if len(rs) != 1 {
			return e.bad(fd, "unsupported number of results")
		}
		return e.expr(rs[0])
	}
	var cont func() string
	if sp.update {
		cont = func() string {
			var fs []string
			for _, f := range sp.fields {
				fs = append(fs, e.recv+"_"+f)
			}
			return "(" + strings.Join(fs, ", ") + ")"
		}
	}
	body := e.block(fd.Body.List, ret, cont)
	name := "f_" + strings.ReplaceAll(sp.key, ".", "_")
	ps := ""
	if len(params) > 0 {
		ps = " (" + strings.Join(params, " ") + " : Z)"
	}
	if !e.ok {
		// keep the generated file compilable: a stub of the right type; Tie/TranslationOk.v fails on it
		stub := "0"
		if sp.update {
			stub = cont()
		} else if res := fd.Type.Results; res != nil && len(res.List) > 0 {
			if bt, ok := x.info.Types[res.List[0].Type].Type.Underlying().(*types.Basic); ok && bt.Info()&types.IsBoolean != 0 {
				stub = "false"
			}
		}
		fmt.Fprintf(w, "(* translation broken: stub *)\nDefinition %s%s := %s.\n\n", name, ps, stub)
		return
	}
	fmt.Fprintf(w, "Definition %s%s :=\n  %s.\n\n", name, ps, body)
}

// dispatch: the switch of Client.MeasurementData as (data type, slot field, slot type)
func (x *xl) dispatch(out *bytes.Buffer) {
	n0 := len(x.errs)
	w := &bytes.Buffer{}
	defer func() {
		if len(x.errs) > n0 {
			out.WriteString("(* translation broken: stub *)\nDefinition dispatch_table : list (Z * (string * string)) := [].\n\n")
		} else {
			out.Write(w.Bytes())
		}
	}()
	item := "Client.MeasurementData"
	fd, ok := x.funcs[item]
	if !ok {
		x.fail(item, "function not found")
		return
	}
	var sw *ast.SwitchStmt
	for _, st := range fd.Body.List {
		if s, ok := st.(*ast.SwitchStmt); ok {
			sw = s
		}
	}
	if sw == nil || len(fd.Body.List) != 2 {
		x.fail(item, "expected `switch ... ; return nil`")
		return
	}
	// tag must be c.mtData2Packet.Identifier().DataType
	if types.ExprString(sw.Tag) != fd.Recv.List[0].Names[0].Name+".mtData2Packet.Identifier().DataType" {
		x.fail(item, "unexpected switch tag %s", types.ExprString(sw.Tag))
		return
	}
	if r, ok := fd.Body.List[1].(*ast.ReturnStmt); !ok || len(r.Results) != 1 || types.ExprString(r.Results[0]) != "nil" {
		x.fail(item, "expected final `return nil`")
		return
	}
	fmt.Fprintf(w, "Definition dispatch_table : list (Z * (string * string)) := [\n")
	first := true
	for _, c := range sw.Body.List {
		cc := c.(*ast.CaseClause)
		if cc.List == nil {
			x.fail(item, "default clause")
			return
		}
		if len(cc.Body) != 1 {
			x.fail(item, "case body is not a single return")
			return
		}
		r, ok := cc.Body[0].(*ast.ReturnStmt)
		if !ok || len(r.Results) != 1 {
			x.fail(item, "case body is not a single return")
			return
		}
		u, ok := r.Results[0].(*ast.UnaryExpr)
		if !ok || u.Op != token.AND {
			x.fail(item, "case does not return the address of a slot")
			return
		}
		sel, ok := u.X.(*ast.SelectorExpr)
		if !ok {
			x.fail(item, "case does not return the address of a slot")
			return
		}
		ty := x.info.Types[sel].Type
		tname := ""
		if named, ok := types.Unalias(ty).(*types.Named); ok {
			tname = named.Obj().Name()
		} else {
			x.fail(item, "slot %s has an unnamed type", sel.Sel.Name)
			return
		}
		for _, v := range cc.List {
			tv := x.info.Types[v]
			if tv.Value == nil {
				x.fail(item, "non-constant case")
				return
			}
			s, _ := zlit(tv.Value)
			if !first {
				w.WriteString(";\n")
			}
			first = false
			fmt.Fprintf(w, "  (%s, (%s%%string, %s%%string))", s, coqString(sel.Sel.Name), coqString(tname))
		}
	}
	w.WriteString("\n].\n\n")
}

func writeIfChanged(path string, data []byte) error {
	old, err := os.ReadFile(path)
	if err == nil && bytes.Equal(old, data) {
		return nil
	}
	return os.WriteFile(path, data, 0o644)
}

func main() {
	if len(os.Args) != 3 {
		fmt.Fprintln(os.Stderr, "usage: xlate <repo> <outdir>")
		os.Exit(2)
	}
	repo, out := os.Args[1], os.Args[2]
	if err := os.Chdir(repo); err != nil {
		fmt.Fprintln(os.Stderr, err)
		os.Exit(2)
	}
	x, err := load(".")
	if err != nil {
		fmt.Fprintln(os.Stderr, "translation broken for package xsens:", err)
		os.Exit(2)
	}
	files := map[string]*bytes.Buffer{}
	buf := func(name string) *bytes.Buffer {
		b := &bytes.Buffer{}
		files[name] = b
		return b
	}
	x.consts(buf("Consts.v"))

	f := buf("Funcs.v")
	f.WriteString("(* GENERATED by go/xlate from function bodies of /repo. Do not edit. *)\n")
	f.WriteString("From Coq Require Import ZArith List String Bool.\nRequire Import XS.Base.GoInt.\nImport ListNotations.\nOpen Scope Z_scope.\nOpen Scope bool_scope.\n\n")
	for _, sp := range []fnSpec{
		{key: "MessageIdentifier.Ack"},
		{key: "MessageIdentifier.IsAck"},
		{key: "UTCValidity.IsDateValid"},
		{key: "UTCValidity.IsTimeOfDayValid"},
		{key: "UTCValidity.IsTimeOfDayFullyResolved"},
		{key: "Precision.Size"},
		{key: "DataType.HasPrecision"},
		{key: "DataType.HasCoordinateSystem"},
		{key: "DataIdentifier.Uint16", fields: []string{"DataType", "CoordinateSystem", "Precision"}},
		{key: "DataIdentifier.SetUint16", fields: []string{"DataType", "CoordinateSystem", "Precision"}, update: true},
		{key: "DataIdentifier.DataSize", fields: []string{"DataType", "CoordinateSystem", "Precision"}},
		{key: "CANBaudRate.ID"},
		{key: "CANOutputConfigurationSetting.DefaultIDMask", fields: []string{"CANDataIdentifier", "CANIDLengthFlag", "IDMask", "OutputFrequency"}},
	} {
		x.intFunc(f, sp)
	}
	x.dispatch(f)
	extra(x, f, buf)

	bk := buf("Broken.v")
	bk.WriteString("(* GENERATED: the items of /repo the translator could not render (empty when everything was recognised). *)\n")
	bk.WriteString("From Coq Require Import List String.\nImport ListNotations.\nOpen Scope string_scope.\n\nDefinition translation_broken : list string := [")
	for i, e := range x.errs {
		if i > 0 {
			bk.WriteString("; ")
		}
		bk.WriteString(coqString(e))
	}
	bk.WriteString("].\n")
	if err := os.MkdirAll(out, 0o755); err != nil {
		fmt.Fprintln(os.Stderr, err)
		os.Exit(2)
	}
	for name, b := range files {
		if err := writeIfChanged(filepath.Join(out, name), b.Bytes()); err != nil {
			fmt.Fprintln(os.Stderr, err)
			os.Exit(2)
		}
	}
	if len(x.errs) > 0 {
		for _, e := range x.errs {
			fmt.Println(e)
		}
		os.Exit(1)
	}
}
