package main

import (
	"bytes"
	"fmt"
	"go/ast"
	"go/token"
	"go/types"
	"sort"
	"strings"
)

type fld struct {
	name string
	kind string
}

// binLayout flattens a type the way encoding/binary reads it (big endian, no padding).
func (x *xl) binLayout(t types.Type, prefix string, item string) ([]fld, bool) {
	t = types.Unalias(t)
	if named, ok := t.(*types.Named); ok {
		switch named.Obj().Name() {
		case "FP1220":
			return []fld{{prefix, "KFP1220"}}, true
		case "FP1632":
			return []fld{{prefix, "KFP1632"}}, true
		}
	}
	switch u := t.Underlying().(type) {
	case *types.Basic:
		k := map[types.BasicKind]string{types.Uint8: "KU8", types.Uint16: "KU16", types.Uint32: "KU32", types.Uint64: "KU64",
			types.Int8: "KI8", types.Int16: "KI16", types.Int32: "KI32", types.Int64: "KI64",
			types.Float32: "KF32", types.Float64: "KF64", types.Bool: "KU8"}[u.Kind()]
		if k == "" {
			x.fail(item, "type %s is not fixed-size", t)
			return nil, false
		}
		if prefix == "" {
			prefix = "value"
		}
		return []fld{{prefix, k}}, true
	case *types.Struct:
		var out []fld
		for i := 0; i < u.NumFields(); i++ {
			f := u.Field(i)
			name := f.Name()
			if prefix != "" {
				name = prefix + "." + name
			}
			sub, ok := x.binLayout(f.Type(), name, item)
			if !ok {
				return nil, false
			}
			out = append(out, sub...)
		}
		return out, true
	}
	x.fail(item, "type %s is not supported by the layout extractor", t)
	return nil, false
}

func layoutTerm(l []fld) string {
	var parts []string
	for _, f := range l {
		parts = append(parts, fmt.Sprintf("(%s%%string, %s)", coqString(f.name), f.kind))
	}
	return "[" + strings.Join(parts, "; ") + "]"
}

// errorReaches: a read whose error is bound by `if err := READ; ...` (a NEW variable, local to the if) must hand that
// error to the caller inside the if; otherwise the function-level error stays nil and a failed read goes unreported.
func (x *xl) errorReaches(stmts []ast.Stmt, item string) bool {
	ok := true
	for _, st := range stmts {
		ast.Inspect(st, func(n ast.Node) bool {
			is, isIf := n.(*ast.IfStmt)
			if !isIf || is.Init == nil {
				return true
			}
			as, isAs := is.Init.(*ast.AssignStmt)
			if !isAs || as.Tok != token.DEFINE || len(as.Rhs) != 1 {
				return true
			}
			rhs := types.ExprString(as.Rhs[0])
			if !strings.Contains(rhs, "binary.Read(") && !strings.Contains(rhs, ".fromBinary(") {
				return true
			}
			returns := false
			if types.ExprString(is.Cond) == "err != nil" {
				for _, b := range is.Body.List {
					if r, isRet := b.(*ast.ReturnStmt); isRet {
						for _, res := range r.Results {
							if strings.Contains(types.ExprString(res), "err") {
								returns = true
							}
						}
					}
				}
			}
			if !returns {
				x.fail(item, "the error of %s is bound to a variable local to the if and does not reach the caller", rhs)
				ok = false
			}
			return true
		})
	}
	return ok
}

// readDest finds the destination of the first binary.Read / fromBinary call in a statement list.
func (x *xl) readDest(stmts []ast.Stmt, item string) (types.Type, bool) {
	var found types.Type
	ok := x.errorReaches(stmts, item)
	for _, st := range stmts {
		ast.Inspect(st, func(n ast.Node) bool {
			if found != nil {
				return false
			}
			ce, isCall := n.(*ast.CallExpr)
			if !isCall {
				return true
			}
			fn := types.ExprString(ce.Fun)
			switch {
			case fn == "binary.Read" && len(ce.Args) == 3:
				if types.ExprString(ce.Args[0]) != "bytes.NewReader(packet.Data())" || types.ExprString(ce.Args[1]) != "binary.BigEndian" {
					x.fail(item, "binary.Read does not read packet.Data() big-endian: %s", types.ExprString(ce))
					ok = false
					return false
				}
				t := x.info.Types[ce.Args[2]].Type
				p, isPtr := t.(*types.Pointer)
				if !isPtr {
					x.fail(item, "binary.Read destination is not a pointer")
					ok = false
					return false
				}
				found = p.Elem()
				return false
			case strings.HasSuffix(fn, ".fromBinary") && len(ce.Args) == 1:
				if types.ExprString(ce.Args[0]) != "packet.Data()" {
					x.fail(item, "fromBinary does not read packet.Data()")
					ok = false
					return false
				}
				sel := ce.Fun.(*ast.SelectorExpr)
				found = x.info.Types[sel.X].Type
				// fromBinary must itself be binary.Read(bytes.NewReader(data), binary.BigEndian, fp)
				if named, isNamed := types.Unalias(found).(*types.Named); isNamed {
					fb := x.funcs[named.Obj().Name()+".fromBinary"]
					if fb == nil || len(fb.Body.List) != 1 {
						x.fail(item, "%s.fromBinary has an unrecognised shape", named.Obj().Name())
						ok = false
						return false
					}
					r, isRet := fb.Body.List[0].(*ast.ReturnStmt)
					if !isRet || len(r.Results) != 1 || types.ExprString(r.Results[0]) != "binary.Read(bytes.NewReader(data), binary.BigEndian, fp)" {
						x.fail(item, "%s.fromBinary is not a plain binary.Read into the value", named.Obj().Name())
						ok = false
						return false
					}
				}
				return false
			}
			return true
		})
	}
	if found == nil && ok {
		x.fail(item, "no binary.Read found")
		return nil, false
	}
	return found, ok
}

type mtype struct {
	name    string
	dec     map[int64][]fld // precision -> layout ; key -1 = no precision switch
	encSize string          // Gallina expression over id_Precision
	stores  []string        // fixed-layout encoders: (offset, kind, field)
	fixed   bool
}

func (x *xl) measurementTypes() []*mtype {
	var names []string
	for k := range x.funcs {
		if strings.HasSuffix(k, ".UnmarshalMTData2Packet") {
			names = append(names, strings.TrimSuffix(k, ".UnmarshalMTData2Packet"))
		}
	}
	sort.Strings(names)
	var out []*mtype
	for _, nm := range names {
		mt := &mtype{name: nm, dec: map[int64][]fld{}}
		item := "decoder " + nm
		fd := x.funcs[nm+".UnmarshalMTData2Packet"]
		// find a switch on packet.Identifier().Precision
		var sw *ast.SwitchStmt
		for _, st := range fd.Body.List {
			if s, ok := st.(*ast.SwitchStmt); ok && s.Tag != nil && types.ExprString(s.Tag) == "packet.Identifier().Precision" {
				sw = s
			}
		}
		okAll := true
		if sw != nil {
			for _, c := range sw.Body.List {
				cc := c.(*ast.CaseClause)
				if cc.List == nil {
					continue // default: error
				}
				dst, ok := x.readDest(cc.Body, item)
				if !ok {
					okAll = false
					break
				}
				l, ok := x.binLayout(dst, "", item)
				if !ok {
					okAll = false
					break
				}
				for _, v := range cc.List {
					tv := x.info.Types[v]
					if tv.Value == nil {
						x.fail(item, "non-constant precision case")
						okAll = false
						break
					}
					s, _ := zlit(tv.Value)
					var k int64
					fmt.Sscan(s, &k)
					mt.dec[k] = l
				}
			}
		} else {
			mt.fixed = true
			dst, ok := x.readDest(fd.Body.List, item)
			if ok {
				var l []fld
				l, ok = x.binLayout(dst, "", item)
				mt.dec[-1] = l
			}
			okAll = ok
		}
		if !okAll {
			continue
		}
		// encoder: packet := NewMTData2Package(SIZE, id)
		item = "encoder " + nm
		fe := x.funcs[nm+".MarshalMTData2Packet"]
		if fe == nil || len(fe.Body.List) == 0 {
			x.fail(item, "method not found")
			continue
		}
		as, ok := fe.Body.List[0].(*ast.AssignStmt)
		if !ok || len(as.Rhs) != 1 {
			x.fail(item, "first statement is not packet := NewMTData2Package(size, id)")
			continue
		}
		ce, ok := as.Rhs[0].(*ast.CallExpr)
		if !ok || types.ExprString(ce.Fun) != "NewMTData2Package" || len(ce.Args) != 2 || types.ExprString(ce.Args[1]) != "id" {
			x.fail(item, "first statement is not packet := NewMTData2Package(size, id)")
			continue
		}
		e := &env{x: x, item: item, vars: map[string]string{}, ok: true, recv: "id"}
		e.field = func(name string) string {
			if name == "Precision" {
				return "id_Precision"
			}
			e.ok = false
			x.fail(item, "size depends on identifier field %s", name)
			return "0"
		}
		mt.encSize = e.expr(ce.Args[0])
		if !e.ok {
			continue
		}
		if mt.fixed {
			recv := fe.Recv.List[0].Names[0].Name
			okS := true
			for _, st := range fe.Body.List[1:] {
				switch s := st.(type) {
				case *ast.ReturnStmt:
					if len(s.Results) != 2 || types.ExprString(s.Results[0]) != "packet" || types.ExprString(s.Results[1]) != "nil" {
						x.fail(item, "unexpected return")
						okS = false
					}
				case *ast.ExprStmt:
					c2, isCall := s.X.(*ast.CallExpr)
					if !isCall {
						x.fail(item, "unexpected statement")
						okS = false
						break
					}
					fn := types.ExprString(c2.Fun)
					if fn == "packet.SetIdentifier" {
						continue // idempotent: NewMTData2Package already set it
					}
					kind := map[string]string{"binary.BigEndian.PutUint16": "KU16", "binary.BigEndian.PutUint32": "KU32", "binary.BigEndian.PutUint64": "KU64"}[fn]
					if kind == "" || len(c2.Args) != 2 {
						x.fail(item, "unexpected call %s", fn)
						okS = false
						break
					}
					off, ok1 := x.dataOffset(c2.Args[0], item)
					src, ok2 := x.storeSource(c2.Args[1], recv, item)
					if !ok1 || !ok2 {
						okS = false
						break
					}
					mt.stores = append(mt.stores, fmt.Sprintf("(%d, %s, %s%%string)", off, kind, coqString(src)))
				case *ast.AssignStmt:
					// packet.Data()[k] = expr
					if len(s.Lhs) != 1 || len(s.Rhs) != 1 || s.Tok != token.ASSIGN {
						x.fail(item, "unexpected assignment")
						okS = false
						break
					}
					ix, isIx := s.Lhs[0].(*ast.IndexExpr)
					if !isIx || types.ExprString(ix.X) != "packet.Data()" {
						x.fail(item, "unexpected assignment target %s", types.ExprString(s.Lhs[0]))
						okS = false
						break
					}
					tv := x.info.Types[ix.Index]
					if tv.Value == nil {
						x.fail(item, "non-constant offset")
						okS = false
						break
					}
					var off int64
					fmt.Sscan(tv.Value.ExactString(), &off)
					src, ok2 := x.storeSource(s.Rhs[0], recv, item)
					if !ok2 {
						okS = false
						break
					}
					mt.stores = append(mt.stores, fmt.Sprintf("(%d, KU8, %s%%string)", off, coqString(src)))
				default:
					x.fail(item, "unexpected statement %T", st)
					okS = false
				}
			}
			if !okS {
				continue
			}
		}
		out = append(out, mt)
	}
	return out
}

// dataOffset recognises packet.Data() and packet.Data()[k:]
func (x *xl) dataOffset(e ast.Expr, item string) (int64, bool) {
	if types.ExprString(e) == "packet.Data()" {
		return 0, true
	}
	if sl, ok := e.(*ast.SliceExpr); ok && types.ExprString(sl.X) == "packet.Data()" && sl.High == nil && sl.Low != nil {
		tv := x.info.Types[sl.Low]
		if tv.Value != nil {
			var off int64
			fmt.Sscan(tv.Value.ExactString(), &off)
			return off, true
		}
	}
	x.fail(item, "unrecognised store target %s", types.ExprString(e))
	return 0, false
}

// storeSource: g.Field, uintN(g.Field), uintN(*p), *p
func (x *xl) storeSource(e ast.Expr, recv string, item string) (string, bool) {
	for {
		switch v := e.(type) {
		case *ast.ParenExpr:
			e = v.X
			continue
		case *ast.CallExpr:
			if tv, ok := x.info.Types[v.Fun]; ok && tv.IsType() && len(v.Args) == 1 {
				e = v.Args[0]
				continue
			}
		case *ast.StarExpr:
			if id, ok := v.X.(*ast.Ident); ok && id.Name == recv {
				return "value", true
			}
		case *ast.SelectorExpr:
			if id, ok := v.X.(*ast.Ident); ok && id.Name == recv {
				return v.Sel.Name, true
			}
		}
		x.fail(item, "unrecognised store source %s", types.ExprString(e))
		return "", false
	}
}

func (x *xl) layouts(w *bytes.Buffer) {
	w.WriteString("(* GENERATED by go/xlate from measurementdata.go: decoder layouts (the value binary.Read fills), encoder sizes,\n   encoder stores of the fixed-layout types. Do not edit. *)\n")
	w.WriteString("From Coq Require Import ZArith List String Bool.\nRequire Import XS.Base.GoInt XS.Spec.LayoutKinds XS.Gen.Funcs.\nImport ListNotations.\nOpen Scope Z_scope.\n\n")
	mts := x.measurementTypes()
	var names []string
	for _, mt := range mts {
		names = append(names, coqString(mt.name)+"%string")
		// decoder layout
		fmt.Fprintf(w, "Definition dec_layout_%s (p : Z) : option (list (string * fkind)) :=\n", mt.name)
		if l, ok := mt.dec[-1]; ok {
			fmt.Fprintf(w, "  Some %s.\n", layoutTerm(l))
		} else {
			var keys []int64
			for k := range mt.dec {
				keys = append(keys, k)
			}
			sort.Slice(keys, func(i, j int) bool { return keys[i] < keys[j] })
			for _, k := range keys {
				fmt.Fprintf(w, "  if p =? %d then Some %s else\n", k, layoutTerm(mt.dec[k]))
			}
			w.WriteString("  None.\n")
		}
		fmt.Fprintf(w, "Definition enc_size_%s (id_Precision : Z) : Z := %s.\n", mt.name, mt.encSize)
		if mt.fixed {
			fmt.Fprintf(w, "Definition enc_stores_%s : list (Z * fkind * string) := [%s].\n", mt.name, strings.Join(mt.stores, "; "))
		}
		w.WriteString("\n")
	}
	fmt.Fprintf(w, "Definition measurement_types : list string := [%s].\n\n", strings.Join(names, "; "))
	w.WriteString("Definition dec_layout_of (ty : string) (p : Z) : option (list (string * fkind)) :=\n")
	for _, mt := range mts {
		fmt.Fprintf(w, "  if String.eqb ty %s then dec_layout_%s p else\n", coqString(mt.name), mt.name)
	}
	w.WriteString("  None.\n\nDefinition enc_size_of (ty : string) (p : Z) : option Z :=\n")
	for _, mt := range mts {
		fmt.Fprintf(w, "  if String.eqb ty %s then Some (enc_size_%s p) else\n", coqString(mt.name), mt.name)
	}
	w.WriteString("  None.\n\nDefinition enc_stores_of (ty : string) : option (list (Z * fkind * string)) :=\n")
	for _, mt := range mts {
		if mt.fixed {
			fmt.Fprintf(w, "  if String.eqb ty %s then Some enc_stores_%s else\n", coqString(mt.name), mt.name)
		}
	}
	w.WriteString("  None.\n")
}
