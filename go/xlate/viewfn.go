package main

import (
	"bytes"
	"fmt"
	"go/ast"
	"go/token"
	"go/types"
	"strings"
)

// Views: byte slices that share a backing array (Go's s[a:b], and what helper functions return when they return such a
// slice).  A Go variable of slice type is bound either to a VALUE (a Coq list: a slice that owns its array, e.g. the
// result of make or a parameter; capacity = length) or to a VIEW = (root variable, offset, length, capacity) into the
// array of a value variable.  A write through a view rebinds the root variable; bounds are checked against the view's
// length (index) or capacity (re-slice), as Go does.  Enabled for the functions that write through sub-slices
// (canoutputconfiguration.go); helper functions of the package that take and return slices are inlined statement by
// statement with their parameters and locals renamed.

type view struct {
	root        string // Go name of the value variable whose array this is
	off, ln, cp string // pure Coq terms of type Z
}

func (e *benv) rootTerm(v view) string { return e.vars[v.root] }

// viewOf: the view an expression of slice type denotes, with the conditions under which evaluating it panics
func (e *benv) viewOf(n ast.Expr) (view, []string, bool) {
	switch v := n.(type) {
	case *ast.ParenExpr:
		return e.viewOf(v.X)
	case *ast.Ident:
		if w, ok := e.views[v.Name]; ok {
			return w, nil, true
		}
		if g, ok := e.vars[v.Name]; ok && bkind(e.x.info.TypeOf(n)) == "bytes" {
			return view{root: v.Name, off: "0", ln: "(g_len " + g + ")", cp: "(g_len " + g + ")"}, nil, true
		}
	case *ast.SliceExpr:
		if v.Slice3 {
			return view{}, nil, false
		}
		base, pre, ok := e.viewOf(v.X)
		if !ok {
			return view{}, nil, false
		}
		lo, hi := "0", base.ln
		if v.Low != nil {
			b := e.expr(v.Low)
			if !b.pure {
				return view{}, nil, false
			}
			lo = b.t
		}
		if v.High != nil {
			b := e.expr(v.High)
			if !b.pure {
				return view{}, nil, false
			}
			hi = b.t
		}
		pre = append(pre, fmt.Sprintf("(%s <? 0) || (%s <? %s) || (%s <? %s)", lo, hi, lo, base.cp, hi))
		return view{root: base.root, off: "(" + base.off + " + " + lo + ")", ln: "(" + hi + " - " + lo + ")", cp: "(" + base.cp + " - " + lo + ")"}, pre, true
	}
	return view{}, nil, false
}

func guard(pre []string, body string) string {
	if len(pre) == 0 {
		return body
	}
	return "(if " + strings.Join(pre, " || ") + " then Pan else " + body + ")"
}

// bindView binds a Go variable to a view, naming its components so that later shadowing of the terms they were
// computed from cannot capture them
func (e *benv) bindView(name string, v view, pre []string, rest func() string) string {
	e.fresh++
	sfx := fmt.Sprintf("%s_%d", strings.ReplaceAll(name, ".", "_"), e.fresh)
	nv := view{root: v.root, off: "w_off_" + sfx, ln: "w_len_" + sfx, cp: "w_cap_" + sfx}
	savedV, hadV := e.views[name]
	savedX, hadX := e.vars[name]
	delete(e.vars, name)
	e.views[name] = nv
	out := guard(pre, "(let "+nv.off+" := "+v.off+" in let "+nv.ln+" := "+v.ln+" in let "+nv.cp+" := "+v.cp+" in "+rest()+")")
	if hadV {
		e.views[name] = savedV
	} else {
		delete(e.views, name)
	}
	if hadX {
		e.vars[name] = savedX
	}
	return out
}

// rebindRoot: the root variable of a view gets a new value (a monadic term)
func (e *benv) rebindRoot(v view, term string, rest func() string) string {
	cur := e.vars[v.root]
	e.fresh++
	g := fmt.Sprintf("v_%s_%d", strings.ReplaceAll(v.root, ".", "_"), e.fresh)
	e.vars[v.root] = g
	out := "(do " + g + " <- " + term + "; " + rest() + ")"
	e.vars[v.root] = cur
	return out
}

// viewIndex: x[i] for a view x
func (e *benv) viewIndex(v view, i string) string {
	return fmt.Sprintf("(if (%s <? 0) || (%s <=? %s) then Pan else g_index %s (%s + %s))", i, v.ln, i, e.rootTerm(v), v.off, i)
}

// viewStmt translates the statements that involve views; handled = false leaves the statement to block()
func (e *benv) viewStmt(st ast.Stmt, rest func() string) (string, bool) {
	switch s := st.(type) {
	case *ast.DeclStmt:
		// var b []byte
		if gd, ok := s.Decl.(*ast.GenDecl); ok && gd.Tok == token.VAR && len(gd.Specs) == 1 {
			vs := gd.Specs[0].(*ast.ValueSpec)
			if len(vs.Names) == 1 && len(vs.Values) == 0 && bkind(e.x.info.Defs[vs.Names[0]].Type()) == "bytes" {
				// the nil slice: a view of length and capacity 0
				name := vs.Names[0].Name
				e.vars["!nil"] = "[]"
				savedV, hadV := e.views[name]
				savedX, hadX := e.vars[name]
				delete(e.vars, name)
				e.views[name] = view{root: "!nil", off: "0", ln: "0", cp: "0"}
				out := rest()
				if hadX {
					e.vars[name] = savedX
				}
				if hadV {
					e.views[name] = savedV
				} else {
					delete(e.views, name)
				}
				return out, true
			}
		}
	case *ast.AssignStmt:
		if len(s.Lhs) != 1 || len(s.Rhs) != 1 {
			return "", false
		}
		// x := s[a:b] / x = s[a:b]
		if id, ok := s.Lhs[0].(*ast.Ident); ok && (s.Tok == token.DEFINE || s.Tok == token.ASSIGN) && bkind(e.x.info.TypeOf(s.Lhs[0])) == "bytes" {
			if _, isSlice := s.Rhs[0].(*ast.SliceExpr); isSlice {
				v, pre, ok := e.viewOf(s.Rhs[0])
				if !ok {
					return e.bad(s, "unsupported slice expression"), true
				}
				return e.bindView(id.Name, v, pre, rest), true
			}
			// x := helper(args) / x = helper(args): a function of the package that is not translated on its own
			if call, ok := s.Rhs[0].(*ast.CallExpr); ok {
				if fid, ok := call.Fun.(*ast.Ident); ok {
					if fd := e.x.funcs[fid.Name]; fd != nil && fd.Recv == nil && !e.known[bfnName("", fid.Name)] {
						return e.inline(fd, call, func(res ast.Expr) string {
							if v, pre, ok := e.viewOf(res); ok {
								if _, isView := e.views[exprText(res)]; isView || func() bool { _, sl := res.(*ast.SliceExpr); return sl }() {
									return e.bindView(id.Name, v, pre, rest)
								}
							}
							// a value (the callee's own array)
							b := e.expr(res)
							savedV, hadV := e.views[id.Name]
							delete(e.views, id.Name)
							savedX, hadX := e.vars[id.Name]
							e.fresh++
							g := fmt.Sprintf("v_%s_%d", id.Name, e.fresh)
							e.vars[id.Name] = g
							var out string
							if b.pure {
								out = "(let " + g + " := " + b.t + " in " + rest() + ")"
							} else {
								out = "(do " + g + " <- " + b.t + "; " + rest() + ")"
							}
							if hadX {
								e.vars[id.Name] = savedX
							} else {
								delete(e.vars, id.Name)
							}
							if hadV {
								e.views[id.Name] = savedV
							}
							return out
						}), true
					}
				}
			}
		}
		// x[i] = v, x[i] &= v, x[i] |= v through a view
		if ix, ok := s.Lhs[0].(*ast.IndexExpr); ok {
			if id, ok := ix.X.(*ast.Ident); ok {
				v, isView := e.views[id.Name]
				if g, isVal := e.vars[id.Name]; !isView && isVal && bkind(e.x.info.TypeOf(ix.X)) == "bytes" && s.Tok != token.ASSIGN {
					v, isView = view{root: id.Name, off: "0", ln: "(g_len " + g + ")", cp: "(g_len " + g + ")"}, true
				}
				if isView {
					i, val := e.expr(ix.Index), e.expr(s.Rhs[0])
					if !i.pure {
						return e.bad(s, "index with effects"), true
					}
					at := "(" + v.off + " + " + i.t + ")"
					chk := fmt.Sprintf("(%s <? 0) || (%s <=? %s)", i.t, v.ln, i.t)
					var term string
					switch s.Tok {
					case token.ASSIGN:
						c := e.combine([]bex{val}, func(a []string) string { return "(g_set " + e.rootTerm(v) + " " + at + " " + a[0] + ")" })
						term = e.flatten(c).t
					case token.AND_ASSIGN, token.OR_ASSIGN:
						op := map[token.Token]string{token.AND_ASSIGN: "Z.land", token.OR_ASSIGN: "Z.lor"}[s.Tok]
						c := e.combine([]bex{val}, func(a []string) string {
							return "(do t_old <- g_index " + e.rootTerm(v) + " " + at + "; g_set " + e.rootTerm(v) + " " + at + " (" + op + " t_old " + a[0] + "))"
						})
						term = e.flatten(c).t
					default:
						return e.bad(s, "unsupported assignment through a slice"), true
					}
					return e.rebindRoot(v, "(if "+chk+" then Pan else "+term+")", rest), true
				}
			}
		}
	case *ast.ExprStmt:
		call, ok := s.X.(*ast.CallExpr)
		if !ok || len(call.Args) != 2 {
			return "", false
		}
		full := ""
		if sel, ok := call.Fun.(*ast.SelectorExpr); ok {
			if f, ok := e.x.info.Uses[sel.Sel].(*types.Func); ok {
				full = f.FullName()
			}
		}
		if fid, ok := call.Fun.(*ast.Ident); ok && fid.Name == "copy" {
			full = "copy"
		}
		switch full {
		case "(encoding/binary.bigEndian).PutUint16", "(encoding/binary.bigEndian).PutUint32":
			dst, pre, ok := e.viewOf(call.Args[0])
			if !ok {
				return "", false
			}
			n := map[string]int{"(encoding/binary.bigEndian).PutUint16": 2, "(encoding/binary.bigEndian).PutUint32": 4}[full]
			val := e.expr(call.Args[1])
			c := e.combine([]bex{val}, func(a []string) string {
				return fmt.Sprintf("(g_putn %d %s %s %s)", n, e.rootTerm(dst), dst.off, a[0])
			})
			pre = append(pre, fmt.Sprintf("(%s <? %d)", dst.ln, n))
			return e.rebindRoot(dst, guard(pre, e.flatten(c).t), rest), true
		case "copy":
			dst, pre, ok := e.viewOf(call.Args[0])
			src, pre2, ok2 := e.viewOf(call.Args[1])
			if !ok || !ok2 {
				return "", false
			}
			pre = append(pre, pre2...)
			term := fmt.Sprintf("(do t_src <- g_slice %s %s (%s + %s); g_copy %s %s (firstn (Z.to_nat %s) t_src))",
				e.rootTerm(src), src.off, src.off, src.ln, e.rootTerm(dst), dst.off, dst.ln)
			return e.rebindRoot(dst, guard(pre, term), rest), true
		}
	}
	return "", false
}

// viewExpr translates the expressions that read through views; handled = false leaves it to expr()
func (e *benv) viewExpr(n ast.Expr) (bex, bool) {
	switch v := n.(type) {
	case *ast.IndexExpr:
		if id, ok := v.X.(*ast.Ident); ok {
			if w, isView := e.views[id.Name]; isView {
				i := e.expr(v.Index)
				if !i.pure {
					return bex{e.bad(n, "index with effects"), false}, true
				}
				return bex{e.viewIndex(w, i.t), false}, true
			}
		}
	case *ast.CallExpr:
		if id, ok := v.Fun.(*ast.Ident); ok && (id.Name == "len" || id.Name == "cap") && len(v.Args) == 1 {
			if aid, ok := v.Args[0].(*ast.Ident); ok {
				if w, isView := e.views[aid.Name]; isView {
					if id.Name == "len" {
						return bex{w.ln, true}, true
					}
					return bex{w.cp, true}, true
				}
			}
		}
		if sel, ok := v.Fun.(*ast.SelectorExpr); ok && len(v.Args) == 1 {
			full := ""
			if f, ok := e.x.info.Uses[sel.Sel].(*types.Func); ok {
				full = f.FullName()
			}
			n := map[string]int{"(encoding/binary.bigEndian).Uint16": 2, "(encoding/binary.bigEndian).Uint32": 4}[full]
			if n != 0 {
				if _, plain := v.Args[0].(*ast.Ident); plain {
					if _, isView := e.views[exprText(v.Args[0])]; !isView {
						return bex{}, false
					}
				}
				src, pre, ok := e.viewOf(v.Args[0])
				if !ok {
					return bex{}, false
				}
				pre = append(pre, fmt.Sprintf("(%s <? %d)", src.ln, n))
				rd := map[int]string{2: "g_be16", 4: "g_be32"}[n]
				return bex{guard(pre, fmt.Sprintf("(do t_rd <- g_slice %s %s (%s + %d); %s t_rd)", e.rootTerm(src), src.off, src.off, n, rd)), false}, true
			}
		}
	}
	return bex{}, false
}

// inline translates a call of a package function by translating its body in place: parameters and locals are renamed
// (so that they cannot clash with the caller's), slice parameters become views of the arguments, and `onReturn` is given
// the returned expression (in the callee's scope) and must produce the caller's continuation.
func (e *benv) inline(fd *ast.FuncDecl, call *ast.CallExpr, onReturn func(res ast.Expr) string) string {
	e.fresh++
	pfx := fmt.Sprintf("i%d_", e.fresh)
	// rename every identifier that refers to an object declared inside the callee
	var renamed []*ast.Ident
	var old []string
	ast.Inspect(fd, func(n ast.Node) bool {
		id, ok := n.(*ast.Ident)
		if !ok {
			return true
		}
		obj := e.x.info.Defs[id]
		if obj == nil {
			obj = e.x.info.Uses[id]
		}
		if obj == nil || obj.Pos() < fd.Pos() || obj.Pos() > fd.End() {
			return true
		}
		if _, isVar := obj.(*types.Var); !isVar {
			return true
		}
		renamed = append(renamed, id)
		old = append(old, id.Name)
		id.Name = pfx + obj.Name()
		return true
	})
	e.declKinds(fd, func(n string) string { return pfx + n })
	restore := func() {
		for i, id := range renamed {
			id.Name = old[i]
		}
	}
	defer restore()
	// bind the parameters
	var params []*ast.Ident
	for _, f := range fd.Type.Params.List {
		params = append(params, f.Names...)
	}
	if len(params) != len(call.Args) || fd.Type.Results == nil || len(fd.Type.Results.List) != 1 {
		return e.bad(call, "unsupported helper call")
	}
	type saved struct {
		name string
		v    view
		hadV bool
		x    string
		hadX bool
	}
	var undo []saved
	wrapOpen, wrapClose := "", ""
	var pres []string
	for i, p := range params {
		sv := saved{name: p.Name}
		sv.v, sv.hadV = e.views[p.Name]
		sv.x, sv.hadX = e.vars[p.Name]
		undo = append(undo, sv)
		switch bkind(e.x.info.TypeOf(call.Args[i])) {
		case "bytes":
			v, pre, ok := e.viewOf(call.Args[i])
			if !ok {
				return e.bad(call, "unsupported slice argument")
			}
			pres = append(pres, pre...)
			e.views[p.Name] = v
			delete(e.vars, p.Name)
		case "int":
			b := e.expr(call.Args[i])
			if !b.pure {
				return e.bad(call, "argument with effects")
			}
			g := "v_" + p.Name
			wrapOpen += "(let " + g + " := " + b.t + " in "
			wrapClose += ")"
			e.vars[p.Name] = g
			delete(e.views, p.Name)
		default:
			return e.bad(call, "unsupported argument type")
		}
	}
	body := e.block(fd.Body.List, func(results []ast.Expr) string {
		if len(results) != 1 {
			return e.bad(fd, "unsupported helper result")
		}
		return onReturn(results[0])
	}, nil)
	for i := len(undo) - 1; i >= 0; i-- {
		sv := undo[i]
		if sv.hadV {
			e.views[sv.name] = sv.v
		} else {
			delete(e.views, sv.name)
		}
		if sv.hadX {
			e.vars[sv.name] = sv.x
		} else {
			delete(e.vars, sv.name)
		}
	}
	return guard(pres, wrapOpen+body+wrapClose)
}

// viewLoopState: in a function that writes through views, a loop's state also holds every byte-slice value in scope
// (any of them may be the array a view in the body writes to); views assigned in the body are not state - they are
// made unusable at the start of the body and after the loop (the code must assign them before use).
func (e *benv) viewLoopState(assignedNames map[string]bool, names []string) []string {
	if !e.useViews {
		return names
	}
	have := map[string]bool{}
	for _, n := range names {
		have[n] = true
	}
	for name, k := range e.kindOf {
		if _, isVal := e.vars[name]; isVal && k == "bytes" && !have[name] && name != "!nil" {
			names = append(names, name)
			have[name] = true
		}
	}
	for name := range assignedNames {
		if _, isView := e.views[name]; isView {
			delete(e.views, name)
		}
	}
	return names
}

// declKinds records the kinds of the variables a function declares
func (e *benv) declKinds(fd *ast.FuncDecl, rename func(string) string) {
	if e.kindOf == nil {
		e.kindOf = map[string]string{}
	}
	ast.Inspect(fd, func(n ast.Node) bool {
		if id, ok := n.(*ast.Ident); ok {
			if obj, ok := e.x.info.Defs[id].(*types.Var); ok && obj != nil {
				e.kindOf[rename(obj.Name())] = bkind(obj.Type())
			}
		}
		return true
	})
}

// canFns: the CAN output configuration codec (canoutputconfiguration.go), which writes through sub-slices and helper
// functions.  Results: the Go results, then the receiver's final value, then the final value of every byte-slice
// parameter (so that a write into the caller's payload shows).
func (x *xl) canFns(w *bytes.Buffer) {
	w.WriteString("(* GENERATED by go/xlate (viewfn.go) from canoutputconfiguration.go, statement by statement, with Go's slice aliasing:\n   a sub-slice is a view (array, offset, length, capacity) and a write through it changes the array it views; the helper\n   functions are translated in place.  A CAN setting = (CANDataIdentifier, CANIDLengthFlag as 0/1, IDMask, OutputFrequency).\n   Results: the Go results, the receiver's final value, the final value of each byte-slice parameter.  Do not edit. *)\n")
	w.WriteString("From Coq Require Import ZArith NArith List Bool.\nRequire Import XS.Base.Bytes XS.Base.GoInt XS.Base.GoBytes XS.Base.GoConf XS.Gen.Funcs XS.Gen.Bytes.\nImport ListNotations.\nOpen Scope Z_scope.\n\n")
	known := map[string]bool{}
	for _, sp := range bytesFuncs {
		known[bfnName(sp.recv, sp.name)] = true
	}
	for _, sp := range []bfnSpec{{"CANOutputConfiguration", "MarshalBinary"}, {"CANOutputConfiguration", "UnmarshalBinary"}} {
		item := "CAN codec " + sp.recv + "." + sp.name
		coqName := bfnName(sp.recv, sp.name)
		fd := x.findFunc(sp.recv, sp.name)
		if fd == nil || fd.Recv == nil || len(fd.Recv.List[0].Names) != 1 {
			x.fail(item, "not found")
			fmt.Fprintf(w, "Definition %s_missing : unit := tt.\n\n", coqName)
			continue
		}
		e := &benv{x: x, item: item, ok: true, vars: map[string]string{}, known: known, mutators: map[string]bool{},
			useViews: true, views: map[string]view{}}
		e.declKinds(fd, func(n string) string { return n })
		recv := fd.Recv.List[0].Names[0].Name
		e.vars[recv] = "v_" + recv
		params := []string{"(v_" + recv + " : oslice)"}
		var extras []string
		extraT := []string{"oslice"}
		extras = append(extras, recv)
		for _, f := range fd.Type.Params.List {
			k := bkind(x.info.TypeOf(f.Type))
			if k != "bytes" && k != "int" {
				e.bad(f, "unsupported parameter type")
				continue
			}
			for _, nm := range f.Names {
				e.vars[nm.Name] = "v_" + nm.Name
				params = append(params, "(v_"+nm.Name+" : "+coqKind(k)+")")
				if k == "bytes" {
					extras = append(extras, nm.Name)
					extraT = append(extraT, "bytes")
				}
			}
		}
		var rkinds []string
		for _, f := range fd.Type.Results.List {
			k := bkind(x.info.TypeOf(f.Type))
			if k == "" {
				e.bad(f, "unsupported result type")
			}
			rkinds = append(rkinds, k)
		}
		ret := func(results []ast.Expr) string {
			if len(results) != len(rkinds) {
				return e.bad(fd, "bare return")
			}
			var ops []bex
			for i, r := range results {
				var b bex
				if rkinds[i] == "bytes" {
					// a returned slice: its visible elements
					if v, pre, ok := e.viewOf(r); ok {
						b = bex{guard(pre, fmt.Sprintf("(g_slice %s %s (%s + %s))", e.rootTerm(v), v.off, v.off, v.ln)), false}
					} else {
						b = e.expr(r)
					}
				} else {
					b = e.expr(r)
				}
				if b.t == "NIL" {
					if rkinds[i] == "error" {
						b = bex{"None", true}
					} else {
						b = bex{"[]", true}
					}
				}
				ops = append(ops, b)
			}
			for _, nm := range extras {
				g, ok := e.vars[nm]
				if !ok {
					return e.bad(fd, "a parameter is no longer a value at a return")
				}
				ops = append(ops, bex{g, true})
			}
			c := e.combine(ops, func(a []string) string { return "(" + strings.Join(a, ", ") + ")" })
			return c.monadic()
		}
		body := e.block(fd.Body.List, ret, nil)
		if !e.ok {
			body = "Pan"
		}
		rt := make([]string, len(rkinds))
		for i, k := range rkinds {
			rt[i] = coqKind(k)
		}
		fmt.Fprintf(w, "Definition %s %s : R (%s) :=\n  %s.\n\n", coqName, strings.Join(params, " "), strings.Join(append(rt, extraT...), " * "), body)
	}
}
