package main

// Statement-by-statement rendering of the byte-slice functions (framing, validation, accessors, packet extraction)
// into the Go fragment of coq/Base/GoBytes.v.  Every evaluation that can panic in Go (index, slice, Uint16 on a short
// slice) is a monadic step; early returns become nested conditionals; the one loop shape supported is the counting
// loop `for i := a; i < b; i++ { ... }` whose body assigns neither i nor b.

import (
	"bytes"
	"fmt"
	"go/ast"
	"go/constant"
	"go/token"
	"go/types"
	"strings"
)

type bfnSpec struct {
	recv string // receiver type name, "" for a plain function
	name string
}

var bytesFuncs = []bfnSpec{
	{"Message", "Preamble"}, {"Message", "BusIdentifier"}, {"Message", "Identifier"}, {"Message", "IsExtended"},
	{"Message", "Length"}, {"Message", "Data"}, {"Message", "Checksum"}, {"Message", "IsError"}, {"Message", "ErrorCode"},
	{"Message", "Validate"}, {"MTData2", "PacketAt"}, {"", "ScanMessages"}, {"", "NewMessage"},
	{"MTData2Packet", "SetLength"}, {"MTData2Packet", "SetIdentifier"}, {"", "NewMTData2Package"},
	{"MTData2Packet", "Identifier"}, {"MTData2Packet", "Data"},
}

func bfnName(recv, name string) string {
	if recv == "" {
		return "g_" + name
	}
	return "g_" + recv + "_" + name
}

type benv struct {
	x        *xl
	item     string
	ok       bool
	vars     map[string]string
	fresh    int
	sites    int
	known    map[string]bool // translated functions (by Coq name)
	mutators map[string]bool // those that return their receiver's final value
	// methods of a struct whose byte-slice / integer fields are threaded as state (the client)
	recvName string            // receiver identifier, "" when not a state method
	fields   []string          // state fields in order
	fkinds   map[string]string // their kinds
	extern   map[string]bex    // external calls (selector text -> term), e.g. c.sc.Scan()
	loopCont func() string     // inside `for { }`: what `continue` / falling off the body yields
	stateFns map[string]string // translated state methods of the receiver: name -> parameters to pass before the state
	// the emulator's methods (emufn.go)
	skipCalls map[string]bool   // call statements without effect on the modelled state (mutex operations)
	portWrite string            // text of the port's write method, e.g. "e.port.Write"; the frames written are the state field "port!"
	errVars   map[string]string // package-level error values -> their codes
	fieldMut  map[string]string // "field.Method" -> translated function returning (results, receiver's final value)
	pkgFuncs  string            // name of the imported package whose translated functions may be called as pkg.F(...)
	ctxDone   string            // text of the channel a `select` may poll, e.g. "ctx.Done()"
	// slices that share arrays (viewfn.go)
	recvNonNil bool // the receiver is a non-nil pointer (comparisons with nil are decided)
	timeFns    bool // time.Date and the accessors of time.Time values are parameters
	useViews   bool
	views      map[string]view
	kindOf     map[string]string // kinds of the variables declared in the function (and in inlined helpers)
	// calls of functions outside the translated code, by the text of the called function: the Coq function that stands
	// for it and which of the call's arguments it is applied to (udpfn.go)
	externFn map[string]bexFn
}

type bexFn struct {
	name string
	args []int
}

func (e *benv) bad(n ast.Node, why string) string {
	e.ok = false
	e.x.fail(e.item, "%s at %s", why, e.x.fset.Position(n.Pos()))
	return "Pan"
}

func (e *benv) tmp() string {
	e.fresh++
	return fmt.Sprintf("t%d", e.fresh)
}

// kind of a Go type in the fragment: "bytes", "int", "bool", "error" or ""
func bkind(t types.Type) string {
	if t == nil {
		return ""
	}
	if _, ok := intType(t); ok {
		return "int"
	}
	if p, ok := t.Underlying().(*types.Pointer); ok {
		// pointer to a byte array (receiver of the fixed-point methods): the array
		if a, ok := p.Elem().Underlying().(*types.Array); ok {
			if b, ok := a.Elem().Underlying().(*types.Basic); ok && b.Kind() == types.Uint8 {
				return "bytes"
			}
		}
	}
	switch u := t.Underlying().(type) {
	case *types.Array:
		if b, ok := u.Elem().Underlying().(*types.Basic); ok && b.Kind() == types.Uint8 {
			return "bytes"
		}
	case *types.Basic:
		if u.Info()&types.IsBoolean != 0 {
			return "bool"
		}
		if u.Kind() == types.Float64 || u.Kind() == types.UntypedFloat {
			return "float"
		}
		if u.Kind() == types.UntypedNil {
			return "nil"
		}
		if u.Kind() == types.String || u.Kind() == types.UntypedString {
			return "string"
		}
	case *types.Slice:
		if b, ok := u.Elem().Underlying().(*types.Basic); ok && b.Kind() == types.Uint8 {
			return "bytes"
		}
	case *types.Interface:
		if named, ok := t.(*types.Named); ok && named.Obj().Name() == "error" {
			return "error"
		}
	case *types.Struct:
		if named, ok := t.(*types.Named); ok && named.Obj().Name() == "DataIdentifier" {
			return "dataid"
		}
		if named, ok := t.(*types.Named); ok && (named.Obj().Name() == "OutputConfigurationSetting" || named.Obj().Name() == "CANOutputConfigurationSetting") {
			return "osetting"
		}
	}
	if isOConf(t) {
		return "oconf"
	}
	if p, ok := t.Underlying().(*types.Pointer); ok && isOConf(p.Elem()) {
		return "oconf"
	}
	if p, ok := t.Underlying().(*types.Pointer); ok {
		if named, ok := p.Elem().(*types.Named); ok && named.Obj().Name() == "CANOutputConfigurationSetting" {
			return "osetting"
		}
	}
	return ""
}

// isOConf: a slice of OutputConfigurationSetting (the type OutputConfiguration)
func isOConf(t types.Type) bool {
	sl, ok := t.Underlying().(*types.Slice)
	if !ok {
		return false
	}
	named, ok := sl.Elem().(*types.Named)
	return ok && (named.Obj().Name() == "OutputConfigurationSetting" || named.Obj().Name() == "CANOutputConfigurationSetting")
}

func coqKind(k string) string {
	switch k {
	case "bytes":
		return "bytes"
	case "int":
		return "Z"
	case "bool":
		return "bool"
	case "error":
		return "option Z"
	case "float":
		return "f64"
	case "string":
		return "gstring"
	case "dataid":
		return "(Z * Z * Z)"
	case "osetting":
		return "gsetting"
	case "oconf":
		return "oslice"
	}
	return "unit"
}

// an expression: its term and whether the term is pure (type T) or monadic (type R T)
type bex struct {
	t    string
	pure bool
}

// combine evaluates the operands left to right and applies f to their values
func (e *benv) combine(ops []bex, f func(vals []string) string) bex {
	allPure := true
	for _, o := range ops {
		if !o.pure {
			allPure = false
		}
	}
	vals := make([]string, len(ops))
	if allPure {
		for i, o := range ops {
			vals[i] = o.t
		}
		return bex{f(vals), true}
	}
	var pre strings.Builder
	for i, o := range ops {
		if o.pure {
			vals[i] = o.t
		} else {
			v := e.tmp()
			vals[i] = v
			fmt.Fprintf(&pre, "do %s <- %s; ", v, o.t)
		}
	}
	return bex{"(" + pre.String() + "Val " + f(vals) + ")", false}
}

// monadic renders an expression as a term of type R T
func (b bex) monadic() string {
	if b.pure {
		return "(Val " + b.t + ")"
	}
	return b.t
}

func (e *benv) intWrap(t types.Type, s string) string {
	it, ok := intType(t)
	if !ok || it.bits == 0 {
		return s
	}
	if b, isB := t.Underlying().(*types.Basic); isB && (b.Kind() == types.Int || b.Kind() == types.Uint) {
		return s // int: unbounded (see Base/GoBytes.v)
	}
	return wrap(it, s)
}

func (e *benv) expr(n ast.Expr) bex {
	if e.useViews {
		if b, ok := e.viewExpr(n); ok {
			return b
		}
	}
	tv, have := e.x.info.Types[n]
	if have && tv.Value != nil {
		if bkind(tv.Type) == "float" {
			if iv := constant.ToInt(tv.Value); iv.Kind() == constant.Int {
				s, _ := zlit(iv)
				return bex{"(f64_of_Z " + s + ")", true}
			}
			return bex{e.bad(n, "non-integral floating-point constant"), false}
		}
		if s, ok := zlit(tv.Value); ok {
			return bex{s, true}
		}
		if tv.Value.Kind().String() == "Bool" {
			return bex{strings.ToLower(tv.Value.String()), true}
		}
	}
	switch v := n.(type) {
	case *ast.ParenExpr:
		return e.expr(v.X)
	case *ast.Ident:
		if v.Name == "nil" {
			return bex{"NIL", true}
		}
		if g, ok := e.vars[v.Name]; ok {
			return bex{g, true}
		}
		if c, ok := e.errVars[v.Name]; ok {
			return bex{c, true}
		}
		return bex{e.bad(n, "unknown identifier "+v.Name), false}
	case *ast.SelectorExpr:
		if e.externFn != nil {
			if g, ok := e.vars[exprText(v)]; ok {
				return bex{g, true}
			}
		}
		if id, ok := v.X.(*ast.Ident); ok && e.recvName != "" && id.Name == e.recvName {
			if g, ok := e.vars[e.recvName+"."+v.Sel.Name]; ok {
				return bex{g, true}
			}
		}
		if bkind(e.x.info.TypeOf(v.X)) == "osetting" && v.Sel.Name == "OutputFrequency" {
			a := e.expr(v.X)
			return e.combine([]bex{a}, func(s []string) string { return "(let '(_, _, _, fr_) := " + s[0] + " in fr_)" })
		}
		if bkind(e.x.info.TypeOf(v.X)) == "osetting" {
			// a CAN output setting = (CANDataIdentifier, CANIDLengthFlag as 0/1, IDMask, OutputFrequency)
			pat := map[string]string{"CANDataIdentifier": "(let '(f0_, _, _, _) := %s in f0_)", "CANIDLengthFlag": "(let '(_, f1_, _, _) := %s in negb (f1_ =? 0))",
				"IDMask": "(let '(_, _, f2_, _) := %s in f2_)"}[v.Sel.Name]
			if pat != "" {
				a := e.expr(v.X)
				return e.combine([]bex{a}, func(s []string) string { return fmt.Sprintf(pat, s[0]) })
			}
		}
		if bkind(e.x.info.TypeOf(v.X)) == "osetting" && v.Sel.Name == "DataType" {
			// promoted from the embedded DataIdentifier
			a := e.expr(v.X)
			return e.combine([]bex{a}, func(s []string) string { return "(let '(dt_, _, _, _) := " + s[0] + " in dt_)" })
		}
		if bkind(e.x.info.TypeOf(v.X)) == "osetting" && v.Sel.Name == "DataIdentifier" {
			a := e.expr(v.X)
			return e.combine([]bex{a}, func(s []string) string { return "(let '(dt_, cs_, pr_, _) := " + s[0] + " in (dt_, cs_, pr_))" })
		}
		if bkind(e.x.info.TypeOf(v.X)) == "dataid" {
			pat := map[string]string{"DataType": "(let '(dt_, _, _) := %s in dt_)", "CoordinateSystem": "(let '(_, cs_, _) := %s in cs_)",
				"Precision": "(let '(_, _, pr_) := %s in pr_)"}[v.Sel.Name]
			if pat != "" {
				a := e.expr(v.X)
				return e.combine([]bex{a}, func(s []string) string { return fmt.Sprintf(pat, s[0]) })
			}
		}
		if pkg, ok := v.X.(*ast.Ident); ok && pkg.Name == "io" && v.Sel.Name == "EOF" {
			return bex{"(Some (-1))", true}
		}
		return bex{e.bad(n, "unsupported selector"), false}
	case *ast.StarExpr:
		if bkind(e.x.info.TypeOf(v.X)) == "oconf" {
			return e.expr(v.X)
		}
		return bex{e.bad(n, "unsupported dereference"), false}
	case *ast.UnaryExpr:
		x := e.expr(v.X)
		switch v.Op {
		case token.NOT:
			return e.combine([]bex{x}, func(a []string) string { return "(negb " + a[0] + ")" })
		case token.SUB:
			return e.combine([]bex{x}, func(a []string) string { return e.intWrap(tv.Type, "(- "+a[0]+")") })
		}
		return bex{e.bad(n, "unsupported unary operator "+v.Op.String()), false}
	case *ast.BinaryExpr:
		if v.Op == token.LAND || v.Op == token.LOR {
			a, b := e.expr(v.X), e.expr(v.Y)
			if a.pure && b.pure {
				op := " && "
				if v.Op == token.LOR {
					op = " || "
				}
				return bex{"(" + a.t + op + b.t + ")", true}
			}
			// short circuit: the right operand is evaluated only when needed
			t := e.tmp()
			if v.Op == token.LAND {
				return bex{"(do " + t + " <- " + a.monadic() + "; if " + t + " then " + b.monadic() + " else Val false)", false}
			}
			return bex{"(do " + t + " <- " + a.monadic() + "; if " + t + " then Val true else " + b.monadic() + ")", false}
		}
		if (v.Op == token.EQL || v.Op == token.NEQ) && e.recvName != "" && e.recvNonNil {
			// o == nil for the receiver of a method that is being executed through a non-nil pointer
			if id, ok := v.X.(*ast.Ident); ok && id.Name == e.recvName {
				if y, ok := v.Y.(*ast.Ident); ok && y.Name == "nil" {
					if v.Op == token.EQL {
						return bex{"false", true}
					}
					return bex{"true", true}
				}
			}
		}
		a, b := e.expr(v.X), e.expr(v.Y)
		lk := bkind(e.x.info.Types[v.X].Type)
		switch v.Op {
		case token.EQL, token.NEQ, token.LSS, token.LEQ, token.GTR, token.GEQ:
			if lk == "bool" {
				return e.combine([]bex{a, b}, func(s []string) string {
					if v.Op == token.EQL {
						return "(Bool.eqb " + s[0] + " " + s[1] + ")"
					}
					return "(negb (Bool.eqb " + s[0] + " " + s[1] + "))"
				})
			}
			if id, ok := v.X.(*ast.Ident); ok && e.extern != nil {
				if md, ok := e.vars[id.Name]; ok && strings.HasPrefix(md, "md_") {
					if v.Op == token.EQL {
						return bex{"(md_is_nil " + md + ")", true}
					}
					return bex{"(negb (md_is_nil " + md + "))", true}
				}
			}
			if lk == "error" || lk == "nil" {
				// err != nil / err == nil
				return e.combine([]bex{a, b}, func(s []string) string {
					x := s[0]
					if x == "NIL" {
						x = s[1]
					}
					if v.Op == token.NEQ {
						return "(match " + x + " with Some _ => true | None => false end)"
					}
					return "(match " + x + " with Some _ => false | None => true end)"
				})
			}
			if lk != "int" {
				return bex{e.bad(n, "comparison of unsupported operands"), false}
			}
			return e.combine([]bex{a, b}, func(s []string) string {
				switch v.Op {
				case token.EQL:
					return "(" + s[0] + " =? " + s[1] + ")"
				case token.NEQ:
					return "(negb (" + s[0] + " =? " + s[1] + "))"
				case token.LSS:
					return "(" + s[0] + " <? " + s[1] + ")"
				case token.LEQ:
					return "(" + s[0] + " <=? " + s[1] + ")"
				case token.GTR:
					return "(" + s[1] + " <? " + s[0] + ")"
				}
				return "(" + s[1] + " <=? " + s[0] + ")"
			})
		}
		if bkind(tv.Type) == "float" {
			fop := map[token.Token]string{token.QUO: "BinarySingleNaN.Bdiv", token.MUL: "BinarySingleNaN.Bmult",
				token.ADD: "BinarySingleNaN.Bplus", token.SUB: "BinarySingleNaN.Bminus"}[v.Op]
			if fop == "" {
				return bex{e.bad(n, "unsupported floating-point operator"), false}
			}
			return e.combine([]bex{a, b}, func(s []string) string { return "(" + fop + " mode_NE " + s[0] + " " + s[1] + ")" })
		}
		if bkind(tv.Type) != "int" {
			return bex{e.bad(n, "non-integer arithmetic"), false}
		}
		ops := map[token.Token]string{token.ADD: "+", token.SUB: "-", token.MUL: "*"}
		fns := map[token.Token]string{token.QUO: "Z.quot", token.REM: "Z.rem", token.AND: "Z.land", token.OR: "Z.lor",
			token.XOR: "Z.lxor", token.SHL: "Z.shiftl", token.SHR: "Z.shiftr"}
		return e.combine([]bex{a, b}, func(s []string) string {
			if o, ok := ops[v.Op]; ok {
				return e.intWrap(tv.Type, "("+s[0]+" "+o+" "+s[1]+")")
			}
			if f, ok := fns[v.Op]; ok {
				return e.intWrap(tv.Type, "("+f+" "+s[0]+" "+s[1]+")")
			}
			e.bad(n, "unsupported binary operator "+v.Op.String())
			return "0"
		})
	case *ast.IndexExpr:
		if bkind(e.x.info.Types[v.X].Type) != "bytes" {
			return bex{e.bad(n, "index of a non-byte-slice"), false}
		}
		s, i := e.expr(v.X), e.expr(v.Index)
		c := e.combine([]bex{s, i}, func(a []string) string { return "(g_index " + a[0] + " " + a[1] + ")" })
		return e.flatten(c)
	case *ast.SliceExpr:
		if !v.Slice3 && bkind(e.x.info.Types[v.X].Type) == "oconf" && v.Low == nil && v.High != nil {
			o, hi := e.expr(v.X), e.expr(v.High)
			return e.flatten(e.combine([]bex{o, hi}, func(a []string) string { return "(g_oreslice " + a[0] + " " + a[1] + ")" }))
		}
		if v.Slice3 || bkind(e.x.info.Types[v.X].Type) != "bytes" {
			return bex{e.bad(n, "unsupported slice expression"), false}
		}
		if v.Low == nil && v.High == nil {
			return e.expr(v.X)
		}
		s := e.expr(v.X)
		lo, hi := bex{"0", true}, bex{"", true}
		if v.Low != nil {
			lo = e.expr(v.Low)
		}
		if v.High != nil {
			hi = e.expr(v.High)
		}
		c := e.combine([]bex{s, lo, hi}, func(a []string) string {
			h := a[2]
			if h == "" {
				h = "(g_len " + a[0] + ")"
			}
			return "(g_slice " + a[0] + " " + a[1] + " " + h + ")"
		})
		return e.flatten(c)
	case *ast.CompositeLit:
		if bkind(tv.Type) != "bytes" {
			return bex{e.bad(n, "unsupported composite literal"), false}
		}
		var ops []bex
		for _, el := range v.Elts {
			ops = append(ops, e.expr(el))
		}
		return e.combine(ops, func(a []string) string {
			parts := make([]string, len(a))
			for i, s := range a {
				parts[i] = "g_byte " + s
			}
			return "[" + strings.Join(parts, "; ") + "]"
		})
	case *ast.CallExpr:
		// conversions
		if ftv, ok := e.x.info.Types[v.Fun]; ok && ftv.IsType() && len(v.Args) == 1 {
			a := e.expr(v.Args[0])
			switch bkind(ftv.Type) {
			case "float":
				if bkind(e.x.info.Types[v.Args[0]].Type) == "int" {
					return e.combine([]bex{a}, func(s []string) string { return "(f64_of_Z " + s[0] + ")" })
				}
			case "int":
				if bkind(e.x.info.Types[v.Args[0]].Type) == "int" {
					return e.combine([]bex{a}, func(s []string) string { return e.intWrap(ftv.Type, s[0]) })
				}
				if bkind(e.x.info.Types[v.Args[0]].Type) == "float" {
					it, _ := intType(ftv.Type)
					if !it.signed {
						// float64 -> unsigned integer, as compiled for amd64 (Base/GoFloat.v)
						return e.combine([]bex{a}, func(s []string) string { return fmt.Sprintf("(to_uint %d %s)", it.bits, s[0]) })
					}
				}
			case "bytes":
				if bkind(e.x.info.Types[v.Args[0]].Type) == "bytes" {
					return a
				}
			case "string":
				switch bkind(e.x.info.Types[v.Args[0]].Type) {
				case "bytes": // string(data): the text with these bytes
					return e.combine([]bex{a}, func(s []string) string { return "(GText " + s[0] + ")" })
				case "string": // between named string types
					return a
				}
			}
			return bex{e.bad(n, "unsupported conversion"), false}
		}
		if id, ok := v.Fun.(*ast.Ident); ok && (id.Name == "cap" || id.Name == "len") && len(v.Args) == 1 && bkind(e.x.info.TypeOf(v.Args[0])) == "oconf" {
			a := e.expr(v.Args[0])
			fn := "g_ocap"
			if id.Name == "len" {
				fn = "g_olen"
			}
			return e.combine([]bex{a}, func(s []string) string { return "(" + fn + " " + s[0] + ")" })
		}
		if id, ok := v.Fun.(*ast.Ident); ok && id.Name == "make" && len(v.Args) == 2 && isOConf(tv.Type) {
			a := e.expr(v.Args[1])
			return e.flatten(e.combine([]bex{a}, func(s []string) string { return "(g_omake " + s[0] + ")" }))
		}
		if id, ok := v.Fun.(*ast.Ident); ok && id.Name == "append" && len(v.Args) == 2 && v.Ellipsis.IsValid() && bkind(tv.Type) == "oconf" {
			a, l := e.expr(v.Args[0]), e.expr(v.Args[1])
			return e.combine([]bex{a, l}, func(s []string) string { return "(g_oappend " + s[0] + " " + s[1] + ")" })
		}
		if sel, ok := v.Fun.(*ast.SelectorExpr); ok && sel.Sel.Name == "Uint16" && len(v.Args) == 0 {
			// setting.DataIdentifier.Uint16()
			if inner, ok := sel.X.(*ast.SelectorExpr); ok && inner.Sel.Name == "DataIdentifier" && bkind(e.x.info.TypeOf(inner.X)) == "osetting" {
				a := e.expr(inner.X)
				return e.combine([]bex{a}, func(s []string) string {
					return "(let '(dt_, cs_, pr_, _) := " + s[0] + " in f_DataIdentifier_Uint16 dt_ cs_ pr_)"
				})
			}
		}
		if id, ok := v.Fun.(*ast.Ident); ok && id.Name == "make" && len(v.Args) == 2 && bkind(tv.Type) == "bytes" {
			a := e.expr(v.Args[1])
			return e.flatten(e.combine([]bex{a}, func(s []string) string { return "(g_make " + s[0] + ")" }))
		}
		if id, ok := v.Fun.(*ast.Ident); ok && id.Name == "len" && len(v.Args) == 1 {
			a := e.expr(v.Args[0])
			return e.combine([]bex{a}, func(s []string) string { return "(g_len " + s[0] + ")" })
		}
		if e.timeFns {
			if sel, ok := v.Fun.(*ast.SelectorExpr); ok {
				full := ""
				if f, ok := e.x.info.Uses[sel.Sel].(*types.Func); ok {
					full = f.FullName()
				}
				if full == "time.Date" && len(v.Args) == 8 && exprText(v.Args[7]) == "time.UTC" {
					var ops []bex
					for _, a := range v.Args[:7] {
						ops = append(ops, e.expr(a))
					}
					return e.combine(ops, func(s []string) string { return "(time_date " + strings.Join(s, " ") + ")" })
				}
				// accessors of a time.Time value: of the UTC-converted instant (t := ts.UTC()) or of the argument as given
				if strings.HasPrefix(full, "(time.Time).") && len(v.Args) == 0 {
					if id, ok := sel.X.(*ast.Ident); ok {
						switch e.vars[id.Name] {
						case "TIME_UTC":
							return bex{"t_" + strings.ToLower(sel.Sel.Name), true}
						case "TIME_ARG":
							if sel.Sel.Name == "UTC" {
								return bex{"TIME_UTC", true}
							}
							return bex{"ts_" + strings.ToLower(sel.Sel.Name), true}
						}
					}
				}
			}
		}
		if e.externFn != nil {
			if f, ok := e.externFn[exprText(v.Fun)]; ok {
				var ops []bex
				for _, i := range f.args {
					if i >= len(v.Args) {
						return bex{e.bad(v, "too few arguments of an external call"), true}
					}
					ops = append(ops, e.expr(v.Args[i]))
				}
				if len(ops) == 0 {
					return bex{f.name, true}
				}
				return e.combine(ops, func(s []string) string { return "(" + f.name + " " + strings.Join(s, " ") + ")" })
			}
		}
		if e.extern != nil {
			if t, ok := e.extern[exprText(v)]; ok {
				return t
			}
			// measurement.MarshalMTData2Packet(id) on a parameter of interface type: the encoder is a parameter
			if sel, ok := v.Fun.(*ast.SelectorExpr); ok && sel.Sel.Name == "MarshalMTData2Packet" && len(v.Args) == 1 {
				if id, ok := sel.X.(*ast.Ident); ok && e.vars[id.Name] == "md_marshal" {
					a := e.expr(v.Args[0])
					return e.combine([]bex{a}, func(s []string) string { return "(md_marshal " + s[0] + ")" })
				}
			}
			// data.UnmarshalMTData2Packet(x) on the value MeasurementData() returned
			if sel, ok := v.Fun.(*ast.SelectorExpr); ok && sel.Sel.Name == "UnmarshalMTData2Packet" && len(v.Args) == 1 {
				if id, ok := sel.X.(*ast.Ident); ok {
					if md, ok := e.vars[id.Name]; ok && strings.HasPrefix(md, "md_") {
						a := e.expr(v.Args[0])
						return e.combine([]bex{a}, func(s []string) string { return "(md_unmarshal " + md + " " + s[0] + ")" })
					}
				}
			}
			// a read-only accessor of the receiver whose body is one return statement: inline it
			if sel, ok := v.Fun.(*ast.SelectorExpr); ok && len(v.Args) == 0 {
				if rid, ok := sel.X.(*ast.Ident); ok && rid.Name == e.recvName {
					if fd := e.x.findFunc("Client", sel.Sel.Name); fd != nil && len(fd.Body.List) == 1 &&
						fd.Recv != nil && len(fd.Recv.List[0].Names) == 1 && fd.Recv.List[0].Names[0].Name == e.recvName {
						if r, ok := fd.Body.List[0].(*ast.ReturnStmt); ok && len(r.Results) == 1 {
							return e.expr(r.Results[0])
						}
					}
				}
			}
		}
		if sel, ok := v.Fun.(*ast.SelectorExpr); ok && len(v.Args) == 0 && bkind(e.x.info.TypeOf(sel.X)) == "osetting" {
			if s := e.x.info.Selections[sel]; s != nil && s.Kind() == types.MethodVal {
				rt := s.Recv()
				if p, ok := rt.(*types.Pointer); ok {
					rt = p.Elem()
				}
				if named, ok := rt.(*types.Named); ok {
					if fd := e.x.funcs[named.Obj().Name()+"."+sel.Sel.Name]; fd != nil && len(fd.Body.List) == 1 && len(fd.Recv.List[0].Names) == 1 {
						if r, ok := fd.Body.List[0].(*ast.ReturnStmt); ok && len(r.Results) == 1 {
							a := e.expr(sel.X)
							if !a.pure {
								return bex{e.bad(n, "receiver with effects"), false}
							}
							rn := fd.Recv.List[0].Names[0].Name
							saved, had := e.vars[rn]
							e.vars[rn] = a.t
							out := e.expr(r.Results[0])
							if had {
								e.vars[rn] = saved
							} else {
								delete(e.vars, rn)
							}
							return out
						}
					}
				}
			}
		}
		if sel, ok := v.Fun.(*ast.SelectorExpr); ok && e.pkgFuncs != "" {
			// pkg.F(args) for a translated function of the imported library
			if pid, ok := sel.X.(*ast.Ident); ok && pid.Name == e.pkgFuncs {
				fn := bfnName("", sel.Sel.Name)
				if f, ok := e.x.info.Uses[sel.Sel].(*types.Func); ok && e.known[fn] {
					sig := f.Type().(*types.Signature)
					var ops []bex
					for i, a := range v.Args {
						b := e.expr(a)
						if b.t == "NIL" && i < sig.Params().Len() && bkind(sig.Params().At(i).Type()) == "bytes" {
							b = bex{"[]", true}
						}
						ops = append(ops, b)
					}
					return e.flatten(e.combine(ops, func(s []string) string { return "(" + fn + " " + strings.Join(s, " ") + ")" }))
				}
			}
		}
		if sel, ok := v.Fun.(*ast.SelectorExpr); ok {
			full := ""
			if obj := e.x.info.Uses[sel.Sel]; obj != nil {
				if f, ok := obj.(*types.Func); ok {
					full = f.FullName()
				}
			}
			switch full {
			case "(encoding/binary.bigEndian).Uint16":
				a := e.expr(v.Args[0])
				return e.flatten(e.combine([]bex{a}, func(s []string) string { return "(g_be16 " + s[0] + ")" }))
			case "(encoding/binary.bigEndian).Uint32":
				a := e.expr(v.Args[0])
				return e.flatten(e.combine([]bex{a}, func(s []string) string { return "(g_be32 " + s[0] + ")" }))
			case "(encoding/binary.bigEndian).Uint64":
				a := e.expr(v.Args[0])
				return e.flatten(e.combine([]bex{a}, func(s []string) string { return "(g_be64 " + s[0] + ")" }))
			case "strings.TrimSpace":
				a := e.expr(v.Args[0])
				return e.combine([]bex{a}, func(s []string) string { return "(g_trimspace " + s[0] + ")" })
			case "fmt.Sprintf":
				// a formatted text is kept as its format and its (integer) arguments
				if lit, ok := v.Args[0].(*ast.BasicLit); ok {
					var ops []bex
					for _, arg := range v.Args[1:] {
						if bkind(e.x.info.Types[arg].Type) != "int" {
							return bex{e.bad(n, "unsupported Sprintf argument"), false}
						}
						ops = append(ops, e.expr(arg))
					}
					return e.combine(ops, func(s []string) string { return "(GFmt " + lit.Value + "%string [" + strings.Join(s, "; ") + "])" })
				}
			case "bytes.Index":
				a, b := e.expr(v.Args[0]), e.expr(v.Args[1])
				return e.combine([]bex{a, b}, func(s []string) string { return "(g_bytes_index " + s[0] + " " + s[1] + ")" })
			case "fmt.Errorf", "errors.New":
				// the arguments are evaluated (they may panic); the error is identified by its site in the function
				var ops []bex
				for _, arg := range v.Args {
					if k := bkind(e.x.info.Types[arg].Type); k == "" || k == "string" {
						continue // string literals etc.
					}
					ops = append(ops, e.expr(arg))
				}
				e.sites++
				site := e.sites
				// %w of an error value: the cause is what callers can observe; keep it
				for i, arg := range v.Args {
					if bkind(e.x.info.Types[arg].Type) == "error" && i > 0 {
						// the other arguments are still evaluated (they may panic), in order
						var all []bex
						for _, a2 := range v.Args {
							if k := bkind(e.x.info.Types[a2].Type); k == "" || k == "string" {
								continue
							}
							all = append(all, e.expr(a2))
						}
						pos := 0
						for j, a2 := range v.Args[:i] {
							_ = j
							if k := bkind(e.x.info.Types[a2].Type); k == "" || k == "string" {
								continue
							}
							pos++
						}
						return e.combine(all, func(a []string) string { return a[pos] })
					}
				}
				return e.combine(ops, func([]string) string { return fmt.Sprintf("(Some %d)", site) })
			}
			if bkind(e.x.info.TypeOf(sel.X)) == "dataid" && sel.Sel.Name == "Uint16" && len(v.Args) == 0 {
				a := e.expr(sel.X)
				return e.combine([]bex{a}, func(s []string) string {
					return "(let '(dt_, cs_, pr_) := " + s[0] + " in f_DataIdentifier_Uint16 dt_ cs_ pr_)"
				})
			}
			// a method of a byte-slice type that is itself translated
			if s := e.x.info.Selections[sel]; s != nil && s.Kind() == types.MethodVal {
				rt := s.Recv()
				if named, ok := rt.(*types.Named); ok && bkind(named) == "bytes" {
					fn := bfnName(named.Obj().Name(), sel.Sel.Name)
					if e.known[fn] {
						ops := []bex{e.expr(sel.X)}
						for _, a := range v.Args {
							ops = append(ops, e.expr(a))
						}
						c := e.combine(ops, func(s []string) string { return "(" + fn + " " + strings.Join(s, " ") + ")" })
						return e.flatten(c)
					}
				}
			}
		}
		return bex{e.bad(n, "unsupported call"), false}
	}
	return bex{e.bad(n, fmt.Sprintf("unsupported expression %T", n)), false}
}

// flatten: the combined term computes an R T itself (g_index, g_slice, a call), so a pure combination is already
// monadic and a monadic combination is R (R T): join it.
func (e *benv) flatten(c bex) bex {
	if c.pure {
		return bex{c.t, false}
	}
	// c.t = (do ..; Val X) with X : R T  ->  (do ..; X)
	i := strings.LastIndex(c.t, "Val ")
	return bex{c.t[:i] + c.t[i+4:], false}
}

// assigned collects the local identifiers assigned in a statement list
func assigned(stmts []ast.Stmt, out map[string]bool) {
	for _, st := range stmts {
		ast.Inspect(st, func(n ast.Node) bool {
			switch a := n.(type) {
			case *ast.AssignStmt:
				for _, l := range a.Lhs {
					if id := rootIdent(l); id != nil {
						out[id.Name] = true
					}
				}
			case *ast.ExprStmt:
				if call, ok := a.X.(*ast.CallExpr); ok {
					if len(call.Args) > 0 {
						if id := rootIdent(call.Args[0]); id != nil {
							out[id.Name] = true // PutUint16(x[..], v), copy(x[..], y)
						}
					}
					if sel, ok := call.Fun.(*ast.SelectorExpr); ok {
						if id := rootIdent(sel.X); id != nil {
							out[id.Name] = true // x.M(..), (*o)[i].F.M(..)
						}
					}
				}
			case *ast.IncDecStmt:
				if id, ok := a.X.(*ast.Ident); ok {
					out[id.Name] = true
				}
			}
			return true
		})
	}
}

// rootIdent: the identifier an lvalue-like expression is rooted in (x, *x, x[i], x[a:b], x.f, (*x)[i].f ...)
func rootIdent(n ast.Expr) *ast.Ident {
	for {
		switch v := n.(type) {
		case *ast.Ident:
			return v
		case *ast.ParenExpr:
			n = v.X
		case *ast.StarExpr:
			n = v.X
		case *ast.IndexExpr:
			n = v.X
		case *ast.SliceExpr:
			n = v.X
		case *ast.SelectorExpr:
			n = v.X
		default:
			return nil
		}
	}
}

// block renders a statement list as a term of type R Ret; cont renders what follows when the list falls through.
func (e *benv) block(stmts []ast.Stmt, ret func([]ast.Expr) string, cont func() string) string {
	if len(stmts) == 0 {
		if cont == nil {
			e.ok = false
			e.x.fail(e.item, "path without return")
			return "Pan"
		}
		return cont()
	}
	rest := func() string { return e.block(stmts[1:], ret, cont) }
	bindv := func(name string, val bex) string {
		g := "v_" + strings.NewReplacer(".", "_", "*", "val", "!", "").Replace(name)
		saved, had := e.vars[name]
		e.vars[name] = g
		var out string
		if val.pure {
			out = "(let " + g + " := " + val.t + " in " + rest() + ")"
		} else {
			out = "(do " + g + " <- " + val.t + "; " + rest() + ")"
		}
		if had {
			e.vars[name] = saved
		} else {
			delete(e.vars, name)
		}
		return out
	}
	if e.useViews {
		if out, ok := e.viewStmt(stmts[0], rest); ok {
			return out
		}
	}
	switch s := stmts[0].(type) {
	case *ast.ReturnStmt:
		return ret(s.Results)
	case *ast.BlockStmt:
		return e.block(append(append([]ast.Stmt{}, s.List...), stmts[1:]...), ret, cont)
	case *ast.IfStmt:
		if s.Init != nil {
			// if x := e; cond { .. }  ==  { x := e; if cond { .. } }
			inner := &ast.IfStmt{If: s.If, Cond: s.Cond, Body: s.Body, Else: s.Else}
			return e.block(append([]ast.Stmt{s.Init, inner}, stmts[1:]...), ret, cont)
		}
		c := e.expr(s.Cond)
		thenT := e.block(s.Body.List, ret, rest)
		var elseT string
		switch eb := s.Else.(type) {
		case nil:
			elseT = rest()
		case *ast.BlockStmt:
			elseT = e.block(eb.List, ret, rest)
		case *ast.IfStmt:
			elseT = e.block([]ast.Stmt{eb}, ret, rest)
		}
		if c.pure {
			return "(if " + c.t + " then " + thenT + " else " + elseT + ")"
		}
		t := e.tmp()
		return "(do " + t + " <- " + c.t + "; if " + t + " then " + thenT + " else " + elseT + ")"
	case *ast.DeclStmt:
		gd, ok := s.Decl.(*ast.GenDecl)
		if ok && gd.Tok == token.CONST {
			return rest() // local constants: their uses carry their values
		}
		if !ok || gd.Tok != token.VAR || len(gd.Specs) != 1 {
			return e.bad(s, "unsupported declaration")
		}
		vs := gd.Specs[0].(*ast.ValueSpec)
		if len(vs.Names) != 1 {
			return e.bad(s, "unsupported declaration")
		}
		if len(vs.Values) == 1 {
			return bindv(vs.Names[0].Name, e.expr(vs.Values[0]))
		}
		zero := map[string]string{"int": "0", "bool": "false", "bytes": "[]", "error": "None", "dataid": "(0, 0, 0)"}[bkind(e.x.info.Defs[vs.Names[0]].Type())]
		if zero == "" {
			return e.bad(s, "unsupported variable type")
		}
		return bindv(vs.Names[0].Name, bex{zero, true})
	case *ast.DeferStmt:
		if e.skipCalls[exprText(s.Call)] {
			return rest()
		}
		return e.bad(s, "unsupported defer")
	case *ast.SelectStmt:
		// select { case <-ctx.Done(): A; default: B }
		if e.ctxDone == "" || len(s.Body.List) != 2 {
			return e.bad(s, "unsupported select")
		}
		var onDone, onDefault []ast.Stmt
		seen := 0
		for _, cl := range s.Body.List {
			cc := cl.(*ast.CommClause)
			if cc.Comm == nil {
				onDefault = cc.Body
				seen |= 1
				continue
			}
			if es, ok := cc.Comm.(*ast.ExprStmt); ok {
				if u, ok := es.X.(*ast.UnaryExpr); ok && u.Op == token.ARROW && exprText(u.X) == e.ctxDone {
					onDone = cc.Body
					seen |= 2
				}
			}
		}
		if seen != 3 {
			return e.bad(s, "unsupported select")
		}
		return "(if ctx_done then " + e.block(onDone, ret, rest) + " else " + e.block(onDefault, ret, rest) + ")"
	case *ast.SwitchStmt:
		// switch tag { case c1, c2: A; ...; default: D }: constant cases, no fallthrough
		if s.Init != nil && s.Tag != nil {
			// switch x := e; tag { .. }  ==  { x := e; switch tag { .. } }
			inner := &ast.SwitchStmt{Switch: s.Switch, Tag: s.Tag, Body: s.Body}
			return e.block(append([]ast.Stmt{s.Init, inner}, stmts[1:]...), ret, cont)
		}
		if s.Tag == nil {
			return e.bad(s, "unsupported switch")
		}
		tag := e.expr(s.Tag)
		tg := e.tmp()
		chain := ""
		closeP := ""
		var deflt []ast.Stmt
		for _, cl := range s.Body.List {
			cc := cl.(*ast.CaseClause)
			for _, st := range cc.Body {
				if br, ok := st.(*ast.BranchStmt); ok && br.Tok != token.CONTINUE {
					return e.bad(br, "unsupported branch in a switch")
				}
			}
			if cc.List == nil {
				deflt = cc.Body
				continue
			}
			var conds []string
			for _, c := range cc.List {
				tv, ok := e.x.info.Types[c]
				if !ok || tv.Value == nil {
					return e.bad(c, "non-constant case")
				}
				lit, ok := zlit(tv.Value)
				if !ok {
					return e.bad(c, "non-integer case")
				}
				conds = append(conds, "("+tg+" =? "+lit+")")
			}
			chain += "(if " + strings.Join(conds, " || ") + " then " + e.block(cc.Body, ret, rest) + " else "
			closeP += ")"
		}
		chain += e.block(deflt, ret, rest) + closeP
		if tag.pure {
			return "(let " + tg + " := " + tag.t + " in " + chain + ")"
		}
		return "(do " + tg + " <- " + tag.t + "; " + chain + ")"
	case *ast.ExprStmt:
		call, ok := s.X.(*ast.CallExpr)
		if !ok {
			return e.bad(s, "unsupported expression statement")
		}
		if e.skipCalls[exprText(call)] {
			return rest()
		}
		// (*o)[i].DataIdentifier.SetUint16(x) on an element of a local / receiver configuration
		if sel, ok := call.Fun.(*ast.SelectorExpr); ok && sel.Sel.Name == "SetUint16" && len(call.Args) == 1 {
			if fsel, ok := sel.X.(*ast.SelectorExpr); ok && fsel.Sel.Name == "DataIdentifier" {
				if ix, ok := fsel.X.(*ast.IndexExpr); ok && bkind(e.x.info.TypeOf(ix.X)) == "oconf" {
					if rid := rootIdent(ix.X); rid != nil {
						if cur, okv := e.vars[rid.Name]; okv {
							i, a := e.expr(ix.Index), e.expr(call.Args[0])
							return bindv(rid.Name, e.flatten(e.combine([]bex{i, a}, func(s []string) string {
								return "(g_oset_id " + cur + " " + s[0] + " " + s[1] + ")"
							})))
						}
					}
				}
			}
		}
		// id.SetUint16(x) on a local DataIdentifier value
		if sel, ok := call.Fun.(*ast.SelectorExpr); ok && sel.Sel.Name == "SetUint16" && len(call.Args) == 1 {
			if rid, ok := sel.X.(*ast.Ident); ok && bkind(e.x.info.TypeOf(sel.X)) == "dataid" {
				if cur, okv := e.vars[rid.Name]; okv {
					a := e.expr(call.Args[0])
					return bindv(rid.Name, e.combine([]bex{a}, func(s []string) string {
						return "(let '(dt_, cs_, pr_) := " + cur + " in f_DataIdentifier_SetUint16 dt_ cs_ pr_ " + s[0] + ")"
					}))
				}
			}
		}
		// x.M(args) for a local byte slice x and a translated method that writes through its receiver
		if sel, ok := call.Fun.(*ast.SelectorExpr); ok {
			if rid, ok := sel.X.(*ast.Ident); ok {
				if sl := e.x.info.Selections[sel]; sl != nil && sl.Kind() == types.MethodVal {
					if named, ok := sl.Recv().(*types.Named); ok && bkind(named) == "bytes" {
						fn := bfnName(named.Obj().Name(), sel.Sel.Name)
						if cur, okv := e.vars[rid.Name]; okv && e.known[fn] && e.mutators[fn] {
							ops := []bex{{cur, true}}
							for _, a := range call.Args {
								ops = append(ops, e.expr(a))
							}
							return bindv(rid.Name, e.flatten(e.combine(ops, func(a []string) string { return "(" + fn + " " + strings.Join(a, " ") + ")" })))
						}
					}
				}
			}
		}
		if len(call.Args) != 2 {
			return e.bad(s, "unsupported expression statement")
		}
		// destination: x, x[a:] or x[a:b] for a local byte slice x
		dst, off := call.Args[0], bex{"0", true}
		hi := bex{"", true}
		if se, ok := dst.(*ast.SliceExpr); ok && !se.Slice3 {
			dst = se.X
			if se.Low != nil {
				off = e.expr(se.Low)
			}
			if se.High != nil {
				hi = e.expr(se.High)
			}
		}
		did, ok := dst.(*ast.Ident)
		if !ok || bkind(e.x.info.TypeOf(dst)) != "bytes" {
			return e.bad(s, "unsupported destination of a slice write")
		}
		cur, known := e.vars[did.Name]
		if !known {
			return e.bad(s, "unknown variable")
		}
		full := ""
		if sel, ok := call.Fun.(*ast.SelectorExpr); ok {
			if f, ok := e.x.info.Uses[sel.Sel].(*types.Func); ok {
				full = f.FullName()
			}
		}
		if fid, ok := call.Fun.(*ast.Ident); ok && fid.Name == "copy" {
			full = "copy"
		}
		src := e.expr(call.Args[1])
		switch full {
		case "(encoding/binary.bigEndian).PutUint16":
			if hi.t != "" {
				return bindv(did.Name, e.flatten(e.combine([]bex{off, hi, src}, func(a []string) string {
					return "(g_put16_in " + cur + " " + a[0] + " " + a[1] + " " + a[2] + ")"
				})))
			}
			return bindv(did.Name, e.flatten(e.combine([]bex{off, src}, func(a []string) string { return "(g_put16 " + cur + " " + a[0] + " " + a[1] + ")" })))
		}
		if hi.t != "" {
			return e.bad(s, "unsupported bounded destination")
		}
		switch full {
		case "(encoding/binary.bigEndian).PutUint32":
			return bindv(did.Name, e.flatten(e.combine([]bex{off, src}, func(a []string) string { return "(g_putn 4 " + cur + " " + a[0] + " " + a[1] + ")" })))
		case "(encoding/binary.bigEndian).PutUint64":
			return bindv(did.Name, e.flatten(e.combine([]bex{off, src}, func(a []string) string { return "(g_putn 8 " + cur + " " + a[0] + " " + a[1] + ")" })))
		case "copy":
			return bindv(did.Name, e.flatten(e.combine([]bex{off, src}, func(a []string) string { return "(g_copy " + cur + " " + a[0] + " " + a[1] + ")" })))
		}
		return e.bad(s, "unsupported call statement")
	case *ast.AssignStmt:
		if len(s.Lhs) == 2 && len(s.Rhs) == 1 && s.Tok == token.DEFINE && e.portWrite != "" {
			// _, err := e.port.Write(x): the frame joins the port's output unless the write fails (pw_err)
			if call, ok := s.Rhs[0].(*ast.CallExpr); ok && exprText(call.Fun) == e.portWrite && len(call.Args) == 1 {
				n0, ok0 := s.Lhs[0].(*ast.Ident)
				errId, ok1 := s.Lhs[1].(*ast.Ident)
				if !ok0 || !ok1 || n0.Name != "_" {
					return e.bad(s, "unsupported use of the port's write result")
				}
				arg := e.expr(call.Args[0])
				key := e.recvName + ".port!"
				cur := e.vars[key]
				t := e.tmp()
				savedP := e.vars[key]
				savedE, hadE := e.vars[errId.Name]
				e.vars[key] = "v_port" + t
				e.vars[errId.Name] = "v_" + errId.Name
				bind := "let '(v_port" + t + ", v_" + errId.Name + ") := g_port_write " + cur + " " + t + " pw_err in " + rest()
				e.vars[key] = savedP
				if hadE {
					e.vars[errId.Name] = savedE
				} else {
					delete(e.vars, errId.Name)
				}
				if arg.pure {
					return "(let " + t + " := " + arg.t + " in " + bind + ")"
				}
				return "(do " + t + " <- " + arg.t + "; " + bind + ")"
			}
		}
		if len(s.Lhs) == 1 && len(s.Rhs) == 1 && s.Tok == token.DEFINE && e.fieldMut != nil {
			// err := e.field.M(args) for a translated method that rewrites its receiver: the field is rebound
			if call, ok := s.Rhs[0].(*ast.CallExpr); ok {
				if sel, ok := call.Fun.(*ast.SelectorExpr); ok {
					if fsel, ok := sel.X.(*ast.SelectorExpr); ok {
						if rid, ok := fsel.X.(*ast.Ident); ok && rid.Name == e.recvName {
							if fn, ok := e.fieldMut[fsel.Sel.Name+"."+sel.Sel.Name]; ok {
								id, okI := s.Lhs[0].(*ast.Ident)
								key := e.recvName + "." + fsel.Sel.Name
								cur, okF := e.vars[key]
								if !okI || !okF {
									return e.bad(s, "unsupported receiver-rewriting call")
								}
								ops := []bex{{cur, true}}
								for _, a := range call.Args {
									ops = append(ops, e.expr(a))
								}
								c := e.flatten(e.combine(ops, func(a []string) string { return "(" + fn + " " + strings.Join(a, " ") + ")" }))
								t := e.tmp()
								savedF := e.vars[key]
								savedX, hadX := e.vars[id.Name]
								e.vars[key] = "v_" + fsel.Sel.Name + t
								e.vars[id.Name] = "v_" + id.Name
								out := "(do " + t + " <- " + c.t + "; let '(v_" + id.Name + ", v_" + fsel.Sel.Name + t + ") := " + t + " in " + rest() + ")"
								e.vars[key] = savedF
								if hadX {
									e.vars[id.Name] = savedX
								} else {
									delete(e.vars, id.Name)
								}
								return out
							}
						}
					}
				}
			}
		}
		if len(s.Lhs) >= 2 && len(s.Rhs) == 1 && (s.Tok == token.DEFINE && len(s.Lhs) == 2 || e.externFn != nil) {
			// a, b := f(...) for a translated function returning a pair; with external functions also a, _, c = f(...)
			var names []string
			for _, l := range s.Lhs {
				id, ok := l.(*ast.Ident)
				if !ok {
					return e.bad(s, "unsupported assignment")
				}
				names = append(names, id.Name)
			}
			rhs := e.expr(s.Rhs[0])
			type sv struct {
				v   string
				had bool
			}
			saved := map[string]sv{}
			var pats []string
			for _, n := range names {
				if n == "_" {
					pats = append(pats, "_")
					continue
				}
				v, had := e.vars[n]
				saved[n] = sv{v, had}
				pats = append(pats, "v_"+n)
			}
			for _, n := range names {
				if n != "_" {
					e.vars[n] = "v_" + n
				}
			}
			var out string
			if rhs.pure {
				out = "(let '(" + strings.Join(pats, ", ") + ") := " + rhs.t + " in " + rest() + ")"
			} else {
				t := e.tmp()
				out = "(do " + t + " <- " + rhs.t + "; let '(" + strings.Join(pats, ", ") + ") := " + t + " in " + rest() + ")"
			}
			for n, v := range saved {
				if v.had {
					e.vars[n] = v.v
				} else {
					delete(e.vars, n)
				}
			}
			return out
		}
		if len(s.Lhs) == len(s.Rhs) && len(s.Lhs) > 1 && (s.Tok == token.ASSIGN || s.Tok == token.DEFINE) {
			// a, b = x, y: all right-hand sides first, then the assignments left to right
			pre := ""
			var single []ast.Stmt
			var fake []string
			for i, r := range s.Rhs {
				b := e.expr(r)
				name := fmt.Sprintf("par__%d_%d", e.fresh, i)
				if b.t == "NIL" {
					e.vars[name] = "NIL"
				} else {
					t := e.tmp()
					if b.pure {
						pre += "let " + t + " := " + b.t + " in "
					} else {
						pre += "do " + t + " <- " + b.t + "; "
					}
					e.vars[name] = t
				}
				fake = append(fake, name)
				single = append(single, &ast.AssignStmt{Lhs: []ast.Expr{s.Lhs[i]}, Tok: s.Tok, Rhs: []ast.Expr{ast.NewIdent(name)}})
			}
			out := "(" + pre + e.block(append(single, stmts[1:]...), ret, cont) + ")"
			for _, nme := range fake {
				delete(e.vars, nme)
			}
			return out
		}
		if len(s.Lhs) != 1 || len(s.Rhs) != 1 {
			return e.bad(s, "unsupported assignment")
		}
		if ix, ok := s.Lhs[0].(*ast.IndexExpr); ok && s.Tok == token.ASSIGN {
			// x[i] = e for a local byte slice x
			xid, ok := ix.X.(*ast.Ident)
			if !ok || bkind(e.x.info.TypeOf(ix.X)) != "bytes" {
				return e.bad(s, "unsupported element assignment")
			}
			cur, known := e.vars[xid.Name]
			if !known {
				return e.bad(s, "unknown variable")
			}
			i, v := e.expr(ix.Index), e.expr(s.Rhs[0])
			return bindv(xid.Name, e.flatten(e.combine([]bex{i, v}, func(a []string) string { return "(g_set " + cur + " " + a[0] + " " + a[1] + ")" })))
		}
		if st, ok := s.Lhs[0].(*ast.StarExpr); ok && s.Tok == token.ASSIGN && e.recvName != "" {
			if rid, ok := st.X.(*ast.Ident); ok && rid.Name == e.recvName {
				if _, okv := e.vars[e.recvName+".*"]; okv {
					return bindv(e.recvName+".*", e.expr(s.Rhs[0]))
				}
			}
		}
		if st, ok := s.Lhs[0].(*ast.StarExpr); ok && s.Tok == token.ASSIGN && bkind(e.x.info.TypeOf(st.X)) == "oconf" {
			if rid, ok := st.X.(*ast.Ident); ok {
				if _, okv := e.vars[rid.Name]; okv {
					return bindv(rid.Name, e.expr(s.Rhs[0]))
				}
			}
		}
		if fsel, ok := s.Lhs[0].(*ast.SelectorExpr); ok && s.Tok == token.ASSIGN {
			if k, isCan := map[string]int{"CANDataIdentifier": 0, "CANIDLengthFlag": 1, "IDMask": 2}[fsel.Sel.Name]; isCan {
				if ix, ok := fsel.X.(*ast.IndexExpr); ok && bkind(e.x.info.TypeOf(ix.X)) == "oconf" {
					if rid := rootIdent(ix.X); rid != nil {
						if cur, okv := e.vars[rid.Name]; okv {
							i, a := e.expr(ix.Index), e.expr(s.Rhs[0])
							isBool := bkind(e.x.info.TypeOf(s.Rhs[0])) == "bool"
							return bindv(rid.Name, e.flatten(e.combine([]bex{i, a}, func(x []string) string {
								val := x[1]
								if isBool {
									val = "(if " + val + " then 1 else 0)"
								}
								return fmt.Sprintf("(g_oset_at %s %s %d %s)", cur, x[0], k, val)
							})))
						}
					}
				}
			}
		}
		if fsel, ok := s.Lhs[0].(*ast.SelectorExpr); ok && fsel.Sel.Name == "OutputFrequency" && s.Tok == token.ASSIGN {
			if ix, ok := fsel.X.(*ast.IndexExpr); ok && bkind(e.x.info.TypeOf(ix.X)) == "oconf" {
				if rid := rootIdent(ix.X); rid != nil {
					if cur, okv := e.vars[rid.Name]; okv {
						i, a := e.expr(ix.Index), e.expr(s.Rhs[0])
						return bindv(rid.Name, e.flatten(e.combine([]bex{i, a}, func(x []string) string {
							return "(g_oset_freq " + cur + " " + x[0] + " " + x[1] + ")"
						})))
					}
				}
			}
		}
		if sel, ok := s.Lhs[0].(*ast.SelectorExpr); ok && e.recvName != "" {
			// c.X = e / c.X += e on a state field
			if rid, ok := sel.X.(*ast.Ident); ok && rid.Name == e.recvName {
				key := e.recvName + "." + sel.Sel.Name
				cur, known := e.vars[key]
				if !known {
					return e.bad(s, "assignment to an unknown field "+sel.Sel.Name)
				}
				rhs := e.expr(s.Rhs[0])
				if rhs.t == "NIL" {
					rhs = bex{"[]", true}
				}
				switch s.Tok {
				case token.ASSIGN:
					return bindv(key, rhs)
				case token.ADD_ASSIGN:
					t := e.x.info.TypeOf(s.Lhs[0])
					return bindv(key, e.combine([]bex{rhs}, func(a []string) string { return e.intWrap(t, "("+cur+" + "+a[0]+")") }))
				}
				return e.bad(s, "unsupported field assignment")
			}
		}
		id, ok := s.Lhs[0].(*ast.Ident)
		if !ok {
			return e.bad(s, "assignment to a non-variable")
		}
		// x := c.M(...) for a translated state method M: the state is rebound, x gets its (single) result
		if call, ok := s.Rhs[0].(*ast.CallExpr); ok && e.recvName != "" {
			if sel, ok := call.Fun.(*ast.SelectorExpr); ok {
				if rid, ok := sel.X.(*ast.Ident); ok && rid.Name == e.recvName {
					if params, ok := e.stateFns[sel.Sel.Name]; ok {
						st := make([]string, len(e.fields))
						for i, f := range e.fields {
							st[i] = e.vars[e.recvName+"."+f]
						}
						t := e.tmp()
						gx := "v_" + id.Name
						saved := map[string]string{}
						for _, f := range e.fields {
							saved[f] = e.vars[e.recvName+"."+f]
							e.vars[e.recvName+"."+f] = "n_" + f + t
						}
						sx, hx := e.vars[id.Name]
						e.vars[id.Name] = gx
						ns := make([]string, len(e.fields))
						for i, f := range e.fields {
							ns[i] = "n_" + f + t
						}
						out := "(do " + t + " <- (g_Client_" + sel.Sel.Name + " " + params + " (" + strings.Join(st, ", ") + ")); let '(" + gx + ", (" + strings.Join(ns, ", ") + ")) := " + t + " in " + rest() + ")"
						for _, f := range e.fields {
							e.vars[e.recvName+"."+f] = saved[f]
						}
						if hx {
							e.vars[id.Name] = sx
						} else {
							delete(e.vars, id.Name)
						}
						return out
					}
				}
			}
		}
		// data := c.MeasurementData(): an opaque value determined by the current packet
		if call, ok := s.Rhs[0].(*ast.CallExpr); ok && e.extern != nil && exprText(call) == e.recvName+".MeasurementData()" {
			saved, had := e.vars[id.Name]
			e.vars[id.Name] = "md_" + id.Name
			out := "(let md_" + id.Name + " := " + e.vars[e.recvName+".mtData2Packet"] + " in " + rest() + ")"
			if had {
				e.vars[id.Name] = saved
			} else {
				delete(e.vars, id.Name)
			}
			return out
		}
		rhs := e.expr(s.Rhs[0])
		if rhs.t == "NIL" {
			switch bkind(e.x.info.TypeOf(s.Lhs[0])) {
			case "error":
				rhs = bex{"None", true}
			case "bytes":
				rhs = bex{"[]", true}
			}
		}
		switch s.Tok {
		case token.DEFINE, token.ASSIGN:
			return bindv(id.Name, rhs)
		case token.ADD_ASSIGN, token.SUB_ASSIGN:
			cur, ok := e.vars[id.Name]
			if !ok {
				return e.bad(s, "unknown variable")
			}
			op := "+"
			if s.Tok == token.SUB_ASSIGN {
				op = "-"
			}
			t := e.x.info.TypeOf(s.Lhs[0])
			val := e.combine([]bex{rhs}, func(a []string) string { return e.intWrap(t, "("+cur+" "+op+" "+a[0]+")") })
			return bindv(id.Name, val)
		}
		return e.bad(s, "unsupported assignment operator")
	case *ast.ForStmt:
		// for i := lo; i < hi; i++ { body }
		init, ok1 := s.Init.(*ast.AssignStmt)
		cond, ok2 := s.Cond.(*ast.BinaryExpr)
		post, ok3 := s.Post.(*ast.IncDecStmt)
		if !ok1 || !ok2 || !ok3 || init.Tok != token.DEFINE || len(init.Lhs) != 1 || cond.Op != token.LSS || post.Tok != token.INC {
			return e.bad(s, "unsupported loop shape")
		}
		iv, okI := init.Lhs[0].(*ast.Ident)
		cv, okC := cond.X.(*ast.Ident)
		pv, okP := post.X.(*ast.Ident)
		if !okI || !okC || !okP || cv.Name != iv.Name || pv.Name != iv.Name {
			return e.bad(s, "unsupported loop shape")
		}
		lo, hi := e.expr(init.Rhs[0]), e.expr(cond.Y)
		if !lo.pure || !hi.pure {
			return e.bad(s, "loop bounds that can panic")
		}
		as := map[string]bool{}
		assigned(s.Body.List, as)
		if as[iv.Name] {
			return e.bad(s, "loop body assigns the loop variable")
		}
		var names []string
		for name := range as {
			if _, outer := e.vars[name]; outer {
				names = append(names, name)
			}
		}
		names = e.viewLoopState(as, names)
		sortStrings(names)
		// the bound must not mention an assigned variable
		bad := false
		ast.Inspect(cond.Y, func(n ast.Node) bool {
			if id, ok := n.(*ast.Ident); ok && as[id.Name] {
				bad = true
			}
			return true
		})
		if bad || len(names) == 0 {
			return e.bad(s, "unsupported loop (bound assigned in the body, or no state)")
		}
		tuple := func() string {
			parts := make([]string, len(names))
			for i, nme := range names {
				parts[i] = e.vars[nme]
			}
			if len(parts) == 1 {
				return parts[0]
			}
			return "(" + strings.Join(parts, ", ") + ")"
		}
		pat := func() string {
			parts := make([]string, len(names))
			for i, nme := range names {
				parts[i] = "v_" + nme
			}
			if len(parts) == 1 {
				return parts[0]
			}
			return "'(" + strings.Join(parts, ", ") + ")"
		}
		init0 := tuple()
		savedI, hadI := e.vars[iv.Name]
		e.vars[iv.Name] = "v_" + iv.Name
		saved := map[string]string{}
		for _, nme := range names {
			saved[nme] = e.vars[nme]
			e.vars[nme] = "v_" + nme
		}
		body := e.block(s.Body.List, func([]ast.Expr) string { return e.bad(s, "return inside a loop") }, func() string { return "Val " + tuple() })
		if hadI {
			e.vars[iv.Name] = savedI
		} else {
			delete(e.vars, iv.Name)
		}
		st := e.tmp()
		out := "(do " + st + " <- g_for " + lo.t + " " + hi.t + " " + init0 + " (fun v_" + iv.Name + " " + st + " => let " + pat() + " := " + st + " in " + body + "); let " + pat() + " := " + st + " in " + rest() + ")"
		for _, nme := range names {
			e.vars[nme] = saved[nme]
		}
		// after the loop the variables are the rebound ones
		for _, nme := range names {
			e.vars[nme] = "v_" + nme
		}
		return out
	case *ast.BranchStmt:
		if s.Tok == token.CONTINUE && e.loopCont != nil {
			return e.loopCont()
		}
		return e.bad(s, "unsupported branch statement")
	case *ast.RangeStmt:
		if bkind(e.x.info.TypeOf(s.X)) != "oconf" || s.Tok != token.DEFINE {
			return e.bad(s, "unsupported range loop")
		}
		ki, okK := s.Key.(*ast.Ident)
		vi, okV := s.Value.(*ast.Ident)
		if !okK || !okV {
			return e.bad(s, "unsupported range loop")
		}
		src := e.expr(s.X)
		if !src.pure {
			return e.bad(s, "range over an expression that can panic")
		}
		as := map[string]bool{}
		assigned(s.Body.List, as)
		var names []string
		for name := range as {
			if _, outer := e.vars[name]; outer {
				names = append(names, name)
			}
		}
		names = e.viewLoopState(as, names)
		sortStrings(names)
		if len(names) == 0 || as[ki.Name] || as[vi.Name] {
			return e.bad(s, "unsupported range loop (no state, or the loop variables assigned)")
		}
		tupleR := func() string {
			parts := make([]string, len(names))
			for i, nme := range names {
				parts[i] = e.vars[nme]
			}
			if len(parts) == 1 {
				return parts[0]
			}
			return "(" + strings.Join(parts, ", ") + ")"
		}
		patR := func() string {
			parts := make([]string, len(names))
			for i, nme := range names {
				parts[i] = "v_" + nme
			}
			if len(parts) == 1 {
				return parts[0]
			}
			return "'(" + strings.Join(parts, ", ") + ")"
		}
		init0 := tupleR()
		saved := map[string]string{}
		for _, nme := range names {
			saved[nme] = e.vars[nme]
			e.vars[nme] = "v_" + nme
		}
		e.vars[ki.Name] = "v_" + ki.Name
		e.vars[vi.Name] = "v_" + vi.Name
		savedCont := e.loopCont
		e.loopCont = func() string { return "Val " + tupleR() }
		body := e.block(s.Body.List, func([]ast.Expr) string { return e.bad(s, "return inside a loop") }, func() string { return "Val " + tupleR() })
		e.loopCont = savedCont
		delete(e.vars, ki.Name)
		delete(e.vars, vi.Name)
		st := e.tmp()
		out := "(do " + st + " <- g_for 0 (g_olen " + src.t + ") " + init0 + " (fun v_" + ki.Name + " " + st + " => let " + patR() + " := " + st +
			" in do v_" + vi.Name + " <- g_oget " + src.t + " v_" + ki.Name + "; " + body + "); let " + patR() + " := " + st + " in " + rest() + ")"
		for _, nme := range names {
			e.vars[nme] = saved[nme]
		}
		for _, nme := range names {
			e.vars[nme] = "v_" + nme
		}
		return out
	case *ast.IncDecStmt:
		id, ok := s.X.(*ast.Ident)
		if !ok {
			return e.bad(s, "unsupported increment")
		}
		cur := e.vars[id.Name]
		op := "+"
		if s.Tok == token.DEC {
			op = "-"
		}
		return bindv(id.Name, bex{e.intWrap(e.x.info.TypeOf(s.X), "("+cur+" "+op+" 1)"), true})
	}
	return e.bad(stmts[0], fmt.Sprintf("unsupported statement %T", stmts[0]))
}

func sortStrings(a []string) {
	for i := 1; i < len(a); i++ {
		for j := i; j > 0 && a[j] < a[j-1]; j-- {
			a[j], a[j-1] = a[j-1], a[j]
		}
	}
}

var fixedFuncs = []bfnSpec{
	{"FP1220", "Float64"}, {"FP1220", "FromFloat64"}, {"FP1632", "Float64"}, {"FP1632", "FromFloat64"},
}

func (x *xl) bytesFns(w *bytes.Buffer) {
	w.WriteString("(* GENERATED by go/xlate (bytesfn.go) from message.go, mtdata2.go, scanmessages.go: the byte-slice functions,\n   statement by statement, in the Go fragment of Base/GoBytes.v.  Do not edit. *)\n")
	w.WriteString("From Coq Require Import ZArith NArith List Bool.\nRequire Import XS.Base.Bytes XS.Base.GoInt XS.Base.GoBytes XS.Gen.Funcs.\nImport ListNotations.\nOpen Scope Z_scope.\n\n")
	x.renderFns(w, bytesFuncs)
}

var confFuncs = []bfnSpec{{"OutputConfiguration", "Unmarshal"}, {"OutputConfiguration", "Marshal"}}

func (x *xl) confFns(w *bytes.Buffer) {
	w.WriteString("(* GENERATED by go/xlate (bytesfn.go) from outputconfiguration.go: OutputConfiguration.Unmarshal and Marshal, statement by\n   statement.  A configuration value is its backing array up to the capacity and its length (Base/GoBytes.v: oslice).\n   Do not edit. *)\n")
	w.WriteString("From Coq Require Import ZArith NArith List Bool.\nRequire Import XS.Base.Bytes XS.Base.GoInt XS.Base.GoBytes XS.Gen.Funcs XS.Base.GoConf.\nImport ListNotations.\nOpen Scope Z_scope.\n\n")
	x.renderFns(w, confFuncs)
}

func (x *xl) fixedFns(w *bytes.Buffer) {
	w.WriteString("(* GENERATED by go/xlate (bytesfn.go) from fixedpoint.go: the fixed-point conversions, statement by statement, in the\n   Go fragment of Base/GoBytes.v with the floating-point operations of Base/GoFloat.v (Flocq).  Do not edit. *)\n")
	w.WriteString("From Coq Require Import ZArith NArith List Bool.\nFrom Flocq Require Import Core BinarySingleNaN.\nRequire Import XS.Base.Bytes XS.Base.GoInt XS.Base.GoBytes XS.Base.GoFloat.\nImport ListNotations.\nOpen Scope Z_scope.\n\n")
	x.renderFns(w, fixedFuncs)
}

func (x *xl) renderFns(w *bytes.Buffer, list []bfnSpec) {
	known := map[string]bool{}
	mutators := map[string]bool{}
	for _, sp := range list {
		item := "byte function " + sp.recv + "." + sp.name
		fd := x.findFunc(sp.recv, sp.name)
		coqName := bfnName(sp.recv, sp.name)
		if fd == nil {
			x.fail(item, "not found")
			fmt.Fprintf(w, "Definition %s_missing : unit := tt.\n\n", coqName)
			continue
		}
		e := &benv{x: x, item: item, ok: true, vars: map[string]string{}, known: known, mutators: mutators}
		var params []string
		if fd.Recv != nil && len(fd.Recv.List) == 1 && len(fd.Recv.List[0].Names) == 1 {
			nm := fd.Recv.List[0].Names[0].Name
			e.vars[nm] = "v_" + nm
			params = append(params, "(v_"+nm+" : "+coqKind(bkind(x.info.TypeOf(fd.Recv.List[0].Type)))+")")
		}
		for _, f := range fd.Type.Params.List {
			k := bkind(x.info.TypeOf(f.Type))
			if k == "" {
				e.bad(f, "unsupported parameter type")
			}
			for _, nm := range f.Names {
				e.vars[nm.Name] = "v_" + nm.Name
				params = append(params, "(v_"+nm.Name+" : "+coqKind(k)+")")
			}
		}
		var rkinds []string
		if fd.Type.Results != nil {
			for _, f := range fd.Type.Results.List {
				k := bkind(x.info.TypeOf(f.Type))
				if k == "" {
					e.bad(f, "unsupported result type")
				}
				n := len(f.Names)
				if n == 0 {
					n = 1
				}
				for i := 0; i < n; i++ {
					rkinds = append(rkinds, k)
				}
			}
		}
		// a method on a pointer receiver that returns nothing: its effect is the receiver's final value
		recvResult := ""
		if len(rkinds) == 0 && fd.Recv != nil && len(fd.Recv.List) == 1 && len(fd.Recv.List[0].Names) == 1 {
			if bkind(x.info.TypeOf(fd.Recv.List[0].Type)) == "bytes" {
				// pointer to an array, or a slice (the writes go to the shared backing array)
				recvResult = fd.Recv.List[0].Names[0].Name
				rkinds = []string{"bytes"}
				mutators[coqName] = true
			}
		}
		rtypes := make([]string, len(rkinds))
		for i, k := range rkinds {
			rtypes[i] = coqKind(k)
		}
		// a pointer receiver whose target is rewritten (*o = ...) and that also returns results: the receiver's final
		// value is appended to the results
		recvExtra := ""
		if len(rkinds) > 0 && fd.Recv != nil && len(fd.Recv.List) == 1 && len(fd.Recv.List[0].Names) == 1 {
			if _, isPtr := fd.Recv.List[0].Type.(*ast.StarExpr); isPtr && bkind(x.info.TypeOf(fd.Recv.List[0].Type)) == "oconf" && sp.name == "Unmarshal" {
				recvExtra = fd.Recv.List[0].Names[0].Name
			}
		}
		nres := len(rkinds)
		if recvExtra != "" {
			rtypes = append(rtypes, "oslice")
		}
		ret := func(results []ast.Expr) string {
			if len(results) != nres {
				return e.bad(fd, "bare return")
			}
			var ops []bex
			if recvExtra != "" {
				defer func() {}()
			}
			for i, r := range results {
				b := e.expr(r)
				if b.t == "NIL" {
					if rkinds[i] == "error" {
						b = bex{"None", true}
					} else {
						b = bex{"[]", true}
					}
				}
				ops = append(ops, b)
			}
			if recvExtra != "" {
				ops = append(ops, bex{e.vars[recvExtra], true})
			}
			c := e.combine(ops, func(a []string) string {
				if len(a) == 1 {
					return a[0]
				}
				return "(" + strings.Join(a, ", ") + ")"
			})
			return c.monadic()
		}
		var fall func() string
		if recvResult != "" {
			fall = func() string { return "(Val " + e.vars[recvResult] + ")" }
		}
		body := e.block(fd.Body.List, ret, fall)
		if !e.ok {
			body = "Pan"
		}
		fmt.Fprintf(w, "Definition %s %s : R (%s) :=\n  %s.\n\n", coqName, strings.Join(params, " "), strings.Join(rtypes, " * "), body)
		known[coqName] = true
	}
}

// findFunc finds a function or method declaration of package xsens by receiver type name and name.
func (x *xl) findFunc(recv, name string) *ast.FuncDecl {
	for _, f := range x.files {
		for _, d := range f.Decls {
			fd, ok := d.(*ast.FuncDecl)
			if !ok || fd.Name.Name != name || fd.Body == nil {
				continue
			}
			if recv == "" && fd.Recv == nil {
				return fd
			}
			if recv != "" && fd.Recv != nil && recvTypeName(fd.Recv.List[0].Type) == recv {
				return fd
			}
		}
	}
	return nil
}

// exprText renders a call or selector chain as source text (used to recognise external calls such as c.sc.Scan()).
func exprText(n ast.Expr) string {
	switch v := n.(type) {
	case *ast.Ident:
		return v.Name
	case *ast.SelectorExpr:
		return exprText(v.X) + "." + v.Sel.Name
	case *ast.CallExpr:
		args := make([]string, len(v.Args))
		for i, a := range v.Args {
			args[i] = exprText(a)
		}
		return exprText(v.Fun) + "(" + strings.Join(args, ", ") + ")"
	}
	return "?"
}

// clientFns renders the stateful core of the client: Receive and ScanMeasurementData.  The struct fields they use are
// threaded as state; the scanner, and the value MeasurementData() returns, are parameters.
func (x *xl) clientFns(w *bytes.Buffer) {
	w.WriteString("(* GENERATED by go/xlate (bytesfn.go) from client.go: Client.Receive and Client.ScanMeasurementData, statement by\n   statement.  State = (message, mtData2, mtData2Packet, nextPacketIndex); the bufio.Scanner calls are the parameters\n   sc_scan / sc_bytes / sc_err (their values for this call), the value returned by MeasurementData() is represented by\n   the packet it was computed from (md_is_nil / md_unmarshal are parameters).  Do not edit. *)\n")
	w.WriteString("From Coq Require Import ZArith NArith List Bool.\nRequire Import XS.Base.Bytes XS.Base.GoInt XS.Base.GoBytes XS.Gen.Funcs XS.Gen.Bytes.\nImport ListNotations.\nOpen Scope Z_scope.\n\n")
	w.WriteString("Definition gstate := (bytes * bytes * bytes * Z)%type.\n\n")
	fields := []string{"message", "mtData2", "mtData2Packet", "nextPacketIndex"}
	fk := map[string]string{"message": "bytes", "mtData2": "bytes", "mtData2Packet": "bytes", "nextPacketIndex": "int"}
	known := map[string]bool{}
	for _, sp := range bytesFuncs {
		known[bfnName(sp.recv, sp.name)] = true
	}
	stateFns := map[string]string{}
	for _, name := range []string{"Receive", "ScanMeasurementData", "receiveUntil", "MessageIdentifier", "RawPacket", "DataType"} {
		item := "client method " + name
		fd := x.findFunc("Client", name)
		coqName := "g_Client_" + name
		if fd == nil || fd.Recv == nil || len(fd.Recv.List[0].Names) != 1 {
			x.fail(item, "not found")
			continue
		}
		recv := fd.Recv.List[0].Names[0].Name
		e := &benv{x: x, item: item, ok: true, vars: map[string]string{}, known: known, mutators: map[string]bool{},
			recvName: recv, fields: fields, fkinds: fk}
		for _, f := range fields {
			e.vars[recv+"."+f] = "s_" + f
		}
		e.stateFns = stateFns
		for _, f := range fd.Type.Params.List {
			if bkind(x.info.TypeOf(f.Type)) == "int" {
				for _, nm := range f.Names {
					e.vars[nm.Name] = "v_" + nm.Name
				}
			}
		}
		e.extern = map[string]bex{
			recv + ".sc.Scan()":  {"sc_scan", true},
			recv + ".sc.Err()":   {"sc_err", true},
			recv + ".sc.Bytes()": {"sc_bytes", true},
		}
		var rkinds []string
		if fd.Type.Results != nil {
			for _, f := range fd.Type.Results.List {
				rkinds = append(rkinds, bkind(x.info.TypeOf(f.Type)))
			}
		}
		state := func() string {
			parts := make([]string, len(fields))
			for i, f := range fields {
				parts[i] = e.vars[recv+"."+f]
			}
			return "(" + strings.Join(parts, ", ") + ")"
		}
		ret := func(results []ast.Expr) string {
			var ops []bex
			for i, r := range results {
				b := e.expr(r)
				if b.t == "NIL" && i < len(rkinds) && rkinds[i] == "error" {
					b = bex{"None", true}
				}
				ops = append(ops, b)
			}
			st := state()
			c := e.combine(ops, func(a []string) string { return "(" + strings.Join(append(a, st), ", ") + ")" })
			return c.monadic()
		}
		rt := make([]string, len(rkinds))
		for i, k := range rkinds {
			rt[i] = coqKind(k)
		}
		if name == "receiveUntil" {
			// for { ... }: one iteration; inl = go round again, inr = returned
			loop, ok := fd.Body.List[0].(*ast.ForStmt)
			if len(fd.Body.List) != 1 || !ok || loop.Init != nil || loop.Cond != nil || loop.Post != nil {
				x.fail(item, "not a plain for { } loop")
				continue
			}
			e.loopCont = func() string { return "(Val (inl " + state() + "))" }
			retL := func(results []ast.Expr) string {
				r := ret(results) // (Val (results..., state)) or a monadic term ending in it
				i := strings.LastIndex(r, "Val ")
				return r[:i] + "Val (inr " + strings.TrimSuffix(r[i+4:], ")") + "))"
			}
			body := e.block(loop.Body.List, retL, e.loopCont)
			if !e.ok {
				body = "Pan"
			}
			fmt.Fprintf(w, "Definition %s_step (sc_scan : bool) (sc_bytes : bytes) (sc_err : option Z) (v_until : Z) (st : gstate) : R (gstate + (%s * gstate)) :=\n  let '(s_message, s_mtData2, s_mtData2Packet, s_nextPacketIndex) := st in\n  %s.\n\n", coqName, strings.Join(rt, " * "), body)
			continue
		}
		body := e.block(fd.Body.List, ret, nil)
		if !e.ok {
			body = "Pan"
		}
		params := "(sc_scan : bool) (sc_bytes : bytes) (sc_err : option Z)"
		pass := "sc_scan sc_bytes sc_err"
		if name == "MessageIdentifier" || name == "RawPacket" || name == "DataType" {
			params, pass = "", ""
		}
		if name == "ScanMeasurementData" {
			params = "(md_is_nil : bytes -> bool) (md_unmarshal : bytes -> bytes -> option Z)"
			pass = "md_is_nil md_unmarshal"
		}
		stateFns[name] = pass
		fmt.Fprintf(w, "Definition %s %s (st : gstate) : R (%s * gstate) :=\n  let '(s_message, s_mtData2, s_mtData2Packet, s_nextPacketIndex) := st in\n  %s.\n\n", coqName, params, strings.Join(rt, " * "), body)
	}
	// send: the only place the client writes to the port; its state is the port's output (nothing else may change)
	{
		item := "client method send"
		fd := x.findFunc("Client", "send")
		if fd == nil || fd.Recv == nil || len(fd.Recv.List[0].Names) != 1 || len(fd.Type.Params.List) != 2 || len(fd.Type.Params.List[1].Names) != 1 {
			x.fail(item, "not found")
			w.WriteString("Definition g_Client_send_missing : unit := tt.\n\n")
			return
		}
		recv := fd.Recv.List[0].Names[0].Name
		e := &benv{x: x, item: item, ok: true, vars: map[string]string{}, known: known, mutators: map[string]bool{},
			recvName: recv, fields: []string{"port!"}, fkinds: map[string]string{"port!": "frames"}}
		e.vars[recv+".port!"] = "s_port"
		e.portWrite = recv + ".p.Write"
		msg := fd.Type.Params.List[1].Names[0].Name
		e.vars[msg] = "v_" + msg
		ret := func(results []ast.Expr) string {
			if len(results) != 1 {
				return e.bad(fd, "unexpected results")
			}
			b := e.expr(results[0])
			if b.t == "NIL" {
				b = bex{"None", true}
			}
			port := e.vars[recv+".port!"]
			return e.combine([]bex{b}, func(a []string) string { return "(" + a[0] + ", " + port + ")" }).monadic()
		}
		body := e.block(fd.Body.List, ret, nil)
		if !e.ok {
			body = "Pan"
		}
		fmt.Fprintf(w, "Definition g_Client_send (pw_err : option Z) (v_%s : bytes) (s_port : list bytes) : R (option Z * list bytes) :=\n  %s.\n\n", msg, body)
	}
}
