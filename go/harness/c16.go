package main

import (
	"context"
	"io"
	"math"
	"reflect"
	"runtime"
	"strings"
	"time"

	"go.einride.tech/xsens"
	"go.einride.tech/xsens/xsensemulator"
)

type c16cmd struct {
	kind int // 0 go to config, 1 set output configuration, 2 go to measurement
	cfg  xsens.OutputConfiguration
}

var zeroValues = map[xsens.DataType]xsens.MeasurementData{}

func zeroValue(t xsens.DataType) xsens.MeasurementData {
	if v, ok := zeroValues[t]; ok {
		if v == nil {
			return nil
		}
		return reflect.New(reflect.TypeOf(v).Elem()).Interface().(xsens.MeasurementData)
	}
	v := valueOfType(xsens.DataIdentifier{DataType: t})
	zeroValues[t] = v
	return v
}

// randomConfig: 1..n settings, each type at most once, any precision / coordinate system
func (c *ctx) randomConfig(n int) xsens.OutputConfiguration {
	perm := c.rng.Perm(len(supportedTypes))
	var cfg xsens.OutputConfiguration
	for _, i := range perm[:n] {
		cfg = append(cfg, xsens.OutputConfigurationSetting{
			DataIdentifier: xsens.DataIdentifier{
				DataType:         supportedTypes[i],
				CoordinateSystem: xsens.CoordinateSystem(4 * c.rng.Intn(3)),
				Precision:        xsens.Precision(c.rng.Intn(4)),
			},
			OutputFrequency: xsens.OutputFrequency(c.rng.Intn(2000)),
		})
	}
	return cfg
}

func (c *ctx) fillValue(md xsens.MeasurementData, prec int) {
	var fill func(v reflect.Value)
	fill = func(v reflect.Value) {
		switch v.Kind() {
		case reflect.Struct:
			for i := 0; i < v.NumField(); i++ {
				fill(v.Field(i))
			}
		case reflect.Float64:
			f := (c.rng.Float64() - 0.5) * math.Pow(2, float64(c.rng.Intn(20)-8))
			switch c.rng.Intn(6) {
			case 0:
				f = float64(c.rng.Intn(2000) - 1000)
			case 1:
				f = float64(c.rng.Intn(4096)-2048) / 1024
			}
			if (prec == 1 && math.Abs(f) >= 2047) || (prec == 2 && math.Abs(f) >= 32767) {
				f = 1234.5
			}
			// the ends of the fixed-point ranges (exactly representable values: the sign word 0x80.. / 0x7f..)
			if prec == 2 && c.rng.Intn(5) == 0 {
				f = []float64{-32768, -32767.5, -32600.25, -32512, -32511.5, 32767.5, 32512.25}[c.rng.Intn(7)]
			}
			if prec == 1 && c.rng.Intn(5) == 0 {
				f = []float64{-2048, -2047.5, -2040.25, 2047.5, 2040.75}[c.rng.Intn(5)]
			}
			v.SetFloat(f)
		case reflect.Uint8, reflect.Uint16, reflect.Uint32:
			v.SetUint(uint64(c.rng.Uint32()) & (1<<(8*uint(v.Type().Size())) - 1))
		case reflect.Int32:
			v.SetInt(int64(int32(c.rng.Uint32())))
		}
	}
	fill(reflect.ValueOf(md).Elem())
}

// c16sequence: a command sequence in the documented workflow, with reconfigurations of varying size
func (c *ctx) c16sequence(maxLen int) []c16cmd {
	n := c.rng.Intn(maxLen + 1)
	var out []c16cmd
	lastSize := 0
	for len(out) < n {
		switch c.rng.Intn(8) {
		case 0, 1:
			out = append(out, c16cmd{kind: 0})
		case 2, 3, 4:
			size := 1 + c.rng.Intn(len(supportedTypes))
			switch c.rng.Intn(4) {
			case 0: // shrink
				if lastSize > 1 {
					size = 1 + c.rng.Intn(lastSize-1)
				}
			case 1:
				size = 1 + c.rng.Intn(4)
			}
			lastSize = size
			out = append(out, c16cmd{kind: 1, cfg: c.randomConfig(size)})
		case 5, 6:
			out = append(out, c16cmd{kind: 2})
		default: // the documented workflow in one go
			size := 1 + c.rng.Intn(6)
			lastSize = size
			out = append(out, c16cmd{kind: 0}, c16cmd{kind: 1, cfg: c.randomConfig(size)}, c16cmd{kind: 2})
		}
	}
	return out
}

// c16trickle: when > 0 both sides read at most that many bytes at a time (buffered link only)
var c16trickle int

func (c *ctx) c16run(cmds []c16cmd, ntx int, buffered bool) {
	ce, ee := link(buffered)
	var emuPort, clPort io.ReadWriteCloser = ee, ce
	if c16trickle > 0 && buffered {
		emuPort, clPort = &trickleEnd{ee, c16trickle}, &trickleEnd{ce, c16trickle}
	}
	emu := xsensemulator.NewEmulator(emuPort)
	cl := xsens.NewClient(clPort)
	ctxb, cancel := context.WithCancel(context.Background())
	done := make(chan struct{})
	go func() { protect(func() { _ = emu.Receive(ctxb) }); close(done) }() // a panic of the loop ends it, not the harness

	probeTypes := append([]xsens.DataType{}, supportedTypes...)
	probeTypes = append(probeTypes, xsens.DataType(0xf8f0))
	var probes []string
	for _, t := range probeTypes {
		probes = append(probes, zs(int64(t)))
	}
	zeros := map[xsens.DataType]xsens.MeasurementData{}
	for _, t := range probeTypes {
		z := zeroValue(t)
		if z == nil {
			z = &xsens.LatLon{}
		}
		zeros[t] = z
	}
	// direct calls of the emulator run under a guard: one that does not return (a lock that is never released) is
	// reported as an impossible value, and the emulator is not called again
	stuckEmu := false
	probe := func(t xsens.DataType) int64 {
		if stuckEmu {
			return -2
		}
		var p []byte
		var err error
		if !guarded(func() { p, err = emu.MarshalMessage(zeros[t], t) }) {
			stuckEmu = true
			c.dist["emulator-call-did-not-return"]++
			return -2
		}
		if err != nil || len(p) < 2 {
			return -1
		}
		return int64(xsens.MTData2Packet(p).Identifier().Uint16())
	}
	lastID := func() xsens.MessageIdentifier {
		if stuckEmu {
			return 0xEE
		}
		var m xsens.MessageIdentifier
		if !guarded(func() { m = emu.LastMessageIdentifier() }) {
			stuckEmu = true
			c.dist["emulator-call-did-not-return"]++
			return 0xEE
		}
		return m
	}

	var cmdTerms, obsTerms []string
	var lastCfg xsens.OutputConfiguration
	inCfg := map[xsens.DataType]bool{}
	for _, cm := range cmds {
		var err error
		type res struct{ err error }
		rc := make(chan res, 1)
		go func() {
			switch cm.kind {
			case 0:
				rc <- res{cl.GoToConfig(ctxb)}
			case 1:
				rc <- res{cl.SetOutputConfiguration(ctxb, cm.cfg)}
			default:
				rc <- res{cl.GoToMeasurement(ctxb)}
			}
		}()
		first := map[xsens.DataType]int64{}
		mode := xsens.MessageIdentifier(0)
		modeTaken := false
		select {
		case r := <-rc:
			err = r.err
			mode, modeTaken = lastID(), true
			// observe at once, the types the command was about first
			if cm.kind == 1 {
				for _, s := range cm.cfg {
					first[s.DataType] = probe(s.DataType)
				}
				for t := range inCfg {
					if _, ok := first[t]; !ok {
						first[t] = probe(t)
					}
				}
			}
		case <-time.After(3 * time.Second):
			err = context.DeadlineExceeded
			c.dist["command-timeouts"]++
		}
		if !modeTaken {
			mode = lastID()
		}
		var ids []string
		for _, t := range probeTypes {
			if v, ok := first[t]; ok {
				ids = append(ids, zs(v))
			} else {
				ids = append(ids, zs(probe(t)))
			}
		}
		if cm.kind == 1 {
			lastCfg = cm.cfg
			inCfg = map[xsens.DataType]bool{}
			for _, s := range cm.cfg {
				inCfg[s.DataType] = true
			}
		}
		cfgT := "[]"
		if cm.kind == 1 {
			cfgT = settingsTerm(cm.cfg)
		}
		cmdTerms = append(cmdTerms, tup(zs(int64(cm.kind)), cfgT))
		obsTerms = append(obsTerms, tup(cbool(err == nil), zs(int64(mode)), "["+strings.Join(ids, ";")+"]"))
		if err != nil || stuckEmu {
			break
		}
	}

	// data phase
	var txTerms, rxTerms []string
	if len(obsTerms) == len(cmds) && !stuckEmu {
		expect := make(chan bool, ntx+1)
		type txr struct{ term string }
		txc := make(chan []string, 1)
		measuring := lastID() == xsens.MessageIdentifierMTData2
		go func() {
			var terms []string
			for k := 0; k < ntx; k++ {
				var t xsens.DataType
				if len(lastCfg) > 0 && c.rng.Intn(5) != 0 {
					t = lastCfg[c.rng.Intn(len(lastCfg))].DataType
				} else {
					t = supportedTypes[c.rng.Intn(len(supportedTypes))]
				}
				md := zeroValue(t)
				if md == nil {
					continue
				}
				prec := 3
				for _, s := range lastCfg {
					if s.DataType == t {
						prec = int(s.Precision)
					}
				}
				c.fillValue(md, prec)
				ty := reflect.TypeOf(md).Elem().Name()
				result := int64(0)
				pkt, err := emu.MarshalMessage(md, t)
				if err != nil {
					result = 3
				} else {
					if measuring {
						expect <- true
					}
					if err := emu.Transmit(xsens.NewMessage(xsens.MessageIdentifierMTData2, pkt)); err != nil {
						result = 1
						if measuring {
							result = 4
						}
					} else if !measuring {
						result = 5
					}
				}
				terms = append(terms, tup("\""+ty+"\"", zs(int64(t)), valueTerm(md), zs(result)))
			}
			close(expect)
			txc <- terms
		}()
		for range expect {
			rx := tup("\"!\"", "[]")
			rcv := make(chan string, 1)
			go func() {
				if err := cl.Receive(ctxb); err != nil {
					rcv <- tup("\"!\"", "[]")
					return
				}
				if cl.MessageIdentifier() != xsens.MessageIdentifierMTData2 || !cl.ScanMeasurementData() {
					rcv <- tup("\"!\"", "[]")
					return
				}
				md := cl.MeasurementData()
				rcv <- tup("\""+reflect.TypeOf(md).Elem().Name()+"\"", valueTerm(md))
			}()
			select {
			case rx = <-rcv:
			case <-time.After(3 * time.Second):
				c.dist["receive-timeouts"]++
			}
			rxTerms = append(rxTerms, rx)
		}
		select {
		case txTerms = <-txc:
		case <-time.After(10 * time.Second):
			c.dist["transmit-timeouts"]++
		}
	}
	cancel()
	ce.Close()
	ee.Close()
	select {
	case <-done:
	case <-time.After(5 * time.Second):
	}
	c.dist["commands"] += len(cmds)
	c.dist["frames-received"] += len(rxTerms)
	c.emit("link", tup("["+strings.Join(cmdTerms, ";")+"]", "["+strings.Join(probes, ";")+"]", "["+strings.Join(obsTerms, ";")+"]",
		"["+strings.Join(txTerms, ";")+"]", "["+strings.Join(rxTerms, ";")+"]"))
}

func init() {
	props["C16"] = func(c *ctx) {
		work := func(size int, tail ...c16cmd) []c16cmd {
			return append([]c16cmd{{kind: 0}, {kind: 1, cfg: c.randomConfig(size)}, {kind: 2}}, tail...)
		}
		procs := []int{1, 2, 4, 16}
		run := func(cmds []c16cmd, ntx int) {
			if c.dist["command-timeouts"]+c.dist["receive-timeouts"]+c.dist["transmit-timeouts"] >= 3 {
				c.dist["cases-skipped-after-timeouts"]++
				return // the link is hanging: three witnesses are enough, do not wait for hundreds more
			}
			for _, buffered := range []bool{false, true} {
				old := runtime.GOMAXPROCS(procs[c.rng.Intn(len(procs))])
				c.c16run(cmds, ntx, buffered)
				runtime.GOMAXPROCS(old)
			}
		}
		// fixed shapes: empty sequence, the documented workflow with every size, reconfiguration to fewer settings,
		// the same configuration twice, configuration observed before any further command
		run(nil, 2)
		for size := 1; size <= len(supportedTypes); size += c.pick(4, 1) {
			run(work(size), 6)
		}
		run(work(len(supportedTypes)), 12)
		for k := 0; k < c.pick(6, 40); k++ {
			big, small := 2+c.rng.Intn(len(supportedTypes)-1), 1
			if big > 2 {
				small = 1 + c.rng.Intn(big-1)
			}
			run(append(work(big), c16cmd{kind: 0}, c16cmd{kind: 1, cfg: c.randomConfig(small)}, c16cmd{kind: 2}), 8)
			run([]c16cmd{{kind: 0}, {kind: 1, cfg: c.randomConfig(big)}, {kind: 1, cfg: c.randomConfig(small)}}, 3)
		}
		cfg := c.randomConfig(5)
		run([]c16cmd{{kind: 0}, {kind: 1, cfg: cfg}, {kind: 2}, {kind: 0}, {kind: 1, cfg: cfg}, {kind: 2}}, 5)
		run([]c16cmd{{kind: 2}, {kind: 2}, {kind: 0}, {kind: 0}}, 3)
		run([]c16cmd{{kind: 2}}, 4) // measuring with an empty configuration: everything refused
		// reads of 1, 2, 3 and 5 bytes on both sides (every read boundary inside every frame), and a burst the emulator
		// sends while the client is not yet reading (boundaries where the scanner's buffer fills up)
		for _, tr := range []int{1, 2, 3, 5} {
			c16trickle = tr
			old := runtime.GOMAXPROCS(procs[c.rng.Intn(len(procs))])
			c.c16run(work(2+c.rng.Intn(4)), 6, true)
			c.c16run(append(work(3), c16cmd{kind: 0}, c16cmd{kind: 1, cfg: c.randomConfig(2)}, c16cmd{kind: 2}), 4, true)
			runtime.GOMAXPROCS(old)
		}
		c16trickle = 0
		c.c16run(work(1), c.pick(400, 1200), true)
		// random sequences
		for k := 0; k < c.pick(40, 400); k++ {
			run(c.c16sequence(c.pick(12, 50)), c.rng.Intn(10))
		}
	}
}
