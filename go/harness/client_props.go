package main

import (
	"io"
	"os"
	"path/filepath"

	"go.einride.tech/xsens"
)

var cmdTable = []struct {
	name string
	ack  xsens.MessageIdentifier
}{
	{"GoToConfig", xsens.MessageIdentifierGotoConfigAck},
	{"GoToMeasurement", xsens.MessageIdentifierMTData2},
	{"SetOutputConfiguration", xsens.MessageIdentifierSetOutputConfigurationAck},
	{"GetOutputConfiguration", xsens.MessageIdentifierReqOutputConfigurationAck},
	{"SetCANOutputConfiguration", xsens.MessageIdentifierSetCANOutputConfigAck},
	{"GetCANOutputConfiguration", xsens.MessageIdentifierReqCANOutputConfigAck},
	{"SetCANConfiguration", xsens.MessageIdentifierSetCANConfigAck},
	{"GetCANConfiguration", xsens.MessageIdentifierReqCANConfigAck},
	{"GetDeviceID", xsens.MessageIdentifierDeviceID},
	{"GetProductCode", xsens.MessageIdentifierProductCode},
	{"GetHWVersion", xsens.MessageIdentifierHWVersion},
}

// command builds one command operation with its argument and the payload the request must carry.
func (c *ctx) command(i int) (cop, xsens.MessageIdentifier) {
	t := cmdTable[i]
	o := cop{kind: "cmd", name: t.name}
	switch t.name {
	case "SetOutputConfiguration":
		n := []int{0, 1, 3, 25, 63, 64, 65, 100}[c.rng.Intn(8)]
		cfg := make(xsens.OutputConfiguration, n)
		for j := range cfg {
			cfg[j] = c.inRangeSetting()
		}
		o.arg = cfg
		o.payload, _ = cfg.Marshal()
	case "SetCANOutputConfiguration":
		n := []int{0, 1, 5, 31, 32}[c.rng.Intn(5)]
		cfg := make(xsens.CANOutputConfiguration, n)
		for j := range cfg {
			id := c.rng.Intn(128)
			cfg[j] = xsens.CANOutputConfigurationSetting{CANDataIdentifier: xsens.CANDataIdentifier(id),
				CANIDLengthFlag: c.rng.Intn(2) == 0, IDMask: uint32(id), OutputFrequency: xsens.OutputFrequency(c.rng.Intn(2048))}
		}
		o.arg = cfg
		o.payload, _ = cfg.MarshalBinary()
	case "SetCANConfiguration":
		cfg := xsens.CANConfig{Enable: c.rng.Intn(2) == 0, BaudRate: xsens.CANBaudRateID(c.rng.Intn(13))}
		o.arg = cfg
		o.payload, _ = cfg.MarshalBinary()
	}
	return o, t.ack
}

// ackPayload: something the command's decoder accepts (C14 covers what the decoders reject)
func (c *ctx) ackPayload(name string) []byte {
	switch name {
	case "GetDeviceID":
		return c.payload([]int{4, 8}[c.rng.Intn(2)])
	case "GetHWVersion":
		return c.payload(2)
	case "GetProductCode":
		return []byte("MTi-30-2A8G4   ")
	case "GetOutputConfiguration":
		return c.payload(4 * c.rng.Intn(8))
	case "GetCANOutputConfiguration":
		return c.payload(8 * c.rng.Intn(5))
	case "GetCANConfiguration":
		return c.payload(4 + c.rng.Intn(3))
	case "GoToMeasurement":
		return c.measurementPayload(5, true)
	}
	return nil
}

func (c *ctx) unrelatedFrame(ack xsens.MessageIdentifier) []byte {
	for {
		mid := xsens.MessageIdentifier(c.rng.Intn(256))
		if c.rng.Intn(3) == 0 {
			mid = xsens.MessageIdentifierMTData2
		}
		if mid == ack {
			continue
		}
		// not the acknowledge of ANY command either: a later command in the same case would take this frame for its own
		// acknowledge, with a payload its result decoder was not meant for (the client model does not decode results)
		isAck := false
		for _, t := range cmdTable {
			if mid == t.ack && mid != xsens.MessageIdentifierMTData2 {
				isAck = true
			}
		}
		if isAck {
			continue
		}
		if mid == xsens.MessageIdentifierMTData2 {
			return []byte(xsens.NewMessage(mid, c.measurementPayload(3, true)))
		}
		return []byte(xsens.NewMessage(mid, c.payload(c.rng.Intn(10))))
	}
}

func (c *ctx) commandCases(kind string, n int) {
	c.alignedExtendedAck(kind)
	for i := 0; i < n; i++ {
		var stream []byte
		var ops []cop
		var wplan []bool
		ncmd := 1 + c.rng.Intn(3)
		if i%5 == 0 {
			ncmd = 4 + c.rng.Intn(4)
		}
		for k := 0; k < ncmd; k++ {
			idx := c.rng.Intn(len(cmdTable))
			if i < 2*len(cmdTable) {
				idx = i % len(cmdTable)
			}
			if k > 0 && c.rng.Intn(3) == 0 {
				idx = idx - idx%2 // a Set followed by the matching Get, or the same command twice
			}
			o, ack := c.command(idx)
			ops = append(ops, o, cop{kind: "rawmsg"}, cop{kind: "msgid"})
			fail := c.rng.Intn(12) == 0
			wplan = append(wplan, !fail)
			if fail {
				ops = append(ops, cop{kind: "receive"}, cop{kind: "rawmsg"})
				stream = append(stream, c.unrelatedFrame(0)...)
				continue
			}
			for u := c.rng.Intn(4); u > 0; u-- {
				stream = append(stream, c.unrelatedFrame(ack)...)
			}
			mode := c.rng.Intn(10)
			switch {
			case mode == 0: // no acknowledge at all: the stream ends
			case mode == 1: // a corrupted frame before the acknowledge: the command fails with the rejection
				stream = append(stream, c.mutate(c.unrelatedFrame(ack))...)
				stream = append(stream, xsens.NewMessage(ack, c.ackPayload(o.name))...)
			case mode == 2: // the acknowledge itself damaged behind an intact header (payload or checksum byte), then a good one
				bad := []byte(xsens.NewMessage(ack, c.ackPayload(o.name)))
				pos := len(bad) - 1
				if len(bad) > 5 && c.rng.Intn(2) == 0 {
					pos = 4 + c.rng.Intn(len(bad)-5)
				}
				bad[pos] += byte(1 + c.rng.Intn(255))
				stream = append(stream, bad...)
				stream = append(stream, xsens.NewMessage(ack, c.ackPayload(o.name))...)
			case mode == 4: // valid frames with the Error identifier that are not device errors (payload length != 1), and one that is
				for _, n := range []int{0, 2, 3, 1} {
					if ack != xsens.MessageIdentifierError {
						stream = append(stream, xsens.NewMessage(xsens.MessageIdentifierError, c.payload(n))...)
					}
				}
				stream = append(stream, xsens.NewMessage(ack, c.ackPayload(o.name))...)
			case mode == 3: // the largest frames a device may send, unrelated, in front of the acknowledge
				big := []int{2046, 2047, 2048}[c.rng.Intn(3)]
				stream = append(stream, xsens.NewMessage(xsens.MessageIdentifier(0x3e), c.payload(big))...)
				stream = append(stream, xsens.NewMessage(ack, c.ackPayload(o.name))...)
			default:
				stream = append(stream, xsens.NewMessage(ack, c.ackPayload(o.name))...)
			}
			if o.name == "GoToMeasurement" {
				ops = append(ops, cop{kind: "scan"}, cop{kind: "dtype"}, cop{kind: "rawpkt"}, cop{kind: "meas"}, cop{kind: "scan"})
			}
			// what follows the acknowledge must be the next thing received
			following := c.unrelatedFrame(0)
			stream = append(stream, following...)
			ops = append(ops, cop{kind: "receive"}, cop{kind: "rawmsg"}, cop{kind: "msgid"})
			if mode == 0 {
				break // the command ran into the end of the stream: nothing may follow (a later command's acknowledge
				// would otherwise be taken for this one's, with a payload its decoder was not meant for)
			}
		}
		ops = append(ops, cop{kind: "receive"}, cop{kind: "rawmsg"}, cop{kind: "receive"})
		scheds := c.schedules(len(stream), false)
		sch := scheds[c.rng.Intn(len(scheds))]
		fin := c.final()
		c.emitClient(kind, stream, sch, fin, c.rng.Intn(4) == 0, wplan, ops)
	}
}

// alignedExtendedAck: an extended-length acknowledge whose first five bytes are the last five of a completely filled
// scanner buffer (4096 bytes: two maximal-ish unrelated frames of 2055 + 2036 bytes in front of it, one greedy read)
func (c *ctx) alignedExtendedAck(kind string) {
	for _, name := range []string{"GetOutputConfiguration", "GetCANOutputConfiguration"} {
		for _, fill := range []int{4089, 4090, 4091, 4092} {
			idx := 0
			for i, t := range cmdTable {
				if t.name == name {
					idx = i
				}
			}
			o, ack := c.command(idx)
			var stream []byte
			stream = append(stream, xsens.NewMessage(xsens.MessageIdentifier(0x3e), c.payload(2048))...) // 2055 bytes
			stream = append(stream, xsens.NewMessage(xsens.MessageIdentifier(0x3e), c.payload(fill-2055-7))...)
			payload := c.payload(256)
			stream = append(stream, xsens.NewMessage(ack, payload)...)
			stream = append(stream, c.unrelatedFrame(ack)...)
			ops := []cop{o, {kind: "rawmsg"}, {kind: "msgid"}, {kind: "receive"}, {kind: "rawmsg"}, {kind: "receive"}}
			c.emitClient(kind, stream, nil, io.EOF, false, nil, ops)
			c.count("buffer-aligned-extended-acks")
		}
	}
}

// failure injection: the stream is cut at every offset (short streams) and the port fails there
func (c *ctx) failureCases(kind string, nstreams int) {
	for i := 0; i < nstreams; i++ {
		var stream []byte
		nf := 2 + c.rng.Intn(3)
		for k := 0; k < nf; k++ {
			f := c.smallFrame()
			if c.rng.Intn(4) == 0 {
				f = []byte(xsens.NewMessage(xsens.MessageIdentifierMTData2, c.measurementPayload(2, true)))
			}
			if c.rng.Intn(5) == 0 {
				f = c.mutate(f) // a corrupted frame somewhere in the stream
			}
			stream = append(stream, f...)
		}
		step := 1
		if len(stream) > 48 {
			step = 1 + len(stream)/48
		}
		for cut := 0; cut <= len(stream); cut += step {
			prefix := stream[:cut]
			fin := c.final()
			ewd := c.rng.Intn(2) == 0
			var sch []int
			switch c.rng.Intn(4) {
			case 0:
				sch = nil
			case 1:
				sch = []int{cut, 0, 0} // 0-byte reads before the error
			case 2:
				for j := 0; j < cut; j++ {
					sch = append(sch, 1)
				}
				sch = append(sch, 0)
			default:
				scheds := c.schedules(cut, false)
				sch = scheds[c.rng.Intn(len(scheds))]
			}
			var ops []cop
			for r := 0; r < nf+4; r++ {
				ops = append(ops, cop{kind: "receive"}, cop{kind: "rawmsg"})
			}
			c.emitClient(kind, prefix, sch, fin, ewd, nil, ops)
		}
	}
}

func testdataStreams() [][]byte {
	var out [][]byte
	for _, root := range []string{"/repo/testdata"} {
		matches, _ := filepath.Glob(filepath.Join(root, "*", "output.bin"))
		for _, m := range matches {
			if b, err := os.ReadFile(m); err == nil {
				out = append(out, b)
			}
		}
	}
	return out
}

func init() {
	props["C03"] = func(c *ctx) {
		// the decoded values themselves, against the reference decoding
		c.codecViaClient(c.pick(400, 4000))
		// measurement messages of supported packets, scanned completely / partially, with other traffic between
		for i := 0; i < c.pick(150, 1500); i++ {
			c.clientStreamCase("client", 1+c.rng.Intn(5), i%2 == 0)
		}
		c.clientBigFrames("client")
		// a clean message carrying every type x precision x coordinate system once
		for prec := 0; prec < 4; prec++ {
			for coord := 0; coord < 16; coord += 4 {
				var m []byte
				for _, t := range supportedTypes {
					id := xsens.DataIdentifier{DataType: t, CoordinateSystem: xsens.CoordinateSystem(coord), Precision: xsens.Precision(prec)}
					n := int(id.DataSize())
					w := id.Uint16()
					m = append(m, byte(w>>8), byte(w), byte(n))
					m = append(m, c.payload(n)...)
				}
				stream := []byte(xsens.NewMessage(xsens.MessageIdentifierMTData2, m))
				ops := c.adaptiveOps(stream, nil, io.EOF, false, 3, false, false)
				c.emitClient("client", stream, nil, io.EOF, false, nil, ops)
			}
		}
		c.clientCorruptStreams()
	}
	props["C08"] = func(c *ctx) {
		c.commandCases("client", c.pick(160, 1600))
	}
	props["C09"] = func(c *ctx) {
		// the CAN output configuration decoder on kept and preallocated destinations (total on every payload)
		c.canOutSequences(c.pick(60, 600))
		// arbitrary bytes, grammar-mutated traffic, mutated captures: the documented loop must survive them
		for i := 0; i < c.pick(120, 1200); i++ {
			var stream []byte
			switch i % 4 {
			case 0:
				stream = c.arbitraryStream(400)
			case 1:
				stream = c.payload(c.rng.Intn(300))
			default:
				for k := 0; k < 1+c.rng.Intn(5); k++ {
					f := c.clientMessage()
					if c.rng.Intn(2) == 0 {
						f = c.mutate(f)
					}
					stream = append(stream, f...)
				}
			}
			scheds := c.schedules(len(stream), i%17 == 0)
			sch := scheds[c.rng.Intn(len(scheds))]
			fin := c.final()
			ewd := c.rng.Intn(3) == 0
			ops := c.adaptiveOps(stream, sch, fin, ewd, len(stream)/5+4, false, true)
			c.emitClient("client", stream, sch, fin, ewd, nil, ops)
		}
		for i, cap := range testdataStreams() {
			if len(cap) > 1500 {
				off := c.rng.Intn(len(cap) - 1500)
				cap = cap[off : off+1500]
			}
			s := append([]byte(nil), cap...)
			for k := 0; k < 6; k++ {
				s[c.rng.Intn(len(s))] ^= byte(1 << uint(c.rng.Intn(8)))
			}
			ops := c.adaptiveOps(s, []int{7, 0, 300}, io.EOF, false, len(s)/5+4, false, true)
			c.emitClient("client", s, []int{7, 0, 300}, io.EOF, false, nil, ops)
			_ = i
		}
		// an extended-length measurement message whose packets tile exactly 256 bytes and more
		{
			var m []byte
			for len(m) < 256 {
				m = append(m, 0x10, 0x20, 0x02, 0x00, 0x01) // PacketCounter packets, 5 bytes each
			}
			m = m[:255]
			m = append(m, 0x00)
			m2 := append([]byte{0xe0, 0x10, 0xfd}, make([]byte, 253)...) // one 256-byte packet (status byte with excess data)
			for _, pl := range [][]byte{m, m2, append(append([]byte(nil), m2...), m...)} {
				stream := []byte(xsens.NewMessage(xsens.MessageIdentifierMTData2, pl))
				ops := c.adaptiveOps(stream, nil, io.EOF, false, 3, false, true)
				c.emitClient("client", stream, nil, io.EOF, false, nil, ops)
			}
		}
		// the decoders on arbitrary payloads into receivers in every prior state (a decoder must not panic because of what an
		// earlier call left behind): the C13 sequences
		c.ocUnmarshalSequences(c.pick(40, 400))
		c.clientBigFrames("client")
	}
	props["C10"] = func(c *ctx) {
		c.framingBoundary(0x36, 0x31)
		c.failureCases("client10", c.pick(12, 120))
		c.clientBigFrames("client10")
		// a command in the middle of a receive sequence, with frames (its acknowledge included) already buffered by
		// an earlier read, or a read boundary inside a frame; and a command after the failure has been reported
		for i := 0; i < c.pick(30, 300); i++ {
			idx := c.rng.Intn(len(cmdTable))
			o, ack := c.command(idx)
			var stream []byte
			stream = append(stream, c.unrelatedFrame(ack)...)
			stream = append(stream, c.unrelatedFrame(ack)...)
			stream = append(stream, xsens.NewMessage(ack, c.ackPayload(o.name))...)
			stream = append(stream, c.unrelatedFrame(ack)...)
			stream = append(stream, c.unrelatedFrame(ack)...)
			ops := []cop{{kind: "receive"}, {kind: "rawmsg"}, o, {kind: "rawmsg"}, {kind: "msgid"}, {kind: "receive"}, {kind: "rawmsg"},
				{kind: "receive"}, {kind: "rawmsg"}, {kind: "receive"}, o, {kind: "receive"}}
			var sch []int
			switch i % 4 {
			case 0:
				sch = nil // everything in one read
			case 1:
				sch = []int{len(stream) - 3, 3}
			case 2:
				sch = []int{7, len(stream)}
			default:
				scheds := c.schedules(len(stream), false)
				sch = scheds[c.rng.Intn(len(scheds))]
			}
			c.emitClient("client10", stream, sch, c.final(), c.rng.Intn(2) == 0, nil, ops)
		}
		// rejected frames at every position of a stream of frames
		for i := 0; i < c.pick(40, 400); i++ {
			nf := 3 + c.rng.Intn(3)
			bad := c.rng.Intn(nf)
			var stream []byte
			for k := 0; k < nf; k++ {
				f := c.smallFrame()
				if k == bad {
					pos := 2 + c.rng.Intn(len(f)-2)
					f[pos] += byte(1 + c.rng.Intn(255))
				}
				stream = append(stream, f...)
			}
			var ops []cop
			for r := 0; r < nf+3; r++ {
				ops = append(ops, cop{kind: "receive"}, cop{kind: "rawmsg"})
			}
			scheds := c.schedules(len(stream), false)
			c.emitClient("client10", stream, scheds[c.rng.Intn(len(scheds))], c.final(), c.rng.Intn(2) == 0, nil, ops)
		}
		// frames announcing more data than any valid frame may carry (2049..), all of it present: the scanner delivers
		// them, validation rejects them with its cause, and the frames behind them are still received
		for _, L := range []int{2049, 2050, 2600, 4089, 4090, 4096, c.pick(5000, 30000)} {
			f := []byte{0xfa, 0xff, 0x36, 0xff, byte(L >> 8), byte(L)}
			for i := 0; i < L+1; i++ {
				f = append(f, byte(1+i%200))
			}
			pre := xsens.NewMessage(0x30, nil)
			s := append(append(append([]byte(nil), pre...), f...), xsens.NewMessage(0x31, []byte{1, 2, 3})...)
			s = append(s, xsens.NewMessage(0x10, nil)...)
			ops := []cop{{kind: "receive"}, {kind: "rawmsg"}, {kind: "receive"}, {kind: "msgid"}, {kind: "receive"}, {kind: "rawmsg"},
				{kind: "receive"}, {kind: "rawmsg"}, {kind: "receive"}, {kind: "receive"}}
			for _, sch := range [][]int{nil, {4096, 4096, 4096}, {1000, 1000, 1000, 1000, 1000}} {
				c.emitClient("client10", s, sch, c.final(), false, nil, ops)
			}
		}
		// K1: a false header claiming 65535 bytes followed by 64 KiB and a valid frame (recorded finding)
		{
			s := []byte{0xfa, 0xff, 0x10, 0xff, 0xff, 0xff}
			for i := 0; i < 65536; i++ {
				s = append(s, byte(i%251))
			}
			s = append(s, xsens.NewMessage(0x30, nil)...)
			ops := []cop{{kind: "receive"}, {kind: "rawmsg"}, {kind: "receive"}, {kind: "rawmsg"}}
			c.emitClient("client10", s, []int{30000, 30000, 30000}, &portError{code: 9}, false, nil, ops)
		}
	}
}
