package main

import (
	"context"
	"fmt"
	"io"
	"strings"

	"go.einride.tech/xsens"
)

func settingTerm(s xsens.OutputConfigurationSetting) string {
	return tup(zs(int64(s.DataType)), zs(int64(s.CoordinateSystem)), zs(int64(s.Precision)), zs(int64(s.OutputFrequency))) + "%Z"
}

func settingsTerm(o []xsens.OutputConfigurationSetting) string {
	var parts []string
	for _, s := range o {
		parts = append(parts, settingTerm(s))
	}
	return "[" + strings.Join(parts, ";") + "]"
}

func csetTerm(s xsens.CANOutputConfigurationSetting) string {
	return tup(us(uint64(s.CANDataIdentifier)), cbool(bool(s.CANIDLengthFlag)), us(uint64(s.IDMask)), us(uint64(s.OutputFrequency)))
}

func csetsTerm(o []xsens.CANOutputConfigurationSetting) string {
	var parts []string
	for _, s := range o {
		parts = append(parts, csetTerm(s))
	}
	return "[" + strings.Join(parts, ";") + "]"
}

func (c *ctx) junkSetting() xsens.OutputConfigurationSetting {
	return xsens.OutputConfigurationSetting{
		DataIdentifier: xsens.DataIdentifier{
			DataType:         xsens.DataType(c.rng.Intn(65536)),
			CoordinateSystem: xsens.CoordinateSystem(c.rng.Intn(256)),
			Precision:        xsens.Precision(c.rng.Intn(256)),
		},
		OutputFrequency: xsens.OutputFrequency(c.rng.Intn(65536)),
	}
}

func (c *ctx) inRangeSetting() xsens.OutputConfigurationSetting {
	return xsens.OutputConfigurationSetting{
		DataIdentifier: xsens.DataIdentifier{
			DataType:         xsens.DataType(c.rng.Intn(65536) & 0xf8f0),
			CoordinateSystem: xsens.CoordinateSystem(4 * c.rng.Intn(4)),
			Precision:        xsens.Precision(c.rng.Intn(4)),
		},
		OutputFrequency: xsens.OutputFrequency([]int{0, 1, 100, 400, 0xffff, c.rng.Intn(65536)}[c.rng.Intn(6)]),
	}
}

func (c *ctx) configPayload() []byte {
	n := []int{0, 1, 3, 4, 5, 7, 8, 12, 16, 100, 128, 252, 256, 257, 511, 512}[c.rng.Intn(16)]
	if c.rng.Intn(3) == 0 {
		n = c.rng.Intn(513)
	}
	return c.payload(n)
}

// ocUnmarshal decodes payload into dst and records the destination's backing contents beforehand.
func (c *ctx) ocUnmarshal(dst *xsens.OutputConfiguration, payload []byte) {
	backing := append([]xsens.OutputConfigurationSetting(nil), (*dst)[:cap(*dst)]...)
	r := "RPan"
	if p, _ := protect(func() {
		if err := dst.Unmarshal(exact(payload)); err != nil {
			r = "RErr"
		} else {
			r = "(ROk " + settingsTerm(*dst) + ")"
		}
	}); p {
		r = "RPan"
	}
	c.emit("ocunm", tup(settingsTerm(backing), nlist(payload), r))
}

// mkConf: a destination of length l and capacity cp whose whole backing array holds junk settings
func (c *ctx) mkConf(l, cp int) xsens.OutputConfiguration {
	if cp < l {
		cp = l
	}
	o := make(xsens.OutputConfiguration, l, cp)
	full := o[:cp]
	for i := range full {
		full[i] = c.junkSetting()
	}
	return o
}

// ocUnmarshalSequences: decodes into destinations in every prior state, then further decodes into the same destination
func (c *ctx) ocUnmarshalSequences(count int) {
	mk := c.mkConf
	for i := 0; i < count; i++ {
		payload := c.configPayload()
		n := len(payload) / 4
		var dst xsens.OutputConfiguration
		switch c.rng.Intn(7) {
		case 0:
			dst = nil
		case 1:
			dst = mk(c.rng.Intn(n+1), n) // exactly enough capacity
		case 2:
			dst = mk(c.rng.Intn(n/2+1), n/2) // too small
		case 3:
			dst = mk(n+c.rng.Intn(5), n+5+c.rng.Intn(5)) // longer, spare capacity
		case 4:
			dst = mk(0, n+1) // empty but roomy
		case 5:
			l := c.rng.Intn(4)
			dst = mk(l, l+1+c.rng.Intn(3)) // len < cap < needed (mostly)
		case 6:
			dst = mk(c.rng.Intn(10), 10)
		}
		c.ocUnmarshal(&dst, payload)
		// a sequence of further decodes into the same destination (long, short, longer)
		for k := 0; k < 3; k++ {
			c.ocUnmarshal(&dst, c.configPayload())
		}
		// aliasing: a second header over the same backing array
		alias := dst[:0]
		c.ocUnmarshal(&alias, c.configPayload())
	}
}

// ocClientResults: several GetOutputConfiguration calls on one client; every result is looked at after the LAST call
// (a result belongs to the caller: a later call must not change it).
func (c *ctx) ocClientResults(count int) {
	for i := 0; i < count; i++ {
		k := 2 + c.rng.Intn(3)
		var payloads [][]byte
		var stream []byte
		n := 1 + c.rng.Intn(12)
		if i%10 == 0 {
			n = 62 + c.rng.Intn(5) // around 256 payload bytes: the extended-length format
		}
		for j := 0; j < k; j++ {
			switch c.rng.Intn(4) {
			case 0: // same length
			case 1:
				n = c.rng.Intn(n + 1) // shorter
			case 2:
				n += c.rng.Intn(4) // longer
			default:
				n = c.rng.Intn(20)
			}
			p := c.payload(4 * n)
			payloads = append(payloads, p)
			if c.rng.Intn(3) == 0 {
				stream = append(stream, c.unrelatedFrame(xsens.MessageIdentifierReqOutputConfigurationAck)...)
			}
			stream = append(stream, xsens.NewMessage(xsens.MessageIdentifierReqOutputConfigurationAck, p)...)
		}
		scheds := c.schedules(len(stream), false)
		rd := &chunkReader{data: stream, sched: scheds[c.rng.Intn(len(scheds))], final: io.EOF}
		if c.rng.Intn(3) == 0 {
			// the port fails in the very read that brings the last acknowledge: the frames it holds come first
			rd.final, rd.ewd = &portError{code: 5}, true
			c.count("results-with-a-failing-last-read")
		}
		port := &scriptedPort{r: rd}
		cl := xsens.NewClient(port)
		results := make([]xsens.OutputConfiguration, k)
		oks := make([]bool, k)
		for j := 0; j < k; j++ {
			protect(func() {
				r, err := cl.GetOutputConfiguration(context.Background())
				results[j], oks[j] = r, err == nil
			})
		}
		for j := 0; j < k; j++ {
			r := "RErr"
			if oks[j] {
				r = "(ROk " + settingsTerm(results[j]) + ")"
			}
			c.emit("ocunm", tup(settingsTerm(nil), nlist(payloads[j]), r))
			c.count("client-results-after-later-calls")
		}
	}
}

// mkCanConf: a destination of length l and capacity cp whose whole backing array holds junk settings
func (c *ctx) mkCanConf(l, cp int) xsens.CANOutputConfiguration {
	if cp < l {
		cp = l
	}
	o := make(xsens.CANOutputConfiguration, l, cp)
	full := o[:cp]
	for i := range full {
		full[i] = xsens.CANOutputConfigurationSetting{
			CANDataIdentifier: xsens.CANDataIdentifier(c.rng.Intn(256)), CANIDLengthFlag: c.rng.Intn(2) == 0,
			IDMask: uint32(c.rng.Uint32()), OutputFrequency: xsens.OutputFrequency(c.rng.Intn(65536)),
		}
	}
	return o
}

// coUnmarshal decodes d into dst and records the destination's backing contents beforehand.
func (c *ctx) coUnmarshal(dst *xsens.CANOutputConfiguration, d []byte, extra int) {
	backing := append([]xsens.CANOutputConfigurationSetting(nil), (*dst)[:cap(*dst)]...)
	var buf []byte
	if extra == 0 {
		buf = exact(d)
	} else {
		buf = roomy(d, extra)
	}
	r := "RPan"
	protect(func() {
		if err := dst.UnmarshalBinary(buf); err != nil {
			r = "RErr"
		} else {
			r = "(ROk " + csetsTerm(*dst) + ")"
		}
	})
	c.emit("counm", tup(csetsTerm(backing), nlist(d), us(uint64(extra)), r))
}

// canOutSequences: a kept destination decoded into again and again (longer, shorter, in between), and preallocated
// destinations in every relation of length, capacity and number of settings in the payload
func (c *ctx) canOutSequences(count int) {
	for i := 0; i < count; i++ {
		var dst xsens.CANOutputConfiguration
		switch c.rng.Intn(4) {
		case 0:
			dst = nil
		case 1:
			dst = make(xsens.CANOutputConfiguration, 0, 1+c.rng.Intn(8))
		default:
			dst = c.mkCanConf(c.rng.Intn(5), c.rng.Intn(9))
		}
		for k := 0; k < 4; k++ {
			n := []int{5, 1, 3, 0, 2, 7}[c.rng.Intn(6)]
			d := c.payload(8*n + []int{0, 0, 3, 7}[c.rng.Intn(4)])
			c.coUnmarshal(&dst, d, 0)
		}
		c.count("kept-destination-sequences")
	}
	for cp := 0; cp <= 6; cp++ {
		for l := 0; l <= cp; l++ {
			for n := 0; n <= 7; n++ {
				dst := c.mkCanConf(l, cp)
				c.coUnmarshal(&dst, c.payload(8*n), 0)
			}
		}
	}
}

// ocClientSends: configurations of every size handed to the client's SetOutputConfiguration; what reaches the wire is
// the case's encoding (the request frame's payload)
func (c *ctx) ocClientSends() {
	for _, n := range []int{0, 1, 2, 31, 32, 33, 63, 64, 65, 100, 128, 256, 511, 512} {
		cfg := make(xsens.OutputConfiguration, n)
		for j := range cfg {
			cfg[j] = c.inRangeSetting()
		}
		port := &scriptedPort{r: &chunkReader{data: xsens.NewMessage(xsens.MessageIdentifierSetOutputConfigurationAck, nil), final: io.EOF}}
		cl := xsens.NewClient(port)
		r := "RPan"
		protect(func() {
			if err := cl.SetOutputConfiguration(context.Background(), cfg); err != nil || len(port.writes) != 1 {
				r = "RErr"
				return
			}
			r = "(ROk " + nlist(xsens.Message(port.writes[0]).Data()) + ")"
		})
		c.emit("ocmar", tup(settingsTerm(cfg), r))
		c.count("configurations-sent-through-client")
	}
}

func init() {
	props["C13"] = func(c *ctx) {
		c.framingBoundary(0xc0, 0xc1)
		// the largest configurations as commands to an emulator: what it then encodes with is the last setting's identifier
		for _, n := range []int{1, 63, 64, 511, 512} {
			cfg := make(xsens.OutputConfiguration, n)
			for j := range cfg {
				cfg[j] = c.inRangeSetting()
			}
			cfg[n-1].DataType = supportedTypes[c.rng.Intn(len(supportedTypes))] // the probe needs a value of that type
			payload, _ := cfg.Marshal()
			c.emitEmu("emu", []eev{
				{kind: "recv", frame: xsens.NewMessage(xsens.MessageIdentifierSetOutputConfiguration, payload)},
				{kind: "lastid"},
				{kind: "marshal", dtype: cfg[n-1].DataType},
				// then the empty configuration: nothing is configured any more
				{kind: "recv", frame: xsens.NewMessage(xsens.MessageIdentifierSetOutputConfiguration, nil)},
				{kind: "marshal", dtype: cfg[n-1].DataType},
				{kind: "recv", frame: xsens.NewMessage(xsens.MessageIdentifierSetOutputConfiguration, payload)},
				{kind: "recv", frame: xsens.NewMessage(xsens.MessageIdentifierGotoMeasurement, nil)},
				{kind: "lastid"},
			})
		}
		c.ocClientSends()
		c.ocClientResults(c.pick(120, 1500))
		// decoding into the emulator's kept configuration while other goroutines encode
		c.mixCases(c.pick(150, 1500), []int{4, 16})
		// prior destination states: nil, shorter, longer, spare capacity, junk contents, aliasing an earlier result
		mk := c.mkConf
		c.ocUnmarshalSequences(c.pick(300, 3000))
		// marshal: in-range and arbitrary configurations
		for i := 0; i < c.pick(200, 2000); i++ {
			n := c.rng.Intn(40)
			cfg := make(xsens.OutputConfiguration, n)
			for j := range cfg {
				if i%4 == 0 {
					cfg[j] = c.junkSetting()
					cfg[j].CoordinateSystem &= 0xc
					cfg[j].Precision &= 3
					cfg[j].DataType &= 0xf8f0
					if c.rng.Intn(3) == 0 {
						cfg[j].DataType |= 0x0700 & xsens.DataType(c.rng.Intn(65536)) // reserved bits: out of range
					}
				} else {
					cfg[j] = c.inRangeSetting()
				}
			}
			r := "RPan"
			var b []byte
			protect(func() {
				var err error
				if b, err = cfg.Marshal(); err != nil {
					r = "RErr"
				} else {
					r = "(ROk " + nlist(b) + ")"
				}
			})
			c.emit("ocmar", tup(settingsTerm(cfg), r))
			// decode what was encoded into a junk destination: identity on in-range configurations
			if b != nil {
				dst := mk(c.rng.Intn(5), c.rng.Intn(50))
				c.ocUnmarshal(&dst, b)
			}
		}
	}

	props["C15"] = func(c *ctx) {
		// bus configuration: 2 x 128 (complete), and out-of-range codes
		for e := 0; e < 2; e++ {
			for b := -128; b < 128; b++ {
				cfg := xsens.CANConfig{Enable: e == 1, BaudRate: xsens.CANBaudRateID(b)}
				r := "RPan"
				var out []byte
				protect(func() {
					var err error
					if out, err = cfg.MarshalBinary(); err != nil {
						r = "RErr"
					} else {
						r = "(ROk " + nlist(out) + ")"
					}
				})
				c.emit("canmar", tup(cbool(e == 1), zs(int64(b))+"%Z", r))
			}
		}
		canUnm := func(d []byte, extra int) {
			var buf []byte
			if extra == 0 {
				buf = exact(d)
			} else {
				buf = roomy(d, extra)
			}
			cfg := &xsens.CANConfig{Enable: true, BaudRate: 0x55}
			r := "RPan"
			protect(func() {
				if err := cfg.UnmarshalBinary(buf); err != nil {
					r = "RErr"
				} else {
					e := 0
					if cfg.Enable {
						e = 1
					}
					r = fmt.Sprintf("(ROk (%s, %s%%Z))", cbool(e == 1), zs(int64(cfg.BaudRate)))
				}
			})
			c.emit("canunm", tup(nlist(d), us(uint64(extra)), r))
		}
		for n := 0; n <= 8; n++ {
			for k := 0; k < c.pick(40, 400); k++ {
				d := c.payload(n)
				if n >= 4 && k < 16 {
					d[2], d[3] = byte(k), byte(k*17)
				}
				canUnm(d, 0)
				canUnm(d, 2)
			}
		}
		for e := 0; e < 256; e++ {
			canUnm([]byte{0xaa, 0xbb, byte(e), byte(255 - e)}, 0)
		}
		// output configuration: 0..32 settings with arbitrary field values
		mkc, coUnm := c.mkCanConf, c.coUnmarshal
		c.canOutSequences(c.pick(100, 1000))
		// through a frame and the client: 0..32 settings (32 settings need the extended-length format)
		for _, n := range []int{0, 1, 2, 16, 30, 31, 32} {
			payload := c.payload(8 * n)
			port := &scriptedPort{r: &chunkReader{data: xsens.NewMessage(xsens.MessageIdentifierReqCANOutputConfigAck, payload), final: io.EOF}}
			cl := xsens.NewClient(port)
			r := "RPan"
			protect(func() {
				v, err := cl.GetCANOutputConfiguration(context.Background())
				if err != nil {
					r = "RErr"
					return
				}
				r = "(ROk " + csetsTerm(v) + ")"
			})
			c.emit("counm", tup(csetsTerm(nil), nlist(payload), us(0), r))
			c.count("through-client")
		}
		for i := 0; i < c.pick(250, 2500); i++ {
			n := c.rng.Intn(33)
			inRange := i%3 != 0
			cfg := make(xsens.CANOutputConfiguration, n)
			for j := range cfg {
				id := c.rng.Intn(256)
				fr := c.rng.Intn(65536)
				if inRange {
					id &= 0x7f
					fr &= 0x7ff
				}
				cfg[j] = xsens.CANOutputConfigurationSetting{
					CANDataIdentifier: xsens.CANDataIdentifier(id), CANIDLengthFlag: c.rng.Intn(2) == 0,
					IDMask: uint32(id), OutputFrequency: xsens.OutputFrequency(fr),
				}
				if !inRange {
					cfg[j].IDMask = c.rng.Uint32()
				}
				if c.rng.Intn(8) == 0 {
					cfg[j].OutputFrequency = 0xffff
				}
			}
			r := "RPan"
			var b []byte
			protect(func() {
				var err error
				if b, err = cfg.MarshalBinary(); err != nil {
					r = "RErr"
				} else {
					r = "(ROk " + nlist(b) + ")"
				}
			})
			c.emit("comar", tup(csetsTerm(cfg), r))
			// decode: fresh and reused receivers (an earlier decode leaves flags set in the backing array)
			if b != nil {
				var fresh xsens.CANOutputConfiguration
				coUnm(&fresh, b, 0)
				reused := mkc(c.rng.Intn(6), c.rng.Intn(40))
				coUnm(&reused, b, 0)
				reused = reused[:0]
				coUnm(&reused, c.payload(8*c.rng.Intn(6)+c.rng.Intn(8)), c.rng.Intn(2)*3)
			}
			// arbitrary byte strings 0..256 with exact capacity
			d := c.payload(c.rng.Intn(257))
			dst := mkc(c.rng.Intn(4), c.rng.Intn(10))
			coUnm(&dst, d, 0)
		}
	}

	props["C14"] = func(c *ctx) {
		var bigFirst int // when > 0: an unrelated frame with that many data bytes precedes the reply
		var again []byte // when set: the same query is made once more (acknowledge payload `again`) before the first result is looked at
		var cutCk bool   // when set: the reply arrives in two reads, the second one being its checksum byte alone
		query := func(name string, ack xsens.MessageIdentifier, payload []byte) {
			stream := []byte(xsens.NewMessage(xsens.MessageIdentifierWakeup, nil))
			if bigFirst > 0 {
				stream = append(stream, xsens.NewMessage(xsens.MessageIdentifierMTData2, make([]byte, bigFirst))...)
			}
			stream = append(stream, xsens.NewMessage(ack, payload)...)
			if again != nil {
				stream = append(stream, xsens.NewMessage(ack, again)...)
			}
			var sched []int
			if cutCk && again == nil {
				sched = []int{len(stream) - 1, 1}
			}
			rd := &chunkReader{data: stream, sched: sched, final: io.EOF}
			if c.rng.Intn(4) == 0 {
				// the port fails in the very read that brings the (last) reply: the frames it holds come first
				rd.final, rd.ewd = &portError{code: 6}, true
				c.count("reply-with-a-failing-read")
			}
			port := &scriptedPort{r: rd}
			cl := xsens.NewClient(port)
			ctx := context.Background()
			r := "RPan"
			zlist := func(xs []int64) string {
				var parts []string
				for _, x := range xs {
					parts = append(parts, zs(x))
				}
				return "(ROk [" + strings.Join(parts, ";") + "]%Z)"
			}
			res := "RPan"
			returned := guarded(func() {
				protect(func() {
					switch name {
					case "GetDeviceID":
						v, err := cl.GetDeviceID(ctx)
						if err != nil {
							r = "RErr"
							if v != nil {
								r = "RPan" // a partially filled value returned with an error
							}
						} else {
							r = zlist([]int64{int64(*v)})
						}
					case "GetHWVersion":
						v, err := cl.GetHWVersion(ctx)
						if err != nil {
							r = "RErr"
							if v != nil {
								r = "RPan"
							}
						} else {
							var a, b int64 = -1, -1
							if _, e := fmt.Sscanf(string(*v), "%d.%d", &a, &b); e != nil || fmt.Sprintf("%d.%d", a, b) != string(*v) {
								a, b = -1, -1
							}
							r = zlist([]int64{a, b})
						}
					case "GetProductCode":
						v, err := cl.GetProductCode(ctx)
						if err != nil {
							r = "RErr"
						} else {
							var xs []int64
							for _, ch := range []byte(*v) {
								xs = append(xs, int64(ch))
							}
							r = zlist(xs)
						}
					case "GetOutputConfiguration":
						v, err := cl.GetOutputConfiguration(ctx)
						if again != nil && err == nil {
							_, _ = cl.GetOutputConfiguration(ctx)
						}
						if err != nil {
							r = "RErr"
							if v != nil {
								r = "RPan"
							}
						} else {
							var xs []int64
							for _, s := range v {
								xs = append(xs, int64(s.DataType), int64(s.CoordinateSystem), int64(s.Precision), int64(s.OutputFrequency))
							}
							r = zlist(xs)
						}
					case "GetCANOutputConfiguration":
						v, err := cl.GetCANOutputConfiguration(ctx)
						if again != nil && err == nil {
							_, _ = cl.GetCANOutputConfiguration(ctx)
						}
						if err != nil {
							r = "RErr"
							if v != nil {
								r = "RPan"
							}
						} else {
							var xs []int64
							for _, s := range v {
								fl := int64(0)
								if s.CANIDLengthFlag {
									fl = 1
								}
								xs = append(xs, int64(s.CANDataIdentifier), fl, int64(s.IDMask), int64(s.OutputFrequency))
							}
							r = zlist(xs)
						}
					case "GetCANConfiguration":
						v, err := cl.GetCANConfiguration(ctx)
						if again != nil && err == nil {
							_, _ = cl.GetCANConfiguration(ctx)
						}
						if err != nil {
							r = "RErr"
							if v != nil {
								r = "RPan"
							}
						} else {
							e := int64(0)
							if v.Enable {
								e = 1
							}
							r = zlist([]int64{e, int64(v.BaudRate)})
						}
					}
				})
				res = r
			})
			if !returned {
				c.count("query-did-not-return")
			}
			r = res // a call that does not return is reported like a panic
			c.emit("query", tup("\""+name+"\"", nlist(payload), r))
		}
		ascii := func(n int) []byte {
			ws := []byte{' ', '\t', '\n', '\v', '\f', '\r'}
			b := make([]byte, n)
			l, r := c.rng.Intn(n/2+1), c.rng.Intn(n/2+1)
			for i := range b {
				switch {
				case i < l || i >= n-r:
					b[i] = ws[c.rng.Intn(len(ws))]
				case c.rng.Intn(9) == 0:
					b[i] = ws[c.rng.Intn(len(ws))] // inner whitespace is kept
				default:
					b[i] = byte(33 + c.rng.Intn(94))
				}
			}
			return b
		}
		qs := []struct {
			name string
			ack  xsens.MessageIdentifier
		}{
			{"GetDeviceID", xsens.MessageIdentifierDeviceID}, {"GetHWVersion", xsens.MessageIdentifierHWVersion},
			{"GetProductCode", xsens.MessageIdentifierProductCode}, {"GetOutputConfiguration", xsens.MessageIdentifierReqOutputConfigurationAck},
			{"GetCANOutputConfiguration", xsens.MessageIdentifierReqCANOutputConfigAck}, {"GetCANConfiguration", xsens.MessageIdentifierReqCANConfigAck},
		}
		for _, q := range qs {
			for n := 0; n <= 254; n++ {
				if !c.thorough() && n > 24 && n%8 != 0 && n < 250 {
					continue
				}
				reps := 1
				if n <= 9 {
					reps = 3
				}
				for k := 0; k < reps; k++ {
					if q.name == "GetProductCode" {
						query(q.name, q.ack, ascii(n))
					} else {
						query(q.name, q.ack, c.payload(n))
					}
				}
			}
			// extended-length acknowledges
			if q.name != "GetProductCode" {
				query(q.name, q.ack, c.payload(255+c.rng.Intn(300)))
				query(q.name, q.ack, c.payload(255))
				query(q.name, q.ack, c.payload(256))
			}
		}
		// product codes padded with NUL bytes (a fixed-width field of a device that pads with zeros): kept, never a reason to
		// hang; and every reply once more with its checksum byte arriving in a read of its own
		for _, pc := range [][]byte{{0}, {0, 0, 0, 0}, []byte("MTi-G-710\x00"), []byte("MTi-G-710\x00\x00\x00"), []byte("MTi-30 \x00  "), []byte(" \x00MTi"), []byte("MTi\x00 \x00")} {
			query("GetProductCode", xsens.MessageIdentifierProductCode, pc)
		}
		cutCk = true
		for _, q := range qs {
			for _, n := range []int{0, 1, 4, 8, 12, 16, 20, 254, 255, 256} {
				if q.name == "GetProductCode" {
					if n < 255 {
						query(q.name, q.ack, ascii(n))
					}
				} else {
					query(q.name, q.ack, c.payload(n))
				}
			}
		}
		cutCk = false
		// the largest frames a device may send, in front of the reply
		for _, q := range qs {
			for _, big := range []int{2046, 2047, 2048} {
				bigFirst = big
				if q.name == "GetProductCode" {
					query(q.name, q.ack, ascii(12))
				} else {
					query(q.name, q.ack, c.payload(8))
				}
			}
		}
		bigFirst = 0
		// a result belongs to the caller: it is looked at after the same query has been answered again (same size,
		// shorter, longer)
		for _, q := range qs[3:] {
			unit := map[string]int{"GetOutputConfiguration": 4, "GetCANOutputConfiguration": 8, "GetCANConfiguration": 4}[q.name]
			for k := 0; k < c.pick(30, 300); k++ {
				n1 := 1 + c.rng.Intn(6)
				n2 := []int{n1, c.rng.Intn(n1 + 1), n1 + c.rng.Intn(3)}[c.rng.Intn(3)]
				if q.name == "GetCANConfiguration" {
					n1, n2 = 1, 1
				}
				again = c.payload(unit * n2)
				if len(again) == 0 {
					again = []byte{}
				}
				query(q.name, q.ack, c.payload(unit*n1))
				c.count("result-examined-after-a-later-query")
			}
		}
		again = nil
		query("GetProductCode", xsens.MessageIdentifierProductCode, []byte("MTi-680G-8A1G6      "))
		query("GetProductCode", xsens.MessageIdentifierProductCode, []byte("\f\v"))
		query("GetProductCode", xsens.MessageIdentifierProductCode, []byte(" \tMTi 30 \r\n"))
	}
}
