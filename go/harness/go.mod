module harness

go 1.23

require go.einride.tech/xsens v0.0.0

replace go.einride.tech/xsens => /repo
