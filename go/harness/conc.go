package main

import (
	"context"
	"fmt"
	"io"
	"reflect"
	"runtime"
	"sync"
	"sync/atomic"
	"time"

	"go.einride.tech/xsens"
	"go.einride.tech/xsens/xsensemulator"
)

// duplex: two pipes forming a lossless in-memory link
type duplexEnd struct {
	r io.ReadCloser
	w io.WriteCloser
}

func (d *duplexEnd) Read(p []byte) (int, error)  { return d.r.Read(p) }
func (d *duplexEnd) Write(p []byte) (int, error) { return d.w.Write(p) }
func (d *duplexEnd) Close() error                { d.r.Close(); return d.w.Close() }

// bufPipe is a buffered, lossless, unidirectional byte pipe (writes never block).
type bufPipe struct {
	mu     sync.Mutex
	cond   *sync.Cond
	buf    []byte
	closed bool
}

func newBufPipe() *bufPipe { p := &bufPipe{}; p.cond = sync.NewCond(&p.mu); return p }
func (p *bufPipe) Write(b []byte) (int, error) {
	p.mu.Lock()
	defer p.mu.Unlock()
	if p.closed {
		return 0, io.ErrClosedPipe
	}
	p.buf = append(p.buf, b...)
	p.cond.Broadcast()
	return len(b), nil
}
func (p *bufPipe) Read(b []byte) (int, error) {
	p.mu.Lock()
	defer p.mu.Unlock()
	for len(p.buf) == 0 && !p.closed {
		p.cond.Wait()
	}
	if len(p.buf) == 0 {
		return 0, io.EOF
	}
	n := copy(b, p.buf)
	p.buf = p.buf[n:]
	return n, nil
}
func (p *bufPipe) Close() error {
	p.mu.Lock()
	p.closed = true
	p.cond.Broadcast()
	p.mu.Unlock()
	return nil
}

// trickleEnd limits every Read to a few bytes: read boundaries then fall at every offset of a frame
type trickleEnd struct {
	*duplexEnd
	max int
}

func (t *trickleEnd) Read(p []byte) (int, error) {
	if len(p) > t.max {
		p = p[:t.max]
	}
	return t.duplexEnd.Read(p)
}

// link returns the two ends of a duplex link: synchronous (io.Pipe) or buffered.
func link(buffered bool) (a, b *duplexEnd) {
	if buffered {
		p1, p2 := newBufPipe(), newBufPipe()
		return &duplexEnd{r: p1, w: p2}, &duplexEnd{r: p2, w: p1}
	}
	r1, w1 := io.Pipe()
	r2, w2 := io.Pipe()
	return &duplexEnd{r: r1, w: w2}, &duplexEnd{r: r2, w: w1}
}

// two configurations that contain LatLon exactly once, at opposite ends, with different precisions; the slot LatLon
// occupies in one configuration holds a type with a non-default coordinate system in the other, and every
// coordinate-system type changes its coordinate system between the two
func mixConfigs() (a, b xsens.OutputConfiguration, idA, idB uint16) {
	mk := func(latlonFirst bool, prec xsens.Precision, cs xsens.CoordinateSystem) xsens.OutputConfiguration {
		var cfg xsens.OutputConfiguration
		ll := xsens.OutputConfigurationSetting{DataIdentifier: xsens.DataIdentifier{DataType: xsens.DataTypeLatLon, Precision: prec}, OutputFrequency: 100}
		if latlonFirst {
			cfg = append(cfg, ll)
		}
		set := func(t xsens.DataType) {
			id := xsens.DataIdentifier{DataType: t, Precision: prec}
			if t.HasCoordinateSystem() {
				id.CoordinateSystem = cs
			}
			cfg = append(cfg, xsens.OutputConfigurationSetting{DataIdentifier: id, OutputFrequency: 100})
		}
		set(xsens.DataTypeEulerAngles)
		for _, t := range supportedTypes {
			if t != xsens.DataTypeLatLon && t != xsens.DataTypeEulerAngles && t != xsens.DataTypeQuaternion {
				set(t)
			}
		}
		set(xsens.DataTypeQuaternion)
		if !latlonFirst {
			cfg = append(cfg, ll)
		}
		return cfg
	}
	a = mk(true, xsens.PrecisionFloat64, xsens.CoordinateSystemNorthEastDown)
	b = mk(false, xsens.PrecisionFP1632, xsens.CoordinateSystemNorthWestUp)
	idA = (xsens.DataIdentifier{DataType: xsens.DataTypeLatLon, Precision: xsens.PrecisionFloat64}).Uint16()
	idB = (xsens.DataIdentifier{DataType: xsens.DataTypeLatLon, Precision: xsens.PrecisionFP1632}).Uint16()
	return
}

// number of scenarios in which a hammering goroutine never came back
var hungScenarios int

// concurrentScenario: one receive loop driven by a client that alternates two configurations, while other
// goroutines call the emulator's methods in free-running loops.  Returns the identifiers concurrent encodes saw.
func concurrentScenario(rounds, hammerers int, buffered bool, all bool) (seen map[int64]int, cmdErrs int) {
	ce, ee := link(buffered)
	emu := xsensemulator.NewEmulator(ee)
	cl := xsens.NewClient(ce)
	ctx, cancel := context.WithCancel(context.Background())
	done := make(chan struct{})
	go func() { protect(func() { _ = emu.Receive(ctx) }); close(done) }()
	cfgA, cfgB, _, _ := mixConfigs()
	if err := cl.SetOutputConfiguration(ctx, cfgA); err != nil {
		cmdErrs++
	}
	var stop int32
	var wg sync.WaitGroup
	var mu sync.Mutex
	seen = map[int64]int{}
	ll := &xsens.LatLon{Lat: 1, Lon: 2}
	for h := 0; h < hammerers; h++ {
		wg.Add(1)
		go func(h int) {
			defer wg.Done()
			local := map[int64]int{}
			for i := 0; atomic.LoadInt32(&stop) == 0; i++ {
				p, err := emu.MarshalMessage(ll, xsens.DataTypeLatLon)
				if err != nil || len(p) < 2 {
					local[-1]++
				} else {
					local[int64(p[0])<<8|int64(p[1])]++ // the header as written, not decoded again by the library
				}
				if all {
					switch (i + h) % 4 {
					case 0:
						_ = emu.LastMessageIdentifier()
					case 1:
						_ = emu.Transmit(xsens.NewMessage(xsens.MessageIdentifierWakeup, nil))
					case 2:
						if h%2 == 1 {
							emu.SetSendMode()
						}
					}
				}
				if i%7 == 0 {
					runtime.Gosched()
				}
			}
			mu.Lock()
			for k, v := range local {
				seen[k] += v
			}
			mu.Unlock()
		}(h)
	}
	// the client must keep reading what Transmit writes; a drain goroutine is not possible on one client, so in
	// the "all" scenario frames are only transmitted while the client is inside a command (it skips them)
	for r := 0; r < rounds; r++ {
		cfg := cfgA
		if r%2 == 0 {
			cfg = cfgB
		}
		if err := cl.SetOutputConfiguration(ctx, cfg); err != nil {
			cmdErrs++
			break
		}
		if all && r%5 == 0 {
			if err := cl.GoToConfig(ctx); err != nil {
				cmdErrs++
				break
			}
		}
	}
	atomic.StoreInt32(&stop, 1)
	// unblock hammerers stuck in Transmit on a synchronous link
	go func() {
		buf := make([]byte, 4096)
		for {
			if _, err := ce.Read(buf); err != nil {
				return
			}
		}
	}()
	// a call that never returns (for instance a lock taken on a copy of a held mutex) must not hang the check
	waited := make(chan struct{})
	go func() { wg.Wait(); close(waited) }()
	select {
	case <-waited:
	case <-time.After(20 * time.Second):
		hungScenarios++
	}
	cancel()
	ce.Close()
	ee.Close()
	select {
	case <-done:
	case <-time.After(5 * time.Second):
	}
	return
}

func init() {
	props["C17"] = func(c *ctx) {
		// the methods the emulator exports: each must be in the generated skeleton and disciplined
		t := reflect.TypeOf(&xsensemulator.Emulator{})
		for i := 0; i < t.NumMethod(); i++ {
			c.emit("skel", tup("\""+t.Method(i).Name+"\"", "true"))
		}
		c.mixCases(c.pick(300, 3000), []int{2, 4, 16})
	}
	// run under the race detector by the driver (bin/harness_race): every method hammered while commands flow
	props["C17race"] = func(c *ctx) {
		for _, procs := range []int{2, 4, 16} {
			old := runtime.GOMAXPROCS(procs)
			for _, buffered := range []bool{false, true} {
				seen, errs := concurrentScenario(c.pick(150, 1500), 2+c.rng.Intn(3), buffered, true)
				for _, n := range seen {
					c.dist["encodes-observed"] += n
				}
				c.dist["command-errors"] += errs
			}
			runtime.GOMAXPROCS(old)
			if hungScenarios > 0 {
				break
			}
		}
		if hungScenarios > 0 {
			fmt.Println("HANG: a call on the emulator made from another goroutine while the receive loop runs never returned")
			c.dist["hung-scenarios"] += hungScenarios
		}
		c.emit("race", "0")
	}
}

// mixCases: a client alternates two configurations through the receive loop while other goroutines encode a type both
// contain; every packet header they get must be that type's identifier in one of the two configurations
func (c *ctx) mixCases(rounds int, procsList []int) {
	_, _, idA, idB := mixConfigs()
	allowed := "[" + zs(int64(idA)) + ";" + zs(int64(idB)) + "]"
	for _, procs := range procsList {
		old := runtime.GOMAXPROCS(procs)
		for _, buffered := range []bool{false, true} {
			seen, errs := concurrentScenario(rounds, 1+c.rng.Intn(4), buffered, false)
			for id, n := range seen {
				c.emit("mix", tup(zs(id), allowed))
				c.dist["encodes-observed"] += n
			}
			c.dist["command-errors"] += errs
			if hungScenarios > 0 {
				break
			}
		}
		runtime.GOMAXPROCS(old)
	}
	if hungScenarios > 0 {
		// not an identifier any configuration has: the oracle rejects it
		c.emit("mix", tup("(-2)", allowed))
		c.dist["hung-scenarios"] += hungScenarios
	}
}
