package main

// filled in by client.go
func (c *ctx) clientCorruptStreams() {}
func (c *ctx) clientStreams()        {}
