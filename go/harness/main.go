// Command harness runs the implementation (/repo, current working tree) on generated inputs and
// writes, per case kind, one Coq term per line: the input and the projected observable.
// The same lines are evaluated by the Gallina model inside Coq (coq/Run/Eval.v).
//
//	harness <property> <tier> <seed> <outdir>
package main

import (
	"encoding/json"
	"fmt"
	"math/rand"
	"os"
	"path/filepath"
	"sort"
	"strconv"
	"strings"
	"sync/atomic"
	"time"
)

type kindOut struct {
	lines []string
	seen  map[string]bool
}

type ctx struct {
	emuReconf int // counter: every n-th emulator encoding goes through a reconfiguration
	prop      string
	tier      string
	seed      int64
	rng       *rand.Rand
	kinds     map[string]*kindOut
	dist      map[string]int // input distribution counters
	notes     []string
}

func (c *ctx) thorough() bool { return c.tier == "thorough" }

// emit adds one case (a Coq term) of the given kind; duplicates are dropped.
func (c *ctx) emit(kind, term string) {
	atomic.AddInt64(&progress, 1)
	k := c.kinds[kind]
	if k == nil {
		k = &kindOut{seen: map[string]bool{}}
		c.kinds[kind] = k
	}
	if k.seen[term] {
		c.dist["duplicate-dropped"]++
		return
	}
	k.seen[term] = true
	k.lines = append(k.lines, term)
}

func (c *ctx) count(key string) { atomic.AddInt64(&progress, 1); c.dist[key]++ }

var progress int64

// pick scales a case count by tier.
func (c *ctx) pick(quick, thorough int) int {
	if c.thorough() {
		return thorough
	}
	return quick
}

// ---- Coq term rendering ----

func nlist(b []byte) string {
	var sb strings.Builder
	sb.WriteByte('[')
	for i, x := range b {
		if i > 0 {
			sb.WriteByte(';')
		}
		sb.WriteString(strconv.Itoa(int(x)))
	}
	sb.WriteByte(']')
	return sb.String()
}

func zs(v int64) string {
	if v < 0 {
		return "(" + strconv.FormatInt(v, 10) + ")"
	}
	return strconv.FormatInt(v, 10)
}

func us(v uint64) string { return strconv.FormatUint(v, 10) }

func cbool(b bool) string {
	if b {
		return "true"
	}
	return "false"
}

func tup(parts ...string) string { return "(" + strings.Join(parts, ", ") + ")" }

func some(s string) string { return "(Some " + s + ")" }

// protect runs f and reports whether it panicked.
func protect(f func()) (panicked bool, msg string) {
	defer func() {
		if r := recover(); r != nil {
			panicked = true
			msg = fmt.Sprint(r)
		}
	}()
	f()
	return false, ""
}

// exact returns a copy of b whose capacity equals its length (so out-of-range slicing panics).
func exact(b []byte) []byte {
	out := make([]byte, len(b))
	copy(out, b)
	return out[:len(b):len(b)]
}

// roomy returns a copy of b with extra capacity filled with a recognisable pattern.
func roomy(b []byte, extra int) []byte {
	out := make([]byte, len(b)+extra)
	copy(out, b)
	for i := len(b); i < len(out); i++ {
		out[i] = 0xA5
	}
	return out[:len(b)]
}

var props = map[string]func(*ctx){}

func main() {
	if len(os.Args) != 5 {
		fmt.Fprintln(os.Stderr, "usage: harness <property> <tier> <seed> <outdir>")
		os.Exit(2)
	}
	seed, err := strconv.ParseInt(os.Args[3], 10, 64)
	if err != nil {
		fmt.Fprintln(os.Stderr, "bad seed")
		os.Exit(2)
	}
	c := &ctx{prop: os.Args[1], tier: os.Args[2], seed: seed, rng: rand.New(rand.NewSource(seed)),
		kinds: map[string]*kindOut{}, dist: map[string]int{}}
	// a generator that completes no case for three minutes is stuck in the code under test: say so and stop, instead of
	// running into the driver's 15-minute limit
	go func() {
		last, since := int64(-1), time.Now()
		for {
			time.Sleep(5 * time.Second)
			if p := atomic.LoadInt64(&progress); p != last {
				last, since = p, time.Now()
			} else if time.Since(since) > 3*time.Minute {
				fmt.Fprintln(os.Stderr, "fatal error: harness stalled: no case completed for three minutes (the code under test does not return)")
				os.Exit(3)
			}
		}
	}()
	f, ok := props[c.prop]
	if !ok {
		fmt.Fprintln(os.Stderr, "unknown property", c.prop)
		os.Exit(2)
	}
	f(c)
	out := os.Args[4]
	if err := os.MkdirAll(out, 0o755); err != nil {
		fmt.Fprintln(os.Stderr, err)
		os.Exit(2)
	}
	counts := map[string]int{}
	var names []string
	for k := range c.kinds {
		names = append(names, k)
	}
	sort.Strings(names)
	for _, k := range names {
		ko := c.kinds[k]
		counts[k] = len(ko.lines)
		if err := os.WriteFile(filepath.Join(out, k+".cases"), []byte(strings.Join(ko.lines, "\n")+"\n"), 0o644); err != nil {
			fmt.Fprintln(os.Stderr, err)
			os.Exit(2)
		}
	}
	meta := map[string]interface{}{"property": c.prop, "tier": c.tier, "seed": c.seed, "kinds": counts,
		"distribution": c.dist, "notes": c.notes}
	b, _ := json.MarshalIndent(meta, "", " ")
	if err := os.WriteFile(filepath.Join(out, "meta.json"), b, 0o644); err != nil {
		fmt.Fprintln(os.Stderr, err)
		os.Exit(2)
	}
}
