package main

import (
	"strings"

	"go.einride.tech/xsens"
)

func coqStr(s string) string { return "\"" + strings.ReplaceAll(s, "\"", "\"\"") + "\"" }

func init() {
	props["C20"] = func(c *ctx) {
		unm := func(text string) int64 {
			var id xsens.CANDataIdentifier = 0xee
			r := int64(-1)
			protect(func() {
				if err := id.UnmarshalText([]byte(text)); err == nil {
					r = int64(id)
				}
			})
			return r
		}
		var names []string
		for v := 0; v < 256; v++ {
			s := xsens.CANDataIdentifier(v).String()
			names = append(names, s)
			c.emit("canid", tup(zs(int64(v)), coqStr(s), zs(unm(s))))
		}
		// near-miss and random texts
		texts := []string{"", " ", "Invalid ", " Invalid", "invalid", "INVALID", "Invali", "Invalidd", "CANDataIdentifierInvalid",
			"CANDataIdentifier(0)", "CANDataIdentifier(121)", "CANDataIdentifier(300)", "0", "121", "LatLon", "latlong", "LatLong\x00",
			"GnssReceiverStatus", "GnssReceiverStatu", "GnssReceiverStatuss", "AltitudeEllipsoid", "PositionEcefX", "PositionEcefW"}
		for _, n := range names {
			if len(n) > 0 && !strings.HasPrefix(n, "CANDataIdentifier(") {
				texts = append(texts, n[:len(n)-1], n+"x", strings.ToLower(n), strings.ToUpper(n), n[1:], " "+n)
				b := []byte(n)
				b[c.rng.Intn(len(b))] ^= 0x20
				texts = append(texts, string(b))
			}
		}
		for i := 0; i < c.pick(100, 2000); i++ {
			n := c.rng.Intn(20)
			b := make([]byte, n)
			for j := range b {
				b[j] = byte(33 + c.rng.Intn(94))
			}
			texts = append(texts, string(b))
		}
		for _, t := range texts {
			if strings.ContainsAny(t, "\"\x00") {
				continue
			}
			c.emit("cantext", tup(coqStr(t), zs(unm(t))))
		}
		// baud rates: the 13 supported ones and a sweep of others
		rates := []int{5000, 10000, 20000, 33300, 50000, 62500, 83300, 100000, 125000, 250000, 500000, 800000, 1000000,
			0, -1, 1, 4999, 5001, 33333, 83333, 33000, 999999, 1000001, 2000000, 9600, 115200, -5000, 1 << 31, -(1 << 31), 1 << 40}
		for i := 0; i < c.pick(300, 5000); i++ {
			rates = append(rates, c.rng.Intn(1100000))
		}
		for _, r := range rates {
			id, _ := xsens.CANBaudRate(r).ID()
			c.emit("baud", tup(zs(int64(r)), zs(int64(id))))
		}
		for m := 0; m < 256; m++ {
			mid := xsens.MessageIdentifier(m)
			c.emit("ack", tup(zs(int64(m)), zs(int64(mid.Ack())), cbool(mid.IsAck())))
		}
		c.notes = append(c.notes, "exhaustive: 256 CAN identifier values, 256 message identifiers")
	}
}
